"""Shared machinery of the per-module search engines c01/c02/c03/c04/c14/c15.

Only stdlib + tools/common.py.  Everything that touches python-stdnum does so in-process through the
modules returned by common.number_modules() (the working tree in /repo; never written to).

Determinism: all randomness comes from random.Random seeded by sha256(seed, property, module, part); no
iteration over sets of strings (hash randomisation) - sets are sorted before they are walked; worker results
are merged in task order.
"""
import datetime
import hashlib
import heapq
import inspect
import itertools
import json
import multiprocessing
import os
import random
import re
import signal
import sys
import time
import traceback
import unicodedata

sys.path.insert(0, os.path.dirname(os.path.dirname(os.path.abspath(__file__))))   # tools/
import common   # noqa: E402

VE = common.validation_error_class()
STDNUM_DIR = os.path.join(os.path.abspath(common.REPO), 'stdnum') + os.sep
NPROC = int(os.environ.get('VERIF_NPROC', '16'))
FAILING_CAP = 200
KEEP_PER_SITE = 3


# ----------------------------------------------------------------------------- small helpers

def relfile(mod):
    return os.path.relpath(os.path.abspath(mod.__file__), os.path.abspath(common.REPO))


def task_rng(seed, *labels):
    h = hashlib.sha256(('%d|' % seed + '|'.join(str(x) for x in labels)).encode()).digest()
    return random.Random(int.from_bytes(h[:8], 'big'))


def site_of_exception(e, mod, fn):
    """`<relative file>:<function>:<source line>` of the innermost frame inside /repo/stdnum"""
    last = None
    name = None
    for fr in traceback.extract_tb(e.__traceback__):
        if os.path.abspath(fr.filename).startswith(STDNUM_DIR):
            if last is None or fr.filename != last.filename or not fr.name.startswith('<'):
                name = fr.name      # <genexpr>/<lambda>/<listcomp> frames are attributed to the enclosing function
            last = fr
    if last is None:
        return '%s:%s:<no stdnum frame: %s>' % (relfile(mod), fn, type(e).__name__)
    return '%s:%s:%s' % (os.path.relpath(os.path.abspath(last.filename), os.path.abspath(common.REPO)),
                         name, (last.line or '').strip())


class CallTimeout(BaseException):
    pass


def _alarm(signum, frame):
    raise CallTimeout()


def call(mod, fn, f, args, kwargs=None, timeout=0):
    """-> ('ok', value, None) | ('verr', class name, None) | ('exc', class name, site) | ('timeout', '', None)"""
    kwargs = kwargs or {}
    if timeout:
        signal.signal(signal.SIGALRM, _alarm)
        signal.alarm(timeout)
    try:
        try:
            return ('ok', f(*args, **kwargs), None)
        finally:
            if timeout:
                signal.alarm(0)
    except VE as e:
        return ('verr', type(e).__name__, None)
    except CallTimeout:
        return ('timeout', '', None)
    except Exception as e:   # noqa: B902
        return ('exc', type(e).__name__, site_of_exception(e, mod, fn))


def accepted_class(o):
    """reduce an outcome to what C03 compares: ('ok', value) or ('rej',)"""
    return ('ok', o[1]) if o[0] == 'ok' else ('rej',)


# ----------------------------------------------------------------------------- hostile non-string values

class StrSub(str):
    """a well-behaved str subclass"""


class BadStr:
    def __init__(self, payload=''):
        self.payload = payload

    def __str__(self):
        raise RuntimeError('hostile __str__')

    def __repr__(self):
        return '<BadStr %r>' % self.payload

    def __iter__(self):
        return iter(self.payload)

    def __len__(self):
        return len(self.payload)


class BadIter:
    def __init__(self, payload=''):
        self.payload = payload

    def __iter__(self):
        raise RuntimeError('hostile __iter__')

    def __str__(self):
        return self.payload

    def __repr__(self):
        return '<BadIter %r>' % self.payload

    def __len__(self):
        return len(self.payload)


class BadLen:
    def __init__(self, payload=''):
        self.payload = payload

    def __len__(self):
        raise RuntimeError('hostile __len__')

    def __iter__(self):
        return iter(self.payload)

    def __str__(self):
        return self.payload

    def __repr__(self):
        return '<BadLen %r>' % self.payload


class BadAll:
    def __init__(self, payload=''):
        self.payload = payload

    def __len__(self):
        raise KeyError('hostile __len__')

    def __iter__(self):
        raise OSError('hostile __iter__')

    def __str__(self):
        raise ZeroDivisionError('hostile __str__')

    def __repr__(self):
        return '<BadAll>'


class IterOnly:
    """a non-string that iterates over the characters of the payload (clean() joins it)"""

    def __init__(self, payload=''):
        self.payload = payload

    def __iter__(self):
        return iter(self.payload)

    def __repr__(self):
        return '<IterOnly %r>' % self.payload


EXTRA_CLASSES = {'StrSub': StrSub, 'BadStr': BadStr, 'BadIter': BadIter, 'BadLen': BadLen, 'BadAll': BadAll,
                 'IterOnly': IterOnly}


def nonstring_specs(payloads):
    """replayable specifications of all non-string inputs: [('ns', i)] + [('extra', cls, payload)]"""
    specs = [('ns', i) for i in range(len(common.non_strings()))]
    for p in payloads:
        for name in sorted(EXTRA_CLASSES):
            specs.append(('extra', name, p))
    return specs


def build_spec(spec):
    """fresh object for a specification (iterators are consumed by a call, so never share them)"""
    if spec[0] == 'ns':
        return common.non_strings()[spec[1]]
    return EXTRA_CLASSES[spec[1]](spec[2])


def describe_spec(spec):
    x = build_spec(spec)
    d = {'kind': type(x).__name__, 'repr': repr(x)[:200]}
    if spec[0] == 'ns':
        d['non_strings_index'] = spec[1]
    else:
        d['extra_class'] = spec[1]
        d['payload'] = [ord(c) for c in spec[2]]
    return d


def describe_arg(x):
    """common.describe, plus loss-free description of very long strings (unit x times)"""
    if isinstance(x, str) and type(x) is str and len(x) > 10000:
        for ulen in range(1, 64):
            if len(x) % ulen == 0 and x[:ulen] * (len(x) // ulen) == x:
                return {'kind': 'str', 'codepoints': [ord(c) for c in x[:ulen]], 'times': len(x) // ulen}
        return {'kind': 'str', 'codepoints': [ord(c) for c in x], 'times': 1}
    if isinstance(x, str) and type(x) is not str:
        return {'kind': type(x).__name__, 'repr': repr(x)[:200], 'extra_class': 'StrSub',
                'payload': [ord(c) for c in x]}
    return common.describe(x)


def rebuild_arg(d):
    if 'non_strings_index' in d:
        return common.non_strings()[d['non_strings_index']]
    if 'extra_class' in d:
        return EXTRA_CLASSES[d['extra_class']](''.join(chr(c) for c in d['payload']))
    if d.get('kind') == 'str' and 'times' in d:
        return ''.join(chr(c) for c in d['codepoints']) * d['times']
    if d.get('kind') == 'tuple_of_tuples':
        return tuple(tuple(r) for r in d['rows'])
    return common.rebuild(d)


def describe_kwargs(kw):
    out = {}
    for k, v in kw.items():
        if isinstance(v, tuple) and v and isinstance(v[0], tuple):
            out[k] = {'kind': 'tuple_of_tuples', 'rows': [list(r) for r in v]}
        else:
            out[k] = describe_arg(v)
    return out


def make_case(modname, fn, args, kwargs, observed, expected, site, relation, today=None, arg_descr=None, **extra):
    case = {'module': modname, 'function': fn,
            'args': arg_descr if arg_descr is not None else [describe_arg(a) for a in args],
            'observed': observed, 'expected': expected, 'site': site, 'relation': relation}
    if kwargs:
        case['kwargs'] = describe_kwargs(kwargs)
    if today is not None:
        case['today'] = today.isoformat()
    case.update(extra)
    return case


def case_inputs(case):
    """(module, args, kwargs, today) rebuilt from a case dict"""
    mod = common.module(case['module'])
    args = [rebuild_arg(a) for a in case['args']]
    kwargs = dict((k, rebuild_arg(v)) for k, v in case.get('kwargs', {}).items())
    today = datetime.date.fromisoformat(case['today']) if case.get('today') else None
    return mod, args, kwargs, today


class _Null:
    def __enter__(self):
        return self

    def __exit__(self, *a):
        return False


def frozen(today):
    return common.frozen_today(today) if today is not None else _Null()


def wsize(kw, *xs):
    """size used to pick minimal witnesses: total length, options count, ASCII spellings preferred"""
    strs = [x for x in xs if isinstance(x, str)]
    return sum(len(x) for x in strs) + len(kw or ()) + (0.5 if any(not x.isascii() for x in strs) else 0)


def short(x, n=60):
    r = ascii(x)
    return r if len(r) <= n else r[:n - 12] + '...(len %d)' % (len(x) if hasattr(x, '__len__') else -1)


# ----------------------------------------------------------------------------- findings / statistics

class Findings:
    """violations deduplicated by (module, function, site); the KEEP_PER_SITE smallest examples are kept,
    all are counted"""

    def __init__(self):
        self.sites = {}    # key -> [count, [(size, tiebreak, case)]]

    def add(self, modname, fn, site, size, tiebreak, mk):
        """mk() builds the case dict; only called when the example is going to be kept"""
        key = (modname, fn, site)
        ent = self.sites.get(key)
        if ent is None:
            ent = self.sites[key] = [0, []]
        ent[0] += 1
        ex = ent[1]
        item = (size, tiebreak)
        if any(item == (e[0], e[1]) for e in ex):
            return
        if len(ex) < KEEP_PER_SITE:
            ex.append((size, tiebreak, mk()))
        elif item < (ex[-1][0], ex[-1][1]):
            ex[-1] = (size, tiebreak, mk())
        else:
            return
        ex.sort(key=lambda t: (t[0], t[1]))

    def export(self):
        return dict(('\x1f'.join(k), [v[0], v[1]]) for k, v in self.sites.items())

    def merge_exported(self, exp):
        for k, (n, exs) in exp.items():
            key = tuple(k.split('\x1f'))
            ent = self.sites.get(key)
            if ent is None:
                ent = self.sites[key] = [0, []]
            ent[0] += n
            seen = set((e[0], e[1]) for e in ent[1])
            for e in exs:
                e = (e[0], e[1], e[2])
                if (e[0], e[1]) not in seen:
                    ent[1].append(e)
            ent[1].sort(key=lambda t: (t[0], t[1]))
            del ent[1][KEEP_PER_SITE:]

    def failing(self, cap=FAILING_CAP):
        """list of cases: first the smallest example of every site (sorted by site), then the second ones,
        ...; cut at cap.  Every case carries `site_count` (violations counted at that site)."""
        out = []
        for rank in range(KEEP_PER_SITE):
            for key in sorted(self.sites):
                n, exs = self.sites[key]
                if rank < len(exs):
                    out.append(dict(exs[rank][2], site_count=n))
        return out if cap is None else out[:cap]

    def site_table(self):
        return dict(('%s | %s | %s' % k, self.sites[k][0]) for k in sorted(self.sites))

    def total(self):
        return sum(v[0] for v in self.sites.values())


class Stats:
    """per-task statistics: evaluations, accepted/rejected/exception counts, per generator, and the
    distinct-non-trivial measure"""

    def __init__(self):
        self.cases = 0
        self.by_outcome = {}
        self.by_gen = {}
        self.by_gen_accepted = {}
        self.first = {}      # input key -> outcome class (first seen)
        self.samples = []

    def record(self, gen, key, klass, n=1):
        """gen: generator class; key: hashable identity of the input (incl. options/date); klass: 'ok' or
        'verr:Name' or 'exc:Name'"""
        self.cases += n
        self.by_gen[gen] = self.by_gen.get(gen, 0) + 1
        k0 = klass.split(':')[0]
        self.by_outcome[k0] = self.by_outcome.get(k0, 0) + 1
        if k0 == 'ok':
            self.by_gen_accepted[gen] = self.by_gen_accepted.get(gen, 0) + 1
        if key not in self.first:
            self.first[key] = klass

    def summary(self):
        rej = {}
        acc = 0
        for k in self.first.values():
            if k == 'ok':
                acc += 1
            else:
                rej[k] = rej.get(k, 0) + 1
        common_rej = sorted(rej.items(), key=lambda kv: (-kv[1], kv[0]))[0] if rej else (None, 0)
        nontrivial = len(self.first) - common_rej[1]
        return {'cases': self.cases, 'distinct_inputs': len(self.first), 'distinct_accepted': acc,
                'most_common_rejection': common_rej[0], 'distinct_nontrivial': nontrivial,
                'by_outcome': self.by_outcome, 'by_gen': self.by_gen, 'by_gen_accepted': self.by_gen_accepted,
                'rejections': rej}


NONTRIVIAL_RULE = ('non-trivial = a DISTINCT input (module, argument, options, frozen date) that was accepted, or '
                   'that was rejected/failed with an outcome class (exception class name) other than the most '
                   'common rejection class of its module in this run; counted per module and summed')


def merge_results(prop, rule, results, t0, extra_distribution=None):
    """results: list (in task order) of {'module','stats':Stats.summary(),'findings':export,'samples':[]}"""
    fnd = Findings()
    per_module = {}
    tot = {'cases': 0, 'distinct_nontrivial': 0}
    by_outcome, by_gen, by_gen_acc = {}, {}, {}
    samples = []
    for r in results:
        fnd.merge_exported(r['findings'])
        s = r['stats']
        m = per_module.setdefault(r['module'], {'cases': 0, 'accepted': 0, 'rejected': 0, 'other_exception': 0,
                                                'distinct_nontrivial': 0})
        m['cases'] += s['cases']
        m['accepted'] += s['by_outcome'].get('ok', 0)
        m['rejected'] += s['by_outcome'].get('verr', 0)
        m['other_exception'] += s['by_outcome'].get('exc', 0) + s['by_outcome'].get('timeout', 0)
        m['distinct_nontrivial'] += s['distinct_nontrivial']
        tot['cases'] += s['cases']
        tot['distinct_nontrivial'] += s['distinct_nontrivial']
        for k, v in s['by_outcome'].items():
            by_outcome[k] = by_outcome.get(k, 0) + v
        for k, v in s['by_gen'].items():
            by_gen[k] = by_gen.get(k, 0) + v
        for k, v in s['by_gen_accepted'].items():
            by_gen_acc[k] = by_gen_acc.get(k, 0) + v
        for x in r.get('samples', []):
            if len(samples) < 10 and all(x.get('gen') != y.get('gen') or x.get('module') != y.get('module')
                                          for y in samples):
                samples.append(x)
    for k in fnd.sites:
        per_module.setdefault(k[0], {}).setdefault('violations', 0)
        per_module[k[0]]['violations'] += fnd.sites[k][0]
    dist = {'per_module': per_module,
            'outcomes': {'accepted': by_outcome.get('ok', 0), 'rejected': by_outcome.get('verr', 0),
                         'other_exception': by_outcome.get('exc', 0), 'timeout': by_outcome.get('timeout', 0)},
            'per_generator': by_gen, 'per_generator_accepted': by_gen_acc,
            'violations_total': fnd.total(), 'violation_sites': len(fnd.sites),
            'failing_sites': fnd.site_table(), 'modules': len(per_module),
            'timing_not_deterministic': {
                'wall_seconds': round(time.time() - t0, 2),
                'slowest_tasks_seconds': [[str(r['task']), r.get('seconds')] for r in sorted(
                    results, key=lambda r: -(r.get('seconds') or 0))[:6]],
                'task_seconds_total': round(sum(r.get('seconds') or 0 for r in results), 1)}}
    if extra_distribution:
        dist.update(extra_distribution)
    return {'property': prop, 'cases': tot['cases'], 'distinct_nontrivial': tot['distinct_nontrivial'],
            'rule': rule, 'failing': fnd.failing(), 'samples': samples[:10], 'distribution': dist}, fnd


# ----------------------------------------------------------------------------- parallel map

_WORKER = None


def _run(task):
    t = time.time()
    r = _WORKER(task)
    r['seconds'] = round(time.time() - t, 2)
    return r


def run_tasks(worker, tasks, nproc=None):
    """ordered parallel map with fork; worker must be a module level callable"""
    global _WORKER
    _WORKER = worker
    nproc = nproc or NPROC
    if nproc <= 1 or len(tasks) <= 1:
        return [_run(t) for t in tasks]
    common.corpus()           # load once before forking
    common.number_modules()
    ctx = multiprocessing.get_context('fork')
    with ctx.Pool(min(nproc, len(tasks))) as pool:
        return pool.map(_run, tasks, chunksize=1)


def module_tasks(modnames, tier, per_part):
    """[(module, part, nparts)]: modules with many valid numbers are split so that the pool stays balanced;
    the heaviest tasks are scheduled first but results are returned in this (deterministic) order"""
    tasks = []
    for name in modnames:
        n = len(common.valid_numbers(name))
        parts = max(1, min(8, -(-n // per_part))) if tier == 'thorough' else max(1, min(4, -(-n // per_part)))
        for p in range(parts):
            tasks.append((name, p, parts))
    return tasks


def schedule(tasks):
    """execution order for the pool: expensive modules (budget_scale < 1) first, then by corpus size; results are
    re-sorted by the caller, so this only affects wall time"""
    def weight(i):
        name = tasks[i][0]
        sc = budget_scale(common.module(name))
        return (-(1.0 / sc) if sc < 1 else 0.0, -len(common.valid_numbers(name)), i)
    return [tasks[i] for i in sorted(range(len(tasks)), key=weight)]


def part_slice(xs, part, nparts):
    return xs[part::nparts]


# ----------------------------------------------------------------------------- options

DAMM_TABLE = (
    (0, 2, 3, 4, 5, 6, 7, 8, 9, 1), (2, 0, 4, 1, 7, 9, 5, 3, 8, 6), (3, 7, 0, 5, 2, 8, 1, 6, 4, 9),
    (4, 1, 8, 0, 6, 3, 9, 2, 7, 5), (5, 6, 2, 9, 0, 7, 4, 1, 3, 8), (6, 9, 7, 3, 1, 0, 8, 5, 2, 4),
    (7, 5, 1, 8, 4, 2, 0, 9, 6, 3), (8, 4, 6, 2, 9, 5, 3, 0, 1, 7), (9, 8, 5, 7, 3, 1, 6, 4, 0, 2),
    (1, 3, 9, 6, 8, 4, 2, 7, 5, 0))    # the table of the damm doctest

_OPTION_VALUES = {
    ('stdnum.de.stnr', 'region'): [None, 'Sachsen', 'Thüringen', 'Nordrhein-Westfalen', 'Bayern', 'Berlin',
                                   'Hessen', 'Atlantis', ''],
    ('stdnum.de.handelsregisternummer', 'company_form'): [None, 'GmbH', 'e.K.', 'e.G.', 'PartG', 'Verein', 'KG',
                                                          'Ltd.'],
    ('stdnum.mac', 'validate_manufacturer'): [None, True, False],
    ('stdnum.damm', 'table'): [None, DAMM_TABLE],
    ('stdnum.gs1_128', 'separator'): ['', '\x1d', '~', '[FNC1]'],
    ('stdnum.luhn', 'alphabet'): ['0123456789', '0123456789abcdef', '0123456789ABCDEFGHIJKLMNOPQRSTUVWXYZ',
                                  'abcdefghij'],
    ('stdnum.iso7064.mod_37_2', 'alphabet'): ['0123456789ABCDEFGHIJKLMNOPQRSTUVWXYZ*', '0123456789X',
                                              'abcdefghijklmnopqrstuvwxyz*'],
    ('stdnum.iso7064.mod_37_36', 'alphabet'): ['0123456789ABCDEFGHIJKLMNOPQRSTUVWXYZ', '0123456789',
                                               'ABCDEFGHIJKLMNOPQRSTUVWXYZ'],
    ('stdnum.meid', 'format'): [None, 'hex', 'dec'],
}


def _at_offices():
    mod = common.module('stdnum.at.tin')
    out = []
    for v in common.valid_numbers('stdnum.at.tin', 40):
        try:
            o = mod.info(v).get('office')
        except Exception:   # noqa: B902
            o = None
        if o and o not in out:
            out.append(o)
    return [None] + out[:3] + ['Atlantis', '']


def option_values(modname, fn, param):
    """sensible (documented) values of one keyword option, the default first"""
    key = (modname, param.name)
    if key == ('stdnum.at.tin', 'office'):
        vals = _at_offices()
    elif key in _OPTION_VALUES:
        vals = list(_OPTION_VALUES[key])
    elif isinstance(param.default, bool):
        vals = [param.default, not param.default]
    elif param.name == 'separator' and isinstance(param.default, str):
        vals = [param.default]      # engines that care supply their own separators
    else:
        vals = [param.default]
    if param.default is not inspect.Parameter.empty and not any(v is param.default or v == param.default
                                                                for v in vals):
        vals.insert(0, param.default)
    return vals


def option_params(mod, fn):
    f = getattr(mod, fn, None)
    if f is None:
        return []
    try:
        ps = list(inspect.signature(f).parameters.values())
    except (TypeError, ValueError):
        return []
    return [p for p in ps[1:] if p.default is not inspect.Parameter.empty and
            p.kind in (p.POSITIONAL_OR_KEYWORD, p.KEYWORD_ONLY)]


def option_sets(mod, fn, overrides=None):
    """list of kwargs dicts for mod.fn: {} (all defaults), every option at every value with the others at
    default, and the full product when it is small (<= 16 combinations)"""
    ps = option_params(mod, fn)
    overrides = overrides or {}
    vals = dict((p.name, overrides.get(p.name) or option_values(mod.__name__, fn, p)) for p in ps)
    out = [{}]

    def push(kw):
        if not any(_kw_equal(kw, o) for o in out):
            out.append(kw)
    for p in ps:
        for v in vals[p.name]:
            push({p.name: v})
    n = 1
    for p in ps:
        n *= len(vals[p.name])
    if len(ps) > 1 and n <= 16:
        for combo in itertools.product(*[vals[p.name] for p in ps]):
            push(dict(zip([p.name for p in ps], combo)))
    return out


def _kw_equal(a, b):
    return list(a.keys()) == list(b.keys()) and all(a[k] is b[k] or (type(a[k]) is type(b[k]) and a[k] == b[k])
                                                    for k in a)


def kw_key(kw):
    return tuple((k, repr(v)) for k, v in kw.items())


def accepts(mod, fn, kw):
    names = set(p.name for p in option_params(mod, fn))
    return all(k in names for k in kw)


# ----------------------------------------------------------------------------- clock modules

_clock = None
_IMPORT_RE = re.compile(r'^\s*(?:from\s+(stdnum[\w.]*)\s+import\s+([\w, ()]+)|import\s+(stdnum[\w.]*))', re.M)
_CLOCK_RE = re.compile(r'\btoday\(\)|\bnow\(\)')


def clock_modules():
    """names of number modules that read the system date: those whose source calls today()/now() (found by
    grepping the module source) and the modules that import one of them (transitively)"""
    global _clock
    if _clock is not None:
        return _clock
    names = [m.__name__ for m in common.number_modules()]
    src = {}
    for m in common.number_modules():
        try:
            src[m.__name__] = open(m.__file__, encoding='utf-8').read()
        except OSError:
            src[m.__name__] = ''
    direct = sorted(n for n in names if _CLOCK_RE.search(src[n]))
    deps = {}
    for n in names:
        d = set()
        for m in _IMPORT_RE.finditer(src[n]):
            if m.group(3):
                d.add(m.group(3))
            else:
                base = m.group(1)
                d.add(base)
                for item in re.split(r'[,\s()]+', m.group(2)):
                    if item:
                        d.add(base + '.' + item)
        # dynamic dispatch: eu.vat / eu.oss / gs1_128 import country modules by name
        deps[n] = d
    clock = set(direct)
    changed = True
    while changed:
        changed = False
        for n in names:
            if n not in clock and deps[n] & clock:
                clock.add(n)
                changed = True
    # modules that dispatch dynamically (get_cc_module / __import__) to any other module
    for n in names:
        if n not in clock and re.search(r'get_cc_module|__import__\(', src[n]):
            clock.add(n)
    _clock = {'direct': direct, 'all': sorted(clock)}
    return _clock


QUICK_DATES = [datetime.date(2026, 9, 26), datetime.date(2000, 1, 1), datetime.date(1999, 12, 31)]
THOROUGH_DATES = QUICK_DATES + [datetime.date(1970, 1, 1), datetime.date(2024, 2, 29), datetime.date(2099, 12, 31),
                                datetime.date(2100, 1, 1), datetime.date(1900, 1, 1), datetime.date(9999, 12, 31),
                                datetime.date(1, 1, 1)]


# ----------------------------------------------------------------------------- look-alikes and decorations

_inverse = None


def char_map():
    from stdnum.util import _char_map
    return _char_map


def lookalikes():
    """{ascii char: [look-alike keys of the clean-up table]} (the identity entries excluded)"""
    global _inverse
    if _inverse is None:
        inv = {}
        for k, v in char_map().items():
            if k != v:
                inv.setdefault(v, []).append(k)
        _inverse = inv
    return _inverse


_compact_src_prefix = re.compile(r"startswith\(\s*\(?((?:\s*'[^']{1,6}'\s*,?)+)")


def prefix_candidates(mod):
    """country/format prefixes that this module may strip: literals used in startswith() in the module source
    plus the country code of the package"""
    out = []
    try:
        src = open(mod.__file__, encoding='utf-8').read()
    except OSError:
        src = ''
    for m in _compact_src_prefix.finditer(src):
        for lit in re.findall(r"'([^']{1,6})'", m.group(1)):
            if lit not in out:
                out.append(lit)
    parts = mod.__name__.split('.')
    if len(parts) == 3:
        cc = parts[1].strip('_').upper()
        if cc not in out:
            out.append(cc)
    return out[:8]


def pos_class(i, n):
    return 'lead' if i == 0 else ('trail' if i >= n else 'inner')


def char_class(c):
    """stable class label of a decoration character"""
    cm = char_map()
    if c in cm and cm[c] != c:
        return 'lookalike(%s)' % cm[c]
    if ord(c) < 128:
        return ascii(c)
    return 'U+%04X' % ord(c)


def decorations(mod, x, rng, level, with_positions=True):
    """[(label, y)] variants of x that a compact()/clean-up may regard as the same number.
    level 0: light (a handful), 1: every position for ASCII separators/whitespace + sampled look-alikes,
    2: every position for everything (separators, whitespace, all table keys, all look-alike substitutions)"""
    out = []
    n = len(x)
    cm = char_map()
    inv = lookalikes()
    add = out.append
    # case
    for lab, y in (('case:lower', x.lower()), ('case:upper', x.upper()), ('case:swap', x.swapcase())):
        if y != x:
            add((lab, y))
    # surrounding whitespace
    for w in common.WHITESPACE:
        add(('ws:lead:%s' % char_class(w), w + x))
        add(('ws:trail:%s' % char_class(w), x + w))
    add(('ws:both', ' \t' + x + '\n'))
    add(('ws:both', '\n' + x + ' \n'))
    # prefixes
    prefixes = list(prefix_candidates(mod))
    if len(x) > 2 and x[:2].isascii() and x[:2].isalpha() and x[:2].upper() not in [p.upper() for p in prefixes]:
        prefixes.append(x[:2])      # a leading two-letter code (vatin, iban, eu.*) is treated as a prefix too
    for p in prefixes:
        for lab, y in (('prefix:add', p + x), ('prefix:add-lower', p.lower() + x), ('prefix:add-space', p + ' ' + x),
                       ('prefix:add-dash', p + '-' + x), ('prefix:add-newline', p + '\n' + x)):
            add((lab, y))
        if x.upper().startswith(p.upper()) and len(x) > len(p):
            add(('prefix:strip', x[len(p):]))
            add(('prefix:lower', x[:len(p)].lower() + x[len(p):]))
            add(('prefix:space', x[:len(p)] + ' ' + x[len(p):]))
            add(('prefix:newline', x[:len(p)] + '\n' + x[len(p):]))
            add(('prefix:double', x[:len(p)] + x))
    # spread: the whole number re-grouped with (multi-character) separators - the length of the presentation grows
    # well beyond the canonical length while the compact form stays the same (pre-checks on the raw text show here)
    core = ''.join(ch for ch in x if ch.isalnum())
    if 4 <= len(core) == sum(1 for ch in x if not ch.isspace() and ch not in '-.') :
        for sep in (' ', '-', ' - ', '  ', '. '):
            for k in (1, 2, 4):
                y = sep.join(core[i:i + k] for i in range(0, len(core), k))
                if y != x:
                    add(('spread:%d' % k, y))
    seps = common.SEPARATORS
    wss = common.WHITESPACE
    keys = [k for k in cm if cm[k] != k]
    if level == 0:
        for _ in range(6):
            i = rng.randrange(n + 1)
            c = rng.choice(seps + wss)
            add(('insert:%s:%s' % (char_class(c), pos_class(i, n)), x[:i] + c + x[i:]))
        for _ in range(3):
            i = rng.randrange(n + 1)
            c = rng.choice(keys)
            add(('insert:%s:%s' % (char_class(c), pos_class(i, n)), x[:i] + c + x[i:]))
        cand = [i for i in range(n) if x[i] in inv]
        for _ in range(3):
            if cand:
                i = rng.choice(cand)
                c = rng.choice(inv[x[i]])
                add(('subst:lookalike(%s)' % x[i], x[:i] + c + x[i + 1:]))
        return out
    positions = range(n + 1)
    for c in seps + wss:
        for i in positions:
            add(('insert:%s:%s' % (char_class(c), pos_class(i, n)), x[:i] + c + x[i:]))
    if level >= 2:
        for c in keys:
            for i in positions:
                add(('insert:%s:%s' % (char_class(c), pos_class(i, n)), x[:i] + c + x[i:]))
        for i in range(n):
            for c in inv.get(x[i], ()):
                add(('subst:lookalike(%s)' % x[i], x[:i] + c + x[i + 1:]))
    else:
        for c in rng.sample(keys, 24):
            i = rng.randrange(n + 1)
            add(('insert:%s:%s' % (char_class(c), pos_class(i, n)), x[:i] + c + x[i:]))
        for i in range(n):
            if x[i] in inv:
                c = rng.choice(inv[x[i]])
                add(('subst:lookalike(%s)' % x[i], x[:i] + c + x[i + 1:]))
    # whole-number respelling with one look-alike family per character
    for fam in range(3):
        y = ''.join(inv[ch][(fam * 2) % len(inv[ch])] if ch in inv else ch for ch in x)
        if y != x:
            add(('subst:lookalike(all)', y))
    # doubled separators / separator runs
    for c in ('-', ' ', '.', '/'):
        i = rng.randrange(n + 1)
        add(('insert:%s:run' % char_class(c), x[:i] + c * 3 + x[i:]))
    return out


_tables = {}


def module_tables(mod):
    """{attribute name: [str, ...]}: the strings held by the module-level containers of a number module (tuples,
    lists, sets, dicts - keys and values -, nested up to three levels): court names and their aliases, state
    codes, type letters, black lists ...  Read from the imported module, i.e. from the tree under test."""
    name = mod.__name__
    if name in _tables:
        return _tables[name]
    out = {}

    def walk(v, acc, depth):
        if len(acc) > 6000 or depth > 3:
            return
        if isinstance(v, str):
            if 2 <= len(v) <= 60 and v not in acc:
                acc.append(v)
        elif isinstance(v, dict):
            for k in v:
                walk(k, acc, depth + 1)
                walk(v[k], acc, depth + 1)
        elif isinstance(v, (tuple, list)):
            for x in v:
                walk(x, acc, depth + 1)
        elif isinstance(v, (set, frozenset)):
            for x in sorted((y for y in v if isinstance(y, str))):
                walk(x, acc, depth + 1)
    for attr in sorted(vars(mod)):
        v = vars(mod)[attr]
        if attr.startswith('__') or not isinstance(v, (dict, tuple, list, set, frozenset)):
            continue
        acc = []
        walk(v, acc, 0)
        if 2 <= len(acc) <= 6000:
            out[attr] = acc
    _tables[name] = out
    return out


def table_variants(mod, x, rng, limit):
    """[(label, y)]: where a part of x is a member of one of the module's own tables (longest case-insensitive
    occurrence per table), every other member of that table put in its place: one input per table row, so that
    every alias / code the module knows is exercised and not only the ones that happen to be in the examples.
    At most `limit` variants (deterministic sample)."""
    out, seen = [], {x}
    xl = x.lower()
    for attr, members in module_tables(mod).items():
        best = None
        for t in members:
            i = xl.find(t.lower())
            if i >= 0 and (best is None or len(t) > best[1] - best[0]):
                best = (i, i + len(t))
        if best is None:
            continue
        i, j = best
        for u in members:
            y = x[:i] + u + x[j:]
            if y not in seen:
                seen.add(y)
                out.append(('table:' + attr, y))
    if len(out) > limit:
        idx = sorted(rng.sample(range(len(out)), limit))
        out = [out[k] for k in idx]
    return out


def stripped_prefixes(mod, canon):
    """the prefixes P that validate() of this module strips: validate(P + v) == v for a canonical valid number v.
    Candidates: prefix_candidates(mod) (startswith() literals of the module source and the package's country code)"""
    out = []
    for p in prefix_candidates(mod):
        for P in (p, p.upper()):
            if not P or P in out:
                continue
            for v in canon[:3]:
                o = call(mod, 'validate', mod.validate, (P + v,), {})
                if o[0] == 'ok' and o[1] == v:
                    out.append(P)
                    break
    return out


def own_prefix_numbers(mod, valid, rng, budget):
    """[(label, y)]: numbers whose body itself begins with the text of a prefix that the module strips or carries (the
    national number FR100000009 of fr.tva: its two check characters are the letters FR; written with its prefix it
    is FRFR100000009, also for eu.vat / vatin).  Code that decides by text (`startswith(P)`) whether the prefix is
    present strips such a number once too often.
    Prefixes: the ones validate() strips (stripped_prefixes: validate(P + v) == v) and the leading two-letter codes
    that canonical numbers carry (eu.vat, vatin, iban ...: v == P + body).  For every prefix P and a few canonical
    numbers: the first len(P) characters of the body are overwritten with P and up to two other positions are
    repaired by search within their character class (digits by digits, letters by letters) until
    validate(P + n) is n or P + n; about `budget` validate calls per module (at least 400 per prefix).
    Yields P + n, P.lower() + n and n itself for every hit (at most two hits per prefix)."""
    canon = []
    for x in valid:
        o = call(mod, 'validate', mod.validate, (x,), {})
        if o[0] == 'ok' and isinstance(o[1], str) and o[1] not in canon and \
                call(mod, 'validate', mod.validate, (o[1],), {})[:2] == ('ok', o[1]):
            canon.append(o[1])
        if len(canon) >= 120:
            break
    if not canon:
        return []
    plan = []       # (P, [bodies])
    for P in stripped_prefixes(mod, diverse(canon, 6)):
        plan.append((P, diverse(canon, 6)))
    carried = {}
    for v in canon:
        if len(v) > 5 and v[:2].isascii() and v[:2].isalpha() and v[:2].isupper():
            carried.setdefault(v[:2], [])
            if len(carried[v[:2]]) < 3:
                carried[v[:2]].append(v[2:])
    for P in carried:
        if not any(P == q for q, _b in plan):
            plan.append((P, carried[P]))
    if not plan:
        return []
    per_prefix = max(budget // len(plan), 400)

    def klass(ch):
        return ('0123456789' if ch in '0123456789' else 'ABCDEFGHIJKLMNOPQRSTUVWXYZ' if 'A' <= ch <= 'Z' else
                'abcdefghijklmnopqrstuvwxyz' if 'a' <= ch <= 'z' else '')

    def search_from(P, z, spent):
        def ok(t):
            spent[0] += 1
            o = call(mod, 'validate', mod.validate, (P + t,), {})
            return o[0] == 'ok' and o[1] in (t, P + t)
        if ok(z):
            return z
        pos = [i for i in range(len(P), len(z)) if klass(z[i])]
        for i in pos:
            for a in klass(z[i]):
                if a != z[i] and ok(z[:i] + a + z[i + 1:]):
                    return z[:i] + a + z[i + 1:]
        for i in reversed(pos):                 # check characters tend to be at the end
            for j in reversed(pos):
                if j <= i:
                    continue
                for a in klass(z[i]):
                    for b in klass(z[j]):
                        if spent[0] > per_prefix:
                            return None
                        t = z[:i] + a + z[i + 1:j] + b + z[j + 1:]
                        if ok(t):
                            return t
        return None

    out = []
    for P, bodies in plan:
        hits = 0
        spent = [0]
        for b0 in bodies:
            if hits >= 2 or spent[0] > per_prefix:
                break
            if len(b0) <= len(P) + 1:
                continue
            n = search_from(P, P + b0[len(P):], spent)
            if n is not None:
                hits += 1
                for lab, y in (('own-prefix:prefixed', P + n), ('own-prefix:prefixed-lower', P.lower() + n),
                               ('own-prefix:bare', n)):
                    if (lab, y) not in out:
                        out.append((lab, y))
    return out


def field_starts(x):
    """positions where a field of x begins: 0 and the positions right after a character that is not a letter or digit"""
    return [i for i in range(len(x)) if x[i].isalnum() and (i == 0 or not x[i - 1].isalnum())]


def self_similar(x, rng, limit):
    """[(label, y)]: x with a copy of one of its own substrings - as written, lower case, upper case, swapped case -
    written over, or inserted at, another part of it.  Numbers with a free-form part (ISIL local identifier, court
    names, BIC branch, ...) can legitimately repeat their own prefix; code that finds a part of the number by
    *searching for its text* (str.replace / str.find / str.split on a value instead of a position) goes wrong
    exactly there.  Sources: every substring of 1-4 characters that starts a field (after a separator / at 0), the
    whole first field, and a sample of other substrings; targets: every other position.  At most `limit` variants
    (a deterministic sample when there are more).  The caller keeps the variants that validate() accepts."""
    n = len(x)
    if n < 3:
        return []
    starts = field_starts(x)
    sources = []
    for i in starts:
        j = i
        while j < n and x[j].isalnum():
            j += 1
        for k in range(1, min(4, j - i) + 1):
            sources.append((i, i + k))
        if j - i > 4 and i == 0:
            sources.append((i, j))
    others = [(i, i + k) for i in range(n) for k in (1, 2, 3) if i + k <= n and x[i:i + k].isalnum()
              and (i, i + k) not in sources]
    if others:
        sources += rng.sample(others, min(len(others), 6))
    out, seen = [], {x}
    for (i, j) in sources:
        s = x[i:j]
        forms = []
        for t in (s, s.lower(), s.upper(), s.swapcase()):
            if t not in forms:
                forms.append(t)
        for k in range(n + 1):
            for t in forms:
                cands = []
                if k + len(t) <= n and not (k == i and t == s):
                    if k >= j or k + len(t) <= i:       # written over another part (the source stays intact)
                        cands.append(('self-similar:over', x[:k] + t + x[k + len(t):]))
                if k >= j or k <= i:
                    cands.append(('self-similar:insert', x[:k] + t + x[k:]))
                for lab, y in cands:
                    if y not in seen:
                        seen.add(y)
                        out.append((lab, y))
    if len(out) > limit:
        idx = sorted(rng.sample(range(len(out)), limit))
        out = [out[i] for i in idx]
    return out


def case_presentations(y):
    """case spellings of a whole number and of its first field only (agency / country prefixes are the part that
    formats normalise)"""
    out = []
    n = len(y)
    j = 0
    while j < n and y[j].isalnum():
        j += 1
    cands = [y.lower(), y.upper(), y.swapcase(), y[:j].lower() + y[j:], y[:j].upper() + y[j:].lower(),
             y[:j].lower() + y[j:].upper()]
    if j == n and n > 2:     # no separator: treat a leading two letter code as the first field
        cands += [y[:2].lower() + y[2:], y[:2].upper() + y[2:].lower()]
    for c in cands:
        if c != y and c not in out:
            out.append(c)
    return out


def diverse(numbers, k, key=None):
    """up to k numbers with pairwise different shapes first (length + character classes), then the rest"""
    def shape(s):
        return (len(s), ''.join('9' if c.isdigit() else 'A' if c.isalpha() else c for c in s))
    seen, first, rest = set(), [], []
    for s in numbers:
        sh = shape(s)
        if sh not in seen:
            seen.add(sh)
            first.append(s)
        else:
            rest.append(s)
    return (first + rest)[:k]


# ----------------------------------------------------------------------------- budget scaling

_scale = {}


def budget_scale(mod):
    """deterministic cost measure of a module: interpreter call/return events of validate() on its first three
    valid numbers (after a warm-up run that fills the numdb caches).  Modules that need more than 1000 events
    per call (mac: ~47000, cn.ric, at.postleitzahl, gs1_128) get proportionally fewer generated inputs so that
    one module cannot dominate the wall time.  Timing is deliberately NOT used (determinism)."""
    name = mod.__name__
    if name in _scale:
        return _scale[name]
    vs = common.valid_numbers(name)[:3]
    cnt = [0]

    def prof(frame, ev, arg):
        cnt[0] += 1
    try:
        for v in vs:
            mod.validate(v)
        sys.setprofile(prof)
        try:
            for v in vs:
                mod.validate(v)
        finally:
            sys.setprofile(None)
    except Exception:   # noqa: B902
        sys.setprofile(None)
    events = cnt[0] / max(1, len(vs))
    _scale[name] = min(1.0, 1000.0 / events) if events else 1.0
    return _scale[name]


FLOOR = {'quick': 0.1, 'thorough': 0.3, None: 0.1}


def target_fraction(scale, tier):
    """fraction of the normal budget that an expensive module gets: its budget_scale in the quick tier, four
    times that (at most 1) in the thorough tier"""
    return scale if tier != 'thorough' else min(1.0, 4 * scale)


class Thinner:
    """deterministic thinning of the bulk generators for the very expensive modules (budget_scale < 0.1, in
    practice stdnum.mac whose every accepted input costs a 3 ms linear scan of the OUI table): only every k-th
    generated input of a generator class is evaluated (k = ceil(floor / target fraction)).  Corpus numbers, blanks,
    non-strings, long strings and date cases are never thinned."""
    KEEP = ('corpus-valid', 'corpus-invalid', 'orig', 'compact', 'blank', 'non-string', 'long', 'date', 'valid')

    def __init__(self, scale, tier='quick'):
        t = target_fraction(scale, tier)
        eff = max(t, FLOOR[tier])
        self.k = int(-(-eff // t)) if eff > t else 1
        self.n = {}

    def skip(self, gen):
        if self.k == 1 or gen in self.KEEP:
            return False
        n = self.n.get(gen, 0)
        self.n[gen] = n + 1
        return n % self.k != 0


def scaled(n, scale):
    return n if scale >= 1 or n <= 0 else max(1, int(n * scale))


def scaled_params(params, scale, tier=None):
    """integer budgets scaled; the exhaustive decoration level ('full') is dropped for expensive modules, and
    in the quick tier the every-position level ('dense') too for the very expensive ones (mac: 3 ms per lookup)"""
    scale = target_fraction(scale, tier)
    eff = max(scale, FLOOR[tier])       # below the floor the Thinner takes over
    out = dict((k, scaled(v, eff) if isinstance(v, int) and not isinstance(v, bool) else v)
               for k, v in params.items())
    if scale < 0.5 and 'full' in out:
        out['full'] = 0
    if scale < 0.05 and tier == 'quick' and 'dense' in out:
        out['dense'] = 0
    return out


# ----------------------------------------------------------------------------- command line

def main(prop, search, replay=None):
    tier = sys.argv[1] if len(sys.argv) > 1 and sys.argv[1] in ('quick', 'thorough') else common.tier()
    t0 = time.time()
    res = search(common.seed(), tier)
    res = dict(res)
    res['failing_total_listed'] = len(res['failing'])
    res['failing'] = res['failing'][:50]
    res['wall_seconds'] = round(time.time() - t0, 2)
    if '--summary' in sys.argv:
        d = res['distribution']
        res = {'property': prop, 'tier': tier, 'cases': res['cases'], 'distinct_nontrivial': res['distinct_nontrivial'],
               'wall_seconds': res['wall_seconds'], 'timing': d.get('timing_not_deterministic'), 'violation_sites': d.get('violation_sites'),
               'violations_total': d.get('violations_total'), 'outcomes': d.get('outcomes'),
               'per_generator': d.get('per_generator'), 'failing_sites': d.get('failing_sites')}
    json.dump(res, sys.stdout, indent=1, sort_keys=True, default=str)
    sys.stdout.write('\n')
