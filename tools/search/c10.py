#!/venv/bin/python
"""Failing-input search for property C10 on the REAL code (stdnum.numdb).

C10: the parts returned by a registry split concatenate back to exactly the number, and the split and
the properties attached to each part are those prescribed by the file's meaning: at each level the
shortest matching prefix range wins, properties of all matching ranges of that length are merged,
children are searched in the remainder, an unmatched remainder is one property-less part.

The oracle is written from that sentence, not from `NumDB._find`:

* `meaning_lookup(tree, number)` -- the declarative rule on a tree whose range endpoints are tuples of
  code points (comparison = lexicographic on code points, merge = explicit ordered association list);
* the tree comes either from `conventional_read` (a conventional indentation parser with an explicit
  parent stack and a hand-written `key="value"` scanner; used for the shipped files) or directly from
  the generator (files are serialised *from* a random tree, so the intended meaning is known without
  parsing anything).

The real side is always `numdb.read(io.StringIO(text)).info(number)` / `.split(number)`.

Checks per (file, number): `concat` (parts join to the number), `rule` (parts and properties equal the
oracle, including dict order), `unmatched-tail` (when the oracle finds no matching range at some level
the real result ends with `(remainder, {})`), `split` (split = first components of info), and
`repeat-rule` / `repeat-split`: the statement holds for every lookup, not only for the first one of a number -
after the caller has consumed what the first lookup returned (the list emptied the way `isbn.split` pops it,
the property dictionaries cleared and overwritten) the same lookup must again give the prescribed answer.

    from c10 import search; search(seed, 'quick' | 'thorough')
    python c10.py [quick|thorough]      (seed from VERIF_SEED, default 1)
"""
import glob
import io
import json
import os
import random
import sys
import time

from stdnum import numdb

REPO = os.path.dirname(os.path.dirname(os.path.abspath(numdb.__file__)))


# ------------------------------------------------------------------ the meaning of a registry

def cps(s):
    return tuple(ord(c) for c in s)


class Node:
    """one range of a registry: code-point endpoints, ordered props, children (shared per line)"""
    __slots__ = ('low', 'high', 'props', 'children')

    def __init__(self, low, high, props, children):
        self.low, self.high, self.props, self.children = cps(low), cps(high), props, children


def merge(pairs_list):
    """left-to-right merge of ordered association lists; a later value replaces an earlier one in
    place, a new key goes to the end"""
    out = []
    for pairs in pairs_list:
        for k, v in pairs:
            for i, (k2, _) in enumerate(out):
                if k2 == k:
                    out[i] = (k, v)
                    break
            else:
                out.append((k, v))
    return out


def meaning_lookup(level, number):
    """returns (parts, unmatched) where parts = [(part, [(key, value), ...]), ...]"""
    n = cps(number)
    parts = []
    pos = 0
    unmatched = False
    while pos < len(n):
        rest = n[pos:]
        matching = [e for e in level
                    if len(e.low) <= len(rest) and e.low <= rest[:len(e.low)] <= e.high]
        if not matching:
            parts.append((number[pos:], []))
            unmatched = True
            break
        shortest = min(len(e.low) for e in matching)
        winners = [e for e in matching if len(e.low) == shortest]
        parts.append((number[pos:pos + shortest], merge([e.props for e in winners])))
        nxt = []
        for e in winners:
            nxt.extend(e.children)
        level = nxt
        pos += shortest
    return parts, unmatched


# ------------------------------------------------------------------ conventional reader (shipped files)

KEYCHARS = set('0123456789abcdefghijklmnopqrstuvwxyzABCDEFGHIJKLMNOPQRSTUVWXYZ-_')


def scan_props(s):
    """key="value" pairs, left to right"""
    pairs = []
    i = 0
    while True:
        j = s.find('="', i)
        if j < 0:
            break
        k = j
        while k > i and s[k - 1] in KEYCHARS:
            k -= 1
        end = s.find('"', j + 2)
        if k == j or end < 0:
            i = j + 1
            if end < 0:
                break
            continue
        pairs.append((s[k:j], s[j + 2:end]))
        i = end + 1
    return merge([pairs])


def conventional_read(text):
    """indentation parser with an explicit stack of open (indent, children) frames; raises ValueError on
    files that are not properly nested"""
    root = []
    frames = [(-1, root)]
    for raw in text.split('\n'):
        line = raw.rstrip('\r')
        if not line.strip() or line[0] == '#':
            continue
        body = line.lstrip(' ')
        indent = len(line) - len(body)
        i = 0
        while i < len(body) and not body[i].isspace():
            i += 1
        ranges, rest = body[:i], body[i:]
        while frames[-1][0] >= indent:
            frames.pop()
        parent = frames[-1][1]
        props = scan_props(rest)
        children = []
        for r in ranges.split(','):
            low, _, high = r.partition('-')
            parent.append(Node(low, high or low, props, children))
        frames.append((indent, children))
    return root


def check_nesting(text):
    """True if every dedent returns to an indent that is open (conventional well-formedness)"""
    open_indents = []
    for raw in text.split('\n'):
        line = raw.rstrip('\r')
        if not line.strip() or line[0] == '#':
            continue
        indent = len(line) - len(line.lstrip(' '))
        dedent = False
        while open_indents and open_indents[-1] > indent:
            open_indents.pop()
            dedent = True
        if not open_indents:
            if indent != 0:
                return False
            open_indents.append(0)
        elif open_indents[-1] < indent:
            if dedent:
                return False
            open_indents.append(indent)
    return True


# ------------------------------------------------------------------ generated registries

ALPHABETS = ['01', '012', '0123456789', '0123456789', 'abc', '09AZaz', '0a٣é', '0123456789ABCDEF', 'XYZ中']
KEYS = ['a', 'b', 'prop1', 'x-y', 'k_1', 'Z9']
VALUES = ['', '1', 'foo', 'foo bar', 'a=b', "it's", 'é中', 'x,y-z', ' lead', '#', 'tab\there']


class Line:
    __slots__ = ('ranges', 'props', 'kids')

    def __init__(self, ranges, props, kids):
        self.ranges, self.props, self.kids = ranges, props, kids


def gen_lines(rnd, alphabet, depth, max_depth):
    lines = []
    for _ in range(rnd.choice((1, 2, 2, 3, 4, 6)) if depth else rnd.choice((1, 2, 3, 4, 5, 8))):
        ranges = []
        for _ in range(rnd.choice((1, 1, 1, 2, 2, 3, 4))):
            k = rnd.choice((1, 1, 2, 2, 3, 4))
            low = ''.join(rnd.choice(alphabet) for _ in range(k))
            x = rnd.random()
            if x < 0.45:
                high = low
            else:
                high = ''.join(rnd.choice(alphabet) for _ in range(k if x < 0.95 else rnd.randint(1, 4)))
                if len(high) == len(low) and cps(high) < cps(low):
                    low, high = high, low
            if low[0] == '#':
                low = alphabet[0] + low[1:]
            ranges.append((low, high))
        props = []
        for _ in range(rnd.choice((0, 1, 1, 2, 2, 3))):
            props.append((rnd.choice(KEYS), rnd.choice(VALUES)))
        kids = []
        if depth < max_depth and rnd.random() < (0.55 if depth < 2 else 0.35):
            kids = gen_lines(rnd, alphabet, depth + 1, max_depth)
        lines.append(Line(ranges, props, kids))
    return lines


def lines_to_tree(lines):
    out = []
    for ln in lines:
        kids = lines_to_tree(ln.kids)
        props = merge([ln.props])
        for low, high in ln.ranges:
            out.append(Node(low, high, props, kids))
    return out


def lines_to_text(rnd, lines, indent, out):
    for ln in lines:
        if rnd.random() < 0.08:
            out.append(rnd.choice(['#', '# comment', '#0-9 a="b"']))
        if rnd.random() < 0.08:
            out.append(rnd.choice(['', '   ', '\t']))
        rs = ','.join(lo if lo == hi and rnd.random() < 0.9 else lo + '-' + hi for lo, hi in ln.ranges)
        ps = (' ' * rnd.choice((1, 1, 1, 2, 3))).join('%s="%s"' % kv for kv in ln.props)
        sep = rnd.choice((' ', ' ', ' ', '  ', '\t')) if ps else rnd.choice(('', '', ' '))
        out.append(' ' * indent + rs + sep + ps + rnd.choice(('', '', '', ' ')))
        if ln.kids:
            lines_to_text(rnd, ln.kids, indent + rnd.choice((1, 2, 2, 4)), out)


def gen_registry(rnd):
    alphabet = rnd.choice(ALPHABETS)
    lines = gen_lines(rnd, alphabet, 0, rnd.choice((0, 1, 2, 3, 4, 4)))
    out = []
    lines_to_text(rnd, lines, 0, out)
    eol = '\r\n' if rnd.random() < 0.1 else '\n'
    text = eol.join(out) + (eol if rnd.random() < 0.85 else '')
    return text, lines_to_tree(lines)


# ------------------------------------------------------------------ queries

def entries(level, depth=0, out=None, limit=60000):
    out = [] if out is None else out
    for e in level:
        if len(out) >= limit:
            break
        out.append((depth, e))
        entries(e.children, depth + 1, out, limit)
    return out


def st(t):
    return ''.join(chr(c) for c in t)


def bump(t, d):
    if not t:
        return None
    c = t[-1] + d
    if c < 0 or c > 0x10ffff or 0xd800 <= c <= 0xdfff:
        return None
    return t[:-1] + (c,)


def chain(rnd, level):
    s = ()
    while level:
        e = rnd.choice(level)
        s += rnd.choice((e.low, e.high))
        level = e.children
        if rnd.random() < 0.15:
            break
    return s


def queries(rnd, tree, n):
    ents = entries(tree)
    qs = {('empty', '')}
    sample = ents if len(ents) < 4000 else rnd.sample(ents, 4000)
    alphabet = sorted({c for _, e in sample for c in e.low + e.high}) or [48, 49]
    wide = alphabet + [32, 45, alphabet[-1] + 1, max(0, alphabet[0] - 1)]
    wide = [c for c in wide if not 0xd800 <= c <= 0xdfff]
    longest = (max(len(e.low) for _, e in sample) * (1 + max(d for d, _ in sample))) if sample else 3

    def tail(k, alpha=None):
        return tuple(rnd.choice(alpha or alphabet) for _ in range(rnd.randint(0, k)))
    for _ in range(max(1, n // 8)):
        if ents:
            d, e = rnd.choice(ents)
            end = rnd.choice((e.low, e.high))
            pre = chain(rnd, tree) if d else ()
            qs.add(('endpoint', st(end)))
            qs.add(('endpoint+tail', st(end + tail(6))))
            for dd in (-1, 1):
                b = bump(end, dd)
                if b is not None:
                    qs.add(('endpoint%+d' % dd, st(b + tail(3))))
            qs.add(('chain+endpoint', st(pre + end + tail(2))))
            qs.add(('endpoint-cut', st(end[:rnd.randint(0, len(end))])))
        c = chain(rnd, tree)
        qs.add(('chain', st(c)))
        qs.add(('chain+tail', st(c + tail(5, wide))))
        b = bump(c, rnd.choice((-1, 1)))
        if b is not None:
            qs.add(('chain+-1', st(b)))
        qs.add(('random', st(tuple(rnd.choice(alphabet) for _ in range(rnd.randint(1, 12))))))
        if rnd.random() < 0.3:
            qs.add(('random-wide', st(tuple(rnd.choice(wide) for _ in range(rnd.randint(1, 8))))))
            qs.add(('long', st(tuple(rnd.choice(alphabet) for _ in range(longest + rnd.randint(1, 10))))))
    qs = sorted(qs)
    rnd.shuffle(qs)
    return qs[:n]


# ------------------------------------------------------------------ the search

def short(v, k=400):
    s = v if isinstance(v, str) else repr(v)
    return s if len(s) <= k else s[:k] + '...(%d chars)' % len(s)


def search(seed, tier):
    rnd = random.Random(seed)
    t0 = time.time()
    thorough = tier == 'thorough'
    budget_s = 240 if thorough else 30
    n_shipped = 1500 if thorough else 250
    n_oui = 300 if thorough else 60
    n_gen_files = 6000 if thorough else 1000
    res = {'cases': 0, 'distinct_nontrivial': 0, 'failing': [], 'samples': [],
           'by_check': {'concat': 0, 'rule': 0, 'unmatched-tail': 0, 'split': 0, 'tree': 0, 'repeat-rule': 0,
                        'repeat-split': 0},
           'by_class': {}, 'files': 0, 'generated_files': 0, 'seed': seed, 'tier': tier}
    nontrivial = set()

    def fail(function, args, observed, expected, check):
        if len(res['failing']) < 50:
            res['failing'].append({'module': 'stdnum.numdb', 'function': function, 'check': check,
                                   'args': [short(a) for a in args], 'observed': short(observed),
                                   'expected': short(expected)})

    def run(label, text, db, tree, qs):
        for cls, q in qs:
            res['cases'] += 1
            res['by_class'][cls] = res['by_class'].get(cls, 0) + 1
            args = [label, q]
            try:
                info = db.info(q)
                split = db.split(q)
            except Exception as e:  # noqa: B902
                fail('NumDB.info', args, '%s: %s' % (type(e).__name__, e), 'no exception', 'rule')
                continue
            observed = [(p, list(d.items())) for p, d in info]
            expected, unmatched = meaning_lookup(tree, q)
            res['by_check']['concat'] += 1
            if ''.join(p for p, _ in info) != q:
                fail('NumDB.info', args, observed, 'parts concatenating to %r' % q, 'concat')
            res['by_check']['rule'] += 1
            if observed != expected:
                fail('NumDB.info', args, observed, expected, 'rule')
            if unmatched:
                res['by_check']['unmatched-tail'] += 1
                consumed = sum(len(p) for p, _ in expected[:-1])
                if not observed or observed[-1] != (q[consumed:], []):
                    fail('NumDB.info', args, observed[-1:] if observed else [], [(q[consumed:], [])],
                         'unmatched-tail')
            res['by_check']['split'] += 1
            if split != [p for p, _ in expected]:
                fail('NumDB.split', args, split, [p for p, _ in expected], 'split')
            # the caller consumes / scribbles over everything it got, then asks again
            try:
                for _p, d in info:
                    if isinstance(d, dict):
                        d.clear()
                        d['scribbled'] = 'over'
                if isinstance(info, list):
                    del info[:]
                if isinstance(split, list):
                    while split:
                        split.pop()
            except Exception:  # noqa: B902  (results that cannot be mutated cannot be aliased either)
                pass
            try:
                info2 = db.info(q)
                split2 = db.split(q)
            except Exception as e:  # noqa: B902
                fail('NumDB.info', args, '%s: %s on the second lookup' % (type(e).__name__, e), 'no exception', 'repeat-rule')
                continue
            res['by_check']['repeat-rule'] += 1
            observed2 = [(p, list(d.items())) for p, d in info2]
            if observed2 != expected:
                fail('NumDB.info', args, 'second lookup, after the first result was emptied by the caller: %r' % (observed2,),
                     expected, 'repeat-rule')
            res['by_check']['repeat-split'] += 1
            if split2 != [p for p, _ in expected]:
                fail('NumDB.split', args, 'second lookup, after the first result was emptied by the caller: %r' % (split2,),
                     [p for p, _ in expected], 'repeat-split')
            if len(observed) > 1 or any(d for _, d in observed):
                nontrivial.add((label, q))
            if len(res['samples']) < 12 and rnd.random() < 0.002 + (0.2 if not res['samples'] else 0):
                res['samples'].append({'file': short(label, 80), 'class': cls, 'number': q,
                                       'observed': short(observed, 300)})

    def same_tree(real, mine):
        """real prefixes (lists) against Node tree"""
        if len(real) != len(mine):
            return False
        for (length, low, high, props, children), e in zip(real, mine):
            if length != len(e.low) or cps(low) != e.low or cps(high) != e.high or \
                    list(props.items()) != e.props or not same_tree(children, e.children):
                return False
        return True

    # shipped registries
    files = sorted(glob.glob(os.path.join(REPO, 'stdnum', '**', '*.dat'), recursive=True))
    files.append(os.path.join(REPO, 'tests', 'numdb-test.dat'))
    for path in files:
        rel = os.path.relpath(path, REPO)
        with open(path, 'rb') as f:
            text = f.read().decode('utf-8')
        res['files'] += 1
        db = numdb.read(io.StringIO(text))
        if not check_nesting(text):
            fail('read', [rel], 'file is not properly nested', 'properly nested file', 'tree')
            continue
        tree = conventional_read(text)
        res['by_check']['tree'] += 1
        if not same_tree(db.prefixes, tree):
            fail('read', [rel], 'tree differs from the conventional reading of the file', 'same tree', 'tree')
        n = n_oui if len(text) > 500000 else n_shipped
        run(rel, text, db, tree, queries(rnd, tree, n))

    # generated registries
    for gi in range(n_gen_files):
        if time.time() - t0 > budget_s:
            break
        text, tree = gen_registry(rnd)
        res['generated_files'] += 1
        label = text
        try:
            db = numdb.read(io.StringIO(text))
        except Exception as e:  # noqa: B902
            fail('read', [text], '%s: %s' % (type(e).__name__, e), 'file is read', 'tree')
            continue
        res['by_check']['tree'] += 1
        if not same_tree(db.prefixes, tree):
            fail('read', [text], short(db.prefixes), 'the tree the file was written from', 'tree')
        run(label, text, db, tree, queries(rnd, tree, rnd.choice((16, 24, 40, 64))))

    res['distinct_nontrivial'] = len(nontrivial)
    res['seconds'] = round(time.time() - t0, 1)
    return res


if __name__ == '__main__':
    tier = sys.argv[1] if len(sys.argv) > 1 else 'quick'
    out = search(int(os.environ.get('VERIF_SEED', '1')), tier)
    print(json.dumps(out, ensure_ascii=False))
    sys.exit(1 if out['failing'] else 0)
