"""Own model of the GS1 application identifier table (gs1_ai.dat) and of the value formats, shared by c11/c16.

Nothing in here calls stdnum.gs1_128; the table is read with the independent reader in _dat.py.

Formats found in the registry and how they are read here (component list):
    N6 N14 X2          fixed length numeric / alphanumeric
    N..8 X..20         variable length 1..n
    A+B                concatenation;  [+B] and [B] optional tail;  [-] an optional minus sign
    X = GS1 AI encodable character set 82, Y = character set 39, Z = file-safe base64 (character set 64)
Types: str, int, decimal (first digit after the AI = number of implied decimal places), date.
"""
import datetime
import decimal
import os

import _dat

CSET82 = '!"%&\'()*+,-./0123456789:;<=>?ABCDEFGHIJKLMNOPQRSTUVWXYZ_abcdefghijklmnopqrstuvwxyz'
CSET39 = '#-/0123456789ABCDEFGHIJKLMNOPQRSTUVWXYZ'
CSET64 = 'ABCDEFGHIJKLMNOPQRSTUVWXYZabcdefghijklmnopqrstuvwxyz0123456789-_'
DIGITS = '0123456789'
ALNUM = DIGITS + 'ABCDEFGHIJKLMNOPQRSTUVWXYZabcdefghijklmnopqrstuvwxyz'
CLASSES = {'N': DIGITS, 'X': CSET82, 'Y': CSET39, 'Z': CSET64}


class AI:
    def __init__(self, ai, props, line):
        self.ai, self.props, self.line = ai, props, line
        self.format, self.type = props.get('format', ''), props.get('type', '')
        self.fnc1 = bool(props.get('fnc1', False))
        self.comps, self.format_error = parse_format(self.format)

    def maxlen(self):
        n = sum(c[2] for c in self.comps)
        return n + 1 if self.type == 'decimal' else n

    def fixed_length(self):
        return all(c[1] == c[2] and not c[3] for c in self.comps)


def parse_format(fmt):
    """-> ([(class, minlen, maxlen, optional)], error or None)"""
    comps, i, optional = [], 0, False
    while i < len(fmt):
        ch = fmt[i]
        if ch == '[':
            optional = True
            i += 1
        elif ch == ']':
            optional = False
            i += 1
        elif ch == '+':
            i += 1
        elif ch == '-':
            comps.append(('-', 1, 1, optional))
            i += 1
        elif ch in 'NXYZ':
            j = i + 1
            var = fmt[j:j + 2] == '..'
            if var:
                j += 2
            k = j
            while k < len(fmt) and fmt[k].isdigit():
                k += 1
            if k == j:
                return comps, 'no length after %r in %r' % (ch, fmt)
            n = int(fmt[j:k])
            comps.append((ch, 1 if var else n, n, optional))
            i = k
        else:
            return comps, 'unexpected %r in %r' % (ch, fmt)
    if not comps:
        return comps, 'empty format'
    return comps, None


def load_ais(repo):
    """all application identifiers of the registry, ranges expanded; -> ([AI], problems)"""
    top, allentries, problems, _n = _dat.parse(os.path.join(repo, 'stdnum', 'gs1_ai.dat'))
    res = []
    for e in top:
        if e.low.isdigit() and e.high.isdigit() and len(e.low) == len(e.high):
            for n in range(int(e.low), int(e.high) + 1):
                res.append(AI(str(n).zfill(len(e.low)), e.props, e.line))
        else:
            res.append(AI(e.low, e.props, e.line))
    return res, problems


# ----------------------------------------------------------------------------- values

def _rs(rng, alphabet, n):
    return ''.join(rng.choice(alphabet) for _ in range(n))


def _len_choice(rng, lo, hi, mode):
    if mode == 'min':
        return lo
    if mode == 'max':
        return hi
    # (just below the maximum matters: a multi-character separator then straddles the end of the maximum-length window)
    return rng.choice([lo, hi, rng.randint(lo, hi), rng.randint(lo, hi), max(lo, hi - rng.randint(1, 5))])


def gen_date(rng, mode='any'):
    """a date in strptime's %y window (1969..2068)"""
    if mode == 'plain':
        y = rng.randint(2001, 2040)
    else:
        y = rng.choice([1969, 1970, 1999, 2000, 2024, 2068, rng.randint(1969, 2068), rng.randint(1969, 2068)])
    m = rng.randint(1, 12)
    last = (datetime.date(y + (m == 12), m % 12 + 1, 1) - datetime.timedelta(days=1)).day
    d = rng.choice([1, last, rng.randint(1, last)])
    return datetime.date(y, m, d)


def ymd(d):
    return '%02d%02d%02d' % (d.year % 100, d.month, d.day)


def gen_value(rng, ai, mode='any', charset=None, validators=True):
    """-> (python value as info() should return it, text of the value inside an element string, tags)

    mode: 'plain' (tame witness for C11), 'min', 'max', 'any' (full declared domain).
    tags name the generator classes used (for the distribution and for root-cause labels)."""
    tags = set()
    comps, typ = ai.comps, ai.type
    if validators and ai.ai in ('01', '02'):
        body = _rs(rng, DIGITS, 13)
        s = body + str((10 - sum((3, 1)[i % 2] * int(n) for i, n in enumerate(reversed(body)))) % 10)
        return s, s, {'gtin'}
    if validators and ai.ai == '8007':
        bban = 'ABCD' + _rs(rng, DIGITS, 10)
        n = ''.join(str(int(ch, 36)) for ch in bban + 'NL00')
        s = 'NL%02d%s' % (98 - int(n) % 97, bban)
        return s, s, {'iban'}
    if typ == 'date':
        return gen_date_value(rng, ai, mode)
    if typ == 'decimal':
        return gen_decimal_value(rng, ai, mode)
    if typ == 'int':
        c = comps[0]
        n = _len_choice(rng, c[1], c[2], mode)
        if mode == 'plain':
            s = rng.choice('123456789') + _rs(rng, DIGITS, n - 1)
        else:
            s = rng.choice([_rs(rng, DIGITS, n), '0' * n, '9' * n, rng.choice('123456789') + _rs(rng, DIGITS, n - 1)])
        v = int(s)
        if c[1] == c[2]:
            text = s
        else:
            text = s
            if s != str(v):
                tags.add('int-leading-zeros')
        return v, text, tags | {'int'}
    # str
    out = ''
    for cls, lo, hi, optional in comps:
        if optional and (mode == 'min' or (mode != 'max' and rng.random() < 0.4)):
            tags.add('optional-absent')
            break
        if optional:
            tags.add('optional-present')
        if cls == '-':
            out += '-'
            continue
        n = _len_choice(rng, lo, hi, mode)
        alpha = CLASSES[cls]
        if cls != 'N':
            if mode == 'plain':
                alpha = ALNUM if cls != 'Y' else DIGITS + 'ABCDEFGHIJKLMNOPQRSTUVWXYZ'
            elif charset == 'noparen':
                alpha = alpha.replace('(', '').replace(')', '')
        part = _rs(rng, alpha, n)
        out += part
    if '(' in out or ')' in out:
        tags.add('parenthesis-in-value')
    return out, out, tags | {'str'}


def gen_decimal_value(rng, ai, mode):
    comps = ai.comps
    tags = {'decimal'}
    cur = None
    if len(comps) == 2:
        cur = _rs(rng, DIGITS, 3)
        tags.add('currency')
    c = comps[-1]
    n = _len_choice(rng, c[1], c[2], mode)
    if mode == 'plain':
        n = max(n, 3) if c[2] >= 3 else c[2]
        d = rng.randint(0, min(2, n - 1))
        s = rng.choice('123456789') + _rs(rng, DIGITS, n - 1)
    else:
        d = rng.choice([0, 1, 2, 3, rng.randint(0, 9), rng.randint(0, 9)])
        d = min(d, n)
        s = rng.choice([_rs(rng, DIGITS, n), rng.choice('123456789') + _rs(rng, DIGITS, n - 1),
                        '0' * rng.randint(0, n - 1) + _rs(rng, '123456789', 1) + '0' * n])[:n]
        if s.strip('0') == '':
            tags.add('decimal-zero')
    if c[1] == c[2]:
        s = s.rjust(c[2], '0')
    if d:
        tags.add('decimal-places-%d' % d)
        txt = s[:-d] + '.' + s[-d:]
    else:
        txt = s
    if len(s) - d <= 0 or s[:len(s) - d].startswith('0'):
        tags.add('decimal-leading-zeros')
    value = decimal.Decimal(txt if not txt.startswith('.') else '0' + txt)
    if 'E' in str(value):
        tags.add('decimal-exponent-notation')
    elif len(str(value)) > c[2] + 1:
        tags.add('decimal-text-longer-than-field')
    text = str(d) + (cur or '') + s
    if cur is not None:
        return (cur, value), text, tags
    return value, text, tags


def _edge(rng, hi):
    """hour / minute / second values: the ends, anything, and the round values 10, 20 ... (a trailing zero that
    belongs to the value, next to zeros that are padding - text-level trimming confuses the two)"""
    return rng.choice([0, hi, rng.randint(0, hi), 10 * rng.randint(1, hi // 10), 10 * rng.randint(1, hi // 10)])


def _gen_date_value(rng, ai, mode):
    fmt = ai.format
    plain = 'plain' if mode == 'plain' else 'any'
    d = gen_date(rng, plain)
    tags = {'date'}
    if fmt == 'N6':
        return d, ymd(d), tags
    if fmt == 'N10':
        h, m = _edge(rng, 23), _edge(rng, 59)
        if mode == 'plain':
            h, m = rng.randint(1, 23), rng.randint(1, 59)
        return datetime.datetime(d.year, d.month, d.day, h, m), ymd(d) + '%02d%02d' % (h, m), tags | {'datetime'}
    if fmt == 'N6[+N6]':
        if mode == 'min' or (mode not in ('max',) and rng.random() < 0.5):
            return d, ymd(d), tags | {'optional-absent'}
        d2 = gen_date(rng, plain)
        return (d, d2), ymd(d) + ymd(d2), tags | {'date-range', 'optional-present'}
    if fmt == 'N6[+N4]':
        if mode == 'min' or (mode not in ('max',) and rng.random() < 0.4):
            return d, ymd(d), tags | {'optional-absent'}
        h, m = _edge(rng, 23), _edge(rng, 59)
        if mode == 'plain':
            h, m = rng.randint(1, 23), rng.randint(1, 59)
        if (h, m) == (0, 0):
            tags.add('time-0000')
        elif m == 0:
            tags.add('minute-00')
        return datetime.datetime(d.year, d.month, d.day, h, m), ymd(d) + '%02d%02d' % (h, m), tags | {'datetime', 'optional-present'}
    if fmt == 'N8[+N..4]':
        h = _edge(rng, 23)
        if mode == 'plain':
            h = rng.randint(1, 23)
        k = 0 if mode == 'min' else 2 if mode == 'max' else rng.randrange(3)
        if k == 0:
            return datetime.datetime(d.year, d.month, d.day, h), ymd(d) + '%02d' % h, tags | {'datetime', 'optional-absent'}
        m = _edge(rng, 59) if mode != 'plain' else rng.randint(1, 59)
        if k == 1:
            if m == 0:
                tags.add('minute-00')
            return (datetime.datetime(d.year, d.month, d.day, h, m), ymd(d) + '%02d%02d' % (h, m),
                    tags | {'datetime', 'optional-present'})
        s = _edge(rng, 59) if mode != 'plain' else rng.randint(1, 59)
        if s == 0:
            tags.add('second-00')
        return (datetime.datetime(d.year, d.month, d.day, h, m, s), ymd(d) + '%02d%02d%02d' % (h, m, s),
                tags | {'datetime', 'seconds', 'optional-present'})
    return None, None, {'unknown-date-format'}


def gen_date_value(rng, ai, mode):
    v, text, tags = _gen_date_value(rng, ai, mode)
    if isinstance(v, datetime.datetime):
        # a round value (10, 20 ...) in the last transmitted time field: its trailing zero is part of the value
        t = text[6:] if len(text) > 6 else ''
        if len(t) >= 2 and t[-1] == '0' and t[-2] != '0':
            tags = set(tags) | {'round-time-field'}
    return v, text, tags


def pad(ai, text):
    """value text padded to the maximum length of the format (the library's convention when no separator is used)"""
    n = ai.maxlen()
    if ai.type in ('decimal', 'int'):
        return text.rjust(n, '0')
    return text.ljust(n)


# ----------------------------------------------------------------------------- JSON-able encoding of mappings

def enc_value(v):
    if isinstance(v, datetime.datetime):
        return {'t': 'datetime', 'v': v.isoformat()}
    if isinstance(v, datetime.date):
        return {'t': 'date', 'v': v.isoformat()}
    if isinstance(v, decimal.Decimal):
        return {'t': 'decimal', 'v': str(v)}
    if isinstance(v, tuple):
        return {'t': 'tuple', 'v': [enc_value(x) for x in v]}
    if isinstance(v, bool) or v is None:
        return {'t': 'repr', 'v': repr(v)}
    if isinstance(v, int):
        return {'t': 'int', 'v': v}
    return {'t': 'str', 'v': [ord(c) for c in v]}


def dec_value(d):
    t, v = d['t'], d['v']
    if t == 'datetime':
        return datetime.datetime.fromisoformat(v)
    if t == 'date':
        return datetime.date.fromisoformat(v)
    if t == 'decimal':
        return decimal.Decimal(v)
    if t == 'tuple':
        return tuple(dec_value(x) for x in v)
    if t == 'int':
        return int(v)
    if t == 'repr':
        return {'None': None, 'True': True, 'False': False}[v]
    return ''.join(chr(c) for c in v)


def enc_mapping(m):
    return [[k, enc_value(v)] for k, v in m]


def dec_mapping(x):
    return [(k, dec_value(v)) for k, v in x]


def same_value(a, b):
    """compare as Python values; a date is not a datetime"""
    if isinstance(a, tuple) or isinstance(b, tuple):
        return (isinstance(a, tuple) and isinstance(b, tuple) and len(a) == len(b) and
                all(same_value(x, y) for x, y in zip(a, b)))
    if isinstance(a, datetime.datetime) != isinstance(b, datetime.datetime):
        return False
    if isinstance(a, decimal.Decimal) != isinstance(b, decimal.Decimal):
        return False
    if type(a) is not type(b) and not (isinstance(a, decimal.Decimal) and isinstance(b, decimal.Decimal)):
        return False
    return a == b


def same_mapping(got, want):
    return (isinstance(got, dict) and sorted(got) == sorted(want) and all(same_value(got[k], want[k]) for k in want))
