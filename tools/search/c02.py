"""C02 - validate() returns a canonical fixed point.  Failing-input search, real code only."""
import os
import sys
import time

sys.path.insert(0, os.path.dirname(os.path.dirname(os.path.abspath(__file__))))   # tools/
sys.path.insert(0, os.path.dirname(os.path.abspath(__file__)))
import common   # noqa: E402
import _modgen as G   # noqa: E402

PROPERTY = 'C02'

RULE = (
    'per module: every corpus valid number in many presentations (budget scaled down for modules whose validate is very expensive, see _modgen.budget_scale; as written, compact form, case variants, '
    'surrounding whitespace incl. \\n and exotic spaces, country/format prefixes added/stripped/lower-cased/'
    'followed by newline, every ASCII separator and whitespace character inserted at every position, every key '
    'of stdnum.util._char_map inserted at every position and substituted for its ASCII equivalent, whole-number '
    'look-alike respelling, separators/whitespace REPLACING a character (optionally with one re-randomised digit), second-order decorations of accepted presentations, table-driven inputs (every member of the tables of the module - court names and aliases, codes, letters - put in the place of the table member found in a valid number), own-prefix inputs (numbers whose body itself begins with a prefix that the module strips or carries, with and without that prefix), self-similar inputs (a substring of the number copied in any case over / into another part of it), GS1-128 element strings of 2-5 identifiers from the C16 generator under every separator option, common.mutations, every digit/A/X inserted or substituted and every character deleted at every position of the first numbers) x every '
    'keyword option set of validate.  For each accepted x (v = validate(x, **o) returned a str): '
    'validate(v, **o) must return exactly v, and v == v.strip().  ' + G.NONTRIVIAL_RULE)

PARAMS = {
    'quick': dict(full=0, dense=5, light=60, mutations=3, double=8, sepsubst=3, sepsubst_rand=2, near=3,
                  table=2, table_limit=500, selfsim=2, selfsim_limit=150, ownprefix=3000),
    'thorough': dict(full=14, dense=50, light=400, mutations=12, double=80, sepsubst=20, sepsubst_rand=6, near=30,
                     table=12, table_limit=6000, selfsim=20, selfsim_limit=1500, ownprefix=20000),
}
EXPECT = 'validate(v, **o) == v and v == v.strip() for v = validate(x, **o)'


def _check_value(mod, rf, v, kw):
    """-> list of (site, observed, relation) for an accepted output v"""
    out = []
    if v != v.strip():
        out.append(('%s:validate:output_not_stripped' % rf, 'returned %s' % G.short(v), 'v == v.strip()'))
    o2 = G.call(mod, 'validate', mod.validate, (v,), kw)
    if o2[0] == 'ok':
        if not (isinstance(o2[1], str) and o2[1] == v):
            out.append(('%s:validate:output_changes_on_revalidation' % rf,
                        'validate(x) = %s but validate(validate(x)) = %s' % (G.short(v, 50), G.short(o2[1], 50)),
                        'validate(v) == v'))
    elif o2[0] == 'verr':
        out.append(('%s:validate:output_rejected_on_revalidation' % rf,
                    'validate(x) = %s but validate(validate(x)) raises %s' % (G.short(v, 50), o2[1]),
                    'validate(v) == v'))
    else:
        out.append((o2[2], 'validate(x) = %s but validate(validate(x)) raises %s' % (G.short(v, 50), o2[1]),
                    'validate(v) == v'))
    return out


def _worker(task):
    modname, part, nparts, seed, tier = task
    mod = common.module(modname)
    sc = G.budget_scale(mod)
    P = G.scaled_params(PARAMS[tier], sc, tier)
    rng = G.task_rng(seed, PROPERTY, modname, part)
    fnd, st = G.Findings(), G.Stats()
    rf = G.relfile(mod)
    valid_all = G.diverse(common.valid_numbers(modname), 10 ** 6)
    valid = G.part_slice(valid_all, part, nparts)
    opts = G.option_sets(mod, 'validate')
    samples = []
    accepted_pool = []

    thin = G.Thinner(sc, tier)

    def check(gen, x, kw):
        if thin.skip(gen):
            return None
        o = G.call(mod, 'validate', mod.validate, (x,), kw)
        klass = 'ok' if o[0] == 'ok' else '%s:%s' % (o[0], o[1])
        st.record(gen, (x, G.kw_key(kw)), klass)
        nviol = 0
        if o[0] == 'ok' and isinstance(o[1], str):
            for site, observed, relation in _check_value(mod, rf, o[1], kw):
                nviol += 1
                if kw:      # a failure that needs a non-default option is a site of its own
                    site = '%s[%s]' % (site, ','.join(sorted(kw)))
                fnd.add(modname, 'validate', site, G.wsize(kw, x), repr((x, G.kw_key(kw)))[:300],
                        lambda: G.make_case(modname, 'validate', [x], kw, observed, EXPECT, site, relation,
                                            generator=gen))
            if len(accepted_pool) < 4000:
                accepted_pool.append((x, kw))
        if len(samples) < 10 and o[0] == 'ok' and not any(s['gen'] == gen for s in samples):
            samples.append({'module': modname, 'gen': gen, 'function': 'validate', 'args': [G.describe_arg(x)],
                            'kwargs': G.describe_kwargs(kw), 'outcome': klass,
                            'value': G.short(o[1]) if o[0] == 'ok' else None, 'violations': nviol})
        return o

    compact = getattr(mod, 'compact', None)
    for idx, v in enumerate(valid):
        gidx = idx * nparts + part
        level = 2 if gidx < P['full'] else 1 if gidx < P['full'] + P['dense'] else 0
        if gidx >= P['full'] + P['dense'] + P['light']:
            break
        forms = [('orig', v)]
        if compact is not None:
            try:
                c = compact(v)
                if isinstance(c, str) and c and c != v:
                    forms.append(('compact', c))
            except Exception:   # noqa: B902
                pass
        for flab, f in forms:
            for kw in opts:
                check(flab, f, kw)
            decs = G.decorations(mod, f, rng, level if flab == 'orig' or level < 2 else 1)
            for lab, y in decs:
                check(lab.split(':')[0], y, {})
            # options: on a sample of the decorations
            if len(opts) > 1:
                sub = decs if level == 0 else rng.sample(decs, min(len(decs), 120))
                for kw in opts[1:]:
                    for lab, y in sub:
                        check('option:' + ','.join(sorted(kw)), y, kw)
        for y in common.mutations(rng, v, P['mutations']):
            check('mutation', y, {})
        if gidx < P['near']:        # single edits that happen to be accepted are valid numbers outside the corpus
            for i in range(len(v) + 1):
                for ch in '0123456789AX':
                    check('near-valid', v[:i] + ch + v[i:], {})
                    if i < len(v) and ch != v[i]:
                        check('near-valid', v[:i] + ch + v[i + 1:], {})
                if i < len(v):
                    check('near-valid', v[:i] + v[i + 1:], {})
    # separators/whitespace REPLACING a character (an inner validator may strip what the outer one keeps);
    # with and without re-randomised digits so that a check digit can come out right by chance
    seps = common.SEPARATORS + common.WHITESPACE
    for idx, v in enumerate(valid):
        if idx * nparts + part >= P['sepsubst']:
            break
        f = v
        if compact is not None:
            try:
                c = compact(v)
                if isinstance(c, str) and c:
                    f = c
            except Exception:   # noqa: B902
                pass
        digits = [j for j in range(len(f)) if f[j].isdigit()]
        for i in range(len(f)):
            for ch in seps:
                y = f[:i] + ch + f[i + 1:]
                check('sepsubst', y, {})
                for _ in range(P['sepsubst_rand']):
                    if digits:
                        j = rng.choice(digits)
                        if j != i:
                            check('sepsubst', y[:j] + rng.choice('0123456789') + y[j + 1:], {})
    # table-driven inputs: one per row of the tables of the module; self-similar inputs
    for idx, v in enumerate(valid):
        gidx = idx * nparts + part
        if gidx >= max(P['table'], P['selfsim']):
            break
        if gidx < P['table']:
            for lab, y in G.table_variants(mod, v, rng, P['table_limit']):
                for kw in opts:
                    check('table' if not kw else 'option:' + ','.join(sorted(kw)), y, kw)
        if gidx < P['selfsim']:
            for lab, y in G.self_similar(v, rng, P['selfsim_limit']):
                o = check('self-similar', y, {})
                if o is not None and o[0] == 'ok':
                    for z in G.case_presentations(y):
                        check('self-similar', z, {})
    # numbers whose body begins with the text of a prefix that the module strips / carries (FRFR..., see _modgen)
    if part == 0:
        for lab, y in G.own_prefix_numbers(mod, valid_all, rng, P['ownprefix']):
            for kw in opts:
                check('own-prefix' if not kw else 'option:' + ','.join(sorted(kw)), y, kw)
    # GS1-128 element strings: the property is stated for every documented option, and `separator` only matters
    # for strings of several variable-length elements, which no documentation sample contains; they are built by
    # the generator of the C16 engine (values at minimum / maximum / just-below-maximum length)
    if modname == 'stdnum.gs1_128' and part == 0:
        import c16
        table = c16.ais()
        keys = sorted(table)
        variable = [k for k in keys if table[k].fnc1]
        for _ in range(150 if tier == 'quick' else 1500):
            k = rng.choice([2, 3, 3, 4, 5])
            chosen = rng.sample(variable, min(k, len(variable))) if rng.random() < 0.6 else rng.sample(keys, k)
            items = [c16.gen_item(rng, table[ai], rng.choice(['any', 'max', 'max', 'min'])) for ai in chosen]
            if any(v is None for ai, v, t, tg in items):
                continue
            order = list(range(len(items)))
            rng.shuffle(order)
            for sep in ('\x1d', '^', '[FNC1]', ''):
                x = c16.handbuilt(items, sep, False, order, set(), set())[0]
                check('gs1-elements', x, {'separator': sep} if sep else {})
    # second order: decorate accepted presentations again
    if accepted_pool:
        for _ in range(P['double'] // nparts + 1):
            x, kw = rng.choice(accepted_pool)
            for lab, y in G.decorations(mod, x, rng, 0):
                check('double', y, kw)
    return {'module': modname, 'task': (modname, part), 'stats': st.summary(), 'findings': fnd.export(),
            'samples': samples}


def search(seed, tier):
    t0 = time.time()
    names = [m.__name__ for m in common.number_modules()]
    tasks = [(n, p, k, seed, tier) for (n, p, k) in G.module_tasks(names, tier, 40)]
    results = G.run_tasks(_worker, G.schedule(tasks))
    results.sort(key=lambda r: r['task'])
    res, _ = G.merge_results(PROPERTY, RULE, results, t0)
    return res


def replay(case):
    mod, args, kwargs, today = G.case_inputs(case)
    rf = G.relfile(mod)
    with G.frozen(today):
        o = G.call(mod, 'validate', mod.validate, tuple(args), kwargs)
        if o[0] != 'ok' or not isinstance(o[1], str):
            return None
        viol = _check_value(mod, rf, o[1], kwargs)
    if not viol:
        return None
    same = [v for v in viol if v[0] == case.get('site')] or viol
    return dict(case, site=same[0][0], observed=same[0][1], relation=same[0][2])


if __name__ == '__main__':
    G.main(PROPERTY, search, replay)
