"""Shared plumbing for the check-digit engines c05 / c07 / c17 (stdlib + common only)."""
import datetime
import multiprocessing
import os
import sys
import traceback

sys.path.insert(0, os.path.dirname(os.path.dirname(os.path.abspath(__file__))))   # tools/
import common  # noqa: E402

TODAY = datetime.date(2026, 9, 26)
DIGITS = '0123456789'
UPPER = 'ABCDEFGHIJKLMNOPQRSTUVWXYZ'
LOWER = 'abcdefghijklmnopqrstuvwxyz'
_REPO_STDNUM = os.path.join(common.REPO, 'stdnum') + os.sep


def relfile(modname):
    """'stdnum.gb.sedol' -> 'stdnum/gb/sedol.py' (packages: __init__.py)"""
    mod = common.module(modname)
    return os.path.relpath(mod.__file__, common.REPO)


def value_site(modname, function, relation):
    return '%s:%s:%s' % (relfile(modname), function, relation)


def exc_site(exc):
    """innermost frame inside /repo/stdnum of the traceback: '<relative file>:<function>:<source line>'"""
    frames = traceback.extract_tb(exc.__traceback__)
    for fr in reversed(frames):
        if os.path.abspath(fr.filename).startswith(_REPO_STDNUM):
            return '%s:%s:%s' % (os.path.relpath(fr.filename, common.REPO), fr.name, (fr.line or '').strip())
    return 'outside-stdnum:%s' % type(exc).__name__


GENERIC_FILES = ('stdnum/luhn.py', 'stdnum/verhoeff.py', 'stdnum/damm.py', 'stdnum/iso7064/')


def exc_owner_files(exc):
    """relative files of all stdnum frames of the traceback, generic algorithm modules excluded"""
    out = []
    for fr in traceback.extract_tb(exc.__traceback__):
        if os.path.abspath(fr.filename).startswith(_REPO_STDNUM):
            rel = os.path.relpath(fr.filename, common.REPO)
            if not rel.startswith(GENERIC_FILES) and rel not in out:
                out.append(rel)
    return out


class _Lazy:
    """site information of a caught exception, computed on demand (extract_tb is slow)"""

    def __init__(self, exc):
        self.exc = exc
        self._site = self._files = None

    @property
    def site(self):
        if self._site is None:
            self._site = exc_site(self.exc)
        return self._site

    @property
    def files(self):
        if self._files is None:
            self._files = exc_owner_files(self.exc)
        return self._files


def call(f, *a, **k):
    """like common.outcome, with lazily computed raising site for exceptions:
    ('ok', value, None) | ('verr', class name, lazy) | ('exc', class name, lazy); use site(o) / owner_files(o)"""
    VE = common.validation_error_class()
    try:
        return ('ok', f(*a, **k), None)
    except VE as e:
        return ('verr', type(e).__name__, _Lazy(e))
    except Exception as e:   # noqa: B902
        return ('exc', type(e).__name__, _Lazy(e))


def site(o):
    return o[2].site if o[2] is not None else None


def owner_files(o):
    return o[2].files if o[2] is not None else []


def fmt_outcome(o):
    if o[0] == 'ok':
        return 'returns %r' % (o[1],)
    return 'raises %s' % o[1]


def make_case(module, function, args, observed, expected, site, relation, kwargs=None, today=TODAY, **extra):
    c = {'module': module, 'function': function, 'args': [common.describe(a) for a in args],
         'observed': observed, 'expected': expected, 'site': site, 'relation': relation}
    if kwargs:
        c['kwargs'] = {k: common.describe(v) for k, v in kwargs.items()}
    if today is not None:
        c['today'] = today.isoformat()
    c.update(extra)
    return c


def case_args(case):
    args = [common.rebuild(a) for a in case.get('args', [])]
    kwargs = {k: common.rebuild(v) for k, v in case.get('kwargs', {}).items()}
    return args, kwargs


def case_today(case):
    return datetime.date.fromisoformat(case['today']) if case.get('today') else TODAY


def _size(case):
    n = 0
    for a in case.get('args', []):
        n += len(a.get('codepoints', a.get('repr', '')))
    return n


class Collector:
    """deduplicate failing cases by (module, function, site): keep up to `keep` smallest examples, count all"""

    def __init__(self, keep=3):
        self.keep = keep
        self.sites = {}    # key -> {'count': int, 'cases': [case]}

    def add(self, case):
        key = (case['module'], case['function'], case['site'])
        e = self.sites.setdefault(key, {'count': 0, 'cases': []})
        e['count'] += 1
        if any(c['args'] == case['args'] and c.get('kwargs') == case.get('kwargs') for c in e['cases']):
            return
        e['cases'].append(case)
        e['cases'].sort(key=lambda c: (_size(c), repr(c['args'])))
        del e['cases'][self.keep:]

    def merge(self, other_sites):
        """merge the .export() of another collector"""
        for key, e in other_sites:
            key = tuple(key)
            mine = self.sites.setdefault(key, {'count': 0, 'cases': []})
            mine['count'] += e['count']
            for c in e['cases']:
                if not any(x['args'] == c['args'] and x.get('kwargs') == c.get('kwargs') for x in mine['cases']):
                    mine['cases'].append(c)
            mine['cases'].sort(key=lambda c: (_size(c), repr(c['args'])))
            del mine['cases'][self.keep:]

    def export(self):
        return [(list(k), v) for k, v in sorted(self.sites.items())]

    def failing(self, cap=200):
        out = []
        for key in sorted(self.sites):
            e = self.sites[key]
            for c in e['cases']:
                out.append(dict(c, site_total=e['count']))
        return out[:cap]

    def per_site(self):
        return {'%s:%s @ %s' % k: v['count'] for k, v in sorted(self.sites.items())}


def add_counts(dst, src):
    for k, v in src.items():
        if isinstance(v, dict):
            add_counts(dst.setdefault(k, {}), v)
        else:
            dst[k] = dst.get(k, 0) + v
    return dst


def _run_job(job):
    fn, arg = job
    with common.frozen_today(TODAY):
        return fn(arg)


def pmap(fn, args, procs=None):
    """deterministic parallel map (results in argument order); fn must be a module level function"""
    args = list(args)
    if not args:
        return []
    procs = procs or min(16, os.cpu_count() or 1, len(args))
    if procs <= 1:
        return [_run_job((fn, a)) for a in args]
    ctx = multiprocessing.get_context('fork')
    with ctx.Pool(procs) as pool:
        return pool.map(_run_job, [(fn, a) for a in args], chunksize=1)


def shape(s):
    return (len(s), ''.join('9' if c in DIGITS else 'A' if c in UPPER else 'a' if c in LOWER else c for c in s))


def diverse(numbers):
    """the same numbers, one of every shape (length + character classes per position) first, then one more of
    every length, then the rest in their order: caps like numbers[:100] must not cut away the rare shapes"""
    seen, first, rest = set(), [], []
    for n in numbers:
        sh = shape(n)
        if sh not in seen:
            seen.add(sh)
            first.append(n)
        else:
            rest.append(n)
    if len(first) > 60:          # free-form formats: every number has its own shape; fall back to lengths
        seen, first, rest = set(), [], []
        for n in numbers:
            if len(n) not in seen:
                seen.add(len(n))
                first.append(n)
            else:
                rest.append(n)
    return first + rest


def char_class(c):
    if c in DIGITS:
        return DIGITS
    if c in UPPER:
        return UPPER
    if c in LOWER:
        return LOWER
    return None


def cli(modglobals):
    import json
    tier = sys.argv[1] if len(sys.argv) > 1 else common.tier()
    t = common.Timer()
    res = modglobals['search'](common.seed(), tier)
    tm = os.times()
    res = dict(res, failing=res['failing'][:50], seconds=t.s(),
               cpu_seconds=round(tm.user + tm.system + tm.children_user + tm.children_system, 1))
    json.dump(res, sys.stdout, indent=1, sort_keys=True, default=str)
    sys.stdout.write('\n')
