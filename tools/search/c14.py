"""C14 - character clean-up never changes the value of a number.  Failing-input search, real code only."""
import os
import sys
import time
import unicodedata

sys.path.insert(0, os.path.dirname(os.path.dirname(os.path.abspath(__file__))))   # tools/
sys.path.insert(0, os.path.dirname(os.path.abspath(__file__)))
import common   # noqa: E402
import _modgen as G   # noqa: E402

PROPERTY = 'C14'
UTIL = 'stdnum.util'
ASCII_ALNUM = set('0123456789abcdefghijklmnopqrstuvwxyzABCDEFGHIJKLMNOPQRSTUVWXYZ')

RULE = (
    '(A) exhaustive: clean(chr(c)) for ALL 0x110000 code points c (surrogates included, nothing skipped), '
    'checked against unicodedata: result has length 1; ASCII letters/digits unchanged; a changed character '
    'becomes digit d only if unicodedata.decimal(c) == d, becomes " " only if category Zs, never becomes a '
    'letter/digit unless c itself is a letter/number, is replaced by an ASCII character only, and the '
    'replacement is a fixed point of clean.  (B) random strings over table keys, ASCII, common.HOSTILE and '
    'random code points with random deletechars: clean(s, D) == "".join(m(c) for c in s if m(c) not in D) with '
    'm = single character clean (order and count kept), no character of D in the result, '
    'clean(clean(s, D), D) == clean(s, D).  (C) non-string inputs (common.non_strings() + hostile objects): '
    'returns a str or raises InvalidFormat, nothing else.  (D) all modules except the eight generic algorithm '
    'modules of common.GENERIC_MODULES (they never call clean(); excluded by the integrator) x corpus valid numbers (all of them in '
    'the thorough tier) x every position whose ASCII character has look-alikes in stdnum.util._char_map x every '
    'such look-alike, plus whole-number respellings and ASCII separators inserted at accepted positions and then '
    'respelled: validate(look-alike spelling) must equal ("ok", validate(ASCII spelling)).  Non-trivial: (A) code '
    'points that clean changes or that are ASCII alphanumerics; (B) strings that clean changes; (C) every value; '
    '(D) ' + G.NONTRIVIAL_RULE)

PARAMS = {
    'quick': dict(random=40000, numbers=25, inserted=2),
    'thorough': dict(random=1000000, numbers=400, inserted=40),
}
EXPECT_CLEAN = 'clean() replaces a character only by its ASCII equivalent (see property C14)'
EXPECT_MOD = 'validate(look-alike spelling) == validate(ASCII spelling)'
RF = 'stdnum/util.py'


def _clean():
    from stdnum.util import clean
    return clean


def check_codepoint(clean, c):
    """-> (image or None, [relation, ...]) for the one-character string c"""
    try:
        m = clean(c)
    except Exception as e:   # noqa: B902
        return None, ['raises:' + type(e).__name__]
    rel = []
    if not isinstance(m, str) or len(m) != 1:
        return m, ['length_changed']
    if c in ASCII_ALNUM and m != c:
        rel.append('ascii_alnum_altered')
    if m != c:
        cat = unicodedata.category(c)
        if m in '0123456789':
            if unicodedata.decimal(c, None) != int(m):
                rel.append('digit_from_character_without_that_decimal_value')
        if m == ' ' and cat != 'Zs':
            rel.append('space_from_non_Zs')
        if m.isalnum() and not (cat[0] in 'LN'):
            rel.append('alnum_from_non_alnum')
        if ord(m) >= 128:
            rel.append('replacement_not_ascii')
        try:
            if clean(m) != m:
                rel.append('mapped_value_not_fixed_point')
        except Exception:   # noqa: B902
            rel.append('mapped_value_not_fixed_point')
    return m, rel


def check_string(clean, s, D, m1):
    """-> (result, [relation...]); m1: cache {char: image}"""
    try:
        r = clean(s, D)
    except Exception as e:   # noqa: B902
        return None, ['raises:' + type(e).__name__]
    rel = []
    img = []
    for c in s:
        i = m1.get(c)
        if i is None:
            i = m1[c] = clean(c)
        img.append(i)
    expected = ''.join(i for i in img if i not in D)
    if r != expected:
        rel.append('differs_from_map_then_delete_model')
    if any(ch in D for ch in r):
        rel.append('deleted_character_present')
    try:
        if clean(r, D) != r:
            rel.append('not_idempotent')
    except Exception:   # noqa: B902
        rel.append('not_idempotent')
    return r, rel


def _util_case(fn_args, observed, relation):
    site = '%s:clean:%s' % (RF, relation)
    return site, G.make_case(UTIL, 'clean', fn_args, None, observed, EXPECT_CLEAN, site, relation)


def _worker_cp(task):
    _kind, lo, hi, seed, tier = task
    clean = _clean()
    fnd, st = G.Findings(), G.Stats()
    samples = []
    for cp in range(lo, hi):
        c = chr(cp)
        m, rel = check_codepoint(clean, c)
        st.record('codepoint', c, 'ok' if (m != c or c in ASCII_ALNUM) else 'verr:identity')
        for r in rel:
            site = '%s:clean:%s' % (RF, r)
            observed = 'clean(U+%04X %s) = %s' % (cp, unicodedata.name(c, '?'), ascii(m))
            fnd.add(UTIL, 'clean', site, 1, '%08x' % cp, lambda: G.make_case(
                UTIL, 'clean', [c], None, observed, EXPECT_CLEAN, site, r))
        if m != c and len(samples) < 2:
            samples.append({'module': UTIL, 'gen': 'codepoint', 'function': 'clean', 'args': [G.describe_arg(c)],
                            'result': ascii(m), 'name': unicodedata.name(c, '?'), 'violations': len(rel)})
    return {'module': UTIL, 'task': ('0cp', lo), 'stats': st.summary(), 'findings': fnd.export(),
            'samples': samples if lo == 0 else []}


def _worker_rand(task):
    _kind, chunk, n, seed, tier = task
    clean = _clean()
    rng = G.task_rng(seed, PROPERTY, 'rand', chunk)
    fnd, st = G.Findings(), G.Stats()
    keys = list(G.char_map().keys())
    ascii_chars = [chr(i) for i in range(32, 127)]
    m1 = {}
    samples = []
    for _ in range(n):
        k = rng.randrange(0, 30)
        chars = []
        mode = rng.random()
        for _i in range(k):
            r = rng.random()
            if r < 0.4:
                chars.append(rng.choice(keys))
            elif r < 0.75:
                chars.append(rng.choice(ascii_chars))
            elif r < 0.9 or mode < 0.5:
                chars.append(rng.choice(common.HOSTILE))
            else:
                chars.append(chr(rng.randrange(0x110000)))
        s = ''.join(chars)
        r = rng.random()
        if r < 0.15:
            D = ''
        elif r < 0.4:
            D = rng.choice([' ', ' -', ' -.', ' -./,', ' -./:', ' .', "' ", ' -*', ':', ' \t\n'])
        elif r < 0.7:
            pool = [m1.get(c, c) for c in s] + list(' -./,:*\'')
            D = ''.join(rng.choice(pool) for _i in range(rng.randrange(1, 6)))
        elif r < 0.85:
            D = ''.join(rng.choice(keys) for _i in range(rng.randrange(1, 5)))
        else:
            D = ''.join(rng.choice(ascii_chars + keys + common.HOSTILE) for _i in range(rng.randrange(1, 8)))
        res, rel = check_string(clean, s, D, m1)
        st.record('random-string', (s, D), 'ok' if res != s else 'verr:unchanged')
        for rl in rel:
            site = '%s:clean:%s' % (RF, rl)
            observed = 'clean(%s, %s) = %s' % (G.short(s, 40), G.short(D, 20), G.short(res, 40) if res is not None
                                               else rl)
            fnd.add(UTIL, 'clean', site, len(s) + len(D), repr((s, D)), lambda: G.make_case(
                UTIL, 'clean', [s, D], None, observed, EXPECT_CLEAN, site, rl))
        if len(samples) < 2 and res != s:
            samples.append({'module': UTIL, 'gen': 'random-string', 'function': 'clean',
                            'args': [G.describe_arg(s), G.describe_arg(D)], 'result': ascii(res),
                            'violations': len(rel)})
    return {'module': UTIL, 'task': ('1rand', chunk), 'stats': st.summary(), 'findings': fnd.export(),
            'samples': samples if chunk == 0 else []}


def check_nonstring(clean, spec, D):
    from stdnum.exceptions import InvalidFormat
    try:
        r = clean(G.build_spec(spec), D)
    except InvalidFormat:
        return 'verr:InvalidFormat', None
    except Exception as e:   # noqa: B902
        return 'exc:' + type(e).__name__, G.site_of_exception(e, common.module(UTIL), 'clean')
    if not isinstance(r, str):
        return 'ok', '%s:clean:returns_non_string' % RF
    return 'ok', None


def _worker_nonstr(task):
    clean = _clean()
    fnd, st = G.Findings(), G.Stats()
    samples = []
    for spec in G.nonstring_specs(['', '12-3']):
        for D in ('', ' -'):
            klass, site = check_nonstring(clean, spec, D)
            st.record('non-string', (spec, D), klass)
            if site is not None:
                d = G.describe_spec(spec)
                fnd.add(UTIL, 'clean', site, 0, repr((spec, D)), lambda: G.make_case(
                    UTIL, 'clean', [None, D], None, klass, 'str result or InvalidFormat', site,
                    'non-string input raises InvalidFormat only', arg_descr=[d, G.describe_arg(D)]))
            if len(samples) < 1:
                samples.append({'module': UTIL, 'gen': 'non-string', 'function': 'clean',
                                'args': [G.describe_spec(spec), G.describe_arg(D)], 'outcome': klass})
    return {'module': UTIL, 'task': ('2nonstr', 0), 'stats': st.summary(), 'findings': fnd.export(),
            'samples': samples}


def _cls(a):
    return 'digit' if a.isdigit() else a


def compare_spellings(mod, x, y):
    """-> (outcome of y, violation (site, observed) or None); x must be accepted"""
    ox = G.call(mod, 'validate', mod.validate, (x,))
    oy = G.call(mod, 'validate', mod.validate, (y,))
    if ox[0] != 'ok':
        return oy, None
    if oy[0] == 'ok' and type(oy[1]) is type(ox[1]) and oy[1] == ox[1]:
        return oy, None
    d = 'returns %s' % G.short(oy[1], 40) if oy[0] == 'ok' else 'raises %s' % oy[1]
    return oy, (oy[2], 'validate(%s) = %s but validate(%s) %s' % (G.short(x, 40), G.short(ox[1], 40),
                                                                 G.short(y, 40), d))


def _worker_mod(task):
    _kind, modname, part, nparts, seed, tier = task
    mod = common.module(modname)
    sc = G.budget_scale(mod)
    P = G.scaled_params(PARAMS[tier], sc, tier)
    rng = G.task_rng(seed, PROPERTY, modname, part)
    fnd, st = G.Findings(), G.Stats()
    rf = G.relfile(mod)
    inv = G.lookalikes()
    valid = G.part_slice(G.diverse(common.valid_numbers(modname), 10 ** 6)[:P['numbers']], part, nparts)
    samples = []

    thin = G.Thinner(sc, tier)

    def check(gen, cls, x, y):
        if thin.skip(gen):
            return
        oy, viol = compare_spellings(mod, x, y)
        st.record(gen, (x, y), 'ok' if oy[0] == 'ok' else '%s:%s' % (oy[0], oy[1]))
        if viol is not None:
            site = viol[0] or '%s:validate:lookalike_spelling_differs[%s]' % (rf, cls)
            fnd.add(modname, 'validate', site, len(y), repr((x, y)), lambda: G.make_case(
                modname, 'validate', [x, y], None, viol[1], EXPECT_MOD, site,
                'look-alike spelling validates like the ASCII spelling', generator=gen))
        if len(samples) < 3 and not any(s['gen'] == gen for s in samples):
            samples.append({'module': modname, 'gen': gen, 'function': 'validate',
                            'args': [G.describe_arg(x), G.describe_arg(y)],
                            'outcome': 'ok' if oy[0] == 'ok' else oy[1], 'violation': viol is not None})

    for idx, v in enumerate(valid):
        if G.call(mod, 'validate', mod.validate, (v,))[0] != 'ok':
            continue
        for i, a in enumerate(v):
            for k in inv.get(a, ()):
                check('subst', 'lookalike(%s)' % _cls(a), v, v[:i] + k + v[i + 1:])
        nfam = max(len(inv[a]) for a in v if a in inv) if any(a in inv for a in v) else 0
        for fam in range(min(nfam, 27 if tier == 'thorough' else 6)):
            y = ''.join(inv[a][fam % len(inv[a])] if a in inv else a for a in v)
            if y != v:
                check('respell-all', 'lookalike(all)', v, y)
        if idx * nparts + part < P['inserted']:
            for a in " -./:,*'":
                for i in range(len(v) + 1):
                    x = v[:i] + a + v[i:]
                    if G.call(mod, 'validate', mod.validate, (x,))[0] != 'ok':
                        continue
                    for k in inv[a]:
                        check('inserted-separator', 'lookalike(%s)' % a, x, v[:i] + k + v[i:])
    return {'module': modname, 'task': ('3mod', modname, part), 'stats': st.summary(), 'findings': fnd.export(),
            'samples': samples}


def _worker(task):
    return {'cp': _worker_cp, 'rand': _worker_rand, 'nonstr': _worker_nonstr, 'mod': _worker_mod}[task[0]](task)


def search(seed, tier):
    t0 = time.time()
    P = PARAMS[tier]
    # the look-alike sentence of the property is about formats that clean their input: the eight generic
    # algorithm modules work on caller-supplied alphabets and never call clean() (no clean-up, nothing to check)
    names = [m.__name__ for m in common.number_modules() if m.__name__ not in common.GENERIC_MODULES]
    mtasks = [('mod', n, p, k, seed, tier) for (n, p, k) in G.module_tasks(names, tier, 80)]
    order = G.schedule([t[1:] for t in mtasks])
    mtasks = [('mod',) + t for t in order]
    tasks = []
    step = 0x110000 // 34
    for lo in range(0, 0x110000, step):
        tasks.append(('cp', lo, min(0x110000, lo + step), seed, tier))
    nchunk = 32
    for c in range(nchunk):
        tasks.append(('rand', c, P['random'] // nchunk, seed, tier))
    tasks.append(('nonstr', 0, 0, seed, tier))
    results = G.run_tasks(_worker, mtasks[:8] + tasks + mtasks[8:])
    results.sort(key=lambda r: r['task'])
    cm = G.char_map()
    targets = {}
    for k, v in cm.items():
        targets[v] = targets.get(v, 0) + 1
    res, _ = G.merge_results(PROPERTY, RULE, results, t0, {
        'code_points_checked': sum(r['stats']['cases'] for r in results if r['task'][0] == '0cp'),
        'table_entries': len(cm), 'table_targets': dict(sorted(targets.items()))})
    return res


def replay(case):
    if case['module'] == UTIL:
        clean = _clean()
        rel = case['relation']
        a = case['args']
        if 'non_strings_index' in a[0] or 'extra_class' in a[0]:
            spec = ('ns', a[0]['non_strings_index']) if 'non_strings_index' in a[0] else (
                'extra', a[0]['extra_class'], ''.join(chr(c) for c in a[0]['payload']))
            klass, site = check_nonstring(clean, spec, G.rebuild_arg(a[1]))
            return dict(case, observed=klass, site=site) if site is not None else None
        args = [G.rebuild_arg(x) for x in a]
        if len(args) == 1:
            m, rels = check_codepoint(clean, args[0])
        else:
            m, rels = check_string(clean, args[0], args[1], {})
        if not rels:
            return None
        r = rel if rel in rels else rels[0]
        return dict(case, relation=r, site='%s:clean:%s' % (RF, r),
                    observed='clean(%s) = %s' % (', '.join(G.short(x, 40) for x in args), ascii(m)))
    mod, args, kwargs, today = G.case_inputs(case)
    oy, viol = compare_spellings(mod, args[0], args[1])
    if viol is None:
        return None
    return dict(case, observed=viol[1], site=viol[0] or case['site'])


if __name__ == '__main__':
    G.main(PROPERTY, search, replay)
