import PyRt.Basic
/-!
# Spec.NumDB — hand-written model of `stdnum/numdb.py`

Models, statement by statement,

* `NumDB._find` (`findStep` = body of the `for` loop, `findLoop` = the loop, `find` = the recursion),
  `NumDB.info`, `NumDB.split`;
* the reader: `_line_re` (`matchLine`), `_prop_re.findall` (`findallProps`), `_parse` (`parseLine`,
  `parseLines`, `parse`) and `read` (`readStep`, `read`).

Strings are `Py.Str = List Nat` (code points).  A `dict` is an association list in insertion order
(`Dict`); `dict.update` is `dictUpdate` (a key keeps its first position, the value is overwritten).

## Termination of `_find` (finding)

`_find(number, prefixes)` recurses on `_find(number[len(part):], next_prefixes)`.  If an entry of
length 0 matches, `part = ''` and the *number* does not shrink.  The recursion still terminates in
CPython: `next_prefixes` is a concatenation of `children` lists of entries of `prefixes`, so the
nesting depth of the second argument strictly decreases with every call (verified on the real
code: `prefixes = [[0,'','',{'a':'b'},[[0,'','',{},[]]]]]`, `info('12') =
[('', {'a':'b'}), ('', {}), ('12', {})]`).  `find` is therefore defined with fuel
`depth db + 1`, which is enough for *every* tree (`Props.C10.findAux_fuel_irrel`), and no
well-formedness hypothesis is needed for `concat_parts`, `findLoop_spec`, `find_unfold`,
`unmatched_tail`.  Only "parts are non-empty" / "at most `|n|` parts" need `1 ≤ length`.
A length-0 entry cannot come out of `_parse`: a range token is `[^-,\s]+`
(`Props.C10.read_wf`).

## Sharing in the reader

In Python the ranges of one line share one `props` dict and one `children` list object, and `read`
keeps a dict `stack : indent ↦ list object`.  The model keeps a tree of *lines* (`LNode`: the ranges
of the line, its props, the child lines); a list object is identified by its path from the root
(`[]` = `db.prefixes`, `p ++ [i]` = the `children` of the `i`-th appended line of the list at `p`); lists
only grow at the end, so paths stay valid (also stale ones, which Python happily uses after a dedent to
an indent that was opened under an *earlier* parent).  For speed the child lists are stored newest
first (append = cons; oui.dat has 19 593 top-level lines).  `expandList` turns the line tree into the
entry tree (file order, one entry per range, same props, same children).
-/

namespace Spec.NumDB
open Py (Str)

/-- Python `a <= b` on `str`: lexicographic order on code points.  (Own definition so that the model is
self-contained; `Props.C10.strLe_eq_pyrt` proves it equal to `Py.strLe` of `PyRt.Str`.) -/
def strLe : Str → Str → Bool
  | [], _ => true
  | _ :: _, [] => false
  | a :: as, b :: bs => if a < b then true else if b < a then false else strLe as bs

/-! ## dicts (insertion ordered) -/

abbrev Dict := List (Str × Str)

/-- `d[k] = v` : overwrite in place if the key exists, else append -/
def dictSet : Dict → Str → Str → Dict
  | [], k, v => [(k, v)]
  | (k', v') :: d, k, v => if k' = k then (k', v) :: d else (k', v') :: dictSet d k v

/-- `d.update(p)` for `p` iterated in order -/
def dictUpdate (d : Dict) (p : Dict) : Dict := p.foldl (fun d kv => dictSet d kv.1 kv.2) d

/-- `dict(pairs)` -/
def dictOfList (p : List (Str × Str)) : Dict := dictUpdate [] p

/-! ## the prefix tree -/

/-- `[length, low, high, props, children]` -/
structure Entry where
  length : Nat
  low : Str
  high : Str
  props : Dict
  children : List Entry
deriving Repr

mutual
/-- nesting depth -/
def Entry.depth : Entry → Nat
  | ⟨_, _, _, _, ch⟩ => depthList ch + 1
def depthList : List Entry → Nat
  | [] => 0
  | e :: es => max e.depth (depthList es)
end

mutual
/-- every entry at every level has `length ≥ 1` -/
def Entry.wf : Entry → Bool
  | ⟨len, _, _, _, ch⟩ => decide (1 ≤ len) && wfList ch
def wfList : List Entry → Bool
  | [] => true
  | e :: es => e.wf && wfList es
end

/-! ## `NumDB._find` -/

/-- the loop variables `part`, `properties`, `next_prefixes` -/
structure FindState where
  part : Str
  properties : Dict
  next : List Entry
deriving Repr

/-- `len(part) >= length and low <= part[:length] <= high` -/
def entryMatches (part : Str) (e : Entry) : Bool :=
  decide (e.length ≤ part.length) && strLe e.low (part.take e.length)
    && strLe (part.take e.length) e.high

/-- body of `for length, low, high, props, children in prefixes:` -/
def findStep (st : FindState) (e : Entry) : FindState :=
  if entryMatches st.part e then
    -- only use information from the shortest match
    let st := if e.length < st.part.length then
        { part := st.part.take e.length, properties := [], next := [] }
      else st
    { part := st.part, properties := dictUpdate st.properties e.props, next := st.next ++ e.children }
  else st

/-- the whole `for` loop, started with `part = number; properties = {}; next_prefixes = []` -/
def findLoop (number : Str) (prefixes : List Entry) : FindState :=
  prefixes.foldl findStep { part := number, properties := [], next := [] }

/-- `_find` with explicit fuel (number of nested calls still allowed) -/
def findAux : Nat → List Entry → Str → List (Str × Dict)
  | 0, _, _ => []
  | fuel + 1, prefixes, number =>
    if number = [] then []
    else
      let st := findLoop number prefixes
      (st.part, st.properties) :: findAux fuel st.next (number.drop st.part.length)

/-- `NumDB._find(number, prefixes)`; the fuel `depthList prefixes + 1` is never exhausted
(`Props.C10.findAux_fuel_irrel`) -/
def find (prefixes : List Entry) (number : Str) : List (Str × Dict) :=
  findAux (depthList prefixes + 1) prefixes number

/-- `NumDB.info` -/
def info (db : List Entry) (number : Str) : List (Str × Dict) := find db number

/-- `NumDB.split` -/
def split (db : List Entry) (number : Str) : List Str := (info db number).map Prod.fst

/-! ## the declarative lookup rule (what the registry file *means*) -/

/-- entry `e` matches the number `n`: it is not longer than `n` and `low ≤ n[:length] ≤ high` -/
def matchesNumber (n : Str) (e : Entry) : Bool :=
  decide (e.length ≤ n.length) && strLe e.low (n.take e.length) && strLe (n.take e.length) e.high

/-- left-to-right merge of the props of a list of entries -/
def mergeProps (es : List Entry) : Dict := es.foldl (fun d e => dictUpdate d e.props) []

/-- minimum of a non-empty list of lengths (`0` for the empty list) -/
def minLength : List Entry → Nat
  | [] => 0
  | [e] => e.length
  | e :: es => min e.length (minLength es)

/-- the declarative rule for one level -/
def levelRule (n : Str) (db : List Entry) : FindState :=
  let m := db.filter (matchesNumber n)
  if m = [] then { part := n, properties := [], next := [] }
  else
    let l := minLength m
    let sel := m.filter (fun e => e.length == l)
    { part := n.take l, properties := mergeProps sel, next := sel.flatMap Entry.children }

/-! ## the reader -/

/-- `str.isspace` / `\s` of a `str` pattern (`Py_UNICODE_ISSPACE`), checked against CPython 3.12 for all
code points -/
def isSpace (c : Nat) : Bool :=
  (decide (9 ≤ c) && decide (c ≤ 13)) || (decide (28 ≤ c) && decide (c ≤ 32)) || c == 0x85 || c == 0xA0
  || c == 0x1680 || (decide (0x2000 ≤ c) && decide (c ≤ 0x200A)) || c == 0x2028 || c == 0x2029
  || c == 0x202F || c == 0x205F || c == 0x3000

/-- `[^-,\s]` -/
def isTok (c : Nat) : Bool := !(c == 45 || c == 44 || isSpace c)

/-- `[0-9a-zA-Z-_]` (the `-` between `Z` and `_` is a literal, checked against CPython) -/
def isPropChar (c : Nat) : Bool :=
  Py.isAsciiDigit c || Py.isAsciiLower c || Py.isAsciiUpper c || c == 45 || c == 95

/-- `[^-,\s]+` greedy: token and rest -/
def matchTok (s : Str) : Option (Str × Str) :=
  let t := s.takeWhile isTok
  if t = [] then none else some (t, s.dropWhile isTok)

/-- `[^-,\s]+(-[^-,\s]+)?` : `(low, optional high)` and rest.  A `-` that is not followed by a token
character is not consumed. -/
def matchRange (s : Str) : Option ((Str × Option Str) × Str) :=
  match matchTok s with
  | none => none
  | some (t, rest) =>
    match rest with
    | 45 :: rest' =>
      match matchTok rest' with
      | some (t2, rest'') => some ((t, some t2), rest'')
      | none => some ((t, none), rest)
    | _ => some ((t, none), rest)

/-- `(,[^-,\s]+(-[^-,\s]+)?)*` greedy; fuel = length of the input -/
def matchMoreRanges : Nat → Str → List (Str × Option Str) × Str
  | 0, s => ([], s)
  | fuel + 1, s =>
    match s with
    | 44 :: s' =>
      match matchRange s' with
      | some (r, rest) => let (more, rest') := matchMoreRanges fuel rest; (r :: more, rest')
      | none => ([], s)
    | _ => ([], s)

/-- group `ranges` of `_line_re`, already split at `,` and `-` (tokens contain neither, so
`ranges.split(',')` / `rnge.split('-')` recover exactly this structure) -/
def matchRanges (s : Str) : Option (List (Str × Option Str) × Str) :=
  match matchRange s with
  | none => none
  | some (r, rest) => let (more, rest') := matchMoreRanges rest.length rest; some (r :: more, rest')

/-- `_line_re.search(line)`: `(len(indent), ranges, props)` or `None`.

`^` without `MULTILINE` matches only at 0, so `search` = `match`.  ` *` takes all leading blanks (giving
one back leaves a blank, which no range can start with).  The greedy parse of `ranges` is the only one
that can succeed.  `\s*` eats all white space (including `\n`) after the ranges, `.*` cannot cross a `\n`
and `$` matches at the end or before a final `\n`: so the match fails iff a `\n` other than the very last
character follows the first non-space character after the ranges. -/
def matchLine (line : Str) : Option (Nat × List (Str × Option Str) × Str) :=
  let indent := (line.takeWhile (· == 32)).length
  match matchRanges (line.dropWhile (· == 32)) with
  | none => none
  | some (ranges, rest) =>
    let r := rest.dropWhile isSpace
    if r = [] then some (indent, ranges, [])
    else if r.dropLast.contains 10 then none
    else some (indent, ranges, if r.getLast? = some 10 then r.dropLast else r)

/-- one attempt of `_prop_re` at the start of `s`: `(prop, value, rest)` -/
def matchProp (s : Str) : Option (Str × Str × Str) :=
  let k := s.takeWhile isPropChar
  if k = [] then none
  else
    match s.dropWhile isPropChar with
    | 61 :: 34 :: rest =>
      match rest.dropWhile (· != 34) with
      | 34 :: rest' => some (k, rest.takeWhile (· != 34), rest')
      | _ => none
    | _ => none

/-- `_prop_re.findall(s)`; fuel = `len(s) + 1` -/
def findallAux : Nat → Str → List (Str × Str)
  | 0, _ => []
  | _ + 1, [] => []
  | fuel + 1, c :: cs =>
    match matchProp (c :: cs) with
    | some (k, v, rest) => (k, v) :: findallAux fuel rest
    | none => findallAux fuel cs

def findallProps (s : Str) : List (Str × Str) := findallAux (s.length + 1) s

/-- what `_parse` yields for one line: the indent, `(length, low, high)` per range, the shared props -/
structure PLine where
  indent : Nat
  ranges : List (Nat × Str × Str)
  props : Dict
deriving Repr

/-- one iteration of the `for line in fp` loop of `_parse`: `none` = line skipped.
`line[0]` raises IndexError on an empty string (cannot come from a file), a line that `_line_re` does not
match gives `None.group` → AttributeError. -/
def parseLine (line : Str) : Py.R (Option PLine) :=
  match line with
  | [] => Py.raise .indexError
  | c :: _ =>
    if c = 35 || line.all isSpace then pure none
    else
      match matchLine line with
      | none => Py.raise .attributeError
      | some (indent, ranges, props) =>
        pure (some { indent := indent
                     ranges := ranges.map (fun r => (r.1.length, r.1, r.2.getD r.1))
                     props := dictOfList (findallProps props) })

/-- all lines of `_parse` -/
def parseLines : List Str → Py.R (List PLine)
  | [] => pure []
  | l :: ls =>
    match parseLine l with
    | .error e => .error e
    | .ok none => parseLines ls
    | .ok (some p) =>
      match parseLines ls with
      | .error e => .error e
      | .ok ps => .ok (p :: ps)

/-- the tuples `indent, length, low, high, props` generated by `_parse(fp)` (the sixth component, the
shared `children` list, is represented by the grouping in `parseLines`) -/
def parse (lines : List Str) : Py.R (List (Nat × Nat × Str × Str × Dict)) :=
  match parseLines lines with
  | .error e => .error e
  | .ok ps => .ok (ps.flatMap (fun p => p.ranges.map (fun r => (p.indent, r.1, r.2.1, r.2.2, p.props))))

/-- a line of the file with the lines below it.  `children` is kept **newest first** (appending is a
`cons`); `expandList` restores file order. -/
inductive LNode where
  | mk (ranges : List (Nat × Str × Str)) (props : Dict) (children : List LNode)
deriving Repr

def LNode.ranges : LNode → List (Nat × Str × Str) | .mk r _ _ => r
def LNode.props : LNode → Dict | .mk _ p _ => p
def LNode.children : LNode → List LNode | .mk _ _ c => c

mutual
/-- one entry per range; all share the props and the children -/
def LNode.expand : LNode → List Entry
  | .mk ranges props ch =>
    let kids := expandList ch []
    ranges.map (fun r => { length := r.1, low := r.2.1, high := r.2.2, props := props, children := kids })
/-- entries of a newest-first list of lines, in file order, followed by `acc` -/
def expandList : List LNode → List Entry → List Entry
  | [], acc => acc
  | nd :: older, acc => expandList older (nd.expand ++ acc)
end

/-- position, in a newest-first list of length `len`, of the element that was appended `i`-th -/
def revIdx (len i : Nat) : Nat := len - 1 - i

/-- length of the list object at `path` -/
def lengthAt : List Nat → List LNode → Option Nat
  | [], l => some l.length
  | i :: p, l =>
    if i < l.length then
      match l[revIdx l.length i]? with
      | some nd => lengthAt p nd.children
      | none => none
    else none

/-- `<list object at path>.append(node)` -/
def appendAt : List Nat → LNode → List LNode → Option (List LNode)
  | [], nd, l => some (nd :: l)
  | i :: p, nd, l =>
    if i < l.length then
      match l[revIdx l.length i]? with
      | some (.mk r pr ch) =>
        match appendAt p nd ch with
        | some ch' => some (l.set (revIdx l.length i) (.mk r pr ch'))
        | none => none
      | none => none
    else none

/-- `stack.get(k)` on the dict `indent ↦ path` -/
def stackGet : List (Nat × List Nat) → Nat → Option (List Nat)
  | [], _ => none
  | (k', p) :: s, k => if k' = k then some p else stackGet s k

/-- `stack[k] = p` -/
def stackSet : List (Nat × List Nat) → Nat → List Nat → List (Nat × List Nat)
  | [], k, p => [(k, p)]
  | (k', p') :: s, k, p => if k' = k then (k', p) :: s else (k', p') :: stackSet s k p

/-- state of `read`: the tree (`db.prefixes`), `stack`, `last_indent` -/
structure RState where
  root : List LNode
  stack : List (Nat × List Nat)
  last : Nat
deriving Repr

def RState.init : RState := { root := [], stack := [(0, [])], last := 0 }

/-- the iterations of the loop of `read` for the tuples of one line (they have the same indent, so only
the first can take the `indent > last_indent` branch, and all are appended to the same list one after the
other). -/
def readStep (st : RState) (p : PLine) : Py.R RState :=
  if p.ranges = [] then pure st else
  -- if indent > last_indent: stack[indent] = stack[last_indent][-1][4]
  let stack? : Py.R (List (Nat × List Nat)) :=
    if p.indent > st.last then
      match stackGet st.stack st.last with
      | none => Py.raise .keyError
      | some q =>
        match lengthAt q st.root with
        | none => Py.raise .other
        | some 0 => Py.raise .indexError
        | some (k + 1) => pure (stackSet st.stack p.indent (q ++ [k]))
    else pure st.stack
  match stack? with
  | .error e => .error e
  | .ok stack =>
    -- stack[indent].append([length, low, high, props, children])
    match stackGet stack p.indent with
    | none => Py.raise .keyError
    | some q =>
      match appendAt q (.mk p.ranges p.props []) st.root with
      | none => Py.raise .other
      | some root' => pure { root := root', stack := stack, last := p.indent }

/-- the loop of `read`, pulling one line at a time out of `_parse` -/
def readLoop : RState → List Str → Py.R RState
  | st, [] => pure st
  | st, l :: ls =>
    match parseLine l with
    | .error e => .error e
    | .ok none => readLoop st ls
    | .ok (some p) =>
      match readStep st p with
      | .error e => .error e
      | .ok st' => readLoop st' ls

/-- the line tree built by `read` -/
def readTree (lines : List Str) : Py.R (List LNode) :=
  match readLoop RState.init lines with
  | .error e => .error e
  | .ok st => .ok st.root

/-- `read(fp).prefixes` where iterating `fp` yields `lines` -/
def read (lines : List Str) : Py.R (List Entry) :=
  match readTree lines with
  | .error e => .error e
  | .ok t => .ok (expandList t [])

/-- iterating an `io.StringIO(text)` (`newline='\n'`): lines end after each `\n`; a last line without
`\n` is yielded if it is not empty -/
def splitLinesAux : Str → Str → List Str
  | [], cur => if cur = [] then [] else [cur.reverse]
  | c :: cs, cur => if c = 10 then (c :: cur).reverse :: splitLinesAux cs [] else splitLinesAux cs (c :: cur)

def splitLines (text : Str) : List Str := splitLinesAux text []

/-- `read(io.StringIO(text)).prefixes` -/
def readText (text : Str) : Py.R (List Entry) := read (splitLines text)

/-- the registry tree of an embedded file text (`[]` if the reader fails).  A separate definition (not an inline
`match` in `Gen.db_<name>.db`) so that `Gen.db_<name>.db` unfolds to `dbOfText (Py.ofString text)` without the
kernel evaluating the reader. -/
def dbOfText (text : Str) : List Entry :=
  match readText text with
  | .ok t => t
  | .error _ => []

end Spec.NumDB
