import PyRt.Basic
import PyRt.Int
/-!
# Spec.Wsgi — model of `online_check/stdnum.wsgi` (property C18)

Hand-written model of the bundled WSGI application.  Everything the script does with
untrusted text is modelled literally:

* `escape`        — `html.escape(s, quote)`: the chain of `str.replace` calls, `&` first;
* `convStr`       — `str(conversion)`: since upstream commit 6b1a6e2 `format()` shows conversions as
                    `html.escape(str(conversion))`, so `int`, `None`, `dict` … no longer fail;
* `escapeConv`    — `html.escape(data['number'])`, still applied without `str()` to what
                    `format(number)` returned (raises `AttributeError` on non-strings exactly like
                    `x.replace` does);
* `conversions`   — `dict(get_conversions(module, number))` (catch-all `try`, dates turned into
                    text, `conversion != number` filter, dict insertion semantics);
* `info`          — `info(module, number)`;
* `formatEntry`   — `format(data)`;
* `pctFormat`/`page` — `_template % dict(value=…, results=…)`;
* `application`   — `application(environ, start_response)` after `parse_qs`;
* `serve`/`runSeq` — the `_template` global across the requests served by one process.

Outside the model (named in `Props/C18.lean`): `urllib.parse.parse_qs` and the WSGI server
(the model starts from the parsed parameter dictionary), `json.dumps` (the AJAX body is kept as
the structured list of `Info` records; only its failure on non-serialisable values is
modelled), `inspect.getmembers` (the getter list is a parameter), and the two `re.sub` calls
that `format()` applies to the module description: they operate on trusted docstring text,
never on the submitted number, and are represented by the opaque parameter
`descr : Py.Str → Py.Str` (= `html.escape`, `replace('\n\n', '<br/>\n')` and both `re.sub`s).

The number modules are abstracted to their outcomes (`Module`): what `is_valid`, `compact`,
`format` and every eligible getter do on a given number — a value or an exception.
-/
namespace Spec.Wsgi
open Py

/-! ## `html.escape` -/

/-- `s.replace(chr c, r)` for a one-character pattern -/
def replace1 (c : Nat) (r : Str) (s : Str) : Str :=
  s.flatMap (fun x => if x = c then r else [x])

def entAmp  : Str := [38, 97, 109, 112, 59]        -- "&amp;"
def entLt   : Str := [38, 108, 116, 59]            -- "&lt;"
def entGt   : Str := [38, 103, 116, 59]            -- "&gt;"
def entQuot : Str := [38, 113, 117, 111, 116, 59]  -- "&quot;"
def entApos : Str := [38, 35, 120, 50, 55, 59]     -- "&#x27;"

/-- the five character references `html.escape` can produce -/
def entities : List Str := [entAmp, entLt, entGt, entQuot, entApos]

/-- `html.escape(s, quote)`:
```
s = s.replace("&", "&amp;")  # Must be done first!
s = s.replace("<", "&lt;")
s = s.replace(">", "&gt;")
if quote:
    s = s.replace('"', "&quot;")
    s = s.replace('\'', "&#x27;")
``` -/
def escape (quote : Bool) (s : Str) : Str :=
  let s := replace1 38 entAmp s
  let s := replace1 60 entLt s
  let s := replace1 62 entGt s
  if quote then
    let s := replace1 34 entQuot s
    replace1 39 entApos s
  else s

/-- what one character becomes under `escape` (characterisation, proved in `Props/C18`) -/
def escChar (quote : Bool) (c : Nat) : Str :=
  if c = 38 then entAmp
  else if c = 60 then entLt
  else if c = 62 then entGt
  else if quote && c = 34 then entQuot
  else if quote && c = 39 then entApos
  else [c]

/-- inverse of `escape` on its range: decodes exactly the five entities, left to right
(a small fragment of `html.unescape`) -/
def unescape : Str → Str
  | [] => []
  | 38 :: 97 :: 109 :: 112 :: 59 :: r => 38 :: unescape r
  | 38 :: 108 :: 116 :: 59 :: r => 60 :: unescape r
  | 38 :: 103 :: 116 :: 59 :: r => 62 :: unescape r
  | 38 :: 113 :: 117 :: 111 :: 116 :: 59 :: r => 34 :: unescape r
  | 38 :: 35 :: 120 :: 50 :: 55 :: 59 :: r => 39 :: unescape r
  | c :: r => c :: unescape r

/-! ## values returned by conversion functions -/

/-- What a `to_*`/`get_*` function (or `format`/`compact`) may hand to the page, after dates
have been turned into text.  Every constructor determines `str(value)`:
`other text` = any other JSON-serialisable object (dict with string keys, list, tuple, float) with its
`str()` text; `nojson text` = anything `json.dumps` rejects (Decimal, bytes, set, …) with its
`str()` text.  `int n` stands for an `int` within `sys.get_int_max_str_digits()` (4300 digits; beyond
it `str()` and `json.dumps` both raise `ValueError` — outside the model, no function of the library
returns such a value).  On the current tree the getters return `str`, `int`, `None`, `dict`, `date`. -/
inductive Conv where
  | str (s : Str)
  | int (n : Int)
  | none
  | bool (b : Bool)
  | other (text : Str)
  | nojson (text : Str)
deriving DecidableEq, Repr, Inhabited

/-- raw return value of a getter: `isinstance(conversion, datetime.date)` is tested first;
`date` carries `conversion.strftime('%Y-%m-%d')` -/
inductive GetVal where
  | conv (c : Conv)
  | date (iso : Str)
deriving DecidableEq, Repr, Inhabited

def sNone  : Str := [78, 111, 110, 101]        -- "None"
def sTrue  : Str := [84, 114, 117, 101]        -- "True"
def sFalse : Str := [70, 97, 108, 115, 101]    -- "False"

/-- `str(conversion)` -/
def convStr : Conv → Str
  | .str s => s
  | .int n => Py.strOfInt n
  | .none => sNone
  | .bool b => if b then sTrue else sFalse
  | .other t => t
  | .nojson t => t

/-- `html.escape(x)` on a value that is not passed through `str()` first (`data['number']`):
`x.replace(...)` exists only on `str`; `int`, `None`, `dict`, `tuple`, `Decimal` … raise
`AttributeError` (`'int' object has no attribute 'replace'`); `bytes` would raise `TypeError` — one
class in the model. -/
def escapeConv : Conv → R Str
  | .str s => pure (escape true s)
  | _ => raise .attributeError

/-- `json.dumps` accepts the value -/
def Conv.jsonable : Conv → Bool
  | .nojson _ => false
  | _ => true

/-! ## modules, `get_conversions`, `info` -/

/-- one eligible conversion function of a module (`to_*`/`get_*`, single required parameter
`number`, name not ending in `binary`), in `inspect.getmembers` order -/
structure Getter where
  /-- `name.split('_', 1)[1].replace('_', ' ')` -/
  prop : Str
  run : Str → R GetVal

/-- a number module reduced to what the application observes of it -/
structure Module where
  /-- `module.__name__.split('.', 1)[1]` -/
  modname : Str
  /-- `get_module_name(module)` -/
  name : Str
  /-- `get_module_description(module)` -/
  description : Str
  /-- `module.is_valid(number)` (truthiness of the result) -/
  isValid : Str → R Bool
  /-- `getattr(module, 'compact', lambda x: x)(number)` -/
  compact : Str → R Conv
  /-- `getattr(module, 'format', compactfn)(number)` -/
  format : Str → R Conv
  getters : List Getter

/-- `d[k] = v` on an insertion-ordered dict -/
def dictSet (d : List (Str × Conv)) (k : Str) (v : Conv) : List (Str × Conv) :=
  match d with
  | [] => [(k, v)]
  | (k', v') :: r => if k' = k then (k', v) :: r else (k', v') :: dictSet r k v

/-- `dict(pairs)` -/
def dictOfPairs (ps : List (Str × Conv)) : List (Str × Conv) :=
  ps.foldl (fun d p => dictSet d p.1 p.2) []

/-- the body of the `try` in `get_conversions` for one function: what it yields, if anything -/
def yieldOf (number : Str) (g : Getter) : Option (Str × Conv) :=
  match g.run number with
  | .error _ => none                               -- `except Exception: pass`
  | .ok (.date iso) => some (g.prop, .str iso)     -- `conversion.strftime('%Y-%m-%d')`
  | .ok (.conv (.str s)) => if s ≠ number then some (g.prop, .str s) else none
  | .ok (.conv c) => some (g.prop, c)              -- a non-string `!= number` is `True`

/-- `dict(get_conversions(module, number))` -/
def conversions (gs : List Getter) (number : Str) : List (Str × Conv) :=
  dictOfPairs (gs.filterMap (yieldOf number))

/-- the dictionary built by `info(module, number)` -/
structure Info where
  number : Conv
  compact : Conv
  valid : Bool
  module : Str
  name : Str
  description : Str
  conversions : List (Str × Conv)
deriving DecidableEq, Repr

/-- `info(module, number)`; keyword arguments are evaluated left to right -/
def info (m : Module) (number : Str) : R Info := do
  let n ← m.format number
  let c ← m.compact number
  let v ← m.isValid number
  pure { number := n, compact := c, valid := v, module := m.modname, name := m.name,
         description := m.description, conversions := conversions m.getters number }

/-! ## `format(data)` -/

def sConvOpen  : Str := [10, 60, 98, 114, 47, 62, 60, 98, 62, 60, 105, 62]  -- "\n<br/><b><i>"
def sConvMid   : Str := [60, 47, 105, 62, 60, 47, 98, 62, 58, 32]           -- "</i></b>: "
def sLiOpen    : Str := [60, 108, 105, 62]                                  -- "<li>"
def sNameOpen  : Str := [58, 32, 60, 98, 62]                                -- ": <b>"
def sNameClose : Str := [60, 47, 98, 62, 60, 112, 62]                       -- "</b><p>"
def sLiClose   : Str := [60, 47, 112, 62, 60, 47, 108, 105, 62]             -- "</p></li>"

/-- one line of the loop
`description += '\n<br/><b><i>%s</i></b>: %s' % (html.escape(name), html.escape(str(conversion)))` -/
def convLine (k : Str) (v : Conv) : Str :=
  sConvOpen ++ escape true k ++ sConvMid ++ escape true (convStr v)

/-- the loop over `data['conversions'].items()` -/
def appendConvs (description : Str) (cs : List (Str × Conv)) : Str :=
  cs.foldl (fun d p => d ++ convLine p.1 p.2) description

/-- `format(data)`.  `descr` stands for the processing of the (trusted) module description:
`html.escape`, `.replace('\n\n', '<br/>\n')` and the two `re.sub` calls.  The only step that can
raise is `html.escape(data['number'])`. -/
def formatEntry (descr : Str → Str) (d : Info) : R Str := do
  let description := appendConvs (descr d.description) d.conversions
  let n ← escapeConv d.number
  pure (sLiOpen ++ n ++ sNameOpen ++ escape true d.name ++ sNameClose ++ description ++ sLiClose)

/-- HISTORICAL: `format(data)` before upstream commit 6b1a6e2 (`html.escape(conversion)` without
`str()`): any non-string conversion raised `AttributeError`.  Kept only for the labelled witness
`Props.C18.formatEntry_fix_witness`; nothing else uses it. -/
def formatEntryOld (descr : Str → Str) (d : Info) : R Str := do
  let lines ← d.conversions.mapM (fun p => do
    let e ← escapeConv p.2
    pure (sConvOpen ++ escape true p.1 ++ sConvMid ++ e))
  let n ← escapeConv d.number
  pure (sLiOpen ++ n ++ sNameOpen ++ escape true d.name ++ sNameClose ++
        (descr d.description ++ lines.flatten) ++ sLiClose)

/-! ## `template % mapping` -/

/-- state of the scanner of `str.__mod__` -/
inductive FmtState where
  | text
  | pct                                   -- just after `%`
  | key (depth : Nat) (acc : Str)         -- inside `%(`; `acc` reversed; Python counts parentheses
  | spec (val : Str)                      -- after `%(key)`, value looked up
deriving Repr

def lookup (d : List (Str × Str)) (k : Str) : Option Str :=
  match d with
  | [] => none
  | (k', v) :: r => if k' = k then some v else lookup r k

/-- `template % d` for a mapping `d` with string values, for the sublanguage
literal text / `%%` / `%(key)s`.  Errors as in CPython for: `%` at the end (`ValueError`),
unterminated key (`ValueError`), missing key (`KeyError`), nothing after `%(key)`
(`ValueError`).  Every other directive (flags, widths, `%s`, `%d`, …) is *rejected* by the
model (`ValueError`) although CPython gives some of them a meaning: the model is stricter,
which is sound for the theorems (they require the template to be accepted). -/
def fmt (d : List (Str × Str)) : FmtState → Str → R Str
  | .text, [] => pure []
  | .text, c :: r => if c = 37 then fmt d .pct r else (c :: ·) <$> fmt d .text r
  | .pct, [] => raise .valueError
  | .pct, c :: r =>
    if c = 37 then (37 :: ·) <$> fmt d .text r
    else if c = 40 then fmt d (.key 1 []) r
    else raise .valueError
  | .key _ _, [] => raise .valueError
  | .key n acc, c :: r =>
    if c = 41 then
      if n ≤ 1 then
        match lookup d acc.reverse with
        | none => raise .keyError
        | some v => fmt d (.spec v) r
      else fmt d (.key (n - 1) (c :: acc)) r
    else if c = 40 then fmt d (.key (n + 1) (c :: acc)) r
    else fmt d (.key n (c :: acc)) r
  | .spec _, [] => raise .valueError
  | .spec v, c :: r => if c = 115 then (v ++ ·) <$> fmt d .text r else raise .valueError

def pctFormat (template : Str) (d : List (Str × Str)) : R Str := fmt d .text template

def kValue   : Str := [118, 97, 108, 117, 101]            -- "value"
def kResults : Str := [114, 101, 115, 117, 108, 116, 115] -- "results"
def kNumber  : Str := [110, 117, 109, 98, 101, 114]       -- "number"

/-- `_template % dict(value=value, results=results)` -/
def page (template value results : Str) : R Str :=
  pctFormat template [(kValue, value), (kResults, results)]

/-! ## `application` -/

/-- `sep.join(items)` -/
def join (sep : Str) : List Str → Str
  | [] => []
  | [x] => x
  | x :: y :: r => x ++ sep ++ join sep (y :: r)

/-- a code point `str.encode('utf-8')` accepts (strict error handler): no surrogates -/
def encodable (c : Nat) : Bool := decide (c < 0xD800) || (decide (0xDFFF < c) && decide (c < 0x110000))

/-- `s.encode('utf-8')` succeeds -/
def Encodable (s : Str) : Prop := ∀ c ∈ s, encodable c = true

instance (s : Str) : Decidable (Encodable s) := inferInstanceAs (Decidable (∀ c ∈ s, encodable c = true))

inductive Body where
  /-- the text of the page (before `.encode('utf-8')`, which is injective) -/
  | html (text : Str)
  /-- the list handed to `json.dumps(results, indent=2, sort_keys=True)` -/
  | json (results : List Info)
deriving DecidableEq, Repr

/-- Response of the application: status and body, or the marker that the call raised
(a WSGI server turns that into a 500 response; `start_response('200 OK', …)` has already
been called at that point, but no body has been produced). -/
inductive Response where
  | ok (status : Nat) (body : Body)
  | serverError (e : Exc)
deriving DecidableEq, Repr

/-- the comprehension
`[info(module, number) for module in get_number_modules() if module.is_valid(number)]` -/
def results (mods : List Module) (number : Str) : R (List Info) :=
  match mods with
  | [] => pure []
  | m :: r => do
    if (← m.isValid number) then
      let i ← info m number
      let rest ← results r number
      pure (i :: rest)
    else results r number

/-- `json.dumps` accepts the record -/
def Info.jsonable (i : Info) : Bool :=
  i.number.jsonable && i.compact.jsonable && i.conversions.all (fun p => p.2.jsonable)

/-- `parameters[key]` on the dictionary returned by `parse_qs` -/
def getParam (params : List (Str × List Str)) (k : Str) : Option (List Str) :=
  match params with
  | [] => none
  | (k', v) :: r => if k' = k then some v else getParam r k

/-- `number`, `results` as computed from the parsed parameters -/
def lookupNumber (mods : List Module) (params : List (Str × List Str)) : R (Str × List Info) :=
  match getParam params kNumber with
  | none => pure ([], [])                        -- `'number' in parameters` is false
  | some [] => raise .indexError                 -- `parameters['number'][0]`
  | some (number :: _) => do
    let res ← results mods number
    pure (number, res)

/-- the two `return` branches of `application` -/
def finish (template : Str) (ajax : Bool) (descr : Str → Str) (number : Str) (res : List Info) :
    R Body :=
  if ajax then
    -- `json.dumps(results, indent=2, sort_keys=True).encode('utf-8')` (ASCII output: cannot fail
    -- in `encode`); fails with `TypeError` on values it cannot serialise
    if res.all Info.jsonable then pure (.json res) else raise .typeError
  else do
    let items ← res.mapM (formatEntry descr)
    let body ← page template (escape true number) (join [10] items)
    -- `.encode('utf-8')`
    if decide (Encodable body) then pure (.html body) else raise .unicodeError

/-- the part of `application` after the template has been obtained, in the exception monad -/
def respond (template : Str) (params : List (Str × List Str)) (ajax : Bool)
    (descr : Str → Str) (mods : List Module) : R Body := do
  let (number, res) ← lookupNumber mods params
  finish template ajax descr number res

/-- `application(environ, start_response)` given the template text, the parsed parameters,
`is_ajax`, and the module table.  Total: every exception becomes `serverError`. -/
def application (template : Str) (params : List (Str × List Str)) (ajax : Bool)
    (descr : Str → Str) (mods : List Module) : Response :=
  match respond template params ajax descr mods with
  | .ok b => .ok 200 b
  | .error e => .serverError e

/-! ## the `_template` global over the life of a process -/

structure Req where
  params : List (Str × List Str)
  ajax : Bool

/-- One request.  `st` is the module global `_template` (`none` = `None`); `file` is the
outcome of `open(...).read().decode('utf-8')` (constant while the process runs).
`if not _template:` is true for `None` and for the empty string. -/
def serve (file : R Str) (descr : Str → Str) (mods : List Module)
    (st : Option Str) (rq : Req) : Response × Option Str :=
  let needRead := match st with
    | none => true
    | some t => t.isEmpty
  if needRead then
    match file with
    | .error e => (.serverError e, st)     -- raised before the assignment
    | .ok t => (application t rq.params rq.ajax descr mods, some t)
  else
    match st with
    | some t => (application t rq.params rq.ajax descr mods, st)
    | none => (.serverError .other, st)    -- unreachable

/-- the responses to a sequence of requests served by one process starting in state `st` -/
def runSeq (file : R Str) (descr : Str → Str) (mods : List Module) :
    Option Str → List Req → List Response
  | _, [] => []
  | st, rq :: rest =>
    let (resp, st') := serve file descr mods st rq
    resp :: runSeq file descr mods st' rest

end Spec.Wsgi
