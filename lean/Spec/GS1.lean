import PyRt
import Gen.gs1_128
import Gen.ean
import Spec.NumDB
/-!
# Spec.GS1 — hand-written model of `stdnum/gs1_128.py` AS IT IS

Statement by statement: `compact` (the *generated* `Gen.gs1_128.compact` is used as is), `_encode_value`
(`encodeValue`), `_max_length` (`maxLength`, through the runtime's regex engine on the pattern the
translator extracted from the source, `Gen.gs1_128._re_lit_0`), `_pad_value` (`padValue`),
`_decode_value` (`decodeValue`), `info`, `encode`, `validate`, `is_valid`.
Tied to the real code by `tools/corr/gs1.py` (differential run, including the defective cases).

## Values

`GsVal` = `str | int | Decimal | datetime.date | datetime.datetime | 2-tuple` — what `info` returns and
what `encode` is documented to take.  Outside the modelled universe: `bool`, `None`, `float`, lists,
tuples of other lengths, `datetime` with microseconds / tzinfo, non-`str` dictionary keys.
`str()` of a tuple (reachable only when a tuple is given for an identifier that does not take one)
needs `repr` of strings and is NOT modelled: the model raises `Exc.other` there and
`strTupleReached` tells the driver that a request is outside the model.

## `decimal.Decimal`

Only two operations are used by the library: `str(value)` (`Dec.toStr`, CPython's `to-scientific-string`
with its switch to exponent notation) and `Decimal(text)` (`Dec.ofStr`: `_decimal`'s
`numeric_as_ascii` — white space stripped at both ends, every `_` dropped, non-ASCII decimal digits
converted — followed by libmpdec's `mpd_qset_string`: sign, `NaN`/`sNaN` with payload, `Inf`/`Infinity`,
digits with at most one point and an optional exponent; construction is exact, so an exponent outside
`[-1999999999999999997, 999999999999999999 - (digits - 1)]` is `InvalidOperation`).
`InvalidOperation` is an `ArithmeticError`, i.e. `Exc.other`.

## `strptime` / `strftime`

`datetime.strptime(value, '%y%m%d%H%M%S'[:len(value)])`: the format is cut to the length of the value.  An
odd cut ends in a stray `%` (ValueError); a value longer than 12 cannot be consumed (ValueError); otherwise
the format has `len/2` directives, each consumes at most two characters and the whole value must be
consumed, so every directive must take exactly two characters; in `_strptime`'s regular expressions
the two-character alternatives of a directive are mutually exclusive and (except the disjoint `' [1-9]'`
of `%d`) tried before the one-character alternative, so the backtracking matcher succeeds with full
consumption iff each two-character chunk matches the two-character alternatives of its directive
(`chunkY … chunkS`; `\d` is Unicode-aware, the literal classes are ASCII).  All failures are ValueError.
`%y`: `00–68 → 2000–2068`, `69–99 → 1969–1999`.  `strftime` with `%y %m %d %H %M %S`: two digits each.

## The registry

`Env.db` is `_gs1_aidb.prefixes` (a `Spec.NumDB` tree; `Spec/GS1Data.lean` is generated from the current
`gs1_ai.dat` by `tools/gen_gs1.py`), `_gs1_aidb.info(number)[0]` is `aiLookup` (through
`Spec.NumDB.info`, nothing abstracted).  `Env.validate` is `_ai_validators` composed with
`__import__(...).validate` (result discarded): `stdnum.ean` is the generated `Gen.ean.validate`,
`stdnum.iban` is a parameter (not modelled here; the driver gets its verdicts from the harness).

## `while number:`

`infoLoop` carries fuel; `info` supplies `len(number) + 1`.  Every iteration removes `len(ai)` characters
and `Spec.NumDB.wfList db` gives `len(ai) ≥ 1`, so the fuel is never exhausted for a well-formed tree
(`Props.C16.infoLoop_fuel`).  With a zero-length registry entry the Python loop can spin for ever; the model
raises `Exc.other` when the fuel runs out.
-/
namespace Spec.GS1
open Py (Str R)

/-! ## string constants (numeric, so that the kernel never decodes a `String`) -/

def sDecimal : Str := [100, 101, 99, 105, 109, 97, 108]  -- 'decimal'
def sDate : Str := [100, 97, 116, 101]  -- 'date'
def sInt : Str := [105, 110, 116]  -- 'int'
def sFormat : Str := [102, 111, 114, 109, 97, 116]  -- 'format'
def sType : Str := [116, 121, 112, 101]  -- 'type'
def sFnc1 : Str := [102, 110, 99, 49]  -- 'fnc1'
def fN6 : Str := [78, 54]  -- 'N6'
def fN10 : Str := [78, 49, 48]  -- 'N10'
def fN12 : Str := [78, 49, 50]  -- 'N12'
def fN6dd12 : Str := [78, 54, 46, 46, 49, 50]  -- 'N6..12'
def fN6oN6 : Str := [78, 54, 91, 43, 78, 54, 93]  -- 'N6[+N6]'
def fN6pNdd4 : Str := [78, 54, 43, 78, 46, 46, 52]  -- 'N6+N..4'
def fN6oNdd4 : Str := [78, 54, 91, 43, 78, 46, 46, 52, 93]  -- 'N6[+N..4]'
def fN6oN4 : Str := [78, 54, 91, 43, 78, 52, 93]  -- 'N6[+N4]'
def fN8pNdd4 : Str := [78, 56, 43, 78, 46, 46, 52]  -- 'N8+N..4'
def fN8oNdd4 : Str := [78, 56, 91, 43, 78, 46, 46, 52, 93]  -- 'N8[+N..4]'
def s01 : Str := [48, 49]  -- '01'
def s02 : Str := [48, 50]  -- '02'
def s8007 : Str := [56, 48, 48, 55]  -- '8007'

/-! ## `decimal.Decimal` -/

/-- a `Decimal` value: `as_tuple()` is `(sign, digits of coeff, exp)`; `payload = 0` is "no payload" -/
inductive Dec where
  | fin (neg : Bool) (coeff : Nat) (exp : Int)
  | inf (neg : Bool)
  | nan (neg : Bool) (signaling : Bool) (payload : Nat)
deriving DecidableEq, Repr, Inhabited

/-- `Emax` of `_decimal`'s `maxcontext` (64-bit build) -/
def decEmax : Int := 999999999999999999
/-- `Etiny` of the same context: `Emin - (prec - 1)` -/
def decEtiny : Int := -1999999999999999997

/-- `'%+d' % n` -/
def fmtSignedInt (n : Int) : Str := (if n < 0 then 45 else 43) :: Py.strOfNat n.natAbs

/-- the digits and exponent part of `str(d)` for a finite `d` (CPython `Decimal.__str__`, `eng=False`,
`capitals=1`) -/
def Dec.finBody (coeff : Nat) (exp : Int) : Str :=
  let digits := Py.strOfNat coeff
  let nd : Int := digits.length
  let leftdigits : Int := exp + nd
  let dotplace : Int := if exp ≤ 0 ∧ leftdigits > -6 then leftdigits else 1
  let body : Str :=
    if dotplace ≤ 0 then [48, 46] ++ List.replicate (-dotplace).toNat 48 ++ digits
    else if dotplace ≥ nd then digits ++ List.replicate (dotplace - nd).toNat 48
    else digits.take dotplace.toNat ++ [46] ++ digits.drop dotplace.toNat
  let e : Str := if leftdigits = dotplace then [] else 69 :: fmtSignedInt (leftdigits - dotplace)
  body ++ e

/-- `str(d)` -/
def Dec.toStr : Dec → Str
  | .fin neg c e => (if neg then [45] else []) ++ Dec.finBody c e
  | .inf neg => (if neg then [45] else []) ++ [73, 110, 102, 105, 110, 105, 116, 121]   -- 'Infinity'
  | .nan neg sig p =>
    (if neg then [45] else []) ++ (if sig then [115, 78, 97, 78] else [78, 97, 78])       -- 'sNaN' / 'NaN'
      ++ (if p = 0 then [] else Py.strOfNat p)

/-- value of a string of ASCII digits as a natural number -/
def digitsNat (s : Str) : Nat := s.foldl (fun acc c => acc * 10 + (c - 48)) 0

def allAsciiDigits (s : Str) : Bool := s.all Py.isAsciiDigit

/-- `numeric_as_ascii(u, strip_ws=1, ignore_underscores=1)` of `_decimal.c`; `none` = a character that is
neither ASCII (1–127), white space nor a decimal digit -/
def decAscii (s : Str) : Option Str :=
  ((Py.strip s).filter (· != 95)).mapM (fun c =>
    if 0 < c ∧ c ≤ 127 then some c
    else if Py.Uni.isSpace c then some 32
    else (Py.Uni.decimal? c).map (48 + ·))

/-- exponent part: `''` or `[eE][+-]?[0-9]+` -/
def decExponent : Str → Option Int
  | [] => some 0
  | _ :: r =>
    let (neg, ds) := match r with
      | 43 :: t => (false, t)
      | 45 :: t => (true, t)
      | _ => (false, r)
    if ds = [] || !allAsciiDigits ds then none
    else some (if neg then -(digitsNat ds : Int) else (digitsNat ds : Int))

/-- `mpd_qset_string` for a numeric string (after the sign), exact (`PyDecType_FromCStringExact`) -/
def decNumber (neg : Bool) (b : Str) : R Dec :=
  let isE : Nat → Bool := fun c => c == 69 || c == 101
  let mant := b.takeWhile (fun c => !isE c)
  let rest := b.dropWhile (fun c => !isE c)
  let ip := mant.takeWhile (· != 46)
  let fp := (mant.dropWhile (· != 46)).drop 1
  if !(allAsciiDigits ip && allAsciiDigits fp) || (ip ++ fp) = [] then Py.raise .other
  else
    match decExponent rest with
    | none => Py.raise .other
    | some ex =>
      let c := digitsNat (ip ++ fp)
      let e : Int := ex - fp.length
      let nd : Int := (Py.strOfNat c).length
      if decEtiny ≤ e ∧ e + (if c = 0 then 0 else nd - 1) ≤ decEmax then pure (.fin neg c e)
      else Py.raise .other

/-- NaN payload: `0*[0-9]*` up to the end -/
def decPayload (s : Str) : Option Nat := if allAsciiDigits s then some (digitsNat s) else none

/-- `mpd_qset_string` on the ASCII form -/
def decParse (a : Str) : R Dec :=
  let (neg, b) : Bool × Str := match a with
    | 43 :: t => (false, t)
    | 45 :: t => (true, t)
    | _ => (false, a)
  let lb := b.map Py.asciiLower
  if lb.take 3 = [110, 97, 110] then            -- 'nan'
    match decPayload (b.drop 3) with
    | some p => pure (.nan neg false p)
    | none => Py.raise .other
  else if lb.take 4 = [115, 110, 97, 110] then  -- 'snan'
    match decPayload (b.drop 4) with
    | some p => pure (.nan neg true p)
    | none => Py.raise .other
  else if lb.take 3 = [105, 110, 102] then      -- 'inf'
    if lb.drop 3 = [] ∨ lb.drop 3 = [105, 110, 105, 116, 121] then pure (.inf neg)   -- 'inity'
    else Py.raise .other
  else decNumber neg b

/-- `decimal.Decimal(s)` for a `str` -/
def Dec.ofStr (s : Str) : R Dec :=
  match decAscii s with
  | none => Py.raise .other
  | some a => decParse a

/-! ## values -/

/-- the values of a GS1 mapping -/
inductive GsVal where
  | str (s : Str)
  | int (i : Int)
  | dec (d : Dec)
  | date (d : Py.Date)
  | datetime (d : Py.Date) (hour minute second : Int)
  | tuple (a b : GsVal)
deriving DecidableEq, Repr, Inhabited

abbrev Dict := List (Str × GsVal)

/-- two decimal digits (`%02d` for `0 ≤ n < 100`) -/
def d2 (n : Int) : Str := [48 + n.toNat / 10 % 10, 48 + n.toNat % 10]

/-- `d.strftime('%y%m%d')` -/
def ymd (d : Py.Date) : Str := d2 (d.year % 100) ++ d2 d.month ++ d2 d.day

/-- `value.strftime('%y%m%d%H%M%S')` for a `date` (time 0) or `datetime` -/
def ymdHMS (d : Py.Date) (h mi s : Int) : Str := ymd d ++ d2 h ++ d2 mi ++ d2 s

/-- `str(date)` -/
def isoDate (d : Py.Date) : Str := Py.fmtD 4 true d.year ++ [45] ++ Py.fmtD 2 true d.month ++ [45] ++ Py.fmtD 2 true d.day

/-- `str(value)`; a tuple is not modelled (`repr` of its items) -/
def pyStr : GsVal → R Str
  | .str s => pure s
  | .int i => Py.strOfIntR i
  | .dec d => pure d.toStr
  | .date d => pure (isoDate d)
  | .datetime d h mi s =>
    pure (isoDate d ++ [32] ++ Py.fmtD 2 true h ++ [58] ++ Py.fmtD 2 true mi ++ [58] ++ Py.fmtD 2 true s)
  | .tuple _ _ => Py.raise .other

/-! ## `_encode_value` -/

/-- the two text branches of the `decimal` case, after `value = str(value)` -/
def encodeDecimalText (fmt : Str) (value : Str) : R Str :=
  if Py.startswith fmt [78, 46, 46] then do           -- fmt.startswith('N..')
    let length ← Py.intOf (Py.slice fmt (some 3) none)
    let value := Py.slice value none (some (length + 1))
    let parts := Py.splitOn value [46] ++ [[]]
    let number := parts.headD []
    let digits := Py.slice ((parts.drop 1).headD []) none (some 9)
    pure (Py.strOfNat digits.length ++ number ++ digits)
  else do
    let length ← Py.intOf (Py.slice fmt (some 1) none)
    let value := Py.slice value none (some (length + 1))
    let parts := Py.splitOn value [46] ++ [[]]
    let number := parts.headD []
    let digits := Py.slice ((parts.drop 1).headD []) none (some 9)
    pure (Py.strOfNat digits.length ++ Py.rjust (number ++ digits) length [48])

/-- remove one trailing `'00'` -/
def dropTrailing00 (s : Str) : Str :=
  if Py.endswith s [48, 48] then Py.slice s none (some (-2)) else s

/-- the `isinstance(value, datetime.date)` branch (`date` and `datetime`) -/
def encodeDateText (fmt : Str) (d : Py.Date) (h mi s : Int) : R Str :=
  if fmt = fN6 ∨ fmt = fN6dd12 ∨ fmt = fN6oN6 then pure (ymd d)
  else if fmt = fN10 then pure (ymd d ++ d2 h ++ d2 mi)
  else if fmt = fN6pNdd4 ∨ fmt = fN6oNdd4 ∨ fmt = fN6oN4 then
    pure (dropTrailing00 (dropTrailing00 (ymd d ++ d2 h ++ d2 mi)))
  else if fmt = fN8pNdd4 ∨ fmt = fN8oNdd4 then
    pure (dropTrailing00 (dropTrailing00 (ymdHMS d h mi s)))
  else Py.raise .valueError

/-- `_encode_value(fmt, _type, value)` -/
def encodeValue (fmt typ : Str) : GsVal → R Str
  | .tuple v0 v1 =>
    if typ = sDecimal then
      if Py.startswith fmt [78, 51, 43] then do            -- fmt.startswith('N3+')
        let number ← encodeValue (Py.slice fmt (some 3) none) typ v1
        let c0 ← Py.getItem number 0
        let cur ← (match v0 with
          | .str s => pure s
          | _ => Py.raise .attributeError)                 -- value[0].rjust
        pure (c0 ++ Py.rjust cur 3 [48] ++ Py.slice number (some 1) none)
      else Py.raise .other                                 -- str(tuple): not modelled
    else if typ = sDate then
      if fmt = fN6dd12 ∨ fmt = fN6oN6 then do
        let a ← encodeValue fN6 typ v0
        let b ← encodeValue fN6 typ v1
        pure (a ++ b)
      else Py.raise .other                                 -- str(tuple): not modelled
    else Py.raise .other                                   -- str(tuple): not modelled
  | .date d =>
    if typ = sDecimal then encodeDecimalText fmt (isoDate d)
    else if typ = sDate then encodeDateText fmt d 0 0 0
    else pure (isoDate d)
  | .datetime d h mi s =>
    if typ = sDecimal then do encodeDecimalText fmt (← pyStr (.datetime d h mi s))
    else if typ = sDate then encodeDateText fmt d h mi s
    else pyStr (.datetime d h mi s)
  | v =>
    if typ = sDecimal then do encodeDecimalText fmt (← pyStr v)
    else pyStr v

/-- does `_encode_value` reach `str(value)` with a tuple (outside the model)? -/
def strTupleReached (fmt typ : Str) : GsVal → Bool
  | .tuple v0 v1 =>
    if typ = sDecimal then
      if Py.startswith fmt [78, 51, 43] then strTupleReached (Py.slice fmt (some 3) none) typ v1
      else true
    else if typ = sDate then
      if fmt = fN6dd12 ∨ fmt = fN6oN6 then strTupleReached fN6 typ v0 || strTupleReached fN6 typ v1
      else true
    else true
  | _ => false

/-! ## `_max_length`, `_pad_value` -/

/-- one `x` of `fmt.split('+')`: `int(re.match(r'^[NXY][0-9]*?[.]*([0-9]+)[\[\]]?$', x).group(1))` -/
def maxLengthPart (x : Str) : R Int :=
  match Py.Re.match_ Gen.gs1_128._re_lit_0 x with
  | none => Py.raise .attributeError            -- None.group
  | some m =>
    match m.group 1 with
    | some g => Py.intOf g
    | none => Py.raise .typeError               -- cannot happen: group 1 is mandatory

/-- `_max_length(fmt, _type)` -/
def maxLength (fmt typ : Str) : R Int := do
  let parts ← (Py.splitOn fmt [43]).mapM maxLengthPart
  let length := Py.sumInt parts
  pure (if typ = sDecimal then length + 1 else length)

/-- `_pad_value(fmt, _type, value)` -/
def padValue (fmt typ value : Str) : R Str :=
  match maxLength fmt typ with
  | .error e => .error e
  | .ok l => if typ = sDecimal ∨ typ = sInt then .ok (Py.rjust value l [48]) else .ok (Py.ljust value l [32])

/-! ## `strptime` -/

/-- `\d` of a `str` pattern -/
def isD (c : Nat) : Bool := Py.Uni.isDecimal c
/-- value of a `\d` character (what `int()` makes of it) -/
def dv (c : Nat) : Int := ((Py.Uni.decimal? c).getD 0 : Nat)

/-- `%y`: `\d\d` -/
def chunkY (a b : Nat) : Option Int := if isD a && isD b then some (dv a * 10 + dv b) else none
/-- `%m`, two-character alternatives: `1[0-2]|0[1-9]` -/
def chunkM (a b : Nat) : Option Int :=
  if (a == 49 && decide (48 ≤ b) && decide (b ≤ 50)) || (a == 48 && decide (49 ≤ b) && decide (b ≤ 57)) then
    some ((a - 48 : Nat) * 10 + (b - 48 : Nat) : Nat) else none
/-- `%d`, two-character alternatives: `3[0-1]|[1-2]\d|0[1-9]| [1-9]` -/
def chunkD (a b : Nat) : Option Int :=
  if a == 51 && (b == 48 || b == 49) then some ((30 + (b - 48) : Nat))
  else if (a == 49 || a == 50) && isD b then some (((a - 48 : Nat) : Int) * 10 + dv b)
  else if (a == 48 || a == 32) && decide (49 ≤ b) && decide (b ≤ 57) then some ((b - 48 : Nat))
  else none
/-- `%H`, two-character alternatives: `2[0-3]|[0-1]\d` -/
def chunkH (a b : Nat) : Option Int :=
  if a == 50 && decide (48 ≤ b) && decide (b ≤ 51) then some ((20 + (b - 48) : Nat))
  else if (a == 48 || a == 49) && isD b then some (((a - 48 : Nat) : Int) * 10 + dv b)
  else none
/-- `%M`, two-character alternative: `[0-5]\d` -/
def chunkMin (a b : Nat) : Option Int :=
  if decide (48 ≤ a) && decide (a ≤ 53) && isD b then some (((a - 48 : Nat) : Int) * 10 + dv b) else none
/-- `%S`, two-character alternatives: `6[0-1]|[0-5]\d` (60 and 61 are then refused by `datetime`) -/
def chunkS (a b : Nat) : Option Int :=
  if a == 54 && (b == 48 || b == 49) then some ((60 + (b - 48) : Nat))
  else chunkMin a b

/-- the fields found by `_strptime` -/
structure TimeFields where
  year : Int := 1900
  month : Int := 1
  day : Int := 1
  hour : Int := 0
  minute : Int := 0
  second : Int := 0
deriving DecidableEq, Repr, Inhabited

/-- `_strptime` regex phase for `'%y%m%d%H%M%S'[:len(value)]`, `len(value)` even and at most 12 -/
def strptimeFields : Str → Option TimeFields
  | [] => some {}
  | y1 :: y2 :: rest =>
    match chunkY y1 y2 with
    | none => none
    | some y =>
      let f : TimeFields := { year := if y ≤ 68 then y + 2000 else y + 1900 }
      match rest with
      | [] => some f
      | m1 :: m2 :: rest =>
        match chunkM m1 m2 with
        | none => none
        | some m =>
          let f := { f with month := m }
          match rest with
          | [] => some f
          | d1 :: d2 :: rest =>
            match chunkD d1 d2 with
            | none => none
            | some d =>
              let f := { f with day := d }
              match rest with
              | [] => some f
              | h1 :: h2 :: rest =>
                match chunkH h1 h2 with
                | none => none
                | some h =>
                  let f := { f with hour := h }
                  match rest with
                  | [] => some f
                  | n1 :: n2 :: rest =>
                    match chunkMin n1 n2 with
                    | none => none
                    | some n =>
                      let f := { f with minute := n }
                      match rest with
                      | [] => some f
                      | s1 :: s2 :: [] =>
                        match chunkS s1 s2 with
                        | none => none
                        | some s => some { f with second := s }
                      | _ => none
                  | _ => none
              | _ => none
          | _ => none
      | _ => none
  | _ => none

/-- `datetime.datetime.strptime(value, '%y%m%d%H%M%S'[:len(value)])` -/
def strptime (value : Str) : R (Py.Date × Int × Int × Int) :=
  match strptimeFields value with
  | none => Py.raise .valueError
  | some f =>
    if f.day ≤ Py.daysInMonth f.year f.month ∧ f.second ≤ 59 then
      pure (⟨f.year, f.month, f.day⟩, f.hour, f.minute, f.second)
    else Py.raise .valueError

/-! ## `_decode_value` -/

/-- the `len(value) == 6` branch of the `date` case -/
def decodeDate6 (value : Str) : R GsVal :=
  if Py.slice value (some 4) none = [48, 48] then do
    -- day == '00': last day of the month
    let (date, _, _, _) ← strptime (Py.slice value none (some 4))
    pure (.date ⟨date.year, date.month, Py.daysInMonth date.year date.month⟩)
  else do
    let (date, _, _, _) ← strptime value
    pure (.date date)

/-- the `decimal` case of `_decode_value`; `fmt.startswith('N3+')` recurses on `fmt[3:]` -/
def decodeDecimal : Str → Str → R GsVal
  | 78 :: 51 :: 43 :: fmt', value => do
    let c0 ← Py.getItem value 0
    let rest ← decodeDecimal fmt' (c0 ++ Py.slice value (some 4) none)
    pure (.tuple (.str (Py.slice value (some 1) (some 4))) rest)
  | _, value => do
    let c0 ← Py.getItem value 0
    let digits ← Py.intOf c0
    let value := Py.slice value (some 1) none
    let value := if digits ≠ 0 then
        Py.slice value none (some (-digits)) ++ [46] ++ Py.slice value (some (-digits)) none
      else value
    let d ← Dec.ofStr value
    pure (.dec d)

/-- `_decode_value(fmt, _type, value)` -/
def decodeValue (fmt typ value : Str) : R GsVal :=
  if typ = sDecimal then decodeDecimal fmt value
  else if typ = sDate then
    if value.length = 6 then decodeDate6 value
    else if value.length = 12 ∧ (fmt = fN12 ∨ fmt = fN6dd12 ∨ fmt = fN6oN6) then do
      let a ← decodeDate6 (Py.slice value none (some 6))
      let b ← decodeDate6 (Py.slice value (some 6) none)
      pure (.tuple a b)
    else do
      let (date, h, mi, s) ← strptime value
      pure (.datetime date h mi s)
  else if typ = sInt then do
    let i ← Py.intOf value
    pure (.int i)
  else pure (.str (Py.strip value))

/-! ## the registry -/

/-- the module state: `_gs1_aidb.prefixes` and `_ai_validators` (each composed with its module's `validate`) -/
structure Env where
  db : List Spec.NumDB.Entry
  validate : Str → Option (GsVal → R Unit)

/-- `_gs1_aidb.info(number)[0]` -/
def aiLookup (db : List Spec.NumDB.Entry) (number : Str) : R (Str × Spec.NumDB.Dict) :=
  match Spec.NumDB.info db number with
  | [] => Py.raise .indexError
  | x :: _ => pure x

/-- `info.get('fnc1', False)` as a truth value -/
def fnc1Of (props : Spec.NumDB.Dict) : Bool :=
  match Py.dictGet? props sFnc1 with
  | some v => !v.isEmpty
  | none => false

/-- `mod.validate(value)` of a module whose `validate` starts with `clean(number, …)`: what reaches the
string code.  `''.join(x for x in number)` accepts a `str` and a tuple of `str`s; everything else
raises `TypeError` inside `clean`, which turns it into `InvalidFormat`. -/
def validatorArg : GsVal → R Str
  | .str s => pure s
  | .tuple (.str a) (.str b) => pure (a ++ b)
  | _ => Py.raise .invalidFormat

/-- `stdnum.ean.validate(value)`, result discarded -/
def eanValidate (v : GsVal) : R Unit := do
  let s ← validatorArg v
  let _ ← Gen.ean.validate s
  pure ()

/-- `_ai_validators`; `iban` stands for `stdnum.iban.validate` (result discarded) on the string that
reaches it -/
def stdValidators (iban : Str → R Unit) (ai : Str) : Option (GsVal → R Unit) :=
  if ai = s01 ∨ ai = s02 then some eanValidate
  else if ai = s8007 then some (fun v => do iban (← validatorArg v))
  else none

/-- `if ai in _ai_validators: mod.validate(value)` -/
def runValidator (env : Env) (ai : Str) (v : GsVal) : R Unit :=
  match env.validate ai with
  | some f => f v
  | none => pure ()

/-! ## `info` -/

/-- the value part: `number[:_max_length(...)]`, or up to the first separator for a variable-length value -/
def valueOf (sep : Str) (fnc1 : Bool) (l : Int) (number : Str) : Str :=
  let value := Py.slice number none (some l)
  if !sep.isEmpty && fnc1 then
    let idx := Py.find number sep
    if idx > 0 then Py.slice number none (some idx) else value
  else value

/-- `if separator and number.startswith(separator): number = number[len(separator):]` -/
def skipSep (sep : Str) (number : Str) : Str :=
  if !sep.isEmpty && Py.startswith number sep then Py.slice number (some sep.length) none else number

/-- the body of the loop after the identifier has been removed from `number` -/
def infoValue (env : Env) (sep : Str) (ai : Str) (info : Spec.NumDB.Dict) (number : Str) (data : Dict) :
    R (Str × Dict) :=
  -- figure out the value part
  match Py.dictGet info sFormat with
  | .error e => .error e
  | .ok fmt =>
    match Py.dictGet info sType with
    | .error e => .error e
    | .ok typ =>
      match maxLength fmt typ with
      | .error e => .error e
      | .ok l =>
        let value := valueOf sep (fnc1Of info) l number
        let number := Py.slice number (some value.length) none
        -- validate the value if we have a custom module for it
        match runValidator env ai (.str value) with
        | .error e => .error e
        | .ok _ =>
          -- convert the number
          match decodeValue fmt typ value with
          | .error e => .error e
          | .ok v => .ok (skipSep sep number, Py.dictSet data ai v)

/-- one iteration of `while number:`; returns the new `number` and `data` -/
def infoStep (env : Env) (sep : Str) (number : Str) (data : Dict) : R (Str × Dict) :=
  -- extract the application identifier
  match aiLookup env.db number with
  | .error e => .error e
  | .ok (ai, info) =>
    if info.isEmpty || !Py.startswith number ai then Py.raise .invalidComponent
    else infoValue env sep ai info (Py.slice number (some ai.length) none) data

/-- `while number:` with fuel -/
def infoLoop (env : Env) (sep : Str) : Nat → Str → Dict → R Dict
  | _, [], data => pure data
  | 0, _ :: _, _ => Py.raise .other
  | fuel + 1, c :: cs, data =>
    match infoStep env sep (c :: cs) data with
    | .error e => .error e
    | .ok (number, data) => infoLoop env sep fuel number data

/-- `info(number, separator)` -/
def info (env : Env) (sep : Str) (number : Str) : R Dict :=
  match Gen.gs1_128.compact number with
  | .error e => .error e
  | .ok number =>
    -- skip separator
    let number := skipSep sep number
    infoLoop env sep (number.length + 1) number []

/-! ## `encode` -/

/-- an element of `variable_values`: `(ai_fmt % ai, info['format'], info['type'], value)` -/
structure VarItem where
  ai : Str
  fmt : Str
  typ : Str
  value : Str
deriving DecidableEq, Repr

/-- `ai_fmt % ai` -/
def aiFmt (par : Bool) (ai : Str) : Str := if par then [40] ++ ai ++ [41] else ai

/-- `sorted(data.items())` (keys of a dict are distinct, so only the keys are compared) -/
def sortedItems (data : Dict) : Dict := Py.sortedBy (fun a b => Py.strLt a.1 b.1) data

/-- the `for inputai, value in sorted(data.items()):` loop; returns `fixed_values`, `variable_values` -/
def encodeItems (env : Env) (par : Bool) : Dict → R (List Str × List VarItem)
  | [] => .ok ([], [])
  | (inputai, value) :: rest =>
    match aiLookup env.db inputai with
    | .error e => .error e
    | .ok (ai, info) =>
      if info.isEmpty then Py.raise .invalidComponent
      else
        -- validate the value if we have a custom module for it
        match runValidator env ai value with
        | .error e => .error e
        | .ok _ =>
          match Py.dictGet info sFormat with
          | .error e => .error e
          | .ok fmt =>
            match Py.dictGet info sType with
            | .error e => .error e
            | .ok typ =>
              match encodeValue fmt typ value with
              | .error e => .error e
              | .ok text =>
                match encodeItems env par rest with
                | .error e => .error e
                | .ok (fixed, vars) =>
                  -- store variable-sized values separate from fixed-size values
                  if fnc1Of info then .ok (fixed, ⟨aiFmt par ai, fmt, typ, text⟩ :: vars)
                  else .ok ((aiFmt par ai ++ text) :: fixed, vars)

/-- the two list comprehensions over `variable_values[:-1]` and `variable_values[-1:]`, joined -/
def joinVars (sep : Str) : List VarItem → R Str
  | [] => .ok []
  | [x] => .ok (x.ai ++ x.value)
  | x :: y :: rest =>
    match (if !sep.isEmpty then .ok x.value else padValue x.fmt x.typ x.value) with
    | .error e => .error e
    | .ok v =>
      match joinVars sep (y :: rest) with
      | .error e => .error e
      | .ok tail => .ok (x.ai ++ v ++ sep ++ tail)

/-- `encode(data, separator, parentheses)` -/
def encode (env : Env) (sep : Str) (par : Bool) (data : Dict) : R Str :=
  match encodeItems env par (sortedItems data) with
  | .error e => .error e
  | .ok (fixed, vars) =>
    match joinVars sep vars with
    | .error e => .error e
    | .ok tail => .ok (fixed.flatten ++ tail)

/-! ## `validate`, `is_valid` -/

/-- `validate(number, separator)` -/
def validate (env : Env) (sep : Str) (number : Str) : R Str :=
  match (match info env sep number with
         | .error e => (.error e : R Str)
         | .ok data => encode env sep false data) with
  | .ok v => .ok v
  | .error e => if e.isValidation then .error e else .error .invalidFormat

/-- `is_valid(number, separator)` -/
def isValid (env : Env) (sep : Str) (number : Str) : R Bool :=
  match validate env sep number with
  | .ok v => .ok (!v.isEmpty)
  | .error e => if e.isValidation then .ok false else .error e

end Spec.GS1
