import PyRt.Basic
/-!
# Spec.State — process state of python-stdnum (property C13)

The library keeps four process-wide caches

* `stdnum.numdb._open_databases`     registry name → parsed `NumDB`      (`numdb.get(name)`)
* `stdnum.iban._country_modules`     country code → module               (`iban._get_cc_module`)
* `stdnum.eu.vat._country_modules`   country code → module               (`eu.vat._get_cc_module`)
* `stdnum.vatin._country_modules`    country code → module               (`vatin._get_cc_module`)

all filled by the same code shape

```
k = norm(raw)                 # identity / .lower() / .lower() + el→gr, xi→gb
if k not in cache:            # test
    cache[k] = compute(...)   # compute (parse the .dat file / import the country module), store
return cache[k]               # read back
```

and it hands registry data to callers as dictionaries and lists (`NumDB._find`).

This file models
(a) the cache as a sequential state machine, with programs that interleave pure computation and
    `get`s (`Prog`, `run`, `pureRun`);
(b) the same code shape executed by any number of threads under an arbitrary scheduler, one atomic
    step per bytecode-level action (`tstep`, `Step`, `Reachable`);
(c) a heap with addresses for the aliasing question: `NumDB._find` in the shipped variant
    (`properties = {}` … `properties.update(props)`: a fresh dictionary per returned component) and in
    the plausible regression `properties = props` (`findBad`), with a caller that can mutate exactly
    the objects it received (`Op`, `exec`).

What the model cannot exhibit is listed in `Props/C13.lean`.
-/
namespace Spec.State
open Py

/-! ## (a) the cache state machine -/

section Cache
variable {RawKey Key Val : Type} [DecidableEq Key]

/-- a Python `dict` used as cache: association list, first binding wins -/
abbrev Cache (Key Val : Type) := List (Key × Val)

def find? (c : Cache Key Val) (k : Key) : Option Val :=
  match c with
  | [] => none
  | (k', v) :: r => if k' = k then some v else find? r k

/-- `cache[k] = v` (a later binding of the same key shadows the earlier one) -/
def store (c : Cache Key Val) (k : Key) (v : Val) : Cache Key Val := (k, v) :: c

/-- One `get(raw)`:
`key raw` is the dictionary key the code uses, `load raw` what it computes on a miss
(parse the file `raw + '.dat'`, or `get_cc_module(norm raw, …)`). -/
def get (key : RawKey → Key) (load : RawKey → Val) (c : Cache Key Val) (raw : RawKey) :
    Val × Cache Key Val :=
  match find? c (key raw) with
  | some v => (v, c)
  | none => (load raw, store c (key raw) (load raw))

/-- A public call as seen from the caches: pure computation interleaved with `get`s whose keys may
depend on earlier answers (e.g. `eu.vat.validate` fetches a country module, whose `validate` may
open a registry). -/
inductive Prog (RawKey Val Out : Type) where
  | ret (o : Out)
  | get (raw : RawKey) (k : Val → Prog RawKey Val Out)

/-- run a call against the current cache -/
def run {Out : Type} (key : RawKey → Key) (load : RawKey → Val) :
    Prog RawKey Val Out → Cache Key Val → Out × Cache Key Val
  | .ret o, c => (o, c)
  | .get raw k, c =>
    let (v, c') := get key load c raw
    run key load (k v) c'

/-- the same call in a world without caches: every `get` computes -/
def pureRun {Out : Type} (load : RawKey → Val) : Prog RawKey Val Out → Out
  | .ret o => o
  | .get raw k => pureRun load (k (load raw))

/-- outputs of a sequence of calls made one after the other in one process -/
def runAll {Out : Type} (key : RawKey → Key) (load : RawKey → Val) :
    List (Prog RawKey Val Out) → Cache Key Val → List Out
  | [], _ => []
  | p :: ps, c =>
    let (o, c') := run key load p c
    o :: runAll key load ps c'

/-- The cache is keyed finely enough: what is computed depends on the raw key only through the
dictionary key. -/
def Factors (key : RawKey → Key) (load : RawKey → Val) : Prop :=
  ∀ r r', key r = key r' → load r = load r'

/-- every binding is what a fresh computation would give -/
def CacheInv (key : RawKey → Key) (load : RawKey → Val) (c : Cache Key Val) : Prop :=
  ∀ r v, find? c (key r) = some v → v = load r

end Cache

/-! ### the four caches of the library as one instance -/

inductive CacheId where
  | numdb | ibanCC | euVatCC | vatinCC
deriving DecidableEq, Repr

/-- the key normalisations of the three `_get_cc_module` functions; `lower` is `str.lower`,
`euNorm` = `el→gr`, `xi→gb` (after the member-state test), `vatinNorm` =
`.replace('el', 'gr').replace('xi', 'gb')` -/
structure Norms where
  lower : Str → Str
  euNorm : Str → Str
  vatinNorm : Str → Str

/-- dictionary key used by the code for a raw argument -/
def keyOf (n : Norms) : CacheId × Str → CacheId × Str
  | (.numdb, name) => (.numdb, name)                       -- full name: 'be/banks', 'cz/banks', …
  | (.ibanCC, cc) => (.ibanCC, n.lower cc)
  | (.euVatCC, cc) => (.euVatCC, n.euNorm (n.lower cc))
  | (.vatinCC, cc) => (.vatinCC, n.vatinNorm (n.lower cc))

/-- what the code computes on a miss: `read(open(name + '.dat'))`, or
`get_cc_module(<normalised cc>, 'iban' | 'vat')` -/
def loadOf {Val : Type} (n : Norms) (readDb : Str → Val) (ccModule : Str → Str → Val) :
    CacheId × Str → Val
  | (.numdb, name) => readDb name
  | (.ibanCC, cc) => ccModule (n.lower cc) [105, 98, 97, 110]            -- 'iban'
  | (.euVatCC, cc) => ccModule (n.euNorm (n.lower cc)) [118, 97, 116]    -- 'vat'
  | (.vatinCC, cc) => ccModule (n.vatinNorm (n.lower cc)) [118, 97, 116]

/-- a too coarse variant: registries keyed by the last path component
(`'banks'` for `be/banks`, `cz/banks`, `nz/banks`) -/
def keyCoarse (basename : Str → Str) (n : Norms) : CacheId × Str → CacheId × Str
  | (.numdb, name) => (.numdb, basename name)
  | x => keyOf n x

/-! ## (b) threads -/

section Threads
variable {RawKey Key Val : Type} [DecidableEq Key]

/-- where a thread is inside `get(raw)` -/
inductive PC (RawKey Val : Type) where
  | idle                         -- between calls
  | test (raw : RawKey)          -- about to evaluate `k not in cache`
  | compute (raw : RawKey)       -- miss seen; about to parse the file / import the module
  | store (raw : RawKey) (v : Val)   -- value computed; about to execute `cache[k] = v`
  | ret (raw : RawKey)           -- about to execute `return cache[k]`
  | crashed                      -- `cache[k]` raised KeyError

structure Thread (RawKey Val : Type) where
  todo : List RawKey                      -- the `get`s this thread will still perform
  pc : PC RawKey Val
  results : List (RawKey × Val)           -- what its finished `get`s returned

/-- one atomic step of one thread against the shared dictionary; `none` when it has nothing to do -/
def tstep (key : RawKey → Key) (load : RawKey → Val) (c : Cache Key Val) (t : Thread RawKey Val) :
    Option (Cache Key Val × Thread RawKey Val) :=
  match t.pc with
  | .idle =>
    match t.todo with
    | [] => none
    | raw :: rest => some (c, { t with todo := rest, pc := .test raw })
  | .test raw =>
    if (find? c (key raw)).isSome then some (c, { t with pc := .ret raw })
    else some (c, { t with pc := .compute raw })
  | .compute raw => some (c, { t with pc := .store raw (load raw) })
  | .store raw v => some (store c (key raw) v, { t with pc := .ret raw })
  | .ret raw =>
    match find? c (key raw) with
    | some v => some (c, { t with pc := .idle, results := t.results ++ [(raw, v)] })
    | none => some (c, { t with pc := .crashed })
  | .crashed => none

structure Config (RawKey Key Val : Type) where
  cache : Cache Key Val
  threads : List (Thread RawKey Val)

/-- the scheduler picks any thread that can move -/
inductive Step (key : RawKey → Key) (load : RawKey → Val) :
    Config RawKey Key Val → Config RawKey Key Val → Prop where
  | mk (cfg : Config RawKey Key Val) (i : Nat) (t t' : Thread RawKey Val) (c' : Cache Key Val) :
      cfg.threads[i]? = some t → tstep key load cfg.cache t = some (c', t') →
      Step key load cfg ⟨c', cfg.threads.set i t'⟩

/-- a fresh process: empty dictionary, every thread idle with an arbitrary list of calls to make -/
def Initial (cfg : Config RawKey Key Val) : Prop :=
  cfg.cache = [] ∧ ∀ t ∈ cfg.threads, t.pc = .idle ∧ t.results = []

inductive Reachable (key : RawKey → Key) (load : RawKey → Val) : Config RawKey Key Val → Prop where
  | init (cfg) : Initial cfg → Reachable key load cfg
  | step (cfg cfg') : Reachable key load cfg → Step key load cfg cfg' → Reachable key load cfg'

end Threads

/-! ## (c) heap, `NumDB._find`, and a caller that mutates what it was given -/

abbrev Addr := Nat
/-- content of a `dict` with string keys and values (all the registry property dictionaries) -/
abbrev Dict := List (Str × Str)

/-- the heap: dictionary objects by address; allocation appends -/
abbrev Heap := List Dict

def Heap.get (h : Heap) (a : Addr) : Dict := h.getD a []
def Heap.alloc (h : Heap) (d : Dict) : Addr × Heap := (h.length, h ++ [d])

/-- one entry `[length, low, high, props, children]` of a `prefixes` list.  `props` is the address
of the entry's dictionary object; `children` are row numbers of the child entries (the tree is
stored as a table so that no nested inductive type is needed). -/
structure Row where
  length : Nat
  low : Str
  high : Str
  props : Addr
  children : List Nat

abbrev Table := List Row

/-- `a <= b` on Python strings (lexicographic by code point) -/
def strLe : Str → Str → Bool
  | [], _ => true
  | _ :: _, [] => false
  | a :: as, b :: bs => if a < b then true else if a = b then strLe as bs else false

/-- `d.update(e)` -/
def dictUpdate (d e : Dict) : Dict :=
  e.foldl (fun d p => if d.any (·.1 = p.1) then d.map (fun q => if q.1 = p.1 then (q.1, p.2) else q) else d ++ [p]) d

/-- the object `properties` refers to during the loop: a fresh dictionary under construction (by
value: nobody else can see it before it is returned) or, in the bad variant, an existing object -/
inductive PropsRef where
  | fresh (d : Dict)
  | shared (a : Addr)

structure LoopSt where
  part : Str
  props : PropsRef
  next : List Nat

def matchesRow (part : Str) (r : Row) : Bool :=
  decide (part.length ≥ r.length) && strLe r.low (part.take r.length) && strLe (part.take r.length) r.high

/-- loop body of `_find`, shipped variant: `properties.update(props)` copies the entries -/
def stepGood (h : Heap) (st : LoopSt) (r : Row) : LoopSt :=
  if matchesRow st.part r then
    let st := if r.length < st.part.length then
        { part := st.part.take r.length, props := .fresh [], next := [] } else st
    let d := match st.props with
      | .fresh d => d
      | .shared a => h.get a
    { st with props := .fresh (dictUpdate d (h.get r.props)), next := st.next ++ r.children }
  else st

/-- loop body of the regression `properties = props` (no copy) -/
def stepBad (_h : Heap) (st : LoopSt) (r : Row) : LoopSt :=
  if matchesRow st.part r then
    let st := if r.length < st.part.length then
        { part := st.part.take r.length, props := .fresh [], next := [] } else st
    { st with props := .shared r.props, next := st.next ++ r.children }
  else st

def rowsOf (tbl : Table) (ids : List Nat) : List Row := ids.filterMap (tbl[·]?)

/-- `NumDB._find(number, prefixes)`: returns `[(part, <address of properties>), …]` and the heap
after its allocations.  `fuel` bounds the recursion depth (each level consumes at least one
character when every entry has `length ≥ 1`, as the file format guarantees; at `fuel = 0` the
result is cut off — CPython would raise RecursionError on such a registry). -/
def findWith (step : Heap → LoopSt → Row → LoopSt) (tbl : Table) :
    Nat → Heap → List Nat → Str → List (Str × Addr) × Heap
  | 0, h, _, _ => ([], h)
  | fuel + 1, h, ids, number =>
    if number.isEmpty then ([], h)
    else
      let st := (rowsOf tbl ids).foldl (step h) { part := number, props := .fresh [], next := [] }
      let (a, h1) := match st.props with
        | .fresh d => h.alloc d          -- the dictionary created by `properties = {}`
        | .shared a => (a, h)            -- an existing object is returned
      let (rest, h2) := findWith step tbl fuel h1 st.next (number.drop st.part.length)
      ((st.part, a) :: rest, h2)

/-- what a result looks like to `==`: the dictionaries by content -/
def deep (h : Heap) (res : List (Str × Addr)) : List (Str × Dict) := res.map (fun p => (p.1, h.get p.2))

/-- the same lookup as a pure function of the registry contents (no heap, no addresses) -/
def findPure (content : Addr → Dict) (tbl : Table) : Nat → List Nat → Str → List (Str × Dict)
  | 0, _, _ => []
  | fuel + 1, ids, number =>
    if number.isEmpty then []
    else
      let st := (rowsOf tbl ids).foldl
        (fun (st : Str × Dict × List Nat) r =>
          if matchesRow st.1 r then
            let st := if r.length < st.1.length then (st.1.take r.length, [], []) else st
            (st.1, dictUpdate st.2.1 (content r.props), st.2.2 ++ r.children)
          else st)
        (number, [], [])
      (st.1, st.2.1) :: findPure content tbl fuel st.2.2 (number.drop st.1.length)

/-- what the caller does: look a number up, or mutate in place one of the dictionaries it got
back earlier (the `part`-th component of the `call`-th result) — it has no other way to reach an
object.  The list and the tuples of a result are fresh/immutable and hold no registry object, so
mutating them cannot matter; they are kept as values. -/
inductive Op where
  | find (number : Str)
  | mutate (call : Nat) (part : Nat) (newContent : Dict)

structure World where
  heap : Heap
  /-- results handed out so far, oldest first, with their value at return time -/
  history : List (List (Str × Addr))
  observed : List (List (Str × Dict))

def exec (step : Heap → LoopSt → Row → LoopSt) (tbl : Table) (top : List Nat) (w : World) : Op → World
  | .find number =>
    let (res, h') := findWith step tbl (number.length + 1) w.heap top number
    { heap := h', history := w.history ++ [res], observed := w.observed ++ [deep h' res] }
  | .mutate call part d =>
    match (w.history.getD call []).getD part ([], w.heap.length) with
    | (_, a) => if a < w.heap.length then { w with heap := w.heap.set a d } else w

def execAll (step : Heap → LoopSt → Row → LoopSt) (tbl : Table) (top : List Nat) : World → List Op → World
  | w, [] => w
  | w, op :: ops => execAll step tbl top (exec step tbl top w op) ops

/-- the numbers looked up by a trace, in order -/
def lookups : List Op → List Str
  | [] => []
  | .find n :: ops => n :: lookups ops
  | .mutate _ _ _ :: ops => lookups ops

end Spec.State
