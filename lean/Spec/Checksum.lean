import PyRt.Basic
/-!
# Spec.Checksum — hand-written models of the eight generic checksum modules

`stdnum.luhn`, `stdnum.verhoeff`, `stdnum.damm`, `stdnum.iso7064.mod_11_2`, `mod_37_2`, `mod_11_10`,
`mod_37_36`, `mod_97_10`.

Every Python function is mirrored statement by statement on `Py.Str` (code point lists) in the `Py.R`
monad.  Beside each module the *value-level* state machine (a fold step function on digit values) is
given; the second half of the file proves that the string-level `checksum` equals the value-level one on
words over the alphabet (refinement).  Property C06 (`Props/C06.lean`) is stated on the string-level
functions and proved through the value-level ones.

Environment parameters (the integrator plugs the real tables in):
* `dec : Nat → Option Nat` — the value `int(c)` gives for a one-character string `c` (`none` = ValueError).
  CPython accepts every Unicode decimal digit (category Nd); the default `asciiDec` knows `0`–`9` only.
* `b36 : Nat → Option Nat` — the value `int(c, 36)` gives for a one-character string; default `asciiB36`
  (`0-9`, `a-z`, `A-Z`); CPython additionally accepts the Unicode decimal digits.
* `maxDigits : Nat` — `sys.get_int_max_str_digits()`; CPython ≥ 3.11 default `4300`, `0` = unlimited.
  `int(s)` raises ValueError when `s` has more digits than this (relevant for `mod_97_10` only).
-/
namespace Spec.Checksum
open Py

/-! ## Python primitives used by the eight modules -/

/-- `seq.index(c)` (first occurrence; ValueError when absent); `str.index` with a one-character needle
and `tuple.index` -/
def index (l : List Nat) (c : Nat) : R Nat :=
  if l.idxOf c < l.length then pure (l.idxOf c) else raise .valueError

/-- `seq[i]` for `i ≥ 0` -/
def getItem {α : Type} (l : List α) (i : Nat) : R α :=
  match l[i]? with
  | some a => pure a
  | none => raise .indexError

/-- `seq[-k]` for `k ≥ 0` (`seq[-0]` is `seq[0]`) -/
def getNeg {α : Type} (l : List α) (k : Nat) : R α :=
  if k = 0 then getItem l 0
  else if k ≤ l.length then getItem l (l.length - k)
  else raise .indexError

/-- Python `a % m` for `m > 0` (result in `0 .. m-1`) -/
def pmod (a : Int) (m : Nat) : Nat := (a % (m : Int)).toNat

def natToStrAux : Nat → Nat → Str → Str
  | 0, _, acc => acc
  | fuel + 1, n, acc =>
    if n < 10 then (48 + n) :: acc else natToStrAux fuel (n / 10) ((48 + n % 10) :: acc)

/-- `str(n)` for `n ≥ 0` -/
def natToStr (n : Nat) : Str := natToStrAux (n + 1) n []

/-- `'%02d' % n` for `n ≥ 0` -/
def fmt02d (n : Nat) : Str :=
  let s := natToStr n
  if s.length < 2 then 48 :: s else s

/-- ASCII-only `int(c)` of one character -/
def asciiDec (c : Nat) : Option Nat := if 48 ≤ c ∧ c ≤ 57 then some (c - 48) else none

/-- ASCII-only `int(c, 36)` of one character -/
def asciiB36 (c : Nat) : Option Nat :=
  if 48 ≤ c ∧ c ≤ 57 then some (c - 48)
  else if 65 ≤ c ∧ c ≤ 90 then some (c - 55)
  else if 97 ≤ c ∧ c ≤ 122 then some (c - 87)
  else none

/-- CPython default of `sys.get_int_max_str_digits()` -/
def defaultMaxDigits : Nat := 4300

/-- `int(c)` / `int(c, 36)` of a one-character string, given the value table -/
def intChar (tbl : Nat → Option Nat) (c : Nat) : R Nat :=
  match tbl c with
  | some v => pure v
  | none => raise .valueError

/-- `int(s)` for a string made of ASCII digits (the only use is on the output of `_to_base10`) -/
def pyInt (maxDigits : Nat) (s : Str) : R Nat :=
  if s = [] then raise .valueError
  else if !(s.all isAsciiDigit) then raise .valueError
  else if maxDigits ≠ 0 ∧ maxDigits < s.length then raise .valueError
  else pure (s.foldl (fun acc c => acc * 10 + (c - 48)) 0)

/-- the shared tail of every `validate`:
```
try:
    valid = checksum(...) == target
except Exception:
    raise InvalidFormat()
if not valid:
    raise InvalidChecksum()
return number
``` -/
def validateBody (ck : R Nat) (target : Nat) (number : Str) : R Str := do
  let valid ← tryExcept (do let c ← ck; pure (c == target)) [.other] (fun _ => raise .invalidFormat)
  if valid then pure number else raise .invalidChecksum

/-- the shared `is_valid`:
```
try:
    return bool(validate(...))
except ValidationError:
    return False
``` -/
def isValidOf (v : R Str) : R Bool :=
  tryExcept (do let r ← v; pure (!r.isEmpty)) [.validationError] (fun _ => pure false)

/-- value-level 2-dimensional table lookup (0 outside the table) -/
def tbl2 (t : List (List Nat)) (i j : Nat) : Nat := (t.getD i []).getD j 0

/-! ## stdnum.luhn -/
namespace Luhn

/-- `sum(divmod(i * 2, n))` -/
def dbl (n i : Nat) : Nat := (i * 2) / n + (i * 2) % n

/-- `t[::2]` -/
def evens : List Nat → List Nat
  | [] => []
  | [a] => [a]
  | a :: _ :: r => a :: evens r

/-- `t[1::2]` -/
def odds : List Nat → List Nat
  | [] => []
  | [_] => []
  | _ :: b :: r => b :: odds r

/-- `checksum(number, alphabet)`.  `divmod(i * 2, n)` cannot divide by zero: with an empty alphabet
`alphabet.index` has already raised for every character; only the final `% n` can (empty number). -/
def checksum (number : Str) (alphabet : Str) : R Nat := do
  let n := alphabet.length
  let number ← number.reverse.mapM (index alphabet)
  let total := (evens number).sum + ((odds number).map (dbl n)).sum
  if n = 0 then raise .zeroDivision else pure (total % n)

def validate (number : Str) (alphabet : Str) : R Str :=
  if number.isEmpty then raise .invalidFormat
  else validateBody (checksum number alphabet) 0 number

def is_valid (number : Str) (alphabet : Str) : R Bool := isValidOf (validate number alphabet)

def calc_check_digit (number : Str) (alphabet : Str) : R Str := do
  let a0 ← getItem alphabet 0
  let ck ← checksum (number ++ [a0]) alphabet
  let c ← getNeg alphabet ck
  pure [c]

/-! value level: position `i` counts from the right-hand end -/
def weight (n i v : Nat) : Nat := if i % 2 = 0 then v else dbl n v
def vstep (n i s v : Nat) : Nat := (s + weight n i v) % n
def vchecksum (n : Nat) (vals : List Nat) : Nat :=
  vals.reverse.zipIdx.foldl (fun s p => vstep n p.2 s p.1) 0

end Luhn

/-! ## stdnum.verhoeff -/

def verhoeffMul : List (List Nat) := [
  [0, 1, 2, 3, 4, 5, 6, 7, 8, 9],
  [1, 2, 3, 4, 0, 6, 7, 8, 9, 5],
  [2, 3, 4, 0, 1, 7, 8, 9, 5, 6],
  [3, 4, 0, 1, 2, 8, 9, 5, 6, 7],
  [4, 0, 1, 2, 3, 9, 5, 6, 7, 8],
  [5, 9, 8, 7, 6, 0, 4, 3, 2, 1],
  [6, 5, 9, 8, 7, 1, 0, 4, 3, 2],
  [7, 6, 5, 9, 8, 2, 1, 0, 4, 3],
  [8, 7, 6, 5, 9, 3, 2, 1, 0, 4],
  [9, 8, 7, 6, 5, 4, 3, 2, 1, 0]]

def verhoeffPerm : List (List Nat) := [
  [0, 1, 2, 3, 4, 5, 6, 7, 8, 9],
  [1, 5, 7, 6, 2, 8, 3, 0, 9, 4],
  [5, 8, 0, 3, 7, 9, 6, 1, 4, 2],
  [8, 9, 1, 6, 0, 4, 3, 5, 2, 7],
  [9, 4, 5, 3, 1, 2, 6, 8, 7, 0],
  [4, 2, 8, 6, 5, 7, 3, 9, 0, 1],
  [2, 7, 9, 3, 8, 0, 6, 4, 1, 5],
  [7, 0, 4, 6, 9, 1, 3, 2, 5, 8]]

namespace Verhoeff

def checksum (dec : Nat → Option Nat) (number : Str) : R Nat := do
  let number ← number.reverse.mapM (intChar dec)
  number.zipIdx.foldlM (fun check p => do
    let mrow ← getItem verhoeffMul check
    let prow ← getItem verhoeffPerm (p.2 % 8)
    let j ← getItem prow p.1
    getItem mrow j) 0

def validate (dec : Nat → Option Nat) (number : Str) : R Str :=
  if number.isEmpty then raise .invalidFormat
  else validateBody (checksum dec number) 0 number

def is_valid (dec : Nat → Option Nat) (number : Str) : R Bool := isValidOf (validate dec number)

def calc_check_digit (dec : Nat → Option Nat) (number : Str) : R Str := do
  let ck ← checksum dec (number ++ [48])
  let mrow ← getItem verhoeffMul ck
  let j ← index mrow 0
  pure (natToStr j)

/-! value level: position `i` counts from the right-hand end -/
def vstep (i s v : Nat) : Nat := tbl2 verhoeffMul s (tbl2 verhoeffPerm (i % 8) v)
def vchecksum (vals : List Nat) : Nat :=
  vals.reverse.zipIdx.foldl (fun s p => vstep p.2 s p.1) 0

end Verhoeff

/-! ## stdnum.damm -/

def dammTable : List (List Nat) := [
  [0, 3, 1, 7, 5, 9, 8, 6, 4, 2],
  [7, 0, 9, 2, 1, 5, 4, 8, 6, 3],
  [4, 2, 0, 6, 8, 7, 1, 3, 5, 9],
  [1, 7, 5, 0, 9, 8, 3, 4, 2, 6],
  [6, 1, 2, 3, 0, 4, 5, 9, 7, 8],
  [3, 6, 7, 4, 2, 0, 9, 5, 8, 1],
  [5, 8, 6, 9, 7, 2, 0, 1, 3, 4],
  [8, 9, 4, 5, 3, 6, 2, 0, 1, 7],
  [9, 4, 3, 8, 6, 1, 7, 2, 0, 5],
  [2, 5, 8, 1, 4, 3, 6, 7, 9, 0]]

namespace Damm

/-- `table or _operation_table` (`None` and the empty sequence are falsy) -/
def tableOr (table : Option (List (List Nat))) : List (List Nat) :=
  match table with
  | none => dammTable
  | some t => if t.isEmpty then dammTable else t

def checksum (dec : Nat → Option Nat) (number : Str) (table : Option (List (List Nat))) : R Nat := do
  let table := tableOr table
  number.foldlM (fun i n => do
    let row ← getItem table i
    let d ← intChar dec n
    getItem row d) 0

def validate (dec : Nat → Option Nat) (number : Str) (table : Option (List (List Nat))) : R Str :=
  if number.isEmpty then raise .invalidFormat
  else validateBody (checksum dec number table) 0 number

def is_valid (dec : Nat → Option Nat) (number : Str) (table : Option (List (List Nat))) : R Bool :=
  isValidOf (validate dec number table)

def calc_check_digit (dec : Nat → Option Nat) (number : Str) (table : Option (List (List Nat))) :
    R Str := do
  let ck ← checksum dec number table
  pure (natToStr ck)

/-! value level (default table) -/
def vstep (s v : Nat) : Nat := tbl2 dammTable s v
def vchecksum (vals : List Nat) : Nat := vals.foldl vstep 0

end Damm

/-! ## value-level ISO 7064 systems -/

/-- pure system MOD M,2 -/
def pureStep (m s v : Nat) : Nat := (2 * s + v) % m
def pureChecksum (m : Nat) (vals : List Nat) : Nat := vals.foldl (pureStep m) 0

/-- hybrid system MOD M+1,M -/
def hybridStep (m s v : Nat) : Nat := (((if s = 0 then m else s) * 2) % (m + 1) + v) % m
def hybridChecksum (m : Nat) (vals : List Nat) : Nat := vals.foldl (hybridStep m) (m / 2)

/-! ## stdnum.iso7064.mod_11_2 -/
namespace Mod112

/-- `int(10 if n == 'X' else n)` -/
def charVal (dec : Nat → Option Nat) (n : Nat) : R Nat :=
  if n = 88 then pure 10 else intChar dec n

def checksum (dec : Nat → Option Nat) (number : Str) : R Nat :=
  number.foldlM (fun check n => do
    let v ← charVal dec n
    pure ((2 * check + v) % 11)) 0

def calc_check_digit (dec : Nat → Option Nat) (number : Str) : R Str := do
  let ck ← checksum dec number
  let c := pmod (1 - 2 * (ck : Int)) 11
  pure (if c = 10 then [88] else natToStr c)

def validate (dec : Nat → Option Nat) (number : Str) : R Str :=
  validateBody (checksum dec number) 1 number

def is_valid (dec : Nat → Option Nat) (number : Str) : R Bool := isValidOf (validate dec number)

end Mod112

/-! ## stdnum.iso7064.mod_37_2 -/
namespace Mod372

/-- `'0123456789ABCDEFGHIJKLMNOPQRSTUVWXYZ*'` -/
def defaultAlphabet : Str :=
  [48, 49, 50, 51, 52, 53, 54, 55, 56, 57, 65, 66, 67, 68, 69, 70, 71, 72, 73, 74, 75, 76, 77, 78, 79, 80,
   81, 82, 83, 84, 85, 86, 87, 88, 89, 90, 42]

/-- the `% modulus` is evaluated after `alphabet.index(n)`, which raises for every `n` when the alphabet is
empty, so the ZeroDivisionError branch is unreachable; it is kept to mirror the expression -/
def checksum (number : Str) (alphabet : Str) : R Nat := do
  let modulus := alphabet.length
  number.foldlM (fun check n => do
    let i ← index alphabet n
    if modulus = 0 then raise .zeroDivision else pure ((2 * check + i) % modulus)) 0

def calc_check_digit (number : Str) (alphabet : Str) : R Str := do
  let modulus := alphabet.length
  let ck ← checksum number alphabet
  if modulus = 0 then raise .zeroDivision
  else do
    let c ← getItem alphabet (pmod (1 - 2 * (ck : Int)) modulus)
    pure [c]

def validate (number : Str) (alphabet : Str) : R Str :=
  validateBody (checksum number alphabet) 1 number

def is_valid (number : Str) (alphabet : Str) : R Bool :=
  isValidOf (validate number alphabet)

end Mod372

/-! ## stdnum.iso7064.mod_11_10 -/
namespace Mod1110

def checksum (dec : Nat → Option Nat) (number : Str) : R Nat :=
  number.foldlM (fun check n => do
    let v ← intChar dec n
    pure ((((if check = 0 then 10 else check) * 2) % 11 + v) % 10)) 5

def calc_check_digit (dec : Nat → Option Nat) (number : Str) : R Str := do
  let ck ← checksum dec number
  pure (natToStr (pmod (1 - ((((if ck = 0 then 10 else ck) * 2) % 11 : Nat) : Int)) 10))

def validate (dec : Nat → Option Nat) (number : Str) : R Str :=
  validateBody (checksum dec number) 1 number

def is_valid (dec : Nat → Option Nat) (number : Str) : R Bool := isValidOf (validate dec number)

end Mod1110

/-! ## stdnum.iso7064.mod_37_36 -/
namespace Mod3736

/-- `'0123456789ABCDEFGHIJKLMNOPQRSTUVWXYZ'` -/
def defaultAlphabet : Str :=
  [48, 49, 50, 51, 52, 53, 54, 55, 56, 57, 65, 66, 67, 68, 69, 70, 71, 72, 73, 74, 75, 76, 77, 78, 79, 80,
   81, 82, 83, 84, 85, 86, 87, 88, 89, 90]

/-- as in `mod_37_2`, `% modulus` cannot divide by zero because `alphabet.index` raises first -/
def checksum (number : Str) (alphabet : Str) : R Nat := do
  let modulus := alphabet.length
  number.foldlM (fun check n => do
    let i ← index alphabet n
    if modulus = 0 then raise .zeroDivision
    else pure ((((if check = 0 then modulus else check) * 2) % (modulus + 1) + i) % modulus)) (modulus / 2)

def calc_check_digit (number : Str) (alphabet : Str) : R Str := do
  let modulus := alphabet.length
  let ck ← checksum number alphabet
  if modulus = 0 then raise .zeroDivision
  else do
    let q := ((if ck = 0 then modulus else ck) * 2) % (modulus + 1)
    let c ← getItem alphabet (pmod (1 - (q : Int)) modulus)
    pure [c]

def validate (number : Str) (alphabet : Str) : R Str :=
  validateBody (checksum number alphabet) 1 number

def is_valid (number : Str) (alphabet : Str) : R Bool :=
  isValidOf (validate number alphabet)

end Mod3736

/-! ## stdnum.iso7064.mod_97_10 -/
namespace Mod9710

/-- `''.join(str(int(x, 36)) for x in number)` -/
def toBase10 (b36 : Nat → Option Nat) (number : Str) : R Str := do
  let parts ← number.mapM (fun x => do
    let v ← intChar b36 x
    pure (natToStr v))
  pure parts.flatten

def checksum (b36 : Nat → Option Nat) (maxDigits : Nat) (number : Str) : R Nat := do
  let s ← toBase10 b36 number
  let v ← pyInt maxDigits s
  pure (v % 97)

/-- `'%02d' % (98 - checksum(number + '00'))`; the checksum is `< 97` so the subtraction stays positive -/
def calc_check_digits (b36 : Nat → Option Nat) (maxDigits : Nat) (number : Str) : R Str := do
  let ck ← checksum b36 maxDigits (number ++ [48, 48])
  pure (fmt02d (98 - ck))

def validate (b36 : Nat → Option Nat) (maxDigits : Nat) (number : Str) : R Str :=
  validateBody (checksum b36 maxDigits number) 1 number

def is_valid (b36 : Nat → Option Nat) (maxDigits : Nat) (number : Str) : R Bool :=
  isValidOf (validate b36 maxDigits number)

/-! value level: a value `< 10` contributes one decimal digit, a value `10 .. 35` two -/
def vstep (s v : Nat) : Nat := if v < 10 then (s * 10 + v) % 97 else (s * 100 + v) % 97
def vchecksum (vals : List Nat) : Nat := vals.foldl vstep 0
/-- number of decimal digits `_to_base10` produces -/
def width (vals : List Nat) : Nat := (vals.map (fun v => if v < 10 then 1 else 2)).sum

end Mod9710

/-! ## what the theorems need from the environment tables -/

/-- `dec` agrees with CPython on the ASCII digits (it may accept more characters) -/
def DecExtends (dec : Nat → Option Nat) : Prop := ∀ c, isAsciiDigit c = true → dec c = some (c - 48)
/-- `b36` agrees with CPython on `0-9A-Za-z` (it may accept more characters) -/
def B36Extends (b36 : Nat → Option Nat) : Prop := ∀ c, isAsciiAlnum c = true → b36 c = asciiB36 c

/-- value of an ASCII alphanumeric in base 36 (0 elsewhere) -/
def b36Val (c : Nat) : Nat := (asciiB36 c).getD 0

theorem asciiDec_extends : DecExtends asciiDec := by
  intro c hc
  simp only [isAsciiDigit, Bool.and_eq_true, decide_eq_true_eq] at hc
  simp [asciiDec, hc]

theorem asciiB36_extends : B36Extends asciiB36 := fun _ _ => rfl

theorem asciiB36_spec (c : Nat) (hc : isAsciiAlnum c = true) :
    asciiB36 c = some (b36Val c) ∧ b36Val c < 36 := by
  simp only [isAsciiAlnum, isAsciiDigit, isAsciiAlpha, isAsciiUpper, isAsciiLower, Bool.or_eq_true,
    Bool.and_eq_true, decide_eq_true_eq] at hc
  unfold b36Val asciiB36
  split
  · simp; omega
  · split
    · simp; omega
    · split
      · simp; omega
      · omega

theorem b36Val_digit (c : Nat) (hc : isAsciiDigit c = true) : b36Val c = c - 48 := by
  simp only [isAsciiDigit, Bool.and_eq_true, decide_eq_true_eq] at hc
  simp [b36Val, asciiB36, hc]

/-! # Refinement: string level = value level on words over the alphabet

For a word `w` all of whose characters have a value (`alphabet.index`, `int(c)`, `int(c, 36)` succeed),
the string-level `checksum` returns exactly the value-level checksum of the list of values. -/
section Refinement

@[simp] theorem ok_bind {α β : Type} (a : α) (f : α → R β) : ((Except.ok a : R α) >>= f) = f a := rfl
@[simp] theorem error_bind {α β : Type} (e : Exc) (f : α → R β) :
    ((Except.error e : R α) >>= f) = .error e := rfl
@[simp] theorem pure_eq_ok {α : Type} (a : α) : (pure a : R α) = .ok a := rfl
@[simp] theorem raise_eq_error {α : Type} (e : Exc) : (raise e : R α) = .error e := rfl

theorem mapM_ok {β : Type} (f : Nat → R β) (g : Nat → β) (w : List Nat)
    (h : ∀ c ∈ w, f c = .ok (g c)) : w.mapM f = .ok (w.map g) := by
  induction w with
  | nil => rfl
  | cons a w ih =>
    rw [List.mapM_cons, h a List.mem_cons_self, ih (fun c hc => h c (List.mem_cons_of_mem _ hc))]
    rfl

theorem foldlM_ok {σ α : Type} (f : σ → α → R σ) (g : σ → α → σ) (I : σ → Prop) (w : List α)
    (h : ∀ s, ∀ a ∈ w, I s → f s a = .ok (g s a) ∧ I (g s a)) (s : σ) (hs : I s) :
    w.foldlM f s = .ok (w.foldl g s) := by
  induction w generalizing s with
  | nil => rfl
  | cons a w ih =>
    rw [List.foldlM_cons, (h s a List.mem_cons_self hs).1, ok_bind, List.foldl_cons]
    exact ih (fun s a ha => h s a (List.mem_cons_of_mem _ ha)) _ (h s a List.mem_cons_self hs).2

theorem index_ok (l : List Nat) (c : Nat) (h : c ∈ l) : index l c = .ok (l.idxOf c) := by
  unfold index
  rw [if_pos (List.idxOf_lt_length_iff.mpr h)]
  rfl

theorem getItem_ok {α : Type} (l : List α) (i : Nat) (d : α) (h : i < l.length) :
    getItem l i = .ok (l.getD i d) := by
  unfold getItem
  rw [List.getD_eq_getElem?_getD, List.getElem?_eq_getElem h]
  rfl

theorem intChar_ok (tbl : Nat → Option Nat) (c v : Nat) (h : tbl c = some v) : intChar tbl c = .ok v := by
  unfold intChar; rw [h]; rfl

/-! ### Luhn -/

theorem Luhn.fold_eq_sum (n : Nat) (l : List Nat) : ∀ (k s : Nat), k % 2 = 0 → s < n →
    (l.zipIdx k).foldl (fun s p => Luhn.vstep n p.2 s p.1) s =
      (s + ((Luhn.evens l).sum + ((Luhn.odds l).map (Luhn.dbl n)).sum)) % n := by
  fun_induction Luhn.evens l with
  | case1 => intro k s _ hs; simp [Luhn.odds, Nat.mod_eq_of_lt hs]
  | case2 a =>
    intro k s hk _
    simp [Luhn.odds, Luhn.vstep, Luhn.weight, hk]
  | case3 a b r ih =>
    intro k s hk hs
    have hk1 : (k + 1) % 2 ≠ 0 := by omega
    have hn : 0 < n := by omega
    simp only [List.zipIdx_cons, List.foldl_cons, Luhn.odds, List.map_cons, List.sum_cons]
    rw [ih (k + 1 + 1) _ (by omega) (by unfold Luhn.vstep; exact Nat.mod_lt _ hn)]
    simp only [Luhn.vstep, Luhn.weight, hk, hk1, if_true, if_false, Nat.mod_add_mod]
    congr 1
    omega

theorem Luhn.checksum_eq (alphabet w : Str) (hne : alphabet ≠ []) (hw : ∀ c ∈ w, c ∈ alphabet) :
    Luhn.checksum w alphabet = .ok (Luhn.vchecksum alphabet.length (w.map (alphabet.idxOf ·))) := by
  have hn : 0 < alphabet.length := List.length_pos_iff.mpr hne
  unfold Luhn.checksum Luhn.vchecksum
  rw [mapM_ok (index alphabet) (alphabet.idxOf ·) w.reverse
    (fun c hc => index_ok alphabet c (hw c (List.mem_reverse.mp hc)))]
  simp only [ok_bind]
  rw [if_neg (by omega), ← List.map_reverse, Luhn.fold_eq_sum _ _ 0 0 rfl hn, Nat.zero_add]
  rfl

/-! ### Verhoeff -/

theorem verhoeffMul_row (s : Nat) (h : s < 10) : (verhoeffMul.getD s []).length = 10 := by
  revert s; decide
theorem verhoeffPerm_row (i : Nat) (h : i < 8) : (verhoeffPerm.getD i []).length = 10 := by
  revert i; decide
theorem verhoeffPerm_lt : ∀ i < 8, ∀ v < 10, tbl2 verhoeffPerm i v < 10 := by decide
theorem verhoeffMul_lt : ∀ s < 10, ∀ v < 10, tbl2 verhoeffMul s v < 10 := by decide

theorem Verhoeff.vstep_lt (i s v : Nat) (hs : s < 10) (hv : v < 10) : Verhoeff.vstep i s v < 10 :=
  verhoeffMul_lt s hs _ (verhoeffPerm_lt (i % 8) (Nat.mod_lt _ (by decide)) v hv)

theorem Verhoeff.foldlM_eq (l : List Nat) : ∀ (k s : Nat), (∀ v ∈ l, v < 10) → s < 10 →
    (l.zipIdx k).foldlM (fun check p => do
      let mrow ← getItem verhoeffMul check
      let prow ← getItem verhoeffPerm (p.2 % 8)
      let j ← getItem prow p.1
      getItem mrow j) s = .ok ((l.zipIdx k).foldl (fun s p => Verhoeff.vstep p.2 s p.1) s) := by
  induction l with
  | nil => intro k s _ _; rfl
  | cons v l ih =>
    intro k s hl hs
    have hv : v < 10 := hl v List.mem_cons_self
    have hk : k % 8 < 8 := Nat.mod_lt _ (by decide)
    simp only [List.zipIdx_cons, List.foldlM_cons, List.foldl_cons]
    rw [getItem_ok verhoeffMul s [] (by simpa [verhoeffMul] using hs), ok_bind,
      getItem_ok verhoeffPerm (k % 8) [] (by simpa [verhoeffPerm] using hk), ok_bind,
      getItem_ok _ v 0 (by rw [verhoeffPerm_row _ hk]; exact hv), ok_bind,
      getItem_ok _ _ 0 (by rw [verhoeffMul_row _ hs]; exact verhoeffPerm_lt _ hk _ hv), ok_bind]
    exact ih (k + 1) _ (fun x hx => hl x (List.mem_cons_of_mem _ hx)) (Verhoeff.vstep_lt k s v hs hv)

theorem Verhoeff.checksum_eq (dec : Nat → Option Nat) (val : Nat → Nat) (w : Str)
    (hw : ∀ c ∈ w, dec c = some (val c) ∧ val c < 10) :
    Verhoeff.checksum dec w = .ok (Verhoeff.vchecksum (w.map val)) := by
  unfold Verhoeff.checksum Verhoeff.vchecksum
  rw [mapM_ok (intChar dec) val w.reverse
    (fun c hc => intChar_ok dec c _ (hw c (List.mem_reverse.mp hc)).1), ok_bind, List.map_reverse]
  apply Verhoeff.foldlM_eq _ 0 0 _ (by decide)
  intro v hv
  rw [List.mem_reverse, List.mem_map] at hv
  obtain ⟨c, hc, rfl⟩ := hv
  exact (hw c hc).2

/-! ### Damm (default table) -/

theorem dammTable_row (s : Nat) (h : s < 10) : (dammTable.getD s []).length = 10 := by
  revert s; decide
theorem dammTable_lt : ∀ s < 10, ∀ v < 10, tbl2 dammTable s v < 10 := by decide

theorem Damm.checksum_eq (dec : Nat → Option Nat) (val : Nat → Nat) (w : Str)
    (hw : ∀ c ∈ w, dec c = some (val c) ∧ val c < 10) :
    Damm.checksum dec w none = .ok (Damm.vchecksum (w.map val)) := by
  unfold Damm.checksum Damm.vchecksum
  rw [List.foldl_map]
  apply foldlM_ok _ _ (fun s => s < 10) _ _ 0 (by decide)
  intro s c hc hs
  have hv := hw c hc
  simp only [Damm.tableOr]
  rw [getItem_ok dammTable s [] (by simpa [dammTable] using hs), ok_bind, intChar_ok dec c _ hv.1, ok_bind,
    getItem_ok _ _ 0 (by rw [dammTable_row _ hs]; exact hv.2)]
  exact ⟨rfl, dammTable_lt s hs _ hv.2⟩

/-! ### ISO 7064 pure and hybrid systems -/

theorem Mod112.checksum_eq (dec : Nat → Option Nat) (val : Nat → Nat) (w : Str)
    (hw : ∀ c ∈ w, Mod112.charVal dec c = .ok (val c)) :
    Mod112.checksum dec w = .ok (pureChecksum 11 (w.map val)) := by
  unfold Mod112.checksum pureChecksum
  rw [List.foldl_map]
  apply foldlM_ok _ _ (fun _ => True) _ _ 0 trivial
  intro s c hc _
  rw [hw c hc]
  exact ⟨rfl, trivial⟩

theorem Mod372.checksum_eq (alphabet w : Str) (hw : ∀ c ∈ w, c ∈ alphabet) :
    Mod372.checksum w alphabet = .ok (pureChecksum alphabet.length (w.map (alphabet.idxOf ·))) := by
  unfold Mod372.checksum pureChecksum
  rw [List.foldl_map]
  apply foldlM_ok _ _ (fun _ => True) _ _ 0 trivial
  intro s c hc _
  have hn : alphabet.length ≠ 0 := by
    have := List.length_pos_of_mem (hw c hc); omega
  rw [index_ok alphabet c (hw c hc), ok_bind, if_neg hn]
  exact ⟨rfl, trivial⟩

theorem Mod1110.checksum_eq (dec : Nat → Option Nat) (val : Nat → Nat) (w : Str)
    (hw : ∀ c ∈ w, dec c = some (val c)) :
    Mod1110.checksum dec w = .ok (hybridChecksum 10 (w.map val)) := by
  unfold Mod1110.checksum hybridChecksum
  rw [List.foldl_map]
  apply foldlM_ok _ _ (fun _ => True) _ _ _ trivial
  intro s c hc _
  rw [intChar_ok dec c _ (hw c hc)]
  exact ⟨rfl, trivial⟩

theorem Mod3736.checksum_eq (alphabet w : Str) (hw : ∀ c ∈ w, c ∈ alphabet) :
    Mod3736.checksum w alphabet = .ok (hybridChecksum alphabet.length (w.map (alphabet.idxOf ·))) := by
  unfold Mod3736.checksum hybridChecksum
  rw [List.foldl_map]
  apply foldlM_ok _ _ (fun _ => True) _ _ _ trivial
  intro s c hc _
  have hn : alphabet.length ≠ 0 := by
    have := List.length_pos_of_mem (hw c hc); omega
  rw [index_ok alphabet c (hw c hc), ok_bind, if_neg hn]
  exact ⟨rfl, trivial⟩

/-! ### Mod 97-10 -/

theorem natToStr_lt10 (v : Nat) (h : v < 10) : natToStr v = [48 + v] := by
  simp [natToStr, natToStrAux, h]

theorem natToStr_lt100 (v : Nat) (h1 : 10 ≤ v) (h2 : v < 100) : natToStr v = [48 + v / 10, 48 + v % 10] := by
  obtain ⟨k, rfl⟩ : ∃ k, v = k + 1 := ⟨v - 1, by omega⟩
  have h3 : ¬ (k + 1 < 10) := by omega
  have h4 : (k + 1) / 10 < 10 := by omega
  simp [natToStr, natToStrAux, h3, h4]

/-- `int(s)` of a digit string, continuing from `acc` -/
def decFold (acc : Nat) (s : Str) : Nat := s.foldl (fun acc c => acc * 10 + (c - 48)) acc

theorem Mod9710.digits_spec (val : Nat → Nat) (w : Str) (hw : ∀ c ∈ w, val c < 36) :
    let d := (w.map (fun c => natToStr (val c))).flatten
    d.all isAsciiDigit = true ∧ d.length = Mod9710.width (w.map val) ∧
      ∀ acc, decFold acc d % 97 = (w.map val).foldl Mod9710.vstep (acc % 97) := by
  induction w with
  | nil => simp [Mod9710.width, decFold]
  | cons c w ih =>
    have ih := ih (fun x hx => hw x (List.mem_cons_of_mem _ hx))
    have hc := hw c List.mem_cons_self
    simp only [List.map_cons, List.flatten_cons, List.all_append, List.length_append,
      Mod9710.width, List.sum_cons, List.foldl_cons, Bool.and_eq_true] at ih ⊢
    by_cases h10 : val c < 10
    · rw [natToStr_lt10 _ h10]
      refine ⟨⟨by simp; omega, ih.1⟩, by simp [h10, ih.2.1], ?_⟩
      intro acc
      simp only [decFold, List.foldl_append, List.foldl_cons, List.foldl_nil] at ih ⊢
      rw [ih.2.2]
      congr 1
      simp only [Mod9710.vstep, h10, if_true]
      omega
    · rw [natToStr_lt100 _ (by omega) (by omega)]
      refine ⟨⟨by simp; omega, ih.1⟩, by simp [h10, ih.2.1], ?_⟩
      intro acc
      simp only [decFold, List.foldl_append, List.foldl_cons, List.foldl_nil] at ih ⊢
      rw [ih.2.2]
      congr 1
      simp only [Mod9710.vstep, h10, if_false]
      omega

theorem Mod9710.toBase10_eq (b36 : Nat → Option Nat) (val : Nat → Nat) (w : Str)
    (hw : ∀ c ∈ w, b36 c = some (val c)) :
    Mod9710.toBase10 b36 w = .ok (w.map (fun c => natToStr (val c))).flatten := by
  unfold Mod9710.toBase10
  rw [mapM_ok _ (fun c => natToStr (val c)) w (fun c hc => by rw [intChar_ok b36 c _ (hw c hc)]; rfl)]
  rfl

/-- refinement for `mod_97_10.checksum`, including the two ways it raises on well-formed input -/
theorem Mod9710.checksum_eq (b36 : Nat → Option Nat) (maxDigits : Nat) (val : Nat → Nat) (w : Str)
    (hw : ∀ c ∈ w, b36 c = some (val c) ∧ val c < 36) :
    Mod9710.checksum b36 maxDigits w =
      if w = [] then .error .valueError
      else if maxDigits ≠ 0 ∧ maxDigits < Mod9710.width (w.map val) then .error .valueError
      else .ok (Mod9710.vchecksum (w.map val)) := by
  obtain ⟨hall, hlen, hval⟩ := Mod9710.digits_spec val w (fun c hc => (hw c hc).2)
  unfold Mod9710.checksum
  rw [Mod9710.toBase10_eq b36 val w (fun c hc => (hw c hc).1), ok_bind]
  unfold pyInt
  by_cases hnil : w = []
  · subst hnil; rfl
  · have hd : (w.map (fun c => natToStr (val c))).flatten ≠ [] := by
      cases w with
      | nil => exact absurd rfl hnil
      | cons c w =>
        have hc := (hw c List.mem_cons_self).2
        simp only [List.map_cons, List.flatten_cons]
        by_cases h10 : val c < 10
        · rw [natToStr_lt10 _ h10]; simp
        · rw [natToStr_lt100 _ (by omega) (by omega)]; simp
    rw [if_neg hd, if_neg hnil, hall, hlen]
    simp only [Bool.not_true, Bool.false_eq_true, if_false]
    split
    · rfl
    · have := hval 0
      simp only [decFold] at this
      simp only [pure_eq_ok, ok_bind, this, Mod9710.vchecksum]

end Refinement
end Spec.Checksum
