import PyRt
import Gen.isbn
import Gen.ean
import Gen.issn
import Gen.ismn
import Gen.isin
import Gen.imei
import Gen.iso11649
import Gen.isni
import Gen.lei
import Gen.grid
import Gen.cusip
import Gen.gb_sedol
import Gen.figi
import Gen.imo
import Gen.casrn
import Gen.bic
import Gen.isrc
import Gen.iban__b
import Gen.db_iban
import Spec.NumDB
/-!
# Spec.Standards — the published rules of the international identifiers of property C07

Every predicate `Std_M : Str → Bool` below is written from the published rule of the identifier (the sources
are listed per format) and takes the *canonical* string (separators removed, upper case).  Nothing here
calls the implementation of the same check in `Gen/*.lean` or the algorithm models of `Spec/Checksum.lean`;
the checksums are stated as congruences over the whole number:

* weighted sums `Σ w(i)·dᵢ` (`wsum`), positions numbered as the standard numbers them;
* Luhn / "modulus 10 double add double" as `Σ f(i, dᵢ)` (`fsum`) with the digit sum of the doubled digit;
* ISO 7064 MOD 97-10: the number obtained by replacing `A`..`Z` by `10`..`35` (`numeral`), read as ONE
  decimal numeral, is `≡ 1 (mod 97)`;
* ISO 7064 MOD 11-2: `Σ aᵢ·2^(n−i) ≡ 1 (mod 11)` (`pval 2`);
* ISO 7064 MOD 37,36 (hybrid system): the recursion of the standard, clause 7.2 (`hybrid3736`).

Shared with the generated code, on purpose (see the property text: "given the same registry tables"):
* DATA tables: `Gen.isin._country_codes`, `Gen.isrc._country_codes`;
* the canonicalisation `canon_M x` := the value of the module's `compact(x)` (`Gen.M.compact`), whose own
  correctness is property C14.

`tools/search/c07_reference.py` is the independent Python transcription of the same rules;
`tools/corr/standards.py` compares the two on the corpus, all single-edit neighbours and random strings
through `Driver/Standards.lean`.

IBAN (`Std_iban`, `Std_iban_cc`) takes the registry table as a parameter (`ibanRegistryOf db`: country code and BBAN
structure tokens of every line of the numdb tree `db`; `ibanRegistry` is the one of the shipped `iban.dat`) and, for
`check_country=True`, the national validators as a parameter.

Not covered: Bitcoin (`Gen.bitcoin.validate` is not translated: `functools.reduce`, `bytes`).
-/
namespace Spec.Standards
open Py

/-! ## vocabulary -/

/-- `0`–`9` -/
def isD (c : Nat) : Bool := decide (48 ≤ c) && decide (c ≤ 57)
/-- `A`–`Z` -/
def isU (c : Nat) : Bool := decide (65 ≤ c) && decide (c ≤ 90)
/-- `0`–`9`, `A`–`Z` -/
def isDU (c : Nat) : Bool := isD c || isU c
/-- `0`–`9`, `X` -/
def isDX (c : Nat) : Bool := isD c || c == 88
/-- an upper-case consonant `BCDFGHJKLMNPQRSTVWXYZ` -/
def isCons (c : Nat) : Bool := isU c && !([65, 69, 73, 79, 85] : List Nat).contains c

/-- value of a decimal digit -/
def dv (c : Nat) : Nat := c - 48
/-- value of a decimal digit, `X` = 10 -/
def vX (c : Nat) : Nat := if c = 88 then 10 else c - 48
/-- `0`–`9` ↦ 0..9, `A`–`Z` ↦ 10..35 -/
def v36 (c : Nat) : Nat := if c ≤ 57 then c - 48 else c - 55

/-- `Σ_j f(k + j, l[j])`: a sum over the positions `k, k+1, …` of `l` -/
def fsum (f : Nat → Nat → Nat) : Nat → List Nat → Nat
  | _, [] => 0
  | k, d :: ds => f k d + fsum f (k + 1) ds

/-- weighted sum `Σ_j w(k + j) · l[j]` -/
def wsum (w : Nat → Nat) (k : Nat) (l : List Nat) : Nat := fsum (fun i d => w i * d) k l

/-- positional value `Σ aᵢ · r^(n−i)` of the digit values `a₁ … aₙ` in radix `r` -/
def pval (r : Nat) : List Nat → Nat
  | [] => 0
  | a :: l => a * r ^ l.length + pval r l

/-- the decimal numeral obtained by writing every value (`0`..`35`) in decimal, one after the other, read as a
number: a value below 10 contributes one decimal digit, a value `10`..`35` two -/
def numeral : List Nat → Nat
  | [] => 0
  | v :: l => v * 10 ^ ((l.map (fun x => if x < 10 then 1 else 2)).sum) + numeral l

/-- sum of the decimal digits of a number below 100 -/
def digitSum (n : Nat) : Nat := n / 10 + n % 10

/-- GS1 General Specifications 7.9: weights 1, 3, 1, 3, … from the right-hand end (check digit included),
total `≡ 0 (mod 10)` -/
def gs1 (t : Str) : Bool :=
  wsum (fun i => if i % 2 = 0 then 1 else 3) 0 (t.reverse.map dv) % 10 == 0

/-- Luhn (ISO/IEC 7812-1 annex B): from the right-hand end, every second digit doubled, the digits of the
products added; total `≡ 0 (mod 10)` -/
def luhn (ds : List Nat) : Bool :=
  fsum (fun i d => if i % 2 = 0 then d else digitSum (2 * d)) 0 ds.reverse % 10 == 0

/-- "modulus 10 double add double" (ANSI X9.6, also FIGI): from the LEFT, the 2nd, 4th, … value doubled,
the digits of every value added; the check digit makes the total `≡ 0 (mod 10)` -/
def dad (vals : List Nat) (check : Nat) : Bool :=
  (fsum (fun i v => digitSum (if i % 2 = 1 then v else 2 * v)) 1 vals + check) % 10 == 0

/-- ISO 7064 MOD 37,36, hybrid system (clause 7.2): `P₁ = 36`, `Sⱼ = Pⱼ|₃₇ + aⱼ`,
`Pⱼ₊₁ = 2·(Sⱼ ‖ 36) mod 37` where `x ‖ 36` is `x mod 36` with 0 replaced by 36; returns `Sₙ mod 36` -/
def hybrid3736 : Nat → List Nat → Nat → Nat
  | _, [], s => s
  | p, a :: l, _ =>
    let s := (p + a) % 36
    hybrid3736 (((if s = 0 then 36 else s) * 2) % 37) l s

def canonOf (r : R Str) : Str :=
  match r with
  | .ok s => s
  | .error _ => []

/-! ## ISSN (ISO 3297)

Eight characters, seven digits and a check character `0`–`9` or `X` (= 10);
`Σ_{i=1..8} (9 − i)·dᵢ ≡ 0 (mod 11)`. -/

def Std_issn (t : Str) : Bool :=
  t.length == 8 && t.dropLast.all isD && t.all isDX &&
    wsum (fun i => 9 - i) 1 (t.map vX) % 11 == 0

def canon_issn (x : Str) : Str := canonOf (Gen.issn.compact x)

/-! ## EAN / GTIN (GS1 General Specifications 7.9): GTIN-8, -12, -13, -14 -/

def Std_ean (t : Str) : Bool :=
  ([8, 12, 13, 14] : List Nat).contains t.length && t.all isD && gs1 t

def canon_ean (x : Str) : Str := canonOf (Gen.ean.compact x)

/-! ## ISBN (ISO 2108, ISBN Users' Manual)

ISBN-10: nine digits and a check character `0`–`9` or `X`; weights 10, 9, …, 1:
`Σ_{i=1..10} (11 − i)·dᵢ ≡ 0 (mod 11)`.  A nine-digit SBN is an ISBN-10 without its leading 0 (done by the
canonicalisation).  ISBN-13: an EAN-13 with the GS1 prefix 978 or 979. -/

def Std_isbn10 (t : Str) : Bool :=
  t.length == 10 && t.dropLast.all isD && t.all isDX &&
    wsum (fun i => 11 - i) 1 (t.map vX) % 11 == 0

def Std_isbn13 (t : Str) : Bool :=
  t.length == 13 && t.all isD && (t.take 3 == [57, 55, 56] || t.take 3 == [57, 55, 57]) && gs1 t

def Std_isbn (t : Str) : Bool := Std_isbn10 t || Std_isbn13 t

def canon_isbn (x : Str) : Str := canonOf (Gen.isbn.compact x false)

/-! ## ISMN (ISO 10957): `M` + 8 digits + check, or 979-0 + 8 digits + check; GS1 check with `M` = 979-0 -/

def Std_ismn (t : Str) : Bool :=
  (t.length == 10 && t.take 1 == [77] && (t.drop 1).all isD && gs1 ([57, 55, 57, 48] ++ t.drop 1)) ||
  (t.length == 13 && t.all isD && t.take 4 == [57, 55, 57, 48] && gs1 t)

def canon_ismn (x : Str) : Str := canonOf (Gen.ismn.compact x)

/-! ## IMO number (IMO resolution A.1078(28)): seven digits, `Σ_{i=1..6} (8 − i)·dᵢ ≡ d₇ (mod 10)`;
the letters `IMO` in front are removed by the canonicalisation -/

def Std_imo (t : Str) : Bool :=
  t.length == 7 && t.all isD &&
    wsum (fun i => 8 - i) 1 ((t.take 6).map dv) % 10 == dv (t.getD 6 0)

def canon_imo (x : Str) : Str := canonOf (Gen.imo.compact x)

/-! ## CAS Registry Number: `a-bb-c` with 2 to 7 digits `a` (no leading zero), two digits `bb`, check digit
`c = Σ i·dᵢ mod 10`, the digits of `a bb` numbered from the right starting at 1 -/

def Std_casrn (t : Str) : Bool :=
  let a := t.take (t.length - 5)
  2 ≤ a.length && a.length ≤ 7 && a.all isD && a.head? != some 48 &&
  (match t.drop (t.length - 5) with
   | [h1, b1, b2, h2, c] =>
     h1 == 45 && h2 == 45 && isD b1 && isD b2 && isD c &&
       wsum (fun i => i) 1 (([b2, b1] ++ a.reverse).map dv) % 10 == dv c
   | _ => false)

def canon_casrn (x : Str) : Str := canonOf (Gen.casrn.compact x)

/-! ## IMEI (3GPP TS 23.003): 15 digits with a Luhn check digit; 14 digits (no check digit) and 16 digits
(IMEISV, no check digit) as the module documents -/

def Std_imei (t : Str) : Bool :=
  t.all isD && ((t.length == 15 && luhn (t.map dv)) || t.length == 14 || t.length == 16)

def canon_imei (x : Str) : Str := canonOf (Gen.imei.compact x)

/-! ## ISIN (ISO 6166): two-letter prefix from the table, nine alphanumerics, a decimal check digit; letters
are replaced by 10..35 and the Luhn test is applied to the resulting digit string -/

/-- decimal digits of a value below 100 -/
def decDigits (v : Nat) : List Nat := if v < 10 then [v] else [v / 10, v % 10]

def Std_isin (t : Str) : Bool :=
  t.length == 12 && (t.take 2).all isU && t.all isDU && isD (t.getD 11 0) &&
    Gen.isin._country_codes.contains (t.take 2) &&
    luhn (t.flatMap (fun c => decDigits (v36 c)))

def canon_isin (x : Str) : Str := canonOf (Gen.isin.compact x)

/-! ## CUSIP (ANSI X9.6): eight characters `0-9 A-Z * @ #` (values 0..35, 36, 37, 38) and a decimal check digit,
modulus 10 double add double -/

def cusipVal (c : Nat) : Nat := if c = 42 then 36 else if c = 64 then 37 else if c = 35 then 38 else v36 c

def Std_cusip (t : Str) : Bool :=
  t.length == 9 && t.dropLast.all (fun c => isDU c || c == 42 || c == 64 || c == 35) && isD (t.getD 8 0) &&
    dad (t.dropLast.map cusipVal) (dv (t.getD 8 0))

def canon_cusip (x : Str) : Str := canonOf (Gen.cusip.compact x)

/-! ## SEDOL (London Stock Exchange): six characters (digits and consonants) and a decimal check digit, weights
1, 3, 1, 7, 3, 9, 1, total `≡ 0 (mod 10)`; a number that starts with a digit is an old-style, all-numeric one -/

def sedolW (i : Nat) : Nat := ([1, 3, 1, 7, 3, 9, 1] : List Nat).getD i 0

def Std_sedol (t : Str) : Bool :=
  t.length == 7 && t.dropLast.all (fun c => isD c || isCons c) && isD (t.getD 6 0) &&
    (!isD (t.getD 0 0) || t.all isD) &&
    wsum sedolW 0 (t.map v36) % 10 == 0

def canon_sedol (x : Str) : Str := canonOf (Gen.gb_sedol.compact x)

/-! ## FIGI (OMG Financial Instrument Global Identifier): two consonants (not one of the reserved pairs
BS BM GG GB GH KY VG), `G`, eight consonants or digits, a decimal check digit, modulus 10 double add double over
positions 1..11 -/

def figiReserved : List Str := [[66, 83], [66, 77], [71, 71], [71, 66], [71, 72], [75, 89], [86, 71]]

/-- the rule with the list of reserved prefixes as a parameter -/
def Std_figi_res (reserved : List Str) (t : Str) : Bool :=
  t.length == 12 && (t.take 2).all isCons && t.dropLast.all (fun c => isD c || isCons c) &&
    isD (t.getD 11 0) && !reserved.contains (t.take 2) && t.getD 2 0 == 71 &&
    dad (t.dropLast.map v36) (dv (t.getD 11 0))

def Std_figi (t : Str) : Bool := Std_figi_res figiReserved t

def canon_figi (x : Str) : Str := canonOf (Gen.figi.compact x)

/-! ## LEI (ISO 17442): 18 alphanumerics and two decimal check digits, ISO 7064 MOD 97-10: the whole number
`≡ 1 (mod 97)` -/

def Std_lei (t : Str) : Bool :=
  t.length == 20 && t.all isDU && (t.drop 18).all isD && numeral (t.map v36) % 97 == 1

def canon_lei (x : Str) : Str := canonOf (Gen.lei.compact x)

/-! ## ISO 11649 creditor reference: `RF`, two decimal check digits, 1 to 21 alphanumerics; the reference with
`RFnn` moved to the end is `≡ 1 (mod 97)` -/

def Std_iso11649 (t : Str) : Bool :=
  5 ≤ t.length && t.length ≤ 25 && t.take 2 == [82, 70] && ((t.drop 2).take 2).all isD && t.all isDU &&
    numeral ((t.drop 4 ++ t.take 4).map v36) % 97 == 1

def canon_iso11649 (x : Str) : Str := canonOf (Gen.iso11649.compact x)

/-! ## ISNI (ISO 27729): 15 digits and a check character `0`–`9` or `X`, ISO 7064 MOD 11-2:
`Σ_{i=1..16} aᵢ·2^(16−i) ≡ 1 (mod 11)` -/

def Std_isni (t : Str) : Bool :=
  t.length == 16 && t.dropLast.all isD && t.all isDX && pval 2 (t.map vX) % 11 == 1

def canon_isni (x : Str) : Str := canonOf (Gen.isni.compact x)

/-! ## GRid (IFPI GRid standard v2.1): 18 alphanumerics, identifier scheme element `A1`, ISO 7064 MOD 37,36 -/

def Std_grid (t : Str) : Bool :=
  t.length == 18 && t.all isDU && hybrid3736 36 (t.map v36) 0 == 1 && t.take 2 == [65, 49]

def canon_grid (x : Str) : Str := canonOf (Gen.grid.compact x)

/-! ## BIC (ISO 9362): 4 letters, a 2 letter ISO 3166 country code, 2 alphanumerics, optionally 3 more -/

/-- ISO 3166-1 alpha-2 (+ `XK`): the ISIN prefix table without the special ISIN prefixes -/
def iso3166 : List Str :=
  Gen.isin._country_codes.filter (fun c =>
    !([[69, 85], [81, 83], [81, 84], [88, 65], [88, 66], [88, 67], [88, 68], [88, 70], [88, 83]] : List Str).contains c)

/-- the shape alone: 8 or 11 characters, six letters, then alphanumerics -/
def Std_bic_shape (t : Str) : Bool :=
  (t.length == 8 || t.length == 11) && (t.take 6).all isU && t.all isDU

def Std_bic (t : Str) : Bool := Std_bic_shape t && iso3166.contains ((t.drop 4).take 2)

def canon_bic (x : Str) : Str := canonOf (Gen.bic.compact x)

/-! ## ISRC (ISO 3901): 2 letter prefix from the table, 3 alphanumerics, 2 digit year, 5 digit designation -/

def Std_isrc (t : Str) : Bool :=
  t.length == 12 && (t.take 2).all isU && ((t.drop 2).take 3).all isDU && (t.drop 5).all isD &&
    Gen.isrc._country_codes.contains (t.take 2)

def canon_isrc (x : Str) : Str := canonOf (Gen.isrc.compact x)

/-! ## IBAN (ISO 13616-1; SWIFT IBAN registry)

An IBAN is: the two-letter ISO 3166 country code, two decimal check digits, and the BBAN, whose structure the IBAN
registry fixes per country as a sequence of fields `<count>!<class>` with the classes `n` (digits `0`–`9`), `a`
(upper-case letters `A`–`Z`) and `c` (alphanumerics; the electronic format is upper case, and the canonicalisation
upper-cases).  Check (ISO 7064 MOD 97-10): the BBAN followed by the country code and the check digits, letters
replaced by `10`..`35`, read as one decimal numeral, is `≡ 1 (mod 97)`.

The registry is a parameter: a list of lines (country code, fields).  `ibanRegistryOf db` reads it off a numdb tree
(`iban.dat`: one top-level entry per country with the property `bban`); the notation reader `parseBban` is this file's
own (`[1-9][0-9]*![nac]` repeated, nothing else).

With `check_country` (the default of `iban.validate`): "where one exists, the national IBAN validator" must accept
as well; the national validators are a parameter `national : country code → Option (Str → Bool)`. -/

/-- the class letters of the registry's structure notation: `n`, `a`, `c` (anything else: no character) -/
def ibanClass (k : Nat) (c : Nat) : Bool :=
  if k = 110 then isD c else if k = 97 then isU c else if k = 99 then isDU c else false

/-- `b` is made of the fields, one after the other, and nothing else: `count` characters of the class each -/
def ibanFields : List (Nat × Nat) → Str → Bool
  | [], b => b.isEmpty
  | t :: ts, b => decide (t.1 ≤ b.length) && (b.take t.1).all (ibanClass t.2) && ibanFields ts (b.drop t.1)

/-- ISO 13616 with the registry `reg` (country code, BBAN fields): at least four characters; a registered country code
of two letters; two decimal check digits; the BBAN has the fields of a registry line of that country;
`BBAN ‖ country code ‖ check digits ≡ 1 (mod 97)` -/
def Std_iban (reg : List (Str × List (Nat × Nat))) (t : Str) : Bool :=
  decide (4 ≤ t.length) && (t.take 2).all isU && ((t.drop 2).take 2).all isD &&
    reg.any (fun r => r.1 == t.take 2 && ibanFields r.2 (t.drop 4)) &&
    numeral ((t.drop 4 ++ t.take 4).map v36) % 97 == 1

/-- the option is off, or the country has no national IBAN validator, or that validator accepts -/
def ibanNationalOk (national : Str → Option (Str → Bool)) (check_country : Bool) (t : Str) : Bool :=
  !check_country || (match national (t.take 2) with
                     | none => true
                     | some f => f t)

/-- `check_country=True`: in addition, the national IBAN validator of the country, where one exists, accepts -/
def Std_iban_cc (reg : List (Str × List (Nat × Nat))) (national : Str → Option (Str → Bool))
    (check_country : Bool) (t : Str) : Bool :=
  Std_iban reg t && ibanNationalOk national check_country t

/-- `[1-9][0-9]*` at the start of `s`: its value and the rest -/
def bbanCount (s : Str) : Option (Nat × Str) :=
  match s with
  | c :: _ =>
    if 49 ≤ c ∧ c ≤ 57 then
      let ds := s.takeWhile isD
      some (ds.foldl (fun acc d => acc * 10 + (d - 48)) 0, s.dropWhile isD)
    else none
  | [] => none

/-- the registry's structure notation: `<count>!<n|a|c>` repeated, nothing else (fuel = length of the string) -/
def parseBbanAux : Nat → Str → Option (List (Nat × Nat))
  | _, [] => some []
  | 0, _ :: _ => none
  | fuel + 1, s =>
    match bbanCount s with
    | some (n, 33 :: k :: rest) =>
      if k = 110 ∨ k = 97 ∨ k = 99 then
        match parseBbanAux fuel rest with
        | some ts => some ((n, k) :: ts)
        | none => none
      else none
    | _ => none

def parseBban (s : Str) : Option (List (Nat × Nat)) := parseBbanAux s.length s

/-- the registry table of a numdb tree: per top-level entry the country code (`low`) and the fields of its `bban`
property (`''` if absent); lines whose structure is not in the notation are not part of the table -/
def ibanRegistryOf (db : List Spec.NumDB.Entry) : List (Str × List (Nat × Nat)) :=
  db.filterMap (fun e => (parseBban (Py.dictGetD e.props [98, 98, 97, 110] [])).map (fun toks => (e.low, toks)))

/-- the table of the shipped `stdnum/iban.dat` (a DATA table shared with the generated code, see above) -/
def ibanRegistry : List (Str × List (Nat × Nat)) := ibanRegistryOf Gen.db_iban.db

def canon_iban (x : Str) : Str := canonOf (Gen.iban.compact x)

/-- the names used in the statement of C07 for IBAN: `ibanCanon x` is the canonical form, `ibanOk … x` the verdict of
the standard on the input `x` -/
abbrev ibanCanon (x : Str) : Str := canon_iban x
abbrev ibanOk (reg : List (Str × List (Nat × Nat))) (national : Str → Option (Str → Bool))
    (check_country : Bool) (x : Str) : Bool := Std_iban_cc reg national check_country (canon_iban x)

/-- `some (canonical form)` when the standard accepts, `none` otherwise -/
def verdict (std : Str → Bool) (canon : Str → Str) (x : Str) : Option Str :=
  if std (canon x) then some (canon x) else none

end Spec.Standards
