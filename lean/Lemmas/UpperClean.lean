import Lemmas.Util
import Lemmas.Strip
/-!
# Lemmas.UpperClean — `upper()` against the character map of `stdnum.util.clean`

`cm` (from `Lemmas.Util`) is the per-character function of the generated `_char_map`.
Question: if `cm d = d` (the character survives `clean` unchanged), is every character of
`chr(d).upper()` again a fixed point of `cm`?  **Not always**: for the 13 code points of
`Uni.upperToCharMapSources` (`ŉ ΐ ΰ ẚ ὐ ὒ ὔ ὖ ῒ ΐ ῢ ΰ ῤ`) the upper-case expansion contains `ʼ` (U+02BC),
`ʾ` (U+02BE) or a combining accent U+0300/0301/0313, which `_char_map` turns into `'`.  So
`clean(clean(s).upper())` can differ from `clean(s).upper()` (`'ŉ'` → `'ʼN'` → `"'N"`).  For every other
code point the answer is yes (`cm_upperC`), in particular for all ASCII input.
-/
namespace Py

/-- the keys of `_char_map` that `cm` changes -/
def cmMovingKeys : List Nat :=
  (Gen.util._char_map.filter (fun p => p.1 != p.2)).map (fun p => p.1.headD 0)

theorem mem_cmMovingKeys {u : Nat} (h : cm u ≠ u) : u ∈ cmMovingKeys := by
  rcases cm_cases u with h' | hm
  · exact absurd h' h
  · unfold cmMovingKeys
    refine List.mem_map.mpr ⟨([u], [cm u]), List.mem_filter.mpr ⟨hm, ?_⟩, rfl⟩
    simp only [bne_iff_ne, ne_eq, List.cons.injEq, and_true]
    exact fun e => h e.symm

/-! ### a bit mask of the moving keys (the kernel evaluates big-number operations in one step, so
"no moving key in the interval `[a, a+n)`" is a single shift-and-mask test instead of a loop) -/

theorem testBit_foldl_or (l : List Nat) (m k : Nat) (h : k ∈ l ∨ m.testBit k = true) :
    (l.foldl (fun m k => m ||| (1 <<< k)) m).testBit k = true := by
  induction l generalizing m with
  | nil => simpa using h
  | cons a t ih =>
    rw [List.foldl_cons]
    apply ih
    rcases h with h | h
    · rcases List.mem_cons.mp h with rfl | h'
      · right; simp [Nat.testBit_or, Nat.testBit_shiftLeft]
      · left; exact h'
    · right; simp [Nat.testBit_or, h]

theorem no_bit_of_window {m a n k : Nat} (h : (m >>> a) % 2 ^ n = 0) (h1 : a ≤ k) (h2 : k < a + n) :
    m.testBit k = false := by
  have := Nat.testBit_mod_two_pow (m >>> a) n (k - a)
  rw [h, Nat.zero_testBit, Nat.testBit_shiftRight] at this
  have e : a + (k - a) = k := by omega
  rw [e, decide_eq_true (by omega : k - a < n)] at this
  simpa using this.symm

/-- bit `k` is set for every moving key `k` -/
def cmMask : Nat := cmMovingKeys.foldl (fun m k => m ||| (1 <<< k)) 0

theorem cmMask_testBit {u : Nat} (h : cm u ≠ u) : cmMask.testBit u = true :=
  testBit_foldl_or _ 0 u (Or.inl (mem_cmMovingKeys h))

theorem cm_of_not_testBit {u : Nat} (h : cmMask.testBit u = false) : cm u = u :=
  Classical.byContradiction fun hne => by rw [cmMask_testBit hne] at h; cases h

namespace Uni

/-- the code points that are fixed by `cm` but whose `upper()` contains a character that `cm` changes -/
def upperToCharMapSources : List Nat :=
  [329, 912, 944, 7834, 8016, 8018, 8020, 8022, 8146, 8147, 8162, 8163, 8164]

/-- every listed code point really is an exception -/
theorem upperToCharMapSources_sound :
    ∀ d ∈ upperToCharMapSources, 128 ≤ d ∧ cm d = d ∧ ∃ u ∈ upperC d, cm u ≠ u := by
  decide +kernel

theorem upperFullTab_cm_check :
    Data.upperFullTab.toList.all (fun e =>
      cm e.1 != e.1 || upperToCharMapSources.contains e.1 || e.2.all (fun u => !cmMask.testBit u)) = true := by
  decide +kernel

/-- a simple upper-case run either has no moving key among its images, or is a single code point that is
itself moved by `cm` or is one of the listed exceptions -/
theorem upper1Tab_cm_check :
    Data.upper1Tab.toList.all (fun e =>
      ((cmMask >>> e.2.2) % 2 ^ (e.2.1 - e.1 + 1) == 0)
      || (e.1 == e.2.1 && (cm e.1 != e.1 || upperToCharMapSources.contains e.1))) = true := by
  decide +kernel

end Uni

/-- `upper()` maps a `cm`-fixed character to `cm`-fixed characters, except for the 13 listed code points -/
theorem cm_upperC {d u : Nat} (hd : cm d = d) (hsrc : d ∉ Uni.upperToCharMapSources)
    (hu : u ∈ Uni.upperC d) : cm u = u := by
  by_cases hlt : d < 128
  · rw [Uni.upperC_ascii' hlt, List.mem_singleton] at hu
    have h96 : d ≠ 96 := by
      intro h; rw [h, cm_96] at hd; omega
    have hul := asciiUpper_lt hlt
    have hu96 : asciiUpper d ≠ 96 := by
      unfold asciiUpper; split <;> omega
    rw [hu]; exact cm_of_ascii_ne hul hu96
  · unfold Uni.upperC at hu
    rw [if_neg hlt] at hu
    split at hu
    · next l hl =>
      have := List.all_eq_true.mp Uni.upperFullTab_cm_check (d, l) (Uni.pointVal_some hl)
      simp only [Bool.or_eq_true, bne_iff_ne, ne_eq, List.contains_iff_mem, List.all_eq_true,
        Bool.not_eq_true'] at this
      rcases this with (h | h) | h
      · exact absurd hd h
      · exact absurd h hsrc
      · exact cm_of_not_testBit (h u hu)
    · simp only [List.mem_singleton] at hu
      cases hr : Uni.runVal Uni.Data.upper1Tab d with
      | none => rw [hr] at hu; simp only [Option.getD_none] at hu; rw [hu]; exact hd
      | some r =>
        rw [hr] at hu; simp only [Option.getD_some] at hu
        obtain ⟨e, he, h1, h2, h3⟩ := Uni.runVal_some hr
        have := List.all_eq_true.mp Uni.upper1Tab_cm_check e he
        simp only [Bool.or_eq_true, beq_iff_eq, Bool.and_eq_true, bne_iff_ne, ne_eq,
          List.contains_iff_mem] at this
        rcases this with h | ⟨h, h'⟩
        · exact cm_of_not_testBit (no_bit_of_window h (by omega) (by omega))
        · have hde : d = e.1 := by omega
          rw [← hde] at h'
          rcases h' with h' | h'
          · exact absurd hd h'
          · exact absurd h' hsrc

/-- string form -/
theorem cm_upper {s : Str} (h : ∀ c ∈ s, cm c = c) (hs : ∀ c ∈ s, c ∉ Uni.upperToCharMapSources) :
    ∀ u ∈ upper s, cm u = u := by
  intro u hu
  obtain ⟨d, hd, hud⟩ := (mem_upper_iff s u).mp hu
  exact cm_upperC (h d hd) (hs d hd) hud

/-- `clean` (without deletions) does not change `s.upper()` when it did not change `s` -/
theorem map_cm_upper {s : Str} (h : ∀ c ∈ s, cm c = c) (hs : ∀ c ∈ s, c ∉ Uni.upperToCharMapSources) :
    (upper s).map cm = upper s := by
  conv => rhs; rw [← List.map_id (upper s)]
  exact List.map_congr_left (fun u hu => cm_upper h hs u hu)

/-- ASCII input has no exceptions -/
theorem cm_upper_ascii {s : Str} (ha : AllIn isAscii s) (h : ∀ c ∈ s, cm c = c) : ∀ u ∈ upper s, cm u = u :=
  cm_upper h (fun c hc hsrc => by
    have := (Uni.upperToCharMapSources_sound c hsrc).1
    have := lt_of_allIn_isAscii ha hc
    omega)

/-- the counterexample: `ŉ` survives `clean`, its upper case `ʼN` does not -/
example : cm 0x149 = 0x149 ∧ upper [0x149] = [0x2BC, 78] ∧ cm 0x2BC = 39 := by decide +kernel

end Py
