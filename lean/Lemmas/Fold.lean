/-!
# Lemmas.Fold — error detection for position-indexed left folds

A checksum is a left fold `run step i s w` of a position-dependent step function over a word.  If the
step function is injective in the state and in the letter (on an invariant set of states `I` and an
alphabet `P`), then two words that differ in exactly one position end in different states
(`detects_subst`); an adjacent transposition is undetected exactly when the two-step results at the place
of the transposition coincide (`swap_iff`), hence never under an anti-symmetry condition (`detects_swap`).

Core Lean only.
-/
namespace Lemmas.Fold
variable {S A : Type}

/-- run a position-dependent step function over a word; the first letter has position `i` -/
def run (step : Nat → S → A → S) : Nat → S → List A → S
  | _, s, [] => s
  | i, s, a :: w => run step (i + 1) (step i s a) w

@[simp] theorem run_nil (step : Nat → S → A → S) (i : Nat) (s : S) : run step i s [] = s := rfl
@[simp] theorem run_cons (step : Nat → S → A → S) (i : Nat) (s : S) (a : A) (w : List A) :
    run step i s (a :: w) = run step (i + 1) (step i s a) w := rfl

theorem run_append (step : Nat → S → A → S) (u v : List A) (i : Nat) (s : S) :
    run step i s (u ++ v) = run step (i + u.length) (run step i s u) v := by
  induction u generalizing i s with
  | nil => simp
  | cons c u ih =>
    simp only [List.cons_append, run_cons, List.length_cons]
    rw [ih]
    congr 1
    omega

/-- `run` is Python's `for i, a in enumerate(w, i): s = step(i, s, a)` -/
theorem run_eq_foldl_zipIdx (step : Nat → S → A → S) (w : List A) (i : Nat) (s : S) :
    run step i s w = (w.zipIdx i).foldl (fun s p => step p.2 s p.1) s := by
  induction w generalizing i s with
  | nil => rfl
  | cons a w ih => simp only [run_cons, List.zipIdx_cons, List.foldl_cons]; exact ih _ _

/-- position-independent step functions: `run` is `List.foldl` -/
theorem run_const (f : S → A → S) (w : List A) (i : Nat) (s : S) :
    run (fun _ => f) i s w = w.foldl f s := by
  induction w generalizing i s with
  | nil => rfl
  | cons a w ih => simp only [run_cons, List.foldl_cons]; exact ih _ _

section
variable (step : Nat → S → A → S) (I : S → Prop) (P : A → Prop)

/-- the invariant is preserved by `run` -/
theorem run_inv (hI : ∀ i s a, I s → P a → I (step i s a)) :
    ∀ (w : List A) (i : Nat) (s : S), (∀ a ∈ w, P a) → I s → I (run step i s w) := by
  intro w
  induction w with
  | nil => intro i s _ h; exact h
  | cons a w ih =>
    intro i s hw hs
    exact ih (i + 1) _ (fun x hx => hw x (List.mem_cons_of_mem _ hx))
      (hI i s a hs (hw a List.mem_cons_self))

/-- different states stay different -/
theorem run_inj_state (hI : ∀ i s a, I s → P a → I (step i s a))
    (hs : ∀ i a s t, I s → I t → P a → step i s a = step i t a → s = t) :
    ∀ (w : List A) (i : Nat) (s t : S), (∀ a ∈ w, P a) → I s → I t →
      run step i s w = run step i t w → s = t := by
  intro w
  induction w with
  | nil => intro i s t _ _ _ h; exact h
  | cons a w ih =>
    intro i s t hw hs' ht' h
    have ha := hw a List.mem_cons_self
    exact hs i a s t hs' ht' ha
      (ih (i + 1) _ _ (fun x hx => hw x (List.mem_cons_of_mem _ hx)) (hI i s a hs' ha) (hI i t a ht' ha) h)

/-- single substitution, local form: it is enough that the two letters are told apart by the step
function at the position of the substitution -/
theorem detects_subst_local (hI : ∀ i s a, I s → P a → I (step i s a))
    (hs : ∀ i a s t, I s → I t → P a → step i s a = step i t a → s = t)
    (u v : List A) (a b : A) (hu : ∀ x ∈ u, P x) (hv : ∀ x ∈ v, P x) (pa : P a) (pb : P b)
    (i : Nat) (s : S) (is : I s)
    (hne : ∀ t, I t → step (i + u.length) t a ≠ step (i + u.length) t b) :
    run step i s (u ++ a :: v) ≠ run step i s (u ++ b :: v) := by
  intro h
  rw [run_append, run_append] at h
  simp only [run_cons] at h
  have iu := run_inv step I P hI u i s hu is
  exact hne _ iu (run_inj_state step I P hI hs v _ _ _ hv (hI _ _ _ iu pa) (hI _ _ _ iu pb) h)

/-- **single substitution**: replacing one letter by a different one changes the final state -/
theorem detects_subst (hI : ∀ i s a, I s → P a → I (step i s a))
    (hs : ∀ i a s t, I s → I t → P a → step i s a = step i t a → s = t)
    (ha : ∀ i s a b, I s → P a → P b → step i s a = step i s b → a = b)
    (u v : List A) (a b : A) (hu : ∀ x ∈ u, P x) (hv : ∀ x ∈ v, P x) (pa : P a) (pb : P b)
    (hab : a ≠ b) (i : Nat) (s : S) (is : I s) :
    run step i s (u ++ a :: v) ≠ run step i s (u ++ b :: v) :=
  detects_subst_local step I P hI hs u v a b hu hv pa pb i s is
    (fun t ht h => hab (ha _ t a b ht pa pb h))

/-- **adjacent transposition**: undetected exactly when the two-step results coincide -/
theorem swap_iff (hI : ∀ i s a, I s → P a → I (step i s a))
    (hs : ∀ i a s t, I s → I t → P a → step i s a = step i t a → s = t)
    (u v : List A) (a b : A) (hu : ∀ x ∈ u, P x) (hv : ∀ x ∈ v, P x) (pa : P a) (pb : P b)
    (i : Nat) (s : S) (is : I s) :
    run step i s (u ++ a :: b :: v) = run step i s (u ++ b :: a :: v) ↔
      step (i + u.length + 1) (step (i + u.length) (run step i s u) a) b =
      step (i + u.length + 1) (step (i + u.length) (run step i s u) b) a := by
  rw [run_append, run_append]
  simp only [run_cons]
  have iu := run_inv step I P hI u i s hu is
  constructor
  · intro h
    exact run_inj_state step I P hI hs v _ _ _ hv
      (hI _ _ _ (hI _ _ _ iu pa) pb) (hI _ _ _ (hI _ _ _ iu pb) pa) h
  · intro h; rw [h]

/-- adjacent transposition under anti-symmetry of consecutive steps -/
theorem detects_swap (hI : ∀ i s a, I s → P a → I (step i s a))
    (hs : ∀ i a s t, I s → I t → P a → step i s a = step i t a → s = t)
    (hanti : ∀ i s a b, I s → P a → P b → a ≠ b →
      step (i + 1) (step i s a) b ≠ step (i + 1) (step i s b) a)
    (u v : List A) (a b : A) (hu : ∀ x ∈ u, P x) (hv : ∀ x ∈ v, P x) (pa : P a) (pb : P b)
    (hab : a ≠ b) (i : Nat) (s : S) (is : I s) :
    run step i s (u ++ a :: b :: v) ≠ run step i s (u ++ b :: a :: v) := by
  intro h
  rw [swap_iff step I P hI hs u v a b hu hv pa pb i s is] at h
  exact hanti _ _ a b (run_inv step I P hI u i s hu is) pa pb hab h

end

/-! ## positions: `List.set` / explicit swap versus the `u ++ a :: v` presentation -/

theorem split_at (w : List A) (i : Nat) (h : i < w.length) :
    w = w.take i ++ w[i] :: w.drop (i + 1) := by
  induction w generalizing i with
  | nil => simp at h
  | cons x w ih =>
    cases i with
    | zero => simp
    | succ i =>
      simp only [List.length_cons, Nat.add_lt_add_iff_right] at h
      simp only [List.take_succ_cons, List.getElem_cons_succ, List.drop_succ_cons, List.cons_append]
      exact congrArg _ (ih i h)

theorem set_eq_split (w : List A) (i : Nat) (b : A) (h : i < w.length) :
    w.set i b = w.take i ++ b :: w.drop (i + 1) := by
  induction w generalizing i with
  | nil => simp at h
  | cons x w ih =>
    cases i with
    | zero => simp
    | succ i =>
      simp only [List.length_cons, Nat.add_lt_add_iff_right] at h
      simp only [List.set_cons_succ, List.take_succ_cons, List.drop_succ_cons, List.cons_append]
      exact congrArg _ (ih i h)

theorem split_at₂ (w : List A) (i : Nat) (h : i + 1 < w.length) :
    w = w.take i ++ w[i] :: w[i + 1] :: w.drop (i + 2) := by
  have h1 := split_at w i (by omega)
  have h2 := split_at (w.drop (i + 1)) 0 (by simp; omega)
  simp only [List.take_zero, List.nil_append, List.getElem_drop, List.drop_drop] at h2
  rw [h2] at h1
  exact h1

end Lemmas.Fold
