import Lemmas.RegexReach
/-!
# Lemmas.RegexGroups — groups that every successful match assigns

`Regex.setsGroup i r` is a syntactic sufficient condition for "every successful run through `r`
assigns capture slot `i`".  `ends_setsGroup` proves it for the engine, and the corollaries say that
`m.group i` / `m.groupR i` / `m.groupNamedR name` of a match object cannot be `None` / raise.
Side conditions on concrete generated patterns are closed by `rfl`/`decide`.
-/
namespace Py.Re

/-- every successful run through `r` assigns capture slot `i` (syntactic sufficient condition) -/
def Regex.setsGroup (i : Nat) : Regex → Bool
  | .group j r => j == i || r.setsGroup i
  | .seq a b => a.setsGroup i || b.setsGroup i
  | .alt a b => a.setsGroup i && b.setsGroup i
  | .rep _ mn _ r => decide (1 ≤ mn) && r.setsGroup i
  | .withFlags _ r => r.setsGroup i
  | _ => false

/-- slot `i` of the capture table holds a span -/
def SlotSet (caps : List (Option (Nat × Nat))) (i : Nat) : Prop :=
  ∃ a b, caps[i]? = some (some (a, b))

theorem SlotSet.lt_length {caps : List (Option (Nat × Nat))} {i : Nat} (h : SlotSet caps i) :
    i < caps.length := by
  obtain ⟨a, b, hab⟩ := h
  exact (List.getElem?_eq_some_iff.mp hab).1

variable [T : UniTables]

/-- the capture table keeps its length -/
theorem ends_caps_length (s : Str) : ∀ (r : Regex) (fl : Flags) (x y : MState), y ∈ ends s fl r x →
    y.caps.length = x.caps.length := by
  intro r
  induction r with
  | empty => intro fl x y h; simp only [ends, List.mem_singleton] at h; subst h; rfl
  | fail => intro fl x y h; simp [ends] at h
  | lit c =>
    intro fl x y h
    obtain ⟨_, _, _, rfl⟩ := mem_stepChar.mp (by simpa [ends] using h); rfl
  | notLit c =>
    intro fl x y h
    obtain ⟨_, _, _, rfl⟩ := mem_stepChar.mp (by simpa [ends] using h); rfl
  | any =>
    intro fl x y h
    obtain ⟨_, _, _, rfl⟩ := mem_stepChar.mp (by simpa [ends] using h); rfl
  | cls neg items =>
    intro fl x y h
    obtain ⟨_, _, _, rfl⟩ := mem_stepChar.mp (by simpa [ends] using h); rfl
  | seq a b iha ihb =>
    intro fl x y h
    simp only [ends, List.mem_flatMap] at h
    obtain ⟨z, hz, hy⟩ := h
    rw [ihb fl z y hy, iha fl x z hz]
  | alt a b iha ihb =>
    intro fl x y h
    simp only [ends, List.mem_append] at h
    rcases h with h | h
    · exact iha fl x y h
    · exact ihb fl x y h
  | rep greedy mn mx r ih =>
    intro fl x y h
    simp only [ends] at h
    exact capOK_repLoop (Q := fun z => z.caps.length = x.caps.length)
      (fun a b hb ha => by rw [ih fl a b hb]; exact ha) _ _ _ _ _ h rfl
  | group j r ih =>
    intro fl x y h
    simp only [ends, List.mem_map] at h
    obtain ⟨z, hz, rfl⟩ := h
    simpa using ih fl x z hz
  | withFlags fl' r ih => intro fl x y h; simp only [ends] at h; exact ih fl' x y h
  | anchor k =>
    intro fl x y h
    simp only [ends] at h
    split at h
    · simp only [List.mem_singleton] at h; subst h; rfl
    · simp at h
  | backref j =>
    intro fl x y h
    simp only [ends] at h
    split at h
    · split at h
      · simp only [List.mem_singleton] at h; subst h; rfl
      · simp at h
    · simp at h
  | look neg r ih =>
    intro fl x y h
    simp only [ends] at h
    split at h
    · split at h
      · simp only [List.mem_singleton] at h; subst h; rfl
      · simp at h
    · rename_i z rest' hr
      split at h
      · simp at h
      · simp only [List.mem_singleton] at h
        subst h
        exact ih fl x z (by rw [hr]; simp)

/-- a slot that holds a span keeps holding one (possibly another) along a run -/
theorem ends_slotSet_mono (s : Str) (i : Nat) : ∀ (r : Regex) (fl : Flags) (x y : MState),
    y ∈ ends s fl r x → SlotSet x.caps i → SlotSet y.caps i := by
  intro r
  induction r with
  | empty => intro fl x y h hx; simp only [ends, List.mem_singleton] at h; subst h; exact hx
  | fail => intro fl x y h; simp [ends] at h
  | lit c =>
    intro fl x y h hx
    obtain ⟨_, _, _, rfl⟩ := mem_stepChar.mp (by simpa [ends] using h); exact hx
  | notLit c =>
    intro fl x y h hx
    obtain ⟨_, _, _, rfl⟩ := mem_stepChar.mp (by simpa [ends] using h); exact hx
  | any =>
    intro fl x y h hx
    obtain ⟨_, _, _, rfl⟩ := mem_stepChar.mp (by simpa [ends] using h); exact hx
  | cls neg items =>
    intro fl x y h hx
    obtain ⟨_, _, _, rfl⟩ := mem_stepChar.mp (by simpa [ends] using h); exact hx
  | seq a b iha ihb =>
    intro fl x y h hx
    simp only [ends, List.mem_flatMap] at h
    obtain ⟨z, hz, hy⟩ := h
    exact ihb fl z y hy (iha fl x z hz hx)
  | alt a b iha ihb =>
    intro fl x y h hx
    simp only [ends, List.mem_append] at h
    rcases h with h | h
    · exact iha fl x y h hx
    · exact ihb fl x y h hx
  | rep greedy mn mx r ih =>
    intro fl x y h hx
    simp only [ends] at h
    exact capOK_repLoop (Q := fun z => SlotSet z.caps i)
      (fun a b hb ha => ih fl a b hb ha) _ _ _ _ _ h hx
  | group j r ih =>
    intro fl x y h hx
    simp only [ends, List.mem_map] at h
    obtain ⟨z, hz, rfl⟩ := h
    have hz' := ih fl x z hz hx
    by_cases hji : j = i
    · subst hji
      exact ⟨x.pos, z.pos, by simp only; rw [List.getElem?_set_self hz'.lt_length]⟩
    · obtain ⟨a, b, hab⟩ := hz'
      exact ⟨a, b, by simp only; rw [List.getElem?_set_ne hji]; exact hab⟩
  | withFlags fl' r ih => intro fl x y h hx; simp only [ends] at h; exact ih fl' x y h hx
  | anchor k =>
    intro fl x y h hx
    simp only [ends] at h
    split at h
    · simp only [List.mem_singleton] at h; subst h; exact hx
    · simp at h
  | backref j =>
    intro fl x y h hx
    simp only [ends] at h
    split at h
    · split at h
      · simp only [List.mem_singleton] at h; subst h; exact hx
      · simp at h
    · simp at h
  | look neg r ih =>
    intro fl x y h hx
    simp only [ends] at h
    split at h
    · split at h
      · simp only [List.mem_singleton] at h; subst h; exact hx
      · simp at h
    · rename_i z rest' hr
      split at h
      · simp at h
      · simp only [List.mem_singleton] at h
        subst h
        exact ih fl x z (by rw [hr]; simp) hx

/-- **mandatory groups**: if `r.setsGroup i`, every state reached through `r` has slot `i` assigned -/
theorem ends_setsGroup (s : Str) (i : Nat) : ∀ (r : Regex) (fl : Flags) (st st' : MState),
    st' ∈ ends s fl r st → r.setsGroup i = true → i < st.caps.length →
    ∃ a b, st'.caps[i]? = some (some (a, b)) := by
  intro r
  induction r with
  | seq a b iha ihb =>
    intro fl st st' h hs hi
    simp only [Regex.setsGroup, Bool.or_eq_true] at hs
    simp only [ends, List.mem_flatMap] at h
    obtain ⟨z, hz, hy⟩ := h
    rcases hs with hs | hs
    · exact ends_slotSet_mono s i b fl z st' hy (iha fl st z hz hs hi)
    · exact ihb fl z st' hy hs (by rw [ends_caps_length s a fl st z hz]; exact hi)
  | alt a b iha ihb =>
    intro fl st st' h hs hi
    simp only [Regex.setsGroup, Bool.and_eq_true] at hs
    simp only [ends, List.mem_append] at h
    rcases h with h | h
    · exact iha fl st st' h hs.1 hi
    · exact ihb fl st st' h hs.2 hi
  | rep greedy mn mx r ih =>
    intro fl st st' h hs hi
    simp only [Regex.setsGroup, Bool.and_eq_true, decide_eq_true_eq] at hs
    simp only [ends] at h
    -- the first iteration is mandatory and sets the slot; the rest of the loop keeps it set
    have hfuel : mn + (s.length - st.pos) + 2 = (mn + (s.length - st.pos) + 1) + 1 := by omega
    rw [hfuel] at h
    unfold repLoop at h
    have hc : 0 < mn := by omega
    simp only [hc, if_true] at h
    obtain ⟨z, hz, hy⟩ := List.mem_flatMap.mp h
    have hzset := ih fl st z hz hs.2 hi
    exact capOK_repLoop (Q := fun w => SlotSet w.caps i)
      (fun a b hb ha => ends_slotSet_mono s i r fl a b hb ha) _ _ _ _ _ hy hzset
  | group j r ih =>
    intro fl st st' h hs hi
    simp only [Regex.setsGroup, Bool.or_eq_true, beq_iff_eq] at hs
    simp only [ends, List.mem_map] at h
    obtain ⟨z, hz, rfl⟩ := h
    have hlen := ends_caps_length s r fl st z hz
    by_cases hji : j = i
    · subst hji
      exact ⟨st.pos, z.pos, by simp only; rw [List.getElem?_set_self (by omega)]⟩
    · rcases hs with hs | hs
      · exact absurd hs hji
      · obtain ⟨a, b, hab⟩ := ih fl st z hz hs hi
        exact ⟨a, b, by simp only; rw [List.getElem?_set_ne hji]; exact hab⟩
  | withFlags fl' r ih =>
    intro fl st st' h hs hi
    simp only [Regex.setsGroup] at hs
    simp only [ends] at h
    exact ih fl' st st' h hs hi
  | empty => intro fl st st' _ hs; simp [Regex.setsGroup] at hs
  | fail => intro fl st st' _ hs; simp [Regex.setsGroup] at hs
  | lit c => intro fl st st' _ hs; simp [Regex.setsGroup] at hs
  | notLit c => intro fl st st' _ hs; simp [Regex.setsGroup] at hs
  | any => intro fl st st' _ hs; simp [Regex.setsGroup] at hs
  | cls neg items => intro fl st st' _ hs; simp [Regex.setsGroup] at hs
  | anchor k => intro fl st st' _ hs; simp [Regex.setsGroup] at hs
  | backref j => intro fl st st' _ hs; simp [Regex.setsGroup] at hs
  | look neg r _ => intro fl st st' _ hs; simp [Regex.setsGroup] at hs

/-! ## match objects -/

theorem Match.FromRun.names_eq {p : Pattern} {s : Str} {m : Match} (hm : m.FromRun p s) :
    m.names = p.names := by
  obtain ⟨_, _, _, rfl⟩ := hm
  rfl

theorem Match.FromRun.subj_eq {p : Pattern} {s : Str} {m : Match} (hm : m.FromRun p s) :
    m.subj = s := by
  obtain ⟨_, _, _, rfl⟩ := hm
  rfl

theorem Match.FromRun.caps_length {p : Pattern} {s : Str} {m : Match} (hm : m.FromRun p s) :
    m.caps.length = p.ngroups + 1 := by
  obtain ⟨start, st, h1, rfl⟩ := hm
  have := ends_caps_length s p.re p.flags _ st h1
  simpa [mkMatch, MState.init] using this

/-- the capture slot of a mandatory group is assigned in every match object -/
theorem Match.caps_of_setsGroup {p : Pattern} {s : Str} {m : Match} (hm : m.FromRun p s) {i : Nat}
    (h : p.re.setsGroup i = true) (hn : i ≤ p.ngroups) :
    ∃ a b, m.caps[i]? = some (some (a, b)) := by
  obtain ⟨start, st, h1, rfl⟩ := hm
  exact ends_setsGroup s i p.re p.flags _ st h1 h (by simp [MState.init]; omega)

theorem Match.group_isSome_of_setsGroup {p : Pattern} {s : Str} {m : Match} (hm : m.FromRun p s)
    {i : Nat} (h : p.re.setsGroup i = true) (hi : 0 < i) (hn : i ≤ p.ngroups) :
    ∃ t, m.group i = some t := by
  obtain ⟨a, b, hab⟩ := Match.caps_of_setsGroup hm h hn
  obtain ⟨i', rfl⟩ : ∃ i', i = i' + 1 := ⟨i - 1, by omega⟩
  exact ⟨slice m.subj a b, by simp [Match.group, Match.span, hab]⟩

theorem Match.groupR_ok_of_setsGroup {p : Pattern} {s : Str} {m : Match} (hm : m.FromRun p s)
    {i : Nat} (h : p.re.setsGroup i = true) (hi : 0 < i) (hn : i ≤ p.ngroups) :
    ∃ t, m.groupR i = .ok t ∧ m.group i = some t := by
  obtain ⟨t, ht⟩ := Match.group_isSome_of_setsGroup hm h hi hn
  have hlen := Match.FromRun.caps_length hm
  refine ⟨t, ?_, ht⟩
  simp only [Match.groupR, show i < m.caps.length by omega, if_true, ht]
  rfl

theorem Match.groupNamedR_ok_of_setsGroup {p : Pattern} {s : Str} {m : Match} (hm : m.FromRun p s)
    {name : Str} {i : Nat} (hname : (p.names.find? (fun q => q.1 == name)).map (·.2) = some i)
    (h : p.re.setsGroup i = true) (hi : 0 < i) (hn : i ≤ p.ngroups) :
    ∃ t, m.groupNamedR name = .ok t ∧ m.group i = some t := by
  obtain ⟨t, h1, h2⟩ := Match.groupR_ok_of_setsGroup hm h hi hn
  have hidx : m.index name = some i := by
    simp only [Match.index, Match.FromRun.names_eq hm]
    exact hname
  exact ⟨t, by simp only [Match.groupNamedR, hidx]; exact h1, h2⟩

/-! example / non-vacuity: `^(?P<a>[0-9]{2})(x)?$` — group 1 is mandatory, group 2 is not -/
private def exRe : Pattern :=
  { re := .seq (.anchor .bol) (.seq (.group 1 (.rep true 2 (some 2) (.cls false [.range 48 57])))
      (.seq (.rep true 0 (some 1) (.group 2 (.lit 120))) (.anchor .eol))),
    ngroups := 2, names := [([97], 1)] }

example (s : Str) (m : Match) (h : search exRe s = some m) : ∃ t, m.groupNamedR [97] = .ok t ∧ m.group 1 = some t :=
  Match.groupNamedR_ok_of_setsGroup (search_fromRun h) rfl rfl (by decide) (by decide)
example : exRe.re.setsGroup 2 = false := rfl
example : (@search UniTables.ascii exRe [52, 50]).bind (·.group 1) = some [52, 50] := by decide
example : (@search UniTables.ascii exRe [52, 50]).bind (·.group 2) = none := by decide

end Py.Re

#print axioms Py.Re.ends_caps_length
#print axioms Py.Re.ends_slotSet_mono
#print axioms Py.Re.ends_setsGroup
#print axioms Py.Re.Match.group_isSome_of_setsGroup
#print axioms Py.Re.Match.groupR_ok_of_setsGroup
#print axioms Py.Re.Match.groupNamedR_ok_of_setsGroup
