import Lemmas.Vc
import Gen.luhn
import Gen.verhoeff
import Gen.iso7064_mod_11_10
import Gen.iso7064_mod_11_2
import Gen.damm
import Gen.iso7064_mod_37_2
import Gen.iso7064_mod_37_36
import Gen.iso7064_mod_97_10
/-!
# Lemmas.Contracts — hand-proved contracts of the generic check-digit modules

The generated per-module proofs (`Props/Auto/C01*.lean`) do not inline these functions; `mvcgen` uses the
triples below instead (`tools/gen_props.py: CONTRACTS`).

* `X.validate` of `luhn`, `verhoeff`, `iso7064.mod_*` wrap the checksum computation in
  `try … except Exception: raise InvalidFormat`, so they raise nothing but validation errors for EVERY input;
* `luhn.checksum`, `luhn.calc_check_digit`, `iso7064.mod_97_10.checksum/calc_check_digits` are total under the
  stated alphabet preconditions.
-/
open Py Std.Do
set_option mvcgen.warning false

namespace Py

/-- every program satisfies the trivial triple (used for code inside `try … except Exception`) -/
theorem any_triple {α : Type} (x : R α) : ⦃⌜True⌝⦄ x ⦃post⟨fun _ => ⌜True⌝, fun _ => ⌜True⌝⟩⦄ :=
  triple_of_holds x _ _ (by unfold Holds; cases x <;> trivial)

/-- add a consequence of `x = ok r` to the success post-condition of a triple -/
theorem triple_and_of_ok {α : Type} {x : R α} {P Q : α → Prop} {E : Exc → Prop}
    (h : ⦃⌜True⌝⦄ x ⦃post⟨fun r => ⌜P r⌝, fun e => ⌜E e⌝⟩⦄) (hq : ∀ r, x = .ok r → Q r) :
    ⦃⌜True⌝⦄ x ⦃post⟨fun r => ⌜P r ∧ Q r⌝, fun e => ⌜E e⌝⟩⦄ := by
  apply triple_of_holds
  have h1 := holds_of_triple x P E h
  unfold Holds at *
  cases hx : x with
  | ok a => rw [hx] at h1; exact ⟨h1, hq a hx⟩
  | error e => rw [hx] at h1; exact h1

end Py

namespace Py
theorem asciiDigitVal36_of_alnum {c : Nat} (h : isAsciiAlnum c = true) : ∃ v, asciiDigitVal36 c = some v ∧ v < 36 := by
  unfold asciiDigitVal36
  simp only [isAsciiAlnum, isAsciiAlpha, isAsciiDigit, isAsciiUpper, isAsciiLower, Bool.or_eq_true, Bool.and_eq_true,
    decide_eq_true_eq] at h ⊢
  split
  · exact ⟨_, rfl, by omega⟩
  · split
    · exact ⟨_, rfl, by omega⟩
    · split
      · exact ⟨_, rfl, by omega⟩
      · omega

theorem sum_length_bounds {l : List Str} {k : Nat} (h : ∀ x ∈ l, 1 ≤ x.length ∧ x.length ≤ k) :
    l.length ≤ (l.map List.length).sum ∧ (l.map List.length).sum ≤ k * l.length := by
  induction l with
  | nil => simp
  | cons a t ih =>
    have h1 := h a (by simp)
    have h2 := ih (fun x hx => h x (by simp [hx]))
    simp only [List.map_cons, List.sum_cons, List.length_cons, Nat.mul_add, Nat.mul_one]
    omega

end Py

namespace Py.Contracts

/-! ## the catch-all validators -/

private theorem luhn_checksum_any (n a : Str) :
    ⦃⌜True⌝⦄ Gen.luhn.checksum n a ⦃post⟨fun _ => ⌜True⌝, fun _ => ⌜True⌝⟩⦄ := any_triple _
private theorem verhoeff_checksum_any (n : Str) :
    ⦃⌜True⌝⦄ Gen.verhoeff.checksum n ⦃post⟨fun _ => ⌜True⌝, fun _ => ⌜True⌝⟩⦄ := any_triple _
private theorem mod_11_10_checksum_any (n : Str) :
    ⦃⌜True⌝⦄ Gen.iso7064_mod_11_10.checksum n ⦃post⟨fun _ => ⌜True⌝, fun _ => ⌜True⌝⟩⦄ := any_triple _
private theorem mod_37_2_checksum_any (n a : Str) :
    ⦃⌜True⌝⦄ Gen.iso7064_mod_37_2.checksum n a ⦃post⟨fun _ => ⌜True⌝, fun _ => ⌜True⌝⟩⦄ := any_triple _
private theorem mod_37_36_checksum_any (n a : Str) :
    ⦃⌜True⌝⦄ Gen.iso7064_mod_37_36.checksum n a ⦃post⟨fun _ => ⌜True⌝, fun _ => ⌜True⌝⟩⦄ := any_triple _
private theorem mod_97_10_checksum_any (n : Str) :
    ⦃⌜True⌝⦄ Gen.iso7064_mod_97_10.checksum n ⦃post⟨fun _ => ⌜True⌝, fun _ => ⌜True⌝⟩⦄ := any_triple _

theorem luhn_validate_spec (number alphabet : Str) :
    ⦃⌜True⌝⦄ Gen.luhn.validate number alphabet
    ⦃post⟨fun r => ⌜r = number ∧ number ≠ []⌝, fun e => ⌜e.isValidation = true⌝⟩⦄ := by
  mvcgen [Gen.luhn.validate, luhn_checksum_any, Py.stateT_pure_apply]
  all_goals (clear_jps; simp_all)

theorem verhoeff_validate_spec (number : Str) :
    ⦃⌜True⌝⦄ Gen.verhoeff.validate number
    ⦃post⟨fun r => ⌜r = number ∧ number ≠ []⌝, fun e => ⌜e.isValidation = true⌝⟩⦄ := by
  mvcgen [Gen.verhoeff.validate, verhoeff_checksum_any, Py.stateT_pure_apply]
  all_goals (clear_jps; simp_all)

private theorem mod_11_10_checksum_nil (n : Str) :
    ⦃⌜True⌝⦄ Gen.iso7064_mod_11_10.checksum n ⦃post⟨fun r => ⌜True ∧ (n = [] → r = 5)⌝, fun _ => ⌜True⌝⟩⦄ :=
  triple_and_of_ok (mod_11_10_checksum_any n) (by
    rintro r h rfl
    have h0 : Gen.iso7064_mod_11_10.checksum [] = .ok 5 := rfl
    rw [h0] at h; cases h; rfl)

theorem mod_11_10_validate_spec (number : Str) :
    ⦃⌜True⌝⦄ Gen.iso7064_mod_11_10.validate number
    ⦃post⟨fun r => ⌜r = number ∧ number ≠ []⌝, fun e => ⌜e.isValidation = true⌝⟩⦄ := by
  mvcgen [Gen.iso7064_mod_11_10.validate, mod_11_10_checksum_nil, Py.stateT_pure_apply]
  all_goals (clear_jps; try simp_all)
  rintro rfl
  rename_i r _ _ h2 h1
  have h1 := h1 rfl
  subst h1
  exact absurd h2 (by decide)

private theorem mod_11_2_checksum_any (n : Str) :
    ⦃⌜True⌝⦄ Gen.iso7064_mod_11_2.checksum n ⦃post⟨fun r => ⌜n = [] → r = 0⌝, fun _ => ⌜True⌝⟩⦄ := by
  apply triple_of_holds
  unfold Holds
  cases h : Gen.iso7064_mod_11_2.checksum n with
  | error e => trivial
  | ok r =>
    rintro rfl
    have : Gen.iso7064_mod_11_2.checksum [] = .ok 0 := rfl
    rw [this] at h
    cases h
    rfl
private theorem damm_checksum_any (n : Str) (t : Option (List (List Int))) :
    ⦃⌜True⌝⦄ Gen.damm.checksum n t ⦃post⟨fun _ => ⌜True⌝, fun _ => ⌜True⌝⟩⦄ := any_triple _

theorem mod_11_2_validate_spec (number : Str) :
    ⦃⌜True⌝⦄ Gen.iso7064_mod_11_2.validate number
    ⦃post⟨fun r => ⌜r = number ∧ number ≠ []⌝, fun e => ⌜e.isValidation = true⌝⟩⦄ := by
  mvcgen [Gen.iso7064_mod_11_2.validate, mod_11_2_checksum_any, Py.stateT_pure_apply]
  all_goals (clear_jps; try simp_all)
  rename_i h1 _ h2
  rintro rfl
  have h1 := h1 rfl
  subst h1
  exact absurd h2 (by decide)

theorem damm_validate_spec (number : Str) (table : Option (List (List Int))) :
    ⦃⌜True⌝⦄ Gen.damm.validate number table
    ⦃post⟨fun r => ⌜r = number ∧ number ≠ []⌝, fun e => ⌜e.isValidation = true⌝⟩⦄ := by
  mvcgen [Gen.damm.validate, damm_checksum_any, Py.stateT_pure_apply]
  all_goals (clear_jps; simp_all)

private theorem mod_37_2_checksum_alpha (n a : Str) :
    ⦃⌜True⌝⦄ Gen.iso7064_mod_37_2.checksum n a ⦃post⟨fun _ => ⌜∀ c ∈ n, a.contains c = true⌝, fun _ => ⌜True⌝⟩⦄ := by
  mvcgen [Gen.iso7064_mod_37_2.checksum, -Py.index_spec, Py.index_pc, -Py.pymod_spec, Py.pymod_pc]
  case inv1 => exact post⟨fun xs => ⌜∀ x ∈ xs.1.prefix, strIn x a = true⌝, fun _ => ⌜True⌝⟩
  case vc1 h1 _ h2 _ _ =>
    simp only [List.mem_append, List.mem_singleton] at *
    rintro x (hx | rfl)
    · exact h1 x hx
    · exact h2.1
  case vc4 => simp
  case vc5 h =>
    intro c hc
    have := h [c] (by simp only []; exact mem_chars.mpr ⟨c, hc, rfl⟩)
    simpa using this
  all_goals trivial

private theorem mod_37_36_checksum_alpha (n a : Str) :
    ⦃⌜True⌝⦄ Gen.iso7064_mod_37_36.checksum n a ⦃post⟨fun _ => ⌜∀ c ∈ n, a.contains c = true⌝, fun _ => ⌜True⌝⟩⦄ := by
  mvcgen [Gen.iso7064_mod_37_36.checksum, -Py.index_spec, Py.index_pc, -Py.pymod_spec, Py.pymod_pc]
  case inv1 => exact post⟨fun xs => ⌜∀ x ∈ xs.1.prefix, strIn x a = true⌝, fun _ => ⌜True⌝⟩
  all_goals first
    | trivial
    | (simp; done)
    | (rename_i h; intro c hc
       have := h [c] (by simp only []; exact mem_chars.mpr ⟨c, hc, rfl⟩)
       simpa using this)
    | (simp only [List.mem_append, List.mem_singleton] at *
       rintro x (hx | rfl)
       · exact (‹∀ x, x ∈ _ → strIn x a = true›) x hx
       · exact (‹strIn _ a = true ∧ _›).1)

/-- what `mod_37_2.validate` accepts consists of characters of the alphabet (every character was looked up) -/
private theorem mod_37_2_checksum_alpha_nil (n a : Str) :
    ⦃⌜True⌝⦄ Gen.iso7064_mod_37_2.checksum n a
    ⦃post⟨fun r => ⌜(∀ c ∈ n, a.contains c = true) ∧ (n = [] → r = 0)⌝, fun _ => ⌜True⌝⟩⦄ :=
  triple_and_of_ok (mod_37_2_checksum_alpha n a) (by
    rintro r h rfl
    have h0 : Gen.iso7064_mod_37_2.checksum [] a = .ok 0 := rfl
    rw [h0] at h; cases h; rfl)

theorem mod_37_2_validate_spec (number alphabet : Str) :
    ⦃⌜True⌝⦄ Gen.iso7064_mod_37_2.validate number alphabet
    ⦃post⟨fun r => ⌜r = number ∧ number.all (fun c => alphabet.contains c) = true ∧ number ≠ []⌝, fun e => ⌜e.isValidation = true⌝⟩⦄ := by
  mvcgen [Gen.iso7064_mod_37_2.validate, mod_37_2_checksum_alpha_nil, Py.stateT_pure_apply]
  all_goals (clear_jps; try simp_all [List.all_eq_true])
  rintro rfl
  rename_i r _ _ h2 h1
  have h1 := h1.2 rfl
  subst h1
  exact absurd h2 (by decide)

theorem mod_37_36_validate_spec (number alphabet : Str) :
    ⦃⌜True⌝⦄ Gen.iso7064_mod_37_36.validate number alphabet
    ⦃post⟨fun r => ⌜r = number ∧ number.all (fun c => alphabet.contains c) = true⌝, fun e => ⌜e.isValidation = true⌝⟩⦄ := by
  mvcgen [Gen.iso7064_mod_37_36.validate, mod_37_36_checksum_alpha, Py.stateT_pure_apply]
  all_goals (clear_jps; simp_all [List.all_eq_true])

private theorem mod_97_10_checksum_ascii (n : Str) :
    ⦃⌜True⌝⦄ Gen.iso7064_mod_97_10.checksum n ⦃post⟨fun _ => ⌜AllIn isAscii n⌝, fun _ => ⌜True⌝⟩⦄ := by
  mvcgen [Gen.iso7064_mod_97_10.checksum, Gen.iso7064_mod_97_10._to_base10, -Py.asciiOnly_spec, Py.asciiOnly_pc,
    -Py.mapM_spec, -Py.mapM_spec2, Py.mapM_pc, -Py.intOf_spec, Py.intOf_pc, -Py.intOfBase_spec, Py.intOfBase_pc]
  all_goals (rename_i h _ _ _ _; exact h.2)

/-- `mod_97_10.validate` never raises anything but validation errors; what it accepts is ASCII
(`.encode('ascii')` inside `_to_base10`) -/
private theorem mod_97_10_checksum_ascii_nil (n : Str) :
    ⦃⌜True⌝⦄ Gen.iso7064_mod_97_10.checksum n ⦃post⟨fun _ => ⌜AllIn isAscii n ∧ n ≠ []⌝, fun _ => ⌜True⌝⟩⦄ :=
  triple_and_of_ok (mod_97_10_checksum_ascii n) (by
    rintro r h rfl
    have h0 : (Gen.iso7064_mod_97_10.checksum []).toBool = false := by decide
    rw [h] at h0
    exact absurd h0 (by simp [Except.toBool]))

theorem mod_97_10_validate_spec (number : Str) :
    ⦃⌜True⌝⦄ Gen.iso7064_mod_97_10.validate number
    ⦃post⟨fun r => ⌜r = number ∧ AllIn isAscii number ∧ number ≠ []⌝, fun e => ⌜e.isValidation = true⌝⟩⦄ := by
  mvcgen [Gen.iso7064_mod_97_10.validate, mod_97_10_checksum_ascii_nil, Py.stateT_pure_apply]
  all_goals (clear_jps; simp_all)


/-! ## `luhn.checksum`, `luhn.calc_check_digit` -/

theorem luhn_checksum_spec (number alphabet : Str)
    (h : alphabet ≠ [] ∧ ∀ c ∈ number, alphabet.contains c = true) :
    ⦃⌜True⌝⦄ Gen.luhn.checksum number alphabet
    ⦃post⟨fun r => ⌜0 ≤ r ∧ r < alphabet.length⌝, fun _ => ⌜False⌝⟩⦄ := by
  have hn : (0 : Int) < alphabet.length := by
    have := List.length_pos_iff.mpr h.1; omega
  mvcgen [Gen.luhn.checksum]
  case vc1 a ha => exact strIn_of_mem_chars (List.mem_reverse.mp ha) h.2
  case vc3 => omega
  case vc4 => intro hr; subst hr; exact fmod_bounds _ hn
  case vc5 => intro _; omega

theorem luhn_calc_check_digit_spec (number alphabet : Str)
    (h : alphabet ≠ [] ∧ ∀ c ∈ number, alphabet.contains c = true) :
    ⦃⌜True⌝⦄ Gen.luhn.calc_check_digit number alphabet
    ⦃post⟨fun r => ⌜∃ c ∈ alphabet, r = [c]⌝, fun _ => ⌜False⌝⟩⦄ := by
  have hn : (0 : Int) < alphabet.length := by
    have := List.length_pos_iff.mpr h.1; omega
  mvcgen [Gen.luhn.calc_check_digit, luhn_checksum_spec]
  case vc1 => omega
  case vc2 r hr =>
    obtain ⟨c, hc, rfl, _⟩ := hr
    refine ⟨h.1, ?_⟩
    intro d hd
    rcases List.mem_append.mp hd with hd | hd
    · exact h.2 d hd
    · rw [List.mem_singleton.mp hd]; simpa using hc
  all_goals (intros; first | omega | skip)
  all_goals (rename_i hr; obtain ⟨c, hc, rfl, _⟩ := hr; exact ⟨c, hc, rfl⟩)

/-! ## `iso7064.mod_97_10` -/

theorem to_base10_Ok (number : Str) (h : AllIn isAsciiAlnum number) :
    Ok (Gen.iso7064_mod_97_10._to_base10 number)
      (fun r => AllIn isAsciiDigit r ∧ number.length ≤ r.length ∧ r.length ≤ 2 * number.length) := by
  unfold Gen.iso7064_mod_97_10._to_base10
  have hasc : asciiOnly number = .ok number := by
    unfold asciiOnly
    rw [if_pos]
    rw [List.all_eq_true]
    intro c hc
    have := isAscii_of_alnum (h c hc)
    simpa using this
  obtain ⟨rs, hrs, hlen, hP⟩ := Ok_mapM (fun (x : Str) => (do pure (Py.strOfInt (← Py.intOfBase x ((36 : Int)).toNat)) : R Str))
    (fun r => AllIn isAsciiDigit r ∧ 1 ≤ r.length ∧ r.length ≤ 2) (chars number) (by
      intro a ha
      obtain ⟨c, hc, rfl⟩ := mem_chars.mp ha
      obtain ⟨v, hv, hlt⟩ := asciiDigitVal36_of_alnum (h c hc)
      refine ⟨strOfInt (v : Int), ?_, ?_, ?_, ?_⟩
      · have : ((36 : Int)).toNat = 36 := rfl
        rw [this, intOfBase_singleton_36 c v hv]; rfl
      · exact strOfInt_allDigits (by omega)
      · rw [strOfInt_natCast]; exact strOfNat_length_pos v
      · rw [strOfInt_natCast]; exact strOfNat_length_le v 2 (by omega) (by omega))
  refine ⟨join [] rs, ?_, ?_, ?_⟩
  · simp only [hasc, bind, Except.bind, pure, Except.pure] at hrs ⊢
    rw [hrs]
  · exact AllIn.join (fun x hx => (hP x hx).1) (Or.inl (by simp))
  · have hb := sum_length_bounds (l := rs) (k := 2) (fun x hx => (hP x hx).2)
    rw [join_length]
    simp only [List.length_nil, Nat.mul_zero, Nat.add_zero]
    rw [chars_length] at hlen
    omega

theorem to_base10_spec (number : Str) (h : AllIn isAsciiAlnum number) :
    ⦃⌜True⌝⦄ Gen.iso7064_mod_97_10._to_base10 number
    ⦃post⟨fun r => ⌜AllIn isAsciiDigit r ∧ number.length ≤ r.length ∧ r.length ≤ 2 * number.length⌝, fun _ => ⌜False⌝⟩⦄ :=
  triple_of_Ok (to_base10_Ok number h)

theorem mod_97_10_checksum_spec (number : Str)
    (h : number ≠ [] ∧ AllIn isAsciiAlnum number ∧ number.length ≤ 2150) :
    ⦃⌜True⌝⦄ Gen.iso7064_mod_97_10.checksum number
    ⦃post⟨fun r => ⌜0 ≤ r ∧ r < 97⌝, fun _ => ⌜False⌝⟩⦄ := by
  have hl := List.length_pos_iff.mpr h.1
  mvcgen [Gen.iso7064_mod_97_10.checksum, to_base10_spec]
  case vc1 => exact h.2.1
  case vc2 r hr =>
    have h1 := hr.2.1; have h2 := hr.2.2; have h3 := h.2.2
    refine ⟨⟨?_, hr.1⟩, by omega⟩
    intro h0; rw [h0] at h1; simp only [List.length_nil] at h1; omega
  case vc3 => intros; omega

theorem mod_97_10_calc_check_digits_spec (number : Str)
    (h : AllIn isAsciiAlnum number ∧ number.length ≤ 2148) :
    ⦃⌜True⌝⦄ Gen.iso7064_mod_97_10.calc_check_digits number
    ⦃post⟨fun r => ⌜AllIn isAsciiDigit r ∧ r.length = 2⌝, fun _ => ⌜False⌝⟩⦄ := by
  mvcgen [Gen.iso7064_mod_97_10.calc_check_digits, mod_97_10_checksum_spec]
  case vc1 =>
    refine ⟨by simp, ?_, by simp; omega⟩
    rw [AllIn.append_iff]; exact ⟨h.1, by decide⟩
  case vc2 r hr =>
    have h1 := hr.1; have h2 := hr.2
    exact ⟨fmtD_allDigits_of_nonneg 2 (by omega), fmtD_length_eq 2 (by omega) (by omega) (by omega)⟩

/-! ## partial-correctness variants (families with exceptional post-condition `True`) -/

theorem luhn_checksum_pc (n a : Str) :
    ⦃⌜True⌝⦄ Gen.luhn.checksum n a ⦃post⟨fun _ => ⌜True⌝, fun _ => ⌜True⌝⟩⦄ := any_pc _

theorem luhn_calc_check_digit_pc (number alphabet : Str) :
    ⦃⌜True⌝⦄ Gen.luhn.calc_check_digit number alphabet
    ⦃post⟨fun r => ⌜∃ c ∈ alphabet, r = [c]⌝, fun _ => ⌜True⌝⟩⦄ := by
  mvcgen [Gen.luhn.calc_check_digit, luhn_checksum_pc, -Py.getItem_spec, -Py.getItem_spec2, Py.getItem_pc]
  all_goals (intros; first | trivial | skip)
  all_goals (rename_i hr; obtain ⟨c, hc, rfl, _⟩ := hr; exact ⟨c, hc, rfl⟩)

theorem mod_97_10_checksum_pc (n : Str) :
    ⦃⌜True⌝⦄ Gen.iso7064_mod_97_10.checksum n ⦃post⟨fun _ => ⌜True⌝, fun _ => ⌜True⌝⟩⦄ := any_pc _

theorem to_base10_pc (n : Str) :
    ⦃⌜True⌝⦄ Gen.iso7064_mod_97_10._to_base10 n ⦃post⟨fun _ => ⌜True⌝, fun _ => ⌜True⌝⟩⦄ := any_pc _

theorem mod_97_10_calc_check_digits_pc (number : Str) :
    ⦃⌜True⌝⦄ Gen.iso7064_mod_97_10.calc_check_digits number
    ⦃post⟨fun r => ⌜AllIn isAscii r⌝, fun _ => ⌜True⌝⟩⦄ := by
  mvcgen [Gen.iso7064_mod_97_10.calc_check_digits, mod_97_10_checksum_pc]
  all_goals (intros; first | trivial | skip)
  all_goals exact (fmtD_allIn _ _ _).of_imp (fun c hc => by
    simp only [isAsciiDigit, Bool.or_eq_true, Bool.and_eq_true, decide_eq_true_eq, beq_iff_eq] at hc
    simp only [isAscii, decide_eq_true_eq]; omega)

end Py.Contracts
