import Lean
import Lemmas.Hoare
import Lemmas.Util
import Lemmas.StrSpecs
import Lemmas.Strip
import Lemmas.Unicode
import Lemmas.Int
open Py Std.Do Lean Elab Tactic

/-- clear the join-point definitions `mvcgen` leaves in the context -/
elab "clear_jps" : tactic => do
  let g ← getMainGoal
  g.withContext do
    let mut g := g
    for ldecl in ← getLCtx do
      if ldecl.isImplementationDetail then continue
      if ldecl.userName.toString.startsWith "__do_jp" || (ldecl.userName.eraseMacroScopes.toString.startsWith "__do_jp") then
        try g ← g.clear ldecl.fvarId catch _ => pure ()
    replaceMainGoal [g]

macro "py_vc0" : tactic => `(tactic| (first | done | trivial | assumption | (simp_all; done) | omega))

/-- The Unicode-table driven functions must never be unfolded by automation (huge literals):
every generated proof file starts with `py_setup`. -/
macro "py_setup" : command => `(attribute [local irreducible] Py.upper Py.lower Py.strip Py.lstrip Py.rstrip
  Py.stripChars Py.lstripChars Py.rstripChars Py.isdigit Py.isalpha Py.isalnum Py.isspace Py.intOf Py.intOfBase
  Py.strOfInt Py.fmtD Py.fmtX Py.cleanP Py.cm)
