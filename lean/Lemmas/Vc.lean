import Lean
import Lemmas.Hoare
import Lemmas.Util
import Lemmas.StrSpecs
import Lemmas.Strip
import Lemmas.Unicode
import Lemmas.Int
import Lemmas.Extra
/-!
# Lemmas.Vc — the tactic `py_vc` that closes the verification conditions `mvcgen` leaves for translated code

Pipeline of `py_vc` (every step is a separate small tactic so that it can be tried in isolation):

1. `py_prep`     intro, unfold the `let`-bound locals, split `∧`/`∃` hypotheses, substitute, normalise Booleans,
                 turn the gates (`isDigitsB s = true`, …) into facts, rewrite re-compaction of accepted strings away;
2. quick closers (`omega`, `simp_all`, …);
3. `py_explode`  if a string has a known numeral length, destructure it into characters and evaluate slices,
                 indexing, `zip`, `enumerate` … on the explicit list;
4. generic closers (lemma library + `grind`).
-/
open Py Std.Do Lean Elab Tactic Meta

namespace Lean.Expr
/-- all subterms satisfying `p` (no duplicates, outermost first) -/
partial def collect (e : Expr) (p : Expr → Bool) : Array Expr :=
  let rec go (e : Expr) (acc : Array Expr) : Array Expr :=
    let acc := if p e && !acc.contains e then acc.push e else acc
    match e with
    | .app f a => go a (go f acc)
    | .lam _ t b _ => go b (go t acc)
    | .forallE _ t b _ => go b (go t acc)
    | .letE _ t v b _ => go b (go v (go t acc))
    | .mdata _ e => go e acc
    | .proj _ _ e => go e acc
    | _ => acc
  go e #[]
end Lean.Expr

/-- `evalTactic` without error recovery: a failing nested `by` block raises instead of logging an error and
continuing with `sorry` (so that `try … catch` and `first` see the failure) -/
def evalTacticNR (stx : Syntax) : TacticM Unit :=
  Term.withoutErrToSorry <| Tactic.withoutRecover <| evalTactic stx

/-- clear the join-point definitions `mvcgen` leaves in the context -/
elab "clear_jps" : tactic => do
  let g ← getMainGoal
  g.withContext do
    let mut g := g
    for ldecl in (← getLCtx).decls.toArray.reverse do
      let some ldecl := ldecl | continue
      if ldecl.isImplementationDetail then continue
      if ldecl.userName.toString.startsWith "__do_jp" || (ldecl.userName.eraseMacroScopes.toString.startsWith "__do_jp") then
        try g ← g.clear ldecl.fvarId catch _ => pure ()
    replaceMainGoal [g]

namespace Py
theorem gen_const {α : Type} {P : α → Prop} (a : α) (h : ∀ x, P x) : P a := h a
end Py

namespace Py.VcImpl
/-- Abstract the constants selected by `sel` (in the goal and in every hypothesis) into universally quantified
variables `pfx0, pfx1, …`.  Unlike `generalize` the proof term keeps the abstraction
(`Py.gen_const P c (fun x => …)`), so neither the elaborator nor the kernel ever sees the constant inside the proof of
the verification conditions. -/
def genConsts (sel : Name → Bool) (pfx : String) : TacticM Unit := do
  let g ← getMainGoal
  let toRevert ← g.withContext do
    let mut r : Array FVarId := #[]
    for ldecl in ← getLCtx do
      if ldecl.isImplementationDetail then continue
      let t ← instantiateMVars ldecl.type
      if (t.find? (fun e => e.isConst && sel e.constName!)).isSome then r := r.push ldecl.fvarId
    return r
  let (rev, g) ← g.revert toRevert (preserveOrder := true)
  replaceMainGoal [g]
  let mut i := 0
  while i < 12 do
    let g ← getMainGoal
    let fin ← g.withContext do
      let tgt ← instantiateMVars (← g.getType)
      let some c := tgt.find? (fun e => e.isConst && sel e.constName!) | return true
      let abst ← kabstract tgt c
      let α ← inferType c
      let P := mkLambda `x__ .default α abst
      let m ← mkFreshExprSyntheticOpaqueMVar (mkForall `x__ .default α abst) (tag := ← g.getTag)
      g.assign (← mkAppOptM ``Py.gen_const #[α, P, c, m])
      let (_, g') ← m.mvarId!.intro (Name.mkSimple s!"{pfx}{i}")
      replaceMainGoal [g']
      return false
    if fin then break
    i := i + 1
  let g ← getMainGoal
  let (_, g) ← g.introNP rev.size
  replaceMainGoal [g]
end Py.VcImpl

/-- abstract the registry constants `Gen.db_*.db` (a parsed 40 KB string) -/
elab "py_gen_db" : tactic => do
  Py.VcImpl.genConsts (fun n => match n with
    | .str (.str (.str .anonymous "Gen") m) "db" => m.startsWith "db_"
    | _ => false) "db__"

/-- abstract the translated functions for which the context has a call equation `Gen.f args = Except.ok r`: the getter is
then verified by rewriting with those equations only, and the kernel cannot unfold the functions when it re-checks the
definitional steps (`match (a, b) with …` reductions) of the rewriting -/
elab "py_gen_fns" : tactic => withMainContext do
  let mut names : Array Name := #[]
  for ldecl in ← getLCtx do
    if ldecl.isImplementationDetail then continue
    let t ← instantiateMVars ldecl.type
    let some (_, lhs, rhs) := t.eq? | continue
    unless rhs.isAppOfArity ``Except.ok 3 do continue
    let fn := lhs.getAppFn
    if fn.isConst && fn.constName!.getRoot == `Gen && !names.contains fn.constName! then
      names := names.push fn.constName!
  let names2 := names
  Py.VcImpl.genConsts (fun n => names2.contains n) "fn__"

/-- rewrite the goal with the call equations `Gen.f args = Except.ok r` in the context (from `Py.graph_spec`) and
evaluate the binds that become `ok r >>= k` -/
syntax "py_rw_calls" (" [" ident,* "]")? : tactic
elab_rules : tactic
| `(tactic| py_rw_calls $[[$ids,*]]?) => withMainContext do
  let g ← getMainGoal
  let mut thms : SimpTheorems := {}
  let mut n := 0
  -- functions to unfold on the way (callees of the getter without a call equation)
  if let some ids := ids then
    for id in ids.getElems do
      try
        let c ← realizeGlobalConstNoOverloadWithInfo id
        thms ← thms.addDeclToUnfold c
      catch _ => pure ()
  for ldecl in ← getLCtx do
    if ldecl.isImplementationDetail then continue
    let t ← instantiateMVars ldecl.type
    let some (_, lhs, rhs) := t.eq? | continue
    unless rhs.isAppOfArity ``Except.ok 3 do continue
    let fn := lhs.getAppFn
    unless (fn.isConst && fn.constName!.getRoot == `Gen) || (fn.isFVar && lhs.isApp) do continue
    thms ← thms.add (.fvar ldecl.fvarId) #[] (mkFVar ldecl.fvarId)
    n := n + 1
  if n == 0 then throwError "py_rw_calls: no call equation in the context"
  thms ← thms.addConst ``Py.ok_bind
  thms ← thms.addConst ``Py.ok_map
  let ctx ← Simp.mkContext (simpTheorems := #[thms]) (congrTheorems := ← getSimpCongrTheorems)
  let (r, _) ← simpGoal g ctx (simplifyTarget := true)
  match r with
  | none => replaceMainGoal []
  | some (_, g') =>
    -- a program that is reduced to a value: `pure` form (for `mvcgen`)
    let mut thms2 : SimpTheorems := {}
    thms2 ← thms2.addConst ``Py.ok_eq_pure
    let ctx2 ← Simp.mkContext (simpTheorems := #[thms2]) (congrTheorems := ← getSimpCongrTheorems)
    try
      let (r2, _) ← simpGoal g' ctx2 (simplifyTarget := true)
      match r2 with
      | none => replaceMainGoal []
      | some (_, g'') => replaceMainGoal [g'']
    catch _ => replaceMainGoal [g']

/-- succeeds iff the goal still contains a weakest-precondition application (`mvcgen` got stuck) -/
elab "py_is_wp" : tactic => withMainContext do
  let tgt ← instantiateMVars (← (← getMainGoal).getType)
  unless (tgt.find? (fun e => e.isConstOf ``Std.Do.wp)).isSome do
    throwError "py_is_wp: no `wp` in the goal"

macro "py_vc0" : tactic => `(tactic| (first | done | trivial | assumption | (simp_all; done) | omega))

/-- The Unicode-table driven functions must never be unfolded by automation (huge literals):
every generated proof file starts with `py_setup`. -/
macro "py_setup" : command => `(attribute [local irreducible] Py.upper Py.lower Py.strip Py.lstrip Py.rstrip
  Py.stripChars Py.lstripChars Py.rstripChars Py.isdigit Py.isalpha Py.isalnum Py.isspace Py.intOf Py.intOfBase
  Py.strOfInt Py.fmtD Py.fmtX Py.cleanP Py.cm)

namespace Py
@[grind →] theorem mem_zip_fst' {α β : Type} {a : α × β} {l1 : List α} {l2 : List β} (h : a ∈ l1.zip l2) : a.1 ∈ l1 :=
  (List.of_mem_zip (a := a.1) (b := a.2) (by simpa using h)).1
@[grind →] theorem mem_zip_snd' {α β : Type} {a : α × β} {l1 : List α} {l2 : List β} (h : a ∈ l1.zip l2) : a.2 ∈ l2 :=
  (List.of_mem_zip (a := a.1) (b := a.2) (by simpa using h)).2
@[grind →] theorem mem_of_mem_reverse' {α : Type} {a : α} {l : List α} (h : a ∈ l.reverse) : a ∈ l := List.mem_reverse.mp h

/-- `int(s[a:b])`-style obligation from the digit gate on `s` and length facts -/
theorem isDigits_slice_le {s : Str} {a b : Option Int} (h : AllIn isAsciiDigit s)
    (hne : loIdx s.length a < hiIdx s.length b) (hlen : hiIdx s.length b - loIdx s.length a ≤ 4300) :
    IsDigits (slice s a b) ∧ (slice s a b).length ≤ 4300 :=
  ⟨IsDigits.slice h hne, by rw [slice_length]; exact hlen⟩

theorem isDigits_of_B {s : Str} (h : isDigitsB s = true) : IsDigits s := (isDigitsB_iff s).mp h
theorem allIn_of_B {s : Str} (h : isDigitsB s = true) : AllIn isAsciiDigit s := ((isDigitsB_iff s).mp h).2
theorem ne_nil_of_B {s : Str} (h : isDigitsB s = true) : 0 < s.length := ((isDigitsB_iff s).mp h).length_pos

theorem mem_of_eq_append_cons {α : Type} {l p s : List α} {c : α} (h : l = p ++ c :: s) : c ∈ l := by
  subst h; simp

theorem contains_digits_of_isAsciiDigit {c : Nat} (h : isAsciiDigit c = true) :
    ([48, 49, 50, 51, 52, 53, 54, 55, 56, 57] : Str).contains c = true := by
  have := isAsciiDigit_iff.mp h
  simp only [List.contains_cons, List.contains_nil, Bool.or_false, Bool.or_eq_true, beq_iff_eq]
  omega

theorem allAlnum_of_digits {s : Str} (h : AllIn isAsciiDigit s) : AllIn isAsciiAlnum s := by
  intro c hc; have := h c hc; simp only [isAsciiAlnum, this, Bool.true_or]

/-- re-cleaning an accepted digit string is the identity (delete set without alphanumerics) -/
theorem cleanP_digits {s d : Str} (h : AllIn isAsciiDigit s) (hd : d.all (fun c => !isAsciiAlnum c) = true) :
    cleanP s d = s :=
  cleanP_of_alnum (allAlnum_of_digits h) (by
    intro c hc
    have := (List.all_eq_true.mp hd) c hc
    cases hx : isAsciiAlnum c
    · rfl
    · rw [hx] at this; cases this)

/-- the same from the Boolean gate, in rewriting form -/
theorem cleanP_of_isDigitsB {s d : Str} (h : isDigitsB s = true) (hd : d.all (fun c => !isAsciiAlnum c) = true) :
    cleanP s d = s := cleanP_digits (allIn_of_B h) hd
theorem upper_of_isDigitsB {s : Str} (h : isDigitsB s = true) : upper s = s := upper_of_asciiDigits (allIn_of_B h)
theorem lower_of_isDigitsB {s : Str} (h : isDigitsB s = true) : lower s = s := lower_of_asciiDigits (allIn_of_B h)
theorem strip_of_isDigitsB {s : Str} (h : isDigitsB s = true) : strip s = s :=
  strip_eq_self_of_asciiDigit s (allIn_of_B h)

/-- a digit gate on `strip (upper x)` etc. is inherited by the string itself when it is re-processed: these are the
rewriting forms used by `py_recompact` -/
theorem isDigitsB_true_iff {s : Str} : isDigitsB s = true ↔ (s ≠ [] ∧ AllIn isAsciiDigit s) := isDigitsB_iff s

theorem digitsVal_two (a b : Nat) : digitsVal [a, b] = ((a : Int) - 48) * 10 + ((b : Int) - 48) := by
  simp [digitsVal]
theorem digitsVal_three (a b c : Nat) :
    digitsVal [a, b, c] = (((a : Int) - 48) * 10 + ((b : Int) - 48)) * 10 + ((c : Int) - 48) := by
  simp [digitsVal]
theorem digitsVal_four (a b c d : Nat) :
    digitsVal [a, b, c, d] = ((((a : Int) - 48) * 10 + ((b : Int) - 48)) * 10 + ((c : Int) - 48)) * 10 + ((d : Int) - 48) := by
  simp [digitsVal]

end Py

/-! ## regular-expression gates -/

syntax "py_nonl" : tactic
/-- the subject of a `$`-anchored match does not end in a newline (it is a `strip()` result, a digit string …) -/
macro_rules | `(tactic| py_nonl) => `(tactic| first
  | exact Py.getLast?_strip_ne _
  | (apply Py.getLast?_slice_some_none_ne; py_nonl)
  | (apply Py.getLast?_upper_ne; py_nonl)
  | exact Py.getLast?_ne_of_allIn ‹AllIn isAsciiDigit _› (by decide)
  | assumption)

namespace Py.VcImpl

/-- evaluate a closed `Nat` term to a numeral -/
def evalNat? (e : Expr) : MetaM (Option Nat) := do
  if e.hasFVar || e.hasMVar then return none
  let v ← whnf e
  match v with
  | .lit (.natVal n) => return some n
  | _ => return v.nat?

/-- evaluate a closed `Option Nat` term -/
def evalOptNat? (e : Expr) : MetaM (Option (Option Nat)) := do
  if e.hasFVar || e.hasMVar then return none
  let v ← whnf e
  if v.isAppOfArity ``Option.some 2 then
    let some n ← evalNat? v.appArg! | return none
    return some (some n)
  else if v.isAppOfArity ``Option.none 1 then return some none
  else return none

/-- `LenIn b (List.length t)` hypothesis `h`: add the numeric bounds `lo ≤ |t|` and `|t| ≤ hi` as numerals -/
def addLenFacts (h : TSyntax `term) (ty : Expr) : TacticM Unit := do
  unless ty.isAppOfArity ``Py.Re.LenIn 2 do return
  let b := ty.getArg! 0
  let n := ty.getArg! 1
  let nStx ← Term.exprToSyntax n
  let bTy ← inferType b
  let some lo ← evalNat? (mkApp3 (mkConst ``Prod.fst [0, 0]) (bTy.getArg! 0) (bTy.getArg! 1) b) | return
  let loStx := Syntax.mkNumLit (Nat.repr lo)
  evalTacticNR (← `(tactic| have hlo__ : $loStx ≤ $nStx := Py.Re.LenIn.lower $h))
  let some (some hi) ← evalOptNat? (mkApp3 (mkConst ``Prod.snd [0, 0]) (bTy.getArg! 0) (bTy.getArg! 1) b) | return
  let hiStx := Syntax.mkNumLit (Nat.repr hi)
  evalTacticNR (← `(tactic| have hhi__ : $nStx ≤ $hiStx := Py.Re.LenIn.upper $h rfl))
  if lo == hi then
    evalTacticNR (← `(tactic| have hleq__ : $nStx = $hiStx := by omega))

end Py.VcImpl

open Py.VcImpl in
/-- turn regex gates into alphabet/length facts:
* `(Re.match_ P S).isSome = true` (or `Re.match_ P S = some m`) gives `S.all (· ∈ charList P)` and bounds on `|S|`;
* `m.groupNamedR name = .ok t` with `Re.match_/search P S = some m` gives the same for the group text `t` -/
elab "py_rx_facts" : tactic => withMainContext do
  let lctx ← getLCtx
  -- match objects: m ↦ (proof of FromRun as syntax)
  let mut runs : Array (Expr × TSyntax `term) := #[]
  for ldecl in lctx do
    if ldecl.isImplementationDetail then continue
    let t ← instantiateMVars ldecl.type
    let some (_, lhs, rhs) := t.eq? | continue
    if rhs.isAppOfArity ``Option.some 2 then
      let m := rhs.appArg!
      let hS ← Term.exprToSyntax (mkFVar ldecl.fvarId)
      if lhs.isAppOfArity ``Py.Re.match_ 3 then
        runs := runs.push (m, ← `(Py.Re.match_fromRun $hS))
      else if lhs.isAppOfArity ``Py.Re.search 3 then
        runs := runs.push (m, ← `(Py.Re.search_fromRun $hS))
  for ldecl in lctx do
    if ldecl.isImplementationDetail then continue
    let t ← instantiateMVars ldecl.type
    let some (_, lhs, rhs) := t.eq? | continue
    let hS ← Term.exprToSyntax (mkFVar ldecl.fvarId)
    -- whole-match gate
    let gate? : Option (TSyntax `term) ←
      if lhs.isAppOfArity ``Option.isSome 2 && rhs.isConstOf ``Bool.true && (lhs.appArg!).isAppOfArity ``Py.Re.match_ 3 then
        pure (some hS)
      else if lhs.isAppOfArity ``Py.Re.match_ 3 && rhs.isAppOfArity ``Option.some 2 then
        pure (some (← `(by rw [$hS:term]; rfl)))
      else pure none
    if let some g := gate? then
      try
        evalTacticNR (← `(tactic| have hrx__ := Py.Re.match_gate (by rfl) (by decide) $g (by py_nonl)))
        evalTacticNR (← `(tactic| have hrxa__ := hrx__.1))
        evalTacticNR (← `(tactic| have hrxl__ := hrx__.2))
        evalTacticNR (← `(tactic| clear hrx__))
        -- numeric bounds
        withMainContext do
          for d in (← getLCtx) do
            if d.isImplementationDetail then continue
            let ty ← instantiateMVars d.type
            if ty.isAppOfArity ``Py.Re.LenIn 2 then
              let dS ← Term.exprToSyntax (mkFVar d.fvarId)
              addLenFacts dS ty
              evalTacticNR (← `(tactic| clear $(⟨dS⟩):term)) <|> pure ()
      catch _ => pure ()
    -- group text
    if lhs.isAppOfArity ``Py.Re.Match.groupNamedR 2 && rhs.isAppOfArity ``Except.ok 3 then
      let m := lhs.getArg! 0
      for (m', run) in runs do
        if m' == m then
          try
            evalTacticNR (← `(tactic| have hrx__ := Py.Re.group_gate_named $run $hS rfl (by decide) rfl (by decide)))
            evalTacticNR (← `(tactic| have hrxa__ := hrx__.1))
            evalTacticNR (← `(tactic| have hrxl__ := hrx__.2))
            evalTacticNR (← `(tactic| clear hrx__))
            withMainContext do
              for d in (← getLCtx) do
                if d.isImplementationDetail then continue
                let ty ← instantiateMVars d.type
                if ty.isAppOfArity ``Py.Re.LenIn 2 then
                  let dS ← Term.exprToSyntax (mkFVar d.fvarId)
                  addLenFacts dS ty
                  evalTacticNR (← `(tactic| clear $(⟨dS⟩):term)) <|> pure ()
          catch _ => pure ()
          break

open Py.VcImpl in
/-- exceptional branch of `m.groupNamedR name`: impossible when the group is mandatory in the pattern -/
elab "py_rx_exc" : tactic => withMainContext do
  let lctx ← getLCtx
  let mut runs : Array (Expr × TSyntax `term) := #[]
  for ldecl in lctx do
    if ldecl.isImplementationDetail then continue
    let t ← instantiateMVars ldecl.type
    let some (_, lhs, rhs) := t.eq? | continue
    if rhs.isAppOfArity ``Option.some 2 then
      let m := rhs.appArg!
      let hS ← Term.exprToSyntax (mkFVar ldecl.fvarId)
      if lhs.isAppOfArity ``Py.Re.match_ 3 then
        runs := runs.push (m, ← `(Py.Re.match_fromRun $hS))
      else if lhs.isAppOfArity ``Py.Re.search 3 then
        runs := runs.push (m, ← `(Py.Re.search_fromRun $hS))
  for ldecl in lctx do
    if ldecl.isImplementationDetail then continue
    let t ← instantiateMVars ldecl.type
    let some (_, lhs, rhs) := t.eq? | continue
    if lhs.isAppOfArity ``Py.Re.Match.groupNamedR 2 && rhs.isAppOfArity ``Except.error 3 then
      let m := lhs.getArg! 0
      let nameS ← Term.exprToSyntax (lhs.getArg! 1)
      let hS ← Term.exprToSyntax (mkFVar ldecl.fvarId)
      for (m', run) in runs do
        if m' == m then
          evalTacticNR (← `(tactic| (
            obtain ⟨t__, ht__, _⟩ := Py.Re.Match.groupNamedR_ok_of_setsGroup (name := $nameS) $run rfl rfl (by decide) (by decide)
            exact absurd (ht__.symm.trans $hS) (by intro hh__; cases hh__))))
          return
  throwError "py_rx_exc: no failing group access"

/-! ## step 1: preparation -/

/-- split every `∧` / `∃` hypothesis -/
elab "py_cases_and" : tactic => liftMetaTactic fun g => do
  let gs ← g.casesRec fun ldecl => do
    if ldecl.isImplementationDetail then return false
    let t ← instantiateMVars ldecl.type
    return t.isAppOfArity ``And 2 || t.isAppOfArity ``Exists 2
  return gs

/-- normalise the Boolean path conditions `mvcgen` records (`¬(!b) = true`, `b = isDigitsB s`) -/
macro "py_norm" : tactic => `(tactic|
  (try simp only [Bool.not_eq_true, Bool.not_eq_eq_eq_not, Bool.not_not, Bool.not_true, Bool.not_false, Bool.not_eq_false,
     bne_iff_ne, ne_eq, Decidable.not_not, beq_iff_eq, Bool.and_eq_true, Bool.or_eq_true, decide_eq_true_eq,
     Bool.false_eq_true, Bool.true_eq_false, not_false_eq_true, not_true_eq_false, Bool.not_eq_true', Bool.not_eq_false', decide_eq_false_iff_not, Bool.or_eq_false_iff,
     Bool.and_eq_false_imp, Classical.not_and_iff_not_or_not, not_or, Classical.not_not, true_and, and_true, List.isEmpty_iff, ne_eq,
     Py.contains_int_two, Py.contains_int_three, Py.contains_int_four, Py.contains_int_two_false,
     Py.contains_int_three_false, Py.contains_int_four_false,
     Py.all_map_strIn_chars, Py.any_map_not_strIn_chars, Py.all_strIn_chars, Py.any_not_strIn_chars,
     Py.forall_digitBelow_iff, Bool.or_false, Bool.false_or] at *))

/-- unfold the `let`-bound locals `mvcgen` introduces for reassigned variables -/
macro "py_zeta" : tactic => `(tactic| (try simp (config := {zetaDelta := true, decide := false}) only [] at *))

/-- once a digit gate `isDigitsB s = true` is known, `compact`-style re-processing of `s` is the identity:
rewrite `cleanP s d`, `upper s`, `strip s` to `s` -/
macro "py_recompact" : tactic => `(tactic|
  (try simp (disch := first | assumption | decide) only
    [Py.cleanP_of_isDigitsB, Py.upper_of_isDigitsB, Py.lower_of_isDigitsB, Py.strip_of_isDigitsB, Py.cleanP_idem, Py.strip_strip,
     Py.cleanP_of_alphabet, Py.strip_of_alphabet, Py.upper_of_alphabet] at *))

/-- forward facts from the gates: `isDigitsB t = true` gives `0 < |t|` and `AllIn isAsciiDigit t` -/
elab "py_facts" : tactic => withMainContext do
  let mut g ← getMainGoal
  -- `dictGetD D k dflt` (integer values) occurring in the goal: small
  let tgt ← instantiateMVars (← g.getType)
  let dterms := (tgt.collect (fun e => e.isAppOfArity ``Py.dictGetD 6) : Array Expr)
  for e in dterms do
    unless (e.getArg! 1).isConstOf ``Int do continue
    let dS ← Term.exprToSyntax (e.getArg! 3)
    let kS ← Term.exprToSyntax (e.getArg! 4)
    let fS ← Term.exprToSyntax (e.getArg! 5)
    try
      evalTacticNR (← `(tactic| have hgd__ := Py.dictGetD_small (D := $dS) $kS $fS (by decide) (by decide)))
    catch _ => pure ()
  -- registry lookups of a non-empty string have at least one part
  let nterms := (tgt.collect (fun e => e.isAppOfArity ``Spec.NumDB.info 2 || e.isAppOfArity ``Spec.NumDB.split 2) : Array Expr)
  for e in nterms do
    let dS ← Term.exprToSyntax (e.getArg! 0)
    let xS ← Term.exprToSyntax (e.getArg! 1)
    let lem := mkIdent (if e.isAppOfArity ``Spec.NumDB.info 2 then ``Py.numdb_info_length_pos else ``Py.numdb_split_length_pos)
    try
      evalTacticNR (← `(tactic| have hnd__ := $lem $dS (n := $xS)
        (List.ne_nil_of_length_pos (by first | assumption | omega | (simp only [List.length_cons]; omega) | (simp (config := {decide := false}) [slice_length, loIdx, hiIdx] at *; omega)))))
    catch _ => pure ()
  g ← getMainGoal
  for ldecl in ← getLCtx do
    if ldecl.isImplementationDetail then continue
    let t ← instantiateMVars ldecl.type
    if t.isAppOfArity ``Membership.mem 5 && (t.getArg! 4).isAppOfArity ``Prod.mk 4 && !(t.getArg! 3).hasFVar then
      let hS ← Term.exprToSyntax (mkFVar ldecl.fvarId)
      try
        setGoals [g]
        evalTacticNR (← `(tactic| have hdv__ := Py.dict_val_small (by decide) $hS))
        g ← getMainGoal
      catch _ => pure ()
      continue
    let some (_, lhs, rhs) := t.eq? | continue
    unless lhs.isAppOfArity ``Py.isDigitsB 1 && rhs.isConstOf ``Bool.true do continue
    let h := mkFVar ldecl.fvarId
    let p1 ← mkAppM ``Py.ne_nil_of_B #[h]
    let p2 ← mkAppM ``Py.allIn_of_B #[h]
    g ← g.withContext do
      let g ← g.assert `hpos__ (← inferType p1) p1
      let (_, g) ← g.intro1
      let g ← g.assert `hall__ (← inferType p2) p2
      let (_, g) ← g.intro1
      pure g
  replaceMainGoal [g]

/-- for-loop cursors: `h : xs = pref ++ cur :: suff` gives `cur ∈ xs` -/
macro "py_cursor" : tactic => `(tactic|
  (try (have hcur__ := Py.mem_of_eq_append_cons ‹_ = _ ++ _ :: _›)))

/-- drop the (trivial) loop-invariant hypotheses: they mention the cursor structure, whose `property` field depends on
the cursor equation and blocks rewriting it -/
elab "py_clear_inv" : tactic => withMainContext do
  let mut g ← getMainGoal
  for ldecl in (← getLCtx).decls.toArray.reverse do
    let some ldecl := ldecl | continue
    if ldecl.isImplementationDetail then continue
    let t ← instantiateMVars ldecl.type
    if (t.find? (fun e => e.isAppOf ``List.Cursor.mk)).isSome then
      try g ← g.clear ldecl.fvarId catch _ => pure ()
  replaceMainGoal [g]

/-- substitute the equations about the variables `mvcgen` introduced (`r✝ = e`), not those about the theorem's own
variables (so that `strip r✝ = v` with `r✝ = cleanP v d` becomes the fixed-point equation `strip (cleanP v d) = v`) -/
elab "py_subst_inacc" : tactic => do
  let mut fuel := 40
  let mut progress := true
  while progress && fuel > 0 do
    fuel := fuel - 1
    progress := false
    let g ← getMainGoal
    let r ← g.withContext do
      for ldecl in ← getLCtx do
        if ldecl.isImplementationDetail then continue
        let t ← instantiateMVars ldecl.type
        let some (_, lhs, rhs) := t.eq? | continue
        for (x, e) in [(lhs, rhs), (rhs, lhs)] do
          if x.isFVar && !e.containsFVar x.fvarId! then
            let d ← x.fvarId!.getDecl
            if d.userName.hasMacroScopes && !d.isLet then
              try
                let (_, g') ← substCore g ldecl.fvarId (symm := x == rhs) (tryToSkip := true)
                return some g'
              catch _ => continue
      return none
    if let some g' := r then
      replaceMainGoal [g']
      progress := true

/-- rewrite with fixed-point equations `T = v` (`v` a variable occurring in `T`, e.g. `strip (cleanP v d) = v` from
`compact v = ok v`): every gate and every re-compaction is then stated about `v` itself -/
elab "py_fixpoint_rw" : tactic => withMainContext do
  for ldecl in ← getLCtx do
    if ldecl.isImplementationDetail then continue
    let t ← instantiateMVars ldecl.type
    let some (_, lhs, rhs) := t.eq? | continue
    unless rhs.isFVar && !lhs.isFVar && lhs.containsFVar rhs.fvarId! do continue
    unless (← whnfR (← inferType rhs)).isAppOfArity ``List 1 do continue
    -- rewrite everywhere except in the equation itself (it is needed again after a nested `mvcgen`)
    let g ← getMainGoal
    try
      let mut thms : SimpTheorems := {}
      thms ← thms.add (.fvar ldecl.fvarId) #[] (mkFVar ldecl.fvarId)
      let ctx ← Simp.mkContext (simpTheorems := #[thms]) (congrTheorems := ← getSimpCongrTheorems)
      let others := (← g.getNondepPropHyps).filter (· != ldecl.fvarId)
      let (r, _) ← simpGoal g ctx (fvarIdsToSimp := others) (simplifyTarget := true)
      match r with
      | none => replaceMainGoal []
      | some (_, g') => replaceMainGoal [g']
    catch _ => pure ()
    return

/-- `re.search` with a `^` pattern is `re.match` -/
macro "py_rx_norm" : tactic => `(tactic|
  (try simp (disch := decide) only [Py.Re.search_eq_match] at *))

/-- two look-ups of the same place, `e = some a` and `e = some b` (the getter repeats an indexing `validate` already
did): identify `a` and `b` -/
elab "py_same_some" : tactic => do
  let mut fuel := 8
  let mut progress := true
  while progress && fuel > 0 do
    fuel := fuel - 1
    progress := false
    let g ← getMainGoal
    let r ← g.withContext do
      let mut seen : Array (Expr × Expr × FVarId) := #[]
      for ldecl in ← getLCtx do
        if ldecl.isImplementationDetail then continue
        let t ← instantiateMVars ldecl.type
        let some (_, lhs, rhs) := t.eq? | continue
        unless rhs.isAppOfArity ``Option.some 2 && rhs.appArg!.isFVar do continue
        for (l', x', h') in seen do
          if l' == lhs && x' != rhs.appArg! then
            let prf ← mkAppM ``Option.some.inj #[← mkEqTrans (← mkEqSymm (mkFVar h')) (mkFVar ldecl.fvarId)]
            let g1 ← g.assert `hss__ (← mkEq x' rhs.appArg!) prf
            let (hv, g2) ← g1.intro1
            try
              let (_, g3) ← substCore g2 hv (symm := true) (tryToSkip := true)
              return some g3
            catch _ =>
              try
                let (_, g3) ← substCore g2 hv (symm := false) (tryToSkip := true)
                return some g3
              catch _ => continue
        seen := seen.push (lhs, rhs.appArg!, ldecl.fvarId)
      return none
    if let some g' := r then
      replaceMainGoal [g']
      progress := true

macro "py_prep" : tactic => `(tactic|
  (intros; py_clear_inv; py_zeta; all_goals (try py_subst_inacc); all_goals (try py_fixpoint_rw); all_goals py_cases_and; all_goals (try subst_vars); all_goals py_norm; all_goals py_cases_and;
   all_goals (try subst_vars); all_goals (try py_same_some); all_goals py_rx_norm; all_goals (try py_rx_facts); all_goals py_recompact; all_goals py_facts; all_goals py_cursor))

/-! ## step 3: strings of known length -/

syntax "py_explode_go " ident : tactic
macro_rules
  | `(tactic| py_explode_go $h) => `(tactic| first
    | (have h0__ := List.eq_nil_of_length_eq_zero $h; subst h0__; try clear $h)
    | (obtain ⟨c, t, hs, h'⟩ := Py.explode_succ $h; subst hs; py_explode_go h'; try clear h'))


namespace Py.VcImpl

/-- is `e` an explicit list `a :: b :: … :: []`? -/
partial def isExplicitList (e : Expr) : Bool :=
  let e := e.consumeMData
  if e.isAppOfArity ``List.nil 1 then true
  else if e.isAppOfArity ``List.cons 3 then isExplicitList e.appArg!
  else false

/-- `List.length T = n` or `↑(List.length T) = n` (numeral `n`): returns `(T, n)` -/
def lenEq? (ty : Expr) : MetaM (Option (Expr × Nat)) := do
  let ty ← instantiateMVars ty
  let some (α, lhs, rhs) := ty.eq? | return none
  let lenArg? (e : Expr) : Option Expr :=
    let e := e.consumeMData
    if e.isAppOfArity ``List.length 2 then some e.appArg! else none
  if α.isConstOf ``Nat then
    let some t := lenArg? lhs | return none
    let some n := rhs.nat? | return none
    return some (t, n)
  else if α.isConstOf ``Int then
    let lhs := lhs.consumeMData
    unless lhs.isAppOfArity ``Nat.cast 3 do return none
    let some t := lenArg? lhs.appArg! | return none
    let some n := rhs.int? | return none
    if n < 0 then return none
    return some (t, n.toNat)
  else return none

end Py.VcImpl

open Py.VcImpl in
/-- destructure every string whose length is a known numeral (≤ 40) into its characters -/
elab "py_explode" : tactic => withMainContext do
  let mut progress := true
  let mut did := false
  let mut fuel := 6
  while progress && fuel > 0 do
    progress := false
    fuel := fuel - 1
    let found ← withMainContext do
      let mut found : Option (Expr × Nat) := none
      for ldecl in ← getLCtx do
        if ldecl.isImplementationDetail then continue
        if let some (t, n) ← lenEq? ldecl.type then
          if !isExplicitList t && n ≤ 40 then
            found := some (t, n); break
      pure found
    if let some (t, n) := found then
      let tStx ← withMainContext <| Term.exprToSyntax t
      let nStx := Syntax.mkNumLit (toString n)
      if t.isFVar then
        evalTacticNR (← `(tactic| have hN__ : List.length $tStx = $nStx := by omega))
        evalTacticNR (← `(tactic| py_explode_go hN__))
      else
        evalTacticNR (← `(tactic| generalize hgen__ : $tStx = s__ at *))
        evalTacticNR (← `(tactic| try clear hgen__))
        evalTacticNR (← `(tactic| have hN__ : List.length s__ = $nStx := by omega))
        evalTacticNR (← `(tactic| py_explode_go hN__))
      progress := true
      did := true
  unless did do throwError "py_explode: no string of known length"

namespace Py.VcImpl
partial def isLenOr (t : Expr) : MetaM Bool := do
  if t.isAppOfArity ``Or 2 then
    return (← isLenOr (t.getArg! 0)) && (← isLenOr (t.getArg! 1))
  else return (← lenEq? t).isSome
end Py.VcImpl

open Py.VcImpl in
/-- case-split hypotheses `len s = 9 ∨ len s = 10` (from `len(number) not in (9, 10)` gates) -/
elab "py_split_len" : tactic => liftMetaTactic fun g => do
  g.casesRec fun ldecl => do
    if ldecl.isImplementationDetail then return false
    let t ← instantiateMVars ldecl.type
    if t.isAppOfArity ``Or 2 then isLenOr t else return false

/-- list constructions only (`zip`, `enumerate`, `chars`, `++`, `reverse` of explicit lists): safe on goals that still
contain operations on a loop variable that has not been case-split yet -/
macro "py_eval0" : tactic => `(tactic|
  (try simp (config := {decide := false}) only [chars_cons, chars_nil, enumerate_cons, enumerate_nil, List.zip_cons_cons,
    List.zip_nil_left, List.zip_nil_right, List.reverse_cons, List.reverse_nil, List.nil_append, List.cons_append,
    Int.reduceAdd, Int.zero_add, Int.add_zero] at *))

/-- evaluate the sequence operations on explicit lists -/
macro "py_eval" : tactic => `(tactic|
  (try simp (config := {decide := false}) only [slice, sliceL, loIdx, hiIdx, normIdx, getItem, getItemL, sliceStepL, everyNth, everyNthGo,
    pyIdx, Option.some.injEq, startswith, endswith, List.isPrefixOf, List.isSuffixOf, Nat.reduceBEq, Nat.reduceBNe,
    Bool.false_and, Bool.and_false, Bool.true_and, Bool.and_true, Bool.false_eq_true,
    chars_cons, chars_nil, enumerate_cons, enumerate_nil, List.zip_cons_cons, List.zip_nil_left, List.zip_nil_right,
    List.reverse_cons, List.reverse_nil, List.nil_append, List.cons_append, List.length_cons, List.length_nil,
    List.take_succ_cons, List.take_zero, List.drop_succ_cons, List.drop_zero, List.take_nil, List.drop_nil,
    Int.toNat_natCast, Int.natCast_add, Int.cast_ofNat_Int,
    List.getElem?_cons_succ, List.getElem?_cons_zero, List.getElem?_nil,
    Nat.reduceAdd, Nat.reduceSub, Nat.reduceMul, Nat.reduceLT, Nat.reduceLeDiff, Nat.reduceSucc,
    Int.reduceAdd, Int.reduceSub, Int.reduceNeg, Int.reduceLT, Int.reduceLE, Int.reduceToNat, Int.reduceMul,
    Int.reduceNegSucc, Int.reduceOfNat,
    if_true, if_false, ite_true, ite_false, Nat.min_def, and_self, and_true, true_and, Nat.lt_irrefl,
    Nat.zero_add, Nat.add_zero, Int.zero_add, Int.add_zero, ge_iff_le, gt_iff_lt, reduceIte,
    Int.natCast_zero, Int.natCast_one, Nat.le_refl, Int.le_refl,
    tupleToList_pair, sumInt_cons, sumInt_nil] at *))

namespace Py.VcImpl
/-- case-split `x ∈ [a, b, c]` for a loop/comprehension variable `x` (not a character) that the goal talks about -/
partial def splitMemLoop (g : MVarId) : MetaM (List MVarId) := g.withContext do
  let tgt ← instantiateMVars (← g.getType)
  let ok (x l : Expr) : MetaM Bool := do
    unless isExplicitList l do return false
    unless x.isFVar do return false
    if (← inferType x).isConstOf ``Nat then return false
    return tgt.containsFVar x.fvarId!
  for ldecl in ← getLCtx do
    if ldecl.isImplementationDetail then continue
    let t ← instantiateMVars ldecl.type
    let hit ←
      if t.isAppOfArity ``Membership.mem 5 then ok (t.getArg! 4) (t.getArg! 3)
      else if t.isAppOfArity ``List.Mem 3 then ok (t.getArg! 1) (t.getArg! 2)
      else pure false
    if hit then
      let subgoals ← g.cases ldecl.fvarId
      return (← subgoals.toList.mapM (fun s => splitMemLoop s.mvarId)).flatten
  return [g]
end Py.VcImpl

open Py.VcImpl in
elab "py_split_mem" : tactic => liftMetaTactic fun g => splitMemLoop g

namespace Py.VcImpl
/-- split hypotheses of the form `(if c then a else b) = x` / `x = (if c then a else b)` -/
partial def splitIteLoop (g : MVarId) (fuel : Nat := 4) : MetaM (List MVarId) := g.withContext do
  if fuel == 0 then return [g]
  for ldecl in ← getLCtx do
    if ldecl.isImplementationDetail then continue
    let t ← instantiateMVars ldecl.type
    let some (_, l, r) := t.eq? | continue
    if l.isAppOfArity ``ite 5 || r.isAppOfArity ``ite 5 then
      if let some gs ← splitLocalDecl? g ldecl.fvarId then
        return (← gs.mapM (fun g' => splitIteLoop g' (fuel - 1))).flatten
  return [g]
end Py.VcImpl

open Py.VcImpl in
elab "py_split_ite" : tactic => liftMetaTactic fun g => splitIteLoop g

namespace Py.VcImpl
/-- length of the longest explicit list literal inside `e` -/
partial def maxListLit (e : Expr) : Nat :=
  let rec len (e : Expr) (n : Nat) : Nat :=
    if e.isAppOfArity ``List.cons 3 then len e.appArg! (n + 1) else n
  let rec go (e : Expr) : Nat :=
    match e with
    | .app f a =>
      if e.isAppOfArity ``List.cons 3 then max (len e 0) (go (e.getArg! 1)) else max (go f) (go a)
    | .lam _ t b _ => max (go t) (go b)
    | .forallE _ t b _ => max (go t) (go b)
    | .letE _ t v b _ => max (go t) (max (go v) (go b))
    | .mdata _ e => go e
    | .proj _ _ e => go e
    | _ => 0
  go e
end Py.VcImpl

open Py.VcImpl in
/-- drop the hypotheses that mention a long literal (an alphabet, a table): arithmetic closers do not need them and
`simp_all` would unfold them -/
elab "py_clear_big" : tactic => withMainContext do
  let mut g ← getMainGoal
  for ldecl in (← getLCtx).decls.toArray.reverse do
    let some ldecl := ldecl | continue
    if ldecl.isImplementationDetail then continue
    let t ← instantiateMVars ldecl.type
    if maxListLit t ≥ 12 then
      try g ← g.clear ldecl.fvarId catch _ => pure ()
  replaceMainGoal [g]

/-- per-character facts from gates on explicit strings -/
macro "py_chars" : tactic => `(tactic|
  ((try simp (config := {decide := false}) only [isDigitsB, IsDigits, List.all_cons, List.all_nil, List.any_cons, List.any_nil,
      List.isEmpty_cons, List.isEmpty_nil, AllIn.cons_iff', AllIn.nil_iff, AllIn.singleton_iff, AllIn.append_iff,
      Bool.and_eq_true, Bool.not_false, Bool.not_true,
      Bool.and_true, Bool.true_and, Bool.or_false, Bool.false_or, ne_eq, List.cons_ne_nil, not_false_eq_true, true_and, and_true,
      strIn_single, List.map_cons, List.map_nil, id, Bool.not_eq_true', Bool.not_eq_false', Bool.or_eq_true,
      Bool.or_eq_false_iff, Bool.and_eq_false_imp, reduceCtorEq, and_self, List.cons.injEq, and_false, false_and,
      not_true_eq_false, List.length_cons, List.length_nil, Nat.reduceAdd, Nat.reduceLeDiff, Nat.reduceLT,
      Bool.false_eq_true, Bool.true_eq_false, Classical.not_not] at *);
   all_goals py_cases_and))

namespace Py
theorem contains_of_isAsciiDigit {A : Str} (hA : (List.range' 48 10).all (fun c => A.contains c) = true) {c : Nat}
    (hc : isAsciiDigit c = true) : A.contains c = true := of_isAsciiDigit (Q := fun c => A.contains c) hA hc
theorem contains_of_isAsciiUpper {A : Str} (hA : (List.range' 65 26).all (fun c => A.contains c) = true) {c : Nat}
    (hc : isAsciiUpper c = true) : A.contains c = true := of_isAsciiUpper (Q := fun c => A.contains c) hA hc
theorem contains_of_contains {A B : Str} (hA : A.all (fun c => B.contains c) = true) {c : Nat}
    (hc : A.contains c = true) : B.contains c = true := of_contains (Q := fun c => B.contains c) hA hc
theorem isAsciiDigit_of_contains {A : Str} (hA : A.all isAsciiDigit = true) {c : Nat}
    (hc : A.contains c = true) : isAsciiDigit c = true := of_contains hA hc
theorem isAsciiAlnum_of_contains {A : Str} (hA : A.all isAsciiAlnum = true) {c : Nat}
    (hc : A.contains c = true) : isAsciiAlnum c = true := of_contains hA hc
end Py

open Py.VcImpl in
/-- goal `Q c = true` for an arbitrary Boolean property `Q` of one character `c`, from `A.contains c = true`
(enumeration of the alphabet `A`), `isAsciiDigit c = true` or `isAsciiUpper c = true` -/
elab "py_char_any" : tactic => withMainContext do
  let g ← getMainGoal
  let tgt ← instantiateMVars (← g.getType)
  let some (_, lhs, rhs) := tgt.eq? | throwError "py_char_any: not an equation"
  unless rhs.isConstOf ``Bool.true do throwError "py_char_any: not `= true`"
  for ldecl in ← getLCtx do
    if ldecl.isImplementationDetail then continue
    let t ← instantiateMVars ldecl.type
    let some (_, l, r) := t.eq? | continue
    unless r.isConstOf ``Bool.true do continue
    -- membership of a one- or two-character string in a table of strings
    if l.isAppOfArity ``List.contains 4 && (l.getArg! 3).isAppOfArity ``List.cons 3 then
      let k := l.getArg! 3
      let tl := k.getArg! 2
      let cands : List (Expr × Name) :=
        if tl.isAppOfArity ``List.nil 1 then [(k.getArg! 1, ``Py.of_contains_single)]
        else if tl.isAppOfArity ``List.cons 3 && (tl.getArg! 2).isAppOfArity ``List.nil 1 then
          [(k.getArg! 1, ``Py.of_contains_pair_fst), (tl.getArg! 1, ``Py.of_contains_pair_snd)]
        else []
      let mut done := false
      for (c, lem) in cands do
        unless c.isFVar && lhs.containsFVar c.fvarId! do continue
        let q ← mkLambdaFVars #[c] lhs
        let qS ← Term.exprToSyntax q
        let hS ← Term.exprToSyntax (mkFVar ldecl.fvarId)
        let lemS := mkIdent lem
        try
          evalTacticNR (← `(tactic| exact $lemS (Q := $qS) (by decide) $hS))
          done := true
          break
        catch _ => continue
      if done then return
      continue
    let (c, lem) ←
      if l.isAppOfArity ``List.contains 4 then pure (l.getArg! 3, ``Py.of_contains)
      else if l.isAppOfArity ``Py.isAsciiDigit 1 then pure (l.getArg! 0, ``Py.of_isAsciiDigit)
      else if l.isAppOfArity ``Py.isAsciiUpper 1 then pure (l.getArg! 0, ``Py.of_isAsciiUpper)
      else if l.isAppOfArity ``Py.dictHas 5 && (l.getArg! 4).isAppOfArity ``List.cons 3
          && ((l.getArg! 4).getArg! 2).isAppOfArity ``List.nil 1 then
        pure ((l.getArg! 4).getArg! 1, ``Py.of_dictHas_single)
      else continue
    unless c.isFVar && lhs.containsFVar c.fvarId! do continue
    let q ← mkLambdaFVars #[c] lhs
    let qS ← Term.exprToSyntax q
    let hS ← Term.exprToSyntax (mkFVar ldecl.fvarId)
    let lemS := mkIdent lem
    try
      evalTacticNR (← `(tactic| exact $lemS (Q := $qS) (by decide) $hS))
      return
    catch _ => continue
  for ldecl in ← getLCtx do
    if ldecl.isImplementationDetail then continue
    let t ← instantiateMVars ldecl.type
    let singleton? (e : Expr) : Option Expr :=
      if e.isAppOfArity ``List.cons 3 && (e.getArg! 2).isAppOfArity ``List.nil 1 then some (e.getArg! 1) else none
    let cand : Option (Expr × Name) :=
      if t.isAppOfArity ``Membership.mem 5 && isExplicitList (t.getArg! 3) then some (t.getArg! 4, ``Py.of_mem)
      else if t.isAppOfArity ``List.Mem 3 && isExplicitList (t.getArg! 2) then some (t.getArg! 1, ``Py.of_mem)
      else match t.eq? with
        | some (_, l, r) =>
          if l.isAppOfArity ``Py.strOfInt 1 then (singleton? r).map (·, ``Py.of_strOfInt_eq)
          else if r.isAppOfArity ``Py.strOfInt 1 then (singleton? l).map (·, ``Py.of_strOfInt_eq')
          else none
        | none => none
    let some (c, lem) := cand | continue
    unless c.isFVar && lhs.containsFVar c.fvarId! do continue
    let q ← mkLambdaFVars #[c] lhs
    let qS ← Term.exprToSyntax q
    let hS ← Term.exprToSyntax (mkFVar ldecl.fvarId)
    let lemS := mkIdent lem
    try
      evalTacticNR (← `(tactic| exact $lemS (Q := $qS) (by decide) $hS))
      return
    catch _ => pure ()
    if lem == ``Py.of_strOfInt_eq || lem == ``Py.of_strOfInt_eq' then
      let lem2S := mkIdent (if lem == ``Py.of_strOfInt_eq then ``Py.of_strOfInt_nonneg_eq else ``Py.of_strOfInt_nonneg_eq')
      try
        evalTacticNR (← `(tactic| exact $lem2S (Q := $qS) (by decide) (by omega) $hS))
        return
      catch _ => pure ()
  throwError "py_char_any: no class fact applies"

/-- goal `Q c = true` for a character class `Q`, from a class fact about the same character -/
macro "py_char" : tactic => `(tactic| first
  | assumption
  | exact Py.contains_of_isAsciiDigit (by decide) ‹_›
  | exact Py.contains_of_isAsciiUpper (by decide) ‹_›
  | (refine Py.isAsciiDigit_of_contains ?_ ‹_›; decide)
  | (refine Py.isAsciiAlnum_of_contains ?_ ‹_›; decide)
  | (refine Py.contains_of_contains ?_ ‹_›; decide)
  | py_char_any)

/-- goal `AllIn isAscii s` (C15) from a gate on the whole string -/
macro "py_ascii" : tactic => `(tactic| first
  | exact Py.allIn_isAscii_of_digits ‹_›
  | exact Py.allIn_isAscii_of_B ‹_›
  | exact Py.allIn_isAscii_of_isasciiS ‹_›
  | exact Py.allIn_of_alphabet ‹_› (by decide)
  | exact Py.allIn_isAscii_of_alnum ‹_›)

namespace Py.VcImpl
/-- the integer literals occurring as first components of pairs in `e` -/
partial def pairKeys (e : Expr) (acc : Array Int := #[]) : Array Int :=
  match e with
  | .app f a =>
    let acc := if e.isAppOfArity ``Prod.mk 4 then
        match (e.getArg! 2).int? with
        | some k => acc.push k
        | none => acc
      else acc
    pairKeys a (pairKeys f acc)
  | .mdata _ e => pairKeys e acc
  | _ => acc
end Py.VcImpl

open Py.VcImpl in
/-- goal `dictHas D e = true` for a literal dictionary with integer keys: `e` is one of the keys (by `omega`) -/
elab "py_dict_has" : tactic => withMainContext do
  let g ← getMainGoal
  let tgt := (← instantiateMVars (← g.getType)).consumeMData
  let some (_, lhs, _) := tgt.eq? | throwError "py_dict_has: not an equation {tgt}"
  let lhs := lhs.consumeMData
  unless lhs.isAppOfArity ``Py.dictHas 5 do throwError "py_dict_has: not dictHas"
  let d := lhs.getArg! 3
  let d' : Expr ← (do
    if d.isConst then
      match ← unfoldDefinition? d with
      | some v => pure v
      | none => pure d
    else pure d)
  let keys := pairKeys d'
  if keys.isEmpty then throwError "py_dict_has: no integer keys"
  evalTacticNR (← `(tactic| try simp only [isAsciiDigit, Bool.and_eq_true, decide_eq_true_eq, Py.digitsVal_two,
    Py.digitsVal_three, Py.digitsVal_four] at *))
  let g ← getMainGoal
  let tgt := (← instantiateMVars (← g.getType)).consumeMData
  let some (_, lhs, _) := tgt.eq? | throwError "py_dict_has: not an equation"
  let eS ← g.withContext <| Term.exprToSyntax (lhs.consumeMData.getArg! 4)
  let mut disj : TSyntax `term ← `(False)
  for k in keys.reverse do
    let kS : TSyntax `term ← if k < 0 then `(-$(Syntax.mkNumLit (Nat.repr k.natAbs))) else `($(Syntax.mkNumLit (Nat.repr k.natAbs)))
    disj ← `($eS = $kS ∨ $disj)
  evalTacticNR (← `(tactic| have hk__ : $disj := by omega))
  evalTacticNR (← `(tactic| repeat' (rcases hk__ with hk__ | hk__)))
  evalTacticNR (← `(tactic| all_goals first | (exact hk__.elim) | (rw [hk__]; decide)))

/-! ## closers -/

macro "py_vc1" : tactic => `(tactic| (first
  | done
  | assumption
  | (simp_all (config := {decide := false}) [slice_length, isDigitsB_iff]; done)
  | (simp_all (config := {decide := false}) [slice_length, isDigitsB_iff]; omega)
  | grind))

macro "py_vc2" : tactic => `(tactic| (first
  | done
  | assumption
  | (simp only [List.length_cons, List.length_nil, Int.natCast_add, Int.cast_ofNat_Int] at *; omega)
  | (simp (config := {decide := false}) at *; omega)
  | (grind [isDigitsB_iff, IsDigits, AllIn, slice_length])
  | (simp_all (config := {decide := false}) [isDigitsB_iff, IsDigits, slice_length]; done)))

macro "py_digits" : tactic => `(tactic|
  (try (have hdg__ := Py.allIn_of_B ‹isDigitsB _ = true›
        try simp only [Py.upper_of_asciiDigits hdg__, Py.strip_eq_self_of_asciiDigit _ hdg__] at *)))

/-- `0 ≤ e` for products/sums of comprehension variables, `int()` results and table entries -/
syntax "py_nonneg" : tactic
macro_rules | `(tactic| py_nonneg) => `(tactic| first
  | assumption
  | omega
  | (refine Py.nonneg_of_mem_zip_fst ?_ ‹_›; decide)
  | (refine Py.nonneg_of_mem_zip_snd ?_ ‹_›; decide)
  | (refine Py.nonneg_of_mem ?_ ‹_›; decide)
  | exact Py.nonneg_of_mem_enumerate (by omega) ‹_›
  | (refine Int.mul_nonneg ?_ ?_ <;> py_nonneg)
  | (refine Int.add_nonneg ?_ ?_ <;> py_nonneg)
  | (refine Int.emod_nonneg _ (by omega)))

syntax "py_vc" : tactic
syntax "py_allin" : tactic
/-- prove `AllIn isAsciiDigit T` by the closure lemmas (slices, strip, zfill, concatenation, `str(n)` for `n ≥ 0` …) -/
macro_rules | `(tactic| py_allin) => `(tactic| first
  | assumption
  | exact Py.allIn_of_B ‹_›
  | exact Py.allIn_of_alphabet ‹_› (by decide)
  | exact Py.allIn_contains_of_digits ‹_› (by decide)
  | exact Py.allIn_of_digits_any ‹_› (by decide)
  | exact Py.allIn_of_digits_any (Py.allIn_of_B ‹_›) (by decide)
  | exact Py.allIn_contains_of_digits (Py.allIn_of_B ‹_›) (by decide)
  | (refine AllIn.slice ?_ _ _; py_allin)
  | (refine AllIn.sliceL ?_ _ _; py_allin)
  | (refine AllIn.strip ?_; py_allin)
  | (refine AllIn.lstrip ?_; py_allin)
  | (refine AllIn.rstrip ?_; py_allin)
  | (refine AllIn.stripChars ?_ _; py_allin)
  | (refine AllIn.lstripChars ?_ _; py_allin)
  | (refine AllIn.zfill ?_ (by decide) _; py_allin)
  | (refine Py.AllIn.cleanP_digits' ?_ _; py_allin)
  | (refine Py.AllIn.upper_digits' ?_; py_allin)
  | (refine AllIn.append ?_ ?_ <;> py_allin)
  | (refine AllIn.join ?_ (Or.inl (by decide))
     intro x__ hx__
     obtain ⟨a__, ha__, hfa__⟩ := (‹∀ r ∈ _, ∃ a ∈ _, _ = Except.ok r›) x__ hx__
     refine Py.post_of_ok ?_ hfa__
     mvcgen
     all_goals (try (mleave; done))
     all_goals (clear_jps; py_vc))
  | (refine Py.allIn_reverse ?_; py_allin)
  | (refine AllIn.repeatStr ?_ _; py_allin)
  | (exact strOfInt_allDigits (by omega))
  | (refine strOfInt_allDigits ?_; py_nonneg)
  | (exact fmtD_allDigits_of_nonneg _ (by omega))
  | (exact AllIn.nil)
  | (decide))

/-- the element of a comprehension over the characters of a digit string is a digit string -/
macro "py_digit_elem" : tactic => `(tactic| first
  | (refine Py.isDigits_of_mem_chars ?_ ‹_›; py_allin)
  | (refine Py.isDigits_of_mem_zip_chars_snd ?_ ‹_›; py_allin)
  | (refine Py.isDigits_of_mem_zip_chars_fst ?_ ‹_›; py_allin)
  | (refine Py.isDigits_of_mem_enumerate_chars ?_ ‹_›; py_allin)
  | (refine Py.isDigits_of_mem_reverse_chars ?_ ‹_›; py_allin)
  | (refine Py.isDigits_of_mem_enumerate_reverse_chars ?_ ‹_›; py_allin)
  | (refine Py.strIn_of_mem_chars' ?_ ‹_›; py_allin)
  | (refine Py.strIn_of_mem_zip_chars_snd ?_ ‹_›; py_allin)
  | (refine Py.strIn_of_mem_zip_chars_fst ?_ ‹_›; py_allin)
  | (refine Py.strIn_of_mem_enumerate_chars ?_ ‹_›; py_allin)
  | (refine Py.strIn_of_mem_reverse_chars ?_ ‹_›; py_allin)
  | (refine Py.strIn_of_mem_enumerate_reverse_chars ?_ ‹_›; py_allin))

/-- the generic closers (no string of known length) -/
macro "py_close_generic" : tactic => `(tactic| (py_digits; first
  | done
  | assumption
  | exact Py.isDigits_of_alphabet ‹_› (by decide) (by omega) (by omega)
  | exact Py.ne_nil_of_endswith ‹_› (by decide)
  | exact Py.ne_nil_of_startswith ‹_› (by decide)
  | py_digit_elem
  | py_allin
  | (simp only [List.length_cons, List.length_nil] at *; omega)
  | (refine Py.isDigits_slice_le (Py.allIn_of_B ‹_›) ?_ ?_ <;> (simp (config := {decide := false}) [loIdx, hiIdx] at * <;> omega))
  | (simp (config := {decide := false}) at *; omega)
  | (grind [isDigitsB_iff, IsDigits, AllIn, slice_length, contains_digits_of_isAsciiDigit])
  | (simp_all (config := {decide := false}) [isDigitsB_iff, IsDigits, slice_length]; done)))

open Py.VcImpl in
/-- fixed-width `^…$` patterns on an exploded subject: per-position character facts (`Py.Re.match_fixed_iff`) -/
elab "py_rx_fixed" : tactic => withMainContext do
  for ldecl in ← getLCtx do
    if ldecl.isImplementationDetail then continue
    let t ← instantiateMVars ldecl.type
    let some (_, lhs, rhs) := t.eq? | continue
    unless lhs.isAppOfArity ``Option.isSome 2 && rhs.isConstOf ``Bool.true do continue
    let m := lhs.appArg!
    unless m.isAppOfArity ``Py.Re.match_ 3 do continue
    let p := m.getArg! 1
    let l := m.getArg! 2
    unless p.isConst && isExplicitList l do continue
    let pS := mkIdent p.constName!
    let hS ← Term.exprToSyntax (mkFVar ldecl.fvarId)
    try
      evalTacticNR (← `(tactic| have hfx__ := ((Py.Re.match_fixed_iff (p := $pS) (ps := _) (k := _) rfl _).mp $hS).1))
      evalTacticNR (← `(tactic| simp only [Py.Re.Regex.fixedAnchored, Py.Re.Regex.fixedTail, Py.Re.Regex.fixed, List.replicate,
        List.flatten, List.append_nil, List.nil_append, List.cons_append, List.flatten_cons, List.flatten_nil, List.append_eq,
        Py.Re.FitsAt, List.getElem?_cons_succ, List.getElem?_cons_zero, Nat.reduceAdd, Option.some.injEq, exists_eq_left',
        and_true, $pS:ident] at hfx__))
      evalTacticNR (← `(tactic| try simp (disch := rfl) only [Py.Re.classMatch_digit, Py.Re.classMatch_upper] at hfx__))
      evalTacticNR (← `(tactic| try simp only [Py.Re.classMatch, Py.Re.litMatch, Py.Re.itemMatch, Py.Re.itemCased, List.any_cons,
        List.any_nil, Bool.false_and, Bool.or_false, Bool.false_or, Bool.false_eq_true, if_false, ite_false, bne_iff_ne, ne_eq,
        Bool.not_eq_false, Bool.or_eq_true, Bool.and_eq_true, decide_eq_true_eq, beq_iff_eq] at hfx__))
    catch _ => pure ()

open Py.VcImpl in
/-- after `py_explode`: explicit strings that are re-compacted (`cleanP L d`, `upper L`, `strip L`): if all characters of
`L` are in `0-9A-Z` the three operations are identities -/
elab "py_recompact36" : tactic => withMainContext do
  let g ← getMainGoal
  let mut es : Array Expr := #[(← instantiateMVars (← g.getType))]
  for ldecl in ← getLCtx do
    if ldecl.isImplementationDetail then continue
    es := es.push (← instantiateMVars ldecl.type)
  let mut lists : Array Expr := #[]
  for e in es do
    for t in e.collect (fun t => (t.isAppOfArity ``Py.cleanP 2 && isExplicitList (t.getArg! 0) && !(t.getArg! 0).isAppOfArity ``List.nil 1)
        || ((t.isAppOfArity ``Py.upper 1 || t.isAppOfArity ``Py.strip 1 || t.isAppOfArity ``Py.lower 1)
             && isExplicitList (t.getArg! 0) && !(t.getArg! 0).isAppOfArity ``List.nil 1)) do
      let l := t.getArg! 0
      unless lists.contains l do lists := lists.push l
  if lists.isEmpty then return
  for l in lists do
    let lS ← Term.exprToSyntax l
    try
      evalTacticNR (← `(tactic| have h36__ : List.all $lS (fun c => Py.alnum36.contains c) = true := by
        (simp only [List.all_cons, List.all_nil, Bool.and_eq_true, Bool.and_true]; (repeat' apply And.intro) <;> (first | py_char_any | decide))))
    catch _ => pure ()
  evalTacticNR (← `(tactic| try simp (disch := first | assumption | decide) only
    [Py.cleanP_of_alphabet, Py.strip_of_alphabet, Py.upper_of_alphabet] at *))

/-- goal about `(Spec.NumDB.info db L).length` for an explicit non-empty `L` (after `py_explode`) -/
elab "py_numdb" : tactic => withMainContext do
  let g ← getMainGoal
  let tgt ← instantiateMVars (← g.getType)
  let nterms := (tgt.collect (fun e => (e.isAppOfArity ``Spec.NumDB.info 2 || e.isAppOfArity ``Spec.NumDB.split 2)
    && (e.getArg! 1).isAppOfArity ``List.cons 3) : Array Expr)
  if nterms.isEmpty then throwError "py_numdb: no registry lookup in the goal"
  for e in nterms do
    let dS ← Term.exprToSyntax (e.getArg! 0)
    let xS ← Term.exprToSyntax (e.getArg! 1)
    let lem := mkIdent (if e.isAppOfArity ``Spec.NumDB.info 2 then ``Py.numdb_info_length_pos else ``Py.numdb_split_length_pos)
    evalTacticNR (← `(tactic| have hnd__ := $lem $dS (n := $xS) (List.cons_ne_nil _ _)))
  evalTacticNR (← `(tactic| omega))

/-- `(k == c)` for a literal `k` and a character `c` whose class excludes `k` (a digit compared with a letter of a
prefix that `compact` strips): rewrite to `false` -/
elab "py_beq_lit" : tactic => withMainContext do
  let g ← getMainGoal
  let tgt ← instantiateMVars (← g.getType)
  let isLit (e : Expr) : Bool := e.isRawNatLit || (e.isAppOfArity ``OfNat.ofNat 3 && (e.getArg! 1).isRawNatLit)
  let terms := (tgt.collect (fun e => e.isAppOfArity ``BEq.beq 4 &&
    ((isLit (e.getArg! 2) && (e.getArg! 3).isFVar) || (isLit (e.getArg! 3) && (e.getArg! 2).isFVar))) : Array Expr)
  for t in terms do
    let tS ← Term.exprToSyntax t
    try
      evalTacticNR (← `(tactic| have hbl__ : $tS = false := by
        have hq__ : (!$tS) = true := by py_char_any
        simpa using hq__))
      evalTacticNR (← `(tactic| simp only [hbl__, Bool.false_and, Bool.and_false, Bool.false_eq_true, if_false, ite_false] at *))
      evalTacticNR (← `(tactic| try clear hbl__))
    catch _ => pure ()

open Py.VcImpl in
/-- `D.get(c, c)` for a transliteration table `D` and a character `c` of a known class that `D` does not touch
(ASCII digits under an Arabic-digit table …): it is `c` -/
elab "py_dict_id" : tactic => withMainContext do
  let g ← getMainGoal
  let mut es : Array Expr := #[(← instantiateMVars (← g.getType))]
  for ldecl in ← getLCtx do
    if ldecl.isImplementationDetail then continue
    es := es.push (← instantiateMVars ldecl.type)
  let single? (e : Expr) : Option Expr :=
    if e.isAppOfArity ``List.cons 3 && (e.getArg! 2).isAppOfArity ``List.nil 1 && (e.getArg! 1).isFVar then some (e.getArg! 1) else none
  let mut seen : Array Expr := #[]
  for e in es do
    for t in e.collect (fun t => t.isAppOfArity ``Py.dictGetD 6) do
      if seen.contains t then continue
      seen := seen.push t
      let some c := single? (t.getArg! 4) | continue
      unless t.getArg! 4 == t.getArg! 5 && !(t.getArg! 3).hasFVar do continue
      let tS ← Term.exprToSyntax t
      let kS ← Term.exprToSyntax (t.getArg! 4)
      let _ := c
      try
        evalTacticNR (← `(tactic| have hdi__ : $tS = $kS := by
          have hq__ : ($tS == $kS) = true := by py_char_any
          exact eq_of_beq hq__))
        evalTacticNR (← `(tactic| simp only [hdi__] at *))
        evalTacticNR (← `(tactic| try clear hdi__))
      catch _ => pure ()

/-- closers after `py_explode; py_eval`: everything is about explicit characters -/
macro "py_close_concrete1" : tactic => `(tactic| (first
  | done
  | assumption
  | omega
  | py_char
  | decide
  | py_dict_has
  | py_numdb
  | (py_clear_big; simp_all (config := {decide := false}) [isDigitsB, IsDigits, Py.digitsVal_two, Py.digitsVal_three, Py.digitsVal_four]; done)
  | (py_clear_big; simp_all (config := {decide := false}) [isDigitsB, IsDigits, Py.digitsVal_two, Py.digitsVal_three, Py.digitsVal_four]; omega)))

macro "py_close_concrete" : tactic => `(tactic|
  (py_rx_fixed; py_chars; all_goals (try subst_vars);
   all_goals (py_split_ite <;> (try py_chars)); all_goals (try subst_vars); all_goals (try py_recompact36);
   all_goals (try simp (disch := omega) only [Py.strOfInt_digit] at *); all_goals (try py_eval); all_goals (try subst_vars);
   all_goals (py_split_mem <;> py_split_ite <;> (py_chars; all_goals (try subst_vars); all_goals first
    | done
    | py_close_concrete1
    | ((repeat' apply And.intro) <;> py_close_concrete1)))))

/-- exception bookkeeping: `e = .valueError`, `¬ e.caughtBy .valueError` … -/
macro "py_exc" : tactic => `(tactic|
  (simp (config := {decide := true}) only [Exc.caughtBy, Exc.isValidation, Classical.not_not, not_true_eq_false,
     false_and, and_false] at *; done))

macro "py_vc3" : tactic => `(tactic| (py_prep; all_goals first
  | done
  | exact True.intro
  | assumption
  | omega
  | py_exc
  | py_rx_exc
  | py_ascii
  | exact Py.dictHas_iff.mpr ⟨_, ‹_›⟩
  | (py_split_len <;> (py_explode; py_eval0; all_goals (py_split_mem <;> (py_eval; all_goals (try subst_vars); all_goals py_close_concrete))))
  | py_close_generic))

namespace Py
theorem startswith_false_of_digits {v p : Str} (hv : AllIn isAsciiDigit v)
    (hp : (p.head?.map isAsciiDigit) = some false) : startswith v p = false := by
  cases p with
  | nil => simp at hp
  | cons a t =>
    simp only [List.head?_cons, Option.map_some, Option.some.injEq] at hp
    cases hs : startswith v (a :: t) with
    | false => rfl
    | true =>
      obtain ⟨u, rfl⟩ := startswith_iff.mp hs
      have := hv a (by simp)
      rw [hp] at this; cases this
end Py

/-- `compact v = ok v` for a digit string `v` (`h : IsDigits v`), after `unfold compact` -/
macro "py_compact_digits " h:ident : tactic => `(tactic|
  (have hd__ := ($h).2
   simp (disch := first | assumption | decide) only [Py.clean_eq, bind, Except.bind, pure, Except.pure,
      Py.cleanP_digits, Py.upper_of_asciiDigits, Py.lower_of_asciiDigits, Py.strip_eq_self_of_asciiDigit,
      Py.startswith_false_of_digits, Bool.false_eq_true, if_false, ite_false, reduceIte]))

/-- C12g: validate returned its argument (`h : compact-expression = v`): state every gate about `v` itself -/
macro "py_getter_eq " h:ident : tactic => `(tactic| (try simp only [$h:ident] at *))

/-- C12g (summary variant): the returned string satisfies the top-level gates -/
macro "py_gates" : tactic => `(tactic| (py_prep; all_goals first
  | done
  | exact True.intro
  | assumption
  | ((repeat' apply And.intro) <;> first | assumption | omega | (simp_all; done))
  | (simp_all; done)))

/-- C05g: the generator's result and the check character(s) are in the context as equations -/
macro "py_c05" : tactic => `(tactic| (py_prep; all_goals first
  | done
  | exact True.intro
  | assumption
  | (refine ⟨_, ?_, ?_⟩ <;> assumption)
  | (simp_all; done)))

open Py.VcImpl in
/-- goal `… = Except.ok L` with an explicit string `L`: record that all its characters are in `0-9A-Z` (if so) -/
elab "py_alnum36" : tactic => withMainContext do
  let g ← getMainGoal
  let tgt := (← instantiateMVars (← g.getType)).consumeMData
  let some (_, _, rhs) := tgt.eq? | return
  let rhs := rhs.consumeMData
  let l := if rhs.isAppOfArity ``Except.ok 3 then rhs.appArg! else rhs
  unless isExplicitList l do return
  let lS ← Term.exprToSyntax l
  try
    evalTacticNR (← `(tactic| have h36__ : List.all $lS (fun c => Py.alnum36.contains c) = true := by
      (simp only [List.all_cons, List.all_nil, Bool.and_eq_true, Bool.and_true]; (repeat' apply And.intro) <;> (first | py_char_any | decide))))
  catch _ => pure ()

/-! ## C04v: re-compacting a formatted number (`compact (format v) = v`) -/
namespace Py

theorem all_contains_slice {A s : Str} (hs : s.all (fun c => A.contains c) = true) (a b : Option Int) :
    (slice s a b).all (fun c => A.contains c) = true := by
  rw [List.all_eq_true] at *
  intro c hc
  exact hs c (mem_slice hc)

/-- the pieces `format` cuts an accepted digit string into survive `clean` unchanged -/
theorem cleanP_slice_digits {s d : Str} (a b : Option Int) (h : AllIn isAsciiDigit s)
    (hd : d.all (fun c => !isAsciiAlnum c) = true) : cleanP (slice s a b) d = slice s a b :=
  cleanP_digits (AllIn.slice h a b) hd

theorem cleanP_slice_isDigitsB {s d : Str} (a b : Option Int) (h : isDigitsB s = true)
    (hd : d.all (fun c => !isAsciiAlnum c) = true) : cleanP (slice s a b) d = slice s a b :=
  cleanP_slice_digits a b (allIn_of_B h) hd

theorem cleanP_slice_alphabet {A s d : Str} (a b : Option Int) (hs : s.all (fun c => A.contains c) = true)
    (hA : A.all (fun c => decide (c < 128) && (c != 96) && !d.contains c) = true) :
    cleanP (slice s a b) d = slice s a b :=
  cleanP_of_alphabet (all_contains_slice hs a b) hA

theorem slice_zero_none (s : Str) : slice s (some 0) none = s := by
  simp [slice, sliceL, loIdx, hiIdx, normIdx]

theorem slice_zero_some (s : Str) (b : Int) : slice s (some 0) (some b) = slice s none (some b) := by
  simp [slice, sliceL, loIdx, hiIdx, normIdx]

theorem slice_none_some_ge (s : Str) {k : Int} (h : (s.length : Int) ≤ k) : slice s none (some k) = s := by
  have hk : ¬ k < 0 := by omega
  simp only [slice, sliceL, loIdx, hiIdx, normIdx, if_neg hk, List.drop_zero, Nat.sub_zero]
  apply List.take_of_length_le
  omega

theorem slice_some_some_ge (s : Str) {a k : Int} (h : (s.length : Int) ≤ k) : slice s (some a) (some k) = slice s (some a) none := by
  have hk : ¬ k < 0 := by omega
  have hm : min k.toNat s.length = s.length := by omega
  simp only [slice, sliceL, loIdx, hiIdx, normIdx, if_neg hk, hm]

theorem getItem_neg_eq_slice (s : Str) {k : Int} (hk : k < -1) (h : -k ≤ s.length) :
    getItem s k = .ok (slice s (some k) (some (k + 1))) := by
  have e1 : getItem s k = getItem s (s.length + k) := by
    unfold getItem getItemL
    have h1 : k < 0 := by omega
    have h2 : ¬ ((s.length : Int) + k < 0) := by omega
    simp only [if_pos h1, if_neg h2]
  have e2 : slice s (some k) (some (k + 1)) = slice s (some (s.length + k)) (some (s.length + k + 1)) := by
    have h1 : k < 0 := by omega
    have h1' : k + 1 < 0 := by omega
    have h2 : ¬ ((s.length : Int) + k < 0) := by omega
    have h3 : ¬ ((s.length : Int) + k + 1 < 0) := by omega
    simp only [slice, sliceL, loIdx, hiIdx, normIdx, if_pos h1, if_pos h1', if_neg h2, if_neg h3]
    congr 2 <;> omega
  rw [e1, e2, getItem_eq_slice s (by omega) (by omega)]

theorem getItem_neg_one_eq_slice' (s : Str) (h : 0 < s.length) : getItem s (-1) = .ok (slice s (some (-1)) none) :=
  getItem_neg_one_eq_slice s (List.ne_nil_of_length_pos h)
theorem zfill_idem (s : Str) (w : Int) : zfill (zfill s w) w = zfill s w :=
  zfill_eq_self (by rw [zfill_length]; omega)

/-- the separators `format` inserts are deleted by `clean` -/
theorem cleanP_sep_nil {s d : Str} (h : s.all (fun c => decide (c < 128) && (c != 96) && d.contains c) = true) :
    cleanP s d = [] := by
  induction s with
  | nil => rfl
  | cons c t ih =>
    simp only [List.all_cons, Bool.and_eq_true, decide_eq_true_eq, bne_iff_ne, ne_eq] at h
    rw [cleanP_cons, cm_of_ascii_ne h.1.1.1 h.1.1.2, if_pos h.1.2]
    exact ih (by simpa using h.2)

end Py

/-- evaluate an unfolded `compact` under the path conditions and the gates in the context -/
macro "py_compact_eval" : tactic => `(tactic|
  (simp (disch := first | assumption | decide | omega) only [Py.clean_eq, bind, Except.bind, pure, Except.pure,
      Py.cleanP_of_isDigitsB, Py.upper_of_isDigitsB, Py.lower_of_isDigitsB, Py.strip_of_isDigitsB,
      Py.cleanP_digits, Py.upper_of_asciiDigits, Py.lower_of_asciiDigits, Py.strip_eq_self_of_asciiDigit,
      Py.cleanP_of_alphabet, Py.strip_of_alphabet, Py.upper_of_alphabet,
      Py.cleanP_idem, Py.strip_strip, Py.lstripChars_idem, Py.rstripChars_idem, Py.stripChars_idem, Py.lstrip_idem,
      Py.rstrip_idem, Py.zfill_eq_self, Py.zfill_idem, Py.startswith_false_of_digits,
      Bool.false_eq_true, if_false, ite_false, if_true, ite_true, reduceIte, *]))

/-- C02i: at the return point of validate (all gates in the context) the returned string `T` is what compact gives for
the input and is a fixed point of compact and of strip -/
macro "py_c02 " f:ident : tactic => `(tactic| (py_prep; all_goals first
  | done
  | exact True.intro
  | (refine ⟨?_, ?_, ?_⟩
     · (unfold $f:ident; first | rfl | (py_compact_eval; first | done | rfl))
     · first
       | (unfold $f:ident; py_compact_eval; first | done | rfl)
       | (py_split_len <;> (py_explode; py_eval; all_goals (try subst_vars); all_goals py_chars; all_goals (try subst_vars); all_goals (py_split_ite <;> (try py_chars)); all_goals (try subst_vars); all_goals py_alnum36; all_goals (unfold $f:ident); all_goals py_compact_eval; all_goals (first | done | rfl | (py_eval; first | done | rfl | (py_beq_lit; first | done | rfl) | ((try simp only [List.map_cons, List.map_nil]); py_dict_id; (try simp only [Py.join, List.intersperse, List.flatten_cons, List.flatten_nil, List.append_nil, List.nil_append, List.cons_append, List.intercalate]); (try py_eval); first | done | rfl)))))
     · first
       | exact Py.strip_strip _
       | exact Py.strip_of_isDigitsB ‹_›
       | exact Py.strip_eq_self_of_asciiDigit _ ‹_›
       | exact Py.strip_of_alphabet ‹_› (by decide)
       | (simp (disch := first | assumption | decide) only [Py.strip_strip, Py.strip_of_isDigitsB, Py.strip_of_alphabet]; done)
       | (py_split_len <;> (py_explode; py_eval; all_goals (try subst_vars); all_goals py_chars; all_goals (try subst_vars); all_goals (py_split_ite <;> (try py_chars)); all_goals (try subst_vars); all_goals py_alnum36; all_goals (first | done | exact Py.strip_of_alphabet ‹_› (by decide)))))))

/-- the same with the first conjunct `compact v0 = ok T` (evaluate compact under the path conditions) -/
macro "py_gates_c " f:ident : tactic => `(tactic| (py_prep; all_goals first
  | done
  | exact True.intro
  | (refine ⟨?_, ?_⟩
     · ((try unfold $f:ident); first | rfl | (py_compact_eval; first | done | rfl))
     · first
       | assumption
       | ((repeat' apply And.intro) <;> first | assumption | omega | (simp_all; done))
       | (simp_all; done))
  | ((try unfold $f:ident); first | rfl | (py_compact_eval; first | done | rfl))))

/-- `h : compact v = ok v`: turn it into the equation `strip (upper (cleanP v d)) = v` (when compact is unconditional) -/
macro "py_compact_eq " h:ident f:ident : tactic => `(tactic|
  (try (unfold $f:ident at $h:ident
        simp only [Py.clean_eq, bind, Except.bind, pure, Except.pure, Except.ok.injEq] at $h:ident)))

/-- C04v: evaluate `format T` and `compact (format T)` for an accepted `T` (gates in the context): the pieces
`format` cuts `T` into survive `clean`, the separators are deleted, and consecutive slices concatenate to `T` -/
macro "py_c04_eval" : tactic => `(tactic|
  (simp (disch := (first | assumption | decide | omega | (simp (config := {decide := true}) only [Py.loIdx, Py.hiIdx, Py.normIdx, Int.reduceLT, reduceIte, if_true, if_false, Int.reduceNeg, Int.toNat_natCast, Int.reduceToNat] at *; omega))) only [Py.clean_eq, bind, Except.bind, pure, Except.pure,
      Py.join_cons_cons, Py.join_singleton, Py.join_empty, Py.cleanP_append, Py.cleanP_nil,
      Py.cleanP_slice_isDigitsB, Py.cleanP_slice_digits, Py.cleanP_slice_alphabet, Py.cleanP_sep_nil,
      List.append_nil, List.nil_append, List.append_assoc,
      Py.getItem_eq_slice, Py.getItem_neg_one_eq_slice, Py.getItem_neg_one_eq_slice', Py.getItem_neg_eq_slice, Int.reduceAdd, Int.reduceSub, Int.reduceNeg, Py.slice_none_some_ge, Py.slice_some_some_ge,
      Py.slice_zero_none, Py.slice_zero_some, Py.slice_none_none, Py.slice_append_drop, Py.slice_append_slice_const, Py.slice_none_append_slice_const,
      Py.slice_append_slice_none_const, Py.slice_append_slice_neg, Py.slice_append_slice,
      Py.cleanP_of_isDigitsB, Py.upper_of_isDigitsB, Py.lower_of_isDigitsB, Py.strip_of_isDigitsB,
      Py.cleanP_digits, Py.upper_of_asciiDigits, Py.lower_of_asciiDigits, Py.strip_eq_self_of_asciiDigit,
      Py.cleanP_of_alphabet, Py.strip_of_alphabet, Py.upper_of_alphabet,
      Py.cleanP_idem, Py.strip_strip, Py.lstripChars_idem, Py.rstripChars_idem, Py.stripChars_idem, Py.lstrip_idem,
      Py.rstrip_idem, Py.zfill_eq_self, Py.zfill_idem, Py.startswith_false_of_digits,
      Except.ok.injEq, exists_eq_left', exists_eq_left,
      Bool.false_eq_true, if_false, ite_false, if_true, ite_true, reduceIte, *]))

/-- the same on an exploded `T` (letters/check characters: the character classes are only known per position) -/
macro "py_c04x" : tactic => `(tactic|
  ((try simp only [Py.clean_eq, bind, Except.bind, pure, Except.pure]);
   (try py_recompact36);
   (try simp (disch := first | assumption | decide) only [Py.join_cons_cons, Py.join_singleton, Py.join_empty, Py.cleanP_append, Py.cleanP_nil,
      Py.cleanP_sep_nil, List.append_nil, List.nil_append, Except.ok.injEq, exists_eq_left', exists_eq_left,
      Py.getItem_eq_slice, Py.getItem_neg_one_eq_slice, Py.getItem_neg_one_eq_slice', Py.getItem_neg_eq_slice, Int.reduceAdd, Int.reduceSub, Int.reduceNeg, List.length_cons, List.length_nil]);
   (try py_eval);
   (try py_recompact36);
   (try simp (disch := first | assumption | decide) only [Py.cleanP_append, Py.cleanP_nil, Py.cleanP_sep_nil, List.append_nil, List.nil_append,
      List.cons_append, Except.ok.injEq, exists_eq_left', exists_eq_left]);
   (try py_recompact36);
   (try py_eval)))

/-- C04v: at the return point of validate (all gates in the context): `∃ f, format T = ok f ∧ compact f = ok T` -/
macro "py_c04 " fmt:ident cmp:ident : tactic => `(tactic| (py_prep; all_goals first
  | done
  | exact True.intro
  | (unfold $fmt:ident; (try unfold $cmp:ident); py_c04_eval; done)
  | (unfold $fmt:ident; (try unfold $cmp:ident); py_c04_eval; first | rfl | (refine ⟨_, rfl, ?_⟩; first | rfl | (py_c04_eval; first | done | rfl)))
  | (unfold $fmt:ident; (try unfold $cmp:ident); py_c04_eval; split <;> first | done | rfl | (py_c04_eval; first | done | rfl))
  | (py_split_len <;> (py_explode; py_eval; all_goals (try subst_vars); all_goals py_chars; all_goals (try subst_vars); all_goals (py_split_ite <;> (try py_chars)); all_goals (try subst_vars); all_goals (unfold $fmt:ident; (try unfold $cmp:ident); py_c04x; first | done | rfl | (py_c04x; first | done | rfl))))))

/-- the closing tactic used by the generated contract proofs -/
macro_rules | `(tactic| py_vc) => `(tactic| py_vc3)
