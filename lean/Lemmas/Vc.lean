import Lean
import Lemmas.Hoare
import Lemmas.Util
import Lemmas.StrSpecs
import Lemmas.Strip
import Lemmas.Unicode
import Lemmas.Int
open Py Std.Do Lean Elab Tactic

/-- clear the join-point definitions `mvcgen` leaves in the context -/
elab "clear_jps" : tactic => do
  let g ← getMainGoal
  g.withContext do
    let mut g := g
    for ldecl in ← getLCtx do
      if ldecl.isImplementationDetail then continue
      if ldecl.userName.toString.startsWith "__do_jp" || (ldecl.userName.eraseMacroScopes.toString.startsWith "__do_jp") then
        try g ← g.clear ldecl.fvarId catch _ => pure ()
    replaceMainGoal [g]

macro "py_vc0" : tactic => `(tactic| (first | done | trivial | assumption | (simp_all; done) | omega))

/-- The Unicode-table driven functions must never be unfolded by automation (huge literals):
every generated proof file starts with `py_setup`. -/
macro "py_setup" : command => `(attribute [local irreducible] Py.upper Py.lower Py.strip Py.lstrip Py.rstrip
  Py.stripChars Py.lstripChars Py.rstripChars Py.isdigit Py.isalpha Py.isalnum Py.isspace Py.intOf Py.intOfBase
  Py.strOfInt Py.fmtD Py.fmtX Py.cleanP Py.cm)

macro "py_vc1" : tactic => `(tactic| (first
  | done
  | assumption
  | (simp_all (config := {decide := false}) [slice_length, isDigitsB_iff]; done)
  | (simp_all (config := {decide := false}) [slice_length, isDigitsB_iff]; omega)
  | grind))

namespace Py
@[grind →] theorem mem_zip_fst' {α β : Type} {a : α × β} {l1 : List α} {l2 : List β} (h : a ∈ l1.zip l2) : a.1 ∈ l1 :=
  (List.of_mem_zip (a := a.1) (b := a.2) (by simpa using h)).1
@[grind →] theorem mem_zip_snd' {α β : Type} {a : α × β} {l1 : List α} {l2 : List β} (h : a ∈ l1.zip l2) : a.2 ∈ l2 :=
  (List.of_mem_zip (a := a.1) (b := a.2) (by simpa using h)).2
@[grind →] theorem mem_of_mem_reverse' {α : Type} {a : α} {l : List α} (h : a ∈ l.reverse) : a ∈ l := List.mem_reverse.mp h
end Py

/-- closes the verification conditions `mvcgen` leaves for translated code: index bounds, digit-string
preconditions of `int()`, alphabet membership for `index()`, non-zero divisors -/
macro "py_vc2" : tactic => `(tactic| (first
  | done
  | assumption
  | (simp only [List.length_cons, List.length_nil, Int.natCast_add, Int.cast_ofNat_Int] at *; omega)
  | (simp (config := {decide := false}) at *; omega)
  | (grind [isDigitsB_iff, IsDigits, AllIn, slice_length])
  | (simp_all (config := {decide := false}) [isDigitsB_iff, IsDigits, slice_length]; done)))

namespace Py
/-- `int(s[a:b])`-style obligation from the digit gate on `s` and length facts -/
theorem isDigits_slice_le {s : Str} {a b : Option Int} (h : AllIn isAsciiDigit s)
    (hne : loIdx s.length a < hiIdx s.length b) (hlen : hiIdx s.length b - loIdx s.length a ≤ 4300) :
    IsDigits (slice s a b) ∧ (slice s a b).length ≤ 4300 :=
  ⟨IsDigits.slice h hne, by rw [slice_length]; exact hlen⟩

theorem isDigits_of_B {s : Str} (h : isDigitsB s = true) : IsDigits s := (isDigitsB_iff s).mp h
theorem allIn_of_B {s : Str} (h : isDigitsB s = true) : AllIn isAsciiDigit s := ((isDigitsB_iff s).mp h).2
theorem ne_nil_of_B {s : Str} (h : isDigitsB s = true) : 0 < s.length := ((isDigitsB_iff s).mp h).length_pos

theorem mem_of_eq_append_cons {α : Type} {l p s : List α} {c : α} (h : l = p ++ c :: s) : c ∈ l := by
  subst h; simp

theorem contains_digits_of_isAsciiDigit {c : Nat} (h : isAsciiDigit c = true) :
    ([48, 49, 50, 51, 52, 53, 54, 55, 56, 57] : Str).contains c = true := by
  have := isAsciiDigit_iff.mp h
  simp only [List.contains_cons, List.contains_nil, Bool.or_false, Bool.or_eq_true, beq_iff_eq]
  omega
end Py

namespace Py
theorem allAlnum_of_digits {s : Str} (h : AllIn isAsciiDigit s) : AllIn isAsciiAlnum s := by
  intro c hc; have := h c hc; simp only [isAsciiAlnum, this, Bool.true_or]

/-- re-cleaning an accepted digit string is the identity (delete set without alphanumerics) -/
theorem cleanP_digits {s d : Str} (h : AllIn isAsciiDigit s) (hd : d.all (fun c => !isAsciiAlnum c) = true) :
    cleanP s d = s :=
  cleanP_of_alnum (allAlnum_of_digits h) (by
    intro c hc
    have := (List.all_eq_true.mp hd) c hc
    cases hx : isAsciiAlnum c
    · rfl
    · rw [hx] at this; cases this)
end Py

/-- once a digit gate `isDigitsB s = true` is known, `compact`-style re-processing of `s` is the identity:
rewrite `cleanP s d`, `upper s`, `strip s` to `s` -/
macro "py_digits" : tactic => `(tactic|
  (try (have hdg__ := Py.allIn_of_B ‹isDigitsB _ = true›
        try simp only [Py.cleanP_digits hdg__ (by decide), Py.upper_of_asciiDigits hdg__, Py.strip_eq_self_of_asciiDigit _ hdg__] at *)))

/-- normalise the Boolean path conditions `mvcgen` records (`¬(!b) = true`, `b = isDigitsB s`) -/
macro "py_norm" : tactic => `(tactic|
  (try simp only [Bool.not_eq_true, Bool.not_eq_eq_eq_not, Bool.not_not, Bool.not_true, Bool.not_false, Bool.not_eq_false,
     bne_iff_ne, ne_eq, Decidable.not_not, beq_iff_eq, Bool.and_eq_true, Bool.or_eq_true, decide_eq_true_eq,
     Bool.true_eq, Bool.false_eq] at *))

/-- for-loop cursors: `h : xs = pref ++ cur :: suff` gives `cur ∈ xs` -/
macro "py_cursor" : tactic => `(tactic|
  (try (have hcur__ := Py.mem_of_eq_append_cons ‹_ = _ ++ _ :: _›)))

/-- unfold the `let`-bound locals `mvcgen` introduces for reassigned variables -/
macro "py_zeta" : tactic => `(tactic| (try simp (config := {zetaDelta := true, decide := false}) only [] at *))

macro "py_vc3" : tactic => `(tactic| (py_zeta; py_norm; (try subst_vars); py_norm; py_digits; py_cursor; first
  | done
  | assumption
  | (simp only [List.length_cons, List.length_nil] at *; omega)
  | (refine Py.isDigits_slice_le (Py.allIn_of_B ‹_›) ?_ ?_ <;> (simp (config := {decide := false}) [loIdx, hiIdx] at * <;> omega))
  | (simp (config := {decide := false}) at *; omega)
  | (grind [isDigitsB_iff, IsDigits, AllIn, slice_length, contains_digits_of_isAsciiDigit])
  | (simp_all (config := {decide := false}) [isDigitsB_iff, IsDigits, slice_length]; done)))

/-- the closing tactic used by the generated contract proofs -/
macro "py_vc" : tactic => `(tactic| py_vc3)
