import Lean
import Lemmas.Hoare
import Lemmas.Util
import Lemmas.StrSpecs
import Lemmas.Strip
import Lemmas.Unicode
import Lemmas.Int
import Lemmas.Extra
/-!
# Lemmas.Vc — the tactic `py_vc` that closes the verification conditions `mvcgen` leaves for translated code

Pipeline of `py_vc` (every step is a separate small tactic so that it can be tried in isolation):

1. `py_prep`     intro, unfold the `let`-bound locals, split `∧`/`∃` hypotheses, substitute, normalise Booleans,
                 turn the gates (`isDigitsB s = true`, …) into facts, rewrite re-compaction of accepted strings away;
2. quick closers (`omega`, `simp_all`, …);
3. `py_explode`  if a string has a known numeral length, destructure it into characters and evaluate slices,
                 indexing, `zip`, `enumerate` … on the explicit list;
4. generic closers (lemma library + `grind`).
-/
open Py Std.Do Lean Elab Tactic Meta

/-- clear the join-point definitions `mvcgen` leaves in the context -/
elab "clear_jps" : tactic => do
  let g ← getMainGoal
  g.withContext do
    let mut g := g
    for ldecl in (← getLCtx).decls.toArray.reverse do
      let some ldecl := ldecl | continue
      if ldecl.isImplementationDetail then continue
      if ldecl.userName.toString.startsWith "__do_jp" || (ldecl.userName.eraseMacroScopes.toString.startsWith "__do_jp") then
        try g ← g.clear ldecl.fvarId catch _ => pure ()
    replaceMainGoal [g]

macro "py_vc0" : tactic => `(tactic| (first | done | trivial | assumption | (simp_all; done) | omega))

/-- The Unicode-table driven functions must never be unfolded by automation (huge literals):
every generated proof file starts with `py_setup`. -/
macro "py_setup" : command => `(attribute [local irreducible] Py.upper Py.lower Py.strip Py.lstrip Py.rstrip
  Py.stripChars Py.lstripChars Py.rstripChars Py.isdigit Py.isalpha Py.isalnum Py.isspace Py.intOf Py.intOfBase
  Py.strOfInt Py.fmtD Py.fmtX Py.cleanP Py.cm)

namespace Py
@[grind →] theorem mem_zip_fst' {α β : Type} {a : α × β} {l1 : List α} {l2 : List β} (h : a ∈ l1.zip l2) : a.1 ∈ l1 :=
  (List.of_mem_zip (a := a.1) (b := a.2) (by simpa using h)).1
@[grind →] theorem mem_zip_snd' {α β : Type} {a : α × β} {l1 : List α} {l2 : List β} (h : a ∈ l1.zip l2) : a.2 ∈ l2 :=
  (List.of_mem_zip (a := a.1) (b := a.2) (by simpa using h)).2
@[grind →] theorem mem_of_mem_reverse' {α : Type} {a : α} {l : List α} (h : a ∈ l.reverse) : a ∈ l := List.mem_reverse.mp h

/-- `int(s[a:b])`-style obligation from the digit gate on `s` and length facts -/
theorem isDigits_slice_le {s : Str} {a b : Option Int} (h : AllIn isAsciiDigit s)
    (hne : loIdx s.length a < hiIdx s.length b) (hlen : hiIdx s.length b - loIdx s.length a ≤ 4300) :
    IsDigits (slice s a b) ∧ (slice s a b).length ≤ 4300 :=
  ⟨IsDigits.slice h hne, by rw [slice_length]; exact hlen⟩

theorem isDigits_of_B {s : Str} (h : isDigitsB s = true) : IsDigits s := (isDigitsB_iff s).mp h
theorem allIn_of_B {s : Str} (h : isDigitsB s = true) : AllIn isAsciiDigit s := ((isDigitsB_iff s).mp h).2
theorem ne_nil_of_B {s : Str} (h : isDigitsB s = true) : 0 < s.length := ((isDigitsB_iff s).mp h).length_pos

theorem mem_of_eq_append_cons {α : Type} {l p s : List α} {c : α} (h : l = p ++ c :: s) : c ∈ l := by
  subst h; simp

theorem contains_digits_of_isAsciiDigit {c : Nat} (h : isAsciiDigit c = true) :
    ([48, 49, 50, 51, 52, 53, 54, 55, 56, 57] : Str).contains c = true := by
  have := isAsciiDigit_iff.mp h
  simp only [List.contains_cons, List.contains_nil, Bool.or_false, Bool.or_eq_true, beq_iff_eq]
  omega

theorem allAlnum_of_digits {s : Str} (h : AllIn isAsciiDigit s) : AllIn isAsciiAlnum s := by
  intro c hc; have := h c hc; simp only [isAsciiAlnum, this, Bool.true_or]

/-- re-cleaning an accepted digit string is the identity (delete set without alphanumerics) -/
theorem cleanP_digits {s d : Str} (h : AllIn isAsciiDigit s) (hd : d.all (fun c => !isAsciiAlnum c) = true) :
    cleanP s d = s :=
  cleanP_of_alnum (allAlnum_of_digits h) (by
    intro c hc
    have := (List.all_eq_true.mp hd) c hc
    cases hx : isAsciiAlnum c
    · rfl
    · rw [hx] at this; cases this)

/-- the same from the Boolean gate, in rewriting form -/
theorem cleanP_of_isDigitsB {s d : Str} (h : isDigitsB s = true) (hd : d.all (fun c => !isAsciiAlnum c) = true) :
    cleanP s d = s := cleanP_digits (allIn_of_B h) hd
theorem upper_of_isDigitsB {s : Str} (h : isDigitsB s = true) : upper s = s := upper_of_asciiDigits (allIn_of_B h)
theorem lower_of_isDigitsB {s : Str} (h : isDigitsB s = true) : lower s = s := lower_of_asciiDigits (allIn_of_B h)
theorem strip_of_isDigitsB {s : Str} (h : isDigitsB s = true) : strip s = s :=
  strip_eq_self_of_asciiDigit s (allIn_of_B h)

/-- a digit gate on `strip (upper x)` etc. is inherited by the string itself when it is re-processed: these are the
rewriting forms used by `py_recompact` -/
theorem isDigitsB_true_iff {s : Str} : isDigitsB s = true ↔ (s ≠ [] ∧ AllIn isAsciiDigit s) := isDigitsB_iff s

theorem digitsVal_two (a b : Nat) : digitsVal [a, b] = ((a : Int) - 48) * 10 + ((b : Int) - 48) := by
  simp [digitsVal]
theorem digitsVal_three (a b c : Nat) :
    digitsVal [a, b, c] = (((a : Int) - 48) * 10 + ((b : Int) - 48)) * 10 + ((c : Int) - 48) := by
  simp [digitsVal]
theorem digitsVal_four (a b c d : Nat) :
    digitsVal [a, b, c, d] = ((((a : Int) - 48) * 10 + ((b : Int) - 48)) * 10 + ((c : Int) - 48)) * 10 + ((d : Int) - 48) := by
  simp [digitsVal]

end Py

/-! ## step 1: preparation -/

/-- split every `∧` / `∃` hypothesis -/
elab "py_cases_and" : tactic => liftMetaTactic fun g => do
  let gs ← g.casesRec fun ldecl => do
    if ldecl.isImplementationDetail then return false
    let t ← instantiateMVars ldecl.type
    return t.isAppOfArity ``And 2 || t.isAppOfArity ``Exists 2
  return gs

/-- normalise the Boolean path conditions `mvcgen` records (`¬(!b) = true`, `b = isDigitsB s`) -/
macro "py_norm" : tactic => `(tactic|
  (try simp only [Bool.not_eq_true, Bool.not_eq_eq_eq_not, Bool.not_not, Bool.not_true, Bool.not_false, Bool.not_eq_false,
     bne_iff_ne, ne_eq, Decidable.not_not, beq_iff_eq, Bool.and_eq_true, Bool.or_eq_true, decide_eq_true_eq,
     Bool.false_eq_true, Bool.true_eq_false, not_false_eq_true, not_true_eq_false, Bool.not_eq_true', Bool.not_eq_false', decide_eq_false_iff_not, Bool.or_eq_false_iff,
     Bool.and_eq_false_imp, Classical.not_and_iff_not_or_not, not_or, Classical.not_not, true_and, and_true, List.isEmpty_iff, ne_eq,
     Py.contains_int_two, Py.contains_int_three, Py.contains_int_four, Py.contains_int_two_false,
     Py.contains_int_three_false, Py.contains_int_four_false,
     Py.all_map_strIn_chars, Py.any_map_not_strIn_chars, Py.all_strIn_chars, Py.any_not_strIn_chars,
     Bool.or_false, Bool.false_or] at *))

/-- unfold the `let`-bound locals `mvcgen` introduces for reassigned variables -/
macro "py_zeta" : tactic => `(tactic| (try simp (config := {zetaDelta := true, decide := false}) only [] at *))

/-- once a digit gate `isDigitsB s = true` is known, `compact`-style re-processing of `s` is the identity:
rewrite `cleanP s d`, `upper s`, `strip s` to `s` -/
macro "py_recompact" : tactic => `(tactic|
  (try simp (disch := first | assumption | decide) only
    [Py.cleanP_of_isDigitsB, Py.upper_of_isDigitsB, Py.lower_of_isDigitsB, Py.strip_of_isDigitsB, Py.cleanP_idem, Py.strip_strip,
     Py.cleanP_of_alphabet, Py.strip_of_alphabet, Py.upper_of_alphabet] at *))

/-- forward facts from the gates: `isDigitsB t = true` gives `0 < |t|` and `AllIn isAsciiDigit t` -/
elab "py_facts" : tactic => withMainContext do
  let mut g ← getMainGoal
  for ldecl in ← getLCtx do
    if ldecl.isImplementationDetail then continue
    let t ← instantiateMVars ldecl.type
    let some (_, lhs, rhs) := t.eq? | continue
    unless lhs.isAppOfArity ``Py.isDigitsB 1 && rhs.isConstOf ``Bool.true do continue
    let h := mkFVar ldecl.fvarId
    let p1 ← mkAppM ``Py.ne_nil_of_B #[h]
    let p2 ← mkAppM ``Py.allIn_of_B #[h]
    g ← g.withContext do
      let g ← g.assert `hpos__ (← inferType p1) p1
      let (_, g) ← g.intro1
      let g ← g.assert `hall__ (← inferType p2) p2
      let (_, g) ← g.intro1
      pure g
  replaceMainGoal [g]

macro "py_prep" : tactic => `(tactic|
  (intros; py_zeta; all_goals py_cases_and; all_goals (try subst_vars); all_goals py_norm; all_goals py_cases_and;
   all_goals (try subst_vars); all_goals py_recompact; all_goals py_facts))

/-! ## step 3: strings of known length -/

syntax "py_explode_go " ident : tactic
macro_rules
  | `(tactic| py_explode_go $h) => `(tactic| first
    | (have h0__ := List.eq_nil_of_length_eq_zero $h; subst h0__; try clear $h)
    | (obtain ⟨c, t, hs, h'⟩ := Py.explode_succ $h; subst hs; py_explode_go h'; try clear h'))

namespace Py.VcImpl

/-- is `e` an explicit list `a :: b :: … :: []`? -/
partial def isExplicitList (e : Expr) : Bool :=
  let e := e.consumeMData
  if e.isAppOfArity ``List.nil 1 then true
  else if e.isAppOfArity ``List.cons 3 then isExplicitList e.appArg!
  else false

/-- `List.length T = n` or `↑(List.length T) = n` (numeral `n`): returns `(T, n)` -/
def lenEq? (ty : Expr) : MetaM (Option (Expr × Nat)) := do
  let ty ← instantiateMVars ty
  let some (α, lhs, rhs) := ty.eq? | return none
  let lenArg? (e : Expr) : Option Expr :=
    let e := e.consumeMData
    if e.isAppOfArity ``List.length 2 then some e.appArg! else none
  if α.isConstOf ``Nat then
    let some t := lenArg? lhs | return none
    let some n := rhs.nat? | return none
    return some (t, n)
  else if α.isConstOf ``Int then
    let lhs := lhs.consumeMData
    unless lhs.isAppOfArity ``Nat.cast 3 do return none
    let some t := lenArg? lhs.appArg! | return none
    let some n := rhs.int? | return none
    if n < 0 then return none
    return some (t, n.toNat)
  else return none

end Py.VcImpl

open Py.VcImpl in
/-- destructure every string whose length is a known numeral (≤ 40) into its characters -/
elab "py_explode" : tactic => withMainContext do
  let mut progress := true
  let mut did := false
  let mut fuel := 6
  while progress && fuel > 0 do
    progress := false
    fuel := fuel - 1
    let found ← withMainContext do
      let mut found : Option (Expr × Nat) := none
      for ldecl in ← getLCtx do
        if ldecl.isImplementationDetail then continue
        if let some (t, n) ← lenEq? ldecl.type then
          if !isExplicitList t && n ≤ 40 then
            found := some (t, n); break
      pure found
    if let some (t, n) := found then
      let tStx ← withMainContext <| Term.exprToSyntax t
      let nStx := Syntax.mkNumLit (toString n)
      if t.isFVar then
        evalTactic (← `(tactic| have hN__ : List.length $tStx = $nStx := by omega))
        evalTactic (← `(tactic| py_explode_go hN__))
      else
        evalTactic (← `(tactic| generalize hgen__ : $tStx = s__ at *))
        evalTactic (← `(tactic| try clear hgen__))
        evalTactic (← `(tactic| have hN__ : List.length s__ = $nStx := by omega))
        evalTactic (← `(tactic| py_explode_go hN__))
      progress := true
      did := true
  unless did do throwError "py_explode: no string of known length"

namespace Py.VcImpl
partial def isLenOr (t : Expr) : MetaM Bool := do
  if t.isAppOfArity ``Or 2 then
    return (← isLenOr (t.getArg! 0)) && (← isLenOr (t.getArg! 1))
  else return (← lenEq? t).isSome
end Py.VcImpl

open Py.VcImpl in
/-- case-split hypotheses `len s = 9 ∨ len s = 10` (from `len(number) not in (9, 10)` gates) -/
elab "py_split_len" : tactic => liftMetaTactic fun g => do
  g.casesRec fun ldecl => do
    if ldecl.isImplementationDetail then return false
    let t ← instantiateMVars ldecl.type
    if t.isAppOfArity ``Or 2 then isLenOr t else return false

/-- evaluate the sequence operations on explicit lists -/
macro "py_eval" : tactic => `(tactic|
  (try simp (config := {decide := false}) only [slice, sliceL, loIdx, hiIdx, normIdx, getItem, getItemL, sliceStepL, everyNth, everyNthGo,
    pyIdx, Option.some.injEq,
    chars_cons, chars_nil, enumerate_cons, enumerate_nil, List.zip_cons_cons, List.zip_nil_left, List.zip_nil_right,
    List.reverse_cons, List.reverse_nil, List.nil_append, List.cons_append, List.length_cons, List.length_nil,
    List.take_succ_cons, List.take_zero, List.drop_succ_cons, List.drop_zero, List.take_nil, List.drop_nil,
    Int.toNat_natCast, Int.natCast_add, Int.cast_ofNat_Int,
    List.getElem?_cons_succ, List.getElem?_cons_zero, List.getElem?_nil,
    Nat.reduceAdd, Nat.reduceSub, Nat.reduceMul, Nat.reduceLT, Nat.reduceLeDiff, Nat.reduceSucc,
    Int.reduceAdd, Int.reduceSub, Int.reduceNeg, Int.reduceLT, Int.reduceLE, Int.reduceToNat, Int.reduceMul,
    Int.reduceNegSucc, Int.reduceOfNat,
    if_true, if_false, ite_true, ite_false, Nat.min_def, and_self, and_true, true_and, Nat.lt_irrefl,
    Nat.zero_add, Nat.add_zero, Int.zero_add, Int.add_zero, ge_iff_le, gt_iff_lt, reduceIte,
    Int.natCast_zero, Int.natCast_one, Nat.le_refl, Int.le_refl,
    tupleToList_pair, sumInt_cons, sumInt_nil] at *))

namespace Py.VcImpl
/-- case-split `x ∈ [a, b, c]` for a loop/comprehension variable `x` (not a character) that the goal talks about -/
partial def splitMemLoop (g : MVarId) : MetaM (List MVarId) := g.withContext do
  let tgt ← instantiateMVars (← g.getType)
  let ok (x l : Expr) : MetaM Bool := do
    unless isExplicitList l do return false
    unless x.isFVar do return false
    if (← inferType x).isConstOf ``Nat then return false
    return tgt.containsFVar x.fvarId!
  for ldecl in ← getLCtx do
    if ldecl.isImplementationDetail then continue
    let t ← instantiateMVars ldecl.type
    let hit ←
      if t.isAppOfArity ``Membership.mem 5 then ok (t.getArg! 4) (t.getArg! 3)
      else if t.isAppOfArity ``List.Mem 3 then ok (t.getArg! 1) (t.getArg! 2)
      else pure false
    if hit then
      let subgoals ← g.cases ldecl.fvarId
      return (← subgoals.toList.mapM (fun s => splitMemLoop s.mvarId)).flatten
  return [g]
end Py.VcImpl

open Py.VcImpl in
elab "py_split_mem" : tactic => liftMetaTactic fun g => splitMemLoop g

namespace Py.VcImpl
/-- length of the longest explicit list literal inside `e` -/
partial def maxListLit (e : Expr) : Nat :=
  let rec len (e : Expr) (n : Nat) : Nat :=
    if e.isAppOfArity ``List.cons 3 then len e.appArg! (n + 1) else n
  let rec go (e : Expr) : Nat :=
    match e with
    | .app f a =>
      if e.isAppOfArity ``List.cons 3 then max (len e 0) (go (e.getArg! 1)) else max (go f) (go a)
    | .lam _ t b _ => max (go t) (go b)
    | .forallE _ t b _ => max (go t) (go b)
    | .letE _ t v b _ => max (go t) (max (go v) (go b))
    | .mdata _ e => go e
    | .proj _ _ e => go e
    | _ => 0
  go e
end Py.VcImpl

open Py.VcImpl in
/-- drop the hypotheses that mention a long literal (an alphabet, a table): arithmetic closers do not need them and
`simp_all` would unfold them -/
elab "py_clear_big" : tactic => withMainContext do
  let mut g ← getMainGoal
  for ldecl in (← getLCtx).decls.toArray.reverse do
    let some ldecl := ldecl | continue
    if ldecl.isImplementationDetail then continue
    let t ← instantiateMVars ldecl.type
    if maxListLit t ≥ 12 then
      try g ← g.clear ldecl.fvarId catch _ => pure ()
  replaceMainGoal [g]

/-- per-character facts from gates on explicit strings -/
macro "py_chars" : tactic => `(tactic|
  ((try simp (config := {decide := false}) only [isDigitsB, IsDigits, List.all_cons, List.all_nil, List.any_cons, List.any_nil,
      List.isEmpty_cons, List.isEmpty_nil, AllIn.cons_iff', AllIn.nil_iff, AllIn.singleton_iff, AllIn.append_iff,
      Bool.and_eq_true, Bool.not_false, Bool.not_true,
      Bool.and_true, Bool.true_and, Bool.or_false, Bool.false_or, ne_eq, List.cons_ne_nil, not_false_eq_true, true_and, and_true,
      strIn_single, List.map_cons, List.map_nil, id, Bool.not_eq_true', Bool.not_eq_false', Bool.or_eq_true,
      Bool.or_eq_false_iff, Bool.and_eq_false_imp, reduceCtorEq, and_self, List.cons.injEq, and_false, false_and,
      not_true_eq_false, List.length_cons, List.length_nil, Nat.reduceAdd, Nat.reduceLeDiff, Nat.reduceLT,
      Bool.false_eq_true, Bool.true_eq_false, Classical.not_not] at *);
   all_goals py_cases_and))

namespace Py
theorem contains_of_isAsciiDigit {A : Str} (hA : (List.range' 48 10).all (fun c => A.contains c) = true) {c : Nat}
    (hc : isAsciiDigit c = true) : A.contains c = true := of_isAsciiDigit (Q := fun c => A.contains c) hA hc
theorem contains_of_isAsciiUpper {A : Str} (hA : (List.range' 65 26).all (fun c => A.contains c) = true) {c : Nat}
    (hc : isAsciiUpper c = true) : A.contains c = true := of_isAsciiUpper (Q := fun c => A.contains c) hA hc
theorem contains_of_contains {A B : Str} (hA : A.all (fun c => B.contains c) = true) {c : Nat}
    (hc : A.contains c = true) : B.contains c = true := of_contains (Q := fun c => B.contains c) hA hc
theorem isAsciiDigit_of_contains {A : Str} (hA : A.all isAsciiDigit = true) {c : Nat}
    (hc : A.contains c = true) : isAsciiDigit c = true := of_contains hA hc
theorem isAsciiAlnum_of_contains {A : Str} (hA : A.all isAsciiAlnum = true) {c : Nat}
    (hc : A.contains c = true) : isAsciiAlnum c = true := of_contains hA hc
end Py

/-- goal `Q c = true` for a character class `Q`, from a class fact about the same character -/
macro "py_char" : tactic => `(tactic| first
  | assumption
  | exact Py.contains_of_isAsciiDigit (by decide) ‹_›
  | exact Py.contains_of_isAsciiUpper (by decide) ‹_›
  | exact Py.isAsciiDigit_of_contains (by decide) ‹_›
  | exact Py.isAsciiAlnum_of_contains (by decide) ‹_›
  | exact Py.contains_of_contains (by decide) ‹_›)

/-- goal `AllIn isAscii s` (C15) from a gate on the whole string -/
macro "py_ascii" : tactic => `(tactic| first
  | exact Py.allIn_isAscii_of_digits ‹_›
  | exact Py.allIn_isAscii_of_B ‹_›
  | exact Py.allIn_isAscii_of_isasciiS ‹_›
  | exact Py.allIn_of_alphabet ‹_› (by decide)
  | exact Py.allIn_isAscii_of_alnum ‹_›)

/-! ## closers -/

macro "py_vc1" : tactic => `(tactic| (first
  | done
  | assumption
  | (simp_all (config := {decide := false}) [slice_length, isDigitsB_iff]; done)
  | (simp_all (config := {decide := false}) [slice_length, isDigitsB_iff]; omega)
  | grind))

macro "py_vc2" : tactic => `(tactic| (first
  | done
  | assumption
  | (simp only [List.length_cons, List.length_nil, Int.natCast_add, Int.cast_ofNat_Int] at *; omega)
  | (simp (config := {decide := false}) at *; omega)
  | (grind [isDigitsB_iff, IsDigits, AllIn, slice_length])
  | (simp_all (config := {decide := false}) [isDigitsB_iff, IsDigits, slice_length]; done)))

macro "py_digits" : tactic => `(tactic|
  (try (have hdg__ := Py.allIn_of_B ‹isDigitsB _ = true›
        try simp only [Py.upper_of_asciiDigits hdg__, Py.strip_eq_self_of_asciiDigit _ hdg__] at *)))

/-- for-loop cursors: `h : xs = pref ++ cur :: suff` gives `cur ∈ xs` -/
macro "py_cursor" : tactic => `(tactic|
  (try (have hcur__ := Py.mem_of_eq_append_cons ‹_ = _ ++ _ :: _›)))

/-- the generic closers (no string of known length) -/
macro "py_close_generic" : tactic => `(tactic| (py_digits; py_cursor; first
  | done
  | assumption
  | (simp only [List.length_cons, List.length_nil] at *; omega)
  | (refine Py.isDigits_slice_le (Py.allIn_of_B ‹_›) ?_ ?_ <;> (simp (config := {decide := false}) [loIdx, hiIdx] at * <;> omega))
  | (simp (config := {decide := false}) at *; omega)
  | (grind [isDigitsB_iff, IsDigits, AllIn, slice_length, contains_digits_of_isAsciiDigit])
  | (simp_all (config := {decide := false}) [isDigitsB_iff, IsDigits, slice_length]; done)))

/-- closers after `py_explode; py_eval`: everything is about explicit characters -/
macro "py_close_concrete1" : tactic => `(tactic| (first
  | done
  | assumption
  | omega
  | py_char
  | decide
  | (py_clear_big; simp_all (config := {decide := false}) [isDigitsB, IsDigits, Py.digitsVal_two, Py.digitsVal_three, Py.digitsVal_four]; done)
  | (py_clear_big; simp_all (config := {decide := false}) [isDigitsB, IsDigits, Py.digitsVal_two, Py.digitsVal_three, Py.digitsVal_four]; omega)))

macro "py_close_concrete" : tactic => `(tactic|
  (py_split_mem <;> (py_chars; all_goals first
    | done
    | py_close_concrete1
    | ((repeat' apply And.intro) <;> py_close_concrete1))))

/-- exception bookkeeping: `e = .valueError`, `¬ e.caughtBy .valueError` … -/
macro "py_exc" : tactic => `(tactic|
  (simp (config := {decide := true}) only [Exc.caughtBy, Exc.isValidation, Classical.not_not, not_true_eq_false,
     false_and, and_false] at *; done))

macro "py_vc3" : tactic => `(tactic| (py_prep; all_goals first
  | done
  | exact True.intro
  | assumption
  | omega
  | py_exc
  | py_ascii
  | (py_split_len <;> (py_explode; py_eval; all_goals (try subst_vars); all_goals py_close_concrete))
  | py_close_generic))

namespace Py
theorem startswith_false_of_digits {v p : Str} (hv : AllIn isAsciiDigit v)
    (hp : (p.head?.map isAsciiDigit) = some false) : startswith v p = false := by
  cases p with
  | nil => simp at hp
  | cons a t =>
    simp only [List.head?_cons, Option.map_some, Option.some.injEq] at hp
    cases hs : startswith v (a :: t) with
    | false => rfl
    | true =>
      obtain ⟨u, rfl⟩ := startswith_iff.mp hs
      have := hv a (by simp)
      rw [hp] at this; cases this
end Py

/-- `compact v = ok v` for a digit string `v` (`h : IsDigits v`), after `unfold compact` -/
macro "py_compact_digits " h:ident : tactic => `(tactic|
  (have hd__ := ($h).2
   simp (disch := first | assumption | decide) only [Py.clean_eq, bind, Except.bind, pure, Except.pure,
      Py.cleanP_digits, Py.upper_of_asciiDigits, Py.lower_of_asciiDigits, Py.strip_eq_self_of_asciiDigit,
      Py.startswith_false_of_digits, Bool.false_eq_true, if_false, ite_false, reduceIte]))

/-- the closing tactic used by the generated contract proofs -/
macro "py_vc" : tactic => `(tactic| py_vc3)
