import PyRt.Regex
import PyRt.RegexUniData
/-!
# Lemmas.Regex — facts about the regex engine `PyRt.Regex` needed by the per-module proofs

* `ends_progress`            — matching only moves forward;
* shape analysis             — `Regex.charPred`, `Regex.lenBound`, `Regex.groupBodies`,
  `Regex.endsAtEol/endsAtEos/startsAtBos` are computed from the regex; `ends_shape`,
  `match_shape_eol`, `match_shape_eos`, `search_eq_match`, `fullmatch_shape`, `group_shape` turn a successful
  `re.match` into "all characters are in the union of the classes, the length is within bounds"
  (minus one trailing `\n` for patterns ending in `$`!), for the whole match and per group;
* `match_digitsDollar_iff`, `match_digitsZ_iff` — exact characterisations of `^[0-9]+$` / `^[0-9]+\Z`;
* `match_fixed_iff` — exact characterisation of every fixed-width pattern `^ items{n}… $` (`\Z`):
  `Regex.fixedAnchored` computes the per-position predicates.

All statements are for an arbitrary table instance `[UniTables]`.
-/
namespace Py.Re

/-! ## basic membership lemmas -/

theorem mem_stepChar {s : Str} {p : Nat → Bool} {st st' : MState} :
    st' ∈ stepChar s p st ↔ ∃ ch, s[st.pos]? = some ch ∧ p ch = true ∧ st' = { st with pos := st.pos + 1 } := by
  unfold stepChar
  cases h : s[st.pos]? with
  | none => simp
  | some ch =>
    by_cases hp : p ch = true
    · simp only [hp, if_true, List.mem_singleton]
      constructor
      · intro e; exact ⟨ch, rfl, hp, e⟩
      · rintro ⟨_, _, _, e⟩; exact e
    · simp only [hp]
      constructor
      · intro e; simp at e
      · rintro ⟨c, hc, hpc, _⟩
        cases hc
        exact absurd hpc hp

/-- the characters of `s` at the indices `a ≤ k < b` exist and satisfy `P` -/
def Seg (s : Str) (P : Nat → Bool) (a b : Nat) : Prop :=
  ∀ k, a ≤ k → k < b → ∃ c, s[k]? = some c ∧ P c = true

theorem Seg.nil {s : Str} {P : Nat → Bool} {a : Nat} : Seg s P a a := by
  intro k h1 h2; omega

theorem Seg.mono {s : Str} {P Q : Nat → Bool} {a b : Nat} (h : Seg s P a b)
    (hpq : ∀ c, P c = true → Q c = true) : Seg s Q a b := by
  intro k h1 h2
  obtain ⟨c, hc, hp⟩ := h k h1 h2
  exact ⟨c, hc, hpq c hp⟩

theorem Seg.append {s : Str} {P : Nat → Bool} {a b c : Nat} (h1 : Seg s P a b) (h2 : Seg s P b c) :
    Seg s P a c := by
  intro k hk1 hk2
  by_cases h : k < b
  · exact h1 k hk1 h
  · exact h2 k (by omega) hk2

theorem Seg.le_length {s : Str} {P : Nat → Bool} {a b : Nat} (h : Seg s P a b) (hab : a < b) :
    b ≤ s.length := by
  obtain ⟨c, hc, _⟩ := h (b - 1) (by omega) (by omega)
  have := (List.getElem?_eq_some_iff.mp hc).1
  omega

/-- length bounds: `(lo, some hi)` or `(lo, none)` (unbounded) -/
def LenIn (b : Nat × Option Nat) (n : Nat) : Prop :=
  b.1 ≤ n ∧ ∀ h, b.2 = some h → n ≤ h

instance (b : Nat × Option Nat) (n : Nat) : Decidable (LenIn b n) := by
  unfold LenIn
  cases h : b.2 with
  | none => exact decidable_of_iff (b.1 ≤ n) (by simp)
  | some m => exact decidable_of_iff (b.1 ≤ n ∧ n ≤ m) (by simp)

/-! ## shape of a single `ends` step -/

/-- what `ends_shape` says about one step from `st` to `st'` -/
def Shape (s : Str) (P : Nat → Bool) (L : Nat × Option Nat) (st st' : MState) : Prop :=
  st.pos ≤ st'.pos ∧ Seg s P st.pos st'.pos ∧ LenIn L (st'.pos - st.pos)

theorem shape_stepChar {s : Str} {p : Nat → Bool} {st st' : MState} (h : st' ∈ stepChar s p st) :
    Shape s p (1, some 1) st st' := by
  obtain ⟨ch, hch, hp, rfl⟩ := mem_stepChar.mp h
  refine ⟨by simp, ?_, ?_⟩
  · intro k h1 h2
    have : k = st.pos := by simp at h2; omega
    subst this
    exact ⟨ch, hch, hp⟩
  · simp [LenIn]

/-- the loop: `j` iterations, each with the body's shape -/
theorem shape_repLoop {s : Str} {P : Nat → Bool} {lo : Nat} {hi : Option Nat}
    {greedy : Bool} {mn : Nat} {mx : Option Nat} {step : MState → List MState}
    (hstep : ∀ x y, y ∈ step x → Shape s P (lo, hi) x y) :
    ∀ (fuel count : Nat) (last : Option Nat) (st st' : MState),
      st' ∈ repLoop greedy mn mx step fuel count last st →
      ∃ j, st.pos ≤ st'.pos ∧ Seg s P st.pos st'.pos ∧ mn ≤ count + j ∧
        (∀ m, mx = some m → count + j ≤ max count (max mn m)) ∧
        j * lo ≤ st'.pos - st.pos ∧ (∀ h, hi = some h → st'.pos - st.pos ≤ j * h) := by
  intro fuel
  induction fuel with
  | zero => intro count last st st' h; simp [repLoop] at h
  | succ fuel ih =>
    intro count last st st' h
    have stay : ¬ count < mn → st' = st →
        ∃ j, st.pos ≤ st'.pos ∧ Seg s P st.pos st'.pos ∧ mn ≤ count + j ∧
        (∀ m, mx = some m → count + j ≤ max count (max mn m)) ∧
        j * lo ≤ st'.pos - st.pos ∧ (∀ h, hi = some h → st'.pos - st.pos ≤ j * h) := by
      intro hc he
      subst he
      exact ⟨0, Nat.le_refl _, Seg.nil, by omega, by intro m _; omega, by simp, by intro h _; simp⟩
    have go : ∀ (last' : Option Nat), (count < mn ∨ ∀ m, mx = some m → count < m) →
        st' ∈ (step st).flatMap (repLoop greedy mn mx step fuel (count + 1) last') →
        ∃ j, st.pos ≤ st'.pos ∧ Seg s P st.pos st'.pos ∧ mn ≤ count + j ∧
        (∀ m, mx = some m → count + j ≤ max count (max mn m)) ∧
        j * lo ≤ st'.pos - st.pos ∧ (∀ h, hi = some h → st'.pos - st.pos ≤ j * h) := by
      intro last' hmx hmem
      obtain ⟨m, hm, hst'⟩ := List.mem_flatMap.mp hmem
      obtain ⟨h1, h2, h3⟩ := hstep st m hm
      obtain ⟨j, k1, k2, k3, k4, k5, k6⟩ := ih (count + 1) last' m st' hst'
      refine ⟨j + 1, by omega, Seg.append h2 k2, by omega, ?_, ?_, ?_⟩
      · intro mm hmm
        have := k4 mm hmm
        rcases hmx with hlt | hlt
        · omega
        · have := hlt mm hmm
          omega
      · have := h3.1
        simp at this
        rw [Nat.add_mul]
        omega
      · intro h hh
        have a1 := h3.2 h hh
        have a2 := k6 h hh
        rw [Nat.add_mul]
        omega
    unfold repLoop at h
    by_cases hc : count < mn
    · simp only [hc, if_true] at h
      exact go none (Or.inl hc) h
    · simp only [hc, if_false] at h
      have hmore : ∀ more : List MState,
          (st' ∈ more → ∃ j, st.pos ≤ st'.pos ∧ Seg s P st.pos st'.pos ∧ mn ≤ count + j ∧
            (∀ m, mx = some m → count + j ≤ max count (max mn m)) ∧
            j * lo ≤ st'.pos - st.pos ∧ (∀ h, hi = some h → st'.pos - st.pos ≤ j * h)) →
          st' ∈ (if greedy = true then more ++ [st] else st :: more) →
          ∃ j, st.pos ≤ st'.pos ∧ Seg s P st.pos st'.pos ∧ mn ≤ count + j ∧
            (∀ m, mx = some m → count + j ≤ max count (max mn m)) ∧
            j * lo ≤ st'.pos - st.pos ∧ (∀ h, hi = some h → st'.pos - st.pos ≤ j * h) := by
        intro more hm hin
        cases greedy with
        | true =>
          simp only [if_true, List.mem_append, List.mem_singleton] at hin
          rcases hin with hin | hin
          · exact hm hin
          · exact stay hc hin
        | false =>
          simp only [Bool.false_eq_true, if_false, List.mem_cons] at hin
          rcases hin with hin | hin
          · exact stay hc hin
          · exact hm hin
      refine hmore _ ?_ h
      intro hin
      by_cases hcond : (underMax mx count && last != some st.pos) = true
      · rw [if_pos hcond] at hin
        simp only [Bool.and_eq_true] at hcond
        refine go _ (Or.inr ?_) hin
        intro m hm
        have := hcond.1
        simpa [underMax, hm] using this
      · rw [if_neg hcond] at hin
        simp at hin

/-! ## the analysis functions -/

variable [T : UniTables]

def optAdd : Option Nat → Option Nat → Option Nat
  | some a, some b => some (a + b)
  | _, _ => none

def optMax : Option Nat → Option Nat → Option Nat
  | some a, some b => some (max a b)
  | _, _ => none

def optMul : Option Nat → Option Nat → Option Nat
  | some a, some b => some (a * b)
  | _, _ => none

/-- union of the character predicates of everything in `r` that consumes input
(look-aheads consume nothing; a back-reference is not analysed: any character) -/
def Regex.charPred : Flags → Regex → Nat → Bool
  | _, .empty, _ => false
  | _, .fail, _ => false
  | fl, .lit a, c => litMatch fl a c
  | fl, .notLit a, c => !litMatch fl a c
  | fl, .any, c => anyMatch fl c
  | fl, .cls neg items, c => classMatch fl neg items c
  | fl, .seq a b, c => charPred fl a c || charPred fl b c
  | fl, .alt a b, c => charPred fl a c || charPred fl b c
  | fl, .rep _ _ _ r, c => charPred fl r c
  | fl, .group _ r, c => charPred fl r c
  | _, .withFlags fl' r, c => charPred fl' r c
  | _, .anchor _, _ => false
  | _, .backref _, _ => true
  | _, .look _ _, _ => false

/-- minimal and maximal number of characters a match of `r` consumes -/
def Regex.lenBound : Regex → Nat × Option Nat
  | .empty => (0, some 0)
  | .fail => (0, some 0)
  | .lit _ => (1, some 1)
  | .notLit _ => (1, some 1)
  | .any => (1, some 1)
  | .cls _ _ => (1, some 1)
  | .seq a b => (a.lenBound.1 + b.lenBound.1, optAdd a.lenBound.2 b.lenBound.2)
  | .alt a b => (min a.lenBound.1 b.lenBound.1, optMax a.lenBound.2 b.lenBound.2)
  | .rep _ mn mx r => (mn * r.lenBound.1, optMul (mx.map (max mn)) r.lenBound.2)
  | .group _ r => r.lenBound
  | .withFlags _ r => r.lenBound
  | .anchor _ => (0, some 0)
  | .backref _ => (0, none)
  | .look _ _ => (0, some 0)

/-- every way to match `r` ends at the very end of the subject (`…\Z`) -/
def Regex.endsAtEos : Regex → Bool
  | .anchor .eos => true
  | .seq _ b => b.endsAtEos
  | .alt a b => a.endsAtEos && b.endsAtEos
  | .group _ r => r.endsAtEos
  | .withFlags _ r => r.endsAtEos
  | _ => false

/-- every way to match `r` ends at the end of the subject or just before a final newline (`…$`
without MULTILINE, or `…\Z`) -/
def Regex.endsAtEol : Flags → Regex → Bool
  | fl, .anchor .eol => !fl.multiline
  | _, .anchor .eos => true
  | fl, .seq _ b => endsAtEol fl b
  | fl, .alt a b => endsAtEol fl a && endsAtEol fl b
  | fl, .group _ r => endsAtEol fl r
  | _, .withFlags fl' r => endsAtEol fl' r
  | _, _ => false

/-- `r` can only match at index 0 (`^…` without MULTILINE, or `\A…`) -/
def Regex.startsAtBos : Flags → Regex → Bool
  | _, .anchor .bos => true
  | fl, .anchor .bol => !fl.multiline
  | fl, .seq a _ => startsAtBos fl a
  | fl, .alt a b => startsAtBos fl a && startsAtBos fl b
  | fl, .group _ r => startsAtBos fl r
  | _, .withFlags fl' r => startsAtBos fl' r
  | _, _ => false

/-- the bodies (with the flags in force) of all groups numbered `i` in `r` -/
def Regex.groupBodies (i : Nat) : Flags → Regex → List (Flags × Regex)
  | fl, .seq a b => groupBodies i fl a ++ groupBodies i fl b
  | fl, .alt a b => groupBodies i fl a ++ groupBodies i fl b
  | fl, .rep _ _ _ r => groupBodies i fl r
  | fl, .group j r => (if j = i then [(fl, r)] else []) ++ groupBodies i fl r
  | _, .withFlags fl' r => groupBodies i fl' r
  | fl, .look _ r => groupBodies i fl r
  | _, _ => []

/-! ## `ends_shape` -/

omit T in
theorem LenIn.add {A B : Nat × Option Nat} {x y : Nat} (hx : LenIn A x) (hy : LenIn B y) :
    LenIn (A.1 + B.1, optAdd A.2 B.2) (x + y) := by
  refine ⟨Nat.add_le_add hx.1 hy.1, ?_⟩
  intro h hh
  cases ha : A.2 with
  | none => simp [ha, optAdd] at hh
  | some a =>
    cases hb : B.2 with
    | none => simp [ha, hb, optAdd] at hh
    | some b =>
      simp [ha, hb, optAdd] at hh
      have := hx.2 a ha
      have := hy.2 b hb
      omega

omit T in
theorem LenIn.alt_left {A B : Nat × Option Nat} {x : Nat} (hx : LenIn A x) :
    LenIn (min A.1 B.1, optMax A.2 B.2) x := by
  refine ⟨Nat.le_trans (Nat.min_le_left _ _) hx.1, ?_⟩
  intro h hh
  cases ha : A.2 with
  | none => simp [ha, optMax] at hh
  | some a =>
    cases hb : B.2 with
    | none => simp [ha, hb, optMax] at hh
    | some b =>
      simp [ha, hb, optMax] at hh
      have := hx.2 a ha
      omega

omit T in
theorem LenIn.alt_right {A B : Nat × Option Nat} {x : Nat} (hx : LenIn B x) :
    LenIn (min A.1 B.1, optMax A.2 B.2) x := by
  refine ⟨Nat.le_trans (Nat.min_le_right _ _) hx.1, ?_⟩
  intro h hh
  cases ha : A.2 with
  | none => simp [ha, optMax] at hh
  | some a =>
    cases hb : B.2 with
    | none => simp [ha, hb, optMax] at hh
    | some b =>
      simp [ha, hb, optMax] at hh
      have := hx.2 b hb
      omega

omit T in
theorem LenIn.rep {lo : Nat} {hi : Option Nat} {mn : Nat} {mx : Option Nat} {j n : Nat}
    (h1 : mn ≤ j) (h2 : ∀ m, mx = some m → j ≤ max mn m) (h3 : j * lo ≤ n)
    (h4 : ∀ h, hi = some h → n ≤ j * h) :
    LenIn (mn * lo, optMul (mx.map (max mn)) hi) n := by
  refine ⟨Nat.le_trans (Nat.mul_le_mul_right lo h1) h3, ?_⟩
  intro h hh
  cases hm : mx with
  | none => simp [hm, optMul] at hh
  | some m =>
    cases hhi : hi with
    | none => simp [hm, hhi, optMul] at hh
    | some b =>
      simp [hm, hhi, optMul] at hh
      have a1 := h4 b hhi
      have a2 := h2 m hm
      have : j * b ≤ max mn m * b := Nat.mul_le_mul_right b a2
      omega

omit T in
theorem Shape.refl {s : Str} {P : Nat → Bool} {L : Nat × Option Nat} {st : MState}
    (hL : LenIn L 0) : Shape s P L st st := by
  refine ⟨Nat.le_refl _, Seg.nil, ?_⟩
  simpa using hL

omit T in
theorem Shape.samePos {s : Str} {P : Nat → Bool} {L : Nat × Option Nat} {st st' : MState}
    (hp : st'.pos = st.pos) (hL : LenIn L 0) : Shape s P L st st' := by
  refine ⟨by omega, ?_, ?_⟩
  · rw [hp]; exact Seg.nil
  · rw [hp]; simpa using hL

omit T in
theorem shape_unit {s : Str} {P Q : Nat → Bool} {L : Nat × Option Nat} {st st' : MState}
    (h : st' ∈ stepChar s P st) (hpq : ∀ c, P c = true → Q c = true) (hL : L = (1, some 1)) :
    Shape s Q L st st' := by
  subst hL
  obtain ⟨a, b, c⟩ := shape_stepChar h
  exact ⟨a, b.mono hpq, c⟩

omit T in
theorem lenIn_zero : LenIn (0, some 0) 0 := by simp [LenIn]

/-- **shape of a match step**: from `st` the regex `r` consumes the characters between the two
positions; they all satisfy `r.charPred` and their number is within `r.lenBound`. -/
theorem ends_shape (s : Str) : ∀ (r : Regex) (fl : Flags) (st st' : MState),
    st' ∈ ends s fl r st → Shape s (r.charPred fl) r.lenBound st st' := by
  intro r
  induction r with
  | empty =>
    intro fl st st' h
    simp only [ends, List.mem_singleton] at h
    subst h
    exact Shape.refl lenIn_zero
  | fail => intro fl st st' h; simp [ends] at h
  | lit c =>
    intro fl st st' h
    exact shape_unit (by simpa [ends] using h) (by intro x hx; simpa [Regex.charPred] using hx) rfl
  | notLit c =>
    intro fl st st' h
    exact shape_unit (by simpa [ends] using h) (by intro x hx; simpa [Regex.charPred] using hx) rfl
  | any =>
    intro fl st st' h
    exact shape_unit (by simpa [ends] using h) (by intro x hx; simpa [Regex.charPred] using hx) rfl
  | cls neg items =>
    intro fl st st' h
    exact shape_unit (by simpa [ends] using h) (by intro x hx; simpa [Regex.charPred] using hx) rfl
  | seq a b iha ihb =>
    intro fl st st' h
    simp only [ends, List.mem_flatMap] at h
    obtain ⟨m, hm, hst'⟩ := h
    obtain ⟨a1, a2, a3⟩ := iha fl st m hm
    obtain ⟨b1, b2, b3⟩ := ihb fl m st' hst'
    refine ⟨by omega, Seg.append (a2.mono ?_) (b2.mono ?_), ?_⟩
    · intro c hc; simp [Regex.charPred, hc]
    · intro c hc; simp [Regex.charPred, hc]
    · have e : st'.pos - st.pos = (m.pos - st.pos) + (st'.pos - m.pos) := by omega
      rw [e]
      exact LenIn.add a3 b3
  | alt a b iha ihb =>
    intro fl st st' h
    simp only [ends, List.mem_append] at h
    rcases h with h | h
    · obtain ⟨a1, a2, a3⟩ := iha fl st st' h
      exact ⟨a1, a2.mono (by intro c hc; simp [Regex.charPred, hc]), LenIn.alt_left a3⟩
    · obtain ⟨a1, a2, a3⟩ := ihb fl st st' h
      exact ⟨a1, a2.mono (by intro c hc; simp [Regex.charPred, hc]), LenIn.alt_right a3⟩
  | rep greedy mn mx r ih =>
    intro fl st st' h
    simp only [ends] at h
    obtain ⟨j, k1, k2, k3, k4, k5, k6⟩ :=
      shape_repLoop (P := r.charPred fl) (lo := r.lenBound.1) (hi := r.lenBound.2)
        (fun x y hy => ih fl x y hy) _ _ _ _ _ h
    refine ⟨k1, k2, ?_⟩
    exact LenIn.rep (by omega) (by intro m hm; have := k4 m hm; omega) k5 k6
  | group i r ih =>
    intro fl st st' h
    simp only [ends, List.mem_map] at h
    obtain ⟨m, hm, rfl⟩ := h
    exact ih fl st m hm
  | withFlags fl' r ih =>
    intro fl st st' h
    simp only [ends] at h
    exact ih fl' st st' h
  | anchor k =>
    intro fl st st' h
    simp only [ends] at h
    split at h
    · simp only [List.mem_singleton] at h
      subst h
      exact Shape.refl lenIn_zero
    · simp at h
  | backref i =>
    intro fl st st' h
    simp only [ends] at h
    split at h
    · rename_i a b hcap
      split at h
      · rename_i hcond
        simp only [List.mem_singleton] at h
        subst h
        simp only [Bool.and_eq_true, beq_iff_eq] at hcond
        obtain ⟨⟨⟨_, _⟩, hlen⟩, _⟩ := hcond
        refine ⟨by simp, ?_, ?_⟩
        · intro k h1 h2
          simp only [slice, List.length_take, List.length_drop] at hlen
          simp only at h2
          have : k < s.length := by omega
          exact ⟨s[k], by simp [this], rfl⟩
        · simp [LenIn, Regex.lenBound]
      · simp at h
    · simp at h
  | look neg r ih =>
    intro fl st st' h
    simp only [ends] at h
    split at h
    · split at h
      · simp only [List.mem_singleton] at h
        subst h
        exact Shape.refl lenIn_zero
      · simp at h
    · split at h
      · simp at h
      · simp only [List.mem_singleton] at h
        subst h
        exact Shape.samePos rfl lenIn_zero

/-- matching only moves forward (the subject is a parameter of `ends`, hence unchanged) -/
theorem ends_progress {s : Str} {fl : Flags} {r : Regex} {st st' : MState}
    (h : st' ∈ ends s fl r st) : st.pos ≤ st'.pos :=
  (ends_shape s r fl st st' h).1

/-! ## anchored patterns -/

theorem ends_endsAtEol (s : Str) : ∀ (r : Regex) (fl : Flags) (st st' : MState),
    r.endsAtEol fl = true → st' ∈ ends s fl r st →
    st'.pos = s.length ∨ (st'.pos + 1 = s.length ∧ s[st'.pos]? = some 10) := by
  intro r
  induction r with
  | seq a b _ ihb =>
    intro fl st st' he h
    simp only [ends, List.mem_flatMap] at h
    obtain ⟨m, _, hst'⟩ := h
    exact ihb fl m st' (by simpa [Regex.endsAtEol] using he) hst'
  | alt a b iha ihb =>
    intro fl st st' he h
    simp only [Regex.endsAtEol, Bool.and_eq_true] at he
    simp only [ends, List.mem_append] at h
    rcases h with h | h
    · exact iha fl st st' he.1 h
    · exact ihb fl st st' he.2 h
  | group i r ih =>
    intro fl st st' he h
    simp only [ends, List.mem_map] at h
    obtain ⟨m, hm, rfl⟩ := h
    exact ih fl st m (by simpa [Regex.endsAtEol] using he) hm
  | withFlags fl' r ih =>
    intro fl st st' he h
    simp only [ends] at h
    exact ih fl' st st' (by simpa [Regex.endsAtEol] using he) h
  | anchor k =>
    intro fl st st' he h
    simp only [ends] at h
    split at h
    · rename_i hk
      simp only [List.mem_singleton] at h
      subst h
      cases k with
      | eol =>
        simp only [Regex.endsAtEol, Bool.not_eq_true'] at he
        simp only [anchorMatch, he, Bool.false_eq_true, if_false, Bool.or_eq_true, beq_iff_eq,
          Bool.and_eq_true] at hk
        exact hk
      | eos =>
        simp only [anchorMatch, beq_iff_eq] at hk
        exact Or.inl hk
      | bol => simp [Regex.endsAtEol] at he
      | bos => simp [Regex.endsAtEol] at he
      | wordB => simp [Regex.endsAtEol] at he
      | notWordB => simp [Regex.endsAtEol] at he
    · simp at h
  | empty => intro fl st st' he; simp [Regex.endsAtEol] at he
  | fail => intro fl st st' he; simp [Regex.endsAtEol] at he
  | lit c => intro fl st st' he; simp [Regex.endsAtEol] at he
  | notLit c => intro fl st st' he; simp [Regex.endsAtEol] at he
  | any => intro fl st st' he; simp [Regex.endsAtEol] at he
  | cls neg items => intro fl st st' he; simp [Regex.endsAtEol] at he
  | rep g mn mx r _ => intro fl st st' he; simp [Regex.endsAtEol] at he
  | backref i => intro fl st st' he; simp [Regex.endsAtEol] at he
  | look neg r _ => intro fl st st' he; simp [Regex.endsAtEol] at he

theorem ends_endsAtEos (s : Str) : ∀ (r : Regex) (fl : Flags) (st st' : MState),
    r.endsAtEos = true → st' ∈ ends s fl r st → st'.pos = s.length := by
  intro r
  induction r with
  | seq a b _ ihb =>
    intro fl st st' he h
    simp only [ends, List.mem_flatMap] at h
    obtain ⟨m, _, hst'⟩ := h
    exact ihb fl m st' (by simpa [Regex.endsAtEos] using he) hst'
  | alt a b iha ihb =>
    intro fl st st' he h
    simp only [Regex.endsAtEos, Bool.and_eq_true] at he
    simp only [ends, List.mem_append] at h
    rcases h with h | h
    · exact iha fl st st' he.1 h
    · exact ihb fl st st' he.2 h
  | group i r ih =>
    intro fl st st' he h
    simp only [ends, List.mem_map] at h
    obtain ⟨m, hm, rfl⟩ := h
    exact ih fl st m (by simpa [Regex.endsAtEos] using he) hm
  | withFlags fl' r ih =>
    intro fl st st' he h
    simp only [ends] at h
    exact ih fl' st st' (by simpa [Regex.endsAtEos] using he) h
  | anchor k =>
    intro fl st st' he h
    simp only [ends] at h
    split at h
    · rename_i hk
      simp only [List.mem_singleton] at h
      subst h
      cases k with
      | eos =>
        simp only [anchorMatch, beq_iff_eq] at hk
        exact hk
      | eol => simp [Regex.endsAtEos] at he
      | bol => simp [Regex.endsAtEos] at he
      | bos => simp [Regex.endsAtEos] at he
      | wordB => simp [Regex.endsAtEos] at he
      | notWordB => simp [Regex.endsAtEos] at he
    · simp at h
  | empty => intro fl st st' he; simp [Regex.endsAtEos] at he
  | fail => intro fl st st' he; simp [Regex.endsAtEos] at he
  | lit c => intro fl st st' he; simp [Regex.endsAtEos] at he
  | notLit c => intro fl st st' he; simp [Regex.endsAtEos] at he
  | any => intro fl st st' he; simp [Regex.endsAtEos] at he
  | cls neg items => intro fl st st' he; simp [Regex.endsAtEos] at he
  | rep g mn mx r _ => intro fl st st' he; simp [Regex.endsAtEos] at he
  | backref i => intro fl st st' he; simp [Regex.endsAtEos] at he
  | look neg r _ => intro fl st st' he; simp [Regex.endsAtEos] at he

theorem ends_startsAtBos (s : Str) : ∀ (r : Regex) (fl : Flags) (st st' : MState),
    r.startsAtBos fl = true → st' ∈ ends s fl r st → st.pos = 0 := by
  intro r
  induction r with
  | seq a b iha _ =>
    intro fl st st' he h
    simp only [ends, List.mem_flatMap] at h
    obtain ⟨m, hm, _⟩ := h
    exact iha fl st m (by simpa [Regex.startsAtBos] using he) hm
  | alt a b iha ihb =>
    intro fl st st' he h
    simp only [Regex.startsAtBos, Bool.and_eq_true] at he
    simp only [ends, List.mem_append] at h
    rcases h with h | h
    · exact iha fl st st' he.1 h
    · exact ihb fl st st' he.2 h
  | group i r ih =>
    intro fl st st' he h
    simp only [ends, List.mem_map] at h
    obtain ⟨m, hm, rfl⟩ := h
    exact ih fl st m (by simpa [Regex.startsAtBos] using he) hm
  | withFlags fl' r ih =>
    intro fl st st' he h
    simp only [ends] at h
    exact ih fl' st st' (by simpa [Regex.startsAtBos] using he) h
  | anchor k =>
    intro fl st st' he h
    simp only [ends] at h
    split at h
    · rename_i hk
      cases k with
      | bos =>
        simp only [anchorMatch, beq_iff_eq] at hk
        exact hk
      | bol =>
        simp only [Regex.startsAtBos, Bool.not_eq_true'] at he
        simp only [anchorMatch, he, Bool.false_and, Bool.or_false, beq_iff_eq] at hk
        exact hk
      | eol => simp [Regex.startsAtBos] at he
      | eos => simp [Regex.startsAtBos] at he
      | wordB => simp [Regex.startsAtBos] at he
      | notWordB => simp [Regex.startsAtBos] at he
    · simp at h
  | empty => intro fl st st' he; simp [Regex.startsAtBos] at he
  | fail => intro fl st st' he; simp [Regex.startsAtBos] at he
  | lit c => intro fl st st' he; simp [Regex.startsAtBos] at he
  | notLit c => intro fl st st' he; simp [Regex.startsAtBos] at he
  | any => intro fl st st' he; simp [Regex.startsAtBos] at he
  | cls neg items => intro fl st st' he; simp [Regex.startsAtBos] at he
  | rep g mn mx r _ => intro fl st st' he; simp [Regex.startsAtBos] at he
  | backref i => intro fl st st' he; simp [Regex.startsAtBos] at he
  | look neg r _ => intro fl st st' he; simp [Regex.startsAtBos] at he

/-! ## from segments of the subject to strings -/

omit T in
theorem Seg.allIn_slice {s : Str} {P : Nat → Bool} {a b : Nat} (h : Seg s P a b) :
    AllIn P (slice s a b) := by
  intro c hc
  obtain ⟨k, hk⟩ := List.mem_iff_getElem?.mp hc
  simp only [slice, List.getElem?_take, List.getElem?_drop] at hk
  split at hk
  · obtain ⟨c', hc', hp⟩ := h (a + k) (by omega) (by omega)
    rw [hk] at hc'
    cases hc'
    exact hp
  · cases hk

omit T in
theorem Seg.slice_length {s : Str} {P : Nat → Bool} {a b : Nat} (h : Seg s P a b) (hab : a ≤ b) :
    (slice s a b).length = b - a := by
  simp only [slice, List.length_take, List.length_drop]
  by_cases e : a = b
  · omega
  · have := h.le_length (by omega)
    omega

omit T in
theorem slice_zero (s : Str) (n : Nat) : slice s 0 n = s.take n := by simp [slice]

omit T in
theorem take_append_newline {s : Str} {n : Nat} (h1 : n + 1 = s.length) (h2 : s[n]? = some 10) :
    s = s.take n ++ [10] := by
  have hlt : n < s.length := by omega
  have hd : s.drop n = [10] := by
    rw [List.drop_eq_getElem_cons hlt]
    have : s[n] = 10 := by
      have := List.getElem?_eq_getElem hlt
      rw [this] at h2
      exact Option.some.inj h2
    rw [this, List.drop_of_length_le (by omega)]
  calc s = s.take n ++ s.drop n := (List.take_append_drop n s).symm
    _ = s.take n ++ [10] := by rw [hd]

/-! ## match objects -/

/-- `m` is a match object produced by running `p` on `s` from some start position -/
def Match.FromRun (p : Pattern) (s : Str) (m : Match) : Prop :=
  ∃ start st, st ∈ runAt p s start ∧ m = mkMatch p s start st

theorem run_shape {p : Pattern} {s : Str} {start : Nat} {st : MState} (h : st ∈ runAt p s start) :
    start ≤ st.pos ∧ Seg s (p.re.charPred p.flags) start st.pos ∧ LenIn p.re.lenBound (st.pos - start) :=
  ends_shape s p.re p.flags _ st h

theorem matchAt_some {p : Pattern} {s : Str} {k : Nat} {m : Match} (h : matchAt p s k = some m) :
    ∃ st, st ∈ runAt p s k ∧ m = mkMatch p s k st := by
  unfold matchAt at h
  cases hr : runAt p s k with
  | nil => simp [hr] at h
  | cons st rest =>
    simp only [hr, List.head?_cons, Option.map_some, Option.some.injEq] at h
    exact ⟨st, by simp, h.symm⟩

theorem match_some {p : Pattern} {s : Str} {m : Match} (h : match_ p s = some m) :
    ∃ st, st ∈ runAt p s 0 ∧ m = mkMatch p s 0 st := matchAt_some h

theorem fullmatch_some {p : Pattern} {s : Str} {m : Match} (h : fullmatch p s = some m) :
    ∃ st, st ∈ runAt p s 0 ∧ st.pos = s.length ∧ m = mkMatch p s 0 st := by
  unfold fullmatch at h
  cases hf : (runAt p s 0).find? (fun st => st.pos == s.length) with
  | none => simp [hf] at h
  | some st =>
    simp only [hf, Option.map_some, Option.some.injEq] at h
    have h1 := List.mem_of_find?_eq_some hf
    have h2 := List.find?_some hf
    exact ⟨st, h1, by simpa using h2, h.symm⟩

theorem scan_some {p : Pattern} {s : Str} : ∀ (fuel pos : Nat) {m : Match},
    scan p s fuel pos = some m → ∃ k st, pos ≤ k ∧ st ∈ runAt p s k ∧ m = mkMatch p s k st := by
  intro fuel
  induction fuel with
  | zero => intro pos m h; simp [scan] at h
  | succ fuel ih =>
    intro pos m h
    unfold scan at h
    cases hm : matchAt p s pos with
    | some m' =>
      simp only [hm, Option.some.injEq] at h
      subst h
      obtain ⟨st, h1, h2⟩ := matchAt_some hm
      exact ⟨pos, st, Nat.le_refl _, h1, h2⟩
    | none =>
      simp only [hm] at h
      obtain ⟨k, st, h1, h2, h3⟩ := ih (pos + 1) h
      exact ⟨k, st, by omega, h2, h3⟩

theorem searchFrom_some {p : Pattern} {s : Str} {adv : Bool} {start : Nat} {m : Match}
    (h : searchFrom p s adv start = some m) :
    ∃ k st, start ≤ k ∧ st ∈ runAt p s k ∧ m = mkMatch p s k st := by
  have key : ∀ first : Option MState, (∀ st, first = some st → st ∈ runAt p s start) →
      (match first with
        | some st => some (mkMatch p s start st)
        | none => scan p s (s.length - start) (start + 1)) = some m →
      ∃ k st, start ≤ k ∧ st ∈ runAt p s k ∧ m = mkMatch p s k st := by
    intro first hmem hres
    cases first with
    | some st =>
      simp only [Option.some.injEq] at hres
      exact ⟨start, st, Nat.le_refl _, hmem st rfl, hres.symm⟩
    | none =>
      simp only at hres
      obtain ⟨k, st, h1, h2, h3⟩ := scan_some _ _ hres
      exact ⟨k, st, by omega, h2, h3⟩
  unfold searchFrom at h
  refine key _ ?_ h
  intro st hst
  split at hst
  · exact List.mem_of_find?_eq_some hst
  · exact List.mem_of_mem_head? hst

theorem match_fromRun {p : Pattern} {s : Str} {m : Match} (h : match_ p s = some m) : m.FromRun p s := by
  obtain ⟨st, h1, h2⟩ := match_some h
  exact ⟨0, st, h1, h2⟩

theorem fullmatch_fromRun {p : Pattern} {s : Str} {m : Match} (h : fullmatch p s = some m) :
    m.FromRun p s := by
  obtain ⟨st, h1, _, h2⟩ := fullmatch_some h
  exact ⟨0, st, h1, h2⟩

theorem search_fromRun {p : Pattern} {s : Str} {m : Match} (h : search p s = some m) : m.FromRun p s := by
  obtain ⟨k, st, _, h1, h2⟩ := searchFrom_some h
  exact ⟨k, st, h1, h2⟩

theorem iterFrom_fromRun {p : Pattern} {s : Str} : ∀ (fuel start : Nat) (adv : Bool) (m : Match),
    m ∈ iterFrom p s fuel start adv → m.FromRun p s := by
  intro fuel
  induction fuel with
  | zero => intro start adv m h; simp [iterFrom] at h
  | succ fuel ih =>
    intro start adv m h
    unfold iterFrom at h
    split at h
    · simp at h
    · split at h
      · simp at h
      · rename_i m' hs
        simp only [List.mem_cons] at h
        rcases h with h | h
        · subst h
          obtain ⟨k, st, _, h1, h2⟩ := searchFrom_some hs
          exact ⟨k, st, h1, h2⟩
        · exact ih _ _ _ h

theorem finditer_fromRun {p : Pattern} {s : Str} {m : Match} (h : m ∈ finditer p s) : m.FromRun p s :=
  iterFrom_fromRun _ _ _ _ h

/-- a pattern that starts with `^` (no MULTILINE) or `\A` can only be found at index 0:
`search` and `match` coincide -/
theorem search_eq_match {p : Pattern} (hb : p.re.startsAtBos p.flags = true) (s : Str) :
    search p s = match_ p s := by
  have hnone : ∀ k, 0 < k → matchAt p s k = none := by
    intro k hk
    cases hm : matchAt p s k with
    | none => rfl
    | some m =>
      obtain ⟨st, h1, _⟩ := matchAt_some hm
      have := ends_startsAtBos s p.re p.flags _ st hb h1
      simp [MState.init] at this
      omega
  have hscan : ∀ fuel pos, 0 < pos → scan p s fuel pos = none := by
    intro fuel
    induction fuel with
    | zero => intro pos _; rfl
    | succ fuel ih =>
      intro pos hpos
      unfold scan
      rw [hnone pos hpos]
      exact ih (pos + 1) (by omega)
  unfold search searchFrom match_ matchAt
  simp only [Bool.false_eq_true, if_false]
  cases hr : (runAt p s 0).head? with
  | some st => simp
  | none => simp [hscan]

/-! ## the shape theorems for whole matches -/

/-- core fact behind `match_shape_eol` -/
theorem run_shape_eol {p : Pattern} {s : Str} {st : MState} (he : p.re.endsAtEol p.flags = true)
    (h : st ∈ runAt p s 0) :
    ∃ core, (s = core ∨ s = core ++ [10]) ∧ st.pos = core.length ∧ core = s.take st.pos ∧
      AllIn (p.re.charPred p.flags) core ∧ LenIn p.re.lenBound core.length := by
  obtain ⟨_, h2, h3⟩ := run_shape h
  have hall : AllIn (p.re.charPred p.flags) (s.take st.pos) := by
    have := h2.allIn_slice
    rwa [slice_zero] at this
  rcases ends_endsAtEol s p.re p.flags _ st he h with hpos | ⟨hpos, hnl⟩
  · have e : s.take st.pos = s := by rw [hpos]; exact List.take_length
    refine ⟨s, Or.inl rfl, hpos, e.symm, ?_, ?_⟩
    · rwa [e] at hall
    · rw [← hpos]; simpa using h3
  · have hlen : (s.take st.pos).length = st.pos := by
      rw [List.length_take]; omega
    refine ⟨s.take st.pos, Or.inr (take_append_newline hpos hnl), hlen.symm, rfl, hall, ?_⟩
    rw [hlen]; simpa using h3

/-- **`re.match` with a pattern that ends in `$`** (no MULTILINE) or `\Z`: the subject is
`core` or `core ++ "\n"`, the match covers exactly `core`, every character of `core` satisfies the
union of the pattern's classes and `|core|` is within the pattern's length bounds. -/
theorem match_shape_eol {p : Pattern} {s : Str} {m : Match} (he : p.re.endsAtEol p.flags = true)
    (hm : match_ p s = some m) :
    ∃ core, (s = core ∨ s = core ++ [10]) ∧ m.start = 0 ∧ m.stop = core.length ∧ m.group0 = core ∧
      AllIn (p.re.charPred p.flags) core ∧ LenIn p.re.lenBound core.length := by
  obtain ⟨st, h1, rfl⟩ := match_some hm
  obtain ⟨core, c1, c2, c3, c4, c5⟩ := run_shape_eol he h1
  refine ⟨core, c1, rfl, c2, ?_, c4, c5⟩
  simp only [Match.group0, mkMatch, slice_zero]
  exact c3.symm

/-- **`re.match` with a pattern that ends in `\Z`**: the whole subject is matched. -/
theorem match_shape_eos {p : Pattern} {s : Str} {m : Match} (he : p.re.endsAtEos = true)
    (hm : match_ p s = some m) :
    m.start = 0 ∧ m.stop = s.length ∧ m.group0 = s ∧
      AllIn (p.re.charPred p.flags) s ∧ LenIn p.re.lenBound s.length := by
  obtain ⟨st, h1, rfl⟩ := match_some hm
  obtain ⟨_, h2, h3⟩ := run_shape h1
  have hpos := ends_endsAtEos s p.re p.flags _ st he h1
  have hall := h2.allIn_slice
  rw [slice_zero, hpos, List.take_length] at hall
  refine ⟨rfl, hpos, ?_, hall, ?_⟩
  · simp [Match.group0, mkMatch, slice_zero, hpos]
  · rw [← hpos]; simpa using h3

/-- **`re.fullmatch`**: the whole subject is matched. -/
theorem fullmatch_shape {p : Pattern} {s : Str} {m : Match} (hm : fullmatch p s = some m) :
    m.start = 0 ∧ m.stop = s.length ∧ m.group0 = s ∧
      AllIn (p.re.charPred p.flags) s ∧ LenIn p.re.lenBound s.length := by
  obtain ⟨st, h1, hpos, rfl⟩ := fullmatch_some hm
  obtain ⟨_, h2, h3⟩ := run_shape h1
  have hall := h2.allIn_slice
  rw [slice_zero, hpos, List.take_length] at hall
  refine ⟨rfl, hpos, ?_, hall, ?_⟩
  · simp [Match.group0, mkMatch, slice_zero, hpos]
  · rw [← hpos]; simpa using h3

/-- `re.search` with `^…$`: same conclusion as `match_shape_eol` -/
theorem search_shape_eol {p : Pattern} {s : Str} {m : Match} (hb : p.re.startsAtBos p.flags = true)
    (he : p.re.endsAtEol p.flags = true) (hm : search p s = some m) :
    ∃ core, (s = core ∨ s = core ++ [10]) ∧ m.start = 0 ∧ m.stop = core.length ∧ m.group0 = core ∧
      AllIn (p.re.charPred p.flags) core ∧ LenIn p.re.lenBound core.length :=
  match_shape_eol he (by rwa [search_eq_match hb] at hm)

/-- any match object: the matched text satisfies the class union and the length bounds -/
theorem match_group0_shape {p : Pattern} {s : Str} {m : Match} (hm : m.FromRun p s) :
    AllIn (p.re.charPred p.flags) m.group0 ∧ LenIn p.re.lenBound m.group0.length := by
  obtain ⟨start, st, h1, rfl⟩ := hm
  obtain ⟨h0, h2, h3⟩ := run_shape h1
  refine ⟨h2.allIn_slice, ?_⟩
  simp only [Match.group0, mkMatch]
  rw [h2.slice_length h0]
  exact h3

/-! ## per-group shape -/

/-- invariant of the capture table: whatever is stored for group `i` is a segment of the subject that
has the shape of one of the bodies `B` -/
def CapOK (s : Str) (i : Nat) (B : List (Flags × Regex)) (caps : List (Option (Nat × Nat))) : Prop :=
  ∀ a b, caps[i]? = some (some (a, b)) →
    ∃ fb ∈ B, a ≤ b ∧ Seg s (fb.2.charPred fb.1) a b ∧ LenIn fb.2.lenBound (b - a)

omit T in
theorem capOK_repLoop {Q : MState → Prop}
    {greedy : Bool} {mn : Nat} {mx : Option Nat} {step : MState → List MState}
    (hstep : ∀ x y, y ∈ step x → Q x → Q y) :
    ∀ (fuel count : Nat) (last : Option Nat) (st st' : MState),
      st' ∈ repLoop greedy mn mx step fuel count last st → Q st → Q st' := by
  intro fuel
  induction fuel with
  | zero => intro count last st st' h; simp [repLoop] at h
  | succ fuel ih =>
    intro count last st st' h hq
    have go : ∀ (c : Nat) (last' : Option Nat),
        st' ∈ (step st).flatMap (repLoop greedy mn mx step fuel c last') → Q st' := by
      intro c last' hmem
      obtain ⟨m, hm, hst'⟩ := List.mem_flatMap.mp hmem
      exact ih c last' m st' hst' (hstep st m hm hq)
    unfold repLoop at h
    by_cases hc : count < mn
    · simp only [hc, if_true] at h
      exact go _ _ h
    · simp only [hc, if_false] at h
      have hmore : st' ∈ (if (underMax mx count && last != some st.pos) = true then
            (step st).flatMap (repLoop greedy mn mx step fuel (count + 1) (some st.pos)) else []) →
          Q st' := by
        intro hin
        by_cases hcond : (underMax mx count && last != some st.pos) = true
        · rw [if_pos hcond] at hin; exact go _ _ hin
        · rw [if_neg hcond] at hin; simp at hin
      cases greedy with
      | true =>
        simp only [if_true, List.mem_append, List.mem_singleton] at h
        rcases h with h | h
        · exact hmore h
        · subst h; exact hq
      | false =>
        simp only [Bool.false_eq_true, if_false, List.mem_cons] at h
        rcases h with h | h
        · subst h; exact hq
        · exact hmore h

theorem ends_capOK (s : Str) (i : Nat) (B : List (Flags × Regex)) :
    ∀ (r : Regex) (fl : Flags) (st st' : MState), st' ∈ ends s fl r st →
      (∀ x ∈ r.groupBodies i fl, x ∈ B) → CapOK s i B st.caps → CapOK s i B st'.caps := by
  intro r
  induction r with
  | empty => intro fl st st' h _ hq; simp only [ends, List.mem_singleton] at h; subst h; exact hq
  | fail => intro fl st st' h; simp [ends] at h
  | lit c =>
    intro fl st st' h _ hq
    obtain ⟨_, _, _, rfl⟩ := mem_stepChar.mp (by simpa [ends] using h)
    exact hq
  | notLit c =>
    intro fl st st' h _ hq
    obtain ⟨_, _, _, rfl⟩ := mem_stepChar.mp (by simpa [ends] using h)
    exact hq
  | any =>
    intro fl st st' h _ hq
    obtain ⟨_, _, _, rfl⟩ := mem_stepChar.mp (by simpa [ends] using h)
    exact hq
  | cls neg items =>
    intro fl st st' h _ hq
    obtain ⟨_, _, _, rfl⟩ := mem_stepChar.mp (by simpa [ends] using h)
    exact hq
  | seq a b iha ihb =>
    intro fl st st' h hB hq
    simp only [ends, List.mem_flatMap] at h
    obtain ⟨m, hm, hst'⟩ := h
    simp only [Regex.groupBodies, List.mem_append] at hB
    exact ihb fl m st' hst' (fun x hx => hB x (Or.inr hx)) (iha fl st m hm (fun x hx => hB x (Or.inl hx)) hq)
  | alt a b iha ihb =>
    intro fl st st' h hB hq
    simp only [ends, List.mem_append] at h
    simp only [Regex.groupBodies, List.mem_append] at hB
    rcases h with h | h
    · exact iha fl st st' h (fun x hx => hB x (Or.inl hx)) hq
    · exact ihb fl st st' h (fun x hx => hB x (Or.inr hx)) hq
  | rep greedy mn mx r ih =>
    intro fl st st' h hB hq
    simp only [ends] at h
    simp only [Regex.groupBodies] at hB
    exact capOK_repLoop (Q := fun x => CapOK s i B x.caps)
      (fun x y hy hx => ih fl x y hy hB hx) _ _ _ _ _ h hq
  | group j r ih =>
    intro fl st st' h hB hq
    simp only [ends, List.mem_map] at h
    obtain ⟨m, hm, rfl⟩ := h
    simp only [Regex.groupBodies, List.mem_append] at hB
    have hm' := ih fl st m hm (fun x hx => hB x (Or.inr hx)) hq
    by_cases hji : j = i
    · subst hji
      intro a b hab
      simp only at hab
      by_cases hlt : j < m.caps.length
      · rw [List.getElem?_set_self hlt] at hab
        simp only [Option.some.injEq, Prod.mk.injEq] at hab
        obtain ⟨rfl, rfl⟩ := hab
        obtain ⟨h1, h2, h3⟩ := ends_shape s r fl st m hm
        exact ⟨(fl, r), hB _ (Or.inl (by simp)), h1, h2, h3⟩
      · rw [List.getElem?_eq_none (by simp; omega)] at hab
        cases hab
    · intro a b hab
      simp only at hab
      rw [List.getElem?_set_ne hji] at hab
      exact hm' a b hab
  | withFlags fl' r ih =>
    intro fl st st' h hB hq
    simp only [ends] at h
    simp only [Regex.groupBodies] at hB
    exact ih fl' st st' h hB hq
  | anchor k =>
    intro fl st st' h _ hq
    simp only [ends] at h
    split at h
    · simp only [List.mem_singleton] at h; subst h; exact hq
    · simp at h
  | backref j =>
    intro fl st st' h _ hq
    simp only [ends] at h
    split at h
    · split at h
      · simp only [List.mem_singleton] at h; subst h; exact hq
      · simp at h
    · simp at h
  | look neg r ih =>
    intro fl st st' h hB hq
    simp only [ends] at h
    simp only [Regex.groupBodies] at hB
    split at h
    · split at h
      · simp only [List.mem_singleton] at h; subst h; exact hq
      · simp at h
    · rename_i m rest hr
      split at h
      · simp at h
      · simp only [List.mem_singleton] at h
        subst h
        exact ih fl st m (by rw [hr]; simp) hB hq

theorem capOK_init (s : Str) (i : Nat) (B : List (Flags × Regex)) (p : Pattern) (start : Nat) :
    CapOK s i B (MState.init p start).caps := by
  intro a b h
  simp only [MState.init, List.getElem?_replicate] at h
  split at h <;> simp at h

/-- **per-group shape**: in any match object produced by `p` (via `match_`, `search`, `fullmatch`,
`finditer` … see `match_fromRun` etc.), the text of group `i ≥ 1` consists of characters from the
class union of (one of) the group's bodies and its length is within that body's bounds.
For a concrete pattern `p.re.groupBodies i p.flags` evaluates to a one-element list. -/
theorem group_shape {p : Pattern} {s : Str} {m : Match} (hm : m.FromRun p s) {i : Nat} (hi : 0 < i)
    {t : Str} (hg : m.group i = some t) :
    ∃ fb ∈ p.re.groupBodies i p.flags,
      AllIn (fb.2.charPred fb.1) t ∧ LenIn fb.2.lenBound t.length := by
  obtain ⟨start, st, h1, rfl⟩ := hm
  have hcap := ends_capOK s i (p.re.groupBodies i p.flags) p.re p.flags _ st h1 (fun x hx => hx)
    (capOK_init s i _ p start)
  obtain ⟨i', rfl⟩ : ∃ i', i = i' + 1 := ⟨i - 1, by omega⟩
  simp only [Match.group, Match.span, mkMatch, Option.map_eq_some_iff] at hg
  obtain ⟨⟨a, b⟩, hab, rfl⟩ := hg
  have hab' : st.caps[i' + 1]? = some (some (a, b)) := by
    cases hc : st.caps[i' + 1]? with
    | none => simp [hc] at hab
    | some o => simpa [hc] using hab
  obtain ⟨fb, hfb, k1, k2, k3⟩ := hcap a b hab'
  refine ⟨fb, hfb, k2.allIn_slice, ?_⟩
  simp only
  rw [k2.slice_length k1]
  exact k3

/-! ## completeness for loops over a one-character item, and `isdigits` -/

omit T in
/-- if the next `k` characters satisfy `P`, a `{mn,}` loop over a one-character item can stop after
exactly `k ≥ mn` of them -/
theorem mem_repLoop_unit {s : Str} {P : Nat → Bool} {greedy : Bool} {mn : Nat}
    {step : MState → List MState} (hstep : ∀ st, step st = stepChar s P st) :
    ∀ (k fuel count : Nat) (last : Option Nat) (st : MState),
      (∀ j, j < k → ∃ c, s[st.pos + j]? = some c ∧ P c = true) → mn ≤ count + k →
      k + (mn - count) < fuel → last ≠ some st.pos →
      { st with pos := st.pos + k } ∈ repLoop greedy mn none step fuel count last st := by
  intro k
  induction k with
  | zero =>
    intro fuel count last st _ hmn hfuel _
    obtain ⟨fuel', rfl⟩ : ∃ f, fuel = f + 1 := ⟨fuel - 1, by omega⟩
    unfold repLoop
    have : ¬ count < mn := by omega
    simp only [this, if_false, Nat.add_zero]
    cases greedy <;> simp
  | succ k ih =>
    intro fuel count last st hch hmn hfuel hlast
    obtain ⟨fuel', rfl⟩ : ∃ f, fuel = f + 1 := ⟨fuel - 1, by omega⟩
    obtain ⟨c, hc, hp⟩ := hch 0 (by omega)
    have hs : step st = [{ st with pos := st.pos + 1 }] := by
      rw [hstep, stepChar]
      simp only [Nat.add_zero] at hc
      simp [hc, hp]
    have hch' : ∀ j, j < k → ∃ c, s[st.pos + 1 + j]? = some c ∧ P c = true := by
      intro j hj
      have := hch (j + 1) (by omega)
      have e : st.pos + 1 + j = st.pos + (j + 1) := by omega
      rw [e]; exact this
    have e : ({ st with pos := st.pos + (k + 1) } : MState) =
        { ({ st with pos := st.pos + 1 } : MState) with pos := st.pos + 1 + k } := by
      simp; omega
    unfold repLoop
    by_cases hcnt : count < mn
    · simp only [hcnt, if_true, hs, List.flatMap_cons, List.flatMap_nil, List.append_nil]
      rw [e]
      exact ih fuel' (count + 1) none _ hch' (by omega) (by omega) (by simp)
    · have hmore : ({ st with pos := st.pos + (k + 1) } : MState) ∈
          (if (underMax none count && last != some st.pos) = true then
            (step st).flatMap (repLoop greedy mn none step fuel' (count + 1) (some st.pos)) else []) := by
        have hc2 : (underMax none count && last != some st.pos) = true := by
          simp [underMax, hlast]
        rw [if_pos hc2, hs]
        simp only [List.flatMap_cons, List.flatMap_nil, List.append_nil]
        rw [e]
        exact ih fuel' (count + 1) (some st.pos) _ hch' (by omega) (by omega) (by simp)
      simp only [hcnt, if_false]
      cases greedy with
      | true => simp only [if_true, List.mem_append]; exact Or.inl hmore
      | false => simp only [Bool.false_eq_true, if_false, List.mem_cons]; exact Or.inr hmore

omit T in
theorem isSome_head?_of_mem {α : Type} {l : List α} {a : α} (h : a ∈ l) : l.head?.isSome = true := by
  cases l with
  | nil => cases h
  | cons _ _ => rfl

/-- `^ item+ tail` succeeds when the subject starts with `d`, all of `d` matches the one-character
`item`, and `tail` (an anchor) accepts position `|d|` -/
theorem match_plus_anchor {item : Regex} {P : Nat → Bool} {k : Anchor} {s d rest : Str}
    (hitem : ∀ st, ends s {} item st = stepChar s P st)
    (hs : s = d ++ rest) (hd : d ≠ []) (hP : AllIn P d)
    (hk : anchorMatch {} s d.length k = true) :
    (match_ { re := .seq (.anchor .bol) (.seq (.rep true 1 none item) (.anchor k)) } s).isSome = true := by
  unfold match_ matchAt
  rw [Option.isSome_map]
  apply isSome_head?_of_mem (a := ⟨d.length, [none]⟩)
  simp only [runAt, MState.init, ends, List.mem_flatMap]
  refine ⟨⟨0, [none]⟩, by simp [anchorMatch], ⟨d.length, [none]⟩, ?_, by simp [hk]⟩
  have hlen : 0 < d.length := List.length_pos_iff.mpr hd
  have := mem_repLoop_unit (s := s) (P := P) (greedy := true) (mn := 1) (step := ends s {} item) hitem
    d.length (1 + (s.length - 0) + 2) 0 none ⟨0, [none]⟩ ?_ (by omega) ?_ (by simp)
  · simpa using this
  · intro j hj
    have hj' : j < d.length := hj
    refine ⟨d[j], ?_, hP _ (List.getElem_mem hj')⟩
    simp [hs, List.getElem?_append_left hj']
  · simp [hs]; omega

/-- **`util.isdigits` as shipped** (`^[0-9]+$`): accepts exactly the non-empty ASCII digit strings,
optionally followed by ONE newline. -/
theorem match_digitsDollar_iff (s : Str) :
    (match_ digitsDollar s).isSome = true ↔
      ∃ d, d ≠ [] ∧ AllIn isAsciiDigit d ∧ (s = d ∨ s = d ++ [10]) := by
  constructor
  · intro h
    obtain ⟨m, hm⟩ := Option.isSome_iff_exists.mp h
    obtain ⟨core, c1, _, _, _, c4, c5⟩ := match_shape_eol (p := digitsDollar) rfl hm
    refine ⟨core, ?_, ?_, c1⟩
    · have := c5.1
      simp [digitsDollar, Regex.lenBound] at this
      intro e; simp [e] at this
    · intro c hc
      have := c4 c hc
      simpa [digitsDollar, Regex.charPred, classMatch, itemMatch] using this
  · rintro ⟨d, hd, hall, hs⟩
    have hitem : ∀ st, ends s {} (.cls false [.range 48 57]) st = stepChar s isAsciiDigit st := by
      intro st
      simp only [ends]
      congr 1
      funext c
      simp [classMatch, itemMatch]
    rcases hs with hs | hs
    · exact match_plus_anchor (rest := []) hitem (by simpa using hs) hd hall (by simp [anchorMatch, hs])
    · exact match_plus_anchor (rest := [10]) hitem hs hd hall (by simp [anchorMatch, hs])

/-- **`^[0-9]+\Z`**: accepts exactly the non-empty ASCII digit strings. -/
theorem match_digitsZ_iff (s : Str) :
    (match_ digitsZ s).isSome = true ↔ s ≠ [] ∧ AllIn isAsciiDigit s := by
  constructor
  · intro h
    obtain ⟨m, hm⟩ := Option.isSome_iff_exists.mp h
    obtain ⟨_, _, _, c4, c5⟩ := match_shape_eos (p := digitsZ) rfl hm
    constructor
    · have := c5.1
      simp [digitsZ, Regex.lenBound] at this
      intro e; simp [e] at this
    · intro c hc
      have := c4 c hc
      simpa [digitsZ, Regex.charPred, classMatch, itemMatch] using this
  · rintro ⟨hd, hall⟩
    have hitem : ∀ st, ends s {} (.cls false [.range 48 57]) st = stepChar s isAsciiDigit st := by
      intro st
      simp only [ends]
      congr 1
      funext c
      simp [classMatch, itemMatch]
    exact match_plus_anchor (rest := []) hitem (by simp) hd hall (by simp [anchorMatch])

/-! ## exact characterisation of fixed-width patterns

Most gates of the library are of the form `^[A-Z]{5}[0-9]{4}[A-Z]$`: a concatenation of one-character
items with fixed repeat counts (possibly inside groups) between `^` and `$`/`\Z`.  For these,
`re.match` succeeds **iff** the subject fits the list of per-position predicates
`Regex.fixedAnchored` computes. -/

/-- per-position predicates, if `r` is a concatenation of one-character items with fixed counts -/
def Regex.fixed : Flags → Regex → Option (List (Nat → Bool))
  | _, .empty => some []
  | fl, .lit a => some [litMatch fl a]
  | fl, .notLit a => some [fun c => !litMatch fl a c]
  | fl, .any => some [anyMatch fl]
  | fl, .cls neg items => some [classMatch fl neg items]
  | fl, .seq a b =>
    match fixed fl a, fixed fl b with
    | some x, some y => some (x ++ y)
    | _, _ => none
  | fl, .rep _ mn (some mx) r =>
    if mn = mx then
      match fixed fl r with
      | some l => some (List.replicate mn l).flatten
      | none => none
    else none
  | fl, .group _ r => fixed fl r
  | _, .withFlags fl' r => fixed fl' r
  | _, _ => none

/-- `fixed` items followed by a final anchor (right-nested sequence as produced by the serialiser) -/
def Regex.fixedTail : Flags → Regex → Option (List (Nat → Bool) × Anchor)
  | _, .anchor k => some ([], k)
  | fl, .seq a b =>
    match Regex.fixed fl a, fixedTail fl b with
    | some x, some (y, k) => some (x ++ y, k)
    | _, _ => none
  | _, _ => none

/-- `^ items… $` / `^ items… \Z` without MULTILINE -/
def Regex.fixedAnchored (fl : Flags) : Regex → Option (List (Nat → Bool) × Anchor)
  | .seq (.anchor .bol) b => if fl.multiline then none else Regex.fixedTail fl b
  | _ => none

/-- the characters of `s` from index `pos` on satisfy the predicates one by one -/
def FitsAt (s : Str) : Nat → List (Nat → Bool) → Prop
  | _, [] => True
  | pos, p :: ps => (∃ c, s[pos]? = some c ∧ p c = true) ∧ FitsAt s (pos + 1) ps

omit T in
theorem fitsAt_append {s : Str} : ∀ (xs ys : List (Nat → Bool)) (pos : Nat),
    FitsAt s pos (xs ++ ys) ↔ FitsAt s pos xs ∧ FitsAt s (pos + xs.length) ys := by
  intro xs
  induction xs with
  | nil => intro ys pos; simp [FitsAt]
  | cons x xs ih =>
    intro ys pos
    simp only [List.cons_append, FitsAt, ih, List.length_cons]
    have e : pos + 1 + xs.length = pos + (xs.length + 1) := by omega
    rw [e, and_assoc]

omit T in
theorem fitsAt_iff_forall {s : Str} : ∀ (ps : List (Nat → Bool)) (pos : Nat),
    FitsAt s pos ps ↔ ∀ j (h : j < ps.length), ∃ c, s[pos + j]? = some c ∧ ps[j] c = true := by
  intro ps
  induction ps with
  | nil => intro pos; simp [FitsAt]
  | cons p ps ih =>
    intro pos
    simp only [FitsAt, ih, List.length_cons]
    constructor
    · rintro ⟨h0, hrest⟩ j hj
      cases j with
      | zero => simpa using h0
      | succ j =>
        have := hrest j (by omega)
        have e : pos + 1 + j = pos + (j + 1) := by omega
        simpa [e] using this
    · intro h
      refine ⟨by simpa using h 0 (by omega), ?_⟩
      intro j hj
      have := h (j + 1) (by omega)
      have e : pos + 1 + j = pos + (j + 1) := by omega
      simpa [e] using this

omit T in
theorem fitsAt_unit {s : Str} {p : Nat → Bool} {st st' : MState} (h : st' ∈ stepChar s p st) :
    FitsAt s st.pos [p] ∧ st'.pos = st.pos + [p].length := by
  obtain ⟨c, hc, hp, rfl⟩ := mem_stepChar.mp h
  exact ⟨⟨⟨c, hc, hp⟩, trivial⟩, rfl⟩

omit T in
theorem fitsAt_unit_complete {s : Str} {p : Nat → Bool} {st : MState} (h : FitsAt s st.pos [p]) :
    ∃ st' ∈ stepChar s p st, st'.pos = st.pos + [p].length := by
  obtain ⟨⟨c, hc, hp⟩, _⟩ := h
  exact ⟨{ st with pos := st.pos + 1 }, mem_stepChar.mpr ⟨c, hc, hp, rfl⟩, rfl⟩

omit T in
theorem fixed_repLoop_sound {s : Str} {l : List (Nat → Bool)} {greedy : Bool} {n : Nat}
    {step : MState → List MState}
    (hstep : ∀ x y, y ∈ step x → FitsAt s x.pos l ∧ y.pos = x.pos + l.length) :
    ∀ (fuel count : Nat) (last : Option Nat) (st st' : MState), count ≤ n →
      st' ∈ repLoop greedy n (some n) step fuel count last st →
      FitsAt s st.pos (List.replicate (n - count) l).flatten ∧
        st'.pos = st.pos + (List.replicate (n - count) l).flatten.length := by
  intro fuel
  induction fuel with
  | zero => intro count last st st' _ h; simp [repLoop] at h
  | succ fuel ih =>
    intro count last st st' hle h
    unfold repLoop at h
    by_cases hc : count < n
    · simp only [hc, if_true] at h
      obtain ⟨m, hm, hst'⟩ := List.mem_flatMap.mp h
      obtain ⟨h1, h2⟩ := hstep st m hm
      obtain ⟨k1, k2⟩ := ih (count + 1) none m st' (by omega) hst'
      have e : n - count = (n - (count + 1)) + 1 := by omega
      rw [e, List.replicate_succ, List.flatten_cons, fitsAt_append, List.length_append]
      rw [h2] at k1 k2
      exact ⟨⟨h1, k1⟩, by omega⟩
    · have hcn : count = n := by omega
      have hu : underMax (some n) count = false := by simp [underMax, hcn]
      simp only [hc, if_false, hu, Bool.false_and, Bool.false_eq_true] at h
      have : st' = st := by cases greedy <;> simpa using h
      subst this
      simp [hcn, FitsAt]

omit T in
theorem fixed_repLoop_complete {s : Str} {l : List (Nat → Bool)} {greedy : Bool} {n : Nat}
    {step : MState → List MState}
    (hstep : ∀ x, FitsAt s x.pos l → ∃ y ∈ step x, y.pos = x.pos + l.length) :
    ∀ (k fuel count : Nat) (last : Option Nat) (st : MState), count + k = n → k < fuel →
      FitsAt s st.pos (List.replicate k l).flatten →
      ∃ st' ∈ repLoop greedy n (some n) step fuel count last st,
        st'.pos = st.pos + (List.replicate k l).flatten.length := by
  intro k
  induction k with
  | zero =>
    intro fuel count last st hk hf _
    obtain ⟨fuel', rfl⟩ : ∃ f, fuel = f + 1 := ⟨fuel - 1, by omega⟩
    refine ⟨st, ?_, by simp⟩
    unfold repLoop
    have hc : ¬ count < n := by omega
    simp only [hc, if_false]
    cases greedy <;> simp
  | succ k ih =>
    intro fuel count last st hk hf hfit
    obtain ⟨fuel', rfl⟩ : ∃ f, fuel = f + 1 := ⟨fuel - 1, by omega⟩
    rw [List.replicate_succ, List.flatten_cons, fitsAt_append] at hfit
    obtain ⟨m, hm, hmpos⟩ := hstep st hfit.1
    obtain ⟨st', h1, h2⟩ := ih fuel' (count + 1) none m (by omega) (by omega) (by rw [hmpos]; exact hfit.2)
    refine ⟨st', ?_, ?_⟩
    · unfold repLoop
      have hc : count < n := by omega
      simp only [hc, if_true]
      exact List.mem_flatMap.mpr ⟨m, hm, h1⟩
    · rw [List.replicate_succ, List.flatten_cons, List.length_append, h2, hmpos]; omega

theorem ends_fixed_sound (s : Str) : ∀ (r : Regex) (fl : Flags) (ps : List (Nat → Bool)) (st st' : MState),
    r.fixed fl = some ps → st' ∈ ends s fl r st →
    FitsAt s st.pos ps ∧ st'.pos = st.pos + ps.length := by
  intro r
  induction r with
  | empty =>
    intro fl ps st st' hf h
    simp only [Regex.fixed, Option.some.injEq] at hf
    simp only [ends, List.mem_singleton] at h
    subst hf h
    simp [FitsAt]
  | lit c =>
    intro fl ps st st' hf h
    simp only [Regex.fixed, Option.some.injEq] at hf
    subst hf
    exact fitsAt_unit (by simpa [ends] using h)
  | notLit c =>
    intro fl ps st st' hf h
    simp only [Regex.fixed, Option.some.injEq] at hf
    subst hf
    exact fitsAt_unit (by simpa [ends] using h)
  | any =>
    intro fl ps st st' hf h
    simp only [Regex.fixed, Option.some.injEq] at hf
    subst hf
    exact fitsAt_unit (by simpa [ends] using h)
  | cls neg items =>
    intro fl ps st st' hf h
    simp only [Regex.fixed, Option.some.injEq] at hf
    subst hf
    exact fitsAt_unit (by simpa [ends] using h)
  | seq a b iha ihb =>
    intro fl ps st st' hf h
    simp only [Regex.fixed] at hf
    split at hf
    · rename_i x y hx hy
      simp only [Option.some.injEq] at hf
      subst hf
      simp only [ends, List.mem_flatMap] at h
      obtain ⟨m, hm, hst'⟩ := h
      obtain ⟨a1, a2⟩ := iha fl x st m hx hm
      obtain ⟨b1, b2⟩ := ihb fl y m st' hy hst'
      rw [fitsAt_append, List.length_append]
      rw [a2] at b1 b2
      exact ⟨⟨a1, b1⟩, by omega⟩
    · cases hf
  | rep greedy mn mx r ih =>
    intro fl ps st st' hf h
    cases mx with
    | none => simp [Regex.fixed] at hf
    | some mx =>
      simp only [Regex.fixed] at hf
      split at hf
      · rename_i hmn
        subst hmn
        split at hf
        · rename_i l hl
          simp only [Option.some.injEq] at hf
          subst hf
          simp only [ends] at h
          have := fixed_repLoop_sound (s := s) (l := l) (fun x y hy => ih fl l x y hl hy) _ 0 _ _ _
            (Nat.zero_le _) h
          simpa using this
        · cases hf
      · cases hf
  | group i r ih =>
    intro fl ps st st' hf h
    simp only [Regex.fixed] at hf
    simp only [ends, List.mem_map] at h
    obtain ⟨m, hm, rfl⟩ := h
    exact ih fl ps st m hf hm
  | withFlags fl' r ih =>
    intro fl ps st st' hf h
    simp only [Regex.fixed] at hf
    simp only [ends] at h
    exact ih fl' ps st st' hf h
  | fail => intro fl ps st st' hf; simp [Regex.fixed] at hf
  | alt a b _ _ => intro fl ps st st' hf; simp [Regex.fixed] at hf
  | anchor k => intro fl ps st st' hf; simp [Regex.fixed] at hf
  | backref i => intro fl ps st st' hf; simp [Regex.fixed] at hf
  | look neg r _ => intro fl ps st st' hf; simp [Regex.fixed] at hf

theorem ends_fixed_complete (s : Str) : ∀ (r : Regex) (fl : Flags) (ps : List (Nat → Bool)) (st : MState),
    r.fixed fl = some ps → FitsAt s st.pos ps →
    ∃ st' ∈ ends s fl r st, st'.pos = st.pos + ps.length := by
  intro r
  induction r with
  | empty =>
    intro fl ps st hf _
    simp only [Regex.fixed, Option.some.injEq] at hf
    subst hf
    exact ⟨st, by simp [ends], by simp⟩
  | lit c =>
    intro fl ps st hf h
    simp only [Regex.fixed, Option.some.injEq] at hf
    subst hf
    simpa [ends] using fitsAt_unit_complete h
  | notLit c =>
    intro fl ps st hf h
    simp only [Regex.fixed, Option.some.injEq] at hf
    subst hf
    simpa [ends] using fitsAt_unit_complete h
  | any =>
    intro fl ps st hf h
    simp only [Regex.fixed, Option.some.injEq] at hf
    subst hf
    simpa [ends] using fitsAt_unit_complete h
  | cls neg items =>
    intro fl ps st hf h
    simp only [Regex.fixed, Option.some.injEq] at hf
    subst hf
    simpa [ends] using fitsAt_unit_complete h
  | seq a b iha ihb =>
    intro fl ps st hf h
    simp only [Regex.fixed] at hf
    split at hf
    · rename_i x y hx hy
      simp only [Option.some.injEq] at hf
      subst hf
      rw [fitsAt_append] at h
      obtain ⟨m, hm, hmpos⟩ := iha fl x st hx h.1
      obtain ⟨st', h1, h2⟩ := ihb fl y m hy (by rw [hmpos]; exact h.2)
      refine ⟨st', ?_, ?_⟩
      · simp only [ends, List.mem_flatMap]
        exact ⟨m, hm, h1⟩
      · rw [List.length_append, h2, hmpos]; omega
    · cases hf
  | rep greedy mn mx r ih =>
    intro fl ps st hf h
    cases mx with
    | none => simp [Regex.fixed] at hf
    | some mx =>
      simp only [Regex.fixed] at hf
      split at hf
      · rename_i hmn
        subst hmn
        split at hf
        · rename_i l hl
          simp only [Option.some.injEq] at hf
          subst hf
          simp only [ends]
          exact fixed_repLoop_complete (s := s) (l := l) (fun x hx => ih fl l x hl hx) mn _ 0 none st
            (by omega) (by omega) h
        · cases hf
      · cases hf
  | group i r ih =>
    intro fl ps st hf h
    simp only [Regex.fixed] at hf
    obtain ⟨m, hm, hmpos⟩ := ih fl ps st hf h
    refine ⟨{ m with caps := m.caps.set i (some (st.pos, m.pos)) }, ?_, hmpos⟩
    simp only [ends, List.mem_map]
    exact ⟨m, hm, rfl⟩
  | withFlags fl' r ih =>
    intro fl ps st hf h
    simp only [Regex.fixed] at hf
    simp only [ends]
    exact ih fl' ps st hf h
  | fail => intro fl ps st hf; simp [Regex.fixed] at hf
  | alt a b _ _ => intro fl ps st hf; simp [Regex.fixed] at hf
  | anchor k => intro fl ps st hf; simp [Regex.fixed] at hf
  | backref i => intro fl ps st hf; simp [Regex.fixed] at hf
  | look neg r _ => intro fl ps st hf; simp [Regex.fixed] at hf

theorem ends_fixedTail_sound (s : Str) : ∀ (r : Regex) (fl : Flags) (ps : List (Nat → Bool)) (k : Anchor)
    (st st' : MState), r.fixedTail fl = some (ps, k) → st' ∈ ends s fl r st →
    FitsAt s st.pos ps ∧ st'.pos = st.pos + ps.length ∧ anchorMatch fl s st'.pos k = true := by
  intro r
  induction r with
  | anchor k' =>
    intro fl ps k st st' hf h
    simp only [Regex.fixedTail, Option.some.injEq, Prod.mk.injEq] at hf
    obtain ⟨rfl, rfl⟩ := hf
    simp only [ends] at h
    split at h
    · rename_i hk
      simp only [List.mem_singleton] at h
      subst h
      exact ⟨trivial, by simp, hk⟩
    · simp at h
  | seq a b _ ihb =>
    intro fl ps k st st' hf h
    simp only [Regex.fixedTail] at hf
    split at hf
    · rename_i x y k' hx hy
      simp only [Option.some.injEq, Prod.mk.injEq] at hf
      obtain ⟨rfl, rfl⟩ := hf
      simp only [ends, List.mem_flatMap] at h
      obtain ⟨m, hm, hst'⟩ := h
      obtain ⟨a1, a2⟩ := ends_fixed_sound s a fl x st m hx hm
      obtain ⟨b1, b2, b3⟩ := ihb fl y k' m st' hy hst'
      rw [fitsAt_append, List.length_append]
      rw [a2] at b1 b2
      exact ⟨⟨a1, b1⟩, by omega, b3⟩
    · cases hf
  | empty => intro fl ps k st st' hf; simp [Regex.fixedTail] at hf
  | fail => intro fl ps k st st' hf; simp [Regex.fixedTail] at hf
  | lit c => intro fl ps k st st' hf; simp [Regex.fixedTail] at hf
  | notLit c => intro fl ps k st st' hf; simp [Regex.fixedTail] at hf
  | any => intro fl ps k st st' hf; simp [Regex.fixedTail] at hf
  | cls neg items => intro fl ps k st st' hf; simp [Regex.fixedTail] at hf
  | alt a b _ _ => intro fl ps k st st' hf; simp [Regex.fixedTail] at hf
  | rep g mn mx r _ => intro fl ps k st st' hf; simp [Regex.fixedTail] at hf
  | group i r _ => intro fl ps k st st' hf; simp [Regex.fixedTail] at hf
  | withFlags fl' r _ => intro fl ps k st st' hf; simp [Regex.fixedTail] at hf
  | backref i => intro fl ps k st st' hf; simp [Regex.fixedTail] at hf
  | look neg r _ => intro fl ps k st st' hf; simp [Regex.fixedTail] at hf

theorem ends_fixedTail_complete (s : Str) : ∀ (r : Regex) (fl : Flags) (ps : List (Nat → Bool)) (k : Anchor)
    (st : MState), r.fixedTail fl = some (ps, k) → FitsAt s st.pos ps →
    anchorMatch fl s (st.pos + ps.length) k = true → ∃ st', st' ∈ ends s fl r st := by
  intro r
  induction r with
  | anchor k' =>
    intro fl ps k st hf _ hk
    simp only [Regex.fixedTail, Option.some.injEq, Prod.mk.injEq] at hf
    obtain ⟨rfl, rfl⟩ := hf
    simp only [List.length_nil, Nat.add_zero] at hk
    exact ⟨st, by simp [ends, hk]⟩
  | seq a b _ ihb =>
    intro fl ps k st hf h hk
    simp only [Regex.fixedTail] at hf
    split at hf
    · rename_i x y k' hx hy
      simp only [Option.some.injEq, Prod.mk.injEq] at hf
      obtain ⟨rfl, rfl⟩ := hf
      rw [fitsAt_append] at h
      obtain ⟨m, hm, hmpos⟩ := ends_fixed_complete s a fl x st hx h.1
      obtain ⟨st', h1⟩ := ihb fl y k' m hy (by rw [hmpos]; exact h.2)
        (by rw [hmpos]; rw [List.length_append, ← Nat.add_assoc] at hk; exact hk)
      exact ⟨st', by simp only [ends, List.mem_flatMap]; exact ⟨m, hm, h1⟩⟩
    · cases hf
  | empty => intro fl ps k st hf; simp [Regex.fixedTail] at hf
  | fail => intro fl ps k st hf; simp [Regex.fixedTail] at hf
  | lit c => intro fl ps k st hf; simp [Regex.fixedTail] at hf
  | notLit c => intro fl ps k st hf; simp [Regex.fixedTail] at hf
  | any => intro fl ps k st hf; simp [Regex.fixedTail] at hf
  | cls neg items => intro fl ps k st hf; simp [Regex.fixedTail] at hf
  | alt a b _ _ => intro fl ps k st hf; simp [Regex.fixedTail] at hf
  | rep g mn mx r _ => intro fl ps k st hf; simp [Regex.fixedTail] at hf
  | group i r _ => intro fl ps k st hf; simp [Regex.fixedTail] at hf
  | withFlags fl' r _ => intro fl ps k st hf; simp [Regex.fixedTail] at hf
  | backref i => intro fl ps k st hf; simp [Regex.fixedTail] at hf
  | look neg r _ => intro fl ps k st hf; simp [Regex.fixedTail] at hf

theorem mem_ends_anchor_seq {s : Str} {fl : Flags} {k : Anchor} {b : Regex} {st0 st : MState} :
    st ∈ ends s fl (.seq (.anchor k) b) st0 ↔
      anchorMatch fl s st0.pos k = true ∧ st ∈ ends s fl b st0 := by
  simp only [ends, List.mem_flatMap]
  by_cases hb : anchorMatch fl s st0.pos k = true
  · simp [hb]
  · simp [hb]

/-- **exact characterisation of `re.match` for fixed-width `^…$` / `^…\Z` patterns**: success iff
the first `|ps|` characters fit the per-position predicates and the anchor accepts position `|ps|`
(for `$`: end of string, or one final newline). -/
theorem match_fixed_iff {p : Pattern} {ps : List (Nat → Bool)} {k : Anchor}
    (hf : p.re.fixedAnchored p.flags = some (ps, k)) (s : Str) :
    (match_ p s).isSome = true ↔ FitsAt s 0 ps ∧ anchorMatch p.flags s ps.length k = true := by
  obtain ⟨re, fl, ng, names⟩ := p
  simp only at hf ⊢
  unfold Regex.fixedAnchored at hf
  split at hf
  · rename_i b
    split at hf
    · cases hf
    · rename_i hml
      constructor
      · intro h
        obtain ⟨m, hm⟩ := Option.isSome_iff_exists.mp h
        obtain ⟨st, h1, _⟩ := match_some hm
        obtain ⟨_, hst⟩ := mem_ends_anchor_seq.mp h1
        obtain ⟨a1, a2, a3⟩ := ends_fixedTail_sound s b fl ps k _ st hf hst
        have e : st.pos = ps.length := by simpa [MState.init] using a2
        rw [e] at a3
        exact ⟨a1, a3⟩
      · rintro ⟨h1, h2⟩
        obtain ⟨st', hst'⟩ := ends_fixedTail_complete s b fl ps k ⟨0, List.replicate (ng + 1) none⟩ hf h1
          (by simpa using h2)
        unfold match_ matchAt
        rw [Option.isSome_map]
        apply isSome_head?_of_mem (a := st')
        exact mem_ends_anchor_seq.mpr ⟨by simp [anchorMatch, MState.init], hst'⟩
  · cases hf

/-- Boolean form of `match_digitsZ_iff` (the shape `Gen.util.isdigits` has after the `\Z` fix) -/
theorem match_digitsZ_isSome (s : Str) :
    (match_ digitsZ s).isSome = (!s.isEmpty && s.all isAsciiDigit) := by
  rw [Bool.eq_iff_iff, match_digitsZ_iff]
  simp [AllIn]

/-- Boolean form of `match_digitsDollar_iff`: strip ONE final newline, then non-empty ASCII digits -/
theorem match_digitsDollar_isSome (s : Str) :
    (match_ digitsDollar s).isSome =
      (let core := if s.getLast? = some 10 then s.dropLast else s
       !core.isEmpty && core.all isAsciiDigit) := by
  rw [Bool.eq_iff_iff, match_digitsDollar_iff]
  constructor
  · rintro ⟨d, hd, hall, hs⟩
    rcases hs with rfl | rfl
    · have hne : ¬ s.getLast? = some 10 := by
        intro h
        have := hall 10 (List.mem_of_getLast? h)
        simp at this
      have hall' : ∀ c ∈ s, isAsciiDigit c = true := hall
      simp only [hne, if_false]
      simp only [Bool.and_eq_true, Bool.not_eq_true', List.isEmpty_eq_false_iff, List.all_eq_true]
      exact ⟨hd, hall'⟩
    · have hall' : ∀ c ∈ d, isAsciiDigit c = true := hall
      simp only [List.getLast?_concat, if_true, List.dropLast_concat]
      simp only [Bool.and_eq_true, Bool.not_eq_true', List.isEmpty_eq_false_iff, List.all_eq_true]
      exact ⟨hd, hall'⟩
  · intro h
    by_cases hl : s.getLast? = some 10
    · simp only [hl, if_true] at h
      simp only [Bool.and_eq_true, Bool.not_eq_true', List.isEmpty_eq_false_iff, List.all_eq_true] at h
      refine ⟨s.dropLast, h.1, h.2, Or.inr ?_⟩
      have hne : s ≠ [] := by intro e; simp [e] at hl
      have hg : s.getLast hne = 10 := by
        rw [List.getLast?_eq_some_getLast hne] at hl
        exact Option.some.inj hl
      have := List.dropLast_concat_getLast hne
      rw [hg] at this
      exact this.symm
    · simp only [hl, if_false] at h
      simp only [Bool.and_eq_true, Bool.not_eq_true', List.isEmpty_eq_false_iff, List.all_eq_true] at h
      exact ⟨s, h.1, h.2, Or.inl rfl⟩

/-! ## the monadic accessors used by translated code -/

omit T in
theorem Match.groupR_ok {m : Match} {i : Nat} {t : Str} (h : m.groupR i = .ok t) : m.group i = some t := by
  unfold Match.groupR at h
  split at h
  · split at h
    · rename_i t' ht
      have : t' = t := by simpa [pure, Except.pure] using h
      rw [ht, this]
    · simp [raise] at h
  · simp [raise] at h

omit T in
theorem Match.groupNamedR_ok {m : Match} {name : Str} {t : Str} (h : m.groupNamedR name = .ok t) :
    ∃ i, m.index name = some i ∧ m.group i = some t := by
  unfold Match.groupNamedR at h
  split at h
  · rename_i i hi
    exact ⟨i, hi, Match.groupR_ok h⟩
  · simp [raise] at h

/-! ## the generated tables agree with the arithmetic ASCII predicates below 128 (by definition) -/

omit T in
theorem py312_isDecimal_ascii {c : Nat} (h : c < 128) : @UniTables.isDecimal UniTables.py312 c = isAsciiDigit c :=
  if_pos h

omit T in
theorem py312_isAlnum_ascii {c : Nat} (h : c < 128) : @UniTables.isAlnum UniTables.py312 c = isAsciiAlnum c :=
  if_pos h

omit T in
theorem py312_isSpace_ascii {c : Nat} (h : c < 128) :
    @UniTables.isSpace UniTables.py312 c = (isAsciiSpace c || (decide (28 ≤ c) && decide (c ≤ 31))) :=
  if_pos h

omit T in
theorem py312_lower_ascii {c : Nat} (h : c < 128) : @UniTables.lower UniTables.py312 c = asciiLower c :=
  if_pos h

omit T in
theorem py312_upper_ascii {c : Nat} (h : c < 128) : @UniTables.upper UniTables.py312 c = asciiUpper c :=
  if_pos h

/-! ## examples: how the per-module proofs use the analysis (and non-vacuity of the hypotheses) -/

section examples

/-- `stdnum.in_.pan._pan_re` = `^[A-Z]{5}[0-9]{4}[A-Z]$` as serialised by `regex_ser` -/
private def panRe : Pattern :=
  { re := .seq (.anchor .bol) (.seq (.rep true 5 (some 5) (.cls false [.range 65 90]))
      (.seq (.rep true 4 (some 4) (.cls false [.range 48 57])) (.seq (.cls false [.range 65 90]) (.anchor .eol)))) }

/-- `stdnum.nl.brin._brin_re` = `^(?P<brin>[0-9]{2}[A-Z]{2})(?P<location>[0-9]{2})?$` -/
private def brinRe : Pattern :=
  { re := .seq (.anchor .bol) (.seq (.group 1 (.seq (.rep true 2 (some 2) (.cls false [.range 48 57]))
      (.rep true 2 (some 2) (.cls false [.range 65 90])))) (.seq (.rep true 0 (some 1)
      (.group 2 (.rep true 2 (some 2) (.cls false [.range 48 57])))) (.anchor .eol))),
    ngroups := 2, names := [([98, 114, 105, 110], 1), ([108, 111, 99, 97, 116, 105, 111, 110], 2)] }

/-- from `re.match('^[A-Z]{5}[0-9]{4}[A-Z]$', s)`: after stripping one possible final newline, `s` has
length 10 and consists of ASCII upper-case letters and digits -/
example (s : Str) (m : Match) (h : match_ panRe s = some m) :
    ∃ core, (s = core ∨ s = core ++ [10]) ∧ core.length = 10 ∧
      AllIn (fun c => isAsciiUpper c || isAsciiDigit c) core := by
  obtain ⟨core, h1, _, _, _, h4, h5⟩ := match_shape_eol (p := panRe) rfl h
  refine ⟨core, h1, ?_, ?_⟩
  · have := h5
    simp [panRe, Regex.lenBound, LenIn, optAdd, optMul] at this
    omega
  · intro c hc
    have := h4 c hc
    simp [panRe, Regex.charPred, classMatch, itemMatch] at this ⊢
    omega

/-- per group, via `search` -/
example (s : Str) (m : Match) (t : Str) (h : search brinRe s = some m) (hg : m.group 2 = some t) :
    t.length = 2 ∧ AllIn isAsciiDigit t := by
  obtain ⟨fb, hfb, h1, h2⟩ := group_shape (search_fromRun h) (by decide) hg
  simp [brinRe, Regex.groupBodies] at hfb
  subst hfb
  constructor
  · simp [Regex.lenBound, LenIn, optMul] at h2; omega
  · intro c hc
    have := h1 c hc
    simpa [Regex.charPred, classMatch, itemMatch] using this

/-- `^[a-z]{2}$` (stdnum.vatin) -/
private def ccRe : Pattern :=
  { re := .seq (.anchor .bol) (.seq (.rep true 2 (some 2) (.cls false [.range 97 122])) (.anchor .eol)) }

/-- exact characterisation of a fixed-width pattern -/
example (s : Str) : (match_ ccRe s).isSome = true ↔
    ((∃ c, s[0]? = some c ∧ isAsciiLower c = true) ∧ (∃ c, s[1]? = some c ∧ isAsciiLower c = true)) ∧
    (s.length = 2 ∨ (s.length = 3 ∧ s[2]? = some 10)) := by
  rw [match_fixed_iff (p := ccRe) rfl s]
  simp [FitsAt, anchorMatch, classMatch, itemMatch, ccRe]
  intros
  rw [eq_comm (a := 2), eq_comm (a := 3)]

/-- `search` = `match` for `^…` patterns -/
example (s : Str) : search brinRe s = match_ brinRe s := search_eq_match rfl s

-- the hypotheses are satisfiable (evaluated by the kernel with the ASCII tables)
example : (@match_ UniTables.ascii panRe [65, 66, 67, 68, 69, 49, 50, 51, 52, 70, 10]).isSome = true := by decide
example : (@match_ UniTables.ascii brinRe [48, 53, 88, 88, 48, 49]).bind (·.group 2) = some [48, 49] := by decide
example : (@search UniTables.ascii brinRe [48, 53, 88, 88]).bind (·.group 2) = none := by decide
example : (@match_ UniTables.ascii digitsDollar [48, 53, 10]).isSome = true := by decide
example : (@match_ UniTables.ascii digitsDollar [48, 53, 10, 10]).isSome = false := by decide
example : (@match_ UniTables.ascii digitsZ [48, 53, 10]).isSome = false := by decide
example : (@fullmatch UniTables.ascii panRe [65, 66, 67, 68, 69, 49, 50, 51, 52, 70]).isSome = true := by decide
-- CPython's treatment of empty iterations: `(a*)*` on "aa" leaves group 1 = (2, 2); `(a|)*` on "b" gives ''
example : (@match_ UniTables.ascii { re := .rep true 0 none (.group 1 (.rep true 0 none (.lit 97))), ngroups := 1 }
    [97, 97]).bind (·.span 1) = some (2, 2) := by decide
example : (@match_ UniTables.ascii { re := .rep true 0 none (.group 1 (.alt (.lit 97) .empty)), ngroups := 1 }
    [98]).bind (·.group 1) = some [] := by decide

end examples

end Py.Re

#print axioms Py.Re.ends_shape
#print axioms Py.Re.ends_progress
#print axioms Py.Re.ends_endsAtEol
#print axioms Py.Re.ends_endsAtEos
#print axioms Py.Re.ends_startsAtBos
#print axioms Py.Re.search_eq_match
#print axioms Py.Re.match_shape_eol
#print axioms Py.Re.match_shape_eos
#print axioms Py.Re.search_shape_eol
#print axioms Py.Re.fullmatch_shape
#print axioms Py.Re.match_group0_shape
#print axioms Py.Re.group_shape
#print axioms Py.Re.finditer_fromRun
#print axioms Py.Re.match_fixed_iff
#print axioms Py.Re.Match.groupR_ok
#print axioms Py.Re.match_digitsDollar_iff
#print axioms Py.Re.match_digitsZ_iff
#print axioms Py.Re.match_digitsDollar_isSome
#print axioms Py.Re.match_digitsZ_isSome
