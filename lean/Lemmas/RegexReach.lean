import Lemmas.Regex
/-!
# Lemmas.RegexReach — declarative ("language") semantics for the capture-independent fragment

For a regex without back-references and look-ahead, whose loops have bodies that always consume at
least one character (`Regex.simple`), the set of positions the backtracking engine can reach is the
usual compositional language semantics `Reach`:

* `ends_reach_sound`    : `st' ∈ ends s fl r st → Reach s fl r st.pos st'.pos`
* `ends_reach_complete` : `Reach s fl r p q → ∃ st' ∈ ends s fl r ⟨p, caps⟩, st'.pos = q`
* `match_isSome_iff_reach` : `(match_ p s).isSome ↔ ∃ q, Reach s p.flags p.re 0 q`

`Reach` unfolds by `simp [Reach]` on a concrete pattern; fixed-width sub-patterns can be rewritten
with `reach_fixed_iff` into `FitsAt`.  Also here: `ends_caps_unchanged` (a sub-pattern that does not
contain group `i` leaves its capture alone) and `first_group_take` (content of a leading fixed-width
group of an anchored pattern).
-/
namespace Py.Re

/-- `k`-fold composition of a step relation on positions -/
def Iter (R : Nat → Nat → Prop) : Nat → Nat → Nat → Prop
  | 0, p, q => q = p
  | k + 1, p, q => ∃ m, R p m ∧ Iter R k m q

/-- `k ≤ max` for an optional maximum -/
def leMax (mx : Option Nat) (k : Nat) : Prop :=
  match mx with
  | none => True
  | some m => k ≤ m

variable [T : UniTables]

/-- one-character step on positions -/
def ReachChar (s : Str) (P : Nat → Bool) (p q : Nat) : Prop :=
  ∃ c, s[p]? = some c ∧ P c = true ∧ q = p + 1

/-- declarative semantics: `r` can match the subject from index `p` to index `q`
(back-references and look-ahead are outside the fragment: `False`) -/
def Reach (s : Str) : Flags → Regex → Nat → Nat → Prop
  | _, .empty, p, q => q = p
  | _, .fail, _, _ => False
  | fl, .lit a, p, q => ReachChar s (litMatch fl a) p q
  | fl, .notLit a, p, q => ReachChar s (fun c => !litMatch fl a c) p q
  | fl, .any, p, q => ReachChar s (anyMatch fl) p q
  | fl, .cls neg items, p, q => ReachChar s (classMatch fl neg items) p q
  | fl, .seq a b, p, q => ∃ m, Reach s fl a p m ∧ Reach s fl b m q
  | fl, .alt a b, p, q => Reach s fl a p q ∨ Reach s fl b p q
  | fl, .rep _ mn mx r, p, q => ∃ k, mn ≤ k ∧ leMax mx k ∧ Iter (Reach s fl r) k p q
  | fl, .group _ r, p, q => Reach s fl r p q
  | _, .withFlags fl' r, p, q => Reach s fl' r p q
  | fl, .anchor k, p, q => q = p ∧ anchorMatch fl s p k = true
  | _, .backref _, _, _ => False
  | _, .look _ _, _, _ => False

/-- the fragment: no back-references, no look-ahead, `min ≤ max`, loop bodies consume ≥ 1 character -/
def Regex.simple : Regex → Bool
  | .seq a b => a.simple && b.simple
  | .alt a b => a.simple && b.simple
  | .rep _ mn mx r =>
    r.simple && decide (1 ≤ r.lenBound.1) &&
      (match mx with
       | none => true
       | some m => decide (mn ≤ m))
  | .group _ r => r.simple
  | .withFlags _ r => r.simple
  | .backref _ => false
  | .look _ _ => false
  | _ => true

omit T in
theorem reachChar_of_mem {s : Str} {P : Nat → Bool} {st st' : MState} (h : st' ∈ stepChar s P st) :
    ReachChar s P st.pos st'.pos := by
  obtain ⟨c, hc, hp, rfl⟩ := mem_stepChar.mp h
  exact ⟨c, hc, hp, rfl⟩

omit T in
theorem mem_of_reachChar {s : Str} {P : Nat → Bool} {p q : Nat} (caps : List (Option (Nat × Nat)))
    (h : ReachChar s P p q) : ∃ st' ∈ stepChar s P ⟨p, caps⟩, st'.pos = q := by
  obtain ⟨c, hc, hp, rfl⟩ := h
  exact ⟨⟨p + 1, caps⟩, mem_stepChar.mpr ⟨c, hc, hp, rfl⟩, rfl⟩

/-! ## loops -/

omit T in
theorem reach_repLoop_sound {R : Nat → Nat → Prop} {greedy : Bool} {mn : Nat} {mx : Option Nat}
    {step : MState → List MState} (hstep : ∀ x y, y ∈ step x → R x.pos y.pos) :
    ∀ (fuel count : Nat) (last : Option Nat) (st st' : MState),
      st' ∈ repLoop greedy mn mx step fuel count last st →
      ∃ j, Iter R j st.pos st'.pos ∧ mn ≤ count + j ∧
        (∀ m, mx = some m → count + j ≤ max count (max mn m)) := by
  intro fuel
  induction fuel with
  | zero => intro count last st st' h; simp [repLoop] at h
  | succ fuel ih =>
    intro count last st st' h
    have go : ∀ (last' : Option Nat), (count < mn ∨ ∀ m, mx = some m → count < m) →
        st' ∈ (step st).flatMap (repLoop greedy mn mx step fuel (count + 1) last') →
        ∃ j, Iter R j st.pos st'.pos ∧ mn ≤ count + j ∧
          (∀ m, mx = some m → count + j ≤ max count (max mn m)) := by
      intro last' hmx hmem
      obtain ⟨m, hm, hst'⟩ := List.mem_flatMap.mp hmem
      obtain ⟨j, k1, k2, k3⟩ := ih (count + 1) last' m st' hst'
      refine ⟨j + 1, ⟨m.pos, hstep st m hm, k1⟩, by omega, ?_⟩
      intro mm hmm
      have := k3 mm hmm
      rcases hmx with hlt | hlt
      · omega
      · have := hlt mm hmm
        omega
    unfold repLoop at h
    by_cases hc : count < mn
    · simp only [hc, if_true] at h
      exact go none (Or.inl hc) h
    · simp only [hc, if_false] at h
      have stay : st' = st → ∃ j, Iter R j st.pos st'.pos ∧ mn ≤ count + j ∧
          (∀ m, mx = some m → count + j ≤ max count (max mn m)) := by
        intro e; subst e
        exact ⟨0, rfl, by omega, by intro m _; omega⟩
      have hmore : st' ∈ (if (underMax mx count && last != some st.pos) = true then
            (step st).flatMap (repLoop greedy mn mx step fuel (count + 1) (some st.pos)) else []) →
          ∃ j, Iter R j st.pos st'.pos ∧ mn ≤ count + j ∧
            (∀ m, mx = some m → count + j ≤ max count (max mn m)) := by
        intro hin
        by_cases hcond : (underMax mx count && last != some st.pos) = true
        · rw [if_pos hcond] at hin
          simp only [Bool.and_eq_true] at hcond
          refine go _ (Or.inr ?_) hin
          intro m hm
          have := hcond.1
          simpa [underMax, hm] using this
        · rw [if_neg hcond] at hin; simp at hin
      cases greedy with
      | true =>
        simp only [if_true, List.mem_append, List.mem_singleton] at h
        rcases h with h | h
        · exact hmore h
        · exact stay h
      | false =>
        simp only [Bool.false_eq_true, if_false, List.mem_cons] at h
        rcases h with h | h
        · exact stay h
        · exact hmore h

omit T in
theorem reach_repLoop_complete {s : Str} {R : Nat → Nat → Prop} {greedy : Bool} {mn : Nat}
    {mx : Option Nat} {step : MState → List MState}
    (hstep : ∀ (x : MState) y, R x.pos y → ∃ y' ∈ step x, y'.pos = y)
    (hprog : ∀ x y', y' ∈ step x → x.pos < y'.pos ∧ y'.pos ≤ s.length) :
    ∀ (k fuel count : Nat) (last : Option Nat) (st : MState) (q : Nat),
      Iter R k st.pos q → mn ≤ count + k → leMax mx (count + k) → k + (mn - count) < fuel →
      last ≠ some st.pos →
      (∃ st' ∈ repLoop greedy mn mx step fuel count last st, st'.pos = q) ∧ st.pos + k ≤ q ∧
        (0 < k → q ≤ s.length) := by
  intro k
  induction k with
  | zero =>
    intro fuel count last st q hit hmn _ hfuel _
    obtain ⟨fuel', rfl⟩ : ∃ f, fuel = f + 1 := ⟨fuel - 1, by omega⟩
    simp only [Iter] at hit
    subst hit
    refine ⟨⟨st, ?_, rfl⟩, by omega, by omega⟩
    unfold repLoop
    have : ¬ count < mn := by omega
    simp only [this, if_false]
    cases greedy <;> simp
  | succ k ih =>
    intro fuel count last st q hit hmn hmx hfuel hlast
    obtain ⟨fuel', rfl⟩ : ∃ f, fuel = f + 1 := ⟨fuel - 1, by omega⟩
    obtain ⟨mpos, hR, hrest⟩ := hit
    obtain ⟨m, hm, rfl⟩ := hstep st mpos hR
    obtain ⟨hp1, hp2⟩ := hprog st m hm
    have hmx' : leMax mx (count + 1 + k) := by
      have e : count + 1 + k = count + (k + 1) := by omega
      rw [e]; exact hmx
    unfold repLoop
    by_cases hcnt : count < mn
    · obtain ⟨⟨st', h1, h2⟩, h3, h4⟩ := ih fuel' (count + 1) none m q hrest (by omega) hmx' (by omega)
        (by simp)
      refine ⟨⟨st', ?_, h2⟩, by omega, ?_⟩
      · simp only [hcnt, if_true]
        exact List.mem_flatMap.mpr ⟨m, hm, h1⟩
      · intro _
        by_cases hk : 0 < k
        · exact h4 hk
        · have : k = 0 := by omega
          subst this
          simp only [Iter] at hrest
          omega
    · obtain ⟨⟨st', h1, h2⟩, h3, h4⟩ := ih fuel' (count + 1) (some st.pos) m q hrest (by omega) hmx'
        (by omega) (by simp; omega)
      have hum : underMax mx count = true := by
        cases hmx0 : mx with
        | none => simp [underMax]
        | some mm =>
          simp only [leMax, hmx0] at hmx
          simp [underMax]; omega
      have hmore : st' ∈ (if (underMax mx count && last != some st.pos) = true then
            (step st).flatMap (repLoop greedy mn mx step fuel' (count + 1) (some st.pos)) else []) := by
        have hc2 : (underMax mx count && last != some st.pos) = true := by
          simp [hum, hlast]
        rw [if_pos hc2]
        exact List.mem_flatMap.mpr ⟨m, hm, h1⟩
      refine ⟨⟨st', ?_, h2⟩, by omega, ?_⟩
      · simp only [hcnt, if_false]
        cases greedy with
        | true => simp only [if_true, List.mem_append]; exact Or.inl hmore
        | false => simp only [Bool.false_eq_true, if_false, List.mem_cons]; exact Or.inr hmore
      · intro _
        by_cases hk : 0 < k
        · exact h4 hk
        · have : k = 0 := by omega
          subst this
          simp only [Iter] at hrest
          omega

/-! ## soundness and completeness -/

theorem ends_reach_sound (s : Str) : ∀ (r : Regex) (fl : Flags) (st st' : MState),
    r.simple = true → st' ∈ ends s fl r st → Reach s fl r st.pos st'.pos := by
  intro r
  induction r with
  | empty =>
    intro fl st st' _ h
    simp only [ends, List.mem_singleton] at h
    subst h; simp [Reach]
  | fail => intro fl st st' _ h; simp [ends] at h
  | lit c => intro fl st st' _ h; exact reachChar_of_mem (by simpa [ends] using h)
  | notLit c => intro fl st st' _ h; exact reachChar_of_mem (by simpa [ends] using h)
  | any => intro fl st st' _ h; exact reachChar_of_mem (by simpa [ends] using h)
  | cls neg items => intro fl st st' _ h; exact reachChar_of_mem (by simpa [ends] using h)
  | seq a b iha ihb =>
    intro fl st st' hs h
    simp only [Regex.simple, Bool.and_eq_true] at hs
    simp only [ends, List.mem_flatMap] at h
    obtain ⟨m, hm, hst'⟩ := h
    exact ⟨m.pos, iha fl st m hs.1 hm, ihb fl m st' hs.2 hst'⟩
  | alt a b iha ihb =>
    intro fl st st' hs h
    simp only [Regex.simple, Bool.and_eq_true] at hs
    simp only [ends, List.mem_append] at h
    rcases h with h | h
    · exact Or.inl (iha fl st st' hs.1 h)
    · exact Or.inr (ihb fl st st' hs.2 h)
  | rep greedy mn mx r ih =>
    intro fl st st' hs h
    simp only [Regex.simple, Bool.and_eq_true, decide_eq_true_eq] at hs
    obtain ⟨⟨hs1, _⟩, hs3⟩ := hs
    simp only [ends] at h
    obtain ⟨j, k1, k2, k3⟩ := reach_repLoop_sound (R := Reach s fl r)
      (fun x y hy => ih fl x y hs1 hy) _ _ _ _ _ h
    refine ⟨j, by omega, ?_, k1⟩
    cases hmx : mx with
    | none => simp [leMax]
    | some m =>
      simp only [hmx, decide_eq_true_eq] at hs3
      have := k3 m hmx
      simp only [leMax]
      omega
  | group i r ih =>
    intro fl st st' hs h
    simp only [Regex.simple] at hs
    simp only [ends, List.mem_map] at h
    obtain ⟨m, hm, rfl⟩ := h
    exact ih fl st m hs hm
  | withFlags fl' r ih =>
    intro fl st st' hs h
    simp only [Regex.simple] at hs
    simp only [ends] at h
    exact ih fl' st st' hs h
  | anchor k =>
    intro fl st st' _ h
    simp only [ends] at h
    by_cases hk : anchorMatch fl s st.pos k = true
    · rw [if_pos hk] at h
      simp only [List.mem_singleton] at h
      subst h
      exact ⟨rfl, hk⟩
    · rw [if_neg hk] at h; simp at h
  | backref i => intro fl st st' hs; simp [Regex.simple] at hs
  | look neg r _ => intro fl st st' hs; simp [Regex.simple] at hs

theorem ends_reach_complete (s : Str) : ∀ (r : Regex) (fl : Flags) (p q : Nat)
    (caps : List (Option (Nat × Nat))),
    r.simple = true → Reach s fl r p q → ∃ st' ∈ ends s fl r ⟨p, caps⟩, st'.pos = q := by
  intro r
  induction r with
  | empty =>
    intro fl p q caps _ h
    simp only [Reach] at h
    subst h
    exact ⟨⟨q, caps⟩, by simp [ends], rfl⟩
  | fail => intro fl p q caps _ h; simp [Reach] at h
  | lit c => intro fl p q caps _ h; simpa [ends] using mem_of_reachChar caps h
  | notLit c => intro fl p q caps _ h; simpa [ends] using mem_of_reachChar caps h
  | any => intro fl p q caps _ h; simpa [ends] using mem_of_reachChar caps h
  | cls neg items => intro fl p q caps _ h; simpa [ends] using mem_of_reachChar caps h
  | seq a b iha ihb =>
    intro fl p q caps hs h
    simp only [Regex.simple, Bool.and_eq_true] at hs
    obtain ⟨m, h1, h2⟩ := h
    obtain ⟨st1, hst1, rfl⟩ := iha fl p m caps hs.1 h1
    obtain ⟨st2, hst2, rfl⟩ := ihb fl st1.pos q st1.caps hs.2 h2
    exact ⟨st2, by simp only [ends, List.mem_flatMap]; exact ⟨st1, hst1, hst2⟩, rfl⟩
  | alt a b iha ihb =>
    intro fl p q caps hs h
    simp only [Regex.simple, Bool.and_eq_true] at hs
    rcases h with h | h
    · obtain ⟨st', h1, h2⟩ := iha fl p q caps hs.1 h
      exact ⟨st', by simp only [ends, List.mem_append]; exact Or.inl h1, h2⟩
    · obtain ⟨st', h1, h2⟩ := ihb fl p q caps hs.2 h
      exact ⟨st', by simp only [ends, List.mem_append]; exact Or.inr h1, h2⟩
  | rep greedy mn mx r ih =>
    intro fl p q caps hs h
    simp only [Regex.simple, Bool.and_eq_true, decide_eq_true_eq] at hs
    obtain ⟨⟨hs1, hs2⟩, _⟩ := hs
    obtain ⟨k, hk1, hk2, hk3⟩ := h
    have hstep : ∀ (x : MState) y, Reach s fl r x.pos y → ∃ y' ∈ ends s fl r x, y'.pos = y := by
      intro x y hxy
      exact ih fl x.pos y x.caps hs1 hxy
    have hprog : ∀ x y', y' ∈ ends s fl r x → x.pos < y'.pos ∧ y'.pos ≤ s.length := by
      intro x y' hy'
      obtain ⟨a1, a2, a3⟩ := ends_shape s r fl x y' hy'
      have := a3.1
      have hlt : x.pos < y'.pos := by omega
      exact ⟨hlt, a2.le_length hlt⟩
    -- a first run with plenty of fuel bounds `k`, the second run uses the engine's fuel
    obtain ⟨_, hb1, hb2⟩ := reach_repLoop_complete (greedy := greedy) (mn := mn) (mx := mx) hstep hprog
      k (k + mn + 1) 0 none ⟨p, caps⟩ q hk3 (by omega) (by simpa using hk2) (by omega) (by simp)
    have hkle : k ≤ s.length - p := by
      by_cases hk0 : 0 < k
      · have := hb2 hk0
        simp only at hb1
        omega
      · omega
    obtain ⟨⟨st', h1, h2⟩, _, _⟩ := reach_repLoop_complete (greedy := greedy) (mn := mn) (mx := mx)
      hstep hprog k (mn + (s.length - p) + 2) 0 none ⟨p, caps⟩ q hk3 (by omega) (by simpa using hk2)
      (by omega) (by simp)
    exact ⟨st', by simpa only [ends] using h1, h2⟩
  | group i r ih =>
    intro fl p q caps hs h
    simp only [Regex.simple] at hs
    obtain ⟨m, hm, hmpos⟩ := ih fl p q caps hs h
    refine ⟨{ m with caps := m.caps.set i (some (p, m.pos)) }, ?_, hmpos⟩
    simp only [ends, List.mem_map]
    exact ⟨m, hm, rfl⟩
  | withFlags fl' r ih =>
    intro fl p q caps hs h
    simp only [Regex.simple] at hs
    simp only [ends]
    exact ih fl' p q caps hs h
  | anchor k =>
    intro fl p q caps _ h
    obtain ⟨rfl, hk⟩ := h
    exact ⟨⟨q, caps⟩, by simp [ends, hk], rfl⟩
  | backref i => intro fl p q caps hs; simp [Regex.simple] at hs
  | look neg r _ => intro fl p q caps hs; simp [Regex.simple] at hs

/-- **`re.match` succeeds iff the declarative semantics reaches some end position** -/
theorem match_isSome_iff_reach {p : Pattern} (hs : p.re.simple = true) (s : Str) :
    (match_ p s).isSome = true ↔ ∃ q, Reach s p.flags p.re 0 q := by
  constructor
  · intro h
    obtain ⟨m, hm⟩ := Option.isSome_iff_exists.mp h
    obtain ⟨st, h1, _⟩ := match_some hm
    exact ⟨st.pos, ends_reach_sound s p.re p.flags _ st hs h1⟩
  · rintro ⟨q, hq⟩
    obtain ⟨st', h1, _⟩ := ends_reach_complete s p.re p.flags 0 q (MState.init p 0).caps hs hq
    unfold match_ matchAt
    rw [Option.isSome_map]
    exact isSome_head?_of_mem (a := st') h1

/-- same for `re.search` when the pattern starts with `^` -/
theorem search_isSome_iff_reach {p : Pattern} (hs : p.re.simple = true)
    (hb : p.re.startsAtBos p.flags = true) (s : Str) :
    (search p s).isSome = true ↔ ∃ q, Reach s p.flags p.re 0 q := by
  rw [search_eq_match hb]; exact match_isSome_iff_reach hs s

/-- a fixed-width sub-pattern in the declarative semantics -/
theorem reach_fixed_iff {s : Str} {r : Regex} {fl : Flags} {ps : List (Nat → Bool)}
    (hf : r.fixed fl = some ps) (hs : r.simple = true) (p q : Nat) :
    Reach s fl r p q ↔ FitsAt s p ps ∧ q = p + ps.length := by
  constructor
  · intro h
    obtain ⟨st', h1, h2⟩ := ends_reach_complete s r fl p q [] hs h
    obtain ⟨a1, a2⟩ := ends_fixed_sound s r fl ps _ st' hf h1
    exact ⟨a1, by rw [← h2]; exact a2⟩
  · rintro ⟨h1, rfl⟩
    obtain ⟨st', a1, a2⟩ := ends_fixed_complete s r fl ps ⟨p, []⟩ hf h1
    have := ends_reach_sound s r fl _ st' hs a1
    rw [a2] at this
    exact this

/-! ## unfolding lemmas for concrete patterns (use with `simp only` / `rw`) -/

theorem reach_seq {s : Str} {fl : Flags} {a b : Regex} {p q : Nat} :
    Reach s fl (.seq a b) p q ↔ ∃ m, Reach s fl a p m ∧ Reach s fl b m q := Iff.rfl

theorem reach_alt {s : Str} {fl : Flags} {a b : Regex} {p q : Nat} :
    Reach s fl (.alt a b) p q ↔ Reach s fl a p q ∨ Reach s fl b p q := Iff.rfl

theorem reach_group {s : Str} {fl : Flags} {i : Nat} {r : Regex} {p q : Nat} :
    Reach s fl (.group i r) p q ↔ Reach s fl r p q := Iff.rfl

theorem reach_anchor {s : Str} {fl : Flags} {k : Anchor} {p q : Nat} :
    Reach s fl (.anchor k) p q ↔ q = p ∧ anchorMatch fl s p k = true := Iff.rfl

theorem reach_cls {s : Str} {fl : Flags} {neg : Bool} {items : List ClassItem} {p q : Nat} :
    Reach s fl (.cls neg items) p q ↔
      ∃ c, s[p]? = some c ∧ classMatch fl neg items c = true ∧ q = p + 1 := Iff.rfl

theorem reach_lit {s : Str} {fl : Flags} {a : Nat} {p q : Nat} :
    Reach s fl (.lit a) p q ↔ ∃ c, s[p]? = some c ∧ litMatch fl a c = true ∧ q = p + 1 := Iff.rfl

/-- `r?` -/
theorem reach_opt {s : Str} {fl : Flags} {g : Bool} {r : Regex} {p q : Nat} :
    Reach s fl (.rep g 0 (some 1) r) p q ↔ q = p ∨ Reach s fl r p q := by
  simp only [Reach, leMax]
  constructor
  · rintro ⟨k, _, hk, hit⟩
    match k, hk, hit with
    | 0, _, hit => exact Or.inl hit
    | 1, _, ⟨m, hm, hq⟩ => simp only [Iter] at hq; subst hq; exact Or.inr hm
  · rintro (h | h)
    · exact ⟨0, Nat.le_refl _, by omega, h⟩
    · exact ⟨1, by omega, Nat.le_refl _, q, h, rfl⟩

omit T in
theorem Seg.cons_iff {s : Str} {P : Nat → Bool} {p b : Nat} (h : p < b) :
    Seg s P p b ↔ (∃ c, s[p]? = some c ∧ P c = true) ∧ Seg s P (p + 1) b := by
  constructor
  · intro hs
    exact ⟨hs p (Nat.le_refl _) h, fun k h1 h2 => hs k (by omega) h2⟩
  · rintro ⟨h0, hs⟩ k h1 h2
    by_cases e : k = p
    · subst e; exact h0
    · exact hs k (by omega) h2

omit T in
theorem iter_reachChar {s : Str} {P : Nat → Bool} : ∀ (k p q : Nat),
    Iter (ReachChar s P) k p q ↔ Seg s P p (p + k) ∧ q = p + k := by
  intro k
  induction k with
  | zero => intro p q; simp [Iter, Seg.nil]
  | succ k ih =>
    intro p q
    simp only [Iter, ih]
    rw [Seg.cons_iff (by omega)]
    constructor
    · rintro ⟨m, ⟨c, hc, hp, rfl⟩, hseg, rfl⟩
      refine ⟨⟨⟨c, hc, hp⟩, ?_⟩, by omega⟩
      have e : p + 1 + k = p + (k + 1) := by omega
      rw [← e]; exact hseg
    · rintro ⟨⟨⟨c, hc, hp⟩, hseg⟩, rfl⟩
      refine ⟨p + 1, ⟨c, hc, hp, rfl⟩, ?_, by omega⟩
      have e : p + 1 + k = p + (k + 1) := by omega
      rw [e]; exact hseg

/-- `[class]{mn,mx}` -/
theorem reach_rep_cls {s : Str} {fl : Flags} {g : Bool} {mn : Nat} {mx : Option Nat} {neg : Bool}
    {items : List ClassItem} {p q : Nat} :
    Reach s fl (.rep g mn mx (.cls neg items)) p q ↔
      ∃ k, mn ≤ k ∧ leMax mx k ∧ Seg s (classMatch fl neg items) p (p + k) ∧ q = p + k := by
  simp only [Reach]
  have e : (fun x x_1 => ReachChar s (classMatch fl neg items) x x_1) =
      ReachChar s (classMatch fl neg items) := rfl
  rw [e]
  simp only [iter_reachChar]

omit T in
theorem Seg.of_allIn_slice {s : Str} {P : Nat → Bool} {a b : Nat} (hb : b ≤ s.length)
    (h : AllIn P (slice s a b)) : Seg s P a b := by
  intro k h1 h2
  have hk : k < s.length := by omega
  refine ⟨s[k], List.getElem?_eq_getElem hk, h _ ?_⟩
  apply List.mem_iff_getElem?.mpr
  refine ⟨k - a, ?_⟩
  simp only [slice, List.getElem?_take, List.getElem?_drop]
  have e : a + (k - a) = k := by omega
  rw [if_pos (by omega), e]
  exact List.getElem?_eq_getElem hk

omit T in
theorem Seg.split {s : Str} {P : Nat → Bool} {a b c : Nat} (h : Seg s P a c) (h1 : a ≤ b) (h2 : b ≤ c) :
    Seg s P a b ∧ Seg s P b c :=
  ⟨fun k k1 k2 => h k k1 (by omega), fun k k1 k2 => h k (by omega) k2⟩

/-- `$` in a subject that does not end in a newline is `\Z` -/
theorem eol_iff_of_no_trailing_nl {s : Str} (h : s.getLast? ≠ some 10) (fl : Flags)
    (hml : fl.multiline = false) (p : Nat) :
    anchorMatch fl s p .eol = true ↔ p = s.length := by
  simp only [anchorMatch, hml, Bool.false_eq_true, if_false, Bool.or_eq_true, beq_iff_eq,
    Bool.and_eq_true]
  constructor
  · rintro (h1 | ⟨h1, h2⟩)
    · exact h1
    · exfalso
      apply h
      rw [List.getLast?_eq_getElem?]
      have : s.length - 1 = p := by omega
      rw [this]; exact h2
  · intro h1; exact Or.inl h1

theorem match_names {p : Pattern} {s : Str} {m : Match} (h : match_ p s = some m) : m.names = p.names := by
  obtain ⟨_, _, rfl⟩ := match_some h
  rfl

omit T in
/-- reading a named group through the monadic accessor -/
theorem Match.groupNamedR_of_caps {m : Match} {name : Str} {i : Nat} {a b : Nat} (hi : 0 < i)
    (hidx : m.index name = some i) (hcap : m.caps[i]? = some (some (a, b))) :
    m.groupNamedR name = .ok (slice m.subj a b) := by
  obtain ⟨i', rfl⟩ : ∃ i', i = i' + 1 := ⟨i - 1, by omega⟩
  have hlt : i' + 1 < m.caps.length := (List.getElem?_eq_some_iff.mp hcap).1
  have hg : m.group (i' + 1) = some (slice m.subj a b) := by
    simp [Match.group, Match.span, hcap]
  simp only [Match.groupNamedR, hidx, Match.groupR, hlt, if_true, hg]
  rfl

/-! ## captures that a sub-pattern does not touch -/

theorem ends_caps_unchanged (s : Str) (i : Nat) : ∀ (r : Regex) (fl : Flags) (st st' : MState),
    r.groupBodies i fl = [] → st' ∈ ends s fl r st → st'.caps[i]? = st.caps[i]? := by
  intro r
  induction r with
  | empty => intro fl st st' _ h; simp only [ends, List.mem_singleton] at h; subst h; rfl
  | fail => intro fl st st' _ h; simp [ends] at h
  | lit c =>
    intro fl st st' _ h
    obtain ⟨_, _, _, rfl⟩ := mem_stepChar.mp (by simpa [ends] using h); rfl
  | notLit c =>
    intro fl st st' _ h
    obtain ⟨_, _, _, rfl⟩ := mem_stepChar.mp (by simpa [ends] using h); rfl
  | any =>
    intro fl st st' _ h
    obtain ⟨_, _, _, rfl⟩ := mem_stepChar.mp (by simpa [ends] using h); rfl
  | cls neg items =>
    intro fl st st' _ h
    obtain ⟨_, _, _, rfl⟩ := mem_stepChar.mp (by simpa [ends] using h); rfl
  | seq a b iha ihb =>
    intro fl st st' hB h
    simp only [Regex.groupBodies, List.append_eq_nil_iff] at hB
    simp only [ends, List.mem_flatMap] at h
    obtain ⟨m, hm, hst'⟩ := h
    rw [ihb fl m st' hB.2 hst', iha fl st m hB.1 hm]
  | alt a b iha ihb =>
    intro fl st st' hB h
    simp only [Regex.groupBodies, List.append_eq_nil_iff] at hB
    simp only [ends, List.mem_append] at h
    rcases h with h | h
    · exact iha fl st st' hB.1 h
    · exact ihb fl st st' hB.2 h
  | rep greedy mn mx r ih =>
    intro fl st st' hB h
    simp only [Regex.groupBodies] at hB
    simp only [ends] at h
    exact capOK_repLoop (Q := fun x => x.caps[i]? = st.caps[i]?)
      (fun x y hy hx => by rw [ih fl x y hB hy]; exact hx) _ _ _ _ _ h rfl
  | group j r ih =>
    intro fl st st' hB h
    simp only [Regex.groupBodies, List.append_eq_nil_iff] at hB
    have hji : j ≠ i := by
      intro e
      have := hB.1
      simp [e] at this
    simp only [ends, List.mem_map] at h
    obtain ⟨m, hm, rfl⟩ := h
    simp only
    rw [List.getElem?_set_ne hji]
    exact ih fl st m hB.2 hm
  | withFlags fl' r ih =>
    intro fl st st' hB h
    simp only [Regex.groupBodies] at hB
    simp only [ends] at h
    exact ih fl' st st' hB h
  | anchor k =>
    intro fl st st' _ h
    simp only [ends] at h
    split at h
    · simp only [List.mem_singleton] at h; subst h; rfl
    · simp at h
  | backref j =>
    intro fl st st' _ h
    simp only [ends] at h
    split at h
    · split at h
      · simp only [List.mem_singleton] at h; subst h; rfl
      · simp at h
    · simp at h
  | look neg r ih =>
    intro fl st st' hB h
    simp only [Regex.groupBodies] at hB
    simp only [ends] at h
    split at h
    · split at h
      · simp only [List.mem_singleton] at h; subst h; rfl
      · simp at h
    · rename_i m rest hr
      split at h
      · simp at h
      · simp only [List.mem_singleton] at h
        subst h
        exact ih fl st m hB (by rw [hr]; simp)

/-- the capture table never shrinks (in fact its length is constant) -/
theorem ends_caps_length_lt (s : Str) (i : Nat) : ∀ (r : Regex) (fl : Flags) (x y : MState), y ∈ ends s fl r x →
    (i < x.caps.length → i < y.caps.length) := by
  intro r
  induction r with
  | empty => intro fl x y h hx; simp only [ends, List.mem_singleton] at h; subst h; exact hx
  | fail => intro fl x y h; simp [ends] at h
  | lit c =>
    intro fl x y h hx
    obtain ⟨_, _, _, rfl⟩ := mem_stepChar.mp (by simpa [ends] using h); exact hx
  | notLit c =>
    intro fl x y h hx
    obtain ⟨_, _, _, rfl⟩ := mem_stepChar.mp (by simpa [ends] using h); exact hx
  | any =>
    intro fl x y h hx
    obtain ⟨_, _, _, rfl⟩ := mem_stepChar.mp (by simpa [ends] using h); exact hx
  | cls neg items =>
    intro fl x y h hx
    obtain ⟨_, _, _, rfl⟩ := mem_stepChar.mp (by simpa [ends] using h); exact hx
  | seq a b iha ihb =>
    intro fl x y h hx
    simp only [ends, List.mem_flatMap] at h
    obtain ⟨z, hz, hy⟩ := h
    exact ihb fl z y hy (iha fl x z hz hx)
  | alt a b iha ihb =>
    intro fl x y h hx
    simp only [ends, List.mem_append] at h
    rcases h with h | h
    · exact iha fl x y h hx
    · exact ihb fl x y h hx
  | rep greedy mn mx r ih =>
    intro fl x y h hx
    simp only [ends] at h
    exact capOK_repLoop (Q := fun z => i < z.caps.length)
      (fun a b hb ha => ih fl a b hb ha) _ _ _ _ _ h hx
  | group j r ih =>
    intro fl x y h hx
    simp only [ends, List.mem_map] at h
    obtain ⟨z, hz, rfl⟩ := h
    simpa using ih fl x z hz hx
  | withFlags fl' r ih => intro fl x y h hx; simp only [ends] at h; exact ih fl' x y h hx
  | anchor k =>
    intro fl x y h hx
    simp only [ends] at h
    split at h
    · simp only [List.mem_singleton] at h; subst h; exact hx
    · simp at h
  | backref j =>
    intro fl x y h hx
    simp only [ends] at h
    split at h
    · split at h
      · simp only [List.mem_singleton] at h; subst h; exact hx
      · simp at h
    · simp at h
  | look neg r ih =>
    intro fl x y h hx
    simp only [ends] at h
    split at h
    · split at h
      · simp only [List.mem_singleton] at h; subst h; exact hx
      · simp at h
    · rename_i z rest' hr
      split at h
      · simp at h
      · simp only [List.mem_singleton] at h
        subst h
        exact ih fl x z (by rw [hr]; simp) hx

/-- **content of a leading fixed-width group**: for a pattern `^(group i: fixed width k) rest…`
where `rest` does not contain group `i`, group `i` of any `re.match` result is `s[:k]` -/
theorem first_group_take {p : Pattern} {i : Nat} {A rest : Regex} {ps : List (Nat → Bool)} {s : Str}
    {m : Match} (hre : p.re = .seq (.anchor .bol) (.seq (.group i A) rest))
    (hA : A.fixed p.flags = some ps) (hrest : rest.groupBodies i p.flags = [])
    (hi : 0 < i) (hin : i ≤ p.ngroups) (hm : match_ p s = some m) :
    m.caps[i]? = some (some (0, ps.length)) ∧ m.group i = some (s.take ps.length) := by
  obtain ⟨st, h1, rfl⟩ := match_some hm
  unfold runAt at h1
  rw [hre] at h1
  obtain ⟨_, h2⟩ := mem_ends_anchor_seq.mp h1
  simp only [ends, List.mem_flatMap, List.mem_map] at h2
  obtain ⟨m1, ⟨m0, hm0, rfl⟩, hst⟩ := h2
  obtain ⟨_, hpos⟩ := ends_fixed_sound s A p.flags ps _ m0 hA hm0
  have hlen : i < m0.caps.length :=
    ends_caps_length_lt s i A p.flags _ m0 hm0 (by simp [MState.init]; omega)
  have hcap : st.caps[i]? = some (some (0, ps.length)) := by
    rw [ends_caps_unchanged s i rest p.flags _ st hrest hst]
    simp only [MState.init] at hpos ⊢
    rw [List.getElem?_set_self hlen, hpos]
    simp
  refine ⟨hcap, ?_⟩
  obtain ⟨i', rfl⟩ : ∃ i', i = i' + 1 := ⟨i - 1, by omega⟩
  simp only [Match.group, Match.span, mkMatch, hcap, Option.join]
  simp [slice]

end Py.Re

#print axioms Py.Re.ends_reach_sound
#print axioms Py.Re.ends_reach_complete
#print axioms Py.Re.match_isSome_iff_reach
#print axioms Py.Re.reach_fixed_iff
#print axioms Py.Re.ends_caps_unchanged
#print axioms Py.Re.first_group_take
#print axioms Py.Re.ends_caps_length_lt
