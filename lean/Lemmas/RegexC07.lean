import Lemmas.RegexReach
import Gen.bic
import Gen.casrn
import Gen.isrc
/-!
# Lemmas.RegexC07 — exact characterisations of three generated patterns (requested for C07)

* `bic_re_iff`   : `^[A-Z]{6}[0-9A-Z]{2}([0-9A-Z]{3})?$`
* `cas_re_iff`   : `^[1-9][0-9]{1,6}-[0-9]{2}-[0-9]$`
* `isrc_country` : the named group `country` of a match of the ISRC pattern is `s[:2]`
  (`isrc_re_iff` gives the `isSome` characterisation)

The subjects are assumed not to end in a newline (they are `strip()`ped), so `$` behaves like `\Z`.
-/
open Py Py.Re
namespace Py.Re.C07

theorem cls_upper (c : Nat) : classMatch {} false [.range 65 90] c = isAsciiUpper c := by
  simp [classMatch, itemMatch]

theorem cls_digit (c : Nat) : classMatch {} false [.range 48 57] c = isAsciiDigit c := by
  simp [classMatch, itemMatch]

theorem cls_digit_upper (c : Nat) :
    classMatch {} false [.range 48 57, .range 65 90] c = (isAsciiDigit c || isAsciiUpper c) := by
  simp [classMatch, itemMatch]

theorem isrc_country (s : Str) (m : Re.Match) (h : Re.search Gen.isrc._isrc_re s = some m) :
    m.groupNamedR [99, 111, 117, 110, 116, 114, 121] = .ok (s.take 2) := by
  rw [search_eq_match (p := Gen.isrc._isrc_re) rfl] at h
  have hsubj : m.subj = s := by
    obtain ⟨_, _, rfl⟩ := match_some h
    rfl
  obtain ⟨hcap, _⟩ := first_group_take (p := Gen.isrc._isrc_re) (i := 1) rfl rfl rfl (by decide) (by decide) h
  have hidx : m.index [99, 111, 117, 110, 116, 114, 121] = some 1 := by
    simp only [Match.index, match_names h]
    decide
  have := Match.groupNamedR_of_caps (by decide) hidx hcap
  rw [this, hsubj]
  simp [slice]

theorem getLast?_ne_of_not_mem {s : Str} (h : 10 ∉ s) : s.getLast? ≠ some 10 :=
  fun e => h (List.mem_of_getLast? e)

/-- `^[A-Z]{6}[0-9A-Z]{2}([0-9A-Z]{3})?$` on a subject that does not end in a newline -/
theorem bic_re_iff' (s : Str) (hnl : s.getLast? ≠ some 10) :
    (Re.search Gen.bic._bic_re s).isSome = true ↔
      (s.length = 8 ∨ s.length = 11) ∧ AllIn isAsciiUpper (s.take 6) ∧
        AllIn (fun c => isAsciiDigit c || isAsciiUpper c) (s.drop 6) := by
  rw [search_isSome_iff_reach (p := Gen.bic._bic_re) rfl rfl]
  have hU : classMatch {} false [.range 65 90] = isAsciiUpper := funext cls_upper
  have hA : classMatch {} false [.range 48 57, .range 65 90] =
      (fun c => isAsciiDigit c || isAsciiUpper c) := funext cls_digit_upper
  simp only [Gen.bic._bic_re, reach_seq, reach_anchor, reach_rep_cls, reach_opt, reach_group, hU, hA,
    eol_iff_of_no_trailing_nl hnl {} rfl, leMax]
  have htake : s.take 6 = slice s 0 6 := by simp [slice]
  have hdrop : s.drop 6 = slice s 6 s.length := by
    simp only [slice]
    rw [List.take_of_length_le (by simp)]
  constructor
  · rintro ⟨q, m0, ⟨rfl, _⟩, m1, ⟨k1, h1a, h1b, seg1, rfl⟩, m2, ⟨k2, h2a, h2b, seg2, rfl⟩, m3, hopt,
      rfl, hlen⟩
    have e1 : k1 = 6 := by omega
    have e2 : k2 = 2 := by omega
    subst e1 e2
    rw [htake, hdrop]
    rcases hopt with rfl | ⟨k3, h3a, h3b, seg3, rfl⟩
    · refine ⟨Or.inl (by omega), seg1.allIn_slice, ?_⟩
      have : s.length = 8 := by omega
      rw [this]
      exact seg2.allIn_slice
    · have e3 : k3 = 3 := by omega
      subst e3
      refine ⟨Or.inr (by omega), seg1.allIn_slice, ?_⟩
      have : s.length = 11 := by omega
      rw [this]
      exact (Seg.append seg2 seg3).allIn_slice
  · rintro ⟨hlen, h1, h2⟩
    rw [htake] at h1
    rw [hdrop] at h2
    have seg1 : Seg s isAsciiUpper 0 6 := Seg.of_allIn_slice (by omega) h1
    have seg2 : Seg s (fun c => isAsciiDigit c || isAsciiUpper c) 6 s.length :=
      Seg.of_allIn_slice (Nat.le_refl _) h2
    rcases hlen with hlen | hlen
    · refine ⟨8, 0, ⟨rfl, by simp [anchorMatch]⟩, 6, ⟨6, by omega, by omega, seg1, rfl⟩, 8,
        ⟨2, by omega, by omega, by rw [hlen] at seg2; exact seg2, rfl⟩, 8, Or.inl rfl, rfl, hlen.symm⟩
    · rw [hlen] at seg2
      obtain ⟨sa, sb⟩ := seg2.split (b := 8) (by omega) (by omega)
      refine ⟨11, 0, ⟨rfl, by simp [anchorMatch]⟩, 6, ⟨6, by omega, by omega, seg1, rfl⟩, 8,
        ⟨2, by omega, by omega, sa, rfl⟩, 11, Or.inr ⟨3, by omega, by omega, sb, rfl⟩, rfl, hlen.symm⟩

/-- the form requested: no newline anywhere in the subject -/
theorem bic_re_iff (s : Str) (h10 : 10 ∉ s) :
    (Re.search Gen.bic._bic_re s).isSome = true ↔
      (s.length = 8 ∨ s.length = 11) ∧ AllIn isAsciiUpper (s.take 6) ∧
        AllIn (fun c => isAsciiDigit c || isAsciiUpper c) (s.drop 6) :=
  bic_re_iff' s (getLast?_ne_of_not_mem h10)

theorem cls_19 (c : Nat) : classMatch {} false [.range 49 57] c = (decide (49 ≤ c) && decide (c ≤ 57)) := by
  simp [classMatch, itemMatch]

theorem lit_45 (c : Nat) : litMatch {} 45 c = (c == 45) := by
  simp [litMatch]

theorem eq_take_append5 {s : Str} {n x0 x1 x2 x3 x4 : Nat} (hlen : s.length = n + 5)
    (h0 : s[n]? = some x0) (h1 : s[n + 1]? = some x1) (h2 : s[n + 2]? = some x2)
    (h3 : s[n + 3]? = some x3) (h4 : s[n + 4]? = some x4) :
    s = s.take n ++ [x0, x1, x2, x3, x4] := by
  have hd : s.drop n = [x0, x1, x2, x3, x4] := by
    apply List.ext_getElem?
    intro j
    rw [List.getElem?_drop]
    match j with
    | 0 => simpa using h0
    | 1 => simpa using h1
    | 2 => simpa using h2
    | 3 => simpa using h3
    | 4 => simpa using h4
    | j + 5 =>
      rw [List.getElem?_eq_none (by omega)]
      simp
  calc s = s.take n ++ s.drop n := (List.take_append_drop n s).symm
    _ = s.take n ++ [x0, x1, x2, x3, x4] := by rw [hd]

/-- `^[1-9][0-9]{1,6}-[0-9]{2}-[0-9]$` on a subject that does not end in a newline -/
theorem cas_re_iff (s : Str) (h10 : s.getLast? ≠ some 10) :
    (Re.match_ Gen.casrn._cas_re s).isSome = true ↔
      ∃ a b1 b2 c, s = a ++ [45, b1, b2, 45, c] ∧ 2 ≤ a.length ∧ a.length ≤ 7 ∧
        AllIn isAsciiDigit a ∧ a.head? ≠ some 48 ∧
        isAsciiDigit b1 = true ∧ isAsciiDigit b2 = true ∧ isAsciiDigit c = true := by
  rw [match_isSome_iff_reach (p := Gen.casrn._cas_re) rfl]
  have hD : classMatch {} false [.range 48 57] = isAsciiDigit := funext cls_digit
  simp only [Gen.casrn._cas_re, reach_seq, reach_anchor, reach_rep_cls, reach_cls, reach_lit, hD, cls_19,
    lit_45, eol_iff_of_no_trailing_nl h10 {} rfl, leMax]
  constructor
  · rintro ⟨q, m0, ⟨rfl, _⟩, m1, ⟨c0, hc0, hc0', rfl⟩, m2, ⟨k, hk1, hk2, seg1, rfl⟩, m3,
      ⟨d1, hd1, hd1', rfl⟩, m4, ⟨k2, hk2a, hk2b, seg2, rfl⟩, m5, ⟨d2, hd2, hd2', rfl⟩, m6,
      ⟨c, hc, hc', rfl⟩, rfl, hlen⟩
    have ek : k2 = 2 := by omega
    subst ek
    obtain ⟨b1, hb1, hb1'⟩ := seg2 (0 + 1 + k + 1) (by omega) (by omega)
    obtain ⟨b2, hb2, hb2'⟩ := seg2 (0 + 1 + k + 1 + 1) (by omega) (by omega)
    have e1 : d1 = 45 := by simpa using hd1'
    have e2 : d2 = 45 := by simpa using hd2'
    subst e1 e2
    have hc0d : isAsciiDigit c0 = true := by
      simp only [Bool.and_eq_true, decide_eq_true_eq] at hc0'
      simp; omega
    have segA : Seg s isAsciiDigit 0 (1 + k) := by
      rw [Seg.cons_iff (by omega)]
      refine ⟨⟨c0, hc0, hc0d⟩, ?_⟩
      have e : 0 + 1 + k = 1 + k := by omega
      rw [e] at seg1
      simpa using seg1
    refine ⟨s.take (1 + k), b1, b2, c, ?_, ?_, ?_, ?_, ?_, hb1', hb2', hc'⟩
    · apply eq_take_append5 (by omega)
      · have e : 0 + 1 + k = 1 + k := by omega
        rw [← e]; exact hd1
      · have e : 0 + 1 + k + 1 = 1 + k + 1 := by omega
        rw [← e]; exact hb1
      · have e : 0 + 1 + k + 1 + 1 = 1 + k + 2 := by omega
        rw [← e]; exact hb2
      · have e : 0 + 1 + k + 1 + 2 = 1 + k + 3 := by omega
        rw [← e]; exact hd2
      · have e : 0 + 1 + k + 1 + 2 + 1 = 1 + k + 4 := by omega
        rw [← e]; exact hc
    · rw [List.length_take]; omega
    · rw [List.length_take]; omega
    · have := segA.allIn_slice
      rwa [slice_zero] at this
    · intro hh
      have h0 : (s.take (1 + k))[0]? = some 48 := by
        rw [← List.head?_eq_getElem?]; exact hh
      rw [List.getElem?_take] at h0
      simp only [show 0 < 1 + k by omega, if_true] at h0
      rw [hc0] at h0
      have : c0 = 48 := Option.some.inj h0
      subst this
      simp at hc0'
  · rintro ⟨a, b1, b2, c, rfl, ha1, ha2, hall, hhead, hb1, hb2, hc⟩
    have hget : ∀ j, j < a.length → (a ++ [45, b1, b2, 45, c])[j]? = some a[j]! ∧
        isAsciiDigit a[j]! = true := by
      intro j hj
      rw [List.getElem?_append_left hj]
      have : a[j]! = a[j] := by simp [hj]
      rw [this]
      exact ⟨List.getElem?_eq_getElem hj, hall _ (List.getElem_mem hj)⟩
    have htail : ∀ d, (a ++ [45, b1, b2, 45, c])[a.length + d]? = [45, b1, b2, 45, c][d]? := by
      intro d
      rw [List.getElem?_append_right (by omega)]
      congr 1
      omega
    obtain ⟨h00, h0d⟩ := hget 0 (by omega)
    have h0ne : a[0]! ≠ 48 := by
      intro e
      apply hhead
      rw [List.head?_eq_getElem?]
      have : a[0]? = some a[0]! := by
        have : (0 : Nat) < a.length := by omega
        simp [this]
      rw [this, e]
    refine ⟨a.length + 5, 0, ⟨rfl, by simp [anchorMatch]⟩, 1, ⟨a[0]!, h00, ?_, rfl⟩, a.length,
      ⟨a.length - 1, by omega, by omega, ?_, by omega⟩, a.length + 1, ⟨45, ?_, by simp, rfl⟩,
      a.length + 3, ⟨2, by omega, by omega, ?_, rfl⟩, a.length + 4, ⟨45, ?_, by simp, rfl⟩,
      a.length + 5, ⟨c, ?_, hc, rfl⟩, rfl, by simp⟩
    · simp only [isAsciiDigit, Bool.and_eq_true, decide_eq_true_eq] at h0d ⊢
      omega
    · intro j hj1 hj2
      obtain ⟨g1, g2⟩ := hget j (by omega)
      exact ⟨_, g1, g2⟩
    · simp
    · intro j hj1 hj2
      have : j = a.length + 1 ∨ j = a.length + 2 := by omega
      rcases this with rfl | rfl
      · exact ⟨b1, by simp, hb1⟩
      · exact ⟨b2, by simp, hb2⟩
    · simp
    · simp

/-! non-vacuity -/
example : (Re.search Gen.bic._bic_re [65, 66, 67, 68, 69, 70, 50, 51]).isSome = true := by decide
example : (Re.search Gen.bic._bic_re [65, 66, 67, 68, 69, 70, 50, 51, 88, 88, 88]).isSome = true := by decide
example : (Re.search Gen.bic._bic_re [65, 66, 67, 68, 69, 70, 50, 51, 88]).isSome = false := by decide
example : (Re.match_ Gen.casrn._cas_re [55, 55, 51, 50, 45, 49, 56, 45, 53]).isSome = true := by decide
example : (Re.match_ Gen.casrn._cas_re [48, 55, 51, 50, 45, 49, 56, 45, 53]).isSome = false := by decide
example : (Re.search Gen.isrc._isrc_re [85, 83, 83, 75, 71, 49, 57, 49, 50, 51, 52, 53]).isSome = true := by
  decide

end Py.Re.C07

#print axioms Py.Re.C07.bic_re_iff
#print axioms Py.Re.C07.cas_re_iff
#print axioms Py.Re.C07.isrc_country
