import PyRt
import Std.Do
import Std.Tactic.Do
/-!
# Lemmas.Hoare — Hoare logic glue for the exception monad `Py.R`

* bridging between `Std.Do` triples and the plain statement form `Py.Holds`
* `@[spec]` lemmas for the `PyRt` primitives that can raise: the precondition of each is its safety
  condition, so `mvcgen` leaves exactly "every partial operation is guarded" as verification conditions.
-/
open Py Std.Do
set_option mvcgen.warning false

namespace Py

/-- `x` succeeds with a value satisfying `P` -/
def Ok {α : Type} (x : R α) (P : α → Prop) : Prop := ∃ a, x = .ok a ∧ P a

theorem Ok.intro {α : Type} {x : R α} {P : α → Prop} (a : α) (h : x = .ok a) (hp : P a) : Ok x P := ⟨a, h, hp⟩

theorem triple_of_Ok {α : Type} {x : R α} {P : α → Prop} (h : Ok x P) :
    ⦃⌜True⌝⦄ x ⦃post⟨fun r => ⌜P r⌝, fun _ => ⌜False⌝⟩⦄ := by
  obtain ⟨a, rfl, hp⟩ := h
  rw [Triple.iff]
  intro _
  show (wp⟦(pure a : R α)⟧ post⟨fun r => ⌜P r⌝, fun _ => ⌜False⌝⟩).down
  simpa using hp

/-- from a triple to the plain statement -/
theorem holds_of_triple {α : Type} (x : R α) (Q : α → Prop) (E : Exc → Prop)
    (h : ⦃⌜True⌝⦄ x ⦃post⟨fun r => ⌜Q r⌝, fun e => ⌜E e⌝⟩⦄) : Holds x Q E := by
  unfold Holds
  have h' := h
  rw [Triple.iff] at h'
  cases x with
  | ok a =>
    have h2 : (wp⟦(pure a : R α)⟧ post⟨fun r => ⌜Q r⌝, fun e => ⌜E e⌝⟩).down := h' trivial
    simpa using h2
  | error e =>
    have h2 : (wp⟦(MonadExceptOf.throw e : R α)⟧ post⟨fun r => ⌜Q r⌝, fun e => ⌜E e⌝⟩).down := h' trivial
    simpa using h2

/-- from the plain statement to a triple (to use a proved contract as a callee spec) -/
theorem triple_of_holds {α : Type} (x : R α) (Q : α → Prop) (E : Exc → Prop) (h : Holds x Q E) :
    ⦃⌜True⌝⦄ x ⦃post⟨fun r => ⌜Q r⌝, fun e => ⌜E e⌝⟩⦄ := by
  rw [Triple.iff]
  intro _
  cases x with
  | ok a =>
    show (wp⟦(pure a : R α)⟧ post⟨fun r => ⌜Q r⌝, fun e => ⌜E e⌝⟩).down
    simpa [Holds] using h
  | error e =>
    show (wp⟦(MonadExceptOf.throw e : R α)⟧ post⟨fun r => ⌜Q r⌝, fun e => ⌜E e⌝⟩).down
    simpa [Holds] using h

theorem Ok_of_triple {α : Type} {x : R α} {P : α → Prop}
    (h : ⦃⌜True⌝⦄ x ⦃post⟨fun r => ⌜P r⌝, fun _ => ⌜False⌝⟩⦄) : Ok x P := by
  have := holds_of_triple x P (fun _ => False) h
  unfold Holds at this
  cases x with
  | ok a => exact ⟨a, rfl, this⟩
  | error e => exact this.elim

@[spec] theorem raise_spec {α : Type} (e : Exc) (Q : PostCond α (.except Exc .pure)) :
    ⦃Q.2.1 e⦄ (Py.raise e : R α) ⦃Q⦄ := by
  rw [Triple.iff]
  intro h
  show (wp⟦(MonadExceptOf.throw e : R α)⟧ Q).down
  simpa using h

/-! ## lists -/

theorem Ok_mapM {α β : Type} (f : α → R β) (P : β → Prop) (l : List α)
    (h : ∀ a ∈ l, Ok (f a) P) : Ok (l.mapM f) (fun rs => rs.length = l.length ∧ ∀ r ∈ rs, P r) := by
  induction l with
  | nil => exact ⟨[], rfl, rfl, by simp⟩
  | cons a l ih =>
    obtain ⟨b, hb, hp⟩ := h a (by simp)
    obtain ⟨bs, hbs, hl, hps⟩ := ih (fun x hx => h x (by simp [hx]))
    refine ⟨b :: bs, ?_, by simp [hl], ?_⟩
    · simp [List.mapM_cons, hb, hbs, bind, Except.bind, pure, Except.pure]
    · intro r hr
      cases hr with
      | head => exact hp
      | tail _ h' => exact hps r h'

/-- `mapM`: the per-element obligation is left as a verification condition -/
@[spec] theorem mapM_spec {α β : Type} (f : α → R β) (l : List α)
    (h : ∀ a ∈ l, ⦃⌜True⌝⦄ f a ⦃post⟨fun _ => ⌜True⌝, fun _ => ⌜False⌝⟩⦄) :
    ⦃⌜True⌝⦄ l.mapM f ⦃post⟨fun rs => ⌜rs.length = l.length⌝, fun _ => ⌜False⌝⟩⦄ :=
  triple_of_Ok (by
    obtain ⟨rs, h1, h2, _⟩ := Ok_mapM f (fun _ => True) l (fun a ha => Ok_of_triple (h a ha))
    exact ⟨rs, h1, h2⟩)

theorem Ok_filterMapM {α β : Type} (f : α → R (Option β)) (l : List α)
    (h : ∀ a ∈ l, Ok (f a) (fun _ => True)) : Ok (l.filterMapM f) (fun _ => True) := by
  suffices ∀ acc : List β, Ok (List.filterMapM.loop f l acc) (fun _ => True) by
    simpa [List.filterMapM] using this []
  induction l with
  | nil => intro acc; exact ⟨_, rfl, trivial⟩
  | cons a l ih =>
    intro acc
    obtain ⟨b, hb, _⟩ := h a (by simp)
    simp only [List.filterMapM.loop, hb, bind, Except.bind]
    cases b with
    | none => exact ih (fun x hx => h x (by simp [hx])) acc
    | some v => exact ih (fun x hx => h x (by simp [hx])) (v :: acc)

@[spec] theorem filterMapM_spec {α β : Type} (f : α → R (Option β)) (l : List α)
    (h : ∀ a ∈ l, ⦃⌜True⌝⦄ f a ⦃post⟨fun _ => ⌜True⌝, fun _ => ⌜False⌝⟩⦄) :
    ⦃⌜True⌝⦄ l.filterMapM f ⦃post⟨fun _ => ⌜True⌝, fun _ => ⌜False⌝⟩⦄ :=
  triple_of_Ok (Ok_filterMapM f l (fun a ha => Ok_of_triple (h a ha)))

/-! ## indexing -/

theorem getItemL_ok {α : Type} (s : List α) (i : Int) (h : -(s.length : Int) ≤ i ∧ i < s.length) :
    Ok (getItemL s i) (fun r => r ∈ s) := by
  unfold getItemL
  simp only []
  have hj : 0 ≤ (if i < 0 then (s.length : Int) + i else i) ∧ (if i < 0 then (s.length : Int) + i else i) < s.length := by
    split <;> omega
  rw [if_pos hj]
  have hlt : (if i < 0 then (s.length : Int) + i else i).toNat < s.length := by omega
  rw [List.getElem?_eq_getElem hlt]
  exact ⟨_, rfl, List.getElem_mem _⟩

@[spec] theorem getItemL_spec {α : Type} (s : List α) (i : Int) (h : -(s.length : Int) ≤ i ∧ i < s.length) :
    ⦃⌜True⌝⦄ getItemL s i ⦃post⟨fun r => ⌜r ∈ s⌝, fun _ => ⌜False⌝⟩⦄ :=
  triple_of_Ok (getItemL_ok s i h)

theorem getItem_ok (s : Str) (i : Int) (h : -(s.length : Int) ≤ i ∧ i < s.length) :
    Ok (getItem s i) (fun r => ∃ c ∈ s, r = [c]) := by
  obtain ⟨c, hc, hm⟩ := getItemL_ok s i h
  exact ⟨[c], by simp [getItem, hc], c, hm, rfl⟩

@[spec] theorem getItem_spec (s : Str) (i : Int) (h : -(s.length : Int) ≤ i ∧ i < s.length) :
    ⦃⌜True⌝⦄ getItem s i ⦃post⟨fun r => ⌜∃ c ∈ s, r = [c]⌝, fun _ => ⌜False⌝⟩⦄ :=
  triple_of_Ok (getItem_ok s i h)

@[spec] theorem dictGet_spec {κ ν : Type} [BEq κ] (d : List (κ × ν)) (k : κ) (h : dictHas d k = true) :
    ⦃⌜True⌝⦄ dictGet d k ⦃post⟨fun _ => ⌜True⌝, fun _ => ⌜False⌝⟩⦄ := by
  apply triple_of_Ok
  unfold dictGet
  unfold dictHas at h
  cases hd : dictGet? d k with
  | none => simp [hd] at h
  | some v => exact ⟨v, rfl, trivial⟩

@[spec] theorem optGet_spec {α : Type} (o : Option α) (h : o.isSome = true) :
    ⦃⌜True⌝⦄ optGet o ⦃post⟨fun r => ⌜o = some r⌝, fun _ => ⌜False⌝⟩⦄ := by
  apply triple_of_Ok
  cases o with
  | none => simp at h
  | some v => exact ⟨v, rfl, rfl⟩

/-- never a non-ValueError exception; on success the string is unchanged and ASCII -/
@[spec] theorem asciiOnly_spec (s : Str) :
    ⦃⌜True⌝⦄ asciiOnly s ⦃post⟨fun r => ⌜r = s ∧ AllIn isAscii s⌝, fun e => ⌜e = .unicodeError⌝⟩⦄ := by
  apply triple_of_holds
  unfold asciiOnly
  by_cases h : s.all (fun c => decide (c < 128)) = true
  · rw [if_pos h]
    refine ⟨rfl, ?_⟩
    intro c hc
    simpa using (List.all_eq_true.mp h) c hc
  · rw [if_neg h]
    rfl

/-! ## arithmetic -/

@[spec] theorem pymod_spec (a b : Int) (h : b ≠ 0) :
    ⦃⌜True⌝⦄ pymod a b ⦃post⟨fun r => ⌜r = Int.fmod a b⌝, fun _ => ⌜False⌝⟩⦄ := by
  apply triple_of_Ok
  unfold pymod
  rw [if_neg h]
  exact ⟨_, rfl, rfl⟩

@[spec] theorem pyfloordiv_spec (a b : Int) (h : b ≠ 0) :
    ⦃⌜True⌝⦄ pyfloordiv a b ⦃post⟨fun r => ⌜r = Int.fdiv a b⌝, fun _ => ⌜False⌝⟩⦄ := by
  apply triple_of_Ok
  unfold pyfloordiv
  rw [if_neg h]
  exact ⟨_, rfl, rfl⟩

@[spec] theorem pydivmod_spec (a b : Int) (h : b ≠ 0) :
    ⦃⌜True⌝⦄ pydivmod a b ⦃post⟨fun r => ⌜r = (Int.fdiv a b, Int.fmod a b)⌝, fun _ => ⌜False⌝⟩⦄ := by
  apply triple_of_Ok
  unfold pydivmod
  rw [if_neg h]
  exact ⟨_, rfl, rfl⟩

end Py
