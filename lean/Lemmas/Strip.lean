import PyRt.Strip
import Lemmas.Unicode
/-!
# Lemmas.Strip — facts about `Py.strip` and friends

General lemmas are stated for `stripBy p`; the `strip` versions instantiate `p := Uni.isSpace`.
-/
namespace Py

/-! ## generic: `dropWhile` -/

theorem head?_dropWhile_not {α : Type} (p : α → Bool) :
    ∀ (l : List α) (c : α), (l.dropWhile p).head? = some c → p c = false
  | [], c, h => by simp at h
  | a :: l, c, h => by
    rw [List.dropWhile_cons] at h
    split at h
    · exact head?_dropWhile_not p l c h
    · next hn =>
      simp only [List.head?_cons, Option.some.injEq] at h
      subst h
      simpa using hn

theorem dropWhile_eq_self_of_head {α : Type} (p : α → Bool) (l : List α)
    (h : ∀ c, l.head? = some c → p c = false) : l.dropWhile p = l := by
  cases l with
  | nil => rfl
  | cons a t =>
    have := h a rfl
    rw [List.dropWhile_cons]
    simp [this]

theorem mem_takeWhile_imp {α : Type} {p : α → Bool} :
    ∀ {l : List α} {c : α}, c ∈ l.takeWhile p → p c = true
  | [], _, h => by simp at h
  | a :: l, c, h => by
    rw [List.takeWhile_cons] at h
    split at h
    · next ha =>
      rcases List.mem_cons.mp h with rfl | h'
      · exact ha
      · exact mem_takeWhile_imp h'
    · simp at h

/-! ## `lstripBy`, `rstripBy`, `stripBy` -/

theorem lstripBy_decomp (p : Nat → Bool) (s : Str) :
    s = s.takeWhile p ++ lstripBy p s ∧ AllIn p (s.takeWhile p) := by
  refine ⟨(List.takeWhile_append_dropWhile (p := p) (l := s)).symm, ?_⟩
  intro c hc
  exact mem_takeWhile_imp hc

theorem rstripBy_decomp (p : Nat → Bool) (s : Str) :
    s = rstripBy p s ++ (s.reverse.takeWhile p).reverse ∧ AllIn p (s.reverse.takeWhile p).reverse := by
  constructor
  · have h := (List.takeWhile_append_dropWhile (p := p) (l := s.reverse))
    have h2 := congrArg List.reverse h
    rw [List.reverse_append, List.reverse_reverse] at h2
    exact h2.symm
  · intro c hc
    exact mem_takeWhile_imp (List.mem_reverse.mp hc)

theorem lstripBy_head (p : Nat → Bool) (s : Str) (c : Nat)
    (h : (lstripBy p s).head? = some c) : p c = false :=
  head?_dropWhile_not p s c h

theorem rstripBy_getLast (p : Nat → Bool) (s : Str) (c : Nat)
    (h : (rstripBy p s).getLast? = some c) : p c = false := by
  unfold rstripBy at h
  rw [List.getLast?_reverse] at h
  exact head?_dropWhile_not p _ c h

theorem lstripBy_eq_self (p : Nat → Bool) (s : Str)
    (h : ∀ c, s.head? = some c → p c = false) : lstripBy p s = s :=
  dropWhile_eq_self_of_head p s h

theorem rstripBy_eq_self (p : Nat → Bool) (s : Str)
    (h : ∀ c, s.getLast? = some c → p c = false) : rstripBy p s = s := by
  unfold rstripBy
  rw [dropWhile_eq_self_of_head p s.reverse (by simpa [List.head?_reverse] using h)]
  exact List.reverse_reverse s

/-- `rstripBy` keeps the head of a non-empty result -/
theorem rstripBy_head (p : Nat → Bool) (s : Str) (c : Nat)
    (h : (rstripBy p s).head? = some c) : s.head? = some c := by
  have hd := (rstripBy_decomp p s).1
  cases hr : rstripBy p s with
  | nil => rw [hr] at h; simp at h
  | cons a t =>
    rw [hr] at h hd
    rw [hd]
    simpa using h

theorem stripBy_head (p : Nat → Bool) (s : Str) (c : Nat)
    (h : (stripBy p s).head? = some c) : p c = false :=
  lstripBy_head p s c (rstripBy_head p _ c h)

theorem stripBy_getLast (p : Nat → Bool) (s : Str) (c : Nat)
    (h : (stripBy p s).getLast? = some c) : p c = false :=
  rstripBy_getLast p _ c h

/-- a string whose first and last characters do not satisfy `p` is unchanged -/
theorem stripBy_eq_self (p : Nat → Bool) (s : Str)
    (h1 : ∀ c, s.head? = some c → p c = false) (h2 : ∀ c, s.getLast? = some c → p c = false) :
    stripBy p s = s := by
  unfold stripBy
  rw [lstripBy_eq_self p s h1, rstripBy_eq_self p s h2]

theorem stripBy_eq_self_of_forall (p : Nat → Bool) (s : Str) (h : ∀ c ∈ s, p c = false) :
    stripBy p s = s :=
  stripBy_eq_self p s (fun c hc => h c (List.mem_of_mem_head? hc))
    (fun c hc => h c (List.mem_of_mem_getLast? hc))

theorem stripBy_idem (p : Nat → Bool) (s : Str) : stripBy p (stripBy p s) = stripBy p s :=
  stripBy_eq_self p _ (stripBy_head p s) (stripBy_getLast p s)

/-- the result is a contiguous part of the input, the removed ends satisfy `p` -/
theorem stripBy_decomp (p : Nat → Bool) (s : Str) :
    ∃ a b, s = a ++ stripBy p s ++ b ∧ AllIn p a ∧ AllIn p b := by
  refine ⟨s.takeWhile p, ((lstripBy p s).reverse.takeWhile p).reverse, ?_, (lstripBy_decomp p s).2,
    (rstripBy_decomp p (lstripBy p s)).2⟩
  have h1 := (lstripBy_decomp p s).1
  have h2 := (rstripBy_decomp p (lstripBy p s)).1
  unfold stripBy
  rw [List.append_assoc, ← h2, ← h1]

theorem mem_of_mem_stripBy (p : Nat → Bool) (s : Str) (c : Nat) (h : c ∈ stripBy p s) : c ∈ s := by
  obtain ⟨a, b, hs, _, _⟩ := stripBy_decomp p s
  rw [hs]
  simp [h]

theorem mem_of_mem_lstripBy (p : Nat → Bool) (s : Str) (c : Nat) (h : c ∈ lstripBy p s) : c ∈ s := by
  rw [(lstripBy_decomp p s).1]
  simp [h]

theorem mem_of_mem_rstripBy (p : Nat → Bool) (s : Str) (c : Nat) (h : c ∈ rstripBy p s) : c ∈ s := by
  rw [(rstripBy_decomp p s).1]
  simp [h]

theorem AllIn.stripBy {q : Nat → Bool} {s : Str} (h : AllIn q s) (p : Nat → Bool) :
    AllIn q (stripBy p s) :=
  fun c hc => h c (mem_of_mem_stripBy p s c hc)

theorem AllIn.lstripBy {q : Nat → Bool} {s : Str} (h : AllIn q s) (p : Nat → Bool) :
    AllIn q (lstripBy p s) :=
  fun c hc => h c (mem_of_mem_lstripBy p s c hc)

theorem AllIn.rstripBy {q : Nat → Bool} {s : Str} (h : AllIn q s) (p : Nat → Bool) :
    AllIn q (rstripBy p s) :=
  fun c hc => h c (mem_of_mem_rstripBy p s c hc)

theorem stripBy_length_le (p : Nat → Bool) (s : Str) : (stripBy p s).length ≤ s.length := by
  obtain ⟨a, b, hs, _, _⟩ := stripBy_decomp p s
  have := congrArg List.length hs
  simp only [List.length_append] at this
  omega

/-! ## `strip()` -/

/-- `s.strip().strip() == s.strip()` -/
@[simp] theorem strip_strip (s : Str) : strip (strip s) = strip s := stripBy_idem _ s

theorem stripped_strip (s : Str) : Stripped (strip s) := (strip_strip s).symm

theorem strip_head_not_space (s : Str) (c : Nat) (h : (strip s).head? = some c) :
    Uni.isSpace c = false := stripBy_head _ s c h

theorem strip_getLast?_not_space (s : Str) (c : Nat) (h : (strip s).getLast? = some c) :
    Uni.isSpace c = false := stripBy_getLast _ s c h

theorem strip_getLast_not_space (s : Str) (h : strip s ≠ []) :
    Uni.isSpace ((strip s).getLast h) = false :=
  strip_getLast?_not_space s _ (List.getLast?_eq_some_getLast h)

theorem strip_head_not_space' (s : Str) (h : strip s ≠ []) :
    Uni.isSpace ((strip s).head h) = false :=
  strip_head_not_space s _ (List.head?_eq_some_head h)

/-- unchanged when first and last character are not white space (`head?`/`getLast?` form) -/
theorem strip_eq_self' (s : Str) (h1 : ∀ c, s.head? = some c → Uni.isSpace c = false)
    (h2 : ∀ c, s.getLast? = some c → Uni.isSpace c = false) : strip s = s :=
  stripBy_eq_self _ s h1 h2

/-- unchanged when empty or first and last character are not white space -/
theorem strip_eq_self (s : Str)
    (h : s = [] ∨ ∃ hne : s ≠ [], Uni.isSpace (s.head hne) = false ∧ Uni.isSpace (s.getLast hne) = false) :
    strip s = s := by
  rcases h with rfl | ⟨hne, hh, hl⟩
  · rfl
  · apply strip_eq_self'
    · intro c hc
      rw [List.head?_eq_some_head hne] at hc
      cases hc; exact hh
    · intro c hc
      rw [List.getLast?_eq_some_getLast hne] at hc
      cases hc; exact hl

/-- no white space at all ⇒ unchanged -/
theorem strip_eq_self_of_no_space (s : Str) (h : ∀ c ∈ s, Uni.isSpace c = false) : strip s = s :=
  stripBy_eq_self_of_forall _ s h

/-- any character class `p` that excludes white space -/
theorem strip_eq_self_of_allIn (p : Nat → Bool) (hp : ∀ c, p c = true → Uni.isSpace c = false)
    (s : Str) (h : AllIn p s) : strip s = s :=
  strip_eq_self_of_no_space s (fun c hc => hp c (h c hc))

theorem strip_eq_self_of_asciiAlnum (s : Str) (h : AllIn isAsciiAlnum s) : strip s = s :=
  strip_eq_self_of_allIn isAsciiAlnum (fun c hc => Uni.isSpace_of_asciiAlnum c hc) s h

theorem strip_eq_self_of_asciiDigit (s : Str) (h : AllIn isAsciiDigit s) : strip s = s :=
  strip_eq_self_of_allIn isAsciiDigit
    (fun c hc => Uni.isSpace_of_asciiAlnum c (by simp only [isAsciiAlnum, hc, Bool.true_or])) s h

theorem stripped_iff (s : Str) : Stripped s ↔ strip s = s := by
  unfold Stripped; exact eq_comm

/-- `strip` returns a contiguous part of the input; what is cut off is white space -/
theorem strip_decomp (s : Str) :
    ∃ a b, s = a ++ strip s ++ b ∧ AllIn Uni.isSpace a ∧ AllIn Uni.isSpace b :=
  stripBy_decomp _ s

theorem AllIn.strip {p : Nat → Bool} {s : Str} (h : AllIn p s) : AllIn p (strip s) := h.stripBy _
theorem AllIn.lstrip {p : Nat → Bool} {s : Str} (h : AllIn p s) : AllIn p (lstrip s) := h.lstripBy _
theorem AllIn.rstrip {p : Nat → Bool} {s : Str} (h : AllIn p s) : AllIn p (rstrip s) := h.rstripBy _
theorem AllIn.stripChars {p : Nat → Bool} {s : Str} (h : AllIn p s) (cs : Str) :
    AllIn p (stripChars s cs) := h.stripBy _
theorem AllIn.lstripChars {p : Nat → Bool} {s : Str} (h : AllIn p s) (cs : Str) :
    AllIn p (lstripChars s cs) := h.lstripBy _
theorem AllIn.rstripChars {p : Nat → Bool} {s : Str} (h : AllIn p s) (cs : Str) :
    AllIn p (rstripChars s cs) := h.rstripBy _

theorem mem_of_mem_strip (s : Str) (c : Nat) (h : c ∈ strip s) : c ∈ s := mem_of_mem_stripBy _ s c h

theorem strip_length_le (s : Str) : (strip s).length ≤ s.length := stripBy_length_le _ s

/-- the result of `strip()` never ends in a newline (so `$` and `\Z` agree on it) -/
theorem strip_ne_append_newline (s t : Str) : strip s ≠ t ++ [10] := by
  intro h
  have := strip_getLast?_not_space s 10 (by rw [h]; simp)
  simp [Uni.isSpace] at this

/-- more generally it never ends in a white-space character -/
theorem strip_ne_append_space (s t : Str) (c : Nat) (hc : Uni.isSpace c = true) : strip s ≠ t ++ [c] := by
  intro h
  have := strip_getLast?_not_space s c (by rw [h]; simp)
  rw [hc] at this; cases this

/-- `lstrip(chars)`: the first remaining character is not in `chars` -/
theorem lstripChars_head (s cs : Str) (c : Nat) (h : (lstripChars s cs).head? = some c) : c ∉ cs := by
  have := lstripBy_head _ s c h
  simpa using this

theorem stripChars_head (s cs : Str) (c : Nat) (h : (stripChars s cs).head? = some c) : c ∉ cs := by
  have := stripBy_head _ s c h
  simpa using this

theorem stripChars_getLast (s cs : Str) (c : Nat) (h : (stripChars s cs).getLast? = some c) : c ∉ cs := by
  have := stripBy_getLast _ s c h
  simpa using this

/-- e.g. `number.lstrip('0')` of a digit string is a digit string -/
example : lstripChars [48, 48, 49, 50, 48] [48] = [49, 50, 48] := by decide
example : strip [32, 9, 0x85, 49, 32, 50, 0x3000, 10] = [49, 32, 50] := by decide +kernel
example : Stripped [49, 32, 50] := by decide +kernel
example : AllIn isAsciiAlnum [65, 49] ∧ strip [65, 49] = [65, 49] :=
  ⟨by decide, strip_eq_self_of_asciiAlnum _ (by decide)⟩

/-! ## `upper()` and white space -/

namespace Uni

theorem upperFullTab_nonempty_nospace :
    Data.upperFullTab.toList.all (fun e => !e.2.isEmpty && e.2.all (fun u => !isSpace u)) = true := by
  decide +kernel

/-- no image interval of a simple upper-case run meets a white-space range -/
theorem upper1Tab_nospace :
    Data.upper1Tab.toList.all (fun e =>
      Data.spaceTab.toList.all (fun r => decide (r.2 < e.2.2) || decide (e.2.2 + (e.2.1 - e.1) < r.1))) = true := by
  decide +kernel

theorem upperC_ne_nil (d : Nat) : upperC d ≠ [] := by
  unfold upperC
  split
  · simp
  · split
    · next l hl =>
      have := List.all_eq_true.mp upperFullTab_nonempty_nospace (d, l) (pointVal_some hl)
      simp only [Bool.and_eq_true, Bool.not_eq_true', List.isEmpty_eq_false_iff] at this
      exact this.1
    · simp

/-- `upper()` never creates white space: a white-space character in `chr(d).upper()` is `d` itself -/
theorem isSpace_upperC {d u : Nat} (hu : u ∈ upperC d) (hs : isSpace u = true) : isSpace d = true := by
  by_cases hd : d < 128
  · rw [upperC_ascii' hd, List.mem_singleton] at hu
    have hult : u < 128 := by rw [hu]; exact asciiUpper_lt hd
    rw [isSpace_ascii_iff hult] at hs
    rw [isSpace_ascii_iff hd]
    unfold asciiUpper at hu
    split at hu <;> omega
  · by_cases hult : u < 128
    · have hsrc := upperToAsciiSources_complete d u (by omega) hu hult
      have := upperToAsciiSources_letters d hsrc u hu hult
      simp only [isAsciiUpper, Bool.and_eq_true, decide_eq_true_eq] at this
      rw [isSpace_ascii_iff hult] at hs
      omega
    · unfold upperC at hu
      rw [if_neg hd] at hu
      split at hu
      · next l hl =>
        have := List.all_eq_true.mp upperFullTab_nonempty_nospace (d, l) (pointVal_some hl)
        simp only [Bool.and_eq_true, List.all_eq_true, Bool.not_eq_true'] at this
        rw [this.2 u hu] at hs; cases hs
      · simp only [List.mem_singleton] at hu
        cases hr : runVal Data.upper1Tab d with
        | none => rw [hr] at hu; simp only [Option.getD_none] at hu; rw [← hu]; exact hs
        | some r =>
          rw [hr] at hu; simp only [Option.getD_some] at hu
          obtain ⟨e, he, h1, h2, h3⟩ := runVal_some hr
          unfold isSpace at hs
          rw [if_neg hult] at hs
          obtain ⟨sr, hsr, h4, h5⟩ := inRanges_true hs
          have := List.all_eq_true.mp (List.all_eq_true.mp upper1Tab_nospace e he) sr hsr
          simp only [Bool.or_eq_true, decide_eq_true_eq] at this
          omega

end Uni

theorem mem_upper_iff (s : Str) (u : Nat) : u ∈ upper s ↔ ∃ d ∈ s, u ∈ Uni.upperC d := by
  unfold upper; exact List.mem_flatMap

theorem upper_cons (a : Nat) (t : Str) : upper (a :: t) = Uni.upperC a ++ upper t := by
  unfold upper; exact List.flatMap_cons

theorem upper_eq_nil_iff (s : Str) : upper s = [] ↔ s = [] := by
  cases s with
  | nil => simp
  | cons a t =>
    rw [upper_cons]
    simp [Uni.upperC_ne_nil a]

/-- a string whose ends are not white space keeps that property under `upper()` -/
theorem strip_upper_of_stripped (s : Str) (h : strip s = s) : strip (upper s) = upper s := by
  apply strip_eq_self'
  · intro c hc
    cases s with
    | nil => simp at hc
    | cons a t =>
      rw [upper_cons] at hc
      have hmem : c ∈ Uni.upperC a := by
        cases hx : Uni.upperC a with
        | nil => exact absurd hx (Uni.upperC_ne_nil a)
        | cons x xs =>
          rw [hx] at hc
          simp only [List.cons_append, List.head?_cons, Option.some.injEq] at hc
          rw [← hc]; exact List.mem_cons_self
      have ha : Uni.isSpace a = false := strip_head_not_space (a :: t) a (by rw [h]; rfl)
      cases hsp : Uni.isSpace c with
      | false => rfl
      | true => rw [Uni.isSpace_upperC hmem hsp] at ha; cases ha
  · intro c hc
    by_cases hne : s = []
    · subst hne; simp at hc
    · obtain ⟨init, z, rfl⟩ : ∃ init z, s = init ++ [z] :=
        ⟨s.dropLast, s.getLast hne, (List.dropLast_concat_getLast hne).symm⟩
      have hz : upper (init ++ [z]) = upper init ++ Uni.upperC z := by
        rw [upper_append, upper_cons]; simp
      rw [hz, List.getLast?_append] at hc
      have hmem : c ∈ Uni.upperC z := by
        have hl : (Uni.upperC z).getLast? = some ((Uni.upperC z).getLast (Uni.upperC_ne_nil z)) :=
          List.getLast?_eq_some_getLast _
        rw [hl] at hc
        simp only [Option.some_or, Option.some.injEq] at hc
        rw [← hc]; exact List.getLast_mem _
      have hzs : Uni.isSpace z = false := strip_getLast?_not_space (init ++ [z]) z (by rw [h]; simp)
      cases hsp : Uni.isSpace c with
      | false => rfl
      | true => rw [Uni.isSpace_upperC hmem hsp] at hzs; cases hzs

/-- `s.strip().upper()` is a fixed point of `strip()` -/
theorem strip_upper_strip (s : Str) : strip (upper (strip s)) = upper (strip s) :=
  strip_upper_of_stripped _ (strip_strip s)

example : strip (upper [97, 223, 0x149]) = upper [97, 223, 0x149] :=
  strip_upper_of_stripped _ (by decide +kernel)

end Py
