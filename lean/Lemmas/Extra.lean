import Lemmas.Hoare
import Lemmas.StrSpecs
import Lemmas.Util
import Lemmas.Strip
import Lemmas.Unicode
/-!
# Lemmas.Extra — further `@[spec]` triples and small facts used by the contract automation (`Lemmas.Vc`)

* `datetime.date(y, m, d)` / `calendar.monthrange`: specs with an *exceptional* post-condition (`ValueError`), so that the
  translated `try: … except ValueError: raise InvalidComponent` is handled by `mvcgen` itself;
* destructuring a string of known length into its characters (`explode_succ`);
* arithmetic helpers.
-/
open Py Std.Do
set_option mvcgen.warning false

namespace Py

/-! ## dates -/

/-- `datetime.date(y, m, d)` on C-int sized arguments: a valid date or `ValueError` (never `OverflowError`) -/
@[spec] theorem mkDate_spec (y m d : Int)
    (h : (-2147483648 < y ∧ y < 2147483648) ∧ (-2147483648 < m ∧ m < 2147483648) ∧
      (-2147483648 < d ∧ d < 2147483648)) :
    ⦃⌜True⌝⦄ mkDate y m d
    ⦃post⟨fun r => ⌜r = ⟨y, m, d⟩ ∧ r.Valid⌝,
      fun e => ⌜e = .valueError ∧ ¬ (1 ≤ y ∧ y ≤ 9999 ∧ 1 ≤ m ∧ m ≤ 12 ∧ 1 ≤ d ∧ d ≤ daysInMonth y m)⌝⟩⦄ := by
  apply triple_of_holds
  unfold mkDate
  have h1 : ¬ ((decide (y.natAbs ≥ 2147483648) || decide (m.natAbs ≥ 2147483648) || decide (d.natAbs ≥ 2147483648)) = true) := by
    simp only [Bool.or_eq_true, decide_eq_true_eq]
    omega
  rw [if_neg h1]
  split
  · rename_i hv
    exact ⟨rfl, hv⟩
  · rename_i hv
    exact ⟨rfl, hv⟩

example : (-2147483648 < (2024 : Int) ∧ (2024 : Int) < 2147483648) ∧ (-2147483648 < (2 : Int) ∧ (2 : Int) < 2147483648) ∧
      (-2147483648 < (30 : Int) ∧ (30 : Int) < 2147483648) := by omega
example : mkDate 2024 2 30 = .error .valueError := by rfl
example : mkDate 2024 2 29 = .ok ⟨2024, 2, 29⟩ := by rfl

theorem daysInMonth_bounds (y m : Int) : 28 ≤ daysInMonth y m ∧ daysInMonth y m ≤ 31 := by
  unfold daysInMonth
  split
  · split <;> omega
  · split <;> omega

/-- `calendar.monthrange(y, m)[1]` for a month already checked to be 1..12 -/
@[spec] theorem monthrangeDays_spec (y m : Int) (h : 1 ≤ m ∧ m ≤ 12) :
    ⦃⌜True⌝⦄ monthrangeDays y m ⦃post⟨fun r => ⌜r = daysInMonth y m ∧ 28 ≤ r ∧ r ≤ 31⌝, fun _ => ⌜False⌝⟩⦄ := by
  apply triple_of_Ok
  unfold monthrangeDays
  rw [if_pos h]
  exact ⟨_, rfl, rfl, daysInMonth_bounds y m⟩

/-! ## strings of known length -/

theorem explode_succ {α : Type} {n : Nat} {s : List α} (h : s.length = n + 1) :
    ∃ c t, s = c :: t ∧ t.length = n := by
  cases s with
  | nil => simp at h
  | cons c t => exact ⟨c, t, rfl, by simpa using h⟩

/-! ## arithmetic -/

theorem fmod_bounds (a : Int) {n : Int} (h : 0 < n) : 0 ≤ Int.fmod a n ∧ Int.fmod a n < n := by
  rw [Int.fmod_eq_emod_of_nonneg a (Int.le_of_lt h)]
  exact ⟨Int.emod_nonneg a (by omega), Int.emod_lt_of_pos a h⟩

theorem strIn_of_mem_chars {a s alphabet : Str} (ha : a ∈ chars s) (h : ∀ c ∈ s, alphabet.contains c = true) :
    strIn a alphabet = true := by
  obtain ⟨c, hc, rfl⟩ := mem_chars.mp ha
  rw [strIn_single]; exact h c hc

theorem stateT_pure_apply {σ α : Type} (a : α) (s : σ) :
    (pure a : StateT σ R α) s = (pure (a, s) : R (α × σ)) := rfl

end Py

namespace Py
/-- `return` inside `try` (new `do` elaborator): the early-return tunnel seen at the level of `R` -/
theorem earlyReturn_eq {ρ α : Type} (r : ρ) :
    (EarlyReturnT.return r : EarlyReturnT ρ R α) = (pure (Except.error r) : R (Except ρ α)) := rfl
end Py

namespace Py

/-! ## character classes: inclusion by enumeration of the source class -/

theorem of_isAsciiDigit {Q : Nat → Bool} (hQ : (List.range' 48 10).all Q = true) {c : Nat}
    (hc : isAsciiDigit c = true) : Q c = true := by
  have h := isAsciiDigit_iff.mp hc
  exact List.all_eq_true.mp hQ c (List.mem_range'_1.mpr ⟨h.1, by omega⟩)

theorem of_isAsciiUpper {Q : Nat → Bool} (hQ : (List.range' 65 26).all Q = true) {c : Nat}
    (hc : isAsciiUpper c = true) : Q c = true := by
  simp only [isAsciiUpper, Bool.and_eq_true, decide_eq_true_eq] at hc
  exact List.all_eq_true.mp hQ c (List.mem_range'_1.mpr ⟨hc.1, by omega⟩)

theorem of_isAsciiLower {Q : Nat → Bool} (hQ : (List.range' 97 26).all Q = true) {c : Nat}
    (hc : isAsciiLower c = true) : Q c = true := by
  simp only [isAsciiLower, Bool.and_eq_true, decide_eq_true_eq] at hc
  exact List.all_eq_true.mp hQ c (List.mem_range'_1.mpr ⟨hc.1, by omega⟩)

theorem of_contains {A : Str} {Q : Nat → Bool} (hQ : A.all Q = true) {c : Nat}
    (hc : A.contains c = true) : Q c = true :=
  List.all_eq_true.mp hQ c (by simpa using hc)

/-- a character between two bounds (regex class `[a-b]`) -/
theorem of_range {Q : Nat → Bool} {lo hi : Nat} (hQ : (List.range' lo (hi + 1 - lo)).all Q = true) {c : Nat}
    (hc : lo ≤ c ∧ c ≤ hi) : Q c = true :=
  List.all_eq_true.mp hQ c (List.mem_range'_1.mpr ⟨hc.1, by omega⟩)

example : ([48, 49, 50, 51, 52, 53, 54, 55, 56, 57, 65] : Str).contains 51 = true :=
  of_isAsciiDigit (Q := fun c => ([48, 49, 50, 51, 52, 53, 54, 55, 56, 57, 65] : Str).contains c) (by decide) (by decide)

/-! ## the `all(x in alphabet for x in number)` gates -/

theorem all_map_strIn_chars (A s : Str) :
    ((chars s).map (fun x => strIn x A)).all id = s.all (fun c => A.contains c) := by
  induction s with
  | nil => rfl
  | cons c t ih => simp only [chars_cons, List.map_cons, List.all_cons, id, strIn_single, ih]

theorem any_map_not_strIn_chars (A s : Str) :
    ((chars s).map (fun x => !strIn x A)).any id = !(s.all (fun c => A.contains c)) := by
  induction s with
  | nil => rfl
  | cons c t ih => simp only [chars_cons, List.map_cons, List.any_cons, List.all_cons, id, strIn_single, ih, Bool.not_and]

theorem all_strIn_chars (A s : Str) :
    (chars s).all (fun x => strIn x A) = s.all (fun c => A.contains c) := by
  induction s with
  | nil => rfl
  | cons c t ih => simp only [chars_cons, List.all_cons, strIn_single, ih]

theorem any_not_strIn_chars (A s : Str) :
    (chars s).any (fun x => !strIn x A) = !(s.all (fun c => A.contains c)) := by
  induction s with
  | nil => rfl
  | cons c t ih => simp only [chars_cons, List.any_cons, List.all_cons, strIn_single, ih, Bool.not_and]

/-- length gates `len(number) in (a, b)` -/
theorem contains_int_two (a b x : Int) : (([a, b] : List Int).contains x = true) = (x = a ∨ x = b) := by
  simp
theorem contains_int_three (a b c x : Int) :
    (([a, b, c] : List Int).contains x = true) = (x = a ∨ x = b ∨ x = c) := by
  simp
theorem contains_int_four (a b c d x : Int) :
    (([a, b, c, d] : List Int).contains x = true) = (x = a ∨ x = b ∨ x = c ∨ x = d) := by
  simp
theorem contains_int_two_false (a b x : Int) : (([a, b] : List Int).contains x = false) = (x ≠ a ∧ x ≠ b) := by
  simp
theorem contains_int_three_false (a b c x : Int) :
    (([a, b, c] : List Int).contains x = false) = (x ≠ a ∧ x ≠ b ∧ x ≠ c) := by
  simp
theorem contains_int_four_false (a b c d x : Int) :
    (([a, b, c, d] : List Int).contains x = false) = (x ≠ a ∧ x ≠ b ∧ x ≠ c ∧ x ≠ d) := by
  simp

end Py

namespace Py

/-! ## re-compaction of an accepted string is the identity (by character class) -/

theorem cleanP_of_class {P : Nat → Bool} {s d : Str} (hs : AllIn P s)
    (hP : ∀ c, P c = true → c < 128 ∧ c ≠ 96 ∧ d.contains c = false) : cleanP s d = s :=
  cleanP_eq_self (fun c hc => by
    obtain ⟨h1, h2, h3⟩ := hP c (hs c hc)
    exact ⟨cm_of_ascii_ne h1 h2, h3⟩)

theorem strip_of_class {P : Nat → Bool} {s : Str} (hs : AllIn P s)
    (hP : ∀ c, P c = true → c < 128 ∧ ¬ ((9 ≤ c ∧ c ≤ 13) ∨ (28 ≤ c ∧ c ≤ 32))) : strip s = s :=
  strip_eq_self_of_allIn P (fun c hc => by
    obtain ⟨h1, h2⟩ := hP c hc
    cases h : Uni.isSpace c
    · rfl
    · exact absurd ((Uni.isSpace_ascii_iff h1).mp h) h2) s hs

theorem upper_of_class {P : Nat → Bool} {s : Str} (hs : AllIn P s)
    (hP : ∀ c, P c = true → c < 128 ∧ isAsciiLower c = false) : upper s = s :=
  upper_eq_self_of_no_lower (fun c hc => by simpa [isAscii] using (hP c (hs c hc)).1)
    (fun c hc => (hP c (hs c hc)).2)

theorem allIn_of_all {P : Nat → Bool} {s : Str} (h : s.all P = true) : AllIn P s := AllIn.all_eq_true.mp h

/-- alphabet gates: `all(c in A for c in s)` -/
theorem cleanP_of_alphabet {A s d : Str} (hs : s.all (fun c => A.contains c) = true)
    (hA : A.all (fun c => decide (c < 128) && (c != 96) && !d.contains c) = true) : cleanP s d = s :=
  cleanP_of_class (allIn_of_all hs) (fun c hc => by
    have := of_contains hA hc
    simp only [Bool.and_eq_true, decide_eq_true_eq, bne_iff_ne, ne_eq, Bool.not_eq_true'] at this
    exact ⟨this.1.1, this.1.2, this.2⟩)

theorem strip_of_alphabet {A s : Str} (hs : s.all (fun c => A.contains c) = true)
    (hA : A.all (fun c => decide (c < 128) && !((decide (9 ≤ c) && decide (c ≤ 13)) || (decide (28 ≤ c) && decide (c ≤ 32)))) = true) :
    strip s = s :=
  strip_of_class (allIn_of_all hs) (fun c hc => by
    have := of_contains hA hc
    simp only [Bool.and_eq_true, decide_eq_true_eq, Bool.not_eq_true', Bool.or_eq_false_iff,
      Bool.and_eq_false_iff, decide_eq_false_iff_not] at this
    refine ⟨this.1, ?_⟩
    omega)

theorem upper_of_alphabet {A s : Str} (hs : s.all (fun c => A.contains c) = true)
    (hA : A.all (fun c => decide (c < 128) && !isAsciiLower c) = true) : upper s = s :=
  upper_of_class (allIn_of_all hs) (fun c hc => by
    have := of_contains hA hc
    simp only [Bool.and_eq_true, decide_eq_true_eq, Bool.not_eq_true'] at this
    exact this)

end Py

namespace Py

/-! ## indexing with the exact position (overrides the weaker specs of `Lemmas.Hoare`) -/

/-- the list position Python's `x[i]` refers to -/
def pyIdx (n : Nat) (i : Int) : Nat := (if i < 0 then (n : Int) + i else i).toNat

theorem getItemL_ok2 {α : Type} (s : List α) (i : Int) (h : -(s.length : Int) ≤ i ∧ i < s.length) :
    Ok (getItemL s i) (fun r => r ∈ s ∧ s[pyIdx s.length i]? = some r) := by
  unfold getItemL pyIdx
  simp only []
  have hj : 0 ≤ (if i < 0 then (s.length : Int) + i else i) ∧ (if i < 0 then (s.length : Int) + i else i) < s.length := by
    split <;> omega
  rw [if_pos hj]
  have hlt : (if i < 0 then (s.length : Int) + i else i).toNat < s.length := by omega
  rw [List.getElem?_eq_getElem hlt]
  exact ⟨_, rfl, List.getElem_mem _, rfl⟩

@[spec high] theorem getItemL_spec2 {α : Type} (s : List α) (i : Int) (h : -(s.length : Int) ≤ i ∧ i < s.length) :
    ⦃⌜True⌝⦄ getItemL s i ⦃post⟨fun r => ⌜r ∈ s ∧ s[pyIdx s.length i]? = some r⌝, fun _ => ⌜False⌝⟩⦄ :=
  triple_of_Ok (getItemL_ok2 s i h)

@[spec high] theorem getItem_spec2 (s : Str) (i : Int) (h : -(s.length : Int) ≤ i ∧ i < s.length) :
    ⦃⌜True⌝⦄ getItem s i
    ⦃post⟨fun r => ⌜∃ c, c ∈ s ∧ r = [c] ∧ s[pyIdx s.length i]? = some c⌝, fun _ => ⌜False⌝⟩⦄ := by
  apply triple_of_Ok
  obtain ⟨c, hc, hm, hi⟩ := getItemL_ok2 s i h
  exact ⟨[c], by simp [getItem, hc], c, hm, rfl, hi⟩

end Py
