import Lemmas.Hoare
import Lemmas.StrSpecs
import Lemmas.Util
import Lemmas.Strip
import Lemmas.Unicode
import Lemmas.RegexGroups
import Spec.NumDB
/-!
# Lemmas.Extra — further `@[spec]` triples and small facts used by the contract automation (`Lemmas.Vc`)

* `datetime.date(y, m, d)` / `calendar.monthrange`: specs with an *exceptional* post-condition (`ValueError`), so that the
  translated `try: … except ValueError: raise InvalidComponent` is handled by `mvcgen` itself;
* destructuring a string of known length into its characters (`explode_succ`);
* arithmetic helpers.
-/
open Py Std.Do
set_option mvcgen.warning false

namespace Py

/-! ## dates -/

/-- `datetime.date(y, m, d)` on C-int sized arguments: a valid date or `ValueError` (never `OverflowError`) -/
@[spec] theorem mkDate_spec (y m d : Int)
    (h : (-2147483648 < y ∧ y < 2147483648) ∧ (-2147483648 < m ∧ m < 2147483648) ∧
      (-2147483648 < d ∧ d < 2147483648)) :
    ⦃⌜True⌝⦄ mkDate y m d
    ⦃post⟨fun r => ⌜r = ⟨y, m, d⟩ ∧ r.Valid⌝,
      fun e => ⌜e = .valueError ∧ ¬ (1 ≤ y ∧ y ≤ 9999 ∧ 1 ≤ m ∧ m ≤ 12 ∧ 1 ≤ d ∧ d ≤ daysInMonth y m)⌝⟩⦄ := by
  apply triple_of_holds
  unfold mkDate
  have h1 : ¬ ((decide (y.natAbs ≥ 2147483648) || decide (m.natAbs ≥ 2147483648) || decide (d.natAbs ≥ 2147483648)) = true) := by
    simp only [Bool.or_eq_true, decide_eq_true_eq]
    omega
  rw [if_neg h1]
  split
  · rename_i hv
    exact ⟨rfl, hv⟩
  · rename_i hv
    exact ⟨rfl, hv⟩

example : (-2147483648 < (2024 : Int) ∧ (2024 : Int) < 2147483648) ∧ (-2147483648 < (2 : Int) ∧ (2 : Int) < 2147483648) ∧
      (-2147483648 < (30 : Int) ∧ (30 : Int) < 2147483648) := by omega
example : mkDate 2024 2 30 = .error .valueError := by rfl
example : mkDate 2024 2 29 = .ok ⟨2024, 2, 29⟩ := by rfl

theorem daysInMonth_bounds (y m : Int) : 28 ≤ daysInMonth y m ∧ daysInMonth y m ≤ 31 := by
  unfold daysInMonth
  split
  · split <;> omega
  · split <;> omega

/-- `calendar.monthrange(y, m)[1]` for a month already checked to be 1..12 -/
@[spec] theorem monthrangeDays_spec (y m : Int) (h : 1 ≤ m ∧ m ≤ 12) :
    ⦃⌜True⌝⦄ monthrangeDays y m ⦃post⟨fun r => ⌜r = daysInMonth y m ∧ 28 ≤ r ∧ r ≤ 31⌝, fun _ => ⌜False⌝⟩⦄ := by
  apply triple_of_Ok
  unfold monthrangeDays
  rw [if_pos h]
  exact ⟨_, rfl, rfl, daysInMonth_bounds y m⟩

/-! ## strings of known length -/

theorem explode_succ {α : Type} {n : Nat} {s : List α} (h : s.length = n + 1) :
    ∃ c t, s = c :: t ∧ t.length = n := by
  cases s with
  | nil => simp at h
  | cons c t => exact ⟨c, t, rfl, by simpa using h⟩

/-! ## arithmetic -/

theorem fmod_bounds (a : Int) {n : Int} (h : 0 < n) : 0 ≤ Int.fmod a n ∧ Int.fmod a n < n := by
  rw [Int.fmod_eq_emod_of_nonneg a (Int.le_of_lt h)]
  exact ⟨Int.emod_nonneg a (by omega), Int.emod_lt_of_pos a h⟩

theorem strIn_of_mem_chars {a s alphabet : Str} (ha : a ∈ chars s) (h : ∀ c ∈ s, alphabet.contains c = true) :
    strIn a alphabet = true := by
  obtain ⟨c, hc, rfl⟩ := mem_chars.mp ha
  rw [strIn_single]; exact h c hc

theorem stateT_pure_apply {σ α : Type} (a : α) (s : σ) :
    (pure a : StateT σ R α) s = (pure (a, s) : R (α × σ)) := rfl

end Py

namespace Py
/-- `return` inside `try` (new `do` elaborator): the early-return tunnel seen at the level of `R` -/
theorem earlyReturn_eq {ρ α : Type} (r : ρ) :
    (EarlyReturnT.return r : EarlyReturnT ρ R α) = (pure (Except.error r) : R (Except ρ α)) := rfl
end Py

namespace Py

/-! ## character classes: inclusion by enumeration of the source class -/

theorem of_isAsciiDigit {Q : Nat → Bool} (hQ : (List.range' 48 10).all Q = true) {c : Nat}
    (hc : isAsciiDigit c = true) : Q c = true := by
  have h := isAsciiDigit_iff.mp hc
  exact List.all_eq_true.mp hQ c (List.mem_range'_1.mpr ⟨h.1, by omega⟩)

theorem of_isAsciiUpper {Q : Nat → Bool} (hQ : (List.range' 65 26).all Q = true) {c : Nat}
    (hc : isAsciiUpper c = true) : Q c = true := by
  simp only [isAsciiUpper, Bool.and_eq_true, decide_eq_true_eq] at hc
  exact List.all_eq_true.mp hQ c (List.mem_range'_1.mpr ⟨hc.1, by omega⟩)

theorem of_isAsciiLower {Q : Nat → Bool} (hQ : (List.range' 97 26).all Q = true) {c : Nat}
    (hc : isAsciiLower c = true) : Q c = true := by
  simp only [isAsciiLower, Bool.and_eq_true, decide_eq_true_eq] at hc
  exact List.all_eq_true.mp hQ c (List.mem_range'_1.mpr ⟨hc.1, by omega⟩)

theorem of_contains {A : Str} {Q : Nat → Bool} (hQ : A.all Q = true) {c : Nat}
    (hc : A.contains c = true) : Q c = true :=
  List.all_eq_true.mp hQ c (by simpa using hc)

/-- a character between two bounds (regex class `[a-b]`) -/
theorem of_range {Q : Nat → Bool} {lo hi : Nat} (hQ : (List.range' lo (hi + 1 - lo)).all Q = true) {c : Nat}
    (hc : lo ≤ c ∧ c ≤ hi) : Q c = true :=
  List.all_eq_true.mp hQ c (List.mem_range'_1.mpr ⟨hc.1, by omega⟩)

example : ([48, 49, 50, 51, 52, 53, 54, 55, 56, 57, 65] : Str).contains 51 = true :=
  of_isAsciiDigit (Q := fun c => ([48, 49, 50, 51, 52, 53, 54, 55, 56, 57, 65] : Str).contains c) (by decide) (by decide)

/-! ## the `all(x in alphabet for x in number)` gates -/

theorem all_map_strIn_chars (A s : Str) :
    ((chars s).map (fun x => strIn x A)).all id = s.all (fun c => A.contains c) := by
  induction s with
  | nil => rfl
  | cons c t ih => simp only [chars_cons, List.map_cons, List.all_cons, id, strIn_single, ih]

theorem any_map_not_strIn_chars (A s : Str) :
    ((chars s).map (fun x => !strIn x A)).any id = !(s.all (fun c => A.contains c)) := by
  induction s with
  | nil => rfl
  | cons c t ih => simp only [chars_cons, List.map_cons, List.any_cons, List.all_cons, id, strIn_single, ih, Bool.not_and]

theorem all_strIn_chars (A s : Str) :
    (chars s).all (fun x => strIn x A) = s.all (fun c => A.contains c) := by
  induction s with
  | nil => rfl
  | cons c t ih => simp only [chars_cons, List.all_cons, strIn_single, ih]

theorem any_not_strIn_chars (A s : Str) :
    (chars s).any (fun x => !strIn x A) = !(s.all (fun c => A.contains c)) := by
  induction s with
  | nil => rfl
  | cons c t ih => simp only [chars_cons, List.any_cons, List.all_cons, strIn_single, ih, Bool.not_and]

/-- length gates `len(number) in (a, b)` -/
theorem contains_int_two (a b x : Int) : (([a, b] : List Int).contains x = true) = (x = a ∨ x = b) := by
  simp
theorem contains_int_three (a b c x : Int) :
    (([a, b, c] : List Int).contains x = true) = (x = a ∨ x = b ∨ x = c) := by
  simp
theorem contains_int_four (a b c d x : Int) :
    (([a, b, c, d] : List Int).contains x = true) = (x = a ∨ x = b ∨ x = c ∨ x = d) := by
  simp
theorem contains_int_two_false (a b x : Int) : (([a, b] : List Int).contains x = false) = (x ≠ a ∧ x ≠ b) := by
  simp
theorem contains_int_three_false (a b c x : Int) :
    (([a, b, c] : List Int).contains x = false) = (x ≠ a ∧ x ≠ b ∧ x ≠ c) := by
  simp
theorem contains_int_four_false (a b c d x : Int) :
    (([a, b, c, d] : List Int).contains x = false) = (x ≠ a ∧ x ≠ b ∧ x ≠ c ∧ x ≠ d) := by
  simp

end Py

namespace Py

/-! ## re-compaction of an accepted string is the identity (by character class) -/

theorem cleanP_of_class {P : Nat → Bool} {s d : Str} (hs : AllIn P s)
    (hP : ∀ c, P c = true → c < 128 ∧ c ≠ 96 ∧ d.contains c = false) : cleanP s d = s :=
  cleanP_eq_self (fun c hc => by
    obtain ⟨h1, h2, h3⟩ := hP c (hs c hc)
    exact ⟨cm_of_ascii_ne h1 h2, h3⟩)

theorem strip_of_class {P : Nat → Bool} {s : Str} (hs : AllIn P s)
    (hP : ∀ c, P c = true → c < 128 ∧ ¬ ((9 ≤ c ∧ c ≤ 13) ∨ (28 ≤ c ∧ c ≤ 32))) : strip s = s :=
  strip_eq_self_of_allIn P (fun c hc => by
    obtain ⟨h1, h2⟩ := hP c hc
    cases h : Uni.isSpace c
    · rfl
    · exact absurd ((Uni.isSpace_ascii_iff h1).mp h) h2) s hs

theorem upper_of_class {P : Nat → Bool} {s : Str} (hs : AllIn P s)
    (hP : ∀ c, P c = true → c < 128 ∧ isAsciiLower c = false) : upper s = s :=
  upper_eq_self_of_no_lower (fun c hc => by simpa [isAscii] using (hP c (hs c hc)).1)
    (fun c hc => (hP c (hs c hc)).2)

theorem allIn_of_all {P : Nat → Bool} {s : Str} (h : s.all P = true) : AllIn P s := AllIn.all_eq_true.mp h

/-- alphabet gates: `all(c in A for c in s)` -/
theorem cleanP_of_alphabet {A s d : Str} (hs : s.all (fun c => A.contains c) = true)
    (hA : A.all (fun c => decide (c < 128) && (c != 96) && !d.contains c) = true) : cleanP s d = s :=
  cleanP_of_class (allIn_of_all hs) (fun c hc => by
    have := of_contains hA hc
    simp only [Bool.and_eq_true, decide_eq_true_eq, bne_iff_ne, ne_eq, Bool.not_eq_true'] at this
    exact ⟨this.1.1, this.1.2, this.2⟩)

theorem strip_of_alphabet {A s : Str} (hs : s.all (fun c => A.contains c) = true)
    (hA : A.all (fun c => decide (c < 128) && !((decide (9 ≤ c) && decide (c ≤ 13)) || (decide (28 ≤ c) && decide (c ≤ 32)))) = true) :
    strip s = s :=
  strip_of_class (allIn_of_all hs) (fun c hc => by
    have := of_contains hA hc
    simp only [Bool.and_eq_true, decide_eq_true_eq, Bool.not_eq_true', Bool.or_eq_false_iff,
      Bool.and_eq_false_iff, decide_eq_false_iff_not] at this
    refine ⟨this.1, ?_⟩
    omega)

theorem upper_of_alphabet {A s : Str} (hs : s.all (fun c => A.contains c) = true)
    (hA : A.all (fun c => decide (c < 128) && !isAsciiLower c) = true) : upper s = s :=
  upper_of_class (allIn_of_all hs) (fun c hc => by
    have := of_contains hA hc
    simp only [Bool.and_eq_true, decide_eq_true_eq, Bool.not_eq_true'] at this
    exact this)

end Py

namespace Py

/-! ## indexing with the exact position (overrides the weaker specs of `Lemmas.Hoare`) -/

/-- the list position Python's `x[i]` refers to -/
def pyIdx (n : Nat) (i : Int) : Nat := (if i < 0 then (n : Int) + i else i).toNat

theorem getItemL_ok2 {α : Type} (s : List α) (i : Int) (h : -(s.length : Int) ≤ i ∧ i < s.length) :
    Ok (getItemL s i) (fun r => r ∈ s ∧ s[pyIdx s.length i]? = some r) := by
  unfold getItemL pyIdx
  simp only []
  have hj : 0 ≤ (if i < 0 then (s.length : Int) + i else i) ∧ (if i < 0 then (s.length : Int) + i else i) < s.length := by
    split <;> omega
  rw [if_pos hj]
  have hlt : (if i < 0 then (s.length : Int) + i else i).toNat < s.length := by omega
  rw [List.getElem?_eq_getElem hlt]
  exact ⟨_, rfl, List.getElem_mem _, rfl⟩

@[spec high] theorem getItemL_spec2 {α : Type} (s : List α) (i : Int) (h : -(s.length : Int) ≤ i ∧ i < s.length) :
    ⦃⌜True⌝⦄ getItemL s i ⦃post⟨fun r => ⌜r ∈ s ∧ s[pyIdx s.length i]? = some r⌝, fun _ => ⌜False⌝⟩⦄ :=
  triple_of_Ok (getItemL_ok2 s i h)

@[spec high] theorem getItem_spec2 (s : Str) (i : Int) (h : -(s.length : Int) ≤ i ∧ i < s.length) :
    ⦃⌜True⌝⦄ getItem s i
    ⦃post⟨fun r => ⌜∃ c, c ∈ s ∧ r = [c] ∧ s[pyIdx s.length i]? = some c⌝, fun _ => ⌜False⌝⟩⦄ := by
  apply triple_of_Ok
  obtain ⟨c, hc, hm, hi⟩ := getItemL_ok2 s i h
  exact ⟨[c], by simp [getItem, hc], c, hm, rfl, hi⟩

end Py

namespace Py

/-! ## registry lookups -/

/-- `numdb.info(n)` / `numdb.split(n)` of a non-empty number has at least one part -/
theorem numdb_info_length_pos (db : List Spec.NumDB.Entry) {n : Str} (h : n ≠ []) :
    0 < (Spec.NumDB.info db n).length := by
  unfold Spec.NumDB.info Spec.NumDB.find
  rw [Spec.NumDB.findAux]
  simp [h]

theorem numdb_split_length_pos (db : List Spec.NumDB.Entry) {n : Str} (h : n ≠ []) :
    0 < (Spec.NumDB.split db n).length := by
  unfold Spec.NumDB.split
  rw [List.length_map]
  exact numdb_info_length_pos db h

end Py

namespace Py

/-! ## partial-correctness specs (no preconditions, any exception): used by the families whose exceptional
post-condition is `True` (C15a, C02f …); they are NOT `@[spec]`, the generated scripts pass them to `mvcgen`
explicitly and erase the safety specs (`mvcgen [-Py.intOf_spec, Py.intOf_pc, …]`) -/

theorem pc_triple {α : Type} {x : R α} {Q : α → Prop} (h : ∀ v, x = .ok v → Q v) :
    ⦃⌜True⌝⦄ x ⦃post⟨fun v => ⌜Q v⌝, fun _ => ⌜True⌝⟩⦄ :=
  triple_of_holds x _ _ (by
    unfold Holds
    cases hx : x with
    | ok v => exact h v hx
    | error e => trivial)

theorem intOf_pc (s : Str) : ⦃⌜True⌝⦄ intOf s ⦃post⟨fun _ => ⌜s ≠ []⌝, fun _ => ⌜True⌝⟩⦄ :=
  pc_triple (fun v h => intOf_ok_ne_nil s v h)

theorem intOfBase_pc (s : Str) (b : Nat) : ⦃⌜True⌝⦄ intOfBase s b ⦃post⟨fun _ => ⌜s ≠ []⌝, fun _ => ⌜True⌝⟩⦄ :=
  pc_triple (fun v h => intOfBase_ok_ne_nil s b v h)

theorem getItem_pc (s : Str) (i : Int) :
    ⦃⌜True⌝⦄ getItem s i
    ⦃post⟨fun r => ⌜∃ c, c ∈ s ∧ r = [c] ∧ s[pyIdx s.length i]? = some c⌝, fun _ => ⌜True⌝⟩⦄ :=
  pc_triple (fun r h => by
    have hb : -(s.length : Int) ≤ i ∧ i < s.length := by
      obtain ⟨c, hc⟩ : ∃ c, getItemL s i = .ok c := by
        rw [getItem_eq] at h
        cases h' : getItemL s i with
        | error e => rw [h'] at h; cases h
        | ok c => exact ⟨c, rfl⟩
      exact (getItemL_ok_iff s i).mp ⟨c, hc⟩
    obtain ⟨r', hr', hq⟩ := Ok_of_triple (getItem_spec2 s i hb)
    rw [h] at hr'; cases hr'; exact hq)

theorem getItemL_pc {α : Type} (s : List α) (i : Int) :
    ⦃⌜True⌝⦄ getItemL s i ⦃post⟨fun r => ⌜r ∈ s ∧ s[pyIdx s.length i]? = some r⌝, fun _ => ⌜True⌝⟩⦄ :=
  pc_triple (fun r h => by
    have hb : -(s.length : Int) ≤ i ∧ i < s.length := by
      exact (getItemL_ok_iff s i).mp ⟨r, h⟩
    obtain ⟨r', hr', hq⟩ := getItemL_ok2 s i hb
    rw [h] at hr'; cases hr'; exact hq)

theorem index_pc (x sub : Str) :
    ⦃⌜True⌝⦄ index x sub ⦃post⟨fun i => ⌜strIn sub x = true ∧ 0 ≤ i ∧ i + sub.length ≤ x.length⌝, fun _ => ⌜True⌝⟩⦄ :=
  pc_triple (fun i h => by obtain ⟨h1, h2, h3, _⟩ := index_ok h; exact ⟨h1, h2, h3⟩)

theorem indexL_pc {α : Type} [BEq α] (l : List α) (v : α) :
    ⦃⌜True⌝⦄ indexL l v ⦃post⟨fun _ => ⌜True⌝, fun _ => ⌜True⌝⟩⦄ := any_triple' _
  where any_triple' {β : Type} (x : R β) : ⦃⌜True⌝⦄ x ⦃post⟨fun _ => ⌜True⌝, fun _ => ⌜True⌝⟩⦄ :=
    triple_of_holds x _ _ (by unfold Holds; cases x <;> trivial)

theorem any_pc {α : Type} (x : R α) : ⦃⌜True⌝⦄ x ⦃post⟨fun _ => ⌜True⌝, fun _ => ⌜True⌝⟩⦄ :=
  triple_of_holds x _ _ (by unfold Holds; cases x <;> trivial)

theorem dictGet_pc {κ ν : Type} [BEq κ] [LawfulBEq κ] (d : List (κ × ν)) (k : κ) :
    ⦃⌜True⌝⦄ dictGet d k ⦃post⟨fun v => ⌜(k, v) ∈ d⌝, fun _ => ⌜True⌝⟩⦄ :=
  pc_triple (fun _ h => dictGet_ok_mem h)

theorem optGet_pc {α : Type} (o : Option α) :
    ⦃⌜True⌝⦄ optGet o ⦃post⟨fun r => ⌜o = some r⌝, fun _ => ⌜True⌝⟩⦄ :=
  pc_triple (fun r h => by cases o with
    | none => cases h
    | some v => cases h; rfl)

theorem optGetT_pc {α : Type} (o : Option α) :
    ⦃⌜True⌝⦄ optGetT o ⦃post⟨fun r => ⌜o = some r⌝, fun _ => ⌜True⌝⟩⦄ :=
  pc_triple (fun r h => by cases o with
    | none => cases h
    | some v => cases h; rfl)

theorem pymod_pc (a b : Int) : ⦃⌜True⌝⦄ pymod a b ⦃post⟨fun r => ⌜r = Int.fmod a b⌝, fun _ => ⌜True⌝⟩⦄ :=
  pc_triple (fun r h => by unfold pymod at h; split at h <;> cases h; rfl)

theorem pyfloordiv_pc (a b : Int) : ⦃⌜True⌝⦄ pyfloordiv a b ⦃post⟨fun r => ⌜r = Int.fdiv a b⌝, fun _ => ⌜True⌝⟩⦄ :=
  pc_triple (fun r h => by unfold pyfloordiv at h; split at h <;> cases h; rfl)

theorem pydivmod_pc (a b : Int) :
    ⦃⌜True⌝⦄ pydivmod a b ⦃post⟨fun r => ⌜r = (Int.fdiv a b, Int.fmod a b)⌝, fun _ => ⌜True⌝⟩⦄ :=
  pc_triple (fun r h => by unfold pydivmod at h; split at h <;> cases h; rfl)

theorem mkDate_pc (y m d : Int) :
    ⦃⌜True⌝⦄ mkDate y m d ⦃post⟨fun r => ⌜r = ⟨y, m, d⟩ ∧ r.Valid⌝, fun _ => ⌜True⌝⟩⦄ :=
  pc_triple (fun r h => by
    obtain ⟨h1, h2, h3, h4⟩ := mkDate_valid h
    refine ⟨?_, h1⟩
    cases r; simp_all)

theorem monthrangeDays_pc (y m : Int) :
    ⦃⌜True⌝⦄ monthrangeDays y m ⦃post⟨fun r => ⌜28 ≤ r ∧ r ≤ 31⌝, fun _ => ⌜True⌝⟩⦄ :=
  pc_triple (fun r h => by
    unfold monthrangeDays at h
    split at h
    · cases h; exact daysInMonth_bounds y m
    · cases h)

theorem ord_pc (s : Str) : ⦃⌜True⌝⦄ ord s ⦃post⟨fun r => ⌜s = [r.toNat] ∧ 0 ≤ r⌝, fun _ => ⌜True⌝⟩⦄ :=
  pc_triple (fun r h => by
    match s, h with
    | [c], h => cases h; exact ⟨by simp, by omega⟩)

theorem chr_pc (n : Int) : ⦃⌜True⌝⦄ chr n ⦃post⟨fun r => ⌜r = [n.toNat]⌝, fun _ => ⌜True⌝⟩⦄ :=
  pc_triple (fun r h => by unfold chr at h; split at h <;> cases h; rfl)

theorem asciiOnly_pc (s : Str) :
    ⦃⌜True⌝⦄ asciiOnly s ⦃post⟨fun r => ⌜r = s ∧ AllIn isAscii s⌝, fun _ => ⌜True⌝⟩⦄ := by
  have := asciiOnly_spec s
  refine pc_triple (fun r h => ?_)
  have h2 := holds_of_triple _ _ _ this
  rw [h] at h2
  exact h2

/-- `mapM`: the body is verified under the same (trivial) exception post-condition -/
theorem mapM_pc {α β : Type} (f : α → R β) (l : List α) :
    ⦃⌜True⌝⦄ l.mapM f ⦃post⟨fun rs => ⌜rs.length = l.length⌝, fun _ => ⌜True⌝⟩⦄ :=
  pc_triple (fun rs h => by
    induction l generalizing rs with
    | nil => simp [List.mapM_nil, pure, Except.pure] at h; subst h; rfl
    | cons a t ih =>
      rw [List.mapM_cons] at h
      cases ha : f a with
      | error e => simp [ha, bind, Except.bind] at h
      | ok b =>
        cases ht : t.mapM f with
        | error e => simp [ha, ht, bind, Except.bind] at h
        | ok bs =>
          simp [ha, ht, bind, Except.bind, pure, Except.pure] at h
          subst h
          simp [ih bs ht])

theorem filterMapM_pc {α β : Type} (f : α → R (Option β)) (l : List α) :
    ⦃⌜True⌝⦄ l.filterMapM f ⦃post⟨fun _ => ⌜True⌝, fun _ => ⌜True⌝⟩⦄ := any_pc _

end Py

namespace Py

theorem maxInt_pc (l : List Int) : ⦃⌜True⌝⦄ maxInt l ⦃post⟨fun m => ⌜m ∈ l⌝, fun _ => ⌜True⌝⟩⦄ :=
  pc_triple (fun m h => by
    cases l with
    | nil => cases h
    | cons a t =>
      obtain ⟨m', hm', h1, _⟩ := maxInt_ok (l := a :: t) (by simp)
      rw [h] at hm'; cases hm'; exact h1)

theorem minInt_pc (l : List Int) : ⦃⌜True⌝⦄ minInt l ⦃post⟨fun m => ⌜m ∈ l⌝, fun _ => ⌜True⌝⟩⦄ :=
  pc_triple (fun m h => by
    cases l with
    | nil => cases h
    | cons a t =>
      obtain ⟨m', hm', h1, _⟩ := minInt_ok (l := a :: t) (by simp)
      rw [h] at hm'; cases hm'; exact h1)

theorem pypow_pc (a b : Int) : ⦃⌜True⌝⦄ pypow a b ⦃post⟨fun _ => ⌜True⌝, fun _ => ⌜True⌝⟩⦄ := any_pc _
theorem pypowmod_pc (a b m : Int) : ⦃⌜True⌝⦄ pypowmod a b m ⦃post⟨fun _ => ⌜True⌝, fun _ => ⌜True⌝⟩⦄ := any_pc _
theorem pyshl_pc (a b : Int) : ⦃⌜True⌝⦄ pyshl a b ⦃post⟨fun _ => ⌜True⌝, fun _ => ⌜True⌝⟩⦄ := any_pc _
theorem pyshr_pc (a b : Int) : ⦃⌜True⌝⦄ pyshr a b ⦃post⟨fun _ => ⌜True⌝, fun _ => ⌜True⌝⟩⦄ := any_pc _

theorem splitOnR_pc (x sep : Str) (m : Option Nat) :
    ⦃⌜True⌝⦄ splitOnR x sep m
    ⦃post⟨fun r => ⌜r = splitOn x sep m ∧ 0 < r.length ∧ ∀ p ∈ r, ∀ c ∈ p, c ∈ x⌝, fun _ => ⌜True⌝⟩⦄ :=
  pc_triple (fun r h => by
    unfold splitOnR at h
    split at h
    · cases h
    · cases h
      exact ⟨rfl, splitOn_length_pos x sep m, fun p hp => mem_splitOn hp⟩)

theorem rsplitOnR_pc (x sep : Str) (m : Option Nat) :
    ⦃⌜True⌝⦄ rsplitOnR x sep m
    ⦃post⟨fun r => ⌜r = rsplitOn x sep m ∧ 0 < r.length ∧ ∀ p ∈ r, ∀ c ∈ p, c ∈ x⌝, fun _ => ⌜True⌝⟩⦄ :=
  pc_triple (fun r h => by
    unfold rsplitOnR at h
    split at h
    · cases h
    · cases h
      exact ⟨rfl, rsplitOn_length_pos x sep m, fun p hp => mem_rsplitOn hp⟩)

theorem groupNamedR_pc (m : Re.Match) (name : Str) :
    ⦃⌜True⌝⦄ m.groupNamedR name ⦃post⟨fun t => ⌜m.groupNamedR name = .ok t⌝, fun _ => ⌜True⌝⟩⦄ :=
  pc_triple (fun _ h => h)

theorem groupR_pc (m : Re.Match) (i : Nat) :
    ⦃⌜True⌝⦄ m.groupR i ⦃post⟨fun t => ⌜m.groupR i = .ok t⌝, fun _ => ⌜True⌝⟩⦄ :=
  pc_triple (fun _ h => h)

end Py

namespace Py

/-! ## ASCII-ness of accepted strings (C15) -/

theorem allIn_isAscii_of_digits {s : Str} (h : AllIn isAsciiDigit s) : AllIn isAscii s :=
  h.of_imp (fun _ hc => isAscii_of_digit hc)

theorem allIn_isAscii_of_B {s : Str} (h : isDigitsB s = true) : AllIn isAscii s :=
  allIn_isAscii_of_digits ((isDigitsB_iff s).mp h).2

theorem allIn_isAscii_of_isasciiS {s : Str} (h : isasciiS s = true) : AllIn isAscii s := by
  intro c hc
  have := List.all_eq_true.mp h c hc
  simpa [isAscii] using this

theorem allIn_of_alphabet {A s : Str} {P : Nat → Bool} (hs : s.all (fun c => A.contains c) = true)
    (hA : A.all P = true) : AllIn P s :=
  fun c hc => of_contains hA (List.all_eq_true.mp hs c hc)

theorem allIn_isAscii_of_alnum {s : Str} (h : AllIn isAsciiAlnum s) : AllIn isAscii s :=
  h.of_imp (fun _ hc => isAscii_of_alnum hc)

end Py

/-! ## regular-expression gates in alphabet form -/

namespace Py.Re
variable [T : UniTables]

/-- the characters a set item can match, when that is a finite list (no categories) -/
def ClassItem.charList : ClassItem → List Nat
  | .chr c => [c]
  | .range lo hi => rangeNats lo hi
  | .cat _ => []

def ClassItem.listOk : ClassItem → Bool
  | .cat _ => false
  | _ => true

/-- an explicit finite over-approximation of the characters `r` can consume
(valid when `charListOk`: no IGNORECASE, no negated sets, no `.`, no categories, no back-references) -/
def Regex.charList : Flags → Regex → List Nat
  | _, .lit a => [a]
  | _, .cls _ items => (items.map ClassItem.charList).flatten
  | fl, .seq a b => charList fl a ++ charList fl b
  | fl, .alt a b => charList fl a ++ charList fl b
  | fl, .rep _ _ _ r => charList fl r
  | fl, .group _ r => charList fl r
  | _, .withFlags fl' r => charList fl' r
  | _, _ => []

def Regex.charListOk : Flags → Regex → Bool
  | _, .empty => true
  | _, .fail => true
  | fl, .lit _ => !fl.ignorecase
  | fl, .cls neg items => !fl.ignorecase && !neg && items.all ClassItem.listOk
  | fl, .seq a b => charListOk fl a && charListOk fl b
  | fl, .alt a b => charListOk fl a && charListOk fl b
  | fl, .rep _ _ _ r => charListOk fl r
  | fl, .group _ r => charListOk fl r
  | _, .withFlags fl' r => charListOk fl' r
  | _, .anchor _ => true
  | _, .look _ _ => true
  | _, _ => false

omit T in
theorem mem_rangeNats {lo hi c : Nat} : c ∈ rangeNats lo hi ↔ lo ≤ c ∧ c ≤ hi := by
  unfold rangeNats
  rw [List.mem_range'_1]
  omega

theorem itemMatch_charList {fl : Flags} {c : Nat} {it : ClassItem} (hok : it.listOk = true)
    (h : itemMatch fl c it = true) : c ∈ it.charList := by
  cases it with
  | chr a => simp only [itemMatch, beq_iff_eq] at h; simp [ClassItem.charList, h]
  | range lo hi =>
    simp only [itemMatch, Bool.and_eq_true, decide_eq_true_eq] at h
    exact mem_rangeNats.mpr h
  | cat k => simp [ClassItem.listOk] at hok

theorem charPred_charList : ∀ (r : Regex) (fl : Flags) (c : Nat), r.charListOk fl = true →
    r.charPred fl c = true → (r.charList fl).contains c = true
  | .empty, _, _, _, h => by simp [Regex.charPred] at h
  | .fail, _, _, _, h => by simp [Regex.charPred] at h
  | .lit a, fl, c, hok, h => by
    simp only [Regex.charListOk, Bool.not_eq_true'] at hok
    simp only [Regex.charPred, litMatch, hok, Bool.false_and, Bool.false_eq_true, if_false, beq_iff_eq] at h
    simp [Regex.charList, h]
  | .notLit a, _, _, hok, _ => by simp [Regex.charListOk] at hok
  | .any, _, _, hok, _ => by simp [Regex.charListOk] at hok
  | .cls neg items, fl, c, hok, h => by
    simp only [Regex.charListOk, Bool.and_eq_true, Bool.not_eq_true', List.all_eq_true] at hok
    obtain ⟨⟨h1, h2⟩, h3⟩ := hok
    simp only [Regex.charPred, classMatch, h1, h2, Bool.false_and, Bool.false_eq_true, if_false, bne_iff_ne, ne_eq,
      Bool.not_eq_false, List.any_eq_true] at h
    obtain ⟨it, hit, hm⟩ := h
    simp only [Regex.charList, List.contains_eq_mem, List.mem_flatten, List.mem_map, decide_eq_true_eq]
    exact ⟨it.charList, ⟨it, hit, rfl⟩, itemMatch_charList (h3 it hit) hm⟩
  | .seq a b, fl, c, hok, h => by
    simp only [Regex.charListOk, Bool.and_eq_true] at hok
    simp only [Regex.charPred, Bool.or_eq_true] at h
    simp only [Regex.charList, List.contains_eq_mem, List.mem_append, decide_eq_true_eq]
    rcases h with h | h
    · left; simpa using charPred_charList a fl c hok.1 h
    · right; simpa using charPred_charList b fl c hok.2 h
  | .alt a b, fl, c, hok, h => by
    simp only [Regex.charListOk, Bool.and_eq_true] at hok
    simp only [Regex.charPred, Bool.or_eq_true] at h
    simp only [Regex.charList, List.contains_eq_mem, List.mem_append, decide_eq_true_eq]
    rcases h with h | h
    · left; simpa using charPred_charList a fl c hok.1 h
    · right; simpa using charPred_charList b fl c hok.2 h
  | .rep _ _ _ r, fl, c, hok, h => by
    simp only [Regex.charListOk] at hok
    simp only [Regex.charPred] at h
    simpa [Regex.charList] using charPred_charList r fl c hok h
  | .group _ r, fl, c, hok, h => by
    simp only [Regex.charListOk] at hok
    simp only [Regex.charPred] at h
    simpa [Regex.charList] using charPred_charList r fl c hok h
  | .withFlags fl' r, fl, c, hok, h => by
    simp only [Regex.charListOk] at hok
    simp only [Regex.charPred] at h
    simpa [Regex.charList] using charPred_charList r fl' c hok h
  | .anchor _, _, _, _, h => by simp [Regex.charPred] at h
  | .backref _, _, _, hok, _ => by simp [Regex.charListOk] at hok
  | .look _ _, _, _, _, h => by simp [Regex.charPred] at h

end Py.Re

namespace Py.Re
variable [T : UniTables]

/-- **regex gate, alphabet form**: a successful `re.match` with a `^…$` pattern on a subject that does not end in a
newline: every character is in the finite list `charList`, the length is within `lenBound` -/
theorem match_gate {p : Pattern} {s : Str} (he : p.re.endsAtEol p.flags = true)
    (hok : p.re.charListOk p.flags = true) (h : (match_ p s).isSome = true) (hs : s.getLast? ≠ some 10) :
    s.all (fun c => (p.re.charList p.flags).contains c) = true ∧ LenIn p.re.lenBound s.length := by
  obtain ⟨m, hm⟩ := Option.isSome_iff_exists.mp h
  obtain ⟨core, hc, _, _, _, hall, hlen⟩ := match_shape_eol he hm
  have hsc : s = core := by
    rcases hc with rfl | rfl
    · rfl
    · exact absurd (by simp) hs
  subst hsc
  refine ⟨?_, hlen⟩
  rw [List.all_eq_true]
  intro c hc
  exact charPred_charList p.re p.flags c hok (hall c hc)

theorem group_gate {p : Pattern} {s : Str} {m : Match} {i : Nat} {t : Str} {fb : Flags × Regex}
    (hm : m.FromRun p s) (hi : 0 < i) (hg : m.group i = some t)
    (hb : p.re.groupBodies i p.flags = [fb]) (hok : fb.2.charListOk fb.1 = true) :
    t.all (fun c => (fb.2.charList fb.1).contains c) = true ∧ LenIn fb.2.lenBound t.length := by
  obtain ⟨fb', hfb, hall, hlen⟩ := group_shape hm hi hg
  rw [hb, List.mem_singleton] at hfb
  subst hfb
  refine ⟨?_, hlen⟩
  rw [List.all_eq_true]
  intro c hc
  exact charPred_charList _ _ c hok (hall c hc)

theorem group_gate_named {p : Pattern} {s : Str} {m : Match} {name : Str} {i : Nat} {t : Str} {fb : Flags × Regex}
    (hm : m.FromRun p s) (hg : m.groupNamedR name = .ok t)
    (hname : (p.names.find? (fun q => q.1 == name)).map (·.2) = some i) (hi : 0 < i)
    (hb : p.re.groupBodies i p.flags = [fb]) (hok : fb.2.charListOk fb.1 = true) :
    t.all (fun c => (fb.2.charList fb.1).contains c) = true ∧ LenIn fb.2.lenBound t.length := by
  obtain ⟨j, hj, hgj⟩ := Match.groupNamedR_ok hg
  have : j = i := by
    unfold Match.index at hj
    rw [hm.names_eq, hname] at hj
    exact (Option.some.inj hj).symm
  subst this
  exact group_gate hm hi hgj hb hok

omit T in
/-- fixed length from the bounds -/
theorem LenIn.eq_of_fixed {b : Nat × Option Nat} {n k : Nat} (h : LenIn b n) (hb : b = (k, some k)) : n = k := by
  subst hb
  have h1 := h.1
  have h2 := h.2 k rfl
  simp only at h1
  omega

omit T in
theorem LenIn.lower {b : Nat × Option Nat} {n : Nat} (h : LenIn b n) : b.1 ≤ n := h.1
omit T in
theorem LenIn.upper {b : Nat × Option Nat} {n k : Nat} (h : LenIn b n) (hb : b.2 = some k) : n ≤ k := h.2 k hb

end Py.Re

namespace Py

/-! no trailing newline -/
theorem getLast?_strip_ne (x : Str) : (strip x).getLast? ≠ some 10 := by
  intro h
  have := strip_getLast?_not_space x 10 h
  revert this; decide

theorem getLast?_drop_ne {s : Str} (h : s.getLast? ≠ some 10) (k : Nat) : (s.drop k).getLast? ≠ some 10 := by
  intro hd
  apply h
  by_cases hk : k < s.length
  · have : s.drop k ≠ [] := by
      intro e; have := congrArg List.length e; simp at this; omega
    rw [List.getLast?_eq_some_getLast this] at hd
    have hne : s ≠ [] := by intro e; subst e; simp at hk
    rw [List.getLast?_eq_some_getLast hne]
    rw [List.getLast_drop] at hd
    exact hd
  · have : s.drop k = [] := List.drop_eq_nil_of_le (by omega)
    rw [this] at hd; simp at hd

theorem getLast?_slice_some_none_ne {s : Str} (h : s.getLast? ≠ some 10) (a : Int) :
    (slice s (some a) none).getLast? ≠ some 10 := by
  rw [slice_eq_sliceL, sliceL_some_none]
  exact getLast?_drop_ne h _

theorem getLast?_ne_of_allIn {s : Str} {P : Nat → Bool} (h : AllIn P s) (hP : P 10 = false) : s.getLast? ≠ some 10 := by
  intro hl
  have := h 10 (List.mem_of_getLast? hl)
  rw [hP] at this; cases this

end Py

namespace Py

/-- `m.group('name')` used as a string: the graph (the gate lemmas `Py.Re.group_gate_named`, and
`Py.Re.Match.groupNamedR_ok_of_setsGroup` for the exceptional branch, are applied by `py_vc`) -/
@[spec] theorem groupNamedR_spec (m : Re.Match) (name : Str) :
    ⦃⌜True⌝⦄ m.groupNamedR name
    ⦃post⟨fun t => ⌜m.groupNamedR name = .ok t⌝, fun e => ⌜m.groupNamedR name = .error e⌝⟩⦄ :=
  triple_of_holds _ _ _ (by unfold Holds; cases h : m.groupNamedR name <;> rfl)

@[spec] theorem groupR_spec (m : Re.Match) (i : Nat) :
    ⦃⌜True⌝⦄ m.groupR i ⦃post⟨fun t => ⌜m.groupR i = .ok t⌝, fun e => ⌜m.groupR i = .error e⌝⟩⦄ :=
  triple_of_holds _ _ _ (by unfold Holds; cases h : m.groupR i <;> rfl)

end Py

namespace Py

theorem isDigits_of_alphabet {A t : Str} (hs : t.all (fun c => A.contains c) = true) (hA : A.all isAsciiDigit = true)
    (hl : 0 < t.length) (hu : t.length ≤ 4300) : IsDigits t ∧ t.length ≤ 4300 :=
  ⟨⟨List.ne_nil_of_length_pos hl, allIn_of_alphabet hs hA⟩, hu⟩

end Py


namespace Py
theorem upperFullTab_nonempty : Uni.Data.upperFullTab.toList.all (fun e => !e.2.isEmpty) = true := by decide +kernel

theorem upperC_ne_nil (c : Nat) : Uni.upperC c ≠ [] := by
  unfold Uni.upperC
  split
  · simp
  · split
    · rename_i l h
      have hm := Uni.pointVal_some h
      have := List.all_eq_true.mp upperFullTab_nonempty _ hm
      intro e; rw [e] at this; simp at this
    · simp

/-- `upper()` does not create a trailing newline -/
theorem getLast?_upper_ne {s : Str} (h : s.getLast? ≠ some 10) : (upper s).getLast? ≠ some 10 := by
  intro hu
  apply h
  rcases List.eq_nil_or_concat s with rfl | ⟨s', c, rfl⟩
  · simp [upper] at hu
  · rw [List.concat_eq_append, upper_append] at hu
    have hc : upper [c] ≠ [] := by
      unfold upper; simp only [List.flatMap_cons, List.flatMap_nil, List.append_nil]; exact upperC_ne_nil c
    rw [List.getLast?_append] at hu
    have hu' : (upper [c]).getLast? = some 10 := by
      cases hb : (upper [c]).getLast? with
      | none => rw [List.getLast?_eq_none_iff] at hb; exact absurd hb hc
      | some x => rw [hb] at hu; simpa using hu
    have hmem : 10 ∈ upper [c] := List.mem_of_getLast? hu'
    have := upper_ascii_nonupper_origin [c] 10 hmem (by decide) (by decide)
    simp only [List.mem_singleton] at this
    subst this
    simp
end Py

namespace Py

/-- class facts from membership in a literal list and from one-character results of `str(int)` -/
theorem of_mem {A : Str} {Q : Nat → Bool} (hQ : A.all Q = true) {c : Nat} (hc : c ∈ A) : Q c = true :=
  List.all_eq_true.mp hQ c hc

theorem of_strOfInt_eq {Q : Nat → Bool} (hQ : (45 :: List.range' 48 10).all Q = true) {n : Int} {c : Nat}
    (h : strOfInt n = [c]) : Q c = true := by
  have := strOfInt_allIn n c (by rw [h]; simp)
  simp only [Bool.or_eq_true, beq_iff_eq] at this
  rcases this with hd | rfl
  · exact of_isAsciiDigit (Q := Q) (by
      simp only [List.all_cons, Bool.and_eq_true] at hQ; exact hQ.2) hd
  · simp only [List.all_cons, Bool.and_eq_true] at hQ; exact hQ.1

theorem of_strOfInt_eq' {Q : Nat → Bool} (hQ : (45 :: List.range' 48 10).all Q = true) {n : Int} {c : Nat}
    (h : [c] = strOfInt n) : Q c = true := of_strOfInt_eq hQ h.symm

end Py

namespace Py

/-- `d[k]` with the key known to be present: the value is the one stored under `k` -/
@[spec high] theorem dictGet_spec2 {κ ν : Type} [BEq κ] [LawfulBEq κ] (d : List (κ × ν)) (k : κ) (h : dictHas d k = true) :
    ⦃⌜True⌝⦄ dictGet d k ⦃post⟨fun v => ⌜(k, v) ∈ d⌝, fun _ => ⌜False⌝⟩⦄ := by
  apply triple_of_Ok
  unfold dictGet
  unfold dictHas at h
  cases hd : dictGet? d k with
  | none => simp [hd] at h
  | some v => exact ⟨v, rfl, dictGet?_mem d k v hd⟩

/-- the values of a literal `dict` with `int` values are small (for `datetime.date(..)` range conditions) -/
theorem dict_val_small {κ : Type} {D : List (κ × Int)}
    (hD : D.all (fun p => decide (-1000000 < p.2) && decide (p.2 < 1000000)) = true) {k : κ} {v : Int}
    (h : (k, v) ∈ D) : -1000000 < v ∧ v < 1000000 := by
  have := List.all_eq_true.mp hD _ h
  simpa using this

end Py

namespace Py

/-- reflexive spec of `s[i]` (family C05g: both sides of the check-digit comparison are kept as equations) -/
theorem getItem_graph (s : Str) (i : Int) :
    ⦃⌜True⌝⦄ getItem s i ⦃post⟨fun r => ⌜getItem s i = .ok r⌝, fun _ => ⌜True⌝⟩⦄ :=
  pc_triple (fun _ h => h)

end Py

namespace Py

/-! ## idempotence of the stripping operations (for `compact (compact x) = compact x`) -/

theorem lstripBy_idem (p : Nat → Bool) (s : Str) : lstripBy p (lstripBy p s) = lstripBy p s :=
  lstripBy_eq_self p _ (lstripBy_head p s)

theorem rstripBy_idem (p : Nat → Bool) (s : Str) : rstripBy p (rstripBy p s) = rstripBy p s :=
  rstripBy_eq_self p _ (rstripBy_getLast p s)

theorem lstripChars_idem (s cs : Str) : lstripChars (lstripChars s cs) cs = lstripChars s cs := lstripBy_idem _ s
theorem rstripChars_idem (s cs : Str) : rstripChars (rstripChars s cs) cs = rstripChars s cs := rstripBy_idem _ s
theorem stripChars_idem (s cs : Str) : stripChars (stripChars s cs) cs = stripChars s cs := stripBy_idem _ s
theorem lstrip_idem (s : Str) : lstrip (lstrip s) = lstrip s := lstripBy_idem _ s
theorem rstrip_idem (s : Str) : rstrip (rstrip s) = rstrip s := rstripBy_idem _ s

end Py

namespace Py
/-- `0-9A-Z` -/
def alnum36 : Str := [48, 49, 50, 51, 52, 53, 54, 55, 56, 57, 65, 66, 67, 68, 69, 70, 71, 72, 73, 74, 75, 76, 77, 78, 79,
  80, 81, 82, 83, 84, 85, 86, 87, 88, 89, 90]
end Py

namespace Py

theorem dictGetD_small {κ : Type} [BEq κ] [LawfulBEq κ] {D : List (κ × Int)} (k : κ) (dflt : Int)
    (hD : D.all (fun p => decide (-1000000 < p.2) && decide (p.2 < 1000000)) = true)
    (hd : -1000000 < dflt ∧ dflt < 1000000) :
    -1000000 < dictGetD D k dflt ∧ dictGetD D k dflt < 1000000 := by
  unfold dictGetD
  cases h : dictGet? D k with
  | none => simpa using hd
  | some v => simpa using dict_val_small hD (dictGet?_mem D k v h)

end Py

namespace Py

/-! ## elements of comprehension sources are digit characters (strings of unknown length) -/

theorem isDigits_of_mem_chars {T a : Str} (hT : AllIn isAsciiDigit T) (ha : a ∈ chars T) :
    IsDigits a ∧ a.length ≤ 4300 := by
  obtain ⟨c, hc, rfl⟩ := mem_chars.mp ha
  exact ⟨⟨by simp, by simpa using hT c hc⟩, by simp⟩

theorem isDigits_of_mem_zip_chars_snd {α : Type} {w : List α} {T : Str} {a : α × Str} (hT : AllIn isAsciiDigit T)
    (ha : a ∈ w.zip (chars T)) : IsDigits a.2 ∧ a.2.length ≤ 4300 :=
  isDigits_of_mem_chars hT (List.of_mem_zip (a := a.1) (b := a.2) (by simpa using ha)).2

theorem isDigits_of_mem_zip_chars_fst {α : Type} {w : List α} {T : Str} {a : Str × α} (hT : AllIn isAsciiDigit T)
    (ha : a ∈ (chars T).zip w) : IsDigits a.1 ∧ a.1.length ≤ 4300 :=
  isDigits_of_mem_chars hT (List.of_mem_zip (a := a.1) (b := a.2) (by simpa using ha)).1

theorem isDigits_of_mem_enumerate_chars {T : Str} {k : Int} {a : Int × Str} (hT : AllIn isAsciiDigit T)
    (ha : a ∈ enumerate (chars T) k) : IsDigits a.2 ∧ a.2.length ≤ 4300 :=
  isDigits_of_mem_chars hT (mem_enumerate ha).1

theorem isDigits_of_mem_reverse_chars {T a : Str} (hT : AllIn isAsciiDigit T) (ha : a ∈ (chars T).reverse) :
    IsDigits a ∧ a.length ≤ 4300 :=
  isDigits_of_mem_chars hT (List.mem_reverse.mp ha)

theorem isDigits_of_mem_enumerate_reverse_chars {T : Str} {k : Int} {a : Int × Str} (hT : AllIn isAsciiDigit T)
    (ha : a ∈ enumerate (chars T).reverse k) : IsDigits a.2 ∧ a.2.length ≤ 4300 :=
  isDigits_of_mem_chars hT (List.mem_reverse.mp (mem_enumerate ha).1)

theorem allIn_reverse {p : Nat → Bool} {s : Str} (h : AllIn p s) : AllIn p s.reverse := AllIn.reverse_iff.mpr h

end Py

namespace Py

/-- a one-character key of a literal dictionary: class facts by enumeration of the keys -/
theorem of_dictHas_single {ν : Type} {D : List (Str × ν)} {Q : Nat → Bool} (hQ : D.all (fun p => p.1.all Q) = true)
    {c : Nat} (h : dictHas D [c] = true) : Q c = true := by
  rw [dictHas_eq_any, List.any_eq_true] at h
  obtain ⟨p, hp, hk⟩ := h
  have h1 := List.all_eq_true.mp hQ p hp
  have hk' : p.1 = [c] := by simpa using hk
  rw [hk'] at h1
  simpa using h1

end Py

namespace Py

/-! ## elements of comprehension sources are characters of an alphabet -/

theorem strIn_of_mem_chars' {T a A : Str} (hT : AllIn (fun c => A.contains c) T) (ha : a ∈ chars T) :
    strIn a A = true := by
  obtain ⟨c, hc, rfl⟩ := mem_chars.mp ha
  rw [strIn_single]; exact hT c hc

theorem strIn_of_mem_zip_chars_snd {α : Type} {w : List α} {T A : Str} {a : α × Str}
    (hT : AllIn (fun c => A.contains c) T) (ha : a ∈ w.zip (chars T)) : strIn a.2 A = true :=
  strIn_of_mem_chars' hT (List.of_mem_zip (a := a.1) (b := a.2) (by simpa using ha)).2

theorem strIn_of_mem_zip_chars_fst {α : Type} {w : List α} {T A : Str} {a : Str × α}
    (hT : AllIn (fun c => A.contains c) T) (ha : a ∈ (chars T).zip w) : strIn a.1 A = true :=
  strIn_of_mem_chars' hT (List.of_mem_zip (a := a.1) (b := a.2) (by simpa using ha)).1

theorem strIn_of_mem_enumerate_chars {T A : Str} {k : Int} {a : Int × Str}
    (hT : AllIn (fun c => A.contains c) T) (ha : a ∈ enumerate (chars T) k) : strIn a.2 A = true :=
  strIn_of_mem_chars' hT (mem_enumerate ha).1

theorem strIn_of_mem_reverse_chars {T a A : Str} (hT : AllIn (fun c => A.contains c) T)
    (ha : a ∈ (chars T).reverse) : strIn a A = true :=
  strIn_of_mem_chars' hT (List.mem_reverse.mp ha)

theorem strIn_of_mem_enumerate_reverse_chars {T A : Str} {k : Int} {a : Int × Str}
    (hT : AllIn (fun c => A.contains c) T) (ha : a ∈ enumerate (chars T).reverse k) : strIn a.2 A = true :=
  strIn_of_mem_chars' hT (List.mem_reverse.mp (mem_enumerate ha).1)

/-- a gate over one alphabet gives the class fact for a larger alphabet -/
theorem allIn_contains_of_alphabet {A B s : Str} (hs : s.all (fun c => A.contains c) = true)
    (hAB : A.all (fun c => B.contains c) = true) : AllIn (fun c => B.contains c) s :=
  allIn_of_alphabet (P := fun c => B.contains c) hs hAB

theorem allIn_contains_of_digits {B s : Str} (hs : AllIn isAsciiDigit s)
    (hB : (List.range' 48 10).all (fun c => B.contains c) = true) : AllIn (fun c => B.contains c) s :=
  fun c hc => of_isAsciiDigit (Q := fun c => B.contains c) hB (hs c hc)

end Py

namespace Py
theorem AllIn.cleanP_digits' {s : Str} (h : AllIn isAsciiDigit s) (d : Str) : AllIn isAsciiDigit (Py.cleanP s d) :=
  AllIn.cleanP_of_alnum h (fun c hc => by simp only [isAsciiAlnum, hc, Bool.true_or])
theorem AllIn.upper_digits' {s : Str} (h : AllIn isAsciiDigit s) : AllIn isAsciiDigit (Py.upper s) := by
  rw [upper_of_asciiDigits h]; exact h
end Py

namespace Py

/-! ## comprehensions whose results are used later (`''.join(str(..) for ..)`): the graph of the element function -/

/-- `mapM`: every result comes from an element (the element function's graph is kept, so that facts about the results
can be re-derived by running `mvcgen` on `f a` with the wanted post-condition, see `post_of_ok`) -/
@[spec high] theorem mapM_spec2 {α β : Type} (f : α → R β) (l : List α)
    (h : ∀ a ∈ l, ⦃⌜True⌝⦄ f a ⦃post⟨fun _ => ⌜True⌝, fun _ => ⌜False⌝⟩⦄) :
    ⦃⌜True⌝⦄ l.mapM f
    ⦃post⟨fun rs => ⌜rs.length = l.length ∧ ∀ r ∈ rs, ∃ a ∈ l, f a = .ok r⌝, fun _ => ⌜False⌝⟩⦄ :=
  triple_of_Ok (by
    obtain ⟨rs, h1, h2, h3⟩ := Ok_mapM f (fun r => ∃ a ∈ l, f a = .ok r) l (fun a ha => by
      obtain ⟨b, hb, _⟩ := Ok_of_triple (h a ha)
      exact ⟨b, hb, a, ha, hb⟩)
    exact ⟨rs, h1, h2, h3⟩)

theorem post_of_ok {α : Type} {x : R α} {Q : α → Prop} {r : α}
    (h : ⦃⌜True⌝⦄ x ⦃post⟨fun v => ⌜Q v⌝, fun _ => ⌜True⌝⟩⦄) (hx : x = .ok r) : Q r := by
  have := holds_of_triple x Q (fun _ => True) h
  rw [hx] at this
  exact this

end Py

namespace Py

theorem nonneg_of_mem {w : List Int} (hw : w.all (fun x => decide (0 ≤ x)) = true) {x : Int} (h : x ∈ w) : 0 ≤ x := by
  simpa using List.all_eq_true.mp hw x h

theorem nonneg_of_mem_zip_fst {β : Type} {w : List Int} {l : List β} {a : Int × β}
    (hw : w.all (fun x => decide (0 ≤ x)) = true) (h : a ∈ w.zip l) : 0 ≤ a.1 :=
  nonneg_of_mem hw (List.of_mem_zip (a := a.1) (b := a.2) (by simpa using h)).1

theorem nonneg_of_mem_zip_snd {β : Type} {w : List Int} {l : List β} {a : β × Int}
    (hw : w.all (fun x => decide (0 ≤ x)) = true) (h : a ∈ l.zip w) : 0 ≤ a.2 :=
  nonneg_of_mem hw (List.of_mem_zip (a := a.1) (b := a.2) (by simpa using h)).2

theorem nonneg_of_mem_enumerate {β : Type} {l : List β} {k : Int} {a : Int × β} (hk : 0 ≤ k)
    (h : a ∈ enumerate l k) : 0 ≤ a.1 := by
  have := (mem_enumerate h).2.1
  omega

end Py

namespace Py.Re
variable [T : UniTables]

/-- `[0-9]` / `[A-Z]` without IGNORECASE, folded to the arithmetic character classes -/
theorem classMatch_digit {fl : Flags} (h : fl.ignorecase = false) (c : Nat) :
    classMatch fl false [.range 48 57] c = isAsciiDigit c := by
  simp [classMatch, h, itemMatch]

theorem classMatch_upper {fl : Flags} (h : fl.ignorecase = false) (c : Nat) :
    classMatch fl false [.range 65 90] c = isAsciiUpper c := by
  simp [classMatch, h, itemMatch]

end Py.Re

namespace Py
theorem holds_ok {α : Type} {x : R α} {v : α} {Q : α → Prop} {E : Exc → Prop} (h : x = .ok v) (hs : Holds x Q E) : Q v := by
  rw [h] at hs; exact hs
end Py

namespace Py
/-- the digit condition of `int(s, b)` as a character class (closed by the `AllIn` machinery) -/
def digitBelow (b : Nat) (c : Nat) : Bool := (asciiDigitVal36 c).any (fun v => decide (v < b))

theorem digitBelow_iff {b c : Nat} : (∃ v, asciiDigitVal36 c = some v ∧ v < b) ↔ digitBelow b c = true := by
  unfold digitBelow
  cases asciiDigitVal36 c <;> simp

theorem forall_digitBelow_iff {b : Nat} {s : Str} :
    (∀ c ∈ s, ∃ v, asciiDigitVal36 c = some v ∧ v < b) ↔ AllIn (digitBelow b) s := by
  unfold AllIn
  simp only [digitBelow_iff]

theorem allIn_of_digits_any {Q : Nat → Bool} {s : Str} (hs : AllIn isAsciiDigit s)
    (hQ : (List.range' 48 10).all Q = true) : AllIn Q s :=
  fun c hc => of_isAsciiDigit hQ (hs c hc)
end Py

namespace Py
theorem of_strOfInt_nonneg_eq {Q : Nat → Bool} (hQ : (List.range' 48 10).all Q = true) {n : Int} {c : Nat}
    (hn : 0 ≤ n) (h : strOfInt n = [c]) : Q c = true :=
  of_isAsciiDigit hQ (strOfInt_allDigits hn c (by rw [h]; simp))

theorem of_strOfInt_nonneg_eq' {Q : Nat → Bool} (hQ : (List.range' 48 10).all Q = true) {n : Int} {c : Nat}
    (hn : 0 ≤ n) (h : [c] = strOfInt n) : Q c = true := of_strOfInt_nonneg_eq hQ hn h.symm
end Py

namespace Py
/-- reflexive ("graph") specification: running `x` tells which value it returned.  Used for the functions shared by
`validate` and a getter: the getter repeats a call `validate` already made, with the same result. -/
theorem graph_spec {α : Type} (x : R α) :
    ⦃⌜True⌝⦄ x ⦃post⟨fun r => ⌜x = .ok r⌝, fun _ => ⌜True⌝⟩⦄ :=
  triple_of_holds x _ _ (by unfold Holds; cases x <;> simp)

theorem ok_bind {α β : Type} (a : α) (f : α → R β) : ((Except.ok a : R α) >>= f) = f a := rfl
theorem ok_map {α β : Type} (a : α) (f : α → β) : (f <$> (Except.ok a : R α)) = Except.ok (f a) := rfl
theorem ok_eq_pure {α : Type} (a : α) : (Except.ok a : R α) = pure a := rfl
end Py

namespace Py
theorem ne_nil_of_endswith {s p : Str} (h : endswith s p = true) (hp : p ≠ []) : s ≠ [] := by
  have := endswith_length_le h
  have : 0 < p.length := List.length_pos_iff.mpr hp
  exact List.ne_nil_of_length_pos (by omega)
theorem ne_nil_of_startswith {s p : Str} (h : startswith s p = true) (hp : p ≠ []) : s ≠ [] := by
  have := startswith_length_le h
  have : 0 < p.length := List.length_pos_iff.mpr hp
  exact List.ne_nil_of_length_pos (by omega)
end Py

namespace Py
/-- class of a character from membership of the one-character string in a table of strings -/
theorem of_contains_single {Q : Nat → Bool} {L : List Str} {c : Nat}
    (hQ : L.all (fun s => match s with | [a] => Q a | _ => true) = true) (h : L.contains [c] = true) : Q c = true := by
  have hm : [c] ∈ L := by simpa using h
  have := List.all_eq_true.mp hQ [c] hm
  simpa using this

theorem of_contains_pair_fst {Q : Nat → Bool} {L : List Str} {a b : Nat}
    (hQ : L.all (fun s => match s with | [x, _] => Q x | _ => true) = true) (h : L.contains [a, b] = true) : Q a = true := by
  have hm : [a, b] ∈ L := by simpa using h
  have := List.all_eq_true.mp hQ [a, b] hm
  simpa using this

theorem of_contains_pair_snd {Q : Nat → Bool} {L : List Str} {a b : Nat}
    (hQ : L.all (fun s => match s with | [_, y] => Q y | _ => true) = true) (h : L.contains [a, b] = true) : Q b = true := by
  have hm : [a, b] ∈ L := by simpa using h
  have := List.all_eq_true.mp hQ [a, b] hm
  simpa using this
end Py
