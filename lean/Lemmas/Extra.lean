import Lemmas.Hoare
import Lemmas.StrSpecs
import Lemmas.Util
import Lemmas.Strip
import Lemmas.Unicode
/-!
# Lemmas.Extra — further `@[spec]` triples and small facts used by the contract automation (`Lemmas.Vc`)

* `datetime.date(y, m, d)` / `calendar.monthrange`: specs with an *exceptional* post-condition (`ValueError`), so that the
  translated `try: … except ValueError: raise InvalidComponent` is handled by `mvcgen` itself;
* destructuring a string of known length into its characters (`explode_succ`);
* arithmetic helpers.
-/
open Py Std.Do
set_option mvcgen.warning false

namespace Py

/-! ## dates -/

/-- `datetime.date(y, m, d)` on C-int sized arguments: a valid date or `ValueError` (never `OverflowError`) -/
@[spec] theorem mkDate_spec (y m d : Int)
    (h : (-2147483648 < y ∧ y < 2147483648) ∧ (-2147483648 < m ∧ m < 2147483648) ∧
      (-2147483648 < d ∧ d < 2147483648)) :
    ⦃⌜True⌝⦄ mkDate y m d
    ⦃post⟨fun r => ⌜r = ⟨y, m, d⟩ ∧ r.Valid⌝,
      fun e => ⌜e = .valueError ∧ ¬ (1 ≤ y ∧ y ≤ 9999 ∧ 1 ≤ m ∧ m ≤ 12 ∧ 1 ≤ d ∧ d ≤ daysInMonth y m)⌝⟩⦄ := by
  apply triple_of_holds
  unfold mkDate
  have h1 : ¬ ((decide (y.natAbs ≥ 2147483648) || decide (m.natAbs ≥ 2147483648) || decide (d.natAbs ≥ 2147483648)) = true) := by
    simp only [Bool.or_eq_true, decide_eq_true_eq]
    omega
  rw [if_neg h1]
  split
  · rename_i hv
    exact ⟨rfl, hv⟩
  · rename_i hv
    exact ⟨rfl, hv⟩

example : (-2147483648 < (2024 : Int) ∧ (2024 : Int) < 2147483648) ∧ (-2147483648 < (2 : Int) ∧ (2 : Int) < 2147483648) ∧
      (-2147483648 < (30 : Int) ∧ (30 : Int) < 2147483648) := by omega
example : mkDate 2024 2 30 = .error .valueError := by rfl
example : mkDate 2024 2 29 = .ok ⟨2024, 2, 29⟩ := by rfl

theorem daysInMonth_bounds (y m : Int) : 28 ≤ daysInMonth y m ∧ daysInMonth y m ≤ 31 := by
  unfold daysInMonth
  split
  · split <;> omega
  · split <;> omega

/-- `calendar.monthrange(y, m)[1]` for a month already checked to be 1..12 -/
@[spec] theorem monthrangeDays_spec (y m : Int) (h : 1 ≤ m ∧ m ≤ 12) :
    ⦃⌜True⌝⦄ monthrangeDays y m ⦃post⟨fun r => ⌜r = daysInMonth y m ∧ 28 ≤ r ∧ r ≤ 31⌝, fun _ => ⌜False⌝⟩⦄ := by
  apply triple_of_Ok
  unfold monthrangeDays
  rw [if_pos h]
  exact ⟨_, rfl, rfl, daysInMonth_bounds y m⟩

/-! ## strings of known length -/

theorem explode_succ {α : Type} {n : Nat} {s : List α} (h : s.length = n + 1) :
    ∃ c t, s = c :: t ∧ t.length = n := by
  cases s with
  | nil => simp at h
  | cons c t => exact ⟨c, t, rfl, by simpa using h⟩

/-! ## arithmetic -/

theorem fmod_bounds (a : Int) {n : Int} (h : 0 < n) : 0 ≤ Int.fmod a n ∧ Int.fmod a n < n := by
  rw [Int.fmod_eq_emod_of_nonneg a (Int.le_of_lt h)]
  exact ⟨Int.emod_nonneg a (by omega), Int.emod_lt_of_pos a h⟩

theorem strIn_of_mem_chars {a s alphabet : Str} (ha : a ∈ chars s) (h : ∀ c ∈ s, alphabet.contains c = true) :
    strIn a alphabet = true := by
  obtain ⟨c, hc, rfl⟩ := mem_chars.mp ha
  rw [strIn_single]; exact h c hc

theorem stateT_pure_apply {σ α : Type} (a : α) (s : σ) :
    (pure a : StateT σ R α) s = (pure (a, s) : R (α × σ)) := rfl

end Py

namespace Py
/-- `return` inside `try` (new `do` elaborator): the early-return tunnel seen at the level of `R` -/
theorem earlyReturn_eq {ρ α : Type} (r : ρ) :
    (EarlyReturnT.return r : EarlyReturnT ρ R α) = (pure (Except.error r) : R (Except ρ α)) := rfl
end Py
