import PyRt
/-!
# Lemmas.Str — facts about the string / sequence runtime `PyRt.Str`, `PyRt.Misc`

Pure lemmas (no Hoare logic; the `@[spec]` triples are in `Lemmas.StrSpecs`).
`@[simp]` marks safe rewriting rules; `@[grind →]` / `@[grind ←]` / `@[grind =]` / `@[grind .]` make the
membership-projection, closure and length facts available to `grind`.

Contents: `AllIn` closure · slice bounds (`normIdx`, `loIdx`, `hiIdx`) · slices (membership, length, `take`/`drop`
forms, partition, emptiness) · `getItem`/`getItemL` · `everyNth`/`sliceStepL` · `enumerate`/`zip3`/`range`/
`rangeStep`/`sumInt` · `chars`/`join` · `zfill`/`rjust`/`ljust`/`repeatStr` · `replace` · `IsDigits` ·
`startswith`/`endswith`/`strIn`/`find`/`index`/`indexL`/`count` · `splitOn`/`rsplitOn` · `strLt`/`strLe` ·
dictionaries · `maxInt`/`minInt`/`ord`/`chr`.
-/
namespace Py


/-! ## `AllIn` closure -/

theorem AllIn.iff_forall {p : Nat → Bool} {s : Str} : AllIn p s ↔ ∀ c ∈ s, p c = true := Iff.rfl

@[simp, grind =] theorem AllIn.nil_iff {p : Nat → Bool} : AllIn p [] ↔ True := by simp [AllIn]
theorem AllIn.nil {p : Nat → Bool} : AllIn p [] := by simp [AllIn]

@[simp, grind =] theorem AllIn.cons_iff' {p : Nat → Bool} {c : Nat} {s : Str} :
    AllIn p (c :: s) ↔ p c = true ∧ AllIn p s := by simp [AllIn]

theorem AllIn.cons {p : Nat → Bool} {c : Nat} {s : Str} (hc : p c = true) (h : AllIn p s) : AllIn p (c :: s) :=
  AllIn.cons_iff'.mpr ⟨hc, h⟩

theorem AllIn.head {p : Nat → Bool} {c : Nat} {s : Str} (h : AllIn p (c :: s)) : p c = true := (AllIn.cons_iff'.mp h).1
theorem AllIn.tail {p : Nat → Bool} {c : Nat} {s : Str} (h : AllIn p (c :: s)) : AllIn p s := (AllIn.cons_iff'.mp h).2

@[grind →] theorem AllIn.mem {p : Nat → Bool} {s : Str} {c : Nat} (h : AllIn p s) (hc : c ∈ s) : p c = true := h c hc

@[simp, grind =] theorem AllIn.singleton_iff {p : Nat → Bool} {c : Nat} : AllIn p [c] ↔ p c = true := by simp [AllIn]

@[simp, grind =] theorem AllIn.append_iff {p : Nat → Bool} {s t : Str} : AllIn p (s ++ t) ↔ AllIn p s ∧ AllIn p t := by
  simp only [AllIn, List.mem_append]
  constructor
  · intro h; exact ⟨fun c hc => h c (Or.inl hc), fun c hc => h c (Or.inr hc)⟩
  · rintro ⟨h1, h2⟩ c (hc | hc)
    · exact h1 c hc
    · exact h2 c hc

theorem AllIn.append {p : Nat → Bool} {s t : Str} (hs : AllIn p s) (ht : AllIn p t) : AllIn p (s ++ t) :=
  AllIn.append_iff.mpr ⟨hs, ht⟩

@[simp, grind =] theorem AllIn.reverse_iff {p : Nat → Bool} {s : Str} : AllIn p s.reverse ↔ AllIn p s := by
  simp [AllIn]

theorem AllIn.reverse {p : Nat → Bool} {s : Str} (h : AllIn p s) : AllIn p s.reverse := AllIn.reverse_iff.mpr h

theorem AllIn.mono {p q : Nat → Bool} {s : Str} (h : AllIn p s) (hpq : ∀ c, p c = true → q c = true) : AllIn q s :=
  fun c hc => hpq c (h c hc)

/-- every character of `t` occurs in `s` -/
theorem AllIn.of_subset {p : Nat → Bool} {s t : Str} (h : AllIn p s) (hts : ∀ c ∈ t, c ∈ s) : AllIn p t :=
  fun c hc => h c (hts c hc)

@[simp, grind ←] theorem AllIn.take {p : Nat → Bool} {s : Str} (h : AllIn p s) (n : Nat) : AllIn p (s.take n) :=
  h.of_subset (fun _ hc => List.mem_of_mem_take hc)

@[simp, grind ←] theorem AllIn.drop {p : Nat → Bool} {s : Str} (h : AllIn p s) (n : Nat) : AllIn p (s.drop n) :=
  h.of_subset (fun _ hc => List.mem_of_mem_drop hc)

@[simp, grind ←] theorem AllIn.filter {p : Nat → Bool} {s : Str} (h : AllIn p s) (q : Nat → Bool) : AllIn p (s.filter q) :=
  h.of_subset (fun _ hc => (List.mem_filter.mp hc).1)

@[simp, grind =] theorem AllIn.replicate_iff {p : Nat → Bool} {n c : Nat} :
    AllIn p (List.replicate n c) ↔ n = 0 ∨ p c = true := by
  simp only [AllIn, List.mem_replicate]
  constructor
  · intro h
    by_cases hn : n = 0
    · exact Or.inl hn
    · exact Or.inr (h c ⟨hn, rfl⟩)
  · rintro (h | h) x ⟨hn, rfl⟩
    · exact absurd h hn
    · exact h

theorem AllIn.replicate {p : Nat → Bool} {c : Nat} (h : p c = true) (n : Nat) : AllIn p (List.replicate n c) :=
  AllIn.replicate_iff.mpr (Or.inr h)

theorem AllIn.all_eq_true {p : Nat → Bool} {s : Str} : s.all p = true ↔ AllIn p s := by simp [AllIn]

/-! ## slice bounds -/

@[simp] theorem normIdx_of_nonneg {n : Nat} {i : Int} (h : 0 ≤ i) : normIdx n i = min i.toNat n := by
  unfold normIdx; rw [if_neg (by omega)]

@[simp] theorem normIdx_of_neg {n : Nat} {i : Int} (h : i < 0) : normIdx n i = n - (-i).toNat := by
  unfold normIdx; rw [if_pos h]; omega

@[grind .] theorem normIdx_le (n : Nat) (i : Int) : normIdx n i ≤ n := by
  unfold normIdx; split <;> omega

/-- arithmetic characterisation (for `omega`) -/
theorem normIdx_spec (n : Nat) (i : Int) :
    (0 ≤ i ∧ normIdx n i = min i.toNat n) ∨ (i < 0 ∧ normIdx n i = n - (-i).toNat) := by
  unfold normIdx; split <;> omega

@[simp] theorem normIdx_natCast (n k : Nat) : normIdx n (k : Int) = min k n := by
  rw [normIdx_of_nonneg (by omega)]; simp
@[simp] theorem normIdx_length_nil (i : Int) : normIdx 0 i = 0 := by
  have := normIdx_le 0 i; omega

@[simp] theorem loIdx_none (n : Nat) : loIdx n none = 0 := rfl
@[simp] theorem loIdx_some (n : Nat) (i : Int) : loIdx n (some i) = normIdx n i := rfl
@[simp] theorem hiIdx_none (n : Nat) : hiIdx n none = n := rfl
@[simp] theorem hiIdx_some (n : Nat) (i : Int) : hiIdx n (some i) = normIdx n i := rfl
@[grind .] theorem loIdx_le (n : Nat) (a : Option Int) : loIdx n a ≤ n := by
  cases a <;> simp [normIdx_le]
@[grind .] theorem hiIdx_le (n : Nat) (a : Option Int) : hiIdx n a ≤ n := by
  cases a <;> simp [normIdx_le]

example : normIdx 7 3 = 3 := by simp
example : normIdx 7 (-3) = 4 := by simp
example (n : Nat) : normIdx n (-(1 : Int)) = n - 1 := by simp
example (n : Nat) : normIdx n (-1) = n - 1 := by simp
example (n : Nat) : normIdx n 2 = min 2 n := by simp
example (n : Nat) (i : Int) (h : 0 ≤ i) : normIdx n (i + 2) = min (i + 2).toNat n := by
  rw [normIdx_of_nonneg (by omega)]



/-! ## slices -/

theorem sliceL_eq {α : Type} (x : List α) (a b : Option Int) :
    sliceL x a b = (x.drop (loIdx x.length a)).take (hiIdx x.length b - loIdx x.length a) := rfl

theorem slice_eq (s : Str) (a b : Option Int) :
    slice s a b = (s.drop (loIdx s.length a)).take (hiIdx s.length b - loIdx s.length a) := rfl

theorem slice_eq_sliceL (s : Str) (a b : Option Int) : slice s a b = sliceL s a b := rfl

@[grind →] theorem mem_sliceL {α : Type} {x : List α} {a b : Option Int} {c : α} (h : c ∈ sliceL x a b) : c ∈ x :=
  List.mem_of_mem_drop (List.mem_of_mem_take h)

@[grind →] theorem mem_slice {s : Str} {a b : Option Int} {c : Nat} (h : c ∈ slice s a b) : c ∈ s := mem_sliceL h

theorem sliceL_sublist {α : Type} (x : List α) (a b : Option Int) : (sliceL x a b).Sublist x :=
  (List.take_sublist _ _).trans (List.drop_sublist _ _)

/-- a slice is a contiguous part -/
theorem sliceL_infix {α : Type} (x : List α) (a b : Option Int) : sliceL x a b <:+: x :=
  (List.take_prefix _ _).isInfix.trans (List.drop_suffix _ _).isInfix

@[simp, grind ←] theorem AllIn.sliceL {p : Nat → Bool} {s : Str} (h : AllIn p s) (a b : Option Int) :
    AllIn p (Py.sliceL s a b) := h.of_subset (fun _ hc => mem_sliceL hc)

@[simp, grind ←] theorem AllIn.slice {p : Nat → Bool} {s : Str} (h : AllIn p s) (a b : Option Int) :
    AllIn p (Py.slice s a b) := h.of_subset (fun _ hc => mem_slice hc)

/-- exact length of any slice -/
theorem sliceL_length {α : Type} (x : List α) (a b : Option Int) :
    (sliceL x a b).length = hiIdx x.length b - loIdx x.length a := by
  have := hiIdx_le x.length b
  simp only [sliceL_eq, List.length_take, List.length_drop]
  omega

theorem slice_length (s : Str) (a b : Option Int) :
    (slice s a b).length = hiIdx s.length b - loIdx s.length a := sliceL_length s a b

@[grind .] theorem sliceL_length_le {α : Type} (x : List α) (a b : Option Int) : (sliceL x a b).length ≤ x.length := by
  have := hiIdx_le x.length b
  rw [sliceL_length]; omega

@[grind .] theorem slice_length_le (s : Str) (a b : Option Int) : (slice s a b).length ≤ s.length := sliceL_length_le s a b

/-- `s[a:b]` has at most `b - a` characters (`0 ≤ a`, `0 ≤ b`).
(For `b < 0` this is false: `"abcdef"[1:-1]` has 4 characters.) -/
theorem sliceL_length_le_const {α : Type} (x : List α) {a b : Int} (ha : 0 ≤ a) (hb : 0 ≤ b) :
    (sliceL x (some a) (some b)).length ≤ (b - a).toNat := by
  simp only [sliceL_length, hiIdx_some, loIdx_some, normIdx_of_nonneg ha, normIdx_of_nonneg hb]
  omega

theorem slice_length_le_const (s : Str) {a b : Int} (ha : 0 ≤ a) (hb : 0 ≤ b) :
    (slice s (some a) (some b)).length ≤ (b - a).toNat := sliceL_length_le_const s ha hb

theorem sliceL_none_length_le_const {α : Type} (x : List α) {b : Int} (hb : 0 ≤ b) :
    (sliceL x none (some b)).length ≤ b.toNat := by
  simp only [sliceL_length, hiIdx_some, loIdx_none, normIdx_of_nonneg hb]
  omega

theorem slice_none_length_le_const (s : Str) {b : Int} (hb : 0 ≤ b) :
    (slice s none (some b)).length ≤ b.toNat := sliceL_none_length_le_const s hb

/-- exact length when the string is long enough -/
theorem sliceL_length_exact {α : Type} (x : List α) {a b : Int} (ha : 0 ≤ a) (hab : a ≤ b) (hb : b ≤ x.length) :
    (sliceL x (some a) (some b)).length = (b - a).toNat := by
  simp only [sliceL_length, hiIdx_some, loIdx_some, normIdx_of_nonneg ha, normIdx_of_nonneg (Int.le_trans ha hab)]
  omega

theorem slice_length_exact (s : Str) {a b : Int} (ha : 0 ≤ a) (hab : a ≤ b) (hb : b ≤ s.length) :
    (slice s (some a) (some b)).length = (b - a).toNat := sliceL_length_exact s ha hab hb

theorem sliceL_none_length_exact {α : Type} (x : List α) {b : Int} (h0 : 0 ≤ b) (hb : b ≤ x.length) :
    (sliceL x none (some b)).length = b.toNat := by
  simp only [sliceL_length, hiIdx_some, loIdx_none, normIdx_of_nonneg h0]
  omega

theorem slice_none_length_exact (s : Str) {b : Int} (h0 : 0 ≤ b) (hb : b ≤ s.length) :
    (slice s none (some b)).length = b.toNat := sliceL_none_length_exact s h0 hb

theorem sliceL_some_none_length {α : Type} (x : List α) {a : Int} (ha : 0 ≤ a) :
    (sliceL x (some a) none).length = x.length - a.toNat := by
  simp only [sliceL_length, hiIdx_none, loIdx_some, normIdx_of_nonneg ha]
  omega

theorem slice_some_none_length (s : Str) {a : Int} (ha : 0 ≤ a) :
    (slice s (some a) none).length = s.length - a.toNat := sliceL_some_none_length s ha

/-- `s[:-k]` drops the last `k` characters (`0 < k`) -/
theorem sliceL_none_neg_length {α : Type} (x : List α) {k : Int} (hk : 0 < k) :
    (sliceL x none (some (-k))).length = x.length - k.toNat := by
  simp only [sliceL_length, hiIdx_some, loIdx_none, normIdx_of_neg (show -k < 0 by omega), Int.neg_neg]
  omega

theorem slice_none_neg_length (s : Str) {k : Int} (hk : 0 < k) :
    (slice s none (some (-k))).length = s.length - k.toNat := sliceL_none_neg_length s hk

/-- `s[-k:]` are the last `k` characters (`0 < k`) -/
theorem sliceL_neg_none_length {α : Type} (x : List α) {k : Int} (hk : 0 < k) :
    (sliceL x (some (-k)) none).length = min k.toNat x.length := by
  simp only [sliceL_length, hiIdx_none, loIdx_some, normIdx_of_neg (show -k < 0 by omega), Int.neg_neg]
  omega

theorem slice_neg_none_length (s : Str) {k : Int} (hk : 0 < k) :
    (slice s (some (-k)) none).length = min k.toNat s.length := sliceL_neg_none_length s hk

@[simp, grind =] theorem sliceL_none_none {α : Type} (x : List α) : sliceL x none none = x := by
  simp [sliceL_eq]

@[simp, grind =] theorem slice_none_none (s : Str) : slice s none none = s := sliceL_none_none s

@[simp] theorem sliceL_nil {α : Type} (a b : Option Int) : sliceL ([] : List α) a b = [] := by
  simp [sliceL_eq]

@[simp] theorem slice_nil (a b : Option Int) : slice [] a b = [] := sliceL_nil a b

/-! ### slices as `take` / `drop` -/

theorem sliceL_none_some {α : Type} (x : List α) (b : Int) : sliceL x none (some b) = x.take (normIdx x.length b) := by
  simp [sliceL_eq]

theorem sliceL_some_none {α : Type} (x : List α) (a : Int) : sliceL x (some a) none = x.drop (normIdx x.length a) := by
  simp only [sliceL_eq, hiIdx_none, loIdx_some]
  rw [List.take_of_length_le (by simp)]

theorem sliceL_none_nonneg {α : Type} (x : List α) {b : Int} (hb : 0 ≤ b) : sliceL x none (some b) = x.take b.toNat := by
  rw [sliceL_none_some, normIdx_of_nonneg hb]
  by_cases h : b.toNat ≤ x.length
  · rw [Nat.min_eq_left h]
  · rw [Nat.min_eq_right (by omega), List.take_of_length_le (by omega), List.take_of_length_le (by omega)]

theorem slice_none_nonneg (s : Str) {b : Int} (hb : 0 ≤ b) : slice s none (some b) = s.take b.toNat :=
  sliceL_none_nonneg s hb

theorem sliceL_nonneg_none {α : Type} (x : List α) {a : Int} (ha : 0 ≤ a) : sliceL x (some a) none = x.drop a.toNat := by
  rw [sliceL_some_none, normIdx_of_nonneg ha]
  by_cases h : a.toNat ≤ x.length
  · rw [Nat.min_eq_left h]
  · rw [Nat.min_eq_right (by omega), List.drop_of_length_le (by omega), List.drop_of_length_le (by omega)]

theorem slice_nonneg_none (s : Str) {a : Int} (ha : 0 ≤ a) : slice s (some a) none = s.drop a.toNat :=
  sliceL_nonneg_none s ha

theorem sliceL_nonneg_nonneg {α : Type} (x : List α) {a b : Int} (ha : 0 ≤ a) (hb : 0 ≤ b) :
    sliceL x (some a) (some b) = (x.drop a.toNat).take (b.toNat - a.toNat) := by
  simp only [sliceL_eq, hiIdx_some, loIdx_some, normIdx_of_nonneg ha, normIdx_of_nonneg hb]
  by_cases h : a.toNat ≤ x.length
  · rw [Nat.min_eq_left h]
    by_cases h2 : b.toNat ≤ x.length
    · rw [Nat.min_eq_left h2]
    · rw [Nat.min_eq_right (by omega), List.take_of_length_le (by simp), List.take_of_length_le (by simp; omega)]
  · rw [List.drop_of_length_le (by omega), List.drop_of_length_le (by omega)]; simp

theorem slice_nonneg_nonneg (s : Str) {a b : Int} (ha : 0 ≤ a) (hb : 0 ≤ b) :
    slice s (some a) (some b) = (s.drop a.toNat).take (b.toNat - a.toNat) := sliceL_nonneg_nonneg s ha hb

theorem sliceL_none_neg {α : Type} (x : List α) {k : Int} (hk : 0 < k) :
    sliceL x none (some (-k)) = x.take (x.length - k.toNat) := by
  rw [sliceL_none_some, normIdx_of_neg (by omega), Int.neg_neg]

theorem slice_none_neg (s : Str) {k : Int} (hk : 0 < k) : slice s none (some (-k)) = s.take (s.length - k.toNat) :=
  sliceL_none_neg s hk

theorem sliceL_neg_none {α : Type} (x : List α) {k : Int} (hk : 0 < k) :
    sliceL x (some (-k)) none = x.drop (x.length - k.toNat) := by
  rw [sliceL_some_none, normIdx_of_neg (by omega), Int.neg_neg]

theorem slice_neg_none (s : Str) {k : Int} (hk : 0 < k) : slice s (some (-k)) none = s.drop (s.length - k.toNat) :=
  sliceL_neg_none s hk

/-! ### partition -/

/-- consecutive slices with a common cut point concatenate (the cut point must lie between the ends) -/
theorem sliceL_append_sliceL {α : Type} (x : List α) (a c : Option Int) (k : Int)
    (h1 : loIdx x.length a ≤ normIdx x.length k) (h2 : normIdx x.length k ≤ hiIdx x.length c) :
    sliceL x a (some k) ++ sliceL x (some k) c = sliceL x a c := by
  simp only [sliceL_eq, hiIdx_some, loIdx_some]
  generalize loIdx x.length a = lo at *
  generalize hiIdx x.length c = hi at *
  generalize normIdx x.length k = m at *
  have e1 : m = lo + (m - lo) := by omega
  have e2 : hi - lo = (m - lo) + (hi - m) := by omega
  rw [e2, List.take_add, List.drop_drop]
  congr 3 <;> omega

theorem slice_append_slice (s : Str) (a c : Option Int) (k : Int)
    (h1 : loIdx s.length a ≤ normIdx s.length k) (h2 : normIdx s.length k ≤ hiIdx s.length c) :
    slice s a (some k) ++ slice s (some k) c = slice s a c := sliceL_append_sliceL s a c k h1 h2

/-- Python's partition property `s[:k] + s[k:] == s`, for every `k` (also negative) -/
@[simp] theorem sliceL_append_drop {α : Type} (x : List α) (k : Int) :
    sliceL x none (some k) ++ sliceL x (some k) none = x := by
  rw [sliceL_append_sliceL x none none k (by simp) (by simp [normIdx_le]), sliceL_none_none]

@[simp] theorem slice_append_drop (s : Str) (k : Int) : slice s none (some k) ++ slice s (some k) none = s :=
  sliceL_append_drop s k

/-- constant cut points `0 ≤ a ≤ b ≤ c` -/
theorem slice_append_slice_const (s : Str) {a b c : Int} (ha : 0 ≤ a) (hab : a ≤ b) (hbc : b ≤ c) :
    slice s (some a) (some b) ++ slice s (some b) (some c) = slice s (some a) (some c) := by
  apply slice_append_slice
  · simp only [loIdx_some, normIdx_of_nonneg ha, normIdx_of_nonneg (Int.le_trans ha hab)]; omega
  · simp only [hiIdx_some, normIdx_of_nonneg (Int.le_trans ha hab),
      normIdx_of_nonneg (Int.le_trans (Int.le_trans ha hab) hbc)]; omega

theorem slice_none_append_slice_const (s : Str) {b c : Int} (hb : 0 ≤ b) (hbc : b ≤ c) :
    slice s none (some b) ++ slice s (some b) (some c) = slice s none (some c) := by
  apply slice_append_slice
  · simp
  · simp only [hiIdx_some, normIdx_of_nonneg hb, normIdx_of_nonneg (Int.le_trans hb hbc)]; omega

theorem slice_append_slice_none_const (s : Str) {a b : Int} (ha : 0 ≤ a) (hab : a ≤ b) :
    slice s (some a) (some b) ++ slice s (some b) none = slice s (some a) none := by
  apply slice_append_slice
  · simp only [loIdx_some, normIdx_of_nonneg ha, normIdx_of_nonneg (Int.le_trans ha hab)]; omega
  · simp [normIdx_le]

/-- `s[:-k] + s[-k:] == s` and more generally the tail cut at a negative point -/
theorem slice_append_slice_neg (s : Str) {a : Int} {k : Int} (ha : 0 ≤ a) (hk : 0 < k) (h : a + k ≤ s.length) :
    slice s (some a) (some (-k)) ++ slice s (some (-k)) none = slice s (some a) none := by
  apply slice_append_slice
  · simp only [loIdx_some, normIdx_of_nonneg ha, normIdx_of_neg (show -k < 0 by omega), Int.neg_neg]; omega
  · simp [normIdx_le]

/-! ### emptiness -/

theorem sliceL_eq_nil_iff {α : Type} (x : List α) (a b : Option Int) :
    sliceL x a b = [] ↔ hiIdx x.length b ≤ loIdx x.length a := by
  rw [← List.length_eq_zero_iff, sliceL_length]; omega

theorem slice_eq_nil_iff (s : Str) (a b : Option Int) :
    slice s a b = [] ↔ hiIdx s.length b ≤ loIdx s.length a := sliceL_eq_nil_iff s a b

theorem slice_ne_nil (s : Str) {a b : Int} (ha : 0 ≤ a) (hab : a < b) (hs : a < s.length) :
    slice s (some a) (some b) ≠ [] := by
  rw [Ne, slice_eq_nil_iff, hiIdx_some, loIdx_some, normIdx_of_nonneg ha, normIdx_of_nonneg (by omega)]
  omega

theorem slice_none_ne_nil (s : Str) {b : Int} (hb : 0 < b) (hs : s ≠ []) : slice s none (some b) ≠ [] := by
  have : 0 < s.length := List.length_pos_iff.mpr hs
  rw [Ne, slice_eq_nil_iff, hiIdx_some, loIdx_none, normIdx_of_nonneg (by omega)]
  omega

theorem slice_some_none_ne_nil (s : Str) {a : Int} (ha : 0 ≤ a) (hs : a < s.length) : slice s (some a) none ≠ [] := by
  rw [Ne, slice_eq_nil_iff, hiIdx_none, loIdx_some, normIdx_of_nonneg ha]
  omega

theorem slice_neg_none_ne_nil (s : Str) {k : Int} (hk : 0 < k) (hs : s ≠ []) : slice s (some (-k)) none ≠ [] := by
  have : 0 < s.length := List.length_pos_iff.mpr hs
  rw [Ne, slice_eq_nil_iff, hiIdx_none, loIdx_some, normIdx_of_neg (by omega), Int.neg_neg]
  omega

/-- a slice of known positive length is not empty -/
theorem ne_nil_of_length_eq {α : Type} {l : List α} {n : Nat} (h : l.length = n) (hn : 0 < n) : l ≠ [] := by
  intro h'; rw [h'] at h; simp at h; omega

example : slice [1, 2, 3, 4, 5] (some 1) (some (-1)) = [2, 3, 4] := by decide
example (s : Str) (h : s.length = 9) : (slice s (some 2) (some 5)).length = 3 := by
  rw [slice_length_exact s (by omega) (by omega) (by omega)]; rfl
example (s : Str) : (slice s none (some (-1))).length = s.length - 1 := by
  rw [slice_none_neg_length s (by omega)]; rfl
example (s : Str) : (slice s none (some (-1))).length = s.length - 1 := by
  simp [slice_length]



/-! ## `getItem`, `getItemL` -/

/-- `getItemL` with the bounds check made explicit -/
theorem getItemL_eq {α : Type} (x : List α) (i : Int) :
    getItemL x i =
      if h : -(x.length : Int) ≤ i ∧ i < x.length then
        .ok (x[(if i < 0 then (x.length : Int) + i else i).toNat]'(by split <;> omega))
      else raise .indexError := by
  unfold getItemL
  simp only []
  by_cases h : -(x.length : Int) ≤ i ∧ i < x.length
  · rw [dif_pos h]
    have hj : 0 ≤ (if i < 0 then (x.length : Int) + i else i) ∧
        (if i < 0 then (x.length : Int) + i else i) < x.length := by split <;> omega
    rw [if_pos hj, List.getElem?_eq_getElem (by omega)]
  · rw [dif_neg h]
    have hj : ¬ (0 ≤ (if i < 0 then (x.length : Int) + i else i) ∧
        (if i < 0 then (x.length : Int) + i else i) < x.length) := by split <;> omega
    rw [if_neg hj]

theorem getItemL_of_nonneg {α : Type} (x : List α) {i : Int} (h0 : 0 ≤ i) (h : i.toNat < x.length) :
    getItemL x i = .ok x[i.toNat] := by
  rw [getItemL_eq, dif_pos (by omega)]
  simp only [if_neg (show ¬ i < 0 by omega)]

theorem getItemL_of_neg {α : Type} (x : List α) {i : Int} (h0 : i < 0) (h : (-i).toNat ≤ x.length) :
    getItemL x i = .ok (x[x.length - (-i).toNat]'(by omega)) := by
  rw [getItemL_eq, dif_pos (by omega)]
  simp only [if_pos h0]
  congr 2
  omega

theorem getItemL_natCast {α : Type} (x : List α) (k : Nat) (h : k < x.length) : getItemL x (k : Int) = .ok x[k] := by
  rw [getItemL_of_nonneg x (by omega) (by simpa using h)]; simp

theorem getItemL_error {α : Type} (x : List α) (i : Int) (e : Exc) (h : getItemL x i = .error e) : e = .indexError := by
  rw [getItemL_eq] at h
  split at h
  · cases h
  · cases h; rfl

theorem getItemL_ok_iff {α : Type} (x : List α) (i : Int) :
    (∃ v, getItemL x i = .ok v) ↔ -(x.length : Int) ≤ i ∧ i < x.length := by
  rw [getItemL_eq]
  constructor
  · rintro ⟨v, hv⟩
    split at hv
    · assumption
    · cases hv
  · intro h
    rw [dif_pos h]
    exact ⟨_, rfl⟩

theorem getItemL_ok_mem {α : Type} {x : List α} {i : Int} {v : α} (h : getItemL x i = .ok v) : v ∈ x := by
  rw [getItemL_eq] at h
  split at h
  · cases h; exact List.getElem_mem _
  · cases h

theorem getItemL_zero {α : Type} (x : List α) (h : x ≠ []) : getItemL x 0 = .ok (x.head h) := by
  cases x with
  | nil => exact absurd rfl h
  | cons a t => rw [getItemL_of_nonneg _ (by omega) (by simp)]; rfl

theorem getItemL_neg_one {α : Type} (x : List α) (h : x ≠ []) : getItemL x (-1) = .ok (x.getLast h) := by
  have hl : 0 < x.length := List.length_pos_iff.mpr h
  rw [getItemL_of_neg x (by omega) (by simp; omega), List.getLast_eq_getElem]
  congr 1

theorem getItem_eq (s : Str) (i : Int) :
    getItem s i = match getItemL s i with | .ok c => .ok [c] | .error e => .error e := rfl

theorem getItem_of_getItemL {s : Str} {i : Int} {c : Nat} (h : getItemL s i = .ok c) : getItem s i = .ok [c] := by
  rw [getItem_eq, h]

theorem getItem_zero (s : Str) (h : s ≠ []) : getItem s 0 = .ok [s.head h] :=
  getItem_of_getItemL (getItemL_zero s h)

theorem getItem_neg_one (s : Str) (h : s ≠ []) : getItem s (-1) = .ok [s.getLast h] :=
  getItem_of_getItemL (getItemL_neg_one s h)

theorem getItem_of_nonneg (s : Str) {i : Int} (h0 : 0 ≤ i) (h : i.toNat < s.length) :
    getItem s i = .ok [s[i.toNat]] := getItem_of_getItemL (getItemL_of_nonneg s h0 h)

theorem getItem_of_neg (s : Str) {i : Int} (h0 : i < 0) (h : (-i).toNat ≤ s.length) :
    getItem s i = .ok [s[s.length - (-i).toNat]'(by omega)] := getItem_of_getItemL (getItemL_of_neg s h0 h)

theorem getItem_error (s : Str) (i : Int) (e : Exc) (h : getItem s i = .error e) : e = .indexError := by
  rw [getItem_eq] at h
  cases h' : getItemL s i with
  | ok c => rw [h'] at h; cases h
  | error e' => rw [h'] at h; cases h; exact getItemL_error s i _ h'

theorem getItem_ok_iff (s : Str) (i : Int) :
    (∃ v, getItem s i = .ok v) ↔ -(s.length : Int) ≤ i ∧ i < s.length := by
  rw [← getItemL_ok_iff, getItem_eq]
  cases getItemL s i <;> simp

/-- `s[i]` is the one-character slice `s[i:i+1]` (`0 ≤ i`) -/
theorem getItem_eq_slice (s : Str) {i : Int} (h0 : 0 ≤ i) (h : i < s.length) :
    getItem s i = .ok (slice s (some i) (some (i + 1))) := by
  rw [getItem_of_nonneg s h0 (by omega), slice_nonneg_nonneg s h0 (by omega)]
  have e : (i + 1).toNat - i.toNat = 1 := by omega
  rw [e, List.take_one, List.head?_drop, List.getElem?_eq_getElem (by omega)]
  rfl

/-- `s[-k]` is the one-character slice `s[-k:-k+1]` for `k ≥ 2`, and `s[-1:]` for `k = 1` -/
theorem getItem_neg_one_eq_slice (s : Str) (h : s ≠ []) : getItem s (-1) = .ok (slice s (some (-1)) none) := by
  rw [getItem_neg_one s h, slice_neg_none s (by omega)]
  show _ = Except.ok (s.drop (s.length - 1))
  have hl : 0 < s.length := List.length_pos_iff.mpr h
  rw [List.drop_eq_getElem_cons (by omega), List.drop_of_length_le (by omega), List.getLast_eq_getElem]

/-- the character returned by a successful `s[i]` is a character of `s` -/
theorem getItem_ok_mem {s : Str} {i : Int} {r : Str} (h : getItem s i = .ok r) : ∃ c ∈ s, r = [c] := by
  rw [getItem_eq] at h
  cases h' : getItemL s i with
  | error e => rw [h'] at h; cases h
  | ok c =>
    rw [h'] at h; cases h
    exact ⟨c, getItemL_ok_mem h', rfl⟩

theorem getItem_ok_length {s : Str} {i : Int} {r : Str} (h : getItem s i = .ok r) : r.length = 1 := by
  obtain ⟨c, _, rfl⟩ := getItem_ok_mem h; rfl

/-! ## `everyNth`, `sliceStepL` -/

theorem mem_everyNthGo {α : Type} {k : Nat} {c : α} : ∀ {l : List α} {j : Nat}, c ∈ everyNthGo k l j → c ∈ l
  | [], _, h => by simp [everyNthGo] at h
  | a :: t, 0, h => by
    simp only [everyNthGo, List.mem_cons] at h ⊢
    rcases h with h | h
    · exact Or.inl h
    · exact Or.inr (mem_everyNthGo h)
  | a :: t, j + 1, h => by
    simp only [everyNthGo] at h
    exact List.mem_cons_of_mem _ (mem_everyNthGo h)

@[grind →] theorem mem_everyNth {α : Type} {k : Nat} {l : List α} {c : α} (h : c ∈ everyNth k l) : c ∈ l :=
  mem_everyNthGo h

@[grind →] theorem mem_sliceStepL {α : Type} {x : List α} {a b : Option Int} {k : Nat} {c : α}
    (h : c ∈ sliceStepL x a b k) : c ∈ x := mem_sliceL (mem_everyNth h)

@[simp, grind ←] theorem AllIn.everyNth {p : Nat → Bool} {s : Str} (h : AllIn p s) (k : Nat) : AllIn p (Py.everyNth k s) :=
  h.of_subset (fun _ hc => mem_everyNth hc)

@[simp, grind ←] theorem AllIn.sliceStepL {p : Nat → Bool} {s : Str} (h : AllIn p s) (a b : Option Int) (k : Nat) :
    AllIn p (Py.sliceStepL s a b k) := h.of_subset (fun _ hc => mem_sliceStepL hc)

@[simp] theorem everyNth_nil {α : Type} (k : Nat) : everyNth k ([] : List α) = [] := rfl

theorem everyNthGo_length_le {α : Type} (k : Nat) : ∀ (l : List α) (j : Nat), (everyNthGo k l j).length ≤ l.length
  | [], _ => by simp [everyNthGo]
  | a :: t, 0 => by simp only [everyNthGo, List.length_cons]; have := everyNthGo_length_le k t (k - 1); omega
  | a :: t, j + 1 => by simp only [everyNthGo, List.length_cons]; have := everyNthGo_length_le k t j; omega

@[grind .] theorem everyNth_length_le {α : Type} (k : Nat) (l : List α) : (everyNth k l).length ≤ l.length :=
  everyNthGo_length_le k l 0

@[grind .] theorem sliceStepL_length_le {α : Type} (x : List α) (a b : Option Int) (k : Nat) :
    (sliceStepL x a b k).length ≤ x.length :=
  Nat.le_trans (everyNth_length_le k _) (sliceL_length_le x a b)

/-- the old recursive equation -/
theorem everyNthGo_eq_drop {α : Type} (k : Nat) : ∀ (l : List α) (j : Nat), everyNthGo k l j = everyNthGo k (l.drop j) 0
  | [], j => by simp [everyNthGo]
  | a :: t, 0 => rfl
  | a :: t, j + 1 => by rw [everyNthGo, List.drop_succ_cons]; exact everyNthGo_eq_drop k t j

theorem everyNth_cons {α : Type} (k : Nat) (a : α) (t : List α) :
    everyNth k (a :: t) = a :: everyNth k (t.drop (k - 1)) := by
  unfold everyNth
  rw [everyNthGo, everyNthGo_eq_drop]

@[simp] theorem everyNth_one {α : Type} (l : List α) : everyNth 1 l = l := by
  induction l with
  | nil => rfl
  | cons a t ih => rw [everyNth_cons]; simpa using ih

/-- exact length: `⌈(n - j) / k⌉` -/
theorem everyNthGo_length {α : Type} (k : Nat) (hk : 0 < k) :
    ∀ (l : List α) (j : Nat), (everyNthGo k l j).length = (l.length - j + (k - 1)) / k
  | [], j => by
    simp only [everyNthGo, List.length_nil, Nat.zero_sub, Nat.zero_add]
    exact (Nat.div_eq_of_lt (by omega)).symm
  | a :: t, 0 => by
    simp only [everyNthGo, List.length_cons, everyNthGo_length k hk t (k - 1), Nat.sub_zero]
    by_cases h : k - 1 ≤ t.length
    · have e : t.length + 1 + (k - 1) = (t.length - (k - 1) + (k - 1)) + k := by omega
      rw [e, Nat.add_div_right _ hk]
    · have e1 : t.length - (k - 1) = 0 := by omega
      rw [e1, Nat.zero_add, Nat.div_eq_of_lt (by omega)]
      have e : t.length + 1 + (k - 1) = t.length + k := by omega
      rw [e, Nat.add_div_right _ hk, Nat.div_eq_of_lt (by omega)]
  | a :: t, j + 1 => by
    simp only [everyNthGo, List.length_cons, everyNthGo_length k hk t j]
    congr 2
    omega

theorem everyNth_length {α : Type} {k : Nat} (hk : 0 < k) (l : List α) :
    (everyNth k l).length = (l.length + (k - 1)) / k := by
  unfold everyNth; rw [everyNthGo_length k hk]; simp

example : sliceStepL [0, 1, 2, 3, 4, 5, 6] (some 1) none 2 = [1, 3, 5] := by decide
example : (everyNth 3 [0, 1, 2, 3, 4, 5, 6]).length = 3 := by rw [everyNth_length (by omega)]; rfl



/-! ## `enumerate`, `zip3`, `range`, `rangeStep`, `sumInt` -/

@[simp, grind =] theorem enumerate_nil {α : Type} (k : Int) : enumerate ([] : List α) k = [] := rfl
@[simp, grind =] theorem enumerate_cons {α : Type} (a : α) (t : List α) (k : Int) :
    enumerate (a :: t) k = (k, a) :: enumerate t (k + 1) := rfl

@[simp, grind =] theorem enumerate_length {α : Type} (l : List α) (k : Int) : (enumerate l k).length = l.length := by
  induction l generalizing k with
  | nil => rfl
  | cons a t ih => simp [ih]

theorem enumerate_append {α : Type} (l m : List α) (k : Int) :
    enumerate (l ++ m) k = enumerate l k ++ enumerate m (k + l.length) := by
  induction l generalizing k with
  | nil => simp
  | cons a t ih =>
    simp only [List.cons_append, enumerate_cons, ih, List.length_cons, List.cons.injEq, true_and]
    congr 2
    omega

@[simp] theorem enumerate_map_snd {α : Type} (l : List α) (k : Int) : (enumerate l k).map (·.2) = l := by
  induction l generalizing k with
  | nil => rfl
  | cons a t ih => simp [ih]

theorem getElem?_enumerate {α : Type} (l : List α) (k : Int) (i : Nat) :
    (enumerate l k)[i]? = l[i]?.map (fun a => (k + i, a)) := by
  induction l generalizing k i with
  | nil => simp
  | cons a t ih =>
    cases i with
    | zero => simp
    | succ i =>
      simp only [enumerate_cons, List.getElem?_cons_succ, ih]
      cases t[i]? <;> simp
      omega

theorem mem_enumerate_iff {α : Type} {l : List α} {k : Int} {p : Int × α} :
    p ∈ enumerate l k ↔ ∃ i : Nat, p.1 = k + i ∧ l[i]? = some p.2 := by
  induction l generalizing k with
  | nil => simp
  | cons a t ih =>
    simp only [enumerate_cons, List.mem_cons, ih]
    constructor
    · rintro (rfl | ⟨i, h1, h2⟩)
      · exact ⟨0, by simp, by simp⟩
      · exact ⟨i + 1, by rw [h1]; simp; omega, by simpa using h2⟩
    · rintro ⟨i, h1, h2⟩
      cases i with
      | zero =>
        left
        simp at h1 h2
        exact Prod.ext h1 h2.symm
      | succ i =>
        right
        exact ⟨i, by rw [h1]; simp; omega, by simpa using h2⟩

/-- the projection form used by the verification conditions -/
@[grind →] theorem mem_enumerate {α : Type} {l : List α} {k : Int} {p : Int × α} (h : p ∈ enumerate l k) :
    p.2 ∈ l ∧ k ≤ p.1 ∧ p.1 < k + l.length := by
  obtain ⟨i, h1, h2⟩ := mem_enumerate_iff.mp h
  have hi : i < l.length := by
    rcases Nat.lt_or_ge i l.length with h | h
    · exact h
    · rw [List.getElem?_eq_none h] at h2; cases h2
  exact ⟨List.mem_of_getElem? h2, by omega, by omega⟩

theorem mem_enumerate' {α : Type} {l : List α} {k : Int} {i : Int} {a : α} (h : (i, a) ∈ enumerate l k) :
    a ∈ l ∧ k ≤ i ∧ i < k + l.length := mem_enumerate h

@[simp] theorem zip3_nil_left {α β γ : Type} (y : List β) (z : List γ) : zip3 ([] : List α) y z = [] := by
  simp [zip3]

theorem zip3_cons {α β γ : Type} (a : α) (x : List α) (b : β) (y : List β) (c : γ) (z : List γ) :
    zip3 (a :: x) (b :: y) (c :: z) = (a, b, c) :: zip3 x y z := rfl

@[grind →] theorem mem_zip3 {α β γ : Type} {x : List α} {y : List β} {z : List γ} {p : α × β × γ}
    (h : p ∈ zip3 x y z) : p.1 ∈ x ∧ p.2.1 ∈ y ∧ p.2.2 ∈ z := by
  induction x generalizing y z with
  | nil => simp at h
  | cons a x ih =>
    cases y with
    | nil => simp [zip3] at h
    | cons b y =>
      cases z with
      | nil => simp [zip3] at h
      | cons c z =>
        rw [zip3_cons, List.mem_cons] at h
        rcases h with rfl | h
        · simp
        · have := ih h
          simp [this]

theorem zip3_length {α β γ : Type} (x : List α) (y : List β) (z : List γ) :
    (zip3 x y z).length = min x.length (min y.length z.length) := by
  induction x generalizing y z with
  | nil => simp
  | cons a x ih =>
    cases y with
    | nil => simp [zip3]
    | cons b y =>
      cases z with
      | nil => simp [zip3]
      | cons c z => simp only [zip3_cons, List.length_cons, ih]; omega

@[simp, grind =] theorem mem_range {a b i : Int} : i ∈ range a b ↔ a ≤ i ∧ i < b := by
  simp only [range, List.mem_map, List.mem_range]
  constructor
  · rintro ⟨j, hj, rfl⟩; omega
  · intro h; exact ⟨(i - a).toNat, by omega, by omega⟩

@[simp, grind =] theorem range_length (a b : Int) : (range a b).length = (b - a).toNat := by simp [range]

theorem range_eq_nil {a b : Int} (h : b ≤ a) : range a b = [] := by
  have : (b - a).toNat = 0 := by omega
  simp [range, this]

/-- elements of `range(a, b, k)`, `k > 0`: in `[a, b)`, congruent to `a` -/
theorem mem_rangeStep_pos {a b k i : Int} (hk : 0 < k) (h : i ∈ rangeStep a b k) :
    a ≤ i ∧ i < b ∧ ∃ j : Nat, i = a + j * k := by
  unfold rangeStep at h
  rw [if_pos hk] at h
  simp only [List.mem_map, List.mem_range] at h
  obtain ⟨j, hj, rfl⟩ := h
  have h1 : ((j : Int) + 1) ≤ (b - a + k - 1) / k := by omega
  have h2 := (Int.le_ediv_iff_mul_le hk).mp h1
  have h3 : ((j : Int) + 1) * k = j * k + k := by rw [Int.add_mul, Int.one_mul]
  have h4 : 0 ≤ (j : Int) * k := Int.mul_nonneg (by omega) (by omega)
  exact ⟨by omega, by omega, j, rfl⟩

/-- elements of `range(a, b, k)`, `k < 0`: in `(b, a]` -/
theorem mem_rangeStep_neg {a b k i : Int} (hk : k < 0) (h : i ∈ rangeStep a b k) :
    b < i ∧ i ≤ a ∧ ∃ j : Nat, i = a + j * k := by
  unfold rangeStep at h
  rw [if_neg (by omega), if_pos hk] at h
  simp only [List.mem_map, List.mem_range] at h
  obtain ⟨j, hj, rfl⟩ := h
  have hk' : 0 < -k := by omega
  have h1 : ((j : Int) + 1) ≤ (a - b - k - 1) / (-k) := by omega
  have h2 := (Int.le_ediv_iff_mul_le hk').mp h1
  have h3 : ((j : Int) + 1) * (-k) = -(j * k) - k := by
    rw [Int.add_mul, Int.one_mul, Int.mul_neg]; omega
  have h4 : 0 ≤ (j : Int) * (-k) := Int.mul_nonneg (by omega) (by omega)
  rw [Int.mul_neg] at h4
  exact ⟨by omega, by omega, j, rfl⟩

@[grind →] theorem mem_rangeStep {a b k i : Int} (h : i ∈ rangeStep a b k) :
    (0 < k ∧ a ≤ i ∧ i < b) ∨ (k < 0 ∧ b < i ∧ i ≤ a) := by
  rcases Int.lt_trichotomy k 0 with hk | hk | hk
  · right; have := mem_rangeStep_neg hk h; exact ⟨hk, this.1, this.2.1⟩
  · subst hk; simp [rangeStep] at h
  · left; have := mem_rangeStep_pos hk h; exact ⟨hk, this.1, this.2.1⟩

theorem rangeStep_length_pos {a b k : Int} (hk : 0 < k) : (rangeStep a b k).length = ((b - a + k - 1) / k).toNat := by
  simp [rangeStep, hk]

theorem rangeStep_length_neg {a b k : Int} (hk : k < 0) : (rangeStep a b k).length = ((a - b - k - 1) / (-k)).toNat := by
  have : ¬ k > 0 := by omega
  simp [rangeStep, hk, this]

@[simp] theorem sumInt_nil : sumInt [] = 0 := rfl

theorem sumInt_foldl (l : List Int) (acc : Int) : l.foldl (· + ·) acc = acc + sumInt l := by
  unfold sumInt
  induction l generalizing acc with
  | nil => simp
  | cons a t ih => simp only [List.foldl_cons]; rw [ih, ih (0 + a)]; omega

@[simp] theorem sumInt_cons (a : Int) (t : List Int) : sumInt (a :: t) = a + sumInt t := by
  show List.foldl (· + ·) (0 + a) t = _
  rw [sumInt_foldl]; omega

@[simp] theorem sumInt_append (l m : List Int) : sumInt (l ++ m) = sumInt l + sumInt m := by
  induction l with
  | nil => simp
  | cons a t ih => simp [ih]; omega

theorem sumInt_eq_sum (l : List Int) : sumInt l = l.sum := by
  induction l with
  | nil => rfl
  | cons a t ih => simp [ih]

theorem sumInt_nonneg {l : List Int} (h : ∀ x ∈ l, 0 ≤ x) : 0 ≤ sumInt l := by
  induction l with
  | nil => simp
  | cons a t ih =>
    have := h a (by simp)
    have := ih (fun x hx => h x (by simp [hx]))
    simp; omega

/-- a sum of `n` terms each in `[lo, hi]` -/
theorem sumInt_bounds {l : List Int} {lo hi : Int} (h : ∀ x ∈ l, lo ≤ x ∧ x ≤ hi) :
    lo * l.length ≤ sumInt l ∧ sumInt l ≤ hi * l.length := by
  induction l with
  | nil => simp
  | cons a t ih =>
    have ha := h a (by simp)
    have := ih (fun x hx => h x (by simp [hx]))
    simp only [sumInt_cons, List.length_cons, Int.natCast_add, Int.natCast_one, Int.mul_add, Int.mul_one]
    omega

example : enumerate [10, 20, 30] 1 = [(1, 10), (2, 20), (3, 30)] := by decide
example : rangeStep 0 6 2 = [0, 2, 4] := by decide
example : rangeStep (-1) (-7) (-3) = [-1, -4] := by decide
example : 4 ∈ rangeStep 0 6 2 := by decide



/-! ## `chars`, `join` -/

@[simp, grind =] theorem chars_nil : chars [] = [] := rfl
@[simp, grind =] theorem chars_cons (c : Nat) (s : Str) : chars (c :: s) = [c] :: chars s := rfl
@[simp, grind =] theorem chars_append (s t : Str) : chars (s ++ t) = chars s ++ chars t := by simp [chars]
@[simp, grind =] theorem chars_reverse (s : Str) : chars s.reverse = (chars s).reverse := by simp [chars]
@[simp, grind =] theorem chars_length (s : Str) : (chars s).length = s.length := by simp [chars]

@[simp, grind =] theorem mem_chars {x : Str} {s : Str} : x ∈ chars s ↔ ∃ c ∈ s, x = [c] := by
  simp only [chars, List.mem_map]
  constructor
  · rintro ⟨c, hc, rfl⟩; exact ⟨c, hc, rfl⟩
  · rintro ⟨c, hc, rfl⟩; exact ⟨c, hc, rfl⟩

theorem length_of_mem_chars {x : Str} {s : Str} (h : x ∈ chars s) : x.length = 1 := by
  obtain ⟨c, _, rfl⟩ := mem_chars.mp h; rfl

theorem getElem?_chars (s : Str) (i : Nat) : (chars s)[i]? = s[i]?.map (fun c => [c]) := by simp [chars]

theorem chars_take (s : Str) (n : Nat) : chars (s.take n) = (chars s).take n := by simp [chars, List.map_take]
theorem chars_drop (s : Str) (n : Nat) : chars (s.drop n) = (chars s).drop n := by simp [chars, List.map_drop]

@[simp, grind =] theorem join_nil_left (l : List Str) : join [] l = l.flatten := by
  induction l with
  | nil => rfl
  | cons a t ih =>
    cases t with
    | nil => simp [join]
    | cons b t => simp [join, ih]

theorem join_nil (l : List Str) : join [] l = l.flatten := join_nil_left l

@[simp, grind =] theorem flatten_chars (s : Str) : (chars s).flatten = s := by
  induction s with
  | nil => rfl
  | cons a t ih => simp_all [chars]

theorem join_nil_chars (s : Str) : join [] (chars s) = s := by
  rw [join_nil, flatten_chars]

@[simp] theorem join_empty (sep : Str) : join sep [] = [] := rfl
@[simp] theorem join_singleton (sep a : Str) : join sep [a] = a := rfl
theorem join_cons_cons (sep a b : Str) (t : List Str) : join sep (a :: b :: t) = a ++ sep ++ join sep (b :: t) := rfl

theorem join_cons_of_ne_nil (sep a : Str) {t : List Str} (h : t ≠ []) : join sep (a :: t) = a ++ sep ++ join sep t := by
  cases t with
  | nil => exact absurd rfl h
  | cons b t => rfl

@[grind →] theorem mem_join {sep : Str} {l : List Str} {c : Nat} (h : c ∈ join sep l) : c ∈ sep ∨ ∃ x ∈ l, c ∈ x := by
  induction l with
  | nil => simp at h
  | cons a t ih =>
    cases t with
    | nil => exact Or.inr ⟨a, by simp, by simpa using h⟩
    | cons b t =>
      rw [join_cons_cons, List.mem_append, List.mem_append] at h
      rcases h with (h | h) | h
      · exact Or.inr ⟨a, by simp, h⟩
      · exact Or.inl h
      · rcases ih h with h | ⟨x, hx, hc⟩
        · exact Or.inl h
        · exact Or.inr ⟨x, List.mem_cons_of_mem _ hx, hc⟩

/-- `join` only needs the separator when there are at least two parts -/
theorem AllIn.join {p : Nat → Bool} {sep : Str} {l : List Str} (hl : ∀ x ∈ l, AllIn p x)
    (hsep : AllIn p sep ∨ l.length ≤ 1) : AllIn p (Py.join sep l) := by
  rcases hsep with hsep | hlen
  · intro c hc
    rcases mem_join hc with h | ⟨x, hx, hcx⟩
    · exact hsep c h
    · exact hl x hx c hcx
  · match l, hlen, hl with
    | [], _, _ => simp
    | [a], _, hl => simpa using hl a (by simp)
    | _ :: _ :: _, hlen, _ => simp at hlen

theorem join_length (sep : Str) (l : List Str) :
    (join sep l).length = (l.map List.length).sum + (l.length - 1) * sep.length := by
  induction l with
  | nil => simp
  | cons a t ih =>
    cases t with
    | nil => simp
    | cons b t =>
      rw [join_cons_cons, List.length_append, List.length_append, ih]
      simp only [List.map_cons, List.sum_cons, List.length_cons, Nat.add_sub_cancel]
      rw [Nat.add_mul, Nat.one_mul]
      omega

theorem join_ne_nil {sep : Str} {l : List Str} (h : ∃ x ∈ l, x ≠ []) : join sep l ≠ [] := by
  obtain ⟨x, hx, hne⟩ := h
  induction l with
  | nil => simp at hx
  | cons a t ih =>
    cases t with
    | nil => simp at hx; subst hx; simpa using hne
    | cons b t =>
      rw [join_cons_cons]
      rcases List.mem_cons.mp hx with rfl | hx
      · simp [hne]
      · have := ih hx; simp [this]

/-! ## building: `zfill`, `rjust`, `ljust`, `repeatStr` -/

theorem zfill_eq_of_head {s : Str} (w : Int) (h : ∀ c, s.head? = some c → c ≠ 43 ∧ c ≠ 45) :
    zfill s w = List.replicate (w.toNat - s.length) 48 ++ s := by
  unfold zfill
  split
  · exact absurd rfl (h 43 rfl).1
  · exact absurd rfl (h 45 rfl).2
  · rfl

theorem zfill_of_digits {s : Str} (h : AllIn isAsciiDigit s) (w : Int) :
    zfill s w = List.replicate (w.toNat - s.length) 48 ++ s := by
  apply zfill_eq_of_head
  intro c hc
  have := h c (List.mem_of_mem_head? hc)
  simp only [isAsciiDigit, Bool.and_eq_true, decide_eq_true_eq] at this
  omega

@[simp] theorem zfill_nil (w : Int) : zfill [] w = List.replicate w.toNat 48 := by
  rw [zfill_eq_of_head w (by simp)]; simp

theorem zfill_eq_self {s : Str} {w : Int} (h : w ≤ s.length) : zfill s w = s := by
  have e : w.toNat - s.length = 0 := by omega
  unfold zfill
  simp only [e, List.replicate_zero, List.nil_append]
  split <;> rfl

@[simp, grind =] theorem zfill_length (s : Str) (w : Int) : (zfill s w).length = max s.length w.toNat := by
  unfold zfill
  split <;> simp <;> omega

@[grind →] theorem mem_zfill {s : Str} {w : Int} {c : Nat} (h : c ∈ zfill s w) : c ∈ s ∨ c = 48 := by
  unfold zfill at h
  split at h
  · simp only [List.mem_cons, List.mem_append, List.mem_replicate] at h ⊢
    rcases h with h | ⟨_, h⟩ | h
    · exact Or.inl (Or.inl h)
    · exact Or.inr h
    · exact Or.inl (Or.inr h)
  · simp only [List.mem_cons, List.mem_append, List.mem_replicate] at h ⊢
    rcases h with h | ⟨_, h⟩ | h
    · exact Or.inl (Or.inl h)
    · exact Or.inr h
    · exact Or.inl (Or.inr h)
  · simp only [List.mem_append, List.mem_replicate] at h
    rcases h with ⟨_, h⟩ | h
    · exact Or.inr h
    · exact Or.inl h

/-- `zfill` keeps a leading sign, so nothing but `'0'` is added -/
theorem AllIn.zfill {p : Nat → Bool} {s : Str} (h : AllIn p s) (h0 : p 48 = true) (w : Int) : AllIn p (Py.zfill s w) := by
  intro c hc
  rcases mem_zfill hc with h' | rfl
  · exact h c h'
  · exact h0

theorem zfill_ne_nil {s : Str} {w : Int} (h : s ≠ [] ∨ 0 < w) : zfill s w ≠ [] := by
  apply ne_nil_of_length_eq (zfill_length s w)
  rcases h with h | h
  · have := List.length_pos_iff.mpr h; omega
  · omega

theorem rjust_length (s : Str) (w : Int) (fill : Str) : (rjust s w fill).length = max s.length w.toNat := by
  simp [rjust]; omega

theorem ljust_length (s : Str) (w : Int) (fill : Str) : (ljust s w fill).length = max s.length w.toNat := by
  simp [ljust]; omega

@[grind →] theorem mem_rjust {s fill : Str} {w : Int} {c : Nat} (h : c ∈ rjust s w fill) : c ∈ s ∨ c = fill.headD 32 := by
  simp only [rjust, List.mem_append, List.mem_replicate] at h
  rcases h with ⟨_, h⟩ | h
  · exact Or.inr h
  · exact Or.inl h

@[grind →] theorem mem_ljust {s fill : Str} {w : Int} {c : Nat} (h : c ∈ ljust s w fill) : c ∈ s ∨ c = fill.headD 32 := by
  simp only [ljust, List.mem_append, List.mem_replicate] at h
  rcases h with h | ⟨_, h⟩
  · exact Or.inl h
  · exact Or.inr h

theorem AllIn.rjust {p : Nat → Bool} {s : Str} (h : AllIn p s) {fill : Str} (hf : p (fill.headD 32) = true) (w : Int) :
    AllIn p (Py.rjust s w fill) := by
  intro c hc
  rcases mem_rjust hc with h' | rfl
  · exact h c h'
  · exact hf

theorem AllIn.ljust {p : Nat → Bool} {s : Str} (h : AllIn p s) {fill : Str} (hf : p (fill.headD 32) = true) (w : Int) :
    AllIn p (Py.ljust s w fill) := by
  intro c hc
  rcases mem_ljust hc with h' | rfl
  · exact h c h'
  · exact hf

theorem rjust_eq_self {s fill : Str} {w : Int} (h : w ≤ s.length) : rjust s w fill = s := by
  have e : w.toNat - s.length = 0 := by omega
  simp [rjust, e]

theorem ljust_eq_self {s fill : Str} {w : Int} (h : w ≤ s.length) : ljust s w fill = s := by
  have e : w.toNat - s.length = 0 := by omega
  simp [ljust, e]

@[grind →] theorem mem_repeatStr {s : Str} {n : Int} {c : Nat} (h : c ∈ repeatStr s n) : c ∈ s := by
  simp only [repeatStr, List.mem_flatten, List.mem_replicate] at h
  obtain ⟨l, ⟨_, rfl⟩, hc⟩ := h
  exact hc

@[simp, grind ←] theorem AllIn.repeatStr {p : Nat → Bool} {s : Str} (h : AllIn p s) (n : Int) : AllIn p (Py.repeatStr s n) :=
  h.of_subset (fun _ hc => mem_repeatStr hc)

@[simp] theorem repeatStr_length (s : Str) (n : Int) : (repeatStr s n).length = n.toNat * s.length := by
  simp [repeatStr, List.length_flatten]

theorem repeatStr_single (c : Nat) (n : Int) : repeatStr [c] n = List.replicate n.toNat c := by
  unfold repeatStr
  induction n.toNat with
  | zero => rfl
  | succ k ih => simp [List.replicate_succ, ih]

/-! ## `replace` -/

theorem mem_replaceGo {old new : Str} {c : Nat} :
    ∀ {x : Str} {k : Nat}, c ∈ replaceGo old new x k → c ∈ x ∨ c ∈ new
  | [], _, h => by simp [replaceGo] at h
  | a :: t, 0, h => by
    rw [replaceGo] at h
    split at h
    · rcases List.mem_append.mp h with h | h
      · exact Or.inr h
      · rcases mem_replaceGo h with h | h
        · exact Or.inl (List.mem_cons_of_mem _ h)
        · exact Or.inr h
    · rcases List.mem_cons.mp h with rfl | h
      · exact Or.inl (by simp)
      · rcases mem_replaceGo h with h | h
        · exact Or.inl (List.mem_cons_of_mem _ h)
        · exact Or.inr h
  | a :: t, k + 1, h => by
    rw [replaceGo] at h
    rcases mem_replaceGo h with h | h
    · exact Or.inl (List.mem_cons_of_mem _ h)
    · exact Or.inr h

@[grind →] theorem mem_replace {x old new : Str} {c : Nat} (h : c ∈ replace x old new) : c ∈ x ∨ c ∈ new := by
  unfold replace at h
  split at h
  · simp only [List.mem_append, List.mem_flatten, List.mem_map] at h
    rcases h with h | ⟨l, ⟨a, ha, rfl⟩, hc⟩
    · exact Or.inr h
    · rcases List.mem_cons.mp hc with rfl | hc
      · exact Or.inl ha
      · exact Or.inr hc
  · exact mem_replaceGo h

theorem AllIn.replace {p : Nat → Bool} {x : Str} (hx : AllIn p x) {new : Str} (hn : AllIn p new) (old : Str) :
    AllIn p (Py.replace x old new) := by
  intro c hc
  rcases mem_replace hc with h | h
  · exact hx c h
  · exact hn c h

/-- replacing a single character -/
theorem replace_single (x : Str) (c : Nat) (new : Str) :
    replace x [c] new = x.flatMap (fun a => if a == c then new else [a]) := by
  unfold replace
  simp only [List.isEmpty_cons, Bool.false_eq_true, if_false]
  induction x with
  | nil => rfl
  | cons a t ih =>
    rw [replaceGo, List.flatMap_cons, ← ih]
    by_cases h : a = c
    · subst h; simp [List.isPrefixOf]
    · have : (c == a) = false := by simpa using fun h' => h h'.symm
      simp [List.isPrefixOf, this, h]

/-- `x.replace(c, '')` deletes the character -/
theorem replace_single_nil (x : Str) (c : Nat) : replace x [c] [] = x.filter (fun a => a != c) := by
  rw [replace_single]
  induction x with
  | nil => rfl
  | cons a t ih =>
    rw [List.flatMap_cons, ih, List.filter_cons]
    by_cases h : a = c <;> simp [h]

theorem replace_length_le_of_nil (x old : Str) (h : old ≠ []) : (replace x old []).length ≤ x.length := by
  unfold replace
  have : old.isEmpty = false := by cases old <;> simp_all
  simp only [this, Bool.false_eq_true, if_false]
  suffices ∀ (x : Str) (k : Nat), (replaceGo old [] x k).length ≤ x.length from this x 0
  intro x
  induction x with
  | nil => intro k; simp [replaceGo]
  | cons a t ih =>
    intro k
    cases k with
    | zero =>
      rw [replaceGo]
      split
      · have := ih (old.length - 1); simp; omega
      · have := ih 0; simp; omega
    | succ k => rw [replaceGo]; have := ih k; simp; omega

theorem replace_nil (old new : Str) (h : old ≠ []) : replace [] old new = [] := by
  unfold replace
  have : old.isEmpty = false := by cases old <;> simp_all
  simp [this, replaceGo]

example : replace [49, 45, 50, 45] [45] [] = [49, 50] := by decide
example : replace [1, 1, 1] [1, 1] [7] = [7, 1] := by decide
example : zfill [45, 53] 4 = [45, 48, 48, 53] := by decide

/-! ## digit strings -/

/-- non-empty and ASCII digits only -/
def IsDigits (s : Str) : Prop := s ≠ [] ∧ AllIn isAsciiDigit s

def isDigitsB (s : Str) : Bool := !s.isEmpty && s.all isAsciiDigit

theorem isDigitsB_iff (s : Str) : isDigitsB s = true ↔ IsDigits s := by
  unfold isDigitsB IsDigits AllIn
  cases s <;> simp

instance (s : Str) : Decidable (IsDigits s) := decidable_of_iff _ (isDigitsB_iff s)

theorem isDigitsB_eq_false_iff (s : Str) : isDigitsB s = false ↔ ¬ IsDigits s := by
  rw [← isDigitsB_iff]; simp

theorem IsDigits.ne_nil {s : Str} (h : IsDigits s) : s ≠ [] := h.1
theorem IsDigits.allIn {s : Str} (h : IsDigits s) : AllIn isAsciiDigit s := h.2
theorem IsDigits.length_pos {s : Str} (h : IsDigits s) : 0 < s.length := List.length_pos_iff.mpr h.1
theorem IsDigits.mk' {s : Str} (h : AllIn isAsciiDigit s) (hl : 0 < s.length) : IsDigits s :=
  ⟨List.length_pos_iff.mp hl, h⟩
theorem isDigits_iff_length {s : Str} : IsDigits s ↔ 0 < s.length ∧ AllIn isAsciiDigit s := by
  unfold IsDigits; rw [List.length_pos_iff]

@[simp] theorem not_isDigits_nil : ¬ IsDigits [] := fun h => h.1 rfl
@[simp] theorem isDigits_singleton {c : Nat} : IsDigits [c] ↔ isAsciiDigit c = true := by
  simp [IsDigits]
theorem isDigits_cons {c : Nat} {s : Str} : IsDigits (c :: s) ↔ isAsciiDigit c = true ∧ AllIn isAsciiDigit s := by
  simp [IsDigits]

theorem IsDigits.append {s t : Str} (hs : IsDigits s) (ht : AllIn isAsciiDigit t) : IsDigits (s ++ t) :=
  ⟨by simp [hs.1], AllIn.append hs.2 ht⟩
theorem IsDigits.append_left {s t : Str} (hs : AllIn isAsciiDigit s) (ht : IsDigits t) : IsDigits (s ++ t) :=
  ⟨by simp [ht.1], AllIn.append hs ht.2⟩

theorem IsDigits.zfill {s : Str} (h : IsDigits s) (w : Int) : IsDigits (Py.zfill s w) :=
  ⟨zfill_ne_nil (Or.inl h.1), h.2.zfill rfl w⟩

/-- a digit string of known length: slices with constant bounds inside it are digit strings -/
theorem IsDigits.slice {s : Str} (h : AllIn isAsciiDigit s) {a b : Option Int}
    (hne : loIdx s.length a < hiIdx s.length b) : IsDigits (Py.slice s a b) :=
  ⟨by rw [Ne, slice_eq_nil_iff]; omega, h.slice a b⟩

theorem isAsciiDigit_iff {c : Nat} : isAsciiDigit c = true ↔ 48 ≤ c ∧ c ≤ 57 := by simp

theorem isAsciiDigit_lt_128 {c : Nat} (h : isAsciiDigit c = true) : c < 128 := by
  simp at h; omega

example : IsDigits [49, 50, 51] := by decide
example : ¬ IsDigits [49, 65] := by decide



/-! ## searching -/

theorem isPrefixOf_iff {p s : Str} : p.isPrefixOf s = true ↔ ∃ t, s = p ++ t := by
  rw [List.isPrefixOf_iff_prefix]
  constructor
  · rintro ⟨t, rfl⟩; exact ⟨t, rfl⟩
  · rintro ⟨t, rfl⟩; exact ⟨t, rfl⟩

theorem isSuffixOf_iff {p s : Str} : p.isSuffixOf s = true ↔ ∃ t, s = t ++ p := by
  rw [List.isSuffixOf_iff_suffix]
  constructor
  · rintro ⟨t, rfl⟩; exact ⟨t, rfl⟩
  · rintro ⟨t, rfl⟩; exact ⟨t, rfl⟩

theorem startswith_iff {s p : Str} : startswith s p = true ↔ ∃ t, s = p ++ t := isPrefixOf_iff
theorem endswith_iff {s p : Str} : endswith s p = true ↔ ∃ t, s = t ++ p := isSuffixOf_iff

@[simp] theorem startswith_nil (s : Str) : startswith s [] = true := by simp [startswith]
@[simp] theorem endswith_nil (s : Str) : endswith s [] = true := by simp [endswith]

theorem startswith_length_le {s p : Str} (h : startswith s p = true) : p.length ≤ s.length := by
  obtain ⟨t, rfl⟩ := startswith_iff.mp h; simp

theorem endswith_length_le {s p : Str} (h : endswith s p = true) : p.length ≤ s.length := by
  obtain ⟨t, rfl⟩ := endswith_iff.mp h; simp

theorem startswith_eq_take {s p : Str} : startswith s p = true ↔ s.take p.length = p ∧ p.length ≤ s.length := by
  rw [startswith_iff]
  constructor
  · rintro ⟨t, rfl⟩; simp
  · rintro ⟨h, _⟩; exact ⟨s.drop p.length, by rw [← h, List.length_take, Nat.min_eq_left ‹_›, List.take_append_drop]⟩

/-- the rest of the string after a prefix -/
theorem slice_of_startswith {s p : Str} (h : startswith s p = true) :
    s = p ++ slice s (some (p.length : Int)) none := by
  obtain ⟨t, rfl⟩ := startswith_iff.mp h
  rw [slice_nonneg_none _ (by omega)]
  simp

theorem slice_of_startswith' {s p t : Str} (h : s = p ++ t) : slice s (some (p.length : Int)) none = t := by
  subst h
  rw [slice_nonneg_none _ (by omega)]
  simp

theorem slice_startswith_prefix {s p : Str} (h : startswith s p = true) :
    slice s none (some (p.length : Int)) = p := by
  obtain ⟨t, rfl⟩ := startswith_iff.mp h
  rw [slice_none_nonneg _ (by omega)]
  simp

theorem startswith_slice_prefix (s : Str) (k : Int) : startswith s (slice s none (some k)) = true := by
  rw [startswith_iff]
  exact ⟨slice s (some k) none, (slice_append_drop s k).symm⟩

theorem startswithAny_iff {s : Str} {ps : List Str} : startswithAny s ps = true ↔ ∃ p ∈ ps, startswith s p = true := by
  simp [startswithAny]

theorem endswithAny_iff {s : Str} {ps : List Str} : endswithAny s ps = true ↔ ∃ p ∈ ps, endswith s p = true := by
  simp [endswithAny]

/-! ### `strIn` -/

@[simp] theorem strIn_nil_right (sub : Str) : strIn sub [] = sub.isEmpty := rfl

theorem strIn_cons (sub : Str) (c : Nat) (t : Str) :
    strIn sub (c :: t) = (sub.isPrefixOf (c :: t) || strIn sub t) := rfl

@[simp, grind =] theorem strIn_nil (x : Str) : strIn [] x = true := by
  cases x <;> simp [strIn_cons]

@[simp, grind =] theorem strIn_single (c : Nat) (d : Str) : strIn [c] d = d.contains c := by
  induction d with
  | nil => rfl
  | cons a t ih =>
    rw [strIn_cons, ih]
    by_cases h : c = a <;> simp [List.isPrefixOf, h]

theorem strIn_single_iff {c : Nat} {d : Str} : strIn [c] d = true ↔ c ∈ d := by simp

/-- `sub in x` ⇔ `x = a + sub + b` -/
theorem strIn_iff {sub x : Str} : strIn sub x = true ↔ ∃ a b, x = a ++ sub ++ b := by
  induction x with
  | nil =>
    simp only [strIn_nil_right, List.isEmpty_iff]
    constructor
    · rintro rfl; exact ⟨[], [], rfl⟩
    · rintro ⟨a, b, h⟩
      have := congrArg List.length h
      simp at this
      exact List.eq_nil_of_length_eq_zero (by omega)
  | cons c t ih =>
    rw [strIn_cons, Bool.or_eq_true, ih, isPrefixOf_iff]
    constructor
    · rintro (⟨b, h⟩ | ⟨a, b, h⟩)
      · exact ⟨[], b, by simpa using h⟩
      · exact ⟨c :: a, b, by simp [h]⟩
    · rintro ⟨a, b, h⟩
      cases a with
      | nil => exact Or.inl ⟨b, by simpa using h⟩
      | cons a0 a =>
        simp only [List.cons_append, List.cons.injEq] at h
        exact Or.inr ⟨a, b, h.2⟩

theorem strIn_length_le {sub x : Str} (h : strIn sub x = true) : sub.length ≤ x.length := by
  obtain ⟨a, b, rfl⟩ := strIn_iff.mp h; simp; omega

theorem strIn_self (x : Str) : strIn x x = true := strIn_iff.mpr ⟨[], [], by simp⟩

theorem strIn_of_startswith {s p : Str} (h : startswith s p = true) : strIn p s = true := by
  obtain ⟨t, rfl⟩ := startswith_iff.mp h; exact strIn_iff.mpr ⟨[], t, by simp⟩

theorem mem_of_strIn {sub x : Str} (h : strIn sub x = true) {c : Nat} (hc : c ∈ sub) : c ∈ x := by
  obtain ⟨a, b, rfl⟩ := strIn_iff.mp h; simp [hc]

/-- a one-character string (as produced by `getItem` / `chars`) is `in d` iff its character is -/
theorem strIn_of_length_one {x d : Str} (h : x.length = 1) : strIn x d = d.contains (x.head (by intro h'; simp [h'] at h)) := by
  match x, h with
  | [c], _ => simp

/-! ### `findAux`, `findFrom`, `find`, `index` -/

theorem findAux_some {sub : Str} : ∀ {x : Str} {off i : Nat}, findAux sub x off = some i →
    off ≤ i ∧ i + sub.length ≤ off + x.length ∧ sub.isPrefixOf (x.drop (i - off)) = true
  | [], off, i, h => by
    simp only [findAux] at h
    split at h
    · next he => cases h; simp_all
    · cases h
  | c :: t, off, i, h => by
    rw [findAux] at h
    split at h
    · next hp =>
      cases h
      have := startswith_length_le (s := c :: t) hp
      refine ⟨Nat.le_refl _, by simp at this ⊢; omega, by simpa using hp⟩
    · have ⟨h1, h2, h3⟩ := findAux_some h
      have e : i - off = (i - (off + 1)) + 1 := by omega
      rw [e, List.drop_succ_cons]
      simp only [List.length_cons]
      exact ⟨by omega, by omega, h3⟩

theorem findAux_isSome (sub : Str) : ∀ (x : Str) (off : Nat), (findAux sub x off).isSome = strIn sub x
  | [], off => by simp only [findAux, strIn_nil_right]; split <;> simp_all
  | c :: t, off => by
    rw [findAux, strIn_cons]
    split
    · next h => simp [h]
    · next h => rw [findAux_isSome sub t]; simp [h]

/-- the first occurrence: no earlier position matches -/
theorem findAux_first {sub : Str} : ∀ {x : Str} {off i : Nat}, findAux sub x off = some i →
    ∀ j, j < i - off → sub.isPrefixOf (x.drop j) = false
  | [], off, i, h, j, hj => by
    simp only [findAux] at h
    split at h
    · cases h; omega
    · cases h
  | c :: t, off, i, h, j, hj => by
    rw [findAux] at h
    split at h
    · cases h; omega
    · next hp =>
      cases j with
      | zero => rw [List.drop_zero]; exact Bool.eq_false_iff.mpr hp
      | succ j =>
        rw [List.drop_succ_cons]
        have := (findAux_some h).1
        exact findAux_first h j (by omega)

@[simp] theorem findFrom_zero (x sub : Str) : findFrom x sub 0 = findAux sub x 0 := by
  simp [findFrom]

theorem findFrom_isSome_zero (x sub : Str) : (findFrom x sub 0).isSome = strIn sub x := by
  rw [findFrom_zero, findAux_isSome]

theorem findFrom_some {x sub : Str} {start i : Nat} (h : findFrom x sub start = some i) :
    start ≤ i ∧ i + sub.length ≤ x.length ∧ sub.isPrefixOf (x.drop i) = true := by
  unfold findFrom at h
  split at h
  · next hs =>
    have ⟨h1, h2, h3⟩ := findAux_some h
    rw [List.length_drop] at h2
    rw [List.drop_drop] at h3
    have e : start + (i - start) = i := by omega
    rw [e] at h3
    exact ⟨h1, by omega, h3⟩
  · cases h

theorem find_eq (x sub : Str) : find x sub = match findAux sub x 0 with | some i => (i : Int) | none => -1 := by
  simp only [find, findFrom_zero]
  cases findAux sub x 0 <;> rfl

theorem find_of_not_strIn {x sub : Str} (h : strIn sub x = false) : find x sub = -1 := by
  have := findAux_isSome sub x 0
  rw [h] at this
  rw [find_eq]
  cases h' : findAux sub x 0 <;> simp_all

theorem find_bounds (x sub : Str) : -1 ≤ find x sub ∧ find x sub + sub.length ≤ x.length ∨ find x sub = -1 := by
  rw [find_eq]
  cases h : findAux sub x 0 with
  | none => right; rfl
  | some i =>
    left
    have := findAux_some h
    simp only []
    omega

theorem find_of_strIn {x sub : Str} (h : strIn sub x = true) :
    0 ≤ find x sub ∧ find x sub + sub.length ≤ x.length := by
  have hs := findAux_isSome sub x 0
  rw [h] at hs
  rw [find_eq]
  cases h' : findAux sub x 0 with
  | none => rw [h'] at hs; cases hs
  | some i =>
    have := findAux_some h'
    simp only []
    omega

theorem find_nonneg_iff {x sub : Str} : 0 ≤ find x sub ↔ strIn sub x = true := by
  constructor
  · intro h
    cases hs : strIn sub x with
    | true => rfl
    | false => rw [find_of_not_strIn hs] at h; omega
  · intro h; exact (find_of_strIn h).1

theorem index_eq (x sub : Str) :
    index x sub = match findAux sub x 0 with | some i => .ok (i : Int) | none => raise .valueError := by
  simp only [index, findFrom_zero]
  cases findAux sub x 0 <;> rfl

/-- pure form of the `index` contract -/
theorem index_of_strIn {x sub : Str} (h : strIn sub x = true) :
    ∃ i : Nat, index x sub = .ok (i : Int) ∧ i + sub.length ≤ x.length ∧ sub.isPrefixOf (x.drop i) = true ∧
      ∀ j, j < i → sub.isPrefixOf (x.drop j) = false := by
  have hs := findAux_isSome sub x 0
  rw [h] at hs
  rw [index_eq]
  cases h' : findAux sub x 0 with
  | none => rw [h'] at hs; cases hs
  | some i =>
    have ⟨_, h2, h3⟩ := findAux_some h'
    exact ⟨i, rfl, by omega, by simpa using h3, fun j hj => findAux_first h' j (by omega)⟩

theorem index_of_not_strIn {x sub : Str} (h : strIn sub x = false) : index x sub = .error .valueError := by
  have hs := findAux_isSome sub x 0
  rw [h] at hs
  rw [index_eq]
  cases h' : findAux sub x 0 with
  | none => rfl
  | some i => rw [h'] at hs; cases hs

theorem index_error {x sub : Str} {e : Exc} (h : index x sub = .error e) : e = .valueError := by
  rw [index_eq] at h
  cases h' : findAux sub x 0 with
  | none => rw [h'] at h; cases h; rfl
  | some i => rw [h'] at h; cases h

theorem index_ok {x sub : Str} {i : Int} (h : index x sub = .ok i) :
    strIn sub x = true ∧ 0 ≤ i ∧ i + sub.length ≤ x.length ∧ sub.isPrefixOf (x.drop i.toNat) = true := by
  cases hs : strIn sub x with
  | false => rw [index_of_not_strIn hs] at h; cases h
  | true =>
    obtain ⟨k, hk, h1, h2, _⟩ := index_of_strIn hs
    rw [hk] at h; cases h
    exact ⟨rfl, by omega, by omega, by simpa using h2⟩

/-- single character: the result indexes an occurrence of `c` -/
theorem index_single_of_mem {x : Str} {c : Nat} (h : c ∈ x) :
    ∃ i : Nat, index x [c] = .ok (i : Int) ∧ i < x.length ∧ x[i]? = some c := by
  obtain ⟨i, hi, h1, h2, _⟩ := index_of_strIn (strIn_single_iff.mpr h)
  refine ⟨i, hi, by simp at h1; omega, ?_⟩
  obtain ⟨t, ht⟩ := isPrefixOf_iff.mp h2
  have := congrArg (·[0]?) ht
  simpa using this

theorem index_single_ok {x : Str} {c : Nat} {i : Int} (h : index x [c] = .ok i) :
    c ∈ x ∧ 0 ≤ i ∧ i < x.length ∧ x[i.toNat]? = some c := by
  have ⟨h1, h2, h3, h4⟩ := index_ok h
  refine ⟨strIn_single_iff.mp h1, h2, by simp at h3; omega, ?_⟩
  obtain ⟨t, ht⟩ := isPrefixOf_iff.mp h4
  have := congrArg (·[0]?) ht
  simpa using this

/-! ### `indexL` -/

theorem indexL_of_mem {α : Type} [BEq α] [LawfulBEq α] {l : List α} {v : α} (h : v ∈ l) :
    ∃ i : Nat, indexL l v = .ok (i : Int) ∧ i < l.length ∧ l[i]? = some v := by
  unfold indexL
  cases hf : l.findIdx? (· == v) with
  | none =>
    rw [List.findIdx?_eq_none_iff] at hf
    have := hf v h
    simp at this
  | some i =>
    rw [List.findIdx?_eq_some_iff_getElem] at hf
    obtain ⟨hi, hv, _⟩ := hf
    refine ⟨i, rfl, hi, ?_⟩
    rw [List.getElem?_eq_getElem hi]
    simpa using hv

theorem indexL_of_contains {α : Type} [BEq α] [LawfulBEq α] {l : List α} {v : α} (h : l.contains v = true) :
    ∃ i : Nat, indexL l v = .ok (i : Int) ∧ i < l.length ∧ l[i]? = some v :=
  indexL_of_mem (by simpa using h)

theorem indexL_error {α : Type} [BEq α] {l : List α} {v : α} {e : Exc} (h : indexL l v = .error e) : e = .valueError := by
  unfold indexL at h
  cases hf : l.findIdx? (· == v) with
  | none => rw [hf] at h; cases h; rfl
  | some i => rw [hf] at h; cases h

/-! ### `count` -/

theorem count_nonneg (x sub : Str) : 0 ≤ count x sub := by
  unfold count; split <;> omega

theorem countGo_le (sub : Str) : ∀ (x : Str) (k : Nat), countGo sub x k ≤ x.length
  | [], _ => by simp [countGo]
  | c :: t, 0 => by
    rw [countGo]; split
    · have := countGo_le sub t (sub.length - 1); simp; omega
    · have := countGo_le sub t 0; simp; omega
  | c :: t, k + 1 => by rw [countGo]; have := countGo_le sub t k; simp; omega

theorem count_le (x sub : Str) : count x sub ≤ x.length + 1 := by
  unfold count; split
  · omega
  · have := countGo_le sub x 0; omega

theorem countGo_pos_imp (sub : Str) : ∀ (x : Str), 0 < countGo sub x 0 → strIn sub x = true
  | [], h => by simp [countGo] at h
  | c :: t, h => by
    rw [countGo] at h
    rw [strIn_cons]
    split at h
    · next hp => simp [hp]
    · simp [countGo_pos_imp sub t h]

theorem count_single (x : Str) (c : Nat) : count x [c] = (x.count c : Nat) := by
  unfold count
  simp only [List.isEmpty_cons, Bool.false_eq_true, if_false]
  congr 1
  induction x with
  | nil => rfl
  | cons a t ih =>
    rw [countGo, List.count_cons]
    by_cases h : a = c
    · subst h; simp [List.isPrefixOf, ih]
    · have : (c == a) = false := by simpa using fun h' => h h'.symm
      simp [List.isPrefixOf, this, h, ih]

example : count [1, 1, 1, 1, 1] [1, 1] = 2 := by decide
example : index [65, 66, 67] [66] = .ok 1 := rfl
example : strIn [66, 67] [65, 66, 67] = true := by decide



/-! ## `splitOn`, `rsplitOn` -/

theorem splitGo_ne_nil (sep : Str) : ∀ (x : Str) (k : Nat) (cur : Str) (left : Option Nat), splitGo sep x k cur left ≠ []
  | [], _, _, _ => by simp [splitGo]
  | c :: t, 0, cur, left => by
    rw [splitGo]; split
    · simp
    · exact splitGo_ne_nil sep t 0 _ _
  | c :: t, k + 1, cur, left => by rw [splitGo]; exact splitGo_ne_nil sep t k _ _

theorem mem_splitGo {sep : Str} {p : Str} : ∀ {x : Str} {k : Nat} {cur : Str} {left : Option Nat},
    p ∈ splitGo sep x k cur left → ∀ c ∈ p, c ∈ x ∨ c ∈ cur
  | [], _, cur, _, h, c, hc => by
    simp only [splitGo, List.mem_singleton] at h
    subst h
    exact Or.inr (List.mem_reverse.mp hc)
  | a :: t, 0, cur, left, h, c, hc => by
    rw [splitGo] at h
    split at h
    · rcases List.mem_cons.mp h with rfl | h
      · exact Or.inr (List.mem_reverse.mp hc)
      · rcases mem_splitGo h c hc with h' | h'
        · exact Or.inl (List.mem_cons_of_mem _ h')
        · simp at h'
    · rcases mem_splitGo h c hc with h' | h'
      · exact Or.inl (List.mem_cons_of_mem _ h')
      · rcases List.mem_cons.mp h' with rfl | h'
        · exact Or.inl (by simp)
        · exact Or.inr h'
  | a :: t, k + 1, cur, left, h, c, hc => by
    rw [splitGo] at h
    rcases mem_splitGo h c hc with h' | h'
    · exact Or.inl (List.mem_cons_of_mem _ h')
    · exact Or.inr h'

theorem splitGo_length_le (sep : Str) : ∀ (x : Str) (k : Nat) (cur : Str) (m : Nat),
    (splitGo sep x k cur (some m)).length ≤ m + 1
  | [], _, _, _ => by simp [splitGo]
  | c :: t, 0, cur, m => by
    rw [splitGo]; split
    · next h =>
      cases m with
      | zero => simp at h
      | succ m =>
        have := splitGo_length_le sep t (sep.length - 1) [] m
        simp only [Option.map_some, Nat.add_sub_cancel, List.length_cons]
        omega
    · exact splitGo_length_le sep t 0 _ m
  | c :: t, k + 1, cur, m => by rw [splitGo]; exact splitGo_length_le sep t k _ m

theorem splitGo_length_le_length (sep : Str) : ∀ (x : Str) (k : Nat) (cur : Str) (left : Option Nat),
    (splitGo sep x k cur left).length ≤ x.length + 1
  | [], _, _, _ => by simp [splitGo]
  | c :: t, 0, cur, left => by
    rw [splitGo]; split
    · have := splitGo_length_le_length sep t (sep.length - 1) [] (left.map (· - 1)); simp; omega
    · have := splitGo_length_le_length sep t 0 (c :: cur) left; simp; omega
  | c :: t, k + 1, cur, left => by
    rw [splitGo]; have := splitGo_length_le_length sep t k cur left; simp; omega

theorem join_splitGo {sep : Str} (hsep : sep ≠ []) : ∀ (x : Str) (k : Nat) (cur : Str) (left : Option Nat),
    join sep (splitGo sep x k cur left) = cur.reverse ++ x.drop k
  | [], _, cur, _ => by simp [splitGo]
  | c :: t, 0, cur, left => by
    rw [splitGo]; split
    · next h =>
      simp only [Bool.and_eq_true] at h
      obtain ⟨t', ht'⟩ := isPrefixOf_iff.mp h.2
      rw [join_cons_of_ne_nil _ _ (splitGo_ne_nil _ _ _ _ _), join_splitGo hsep]
      match sep, hsep, ht' with
      | s0 :: sep', _, ht' =>
        simp only [List.cons_append, List.cons.injEq] at ht'
        obtain ⟨rfl, rfl⟩ := ht'
        simp
    · rw [join_splitGo hsep]; simp
  | c :: t, k + 1, cur, left => by rw [splitGo, join_splitGo hsep]; simp

theorem splitOn_ne_nil (x sep : Str) (m : Option Nat) : splitOn x sep m ≠ [] := splitGo_ne_nil _ _ _ _ _

@[simp, grind .] theorem splitOn_length_pos (x sep : Str) (m : Option Nat) : 0 < (splitOn x sep m).length :=
  List.length_pos_iff.mpr (splitOn_ne_nil x sep m)

@[grind .] theorem splitOn_length_le (x sep : Str) (m : Nat) : (splitOn x sep (some m)).length ≤ m + 1 :=
  splitGo_length_le _ _ _ _ _

theorem splitOn_length_le_length (x sep : Str) (m : Option Nat) : (splitOn x sep m).length ≤ x.length + 1 :=
  splitGo_length_le_length _ _ _ _ _

/-- every character of every part is a character of the input -/
@[grind →] theorem mem_splitOn {x sep p : Str} {m : Option Nat} (h : p ∈ splitOn x sep m) : ∀ c ∈ p, c ∈ x := by
  intro c hc
  rcases mem_splitGo h c hc with h' | h'
  · exact h'
  · simp at h'

theorem AllIn.splitOn {q : Nat → Bool} {x : Str} (hx : AllIn q x) {sep p : Str} {m : Option Nat}
    (h : p ∈ Py.splitOn x sep m) : AllIn q p := fun c hc => hx c (mem_splitOn h c hc)

/-- `sep.join(x.split(sep)) == x` -/
theorem join_splitOn {sep : Str} (hsep : sep ≠ []) (x : Str) (m : Option Nat) : join sep (splitOn x sep m) = x := by
  unfold splitOn; rw [join_splitGo hsep]; simp

theorem splitOn_zero (x sep : Str) : splitOn x sep (some 0) = [x] := by
  unfold splitOn
  suffices ∀ (x cur : Str), splitGo sep x 0 cur (some 0) = [cur.reverse ++ x] from by simpa using this x []
  intro x
  induction x with
  | nil => intro cur; simp [splitGo]
  | cons c t ih => intro cur; rw [splitGo]; simp [ih]

theorem rsplitOn_ne_nil (x sep : Str) (m : Option Nat) : rsplitOn x sep m ≠ [] := by
  unfold rsplitOn
  simp [splitOn_ne_nil]

@[simp, grind .] theorem rsplitOn_length_pos (x sep : Str) (m : Option Nat) : 0 < (rsplitOn x sep m).length :=
  List.length_pos_iff.mpr (rsplitOn_ne_nil x sep m)

@[grind .] theorem rsplitOn_length_le (x sep : Str) (m : Nat) : (rsplitOn x sep (some m)).length ≤ m + 1 := by
  unfold rsplitOn
  simpa using splitOn_length_le x.reverse sep.reverse m

@[grind →] theorem mem_rsplitOn {x sep p : Str} {m : Option Nat} (h : p ∈ rsplitOn x sep m) : ∀ c ∈ p, c ∈ x := by
  unfold rsplitOn at h
  simp only [List.mem_reverse, List.mem_map] at h
  obtain ⟨q, hq, rfl⟩ := h
  intro c hc
  have := mem_splitOn hq c (List.mem_reverse.mp hc)
  simpa using this

theorem AllIn.rsplitOn {q : Nat → Bool} {x : Str} (hx : AllIn q x) {sep p : Str} {m : Option Nat}
    (h : p ∈ Py.rsplitOn x sep m) : AllIn q p := fun c hc => hx c (mem_rsplitOn h c hc)

theorem join_reverse (sep : Str) (l : List Str) :
    (join sep l).reverse = join sep.reverse (l.map List.reverse).reverse := by
  induction l with
  | nil => rfl
  | cons a t ih =>
    cases t with
    | nil => simp
    | cons b t =>
      rw [join_cons_cons, List.reverse_append, List.reverse_append, ih]
      simp only [List.map_cons, List.reverse_cons, List.append_assoc]
      generalize (List.map List.reverse t).reverse = r
      -- join s (r ++ [b'] ++ [a']) = join s (r ++ [b']) ++ s ++ a'
      suffices ∀ (r : List Str) (b' a' s : Str), join s (r ++ [b'] ++ [a']) = join s (r ++ [b']) ++ (s ++ a') by
        simpa using (this r b.reverse a.reverse sep.reverse).symm
      intro r
      induction r with
      | nil => intro b' a' s; simp [join]
      | cons c r ihr =>
        intro b' a' s
        have h1 : r ++ [b'] ++ [a'] ≠ [] := by simp
        have h2 : r ++ [b'] ≠ [] := by simp
        rw [List.cons_append, List.cons_append, join_cons_of_ne_nil _ _ h1, join_cons_of_ne_nil _ _ h2, ihr]
        simp

theorem join_rsplitOn {sep : Str} (hsep : sep ≠ []) (x : Str) (m : Option Nat) : join sep (rsplitOn x sep m) = x := by
  have h := join_splitOn (sep := sep.reverse) (by simpa using hsep) x.reverse m
  have h2 := congrArg List.reverse h
  rw [join_reverse] at h2
  simpa [rsplitOn] using h2

example : splitOn [1, 0, 0, 2, 0] [0] = [[1], [], [2], []] := by decide
example : rsplitOn [1, 0, 2, 0, 3] [0] (some 1) = [[1, 0, 2], [3]] := by decide

/-! ## comparison -/

@[simp] theorem strLt_nil_nil : strLt [] [] = false := rfl
@[simp] theorem strLt_nil_cons (b : Nat) (y : Str) : strLt [] (b :: y) = true := rfl
@[simp] theorem strLt_cons_nil (a : Nat) (x : Str) : strLt (a :: x) [] = false := rfl
@[simp] theorem strLt_cons_cons (a b : Nat) (x y : Str) :
    strLt (a :: x) (b :: y) = (decide (a < b) || (a == b && strLt x y)) := by
  rw [strLt]
  by_cases h1 : a < b
  · simp [h1]
  · by_cases h2 : b < a
    · have : a ≠ b := by omega
      simp [h1, h2, this]
    · have : a = b := by omega
      simp [this]

@[simp] theorem strLt_nil_right (x : Str) : strLt x [] = false := by cases x <;> rfl

@[simp] theorem strLt_irrefl (x : Str) : strLt x x = false := by
  induction x with
  | nil => rfl
  | cons a t ih => simp [ih]

@[simp] theorem strLe_refl (x : Str) : strLe x x = true := by simp [strLe]

theorem strLt_single (a b : Nat) : strLt [a] [b] = decide (a < b) := by simp
theorem strLe_single (a b : Nat) : strLe [a] [b] = decide (a ≤ b) := by
  simp only [strLe, strLt_single]
  by_cases h : b < a <;> simp [h] <;> omega

theorem strLt_asymm {x y : Str} (h : strLt x y = true) : strLt y x = false := by
  induction x generalizing y with
  | nil => simp
  | cons a t ih =>
    cases y with
    | nil => simp at h
    | cons b u =>
      simp only [strLt_cons_cons, Bool.or_eq_true, decide_eq_true_eq, Bool.and_eq_true, beq_iff_eq] at h ⊢
      rcases h with h | ⟨rfl, h⟩
      · have h1 : ¬ b < a := by omega
        have h2 : b ≠ a := by omega
        simp [h1, h2]
      · simp [ih h]

theorem strLt_trans {x y z : Str} (h1 : strLt x y = true) (h2 : strLt y z = true) : strLt x z = true := by
  induction x generalizing y z with
  | nil =>
    cases z with
    | nil => simp at h2
    | cons c w => rfl
  | cons a t ih =>
    cases y with
    | nil => simp at h1
    | cons b u =>
      cases z with
      | nil => simp at h2
      | cons c w =>
        simp only [strLt_cons_cons, Bool.or_eq_true, decide_eq_true_eq, Bool.and_eq_true, beq_iff_eq] at h1 h2 ⊢
        rcases h1 with h1 | ⟨rfl, h1⟩
        · rcases h2 with h2 | ⟨rfl, h2⟩
          · left; omega
          · left; exact h1
        · rcases h2 with h2 | ⟨rfl, h2⟩
          · left; exact h2
          · right; exact ⟨rfl, ih h1 h2⟩

theorem strLt_trichotomy (x y : Str) : strLt x y = true ∨ x = y ∨ strLt y x = true := by
  induction x generalizing y with
  | nil => cases y <;> simp
  | cons a t ih =>
    cases y with
    | nil => simp
    | cons b u =>
      simp only [strLt_cons_cons, Bool.or_eq_true, decide_eq_true_eq, Bool.and_eq_true, beq_iff_eq, List.cons.injEq]
      rcases Nat.lt_trichotomy a b with h | rfl | h
      · exact Or.inl (Or.inl h)
      · rcases ih u with h | rfl | h
        · exact Or.inl (Or.inr ⟨rfl, h⟩)
        · exact Or.inr (Or.inl ⟨rfl, rfl⟩)
        · exact Or.inr (Or.inr (Or.inr ⟨rfl, h⟩))
      · exact Or.inr (Or.inr (Or.inl h))

theorem strLe_iff {x y : Str} : strLe x y = true ↔ strLt x y = true ∨ x = y := by
  unfold strLe
  constructor
  · intro h
    rcases strLt_trichotomy x y with h' | h' | h'
    · exact Or.inl h'
    · exact Or.inr h'
    · simp [h'] at h
  · rintro (h | rfl)
    · simp [strLt_asymm h]
    · simp

theorem strLe_trans {x y z : Str} (h1 : strLe x y = true) (h2 : strLe y z = true) : strLe x z = true := by
  rw [strLe_iff] at *
  rcases h1 with h1 | rfl
  · rcases h2 with h2 | rfl
    · exact Or.inl (strLt_trans h1 h2)
    · exact Or.inl h1
  · exact h2

theorem strLe_antisymm {x y : Str} (h1 : strLe x y = true) (h2 : strLe y x = true) : x = y := by
  rw [strLe_iff] at *
  rcases h1 with h1 | rfl
  · rcases h2 with h2 | rfl
    · rw [strLt_asymm h1] at h2; cases h2
    · rfl
  · rfl

/-! ## dictionaries -/

/-- a successful look-up returns an entry of the association list -/
theorem dictGet?_mem {κ ν : Type} [BEq κ] [LawfulBEq κ] (d : List (κ × ν)) (k : κ) (v : ν)
    (h : dictGet? d k = some v) : (k, v) ∈ d := by
  unfold dictGet? at h
  cases hf : List.find? (fun p => p.1 == k) d with
  | none => simp [hf] at h
  | some p =>
    rw [hf] at h
    simp only [Option.map_some, Option.some.injEq] at h
    have hm := List.mem_of_find?_eq_some hf
    have hk := List.find?_some hf
    simp only [beq_iff_eq] at hk
    subst hk h
    exact hm

/-- a failed look-up: no entry has this key -/
theorem dictGet?_none {κ ν : Type} [BEq κ] [LawfulBEq κ] (d : List (κ × ν)) (k : κ)
    (h : dictGet? d k = none) : ∀ p ∈ d, p.1 ≠ k := by
  unfold dictGet? at h
  simp only [Option.map_eq_none_iff, List.find?_eq_none, beq_iff_eq] at h
  exact h

theorem dictHas_eq_any {κ ν : Type} [BEq κ] (d : List (κ × ν)) (k : κ) : dictHas d k = d.any (·.1 == k) := by
  unfold dictHas dictGet?
  induction d with
  | nil => rfl
  | cons p t ih =>
    simp only [List.find?_cons, List.any_cons]
    cases h : (p.1 == k) <;> simp_all

theorem dictHas_iff {κ ν : Type} [BEq κ] [LawfulBEq κ] {d : List (κ × ν)} {k : κ} :
    dictHas d k = true ↔ ∃ v, (k, v) ∈ d := by
  rw [dictHas_eq_any]
  simp only [List.any_eq_true, beq_iff_eq]
  constructor
  · rintro ⟨⟨k', v⟩, hm, rfl⟩; exact ⟨v, hm⟩
  · rintro ⟨v, hm⟩; exact ⟨(k, v), hm, rfl⟩

theorem dictGet_of_has {κ ν : Type} [BEq κ] {d : List (κ × ν)} {k : κ} (h : dictHas d k = true) :
    ∃ v, dictGet d k = .ok v ∧ dictGet? d k = some v := by
  unfold dictHas at h
  unfold dictGet
  cases hd : dictGet? d k with
  | none => simp [hd] at h
  | some v => exact ⟨v, rfl, rfl⟩

theorem dictGet_ok_mem {κ ν : Type} [BEq κ] [LawfulBEq κ] {d : List (κ × ν)} {k : κ} {v : ν}
    (h : dictGet d k = .ok v) : (k, v) ∈ d := by
  unfold dictGet at h
  cases hd : dictGet? d k with
  | none => rw [hd] at h; cases h
  | some w => rw [hd] at h; cases h; exact dictGet?_mem d k _ hd

theorem dictGet_error {κ ν : Type} [BEq κ] {d : List (κ × ν)} {k : κ} {e : Exc}
    (h : dictGet d k = .error e) : e = .keyError := by
  unfold dictGet at h
  cases hd : dictGet? d k with
  | none => rw [hd] at h; cases h; rfl
  | some w => rw [hd] at h; cases h

theorem dictGetD_mem {κ ν : Type} [BEq κ] [LawfulBEq κ] (d : List (κ × ν)) (k : κ) (dflt : ν) :
    dictGetD d k dflt = dflt ∨ (k, dictGetD d k dflt) ∈ d := by
  unfold dictGetD
  cases hd : dictGet? d k with
  | none => exact Or.inl rfl
  | some w => exact Or.inr (dictGet?_mem d k _ hd)

/-! ## `maxInt`, `minInt`, `ord`, `chr` -/

theorem foldl_max_spec (t : List Int) (a : Int) :
    (t.foldl max a = a ∨ t.foldl max a ∈ t) ∧ a ≤ t.foldl max a ∧ ∀ x ∈ t, x ≤ t.foldl max a := by
  induction t generalizing a with
  | nil => simp
  | cons b t ih =>
    have ⟨h1, h2, h3⟩ := ih (max a b)
    simp only [List.foldl_cons, List.mem_cons]
    refine ⟨?_, by omega, ?_⟩
    · rcases h1 with h1 | h1
      · rw [h1]; rcases Int.le_total a b with h | h
        · right; left; omega
        · left; omega
      · right; right; exact h1
    · rintro x (rfl | hx)
      · omega
      · exact h3 x hx

theorem foldl_min_spec (t : List Int) (a : Int) :
    (t.foldl min a = a ∨ t.foldl min a ∈ t) ∧ t.foldl min a ≤ a ∧ ∀ x ∈ t, t.foldl min a ≤ x := by
  induction t generalizing a with
  | nil => simp
  | cons b t ih =>
    have ⟨h1, h2, h3⟩ := ih (min a b)
    simp only [List.foldl_cons, List.mem_cons]
    refine ⟨?_, by omega, ?_⟩
    · rcases h1 with h1 | h1
      · rw [h1]; rcases Int.le_total a b with h | h
        · left; omega
        · right; left; omega
      · right; right; exact h1
    · rintro x (rfl | hx)
      · omega
      · exact h3 x hx

theorem maxInt_ok {l : List Int} (h : l ≠ []) : ∃ m, maxInt l = .ok m ∧ m ∈ l ∧ ∀ x ∈ l, x ≤ m := by
  match l, h with
  | a :: t, _ =>
    have ⟨h1, h2, h3⟩ := foldl_max_spec t a
    refine ⟨_, rfl, ?_, ?_⟩
    · rcases h1 with h1 | h1
      · rw [h1]; simp
      · exact List.mem_cons_of_mem _ h1
    · rintro x hx
      rcases List.mem_cons.mp hx with rfl | hx
      · exact h2
      · exact h3 x hx

theorem minInt_ok {l : List Int} (h : l ≠ []) : ∃ m, minInt l = .ok m ∧ m ∈ l ∧ ∀ x ∈ l, m ≤ x := by
  match l, h with
  | a :: t, _ =>
    have ⟨h1, h2, h3⟩ := foldl_min_spec t a
    refine ⟨_, rfl, ?_, ?_⟩
    · rcases h1 with h1 | h1
      · rw [h1]; simp
      · exact List.mem_cons_of_mem _ h1
    · rintro x hx
      rcases List.mem_cons.mp hx with rfl | hx
      · exact h2
      · exact h3 x hx

@[simp] theorem ord_singleton (c : Nat) : ord [c] = .ok (c : Int) := rfl

theorem ord_of_length_one {s : Str} (h : s.length = 1) : ∃ c, s = [c] ∧ ord s = .ok (c : Int) := by
  match s, h with
  | [c], _ => exact ⟨c, rfl, rfl⟩

theorem chr_ok {n : Int} (h : 0 ≤ n ∧ n < 0x110000) : chr n = .ok [n.toNat] := by
  unfold chr; rw [if_pos h]

@[simp] theorem tupleToList_pair {α : Type} (a b : α) : tupleToList (a, b) = [a, b] := rfl


end Py
