import PyRt
/-!
# Lemmas.Str — facts about the string / sequence runtime `PyRt.Str`, `PyRt.Misc`

Pure lemmas (no Hoare logic; the `@[spec]` triples are in `Lemmas.StrSpecs`).
`@[simp]` marks safe rewriting rules, `@[grind …]` makes the membership / length facts available to `grind`.
-/
namespace Py

/-! ## `AllIn` -/

@[simp, grind =] theorem AllIn.nil_iff {p : Nat → Bool} : AllIn p [] ↔ True := by simp [AllIn]
theorem AllIn.nil {p : Nat → Bool} : AllIn p [] := by simp [AllIn]

/-! ## `chars`, `join` -/

@[simp, grind =] theorem chars_nil : chars [] = [] := rfl
@[simp, grind =] theorem chars_cons (c : Nat) (s : Str) : chars (c :: s) = [c] :: chars s := rfl
@[simp, grind =] theorem chars_append (s t : Str) : chars (s ++ t) = chars s ++ chars t := by simp [chars]
@[simp, grind =] theorem chars_reverse (s : Str) : chars s.reverse = (chars s).reverse := by simp [chars]
@[simp, grind =] theorem chars_length (s : Str) : (chars s).length = s.length := by simp [chars]

@[simp] theorem mem_chars {x : Str} {s : Str} : x ∈ chars s ↔ ∃ c ∈ s, x = [c] := by
  simp only [chars, List.mem_map]
  constructor
  · rintro ⟨c, hc, rfl⟩; exact ⟨c, hc, rfl⟩
  · rintro ⟨c, hc, rfl⟩; exact ⟨c, hc, rfl⟩

@[simp, grind =] theorem join_nil_left (l : List Str) : join [] l = l.flatten := by
  induction l with
  | nil => rfl
  | cons a t ih =>
    cases t with
    | nil => simp [join]
    | cons b t => simp [join, ih]

theorem join_nil (l : List Str) : join [] l = l.flatten := join_nil_left l

@[simp, grind =] theorem flatten_chars (s : Str) : (chars s).flatten = s := by
  induction s with
  | nil => rfl
  | cons a t ih => simp_all [chars]

theorem join_nil_chars (s : Str) : join [] (chars s) = s := by
  rw [join_nil, flatten_chars]

/-! ## digit strings -/

/-- non-empty and ASCII digits only -/
def IsDigits (s : Str) : Prop := s ≠ [] ∧ AllIn isAsciiDigit s

def isDigitsB (s : Str) : Bool := !s.isEmpty && s.all isAsciiDigit

theorem isDigitsB_iff (s : Str) : isDigitsB s = true ↔ IsDigits s := by
  unfold isDigitsB IsDigits AllIn
  cases s <;> simp

instance (s : Str) : Decidable (IsDigits s) := decidable_of_iff _ (isDigitsB_iff s)

/-! ## searching -/

@[simp] theorem strIn_nil_right (sub : Str) : strIn sub [] = sub.isEmpty := rfl

theorem strIn_cons (sub : Str) (c : Nat) (t : Str) :
    strIn sub (c :: t) = (sub.isPrefixOf (c :: t) || strIn sub t) := rfl

@[simp, grind =] theorem strIn_single (c : Nat) (d : Str) : strIn [c] d = d.contains c := by
  induction d with
  | nil => rfl
  | cons a t ih =>
    rw [strIn_cons, ih]
    by_cases h : c = a <;> simp [List.isPrefixOf, h]

end Py
