import PyRt.Unicode
/-!
# Lemmas.Unicode — ASCII reduction lemmas for `PyRt.Unicode`, table soundness, origin of ASCII
characters in `upper()`

On ASCII input every function of `PyRt.Unicode` is arithmetic; none of the lemmas of the first part
unfolds a table.  The second part states what a table hit means (`inRanges_true`, `runVal_some`,
`pointVal_some`) and uses it, together with `decide +kernel` checks over the generated tables, to
characterise the non-ASCII characters whose `upper()` contains ASCII characters.
-/
namespace Py

/-! ## `asciiUpper`, `asciiLower` -/

theorem asciiUpper_eq (c : Nat) : asciiUpper c = if isAsciiLower c then c - 32 else c := by
  simp only [asciiUpper, isAsciiLower, Bool.and_eq_true, decide_eq_true_eq]

theorem asciiLower_eq (c : Nat) : asciiLower c = if isAsciiUpper c then c + 32 else c := by
  simp only [asciiLower, isAsciiUpper, Bool.and_eq_true, decide_eq_true_eq]

theorem asciiUpper_lt {c : Nat} (h : c < 128) : asciiUpper c < 128 := by
  unfold asciiUpper; split <;> omega

theorem asciiLower_lt {c : Nat} (h : c < 128) : asciiLower c < 128 := by
  unfold asciiLower; split <;> omega

@[simp] theorem asciiUpper_idem (c : Nat) : asciiUpper (asciiUpper c) = asciiUpper c := by
  by_cases h : 97 ≤ c ∧ c ≤ 122
  · have h1 : asciiUpper c = c - 32 := if_pos h
    rw [h1]; exact if_neg (by omega)
  · have h1 : asciiUpper c = c := if_neg h
    rw [h1]; exact h1

@[simp] theorem asciiLower_idem (c : Nat) : asciiLower (asciiLower c) = asciiLower c := by
  by_cases h : 65 ≤ c ∧ c ≤ 90
  · have h1 : asciiLower c = c + 32 := if_pos h
    rw [h1]; exact if_neg (by omega)
  · have h1 : asciiLower c = c := if_neg h
    rw [h1]; exact h1

theorem asciiUpper_of_not_lower {c : Nat} (h : isAsciiLower c = false) : asciiUpper c = c := by
  rw [asciiUpper_eq, h]; rfl

theorem asciiLower_of_not_upper {c : Nat} (h : isAsciiUpper c = false) : asciiLower c = c := by
  rw [asciiLower_eq, h]; rfl

theorem asciiUpper_of_digit {c : Nat} (h : isAsciiDigit c = true) : asciiUpper c = c := by
  simp only [isAsciiDigit, Bool.and_eq_true, decide_eq_true_eq] at h
  unfold asciiUpper; split <;> omega

theorem asciiLower_of_digit {c : Nat} (h : isAsciiDigit c = true) : asciiLower c = c := by
  simp only [isAsciiDigit, Bool.and_eq_true, decide_eq_true_eq] at h
  unfold asciiLower; split <;> omega

theorem asciiUpper_of_upper {c : Nat} (h : isAsciiUpper c = true) : asciiUpper c = c := by
  simp only [isAsciiUpper, Bool.and_eq_true, decide_eq_true_eq] at h
  unfold asciiUpper; split <;> omega

theorem asciiLower_asciiUpper_of_lower {c : Nat} (h : isAsciiLower c = true) :
    asciiLower (asciiUpper c) = c := by
  simp only [isAsciiLower, Bool.and_eq_true, decide_eq_true_eq] at h
  unfold asciiUpper asciiLower; split <;> split <;> omega

/-- the result of `asciiUpper` is never an ASCII lower-case letter -/
theorem isAsciiLower_asciiUpper (c : Nat) : isAsciiLower (asciiUpper c) = false := by
  unfold asciiUpper
  split <;> simp only [isAsciiLower, Bool.and_eq_false_iff, decide_eq_false_iff_not] <;> omega

theorem AllIn.of_imp {p q : Nat → Bool} {s : Str} (h : AllIn p s) (hpq : ∀ c, p c = true → q c = true) :
    AllIn q s := fun c hc => hpq c (h c hc)

theorem AllIn.cons_iff {p : Nat → Bool} {c : Nat} {s : Str} : AllIn p (c :: s) ↔ p c = true ∧ AllIn p s := by
  simp [AllIn]

theorem isAscii_of_digit {c : Nat} (h : isAsciiDigit c = true) : isAscii c = true := by
  simp only [isAsciiDigit, Bool.and_eq_true, decide_eq_true_eq] at h
  simp only [isAscii, decide_eq_true_eq]; omega

theorem isAscii_of_alnum {c : Nat} (h : isAsciiAlnum c = true) : isAscii c = true := by
  simp only [isAsciiAlnum, isAsciiDigit, isAsciiAlpha, isAsciiUpper, isAsciiLower, Bool.or_eq_true,
    Bool.and_eq_true, decide_eq_true_eq] at h
  simp only [isAscii, decide_eq_true_eq]; omega

namespace Uni

/-! ## per-character functions on ASCII: arithmetic only -/

@[simp] theorem upperC_ascii' {c : Nat} (h : c < 128) : upperC c = [asciiUpper c] := by
  unfold upperC; rw [if_pos h]

/-- `chr(c).upper()` for ASCII `c` -/
theorem upperC_ascii {c : Nat} (h : c < 128) :
    upperC c = [if 97 ≤ c ∧ c ≤ 122 then c - 32 else c] := upperC_ascii' h

@[simp] theorem lowerC_ascii' {c : Nat} (h : c < 128) : lowerC c = [asciiLower c] := by
  unfold lowerC; rw [if_pos h]

theorem lowerC_ascii {c : Nat} (h : c < 128) :
    lowerC c = [if 65 ≤ c ∧ c ≤ 90 then c + 32 else c] := lowerC_ascii' h

@[simp] theorem upper1_ascii {c : Nat} (h : c < 128) : upper1 c = asciiUpper c := by
  unfold upper1; rw [if_pos h]

@[simp] theorem lower1_ascii {c : Nat} (h : c < 128) : lower1 c = asciiLower c := by
  unfold lower1; rw [if_pos h]

@[simp] theorem decimal?_ascii {c : Nat} (h : c < 128) :
    decimal? c = if isAsciiDigit c then some (c - 48) else none := by
  unfold decimal?; rw [if_pos h]

@[simp] theorem digit?_ascii {c : Nat} (h : c < 128) :
    digit? c = if isAsciiDigit c then some (c - 48) else none := by
  unfold digit?; rw [if_pos h]

theorem decimal?_of_asciiDigit {c : Nat} (h : isAsciiDigit c = true) : decimal? c = some (c - 48) := by
  have := isAscii_of_digit h
  simp only [isAscii, decide_eq_true_eq] at this
  rw [decimal?_ascii this, if_pos h]

@[simp] theorem isDecimal_ascii {c : Nat} (h : c < 128) : isDecimal c = isAsciiDigit c := by
  unfold isDecimal; rw [decimal?_ascii h]; split <;> simp_all

@[simp] theorem isDigit_ascii {c : Nat} (h : c < 128) : isDigit c = isAsciiDigit c := by
  unfold isDigit; rw [digit?_ascii h]; split <;> simp_all

@[simp] theorem isNumeric_ascii {c : Nat} (h : c < 128) : isNumeric c = isAsciiDigit c := by
  unfold isNumeric; rw [if_pos h]

@[simp] theorem isAlpha_ascii {c : Nat} (h : c < 128) : isAlpha c = isAsciiAlpha c := by
  unfold isAlpha; rw [if_pos h]

@[simp] theorem isAlnum_ascii {c : Nat} (h : c < 128) : isAlnum c = isAsciiAlnum c := by
  unfold isAlnum
  rw [isAlpha_ascii h, isDecimal_ascii h, isDigit_ascii h, isNumeric_ascii h]
  unfold isAsciiAlnum
  cases isAsciiAlpha c <;> cases isAsciiDigit c <;> rfl

/-- ASCII white space of `str.isspace` / `str.strip()`: `\t\n\v\f\r`, `\x1c`–`\x1f`, space -/
@[simp] theorem isSpace_ascii {c : Nat} (h : c < 128) :
    isSpace c = ((decide (9 ≤ c) && decide (c ≤ 13)) || (decide (28 ≤ c) && decide (c ≤ 32))) := by
  unfold isSpace; rw [if_pos h]

theorem isSpace_ascii_iff {c : Nat} (h : c < 128) :
    isSpace c = true ↔ (9 ≤ c ∧ c ≤ 13) ∨ (28 ≤ c ∧ c ≤ 32) := by
  rw [isSpace_ascii h]; simp

theorem isZs_ascii {c : Nat} (h : c < 128) : isZs c = (c == 32) := by
  unfold isZs; rw [if_pos h]

@[simp] theorem isLower_ascii {c : Nat} (h : c < 128) : isLower c = isAsciiLower c := by
  unfold isLower; rw [if_pos h]

@[simp] theorem isUpper_ascii {c : Nat} (h : c < 128) : isUpper c = isAsciiUpper c := by
  unfold isUpper; rw [if_pos h]

@[simp] theorem isTitle_ascii {c : Nat} (h : c < 128) : isTitle c = false := by
  unfold isTitle; rw [if_pos h]

theorem isCased_ascii {c : Nat} (h : c < 128) : isCased c = isAsciiAlpha c := by
  unfold isCased; rw [if_pos h]

theorem isSpace_of_asciiAlnum (c : Nat) (h : isAsciiAlnum c = true) : isSpace c = false := by
  have hlt := isAscii_of_alnum h
  simp only [isAscii, decide_eq_true_eq] at hlt
  rw [isSpace_ascii hlt]
  simp only [isAsciiAlnum, isAsciiDigit, isAsciiAlpha, isAsciiUpper, isAsciiLower, Bool.or_eq_true,
    Bool.and_eq_true, decide_eq_true_eq] at h
  simp only [Bool.or_eq_false_iff, Bool.and_eq_false_iff, decide_eq_false_iff_not]
  omega

theorem nfdAZ_ascii {c : Nat} (h : c < 128) : nfdAZ c = if isAsciiLower c then [c] else [] := by
  unfold nfdAZ; rw [if_pos h]

end Uni

/-! ## string methods on ASCII strings -/

theorem all_congr_mem {s : Str} {f g : Nat → Bool} (h : ∀ c ∈ s, f c = g c) : s.all f = s.all g := by
  induction s with
  | nil => rfl
  | cons a t ih =>
    simp only [List.all_cons]
    rw [h a (List.mem_cons_self), ih (fun c hc => h c (List.mem_cons_of_mem _ hc))]

theorem any_congr_mem {s : Str} {f g : Nat → Bool} (h : ∀ c ∈ s, f c = g c) : s.any f = s.any g := by
  induction s with
  | nil => rfl
  | cons a t ih =>
    simp only [List.any_cons]
    rw [h a (List.mem_cons_self), ih (fun c hc => h c (List.mem_cons_of_mem _ hc))]

theorem lt_of_allIn_isAscii {s : Str} (h : AllIn isAscii s) {c : Nat} (hc : c ∈ s) : c < 128 := by
  have := h c hc
  simpa [isAscii] using this

/-- `s.upper()` of an ASCII string is the character-wise ASCII upper-casing -/
@[simp] theorem upper_ascii {s : Str} (h : AllIn isAscii s) : upper s = s.map asciiUpper := by
  unfold upper
  induction s with
  | nil => rfl
  | cons a t ih =>
    rw [List.flatMap_cons, List.map_cons, Uni.upperC_ascii' (lt_of_allIn_isAscii h List.mem_cons_self),
      ih (fun c hc => h c (List.mem_cons_of_mem _ hc))]
    rfl

theorem upper_length_ascii {s : Str} (h : AllIn isAscii s) : (upper s).length = s.length := by
  rw [upper_ascii h, List.length_map]

theorem upper_isAscii {s : Str} (h : AllIn isAscii s) : AllIn isAscii (upper s) := by
  rw [upper_ascii h]
  intro c hc
  obtain ⟨d, hd, rfl⟩ := List.mem_map.mp hc
  have := asciiUpper_lt (lt_of_allIn_isAscii h hd)
  simpa [isAscii] using this

/-- `upper` is idempotent on ASCII strings -/
theorem upper_idem_ascii {s : Str} (h : AllIn isAscii s) : upper (upper s) = upper s := by
  rw [upper_ascii (upper_isAscii h), upper_ascii h, List.map_map]
  apply List.map_congr_left
  intro c _
  exact asciiUpper_idem c

/-- an ASCII string without ASCII lower-case letters is unchanged by `upper()` -/
theorem upper_eq_self_of_no_lower {s : Str} (h : AllIn isAscii s)
    (hl : ∀ c ∈ s, isAsciiLower c = false) : upper s = s := by
  rw [upper_ascii h]
  conv => rhs; rw [← List.map_id s]
  apply List.map_congr_left
  intro c hc
  exact asciiUpper_of_not_lower (hl c hc)

@[simp] theorem upper_of_asciiDigits {s : Str} (h : AllIn isAsciiDigit s) : upper s = s := by
  refine upper_eq_self_of_no_lower (h.of_imp fun c hc => isAscii_of_digit hc) ?_
  intro c hc
  have := h c hc
  simp only [isAsciiDigit, Bool.and_eq_true, decide_eq_true_eq] at this
  simp only [isAsciiLower, Bool.and_eq_false_iff, decide_eq_false_iff_not]; omega

theorem upper_of_asciiDigitOrUpper {s : Str} (h : AllIn (fun c => isAsciiDigit c || isAsciiUpper c) s) :
    upper s = s := by
  have hb : ∀ c ∈ s, c < 128 ∧ isAsciiLower c = false := by
    intro c hc
    have := h c hc
    simp only [isAsciiDigit, isAsciiUpper, Bool.or_eq_true, Bool.and_eq_true, decide_eq_true_eq] at this
    simp only [isAsciiLower, Bool.and_eq_false_iff, decide_eq_false_iff_not]; omega
  exact upper_eq_self_of_no_lower (fun c hc => by simpa [isAscii] using (hb c hc).1) (fun c hc => (hb c hc).2)

/-- the upper-cased ASCII string has no ASCII lower-case letters -/
theorem upper_no_lower_ascii {s : Str} (h : AllIn isAscii s) : ∀ c ∈ upper s, isAsciiLower c = false := by
  rw [upper_ascii h]
  intro c hc
  obtain ⟨d, _, rfl⟩ := List.mem_map.mp hc
  exact isAsciiLower_asciiUpper d

theorem lowerGo_ascii {s : Str} (h : AllIn isAscii s) (b : List Nat) :
    Uni.lowerGo b s = s.map asciiLower := by
  induction s generalizing b with
  | nil => rfl
  | cons a t ih =>
    have ha := lt_of_allIn_isAscii h List.mem_cons_self
    unfold Uni.lowerGo
    rw [if_neg (by omega), Uni.lowerC_ascii' ha, ih (fun c hc => h c (List.mem_cons_of_mem _ hc))]
    rfl

/-- `s.lower()` of an ASCII string -/
@[simp] theorem lower_ascii {s : Str} (h : AllIn isAscii s) : lower s = s.map asciiLower := lowerGo_ascii h []

theorem lower_length_ascii {s : Str} (h : AllIn isAscii s) : (lower s).length = s.length := by
  rw [lower_ascii h, List.length_map]

@[simp] theorem lower_of_asciiDigits {s : Str} (h : AllIn isAsciiDigit s) : lower s = s := by
  rw [lower_ascii (h.of_imp fun c hc => isAscii_of_digit hc)]
  conv => rhs; rw [← List.map_id s]
  apply List.map_congr_left
  intro c hc
  exact asciiLower_of_digit (h c hc)

theorem isdigit_ascii {s : Str} (h : AllIn isAscii s) : isdigit s = (!s.isEmpty && s.all isAsciiDigit) := by
  unfold isdigit
  rw [all_congr_mem (fun c hc => Uni.isDigit_ascii (lt_of_allIn_isAscii h hc))]

theorem isdecimal_ascii {s : Str} (h : AllIn isAscii s) :
    isdecimal s = (!s.isEmpty && s.all isAsciiDigit) := by
  unfold isdecimal
  rw [all_congr_mem (fun c hc => Uni.isDecimal_ascii (lt_of_allIn_isAscii h hc))]

theorem isalpha_ascii {s : Str} (h : AllIn isAscii s) : isalpha s = (!s.isEmpty && s.all isAsciiAlpha) := by
  unfold isalpha
  rw [all_congr_mem (fun c hc => Uni.isAlpha_ascii (lt_of_allIn_isAscii h hc))]

theorem isalnum_ascii {s : Str} (h : AllIn isAscii s) : isalnum s = (!s.isEmpty && s.all isAsciiAlnum) := by
  unfold isalnum
  rw [all_congr_mem (fun c hc => Uni.isAlnum_ascii (lt_of_allIn_isAscii h hc))]

/-- `isdigit` etc. as propositions (any input) -/
theorem isdigit_iff (s : Str) : isdigit s = true ↔ s ≠ [] ∧ AllIn Uni.isDigit s := by
  unfold isdigit AllIn; cases s <;> simp

theorem isdecimal_iff (s : Str) : isdecimal s = true ↔ s ≠ [] ∧ AllIn Uni.isDecimal s := by
  unfold isdecimal AllIn; cases s <;> simp

theorem isalpha_iff (s : Str) : isalpha s = true ↔ s ≠ [] ∧ AllIn Uni.isAlpha s := by
  unfold isalpha AllIn; cases s <;> simp

theorem isalnum_iff (s : Str) : isalnum s = true ↔ s ≠ [] ∧ AllIn Uni.isAlnum s := by
  unfold isalnum AllIn; cases s <;> simp

theorem isspace_iff (s : Str) : isspace s = true ↔ s ≠ [] ∧ AllIn Uni.isSpace s := by
  unfold isspace AllIn; cases s <;> simp

theorem isdigit_of_asciiDigits {s : Str} (hne : s ≠ []) (h : AllIn isAsciiDigit s) : isdigit s = true := by
  rw [isdigit_iff]
  refine ⟨hne, fun c hc => ?_⟩
  have hd := h c hc
  have hlt := isAscii_of_digit hd
  simp only [isAscii, decide_eq_true_eq] at hlt
  rw [Uni.isDigit_ascii hlt]; exact hd

@[simp] theorem isdigit_nil : isdigit [] = false := rfl
@[simp] theorem isalpha_nil : isalpha [] = false := rfl
@[simp] theorem isalnum_nil : isalnum [] = false := rfl
@[simp] theorem upper_nil : upper [] = [] := rfl
@[simp] theorem lower_nil : lower [] = [] := rfl

theorem upper_append (s t : Str) : upper (s ++ t) = upper s ++ upper t := by
  unfold upper; exact List.flatMap_append

/-! ## what a table hit means -/
namespace Uni

theorem findLE_mem {α : Type} (key : α → Nat) (t : Array α) (c : Nat) (e : α)
    (h : findLE key t c = some e) : e ∈ t.toList := by
  unfold findLE at h
  split at h
  · cases h
  · next i _ =>
    have := Array.mem_of_getElem? h
    exact Array.mem_def.mp this

theorem inRanges_true {t : Array (Nat × Nat)} {c : Nat} (h : inRanges t c = true) :
    ∃ e ∈ t.toList, e.1 ≤ c ∧ c ≤ e.2 := by
  unfold inRanges at h
  split at h
  · next lo hi heq =>
    simp only [Bool.and_eq_true, decide_eq_true_eq] at h
    exact ⟨(lo, hi), findLE_mem _ _ _ _ heq, h.1, h.2⟩
  · cases h

theorem runVal_some {t : Array (Nat × Nat × Nat)} {c r : Nat} (h : runVal t c = some r) :
    ∃ e ∈ t.toList, e.1 ≤ c ∧ c ≤ e.2.1 ∧ r = e.2.2 + (c - e.1) := by
  unfold runVal at h
  split at h
  · next lo hi v heq =>
    split at h
    · next hb =>
      cases h
      exact ⟨(lo, hi, v), findLE_mem _ _ _ _ heq, hb.1, hb.2, rfl⟩
    · cases h
  · cases h

theorem pointVal_some {t : Array (Nat × List Nat)} {c : Nat} {l : List Nat} (h : pointVal t c = some l) :
    (c, l) ∈ t.toList := by
  unfold pointVal at h
  split at h
  · next k v heq =>
    split at h
    · next hk =>
      cases h; subst hk
      exact findLE_mem _ _ _ _ heq
    · cases h
  · cases h

/-! ## the tables agree with the arithmetic ASCII definitions

(the ASCII fast path never reads the tables; these checks show the generated tables contain the same
ASCII facts, i.e. the fast path is not a deviation from the oracle) -/

theorem tables_agree_on_ascii :
    (List.range 128).all (fun c =>
      inRanges Data.alphaTab c == isAsciiAlpha c &&
      inRanges Data.spaceTab c == ((decide (9 ≤ c) && decide (c ≤ 13)) || (decide (28 ≤ c) && decide (c ≤ 32))) &&
      inRanges Data.lowerTab c == isAsciiLower c &&
      inRanges Data.upperTab c == isAsciiUpper c &&
      inRanges Data.numericTab c == isAsciiDigit c &&
      inRanges Data.titleTab c == false &&
      inRanges Data.casedTab c == isAsciiAlpha c &&
      inRanges Data.caseIgnorableTab c == (c == 39 || c == 46 || c == 58 || c == 94 || c == 96) &&
      inRanges Data.zsTab c == (c == 32) &&
      runVal Data.decimalTab c == (if isAsciiDigit c then some (c - 48) else none) &&
      runVal Data.digitTab c == (if isAsciiDigit c then some (c - 48) else none) &&
      (runVal Data.lower1Tab c).getD c == asciiLower c &&
      (runVal Data.upper1Tab c).getD c == asciiUpper c &&
      (pointVal Data.lowerFullTab c).isNone && (pointVal Data.upperFullTab c).isNone &&
      (pointVal Data.nfdAZTab c).getD [] == (if isAsciiLower c then [c] else [])) = true := by
  decide +kernel

/-! ## ASCII characters in `upper()` of non-ASCII characters -/

theorem upperFullTab_ascii_check :
    Data.upperFullTab.toList.all (fun e =>
      !(e.2.any (fun c => decide (c < 128))) || upperToAsciiSources.contains e.1) = true := by
  decide +kernel

theorem upper1Tab_ascii_check :
    Data.upper1Tab.toList.all (fun e =>
      decide (128 ≤ e.2.2) || decide (e.2.1 < 128) ||
        (e.1 == e.2.1 && upperToAsciiSources.contains e.1)) = true := by
  decide +kernel

/-- completeness of `upperToAsciiSources`: a non-ASCII `d` whose `upper()` contains an ASCII
character is in the list -/
theorem upperToAsciiSources_complete (d c : Nat) (hd : 128 ≤ d) (hc : c ∈ upperC d) (hlt : c < 128) :
    d ∈ upperToAsciiSources := by
  unfold upperC at hc
  rw [if_neg (by omega)] at hc
  split at hc
  · next l hl =>
    have hm := pointVal_some hl
    have := List.all_eq_true.mp upperFullTab_ascii_check (d, l) hm
    simp only [Bool.or_eq_true, Bool.not_eq_true', List.any_eq_false, decide_eq_true_eq,
      List.contains_iff_mem] at this
    rcases this with h | h
    · exact absurd hlt (h c hc)
    · exact h
  · next hn =>
    simp only [List.mem_singleton] at hc
    cases hr : runVal Data.upper1Tab d with
    | none => rw [hr] at hc; simp only [Option.getD_none] at hc; omega
    | some r =>
      rw [hr] at hc; simp only [Option.getD_some] at hc
      obtain ⟨e, he, h1, h2, h3⟩ := runVal_some hr
      have := List.all_eq_true.mp upper1Tab_ascii_check e he
      simp only [Bool.or_eq_true, decide_eq_true_eq, Bool.and_eq_true, beq_iff_eq,
        List.contains_iff_mem] at this
      rcases this with (h | h) | ⟨h, hm⟩
      · omega
      · omega
      · have : d = e.1 := by omega
        rw [this]; exact hm

/-- soundness: every listed code point is non-ASCII and its `upper()` contains an ASCII character -/
theorem upperToAsciiSources_sound :
    ∀ d ∈ upperToAsciiSources, 128 ≤ d ∧ ∃ c ∈ upperC d, c < 128 := by
  decide +kernel

/-- the ASCII characters produced by the listed code points are upper-case letters only
(`SS I ʼN S J̌ H̱ T̈ W̊ Y̊ Aʾ FF FI FL FFI FFL ST ST`) -/
theorem upperToAsciiSources_letters :
    ∀ d ∈ upperToAsciiSources, ∀ c ∈ upperC d, c < 128 → isAsciiUpper c = true := by
  decide +kernel

/-- the exact images, for reference -/
theorem upperToAsciiSources_images :
    upperToAsciiSources.map upperC =
      [[83, 83], [73], [700, 78], [83], [74, 780], [72, 817], [84, 776], [87, 778], [89, 778], [65, 702],
       [70, 70], [70, 73], [70, 76], [70, 70, 73], [70, 70, 76], [83, 84], [83, 84]] := by
  decide +kernel

end Uni

/-- where an ASCII character of `s.upper()` comes from -/
theorem mem_upper_ascii (s : Str) (c : Nat) (hc : c ∈ upper s) (hlt : c < 128) :
    (∃ d ∈ s, d < 128 ∧ c = asciiUpper d) ∨
    (∃ d ∈ s, d ∈ Uni.upperToAsciiSources ∧ c ∈ Uni.upperC d) := by
  unfold upper at hc
  obtain ⟨d, hd, hcd⟩ := List.mem_flatMap.mp hc
  by_cases h : d < 128
  · left
    rw [Uni.upperC_ascii' h] at hcd
    exact ⟨d, hd, h, by simpa using hcd⟩
  · right
    exact ⟨d, hd, Uni.upperToAsciiSources_complete d c (by omega) hcd hlt, hcd⟩

/-- an ASCII character of `s.upper()` that is not an upper-case letter was already in `s` -/
theorem upper_ascii_nonupper_origin (s : Str) (c : Nat) (h : c ∈ upper s) (hlt : c < 128)
    (hnu : isAsciiUpper c = false) : c ∈ s := by
  rcases mem_upper_ascii s c h hlt with ⟨d, hd, _, rfl⟩ | ⟨d, _, hsrc, hcd⟩
  · have : asciiUpper d = d := by
      unfold asciiUpper at hnu ⊢
      split
      · next hr =>
        rw [if_pos hr] at hnu
        simp only [isAsciiUpper, Bool.and_eq_false_iff, decide_eq_false_iff_not] at hnu
        omega
      · rfl
    rw [this]; exact hd
  · have := Uni.upperToAsciiSources_letters d hsrc c hcd hlt
    rw [this] at hnu; cases hnu

/-- an ASCII digit in `s.upper()` is the same digit of `s` -/
theorem upper_ascii_char_origin (s : Str) (c : Nat) (h : c ∈ upper s) (hd : isAsciiDigit c = true) :
    c ∈ s := by
  have hb := hd
  simp only [isAsciiDigit, Bool.and_eq_true, decide_eq_true_eq] at hb
  refine upper_ascii_nonupper_origin s c h (by omega) ?_
  simp only [isAsciiUpper, Bool.and_eq_false_iff, decide_eq_false_iff_not]; omega

/-- an ASCII upper-case letter in `s.upper()` is that letter of `s`, or its lower-case form in `s`,
or comes from one of the 17 code points of `Uni.upperToAsciiSources` -/
theorem upper_asciiUpper_origin (s : Str) (c : Nat) (h : c ∈ upper s) (hu : isAsciiUpper c = true) :
    c ∈ s ∨ c + 32 ∈ s ∨ ∃ d ∈ s, d ∈ Uni.upperToAsciiSources ∧ c ∈ Uni.upperC d := by
  have hb := hu
  simp only [isAsciiUpper, Bool.and_eq_true, decide_eq_true_eq] at hb
  rcases mem_upper_ascii s c h (by omega) with ⟨d, hd, _, hcd⟩ | h3
  · unfold asciiUpper at hcd
    split at hcd
    · right; left
      have : c + 32 = d := by omega
      rw [this]; exact hd
    · left; rw [hcd]; exact hd
  · exact Or.inr (Or.inr h3)

/-! ## non-vacuity / sanity examples -/

example : upper [115, 116, 114, 97, 223, 101, 49] = [83, 84, 82, 65, 83, 83, 69, 49] := by decide +kernel
example : lower [0x391, 0x3A3, 46, 0x3A3, 0x391, 0x3A3] = [0x3B1, 0x3C3, 46, 0x3C3, 0x3B1, 0x3C2] := by
  decide +kernel
example : AllIn isAscii [97, 49, 66] ∧ upper [97, 49, 66] = [65, 49, 66] :=
  ⟨by decide, by rw [upper_ascii (by decide)]; decide⟩
example : (83 : Nat) ∈ upper [223] ∧ (83 : Nat) ∉ [223] ∧ (223 : Nat) ∈ Uni.upperToAsciiSources := by
  decide +kernel
example : toMin [75, 246, 108, 110] = [107, 111, 108, 110] := by decide +kernel
example : isdigit [0x663, 49] = true ∧ isdigit [] = false ∧ isalpha [0x3A3] = true := by decide +kernel

end Py
