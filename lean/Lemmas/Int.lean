import PyRt.Int
import Lemmas.Unicode
import Lemmas.Strip
/-!
# Lemmas.Int — `int()`, `str(int)`, `%d` on the inputs the library feeds them

Main results
* `intOf_of_asciiDigits`: `int(s)` of a non-empty ASCII digit string of at most 4300 characters
  (CPython's `sys.get_int_max_str_digits()`; it counts digits only, leading zeros included)
  is `.ok (digitsVal s)`; `intOfBase_of_ascii` for bases 2..36;
* `intOf_error` / `intOfBase_error`: the only exception is `ValueError`;
* `strOfNat_eq` (unfolding equation), `digitsVal_strOfNat` and `intOf_strOfNat` (round trip);
* shape of `strOfInt` and `fmtD` output.
-/
namespace Py

/-! ## generic list facts -/

theorem takeWhile_eq_self {α : Type} {p : α → Bool} : ∀ {l : List α}, (∀ x ∈ l, p x = true) → l.takeWhile p = l
  | [], _ => rfl
  | a :: l, h => by
    rw [List.takeWhile_cons, if_pos (h a List.mem_cons_self),
      takeWhile_eq_self (fun x hx => h x (List.mem_cons_of_mem _ hx))]

theorem dropWhile_eq_nil {α : Type} {p : α → Bool} : ∀ {l : List α}, (∀ x ∈ l, p x = true) → l.dropWhile p = []
  | [], _ => rfl
  | a :: l, h => by
    rw [List.dropWhile_cons, if_pos (h a List.mem_cons_self),
      dropWhile_eq_nil (fun x hx => h x (List.mem_cons_of_mem _ hx))]

/-! ## digits -/

theorem digitValue_of_digit {c : Nat} (h : isAsciiDigit c = true) : digitValue c = c - 48 := by
  unfold digitValue; rw [if_pos h]

theorem digitValue_of_val36 {c v : Nat} (h : asciiDigitVal36 c = some v) : digitValue c = v := by
  unfold asciiDigitVal36 at h
  unfold digitValue
  split at h
  · next hd => rw [if_pos hd]; exact Option.some.inj h
  · next hd =>
    rw [if_neg hd]
    split at h
    · next hu =>
      have hl : isAsciiLower c = false := by
        simp only [isAsciiUpper, Bool.and_eq_true, decide_eq_true_eq] at hu
        simp only [isAsciiLower, Bool.and_eq_false_iff, decide_eq_false_iff_not]; omega
      rw [if_neg (by rw [hl]; exact Bool.false_ne_true), if_pos hu]; exact Option.some.inj h
    · next hu =>
      split at h
      · next hl => rw [if_pos hl]; exact Option.some.inj h
      · cases h

/-- an ASCII letter or digit: the facts the `int()` parser needs about it -/
theorem val36_facts {c v : Nat} (h : asciiDigitVal36 c = some v) :
    c < 127 ∧ c ≠ 95 ∧ c ≠ 43 ∧ c ≠ 45 ∧ isCSpace c = false ∧ v < 36 ∧
    (c = 120 ∨ c = 88 → v = 33) ∧ (c = 111 ∨ c = 79 → v = 24) ∧ (c = 98 ∨ c = 66 → v = 11) := by
  unfold asciiDigitVal36 at h
  simp only [isAsciiDigit, isAsciiUpper, isAsciiLower, Bool.and_eq_true, decide_eq_true_eq] at h
  simp only [isCSpace, Bool.or_eq_false_iff, Bool.and_eq_false_iff, decide_eq_false_iff_not, beq_eq_false_iff_ne]
  split at h
  · cases h; omega
  · split at h
    · cases h; omega
    · split at h
      · cases h; omega
      · cases h

theorem val36_of_digit {c : Nat} (h : isAsciiDigit c = true) : asciiDigitVal36 c = some (c - 48) := by
  unfold asciiDigitVal36; rw [if_pos h]

theorem intByte_of_lt {c : Nat} (h : c < 127) : intByte c = c := by
  unfold intByte; rw [if_pos h]

theorem digitValue_95 : digitValue 95 = 37 := by decide

theorem noDoubleUnderscore_of_no95 : ∀ (s : List Nat), (∀ c ∈ s, c ≠ 95) → noDoubleUnderscore s = true
  | [], _ => rfl
  | [_], _ => rfl
  | a :: b :: t, h => by
    unfold noDoubleUnderscore
    have ha : (a == 95) = false := beq_eq_false_iff_ne.mpr (h a List.mem_cons_self)
    rw [ha, noDoubleUnderscore_of_no95 (b :: t) (fun c hc => h c (List.mem_cons_of_mem _ hc))]
    rfl

/-- `scanMagnitude` on a non-empty string of digits of `base` -/
theorem scanMagnitude_digits (base : Nat) (hb : base ≤ 36) (s : List Nat) (hne : s ≠ [])
    (h : ∀ c ∈ s, digitValue c < base)
    (hl : isPow2Base base = true ∨ s.length ≤ intMaxStrDigits) :
    scanMagnitude base s = .ok (digitsValue base s) := by
  have hall : ∀ c ∈ s, isDigitOrUnderscore base c = true := by
    intro c hc
    unfold isDigitOrUnderscore
    rw [decide_eq_true (h c hc)]; rfl
  have hno : ∀ c ∈ s, c ≠ 95 := by
    intro c hc h95
    have := h c hc
    rw [h95, digitValue_95] at this
    omega
  have hfilter : s.filter (fun b => b != 95) = s :=
    List.filter_eq_self.mpr (fun c hc => by simpa using hno c hc)
  have hhead : (s.head? == some 95) = false := by
    cases s with
    | nil => exact absurd rfl hne
    | cons a t =>
      have := hno a List.mem_cons_self
      simp [this]
  have hlast : (s.getLast? == some 95) = false := by
    rw [List.getLast?_eq_some_getLast hne]
    have := hno _ (List.getLast_mem hne)
    simp [this]
  have hempty : s.isEmpty = false := by
    cases s with
    | nil => exact absurd rfl hne
    | cons a t => rfl
  unfold scanMagnitude
  simp only [takeWhile_eq_self hall, dropWhile_eq_nil hall, hfilter, hhead, hlast, hempty,
    noDoubleUnderscore_of_no95 s hno, List.dropWhile_nil, List.isEmpty_nil, Bool.not_true, Bool.or_self,
    Bool.false_eq_true, if_false]
  rcases hl with hl | hl
  · rw [hl]; rfl
  · rw [decide_eq_false (by omega)]
    simp only [Bool.and_false, Bool.false_eq_true, if_false]
    rfl

/-- the only exception `scanMagnitude` raises is `ValueError` -/
theorem scanMagnitude_error (base : Nat) (s : List Nat) (e : Exc) (h : scanMagnitude base s = .error e) :
    e = .valueError := by
  unfold scanMagnitude at h
  simp only [raise, pure, Except.pure] at h
  split at h
  · cases h; rfl
  · split at h
    · cases h; rfl
    · split at h
      · cases h; rfl
      · cases h

/-- `int(s, base)` only ever raises `ValueError` -/
theorem intOfBase_error (s : Str) (base : Nat) (e : Exc) (h : intOfBase s base = .error e) :
    e = .valueError := by
  unfold intOfBase at h
  simp only [raise, pure, Except.pure] at h
  split at h
  · cases h; rfl
  · split at h
    · next e' he =>
      cases h
      exact scanMagnitude_error _ _ _ he
    · split at h
      · cases h; rfl
      · cases h

/-- `int(s)` only ever raises `ValueError` -/
theorem intOf_error (s : Str) (e : Exc) (h : intOf s = .error e) : e = .valueError :=
  intOfBase_error s 10 e h

/-- `int(s, b)` of a non-empty string of ASCII digits/letters that are digits of base `b`.
No prefix condition is needed: in such a string `0x`/`0o`/`0b` cannot be a prefix for base 16/8/2
because `x`, `o`, `b` are not digits of these bases.  The length bound is CPython's digit limit
(not applied to the bases 2, 4, 8, 16, 32). -/
theorem intOfBase_of_ascii_val (s : Str) (b : Nat) (hb : 2 ≤ b ∧ b ≤ 36) (h1 : s ≠ [])
    (h2 : ∀ c ∈ s, ∃ v, asciiDigitVal36 c = some v ∧ v < b)
    (h3 : isPow2Base b = true ∨ s.length ≤ intMaxStrDigits) :
    intOfBase s b = .ok (digitsValue b s : Nat) := by
  have hdig : ∀ c ∈ s, digitValue c < b := by
    intro c hc
    obtain ⟨v, hv, hlt⟩ := h2 c hc
    rw [digitValue_of_val36 hv]; exact hlt
  have hmap : s.map intByte = s := by
    conv => rhs; rw [← List.map_id s]
    apply List.map_congr_left
    intro c hc
    obtain ⟨v, hv, _⟩ := h2 c hc
    exact intByte_of_lt (val36_facts hv).1
  cases s with
  | nil => exact absurd rfl h1
  | cons a t =>
    obtain ⟨va, hva, hvalt⟩ := h2 a List.mem_cons_self
    have fa := val36_facts hva
    have hdrop : (a :: t).dropWhile isCSpace = a :: t := by
      rw [List.dropWhile_cons, fa.2.2.2.2.1]; rfl
    have hsign : intSign (a :: t) = (false, a :: t) := by
      unfold intSign
      simp only [beq_iff_eq]
      rw [if_neg fa.2.2.1, if_neg fa.2.2.2.1]
    have hprefix : intPrefix b (a :: t) = (b, a :: t, false) := by
      have hb0 : (b == 0) = false := beq_eq_false_iff_ne.mpr (by omega)
      unfold intPrefix
      cases t with
      | nil => simp only [hb0, Bool.false_eq_true, if_false]
      | cons x t' =>
        obtain ⟨vx, hvx, hvxlt⟩ := h2 x (List.mem_cons_of_mem _ List.mem_cons_self)
        have fx := val36_facts hvx
        simp only [hb0, Bool.or_false, Bool.false_eq_true, if_false]
        split
        · have c1 : ((x == 120 || x == 88) && b == 16) = false := by
            simp only [Bool.and_eq_false_iff, Bool.or_eq_false_iff, beq_eq_false_iff_ne]
            by_cases hx : x = 120 ∨ x = 88
            · right; have := fx.2.2.2.2.2.2.1 hx; omega
            · left; omega
          have c2 : ((x == 111 || x == 79) && b == 8) = false := by
            simp only [Bool.and_eq_false_iff, Bool.or_eq_false_iff, beq_eq_false_iff_ne]
            by_cases hx : x = 111 ∨ x = 79
            · right; have := fx.2.2.2.2.2.2.2.1 hx; omega
            · left; omega
          have c3 : ((x == 98 || x == 66) && b == 2) = false := by
            simp only [Bool.and_eq_false_iff, Bool.or_eq_false_iff, beq_eq_false_iff_ne]
            by_cases hx : x = 98 ∨ x = 66
            · right; have := fx.2.2.2.2.2.2.2.2 hx; omega
            · left; omega
          simp only [c1, c2, c3, Bool.false_eq_true, if_false]
        · rfl
    have hscan := scanMagnitude_digits b hb.2 (a :: t) h1 hdig h3
    unfold intOfBase
    have hbase : (!(b == 0 || (decide (2 ≤ b) && decide (b ≤ 36)))) = false := by
      rw [decide_eq_true hb.1, decide_eq_true hb.2]; simp
    rw [hbase]
    simp only [Bool.false_eq_true, if_false, hmap, hdrop, hsign, hprefix, hscan, Bool.false_and]
    rfl

/-- the same, stated as existence of a non-negative result -/
theorem intOfBase_of_ascii (s : Str) (b : Nat) (hb : 2 ≤ b ∧ b ≤ 36) (h1 : s ≠ [])
    (h2 : ∀ c ∈ s, ∃ v, asciiDigitVal36 c = some v ∧ v < b)
    (h3 : isPow2Base b = true ∨ s.length ≤ 4300) :
    ∃ n, intOfBase s b = .ok n ∧ 0 ≤ n :=
  ⟨_, intOfBase_of_ascii_val s b hb h1 h2 h3, Int.natCast_nonneg _⟩

/-- one ASCII letter or digit in base 36 -/
theorem intOfBase_singleton_36 (c v : Nat) (h : asciiDigitVal36 c = some v) :
    intOfBase [c] 36 = .ok (v : Int) := by
  have hv := (val36_facts h).2.2.2.2.2.1
  rw [intOfBase_of_ascii_val [c] 36 (by omega) (by simp)
    (by intro d hd; rw [List.mem_singleton.mp hd]; exact ⟨v, h, hv⟩) (Or.inr (by simp [intMaxStrDigits]))]
  simp only [digitsValue, List.foldl_cons, List.foldl_nil, Nat.zero_mul, Nat.zero_add,
    digitValue_of_val36 h]

/-! ## `digitsVal` -/

@[simp] theorem digitsVal_nil : digitsVal [] = 0 := rfl

theorem digitsVal_foldl (s : Str) (acc : Int) :
    s.foldl (fun (a : Int) (c : Nat) => a * 10 + ((c : Int) - 48)) acc = acc * 10 ^ s.length + digitsVal s := by
  induction s generalizing acc with
  | nil => simp [digitsVal]
  | cons a t ih =>
    unfold digitsVal
    simp only [List.foldl_cons, List.length_cons]
    rw [ih, ih (0 * 10 + ((a : Int) - 48))]
    rw [Int.pow_succ]
    simp only [Int.zero_mul, Int.zero_add]
    rw [Int.add_mul, Int.mul_assoc, Int.mul_comm 10 (10 ^ t.length), Int.add_assoc]

theorem digitsVal_cons (c : Nat) (s : Str) :
    digitsVal (c :: s) = ((c : Int) - 48) * 10 ^ s.length + digitsVal s := by
  have := digitsVal_foldl s (0 * 10 + ((c : Int) - 48))
  simp only [Int.zero_mul, Int.zero_add] at this
  unfold digitsVal
  simp only [List.foldl_cons, Int.zero_mul, Int.zero_add]
  exact this

theorem digitsVal_append (s t : Str) : digitsVal (s ++ t) = digitsVal s * 10 ^ t.length + digitsVal t := by
  unfold digitsVal
  rw [List.foldl_append]
  exact digitsVal_foldl t _

theorem digitsVal_append_singleton (s : Str) (c : Nat) :
    digitsVal (s ++ [c]) = digitsVal s * 10 + ((c : Int) - 48) := by
  rw [digitsVal_append]
  simp [digitsVal]

@[simp] theorem digitsVal_singleton (c : Nat) : digitsVal [c] = (c : Int) - 48 := by
  simp [digitsVal]

theorem digitsVal_bounds {s : Str} (h : AllIn isAsciiDigit s) : 0 ≤ digitsVal s ∧ digitsVal s < 10 ^ s.length := by
  induction s with
  | nil => simp
  | cons a t ih =>
    have ha := h a List.mem_cons_self
    simp only [isAsciiDigit, Bool.and_eq_true, decide_eq_true_eq] at ha
    obtain ⟨ih1, ih2⟩ := ih (fun c hc => h c (List.mem_cons_of_mem _ hc))
    rw [digitsVal_cons, List.length_cons, Int.pow_succ]
    have hp : (0 : Int) ≤ 10 ^ t.length := Int.pow_nonneg (by omega)
    have h0 : (0 : Int) ≤ (a : Int) - 48 := by omega
    have h9 : (a : Int) - 48 ≤ 9 := by omega
    have m1 : 0 ≤ ((a : Int) - 48) * 10 ^ t.length := Int.mul_nonneg h0 hp
    have m2 : ((a : Int) - 48) * 10 ^ t.length ≤ 9 * 10 ^ t.length := Int.mul_le_mul_of_nonneg_right h9 hp
    constructor
    · omega
    · have : (10 : Int) ^ t.length * 10 = 9 * 10 ^ t.length + 10 ^ t.length := by
        rw [Int.mul_comm]; omega
      omega

theorem digitsVal_nonneg {s : Str} (h : AllIn isAsciiDigit s) : 0 ≤ digitsVal s := (digitsVal_bounds h).1

theorem digitsVal_lt {s : Str} (h : AllIn isAsciiDigit s) : digitsVal s < 10 ^ s.length := (digitsVal_bounds h).2

theorem digitsValue_eq_digitsVal {s : Str} (h : AllIn isAsciiDigit s) :
    ((digitsValue 10 s : Nat) : Int) = digitsVal s := by
  unfold digitsValue digitsVal
  suffices H : ∀ (acc : Nat), ((s.foldl (fun acc b => acc * 10 + digitValue b) acc : Nat) : Int)
      = s.foldl (fun (a : Int) (c : Nat) => a * 10 + ((c : Int) - 48)) (acc : Int) from H 0
  induction s with
  | nil => intro acc; rfl
  | cons a t ih =>
    intro acc
    have ha := h a List.mem_cons_self
    simp only [List.foldl_cons]
    rw [ih (fun c hc => h c (List.mem_cons_of_mem _ hc))]
    congr 1
    rw [digitValue_of_digit ha]
    simp only [isAsciiDigit, Bool.and_eq_true, decide_eq_true_eq] at ha
    omega

/-! ## `int(s)` on ASCII digit strings -/

/-- `int(s)` for a non-empty string of ASCII digits.  The bound is CPython's
`sys.get_int_max_str_digits()` = 4300: every digit counts (leading zeros too). -/
theorem intOf_of_asciiDigits (s : Str) (h1 : s ≠ []) (h2 : AllIn isAsciiDigit s) (h3 : s.length ≤ 4300) :
    intOf s = .ok (digitsVal s) := by
  unfold intOf
  rw [intOfBase_of_ascii_val s 10 (by omega) h1 ?_ (Or.inr h3), digitsValue_eq_digitsVal h2]
  intro c hc
  have hd := h2 c hc
  refine ⟨c - 48, val36_of_digit hd, ?_⟩
  simp only [isAsciiDigit, Bool.and_eq_true, decide_eq_true_eq] at hd
  omega

/-- one ASCII digit -/
theorem intOf_singleton_digit (c : Nat) (h : isAsciiDigit c = true) : intOf [c] = .ok ((c : Int) - 48) := by
  rw [intOf_of_asciiDigits [c] (by simp) (by intro d hd; rw [List.mem_singleton.mp hd]; exact h) (by simp)]
  simp

theorem intOf_nil : intOf [] = .error .valueError := rfl

/-- `int('')` raises, so a successful `int(s)` has `s ≠ ''` -/
theorem intOf_ok_ne_nil (s : Str) (n : Int) (h : intOf s = .ok n) : s ≠ [] := by
  intro hs; rw [hs, intOf_nil] at h; cases h

theorem intOfBase_nil (b : Nat) : intOfBase [] b = .error .valueError := by
  unfold intOfBase
  split
  · rfl
  · simp only [List.map_nil, List.dropWhile_nil, intSign, intPrefix]
    have : ∀ base, scanMagnitude base [] = .error .valueError := fun _ => rfl
    rw [this]

theorem intOfBase_ok_ne_nil (s : Str) (b : Nat) (n : Int) (h : intOfBase s b = .ok n) : s ≠ [] := by
  intro hs; rw [hs, intOfBase_nil] at h; cases h

/-! ## `str(int)` -/

theorem digitChar_lt_ten (u : Bool) {d : Nat} (h : d < 10) : digitChar u d = 48 + d := by
  unfold digitChar; rw [if_pos h]

theorem natDigitsGo_acc (b : Nat) (u : Bool) (fuel n : Nat) (acc : List Nat) :
    natDigitsGo b u fuel n acc = natDigitsGo b u fuel n [] ++ acc := by
  induction fuel generalizing n acc with
  | zero => rfl
  | succ f ih =>
    unfold natDigitsGo
    split
    · rfl
    · rw [ih (n / b) (digitChar u (n % b) :: acc), ih (n / b) [digitChar u (n % b)], List.append_assoc]
      rfl

theorem natDigitsGo_fuel (b : Nat) (hb : 2 ≤ b) (u : Bool) (fuel fuel' n : Nat) (acc : List Nat)
    (h : n < fuel) (h' : n < fuel') : natDigitsGo b u fuel n acc = natDigitsGo b u fuel' n acc := by
  induction fuel generalizing fuel' n acc with
  | zero => omega
  | succ f ih =>
    cases fuel' with
    | zero => omega
    | succ f' =>
      unfold natDigitsGo
      split
      · rfl
      · next hnb =>
        have : n / b < n := Nat.div_lt_self (by omega) (by omega)
        exact ih f' (n / b) _ (by omega) (by omega)

/-- unfolding equation of `natToStrBase` (independent of the fuel) -/
theorem natToStrBase_eq (b : Nat) (hb : 2 ≤ b) (u : Bool) (n : Nat) :
    natToStrBase b u n =
      if n < b then [digitChar u n] else natToStrBase b u (n / b) ++ [digitChar u (n % b)] := by
  unfold natToStrBase
  conv => lhs; unfold natDigitsGo
  split
  · rfl
  · next hnb =>
    have : n / b < n := Nat.div_lt_self (by omega) (by omega)
    rw [natDigitsGo_acc, natDigitsGo_fuel b hb u n (n / b + 1) (n / b) [] this (by omega)]

/-- unfolding equation of `strOfNat` -/
theorem strOfNat_eq (n : Nat) :
    strOfNat n = if n < 10 then [48 + n] else strOfNat (n / 10) ++ [48 + n % 10] := by
  unfold strOfNat
  rw [natToStrBase_eq 10 (by omega)]
  split
  · next h => rw [digitChar_lt_ten false h]
  · rw [digitChar_lt_ten false (Nat.mod_lt _ (by omega))]

theorem strOfNat_of_lt_ten {n : Nat} (h : n < 10) : strOfNat n = [48 + n] := by
  rw [strOfNat_eq, if_pos h]

theorem strOfNat_of_ge_ten {n : Nat} (h : 10 ≤ n) : strOfNat n = strOfNat (n / 10) ++ [48 + n % 10] := by
  rw [strOfNat_eq, if_neg (by omega)]

theorem strOfNat_ne_nil (n : Nat) : strOfNat n ≠ [] := by
  rw [strOfNat_eq]; split <;> simp

theorem strOfNat_allDigits (n : Nat) : AllIn isAsciiDigit (strOfNat n) := by
  induction n using Nat.strongRecOn with
  | _ n ih =>
    rw [strOfNat_eq]
    split
    · intro c hc
      rw [List.mem_singleton.mp hc]
      simp only [isAsciiDigit, Bool.and_eq_true, decide_eq_true_eq]; omega
    · intro c hc
      rcases List.mem_append.mp hc with h | h
      · exact ih (n / 10) (Nat.div_lt_self (by omega) (by omega)) c h
      · rw [List.mem_singleton.mp h]
        have := Nat.mod_lt n (show 0 < 10 by omega)
        simp only [isAsciiDigit, Bool.and_eq_true, decide_eq_true_eq]; omega

theorem strOfNat_length_pos (n : Nat) : 0 < (strOfNat n).length :=
  List.length_pos_iff.mpr (strOfNat_ne_nil n)

theorem strOfNat_length_eq_one_iff (n : Nat) : (strOfNat n).length = 1 ↔ n ≤ 9 := by
  constructor
  · intro h
    by_cases hn : n < 10
    · omega
    · have hlen : (strOfNat n).length = (strOfNat (n / 10)).length + 1 := by
        rw [strOfNat_of_ge_ten (by omega), List.length_append]; rfl
      have := strOfNat_length_pos (n / 10)
      omega
  · intro h; rw [strOfNat_of_lt_ten (by omega)]; rfl

/-- number of digits: `n < 10 ^ k` (with `k ≥ 1`) gives at most `k` digits -/
theorem strOfNat_length_le (n k : Nat) (hk : 0 < k) (h : n < 10 ^ k) : (strOfNat n).length ≤ k := by
  induction k generalizing n with
  | zero => omega
  | succ k ih =>
    by_cases hn : n < 10
    · rw [strOfNat_of_lt_ten hn]; simp
    · rw [strOfNat_of_ge_ten (by omega), List.length_append]
      have hk0 : 0 < k := by
        cases k with
        | zero => simp at h; omega
        | succ _ => omega
      have : n / 10 < 10 ^ k := by
        rw [Nat.pow_succ] at h
        exact Nat.div_lt_of_lt_mul (by rw [Nat.mul_comm]; exact h)
      have := ih (n / 10) hk0 this
      simp; omega

/-- `int(str(n)) == n`, value part -/
theorem digitsVal_strOfNat (n : Nat) : digitsVal (strOfNat n) = (n : Int) := by
  induction n using Nat.strongRecOn with
  | _ n ih =>
    rw [strOfNat_eq]
    split
    · rw [digitsVal_singleton]; omega
    · rw [digitsVal_append_singleton, ih (n / 10) (Nat.div_lt_self (by omega) (by omega))]
      omega

/-- `int(str(n)) == n` for naturals below the digit limit -/
theorem intOf_strOfNat (n : Nat) (h : n < 10 ^ 4300) : intOf (strOfNat n) = .ok (n : Int) := by
  rw [intOf_of_asciiDigits _ (strOfNat_ne_nil n) (strOfNat_allDigits n)
    (strOfNat_length_le n 4300 (by decide) h), digitsVal_strOfNat]

theorem strOfInt_of_nonneg {n : Int} (h : 0 ≤ n) : strOfInt n = strOfNat n.toNat := by
  unfold strOfInt
  rw [if_neg (by omega)]
  congr 1
  omega

theorem strOfInt_natCast (n : Nat) : strOfInt (n : Int) = strOfNat n := by
  rw [strOfInt_of_nonneg (Int.natCast_nonneg n)]; rfl

/-- negative numbers start with `-` -/
theorem strOfInt_of_neg {n : Int} (h : n < 0) : strOfInt n = 45 :: strOfNat n.natAbs := by
  unfold strOfInt; rw [if_pos h]

theorem strOfInt_ne_nil (n : Int) : strOfInt n ≠ [] := by
  unfold strOfInt; split
  · simp
  · exact strOfNat_ne_nil _

theorem strOfInt_allDigits {n : Int} (h : 0 ≤ n) : AllIn isAsciiDigit (strOfInt n) := by
  rw [strOfInt_of_nonneg h]; exact strOfNat_allDigits _

/-- in general: digits, possibly after one leading `-` -/
theorem strOfInt_allIn (n : Int) : AllIn (fun c => isAsciiDigit c || c == 45) (strOfInt n) := by
  unfold strOfInt
  split
  · intro c hc
    rcases List.mem_cons.mp hc with rfl | h
    · rfl
    · have := strOfNat_allDigits _ c h
      show (isAsciiDigit c || c == 45) = true
      rw [this]; rfl
  · intro c hc
    have := strOfNat_allDigits _ c hc
    show (isAsciiDigit c || c == 45) = true
    rw [this]; rfl

/-- one digit -/
theorem strOfInt_digit (n : Int) (h : 0 ≤ n ∧ n ≤ 9) : strOfInt n = [48 + n.toNat] := by
  rw [strOfInt_of_nonneg h.1, strOfNat_of_lt_ten (by omega)]

theorem strOfInt_length_eq_one_iff {n : Int} (h : 0 ≤ n) : (strOfInt n).length = 1 ↔ n ≤ 9 := by
  rw [strOfInt_of_nonneg h, strOfNat_length_eq_one_iff]; omega

/-- `int(str(n)) == n` -/
theorem intOf_strOfInt_of_nonneg {n : Int} (h0 : 0 ≤ n) (h : n < 10 ^ 4300) : intOf (strOfInt n) = .ok n := by
  rw [strOfInt_of_nonneg h0, intOf_strOfNat n.toNat ?_, Int.toNat_of_nonneg h0]
  have h2 : ((10 ^ 4300 : Nat) : Int) = (10 : Int) ^ 4300 := Int.natCast_pow 10 4300
  have : ((n.toNat : Nat) : Int) < ((10 ^ 4300 : Nat) : Int) := by
    rw [Int.toNat_of_nonneg h0, h2]; exact h
  exact Int.ofNat_lt.mp this

theorem strOfIntR_of_small {n : Int} (h : n.natAbs < 10 ^ 4300) : strOfIntR n = .ok (strOfInt n) := by
  unfold strOfIntR
  rw [if_neg]
  · rfl
  · have := strOfNat_length_le n.natAbs 4300 (by decide) h
    unfold intMaxStrDigits; exact Nat.not_lt.mpr this

/-! ## `%d` -/

theorem fmtSigned_length (w : Nat) (z neg : Bool) (d : Str) :
    (fmtSigned w z neg d).length = max w ((if neg then 1 else 0) + d.length) := by
  unfold fmtSigned
  cases neg <;> cases z <;> simp <;> omega

theorem fmtD_width_zero (z : Bool) (n : Int) : fmtD 0 z n = strOfInt n := by
  unfold fmtD fmtSigned strOfInt
  by_cases h : n < 0
  · simp [h]
  · simp [h]

theorem fmtD_length (w : Nat) (z : Bool) (n : Int) : (fmtD w z n).length = max w (strOfInt n).length := by
  unfold fmtD
  rw [fmtSigned_length]
  unfold strOfInt
  by_cases h : n < 0
  · simp [h]; omega
  · simp [h]

theorem mem_fmtSigned {w : Nat} {z neg : Bool} {d : Str} {c : Nat} (h : c ∈ fmtSigned w z neg d) :
    (neg = true ∧ c = 45) ∨ (z = true ∧ c = 48) ∨ (z = false ∧ c = 32) ∨ c ∈ d := by
  unfold fmtSigned at h
  cases z <;> cases neg <;>
    simp only [if_true, if_false, Bool.false_eq_true, List.mem_append, List.mem_replicate,
      List.mem_singleton, List.nil_append] at h <;>
    grind

/-- output alphabet of `%<w>d` / `%0<w>d` -/
theorem fmtD_allIn (w : Nat) (z : Bool) (n : Int) :
    AllIn (fun c => isAsciiDigit c || c == 45 || c == 32) (fmtD w z n) := by
  intro c hc
  show (isAsciiDigit c || c == 45 || c == 32) = true
  rcases mem_fmtSigned hc with ⟨_, rfl⟩ | ⟨_, rfl⟩ | ⟨_, rfl⟩ | h
  · rfl
  · rfl
  · rfl
  · rw [strOfNat_allDigits _ c h]; rfl

/-- with the `0` flag there are no spaces -/
theorem fmtD_allIn_zero (w : Nat) (n : Int) :
    AllIn (fun c => isAsciiDigit c || c == 45) (fmtD w true n) := by
  intro c hc
  show (isAsciiDigit c || c == 45) = true
  rcases mem_fmtSigned hc with ⟨_, rfl⟩ | ⟨_, rfl⟩ | ⟨hz, _⟩ | h
  · rfl
  · rfl
  · cases hz
  · rw [strOfNat_allDigits _ c h]; rfl

/-- without a width (`'%d'`) there is no padding at all -/
theorem fmtD_allIn_nowidth (z : Bool) (n : Int) :
    AllIn (fun c => isAsciiDigit c || c == 45) (fmtD 0 z n) := by
  rw [fmtD_width_zero]; exact strOfInt_allIn n

/-- `'%0<w>d' % n` for `n ≥ 0` consists of digits -/
theorem fmtD_allDigits_of_nonneg (w : Nat) {n : Int} (h : 0 ≤ n) : AllIn isAsciiDigit (fmtD w true n) := by
  intro c hc
  rcases mem_fmtSigned hc with ⟨hneg, _⟩ | ⟨_, rfl⟩ | ⟨hz, _⟩ | h
  · simp only [decide_eq_true_eq] at hneg; omega
  · rfl
  · cases hz
  · exact strOfNat_allDigits _ c h

/-- `'%0<w>d' % n` for `0 ≤ n`: exact length -/
theorem fmtD_length_of_nonneg (w : Nat) {n : Int} (_h : 0 ≤ n) :
    (fmtD w true n).length = max w (strOfInt n).length := fmtD_length w true n

/-- `'%0<w>d' % n` has exactly `w` characters when `0 ≤ n < 10 ^ w` -/
theorem fmtD_length_eq (w : Nat) (hw : 0 < w) {n : Int} (h0 : 0 ≤ n) (h : n < 10 ^ w) :
    (fmtD w true n).length = w := by
  rw [fmtD_length, strOfInt_of_nonneg h0]
  have : n.toNat < 10 ^ w := by
    have h2 : ((10 ^ w : Nat) : Int) = (10 : Int) ^ w := Int.natCast_pow 10 w
    have : ((n.toNat : Nat) : Int) < ((10 ^ w : Nat) : Int) := by
      rw [Int.toNat_of_nonneg h0, h2]; exact h
    exact Int.ofNat_lt.mp this
  have := strOfNat_length_le n.toNat w hw this
  omega

/-- zero padding does not change the value: `int('%0<w>d' % n) == n` -/
theorem digitsVal_fmtD_of_nonneg (w : Nat) {n : Int} (h : 0 ≤ n) : digitsVal (fmtD w true n) = n := by
  unfold fmtD fmtSigned
  have hn : ¬ n < 0 := by omega
  simp only [hn, decide_false, if_false, Bool.false_eq_true, if_true, List.nil_append]
  rw [digitsVal_append, digitsVal_strOfNat]
  have : ∀ k, digitsVal (List.replicate k 48) = 0 := by
    intro k
    induction k with
    | zero => rfl
    | succ k ih => rw [List.replicate_succ, digitsVal_cons, ih]; simp
  rw [this]; omega

theorem fmtDR_of_small (w : Nat) (z : Bool) {n : Int} (h : n.natAbs < 10 ^ 4300) :
    fmtDR w z n = .ok (fmtD w z n) := by
  unfold fmtDR
  rw [if_neg]
  · rfl
  · have := strOfNat_length_le n.natAbs 4300 (by decide) h
    unfold intMaxStrDigits; exact Nat.not_lt.mpr this

/-- `%X` never raises -/
@[simp] theorem fmtX_eq (w : Nat) (z u : Bool) (n : Int) : fmtX w z u n = .ok (fmtXStr w z u n) := rfl

/-! ## arithmetic -/

theorem pymod_of_ne_zero (a : Int) {b : Int} (h : b ≠ 0) : pymod a b = .ok (Int.fmod a b) := by
  unfold pymod; rw [if_neg h]; rfl

/-- for a positive modulus Python's `%` is `Int.emod` -/
theorem pymod_of_pos (a : Int) {b : Int} (h : 0 < b) : pymod a b = .ok (a % b) := by
  rw [pymod_of_ne_zero a (by omega), Int.fmod_eq_emod_of_nonneg a (by omega)]

theorem pymod_zero (a : Int) : pymod a 0 = .error .zeroDivision := rfl

theorem pyfloordiv_of_pos (a : Int) {b : Int} (hb : 0 < b) : pyfloordiv a b = .ok (a / b) := by
  unfold pyfloordiv; rw [if_neg (by omega), Int.fdiv_eq_ediv_of_nonneg a (by omega)]; rfl

theorem pyfloordiv_of_ne_zero (a : Int) {b : Int} (h : b ≠ 0) : pyfloordiv a b = .ok (Int.fdiv a b) := by
  unfold pyfloordiv; rw [if_neg h]; rfl

theorem pydivmod_of_ne_zero (a : Int) {b : Int} (h : b ≠ 0) :
    pydivmod a b = .ok (Int.fdiv a b, Int.fmod a b) := by
  unfold pydivmod; rw [if_neg h]; rfl

/-- for a positive divisor floor division is `Int.ediv` (`/`) and the remainder is `Int.emod` (`%`) -/
theorem pydivmod_of_pos (a : Int) {b : Int} (hb : 0 < b) : pydivmod a b = .ok (a / b, a % b) := by
  rw [pydivmod_of_ne_zero a (by omega), Int.fmod_eq_emod_of_nonneg a (by omega),
    Int.fdiv_eq_ediv_of_nonneg a (by omega)]

/-- `i.bit_length() ≤ k ↔ |i| < 2 ^ k` -/
theorem natBitLength_le_iff (i : Int) (k : Nat) : natBitLength i ≤ k ↔ i.natAbs < 2 ^ k := by
  unfold natBitLength
  split
  · next h => subst h; simp [Nat.pow_pos]
  · next h =>
    have hne : i.natAbs ≠ 0 := by omega
    rw [← Nat.log2_lt hne]; omega

theorem intBitLength_le_iff (i : Int) (k : Nat) : intBitLength i ≤ (k : Int) ↔ i.natAbs < 2 ^ k := by
  unfold intBitLength
  rw [← natBitLength_le_iff]; omega

theorem intBitLength_gt_iff (i : Int) (k : Nat) : intBitLength i > (k : Int) ↔ 2 ^ k ≤ i.natAbs := by
  have := intBitLength_le_iff i k
  omega

/-! ## non-vacuity examples -/

example : intOf [49, 50, 51] = .ok 123 := by
  rw [intOf_of_asciiDigits _ (by decide) (by decide) (by decide)]; rfl
example : (intOf [32, 45, 0x661, 95, 0xFF12, 0x85]).toOption = some (-12) := by decide +kernel
example : (intOf [49, 50, 0x1c]).toOption = none := by decide +kernel
example : (intOfBase [48, 120, 49, 102] 16).toOption = some 31 ∧
    (intOfBase [122, 90] 36).toOption = some 1295 := by decide +kernel
example : strOfInt (-120) = [45, 49, 50, 48] ∧ fmtD 3 true (-5) = [45, 48, 53] := by decide +kernel
example : fmtD 2 true 7 = [48, 55] ∧ (fmtD 2 true 7).length = 2 := by decide +kernel
example : (pymod (-7) 3).toOption = some 2 ∧ (pyfloordiv (-7) 3).toOption = some (-3) := by decide +kernel
example : intBitLength 255 = 8 ∧ intBitLength (-256) = 9 := by decide +kernel

end Py
