import PyRt
import Spec.Checksum
import Lemmas.Int
import Lemmas.Str
/-!
# Lemmas.Refine — transfer lemmas between the `PyRt` primitives the translator emits and the
primitives of the hand-written spec models (`Spec/Checksum.lean`)

The generated code works on `Int` and on one-character strings, the spec models on `Nat` and on code points.
Every lemma here has the form `Py.prim (cast args) = cast <$> Spec.prim args` and holds **unconditionally**
(for every argument, on the error paths too), so that a generated function can be rewritten into its spec
model statement by statement.

* `forIn_sim`, `mapM_sim` — `for … in …` loops with one `let mut` variable and comprehensions
* `index_single`, `getItemL_map_natCast`, `getItem_natCast`, `getItem_neg_natCast`, `indexL_map_natCast`
* `pymod_natCast`, `pymod_int_natCast`, `pydivmod_natCast`
* `pyDec`, `pyB36` — the value tables of CPython's `int(c)` / `int(c, 36)` for one-character strings **as the
  runtime `Py.intOf` / `Py.intOfBase` computes them**, with `DecExtends pyDec`, `B36Extends pyB36`
* `natToStr_eq`, `fmt02d_eq_fmtD`, `pyInt_eq_intOf`
-/
namespace Lemmas.Refine
open Py Spec.Checksum

/-! ## functor/monad plumbing for `R` -/

@[simp] theorem map_ok {α β : Type} (f : α → β) (a : α) : f <$> (Except.ok a : R α) = .ok (f a) := rfl
@[simp] theorem map_error {α β : Type} (f : α → β) (e : Exc) : f <$> (Except.error e : R α) = .error e := rfl
@[simp] theorem bind_ok {α β : Type} (a : α) (f : α → R β) : ((Except.ok a : R α) >>= f) = f a := rfl
@[simp] theorem bind_error {α β : Type} (e : Exc) (f : α → R β) :
    ((Except.error e : R α) >>= f) = .error e := rfl
@[simp] theorem pure_ok {α : Type} (a : α) : (pure a : R α) = .ok a := rfl
@[simp] theorem raise_error {α : Type} (e : Exc) : (raise e : R α) = .error e := rfl

theorem map_eq_bind {α β : Type} (f : α → β) (x : R α) : f <$> x = x >>= fun a => .ok (f a) := by
  cases x <;> rfl

/-- a `for x in l: s = body(x, s)` loop (one mutable variable, no `break`/`return` inside) run on the image
`l.map ψ`, `φ s` of spec-level data is the image of the spec-level `foldlM` -/
theorem forIn_sim {α α' σ τ : Type} (φ : σ → τ) (ψ : α → α') (g : α' → τ → R (ForInStep τ))
    (f : σ → α → R σ) (l : List α)
    (h : ∀ a ∈ l, ∀ s, g (ψ a) (φ s) = (f s a >>= fun r => .ok (ForInStep.yield (φ r)))) (s : σ) :
    forIn (l.map ψ) (φ s) g = φ <$> l.foldlM f s := by
  induction l generalizing s with
  | nil => rfl
  | cons a l ih =>
    rw [List.map_cons, List.forIn_cons, h a List.mem_cons_self, List.foldlM_cons]
    cases hf : f s a with
    | error e => rfl
    | ok r =>
      simp only [bind_ok]
      exact ih (fun b hb => h b (List.mem_cons_of_mem _ hb)) r

/-- a comprehension `[body(x) for x in l]` on the image of spec-level data -/
theorem mapM_sim {α α' β β' : Type} (φ : β → β') (ψ : α → α') (g : α' → R β') (f : α → R β) (l : List α)
    (h : ∀ a ∈ l, g (ψ a) = φ <$> f a) :
    (l.map ψ).mapM g = (List.map φ) <$> l.mapM f := by
  induction l with
  | nil => rfl
  | cons a l ih =>
    rw [List.map_cons, List.mapM_cons, List.mapM_cons, h a List.mem_cons_self,
      ih (fun b hb => h b (List.mem_cons_of_mem _ hb))]
    cases f a with
    | error e => rfl
    | ok r => cases l.mapM f <;> rfl

/-! ## searching and indexing -/

theorem findAux_single (c : Nat) : ∀ (l : Str) (off : Nat),
    findAux [c] l off = if l.idxOf c < l.length then some (off + l.idxOf c) else none
  | [], off => by simp [findAux]
  | a :: t, off => by
    unfold findAux
    have hp : List.isPrefixOf [c] (a :: t) = (c == a) := by simp [List.isPrefixOf]
    rw [hp, findAux_single c t (off + 1), List.idxOf_cons]
    by_cases hca : c = a
    · subst hca; simp
    · have h1 : (c == a) = false := beq_eq_false_iff_ne.mpr hca
      have h2 : (a == c) = false := beq_eq_false_iff_ne.mpr (Ne.symm hca)
      simp only [h1, h2, Bool.false_eq_true, if_false, cond_false, List.length_cons,
        Nat.add_lt_add_iff_right]
      split
      · congr 1; omega
      · rfl

/-- `alphabet.index(c)` for a one-character string `c` -/
theorem index_single (l : Str) (c : Nat) :
    Py.index l [c] = (fun (n : Nat) => (n : Int)) <$> Spec.Checksum.index l c := by
  rw [index_eq, findAux_single]
  unfold Spec.Checksum.index
  by_cases h : l.idxOf c < l.length <;> simp [h]

/-- `table[i]` for a non-negative index -/
theorem getItemL_map_natCast {α β : Type} (f : α → β) (l : List α) (i : Nat) :
    Py.getItemL (l.map f) (i : Int) = f <$> Spec.Checksum.getItem l i := by
  unfold Spec.Checksum.getItem
  by_cases h : i < l.length
  · rw [getItemL_natCast _ _ (by simpa using h), List.getElem?_eq_getElem h]
    simp
  · rw [getItemL_eq, dif_neg (by simp; omega), List.getElem?_eq_none (by omega)]
    rfl

theorem getItemL_natCast' {α : Type} (l : List α) (i : Nat) :
    Py.getItemL l (i : Int) = Spec.Checksum.getItem l i := by
  have := getItemL_map_natCast id l i
  simpa using this

/-- `alphabet[i]` for a non-negative index: a one-character string -/
theorem getItem_natCast (l : Str) (i : Nat) :
    Py.getItem l (i : Int) = (fun c => [c]) <$> Spec.Checksum.getItem l i := by
  unfold Py.getItem
  rw [getItemL_natCast']
  cases Spec.Checksum.getItem l i <;> rfl

/-- `alphabet[-k]` for `k ≥ 0` -/
theorem getItem_neg_natCast (l : Str) (k : Nat) :
    Py.getItem l (-(k : Int)) = (fun c => [c]) <$> Spec.Checksum.getNeg l k := by
  unfold Spec.Checksum.getNeg
  by_cases hk : k = 0
  · subst hk
    rw [if_pos rfl]
    exact getItem_natCast l 0
  · rw [if_neg hk]
    by_cases hle : k ≤ l.length
    · rw [if_pos hle]
      unfold Py.getItem Spec.Checksum.getItem
      rw [getItemL_of_neg _ (by omega) (by omega), List.getElem?_eq_getElem (by omega)]
      simp only [pure_ok, map_ok]
      congr 3
      omega
    · rw [if_neg hle]
      unfold Py.getItem
      rw [getItemL_eq, dif_neg (by omega)]
      rfl

/-- `row.index(v)` on a row of non-negative integers -/
theorem indexL_map_natCast (l : List Nat) (v : Nat) :
    Py.indexL (l.map (fun (n : Nat) => (n : Int))) (v : Int) =
      (fun (n : Nat) => (n : Int)) <$> Spec.Checksum.index l v := by
  unfold Py.indexL Spec.Checksum.index
  have hfi : (l.map (fun (n : Nat) => (n : Int))).findIdx? (· == (v : Int)) = l.findIdx? (· == v) := by
    rw [List.findIdx?_map]
    congr 1
    funext n
    rw [Bool.eq_iff_iff]
    simp [Int.natCast_inj]
  rw [hfi]
  by_cases h : l.idxOf v < l.length
  · rw [if_pos h]
    have hm : v ∈ l := List.idxOf_lt_length_iff.mp h
    have : l.findIdx? (· == v) = some (l.idxOf v) := by
      rw [List.findIdx?_eq_some_iff_findIdx_eq]
      exact ⟨h, rfl⟩
    rw [this]
    rfl
  · rw [if_neg h]
    have hm : v ∉ l := fun hm => h (List.idxOf_lt_length_iff.mpr hm)
    have : l.findIdx? (· == v) = none := by
      rw [List.findIdx?_eq_none_iff]
      intro x hx
      exact beq_eq_false_iff_ne.mpr (fun hxv => hm (hxv ▸ hx))
    rw [this]
    rfl

/-! ## arithmetic -/

theorem pymod_natCast (a m : Nat) :
    Py.pymod (a : Int) (m : Int) = if m = 0 then .error .zeroDivision else .ok ((a % m : Nat) : Int) := by
  unfold Py.pymod
  by_cases hm : m = 0
  · subst hm; rfl
  · rw [if_neg (by omega), if_neg hm]
    simp only [pure_ok]
    congr 1
    rw [Int.fmod_eq_emod_of_nonneg _ (by omega)]
    rfl

/-- Python's `x % m` for an arbitrary integer `x` and a length `m` -/
theorem pymod_int_natCast (x : Int) (m : Nat) :
    Py.pymod x (m : Int) = if m = 0 then .error .zeroDivision else .ok ((pmod x m : Nat) : Int) := by
  unfold Py.pymod pmod
  by_cases hm : m = 0
  · subst hm; rfl
  · rw [if_neg (by omega), if_neg hm]
    simp only [pure_ok]
    congr 1
    rw [Int.fmod_eq_emod_of_nonneg _ (by omega), Int.toNat_of_nonneg (Int.emod_nonneg _ (by omega))]

theorem emod_natCast_pmod (x : Int) (m : Nat) (hm : m ≠ 0) : x % (m : Int) = ((pmod x m : Nat) : Int) := by
  unfold pmod
  rw [Int.toNat_of_nonneg (Int.emod_nonneg _ (by omega))]

theorem pydivmod_natCast (a m : Nat) :
    Py.pydivmod (a : Int) (m : Int) =
      if m = 0 then .error .zeroDivision else .ok (((a / m : Nat) : Int), ((a % m : Nat) : Int)) := by
  unfold Py.pydivmod
  by_cases hm : m = 0
  · subst hm; rfl
  · rw [if_neg (by omega), if_neg hm]
    simp only [pure_ok]
    congr 2
    · rw [Int.fdiv_eq_ediv_of_nonneg _ (by omega)]; rfl
    · rw [Int.fmod_eq_emod_of_nonneg _ (by omega)]; rfl


/-! ## casts -/

/-- the embedding of spec-level naturals into the generated code's integers -/
abbrev natCast : Nat → Int := fun n => (n : Int)

theorem beq_natCast (c t : Nat) : (((c : Nat) : Int) == ((t : Nat) : Int)) = (c == t) := by
  rw [Bool.eq_iff_iff]; simp [Int.natCast_inj]

theorem sumInt_map_natCast (l : List Nat) : Py.sumInt (l.map natCast) = natCast l.sum := by
  induction l with
  | nil => rfl
  | cons a l ih => rw [List.map_cons, sumInt_cons, ih, List.sum_cons]; simp [natCast]

theorem enumerate_map_natCast {α β : Type} (f : α → β) (l : List α) (k : Nat) :
    Py.enumerate (l.map f) (k : Int) = (l.zipIdx k).map (fun p => ((p.2 : Int), f p.1)) := by
  induction l generalizing k with
  | nil => rfl
  | cons a l ih =>
    simp only [List.map_cons, enumerate_cons, List.zipIdx_cons]
    congr 1
    exact ih (k + 1)

theorem chars_reverse_eq (s : Str) : (Py.chars s).reverse = s.reverse.map (fun c => [c]) := by
  simp [Py.chars]

/-! ## `mapM` in `R` -/

theorem mem_of_mapM_ok {α β : Type} (f : α → R β) : ∀ (l : List α) (ws : List β),
    l.mapM f = .ok ws → ∀ w ∈ ws, ∃ a ∈ l, f a = .ok w
  | [], ws, h => by
    cases h; simp
  | c :: l, ws, h => by
    rw [List.mapM_cons] at h
    cases hfa : f c with
    | error e => rw [hfa] at h; cases h
    | ok v =>
      cases hm : l.mapM f with
      | error e => rw [hfa, hm] at h; cases h
      | ok vs =>
        rw [hfa, hm] at h
        cases h
        intro w hw
        rcases List.mem_cons.mp hw with rfl | hw
        · exact ⟨c, List.mem_cons_self, hfa⟩
        · obtain ⟨a, ha, hfa'⟩ := mem_of_mapM_ok f l vs hm w hw
          exact ⟨a, List.mem_cons_of_mem _ ha, hfa'⟩

/-- a comprehension over a list with a failing element fails (with the only exception the body can raise) -/
theorem mapM_error_of_mem {α β : Type} (f : α → R β) (e0 : Exc) : ∀ (l : List α),
    (∀ c ∈ l, ∀ e, f c = .error e → e = e0) → (∃ c ∈ l, ∃ e, f c = .error e) → l.mapM f = .error e0
  | [], _, hex => by obtain ⟨c, hc, _⟩ := hex; cases hc
  | a :: l, hall, hex => by
    rw [List.mapM_cons]
    cases hfa : f a with
    | error e => rw [hall a List.mem_cons_self e hfa]; rfl
    | ok v =>
      have : l.mapM f = .error e0 := by
        apply mapM_error_of_mem f e0 l (fun c hc => hall c (List.mem_cons_of_mem _ hc))
        obtain ⟨c, hc, e, he⟩ := hex
        rcases List.mem_cons.mp hc with rfl | hc
        · rw [hfa] at he; cases he
        · exact ⟨c, hc, e, he⟩
      rw [this]; rfl

theorem index_ok_lt {l : List Nat} {c i : Nat} (h : Spec.Checksum.index l c = .ok i) : i < l.length := by
  unfold Spec.Checksum.index at h
  split at h
  · cases h; assumption
  · cases h

/-! ## `t[::2]`, `t[1::2]` -/

theorem everyNth_two_map {α β : Type} (f : α → β) : ∀ (l : List α),
    Py.everyNth 2 (l.map f) = (Py.everyNth 2 l).map f
  | [] => rfl
  | [a] => rfl
  | a :: b :: r => by
    have ih := everyNth_two_map f r
    unfold Py.everyNth at ih ⊢
    simp only [List.map_cons, Py.everyNthGo]
    rw [ih]

theorem everyNth_two : ∀ (l : List Nat), Py.everyNth 2 l = Luhn.evens l
  | [] => rfl
  | [a] => rfl
  | a :: b :: r => by
    have ih := everyNth_two r
    unfold Py.everyNth at ih ⊢
    simp only [Py.everyNthGo, Luhn.evens]
    rw [ih]

theorem odds_eq_evens_tail : ∀ (l : List Nat), Luhn.odds l = Luhn.evens l.tail
  | [] => rfl
  | [a] => rfl
  | [a, b] => rfl
  | a :: b :: c :: r => by
    have ih := odds_eq_evens_tail (c :: r)
    simp only [Luhn.odds, List.tail_cons, Luhn.evens] at ih ⊢
    rw [ih]

theorem sliceStep_evens (l : List Nat) :
    Py.sliceStepL (l.map natCast) none none 2 = (Luhn.evens l).map natCast := by
  unfold Py.sliceStepL
  rw [sliceL_none_none, everyNth_two_map, everyNth_two]

theorem sliceStep_odds (l : List Nat) :
    Py.sliceStepL (l.map natCast) (some (1 : Int)) none 2 = (Luhn.odds l).map natCast := by
  unfold Py.sliceStepL
  rw [sliceL_nonneg_none _ (by decide), odds_eq_evens_tail, ← everyNth_two, ← everyNth_two_map]
  congr 1
  cases l <;> simp

/-! ## `int(c)`, `int(c, 36)` of a one-character string, as the runtime computes them -/

theorem scanMagnitude_nil (b : Nat) : scanMagnitude b [] = .error .valueError := rfl

/-- `int(c, base)` of a one-character string is never negative -/
theorem intOfBase_single_nonneg (c base : Nat) (v : Int) (h : intOfBase [c] base = .ok v) : 0 ≤ v := by
  unfold intOfBase at h
  split at h
  · cases h
  · simp only [List.map_cons, List.map_nil] at h
    generalize intByte c = b at h
    by_cases hsp : isCSpace b = true
    · simp [List.dropWhile, hsp, intSign, intPrefix, scanMagnitude_nil] at h
    · have hd : List.dropWhile isCSpace [b] = [b] := by simp [List.dropWhile, hsp]
      rw [hd] at h
      by_cases h43 : b = 43
      · subst h43; simp [intSign, intPrefix, scanMagnitude_nil] at h
      · by_cases h45 : b = 45
        · subst h45; simp [intSign, intPrefix, scanMagnitude_nil] at h
        · have hs : intSign [b] = (false, [b]) := by simp [intSign, h43, h45]
          rw [hs] at h
          simp only [] at h
          split at h
          · cases h
          · split at h
            · cases h
            · simp at h
              omega

/-- the table `c ↦ int(c)` of the runtime (`Py.intOf` on one-character strings): ASCII digits and every
other Unicode decimal digit the runtime accepts -/
def pyDec (c : Nat) : Option Nat :=
  match Py.intOf [c] with
  | .ok v => some v.toNat
  | .error _ => none

/-- the table `c ↦ int(c, 36)` of the runtime for ASCII characters; `none` for non-ASCII characters, which
`mod_97_10._to_base10` rejects beforehand (`number.encode('ascii')`) -/
def pyB36 (c : Nat) : Option Nat :=
  if c < 128 then
    match Py.intOfBase [c] 36 with
    | .ok v => some v.toNat
    | .error _ => none
  else none

/-- `int(n)` for a one-character string `n` -/
theorem intOf_single (c : Nat) : Py.intOf [c] = natCast <$> intChar pyDec c := by
  unfold intChar pyDec
  cases h : Py.intOf [c] with
  | error e => rw [intOf_error _ _ h]; rfl
  | ok v =>
    have := intOfBase_single_nonneg c 10 v h
    simp only [pure_ok, map_ok, natCast]
    congr 1
    omega

/-- `int(x, 36)` for a one-character ASCII string `x` -/
theorem intOfBase36_single (c : Nat) (hc : c < 128) :
    Py.intOfBase [c] 36 = natCast <$> intChar pyB36 c := by
  unfold intChar pyB36
  rw [if_pos hc]
  cases h : Py.intOfBase [c] 36 with
  | error e => rw [intOfBase_error _ _ _ h]; rfl
  | ok v =>
    have := intOfBase_single_nonneg c 36 v h
    simp only [pure_ok, map_ok, natCast]
    congr 1
    omega

theorem pyDec_extends : DecExtends pyDec := by
  intro c hc
  unfold pyDec
  rw [intOf_singleton_digit c hc]
  simp only [isAsciiDigit, Bool.and_eq_true, decide_eq_true_eq] at hc
  simp only [Option.some.injEq]
  omega

theorem pyB36_extends : B36Extends pyB36 := by
  intro c hc
  have hlt : c < 128 := by
    simp only [isAsciiAlnum, isAsciiDigit, isAsciiAlpha, isAsciiUpper, isAsciiLower, Bool.or_eq_true,
      Bool.and_eq_true, decide_eq_true_eq] at hc
    omega
  have hv : asciiDigitVal36 c = asciiB36 c := by
    simp only [isAsciiAlnum, isAsciiDigit, isAsciiAlpha, isAsciiUpper, isAsciiLower, Bool.or_eq_true,
      Bool.and_eq_true, decide_eq_true_eq] at hc
    unfold asciiDigitVal36 asciiB36
    simp only [isAsciiDigit, isAsciiUpper, isAsciiLower, Bool.and_eq_true, decide_eq_true_eq]
  obtain ⟨h1, _⟩ := asciiB36_spec c hc
  unfold pyB36
  rw [if_pos hlt, intOfBase_singleton_36 c (b36Val c) (hv.trans h1), h1]
  simp

/-! ## `str(n)`, `'%02d' % n`, `int(s)` on digit strings of every length -/

theorem natToStrAux_eq (fuel n : Nat) (acc : Str) :
    natToStrAux fuel n acc = natDigitsGo 10 false fuel n acc := by
  induction fuel generalizing n acc with
  | zero => rfl
  | succ f ih =>
    unfold natToStrAux natDigitsGo
    split
    · next h => rw [digitChar_lt_ten false h]
    · rw [ih, digitChar_lt_ten false (Nat.mod_lt _ (by omega))]

/-- the spec's `str(n)` is the runtime's -/
theorem natToStr_eq (n : Nat) : natToStr n = Py.strOfNat n := natToStrAux_eq _ _ _

theorem strOfInt_natCast_eq (n : Nat) : Py.strOfInt (natCast n) = natToStr n := by
  rw [natToStr_eq]; exact strOfInt_natCast n

/-- `'%02d' % k` -/
theorem fmtD2_natCast (k : Nat) : Py.fmtD 2 true (natCast k) = fmt02d k := by
  unfold Py.fmtD fmt02d
  have h0 : decide (natCast k < 0) = false := by simp [natCast]
  have hk : (natCast k).natAbs = k := by simp [natCast]
  rw [h0, hk, natToStr_eq]
  have hpos := strOfNat_length_pos k
  unfold Py.fmtSigned
  simp only [Bool.false_eq_true, if_false, if_true, List.length_nil, Nat.zero_add, List.nil_append]
  by_cases h : (Py.strOfNat k).length < 2
  · have : (Py.strOfNat k).length = 1 := by omega
    simp [this]
  · have : 2 - (Py.strOfNat k).length = 0 := by omega
    simp [h, this]

/-- `int(s)` of a non-empty string of ASCII digits, in terms of `scanMagnitude` -/
theorem intOf_digits_scan (s : Str) (h1 : s ≠ []) (h2 : AllIn isAsciiDigit s) :
    Py.intOf s = natCast <$> scanMagnitude 10 s := by
  have hb : ∀ c ∈ s, 48 ≤ c ∧ c ≤ 57 := by
    intro c hc
    simpa [isAsciiDigit] using h2 c hc
  have hmap : s.map intByte = s := by
    conv => rhs; rw [← List.map_id s]
    apply List.map_congr_left
    intro c hc
    exact intByte_of_lt (by have := hb c hc; omega)
  cases s with
  | nil => exact absurd rfl h1
  | cons a t =>
    have ha := hb a List.mem_cons_self
    have hsp : isCSpace a = false := by
      simp [isCSpace]; omega
    have hdrop : (a :: t).dropWhile isCSpace = a :: t := by
      rw [List.dropWhile_cons, hsp]; rfl
    have hsign : intSign (a :: t) = (false, a :: t) := by
      unfold intSign
      simp only [beq_iff_eq]
      rw [if_neg (by omega), if_neg (by omega)]
    have hprefix : intPrefix 10 (a :: t) = (10, a :: t, false) := by
      unfold intPrefix
      cases t with
      | nil => rfl
      | cons x t' => simp
    unfold Py.intOf Py.intOfBase
    simp only [hmap, hdrop, hsign, hprefix]
    cases scanMagnitude 10 (a :: t) with
    | error e => rfl
    | ok m => rfl

theorem scanMagnitude_too_long (s : Str) (h2 : AllIn isAsciiDigit s) (h3 : 4300 < s.length) :
    scanMagnitude 10 s = .error .valueError := by
  have hne : s ≠ [] := by intro h; subst h; simp at h3
  have hdig : ∀ c ∈ s, digitValue c < 10 := by
    intro c hc
    rw [digitValue_of_digit (h2 c hc)]
    have := h2 c hc
    simp only [isAsciiDigit, Bool.and_eq_true, decide_eq_true_eq] at this
    omega
  have hall : ∀ c ∈ s, isDigitOrUnderscore 10 c = true := by
    intro c hc
    unfold isDigitOrUnderscore
    rw [decide_eq_true (hdig c hc)]; rfl
  have hno : ∀ c ∈ s, c ≠ 95 := by
    intro c hc h95
    have := hdig c hc
    rw [h95, digitValue_95] at this
    omega
  have hfilter : s.filter (fun b => b != 95) = s :=
    List.filter_eq_self.mpr (fun c hc => by simpa using hno c hc)
  have hhead : (s.head? == some 95) = false := by
    cases s with
    | nil => exact absurd rfl hne
    | cons a t =>
      have := hno a List.mem_cons_self
      simp [this]
  have hlast : (s.getLast? == some 95) = false := by
    rw [List.getLast?_eq_some_getLast hne]
    have := hno _ (List.getLast_mem hne)
    simp [this]
  have hempty : s.isEmpty = false := by
    cases s with
    | nil => exact absurd rfl hne
    | cons a t => rfl
  unfold scanMagnitude
  simp only [takeWhile_eq_self hall, dropWhile_eq_nil hall, hfilter, hhead, hlast, hempty,
    noDoubleUnderscore_of_no95 s hno, List.dropWhile_nil, List.isEmpty_nil, Bool.not_true, Bool.or_self,
    Bool.false_eq_true, if_false]
  have : decide (s.length > intMaxStrDigits) = true := decide_eq_true (by unfold intMaxStrDigits; omega)
  rw [this]
  rfl

theorem decFold_cast (s : Str) (h : AllIn isAsciiDigit s) :
    Py.digitsVal s = natCast (s.foldl (fun acc c => acc * 10 + (c - 48)) 0) := by
  unfold Py.digitsVal
  suffices H : ∀ (acc : Nat), s.foldl (fun (a : Int) (c : Nat) => a * 10 + ((c : Int) - 48)) (acc : Int) =
      natCast (s.foldl (fun acc c => acc * 10 + (c - 48)) acc) from H 0
  induction s with
  | nil => intro acc; rfl
  | cons a t ih =>
    intro acc
    have ha := h a List.mem_cons_self
    simp only [isAsciiDigit, Bool.and_eq_true, decide_eq_true_eq] at ha
    simp only [List.foldl_cons]
    rw [← ih (fun c hc => h c (List.mem_cons_of_mem _ hc))]
    congr 1
    omega

/-- `int(s)` for a string of ASCII digits, every length: the spec's `pyInt` with CPython's limit -/
theorem intOf_eq_pyInt (s : Str) (h : AllIn isAsciiDigit s) :
    Py.intOf s = natCast <$> pyInt defaultMaxDigits s := by
  unfold pyInt defaultMaxDigits
  by_cases hnil : s = []
  · subst hnil; rfl
  · rw [if_neg hnil]
    have hall : s.all isAsciiDigit = true := List.all_eq_true.mpr h
    rw [hall]
    simp only [Bool.not_true, Bool.false_eq_true, if_false]
    by_cases hlen : 4300 < s.length
    · rw [if_pos ⟨by decide, hlen⟩, intOf_digits_scan s hnil h, scanMagnitude_too_long s h hlen]
      rfl
    · rw [if_neg (by omega), intOf_of_asciiDigits s hnil h (by omega), decFold_cast s h]
      rfl

end Lemmas.Refine
