import Lemmas.Hoare
import Lemmas.Str
import Lemmas.Int
/-!
# Lemmas.StrSpecs — `@[spec]` triples for the partial operations of `PyRt.Str`, `PyRt.Misc`, `PyRt.Int`

The precondition of each is its safety condition (a pure hypothesis `h`, which `mvcgen` leaves as a
verification condition); the postcondition says what the closing tactic needs about the result.
-/
open Py Std.Do
set_option mvcgen.warning false

namespace Py

/-! ## searching -/

theorem index_Ok (x sub : Str) (h : strIn sub x = true) :
    Ok (index x sub) (fun i => 0 ≤ i ∧ i + sub.length ≤ x.length) := by
  obtain ⟨i, hi, h1, _⟩ := index_of_strIn h
  exact ⟨i, hi, by omega, by omega⟩

@[spec] theorem index_spec (x sub : Str) (h : strIn sub x = true) :
    ⦃⌜True⌝⦄ index x sub ⦃post⟨fun i => ⌜0 ≤ i ∧ i + sub.length ≤ x.length⌝, fun _ => ⌜False⌝⟩⦄ :=
  triple_of_Ok (index_Ok x sub h)

/-- single character: `alphabet.index(c)` with `c in alphabet` -/
theorem index_single_Ok (x : Str) (c : Nat) (h : x.contains c = true) :
    Ok (index x [c]) (fun i => 0 ≤ i ∧ i < x.length ∧ x[i.toNat]? = some c) := by
  obtain ⟨i, hi, h1, h2⟩ := index_single_of_mem (by simpa using h)
  exact ⟨i, hi, by omega, by omega, by simpa using h2⟩

theorem index_single_spec (x : Str) (c : Nat) (h : x.contains c = true) :
    ⦃⌜True⌝⦄ index x [c] ⦃post⟨fun i => ⌜0 ≤ i ∧ i < x.length ∧ x[i.toNat]? = some c⌝, fun _ => ⌜False⌝⟩⦄ :=
  triple_of_Ok (index_single_Ok x c h)

/-- the argument is a one-character string (`n` from `for n in number`) -/
theorem index_of_length_one_Ok (x n : Str) (h : n.length = 1 ∧ strIn n x = true) :
    Ok (index x n) (fun i => 0 ≤ i ∧ i < x.length) := by
  obtain ⟨i, hi, h1, h2⟩ := index_Ok x n h.2
  exact ⟨i, hi, h1, by omega⟩

theorem indexL_Ok {α : Type} [BEq α] [LawfulBEq α] (l : List α) (v : α) (h : l.contains v = true) :
    Ok (indexL l v) (fun i => 0 ≤ i ∧ i < l.length ∧ l[i.toNat]? = some v) := by
  obtain ⟨i, hi, h1, h2⟩ := indexL_of_contains h
  exact ⟨i, hi, by omega, by omega, by simpa using h2⟩

@[spec] theorem indexL_spec {α : Type} [BEq α] [LawfulBEq α] (l : List α) (v : α) (h : l.contains v = true) :
    ⦃⌜True⌝⦄ indexL l v ⦃post⟨fun i => ⌜0 ≤ i ∧ i < l.length ∧ l[i.toNat]? = some v⌝, fun _ => ⌜False⌝⟩⦄ :=
  triple_of_Ok (indexL_Ok l v h)

/-! ## `ord`, `chr`, `max`, `min` -/

@[spec] theorem ord_spec (s : Str) (h : s.length = 1) :
    ⦃⌜True⌝⦄ ord s ⦃post⟨fun r => ⌜s = [r.toNat] ∧ 0 ≤ r⌝, fun _ => ⌜False⌝⟩⦄ := by
  apply triple_of_Ok
  obtain ⟨c, rfl, hc⟩ := ord_of_length_one h
  exact ⟨c, hc, by simp, by omega⟩

@[spec] theorem chr_spec (n : Int) (h : 0 ≤ n ∧ n < 0x110000) :
    ⦃⌜True⌝⦄ chr n ⦃post⟨fun r => ⌜r = [n.toNat]⌝, fun _ => ⌜False⌝⟩⦄ :=
  triple_of_Ok ⟨_, chr_ok h, rfl⟩

@[spec] theorem maxInt_spec (l : List Int) (h : l ≠ []) :
    ⦃⌜True⌝⦄ maxInt l ⦃post⟨fun m => ⌜m ∈ l ∧ ∀ x ∈ l, x ≤ m⌝, fun _ => ⌜False⌝⟩⦄ :=
  triple_of_Ok (by obtain ⟨m, h1, h2⟩ := maxInt_ok h; exact ⟨m, h1, h2⟩)

@[spec] theorem minInt_spec (l : List Int) (h : l ≠ []) :
    ⦃⌜True⌝⦄ minInt l ⦃post⟨fun m => ⌜m ∈ l ∧ ∀ x ∈ l, m ≤ x⌝, fun _ => ⌜False⌝⟩⦄ :=
  triple_of_Ok (by obtain ⟨m, h1, h2⟩ := minInt_ok h; exact ⟨m, h1, h2⟩)

/-! ## powers and shifts -/

@[spec] theorem pypow_spec (a b : Int) (h : 0 ≤ b) :
    ⦃⌜True⌝⦄ pypow a b ⦃post⟨fun r => ⌜r = a ^ b.toNat⌝, fun _ => ⌜False⌝⟩⦄ := by
  apply triple_of_Ok
  unfold pypow
  rw [if_neg (by omega)]
  exact ⟨_, rfl, rfl⟩

@[spec] theorem pypowmod_spec (a b m : Int) (h : 0 ≤ b ∧ m ≠ 0) :
    ⦃⌜True⌝⦄ pypowmod a b m ⦃post⟨fun r => ⌜r = Int.fmod (a ^ b.toNat) m⌝, fun _ => ⌜False⌝⟩⦄ := by
  apply triple_of_Ok
  unfold pypowmod
  have h1 : (m == 0) = false := by simpa using h.2
  rw [h1, if_neg (by simp), if_neg (by omega)]
  exact ⟨_, rfl, rfl⟩

@[spec] theorem pyshl_spec (a b : Int) (h : 0 ≤ b) :
    ⦃⌜True⌝⦄ pyshl a b ⦃post⟨fun r => ⌜r = a * 2 ^ b.toNat⌝, fun _ => ⌜False⌝⟩⦄ := by
  apply triple_of_Ok
  unfold pyshl
  rw [if_neg (by omega)]
  exact ⟨_, rfl, rfl⟩

@[spec] theorem pyshr_spec (a b : Int) (h : 0 ≤ b) :
    ⦃⌜True⌝⦄ pyshr a b ⦃post⟨fun r => ⌜r = Int.fdiv a (2 ^ b.toNat)⌝, fun _ => ⌜False⌝⟩⦄ := by
  apply triple_of_Ok
  unfold pyshr
  rw [if_neg (by omega)]
  exact ⟨_, rfl, rfl⟩

/-! ## splitting -/

theorem splitOnR_Ok (x sep : Str) (m : Option Nat) (h : sep ≠ []) :
    Ok (splitOnR x sep m) (fun r => r = splitOn x sep m) := by
  unfold splitOnR
  have : sep.isEmpty = false := by cases sep <;> simp_all
  rw [this]
  exact ⟨_, rfl, rfl⟩

@[spec] theorem splitOnR_spec (x sep : Str) (m : Option Nat) (h : sep ≠ []) :
    ⦃⌜True⌝⦄ splitOnR x sep m
    ⦃post⟨fun r => ⌜r = splitOn x sep m ∧ 0 < r.length ∧ join sep r = x ∧ ∀ p ∈ r, ∀ c ∈ p, c ∈ x⌝, fun _ => ⌜False⌝⟩⦄ := by
  apply triple_of_Ok
  obtain ⟨r, hr, rfl⟩ := splitOnR_Ok x sep m h
  exact ⟨_, hr, rfl, splitOn_length_pos x sep m, join_splitOn h x m, fun p hp => mem_splitOn hp⟩

theorem rsplitOnR_Ok (x sep : Str) (m : Option Nat) (h : sep ≠ []) :
    Ok (rsplitOnR x sep m) (fun r => r = rsplitOn x sep m) := by
  unfold rsplitOnR
  have : sep.isEmpty = false := by cases sep <;> simp_all
  rw [this]
  exact ⟨_, rfl, rfl⟩

@[spec] theorem rsplitOnR_spec (x sep : Str) (m : Option Nat) (h : sep ≠ []) :
    ⦃⌜True⌝⦄ rsplitOnR x sep m
    ⦃post⟨fun r => ⌜r = rsplitOn x sep m ∧ 0 < r.length ∧ join sep r = x ∧ ∀ p ∈ r, ∀ c ∈ p, c ∈ x⌝, fun _ => ⌜False⌝⟩⦄ := by
  apply triple_of_Ok
  obtain ⟨r, hr, rfl⟩ := rsplitOnR_Ok x sep m h
  exact ⟨_, hr, rfl, rsplitOn_length_pos x sep m, join_rsplitOn h x m, fun p hp => mem_rsplitOn hp⟩

/-! ## `int(...)` -/

theorem intOf_Ok (s : Str) (h : IsDigits s ∧ s.length ≤ 4300) :
    Ok (intOf s) (fun r => r = digitsVal s ∧ 0 ≤ r) :=
  ⟨_, intOf_of_asciiDigits s h.1.1 h.1.2 h.2, rfl, digitsVal_nonneg h.1.2⟩

@[spec] theorem intOf_spec (s : Str) (h : IsDigits s ∧ s.length ≤ 4300) :
    ⦃⌜True⌝⦄ intOf s ⦃post⟨fun r => ⌜r = digitsVal s ∧ 0 ≤ r⌝, fun _ => ⌜False⌝⟩⦄ :=
  triple_of_Ok (intOf_Ok s h)

/-- with the numeric range made explicit (`r < 10 ^ len`) -/
theorem intOf_Ok_lt (s : Str) (h : IsDigits s ∧ s.length ≤ 4300) :
    Ok (intOf s) (fun r => r = digitsVal s ∧ 0 ≤ r ∧ r < 10 ^ s.length) :=
  ⟨_, intOf_of_asciiDigits s h.1.1 h.1.2 h.2, rfl, digitsVal_nonneg h.1.2, digitsVal_lt h.1.2⟩

/-- a single digit character -/
theorem intOf_single_Ok (c : Nat) (h : isAsciiDigit c = true) :
    Ok (intOf [c]) (fun r => r = (c : Int) - 48 ∧ 0 ≤ r ∧ r ≤ 9) := by
  refine ⟨_, intOf_singleton_digit c h, rfl, ?_, ?_⟩ <;> (simp at h; omega)

/-- `int(s, b)` for ASCII digits/letters below the base -/
@[spec] theorem intOfBase_spec (s : Str) (b : Nat)
    (h : (2 ≤ b ∧ b ≤ 36) ∧ s ≠ [] ∧ (∀ c ∈ s, ∃ v, asciiDigitVal36 c = some v ∧ v < b) ∧
      (isPow2Base b = true ∨ s.length ≤ 4300)) :
    ⦃⌜True⌝⦄ intOfBase s b ⦃post⟨fun r => ⌜r = (digitsValue b s : Nat) ∧ 0 ≤ r⌝, fun _ => ⌜False⌝⟩⦄ :=
  triple_of_Ok ⟨_, intOfBase_of_ascii_val s b h.1 h.2.1 h.2.2.1 h.2.2.2, rfl, Int.natCast_nonneg _⟩

example : (2 ≤ 16 ∧ 16 ≤ 36) ∧ [49, 70] ≠ [] ∧ (∀ c ∈ [49, 70], ∃ v, asciiDigitVal36 c = some v ∧ v < 16) ∧
    (isPow2Base 16 = true ∨ [49, 70].length ≤ 4300) := by
  refine ⟨by omega, by simp, ?_, Or.inl (by decide)⟩
  intro c hc
  simp only [List.mem_cons, List.mem_nil_iff, or_false] at hc
  rcases hc with rfl | rfl
  · exact ⟨1, by decide, by omega⟩
  · exact ⟨15, by decide, by omega⟩

/-! ## comparison of digit strings of equal length is numeric comparison -/

theorem strLt_digits {x y : Str} (hx : AllIn isAsciiDigit x) (hy : AllIn isAsciiDigit y) (hl : x.length = y.length) :
    strLt x y = decide (digitsVal x < digitsVal y) := by
  induction x generalizing y with
  | nil =>
    cases y with
    | nil => simp
    | cons b u => simp at hl
  | cons a t ih =>
    cases y with
    | nil => simp at hl
    | cons b u =>
      have hl' : t.length = u.length := by simpa using hl
      have ha := hx a (by simp)
      have hb := hy b (by simp)
      have ht := digitsVal_bounds (s := t) (fun c hc => hx c (by simp [hc]))
      have hu := digitsVal_bounds (s := u) (fun c hc => hy c (by simp [hc]))
      have ih' := ih (y := u) (fun c hc => hx c (by simp [hc])) (fun c hc => hy c (by simp [hc])) hl'
      simp only [isAsciiDigit, Bool.and_eq_true, decide_eq_true_eq] at ha hb
      rw [strLt_cons_cons, ih', digitsVal_cons, digitsVal_cons, hl']
      rw [hl'] at ht
      generalize (10 : Int) ^ u.length = P at *
      have hP : 0 ≤ P := by omega
      rcases Nat.lt_trichotomy a b with h | rfl | h
      · have h1 : ((a : Int) - 48 + 1) * P ≤ ((b : Int) - 48) * P :=
          Int.mul_le_mul_of_nonneg_right (by omega) hP
        rw [Int.add_mul, Int.one_mul] at h1
        have : ((a : Int) - 48) * P + digitsVal t < ((b : Int) - 48) * P + digitsVal u := by omega
        simp [h, this]
      · simp
      · have h1 : ((b : Int) - 48 + 1) * P ≤ ((a : Int) - 48) * P :=
          Int.mul_le_mul_of_nonneg_right (by omega) hP
        rw [Int.add_mul, Int.one_mul] at h1
        have h2 : ¬ ((a : Int) - 48) * P + digitsVal t < ((b : Int) - 48) * P + digitsVal u := by omega
        have h3 : ¬ a < b := by omega
        have h4 : a ≠ b := by omega
        simp [h2, h3, h4]

theorem strLe_digits {x y : Str} (hx : AllIn isAsciiDigit x) (hy : AllIn isAsciiDigit y) (hl : x.length = y.length) :
    strLe x y = decide (digitsVal x ≤ digitsVal y) := by
  unfold strLe
  rw [strLt_digits hy hx hl.symm]
  by_cases h : digitsVal y < digitsVal x
  · have : ¬ digitsVal x ≤ digitsVal y := by omega
    simp [h, this]
  · have : digitsVal x ≤ digitsVal y := by omega
    simp [h, this]

example : strLe [48, 49] [53, 50] = true := by
  rw [strLe_digits (x := [48, 49]) (y := [53, 50]) (by decide) (by decide) rfl]; decide

example : IsDigits [49, 50] ∧ [49, 50].length ≤ 4300 := by decide
example : intOf [49, 50] = .ok 12 := by
  obtain ⟨r, hr, h1, _⟩ := intOf_Ok [49, 50] (by decide)
  rw [hr, h1]; rfl
example : strIn [66] [65, 66, 67] = true := by decide

end Py
