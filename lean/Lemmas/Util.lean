import PyRt
import Gen.util
import Lemmas.Hoare
import Lemmas.Regex
import Lemmas.Str
/-!
# Lemmas.Util — facts about the *generated* `stdnum.util` (`clean`, `isdigits`)

These are re-proved against the regenerated definitions on every run: a change to `util.py` that alters
what `clean` or `isdigits` compute breaks them (and everything that depends on them).
(`IsDigits`, `isDigitsB`, `join_nil_chars`, `strIn_single`, `dictGet?_mem` live in `Lemmas.Str`.)
-/
open Py Std.Do
set_option mvcgen.warning false

namespace Py

/-- the per-character clean-up function denoted by the generated table `_char_map` -/
def cm (c : Nat) : Nat :=
  match Py.dictGet? Gen.util._char_map [c] with
  | some [v] => v
  | _ => c

/-- what `clean` computes on a string -/
def cleanP (s d : Str) : Str := (s.map cm).filter (fun c => !d.contains c)

/-! ## the table -/

/-- all keys and values of the table are one-character strings (kernel-evaluated on the generated table) -/
theorem char_map_single : ∀ p ∈ Gen.util._char_map, p.1.length = 1 ∧ p.2.length = 1 := by decide +kernel

/-- lifting a (decidable, kernel-checked) property of all entries to `cm` -/
theorem cm_cases (c : Nat) : cm c = c ∨ ([c], [cm c]) ∈ Gen.util._char_map := by
  unfold cm
  cases h : Py.dictGet? Gen.util._char_map [c] with
  | none => exact Or.inl rfl
  | some w =>
    have hm := dictGet?_mem _ _ _ h
    have hl := (char_map_single _ hm).2
    match w, hl, hm with
    | [v], _, hm => exact Or.inr hm

theorem dictGetD_char_map (c : Nat) : Py.dictGetD Gen.util._char_map [c] [c] = [cm c] := by
  unfold Py.dictGetD cm
  cases h : Py.dictGet? Gen.util._char_map [c] with
  | none => rfl
  | some w =>
    have hl := (char_map_single _ (dictGet?_mem _ _ _ h)).2
    match w, hl with
    | [v], _ => rfl

/-- the values of the table are ASCII and fixed points of `cm` -/
theorem char_map_values : ∀ p ∈ Gen.util._char_map, ∀ v ∈ p.2, v < 128 ∧ cm v = v := by decide +kernel

/-- the ASCII part of `cm`: the only ASCII character that is changed is the backtick (→ apostrophe) -/
theorem cm_ascii_table : ∀ c, c < 128 → cm c = if c = 96 then 39 else c := by decide +kernel

theorem cm_ascii {c : Nat} (h : c < 128) : cm c = c ∨ (c = 96 ∧ cm c = 39) := by
  rw [cm_ascii_table c h]
  by_cases h96 : c = 96 <;> simp [h96]

theorem cm_of_ascii_ne {c : Nat} (h : c < 128) (h96 : c ≠ 96) : cm c = c := by
  rw [cm_ascii_table c h, if_neg h96]

@[simp] theorem cm_96 : cm 96 = 39 := cm_ascii_table 96 (by decide)

theorem cm_ascii_alnum {c : Nat} (h : isAsciiAlnum c = true) : cm c = c := by
  simp only [isAsciiAlnum, isAsciiDigit, isAsciiAlpha, isAsciiUpper, isAsciiLower, Bool.or_eq_true,
    Bool.and_eq_true, decide_eq_true_eq] at h
  exact cm_of_ascii_ne (by omega) (by omega)

theorem cm_ascii_digit {c : Nat} (h : isAsciiDigit c = true) : cm c = c :=
  cm_ascii_alnum (by simp only [isAsciiAlnum, h, Bool.true_or])

theorem cm_lt_128 {c : Nat} (h : cm c ≠ c) : cm c < 128 := by
  rcases cm_cases c with h' | hm
  · exact absurd h' h
  · exact (char_map_values _ hm (cm c) (by simp)).1

@[simp] theorem cm_idem (c : Nat) : cm (cm c) = cm c := by
  rcases cm_cases c with h' | hm
  · rw [h', h']
  · exact (char_map_values _ hm (cm c) (by simp)).2

/-- `cm` maps ASCII to ASCII -/
theorem cm_lt_128_of_lt {c : Nat} (h : c < 128) : cm c < 128 := by
  by_cases hc : cm c = c
  · rw [hc]; exact h
  · exact cm_lt_128 hc

/-! ## `cleanP` -/

@[simp] theorem cleanP_nil (d : Str) : cleanP [] d = [] := rfl

theorem cleanP_cons (c : Nat) (s d : Str) :
    cleanP (c :: s) d = if d.contains (cm c) then cleanP s d else cm c :: cleanP s d := by
  unfold cleanP
  rw [List.map_cons, List.filter_cons]
  by_cases h : d.contains (cm c) = true <;> simp

@[simp] theorem cleanP_append (s t d : Str) : cleanP (s ++ t) d = cleanP s d ++ cleanP t d := by
  simp [cleanP]

theorem mem_cleanP {c : Nat} {s d : Str} :
    c ∈ cleanP s d ↔ d.contains c = false ∧ ∃ c0 ∈ s, c = cm c0 := by
  unfold cleanP
  simp only [List.mem_filter, List.mem_map, Bool.not_eq_true']
  constructor
  · rintro ⟨⟨c0, h0, rfl⟩, hd⟩; exact ⟨hd, c0, h0, rfl⟩
  · rintro ⟨hd, c0, h0, rfl⟩; exact ⟨⟨c0, h0, rfl⟩, hd⟩

theorem not_mem_of_mem_cleanP {c : Nat} {s d : Str} (h : c ∈ cleanP s d) : c ∉ d := by
  have := (mem_cleanP.mp h).1
  simpa using this

theorem cleanP_eq_self {s d : Str} (h : ∀ c ∈ s, cm c = c ∧ d.contains c = false) : cleanP s d = s := by
  induction s with
  | nil => rfl
  | cons a t ih =>
    have ha := h a (by simp)
    rw [cleanP_cons, ha.1, ha.2, ih (fun c hc => h c (by simp [hc]))]
    simp

@[simp] theorem cleanP_idem (s d : Str) : cleanP (cleanP s d) d = cleanP s d := by
  apply cleanP_eq_self
  intro c hc
  obtain ⟨hd, c0, _, rfl⟩ := mem_cleanP.mp hc
  exact ⟨cm_idem c0, hd⟩

theorem cleanP_sublist (s d : Str) : (cleanP s d).Sublist (s.map cm) := List.filter_sublist

theorem cleanP_length_le (s d : Str) : (cleanP s d).length ≤ s.length := by
  have := (cleanP_sublist s d).length_le
  simpa using this

/-- closure: a character class that holds of `cm c` for every input character that survives -/
theorem AllIn.cleanP' {p : Nat → Bool} {s d : Str}
    (h : ∀ c ∈ s, d.contains (cm c) = false → p (cm c) = true) : AllIn p (Py.cleanP s d) := by
  intro c hc
  obtain ⟨hd, c0, h0, rfl⟩ := mem_cleanP.mp hc
  exact h c0 h0 hd

theorem AllIn.cleanP {p : Nat → Bool} {s d : Str} (h : ∀ c ∈ s, p (cm c) = true) : AllIn p (Py.cleanP s d) :=
  AllIn.cleanP' (fun c hc _ => h c hc)

/-- ASCII input, class closed under `cm` on ASCII (only `` ` `` ↦ `'` matters) -/
theorem AllIn.cleanP_of_ascii {p : Nat → Bool} {s d : Str} (hs : AllIn p s) (ha : ∀ c, p c = true → c < 128)
    (h96 : p 96 = true → p 39 = true ∨ d.contains 39 = true) : AllIn p (Py.cleanP s d) := by
  apply AllIn.cleanP'
  intro c hc hd
  have hpc := hs c hc
  rcases cm_ascii (ha c hpc) with h | ⟨rfl, h⟩
  · rw [h]; exact hpc
  · rw [h] at hd ⊢
    rcases h96 hpc with h' | h'
    · exact h'
    · rw [hd] at h'; cases h'

/-- a class of ASCII alphanumerics is preserved -/
theorem AllIn.cleanP_of_alnum {p : Nat → Bool} {s d : Str} (hs : AllIn p s)
    (ha : ∀ c, p c = true → isAsciiAlnum c = true) : AllIn p (Py.cleanP s d) := by
  apply AllIn.cleanP
  intro c hc
  rw [cm_ascii_alnum (ha c (hs c hc))]
  exact hs c hc

/-- `clean` leaves a string alone when nothing is mapped or deleted -/
theorem cleanP_of_alnum {s d : Str} (hs : AllIn isAsciiAlnum s) (hd : ∀ c ∈ d, isAsciiAlnum c = false) :
    cleanP s d = s := by
  apply cleanP_eq_self
  intro c hc
  refine ⟨cm_ascii_alnum (hs c hc), ?_⟩
  cases hcd : d.contains c with
  | false => rfl
  | true =>
    have := hd c (by simpa using hcd)
    rw [hs c hc] at this; cases this

/-! ## the generated functions -/

theorem map_chars_dictGetD (s : Str) :
    (Py.chars s).map (fun x => Py.dictGetD Gen.util._char_map x x) = Py.chars (s.map cm) := by
  induction s with
  | nil => rfl
  | cons a t ih => simp only [chars_cons, List.map_cons, ih, dictGetD_char_map]

theorem filterMap_chars_strIn (s d : Str) :
    (Py.chars s).filterMap (fun x => if !(Py.strIn x d) then some x else none)
      = Py.chars (s.filter (fun c => !d.contains c)) := by
  induction s with
  | nil => rfl
  | cons a t ih =>
    rw [chars_cons, List.filterMap_cons, ih, strIn_single, List.filter_cons]
    cases d.contains a <;> simp

theorem clean_chars_eq (s : Str) : Gen.util._clean_chars s = .ok (s.map cm) := by
  unfold Gen.util._clean_chars
  rw [map_chars_dictGetD, join_nil_chars]
  rfl

theorem clean_eq (s d : Str) : Gen.util.clean s d = .ok (cleanP s d) := by
  unfold Gen.util.clean
  simp only [List.map_id', join_nil_chars, clean_chars_eq, filterMap_chars_strIn]
  rfl

@[spec] theorem clean_spec (s d : Str) :
    ⦃⌜True⌝⦄ Gen.util.clean s d ⦃post⟨fun r => ⌜r = cleanP s d⌝, fun _ => ⌜False⌝⟩⦄ :=
  triple_of_Ok ⟨_, clean_eq s d, rfl⟩

/-- the generated pattern of `util._digits_re` is `^[0-9]+\\Z` (CPython's parse, serialised by the translator) -/
theorem digits_re_eq : Gen.util._digits_re = Re.digitsZ := rfl

theorem isdigits_eq (s : Str) : Gen.util.isdigits s = .ok (isDigitsB s) := by
  unfold Gen.util.isdigits isDigitsB
  simp only [digits_re_eq, Re.match_digitsZ_isSome]
  rfl

@[spec] theorem isdigits_spec (s : Str) :
    ⦃⌜True⌝⦄ Gen.util.isdigits s ⦃post⟨fun b => ⌜b = isDigitsB s⌝, fun _ => ⌜False⌝⟩⦄ :=
  triple_of_Ok ⟨_, isdigits_eq s, rfl⟩

/-! ## non-vacuity -/

example : cleanP [32, 49, 8211, 65296, 96, 46, 50] [32, 46] = [49, 45, 48, 39, 50] := by decide +kernel
example : Gen.util.clean [32, 49, 8211, 50] [32, 45] = .ok [49, 50] := by
  rw [clean_eq]; exact congrArg _ (by decide +kernel)
example : cleanP [49, 65, 50] [32, 45] = [49, 65, 50] := cleanP_of_alnum (by decide) (by decide)
example : Gen.util.isdigits [49, 50] = .ok true := by rw [isdigits_eq]; exact congrArg _ (by decide)
example : Gen.util.isdigits [49, 0x0661] = .ok false := by rw [isdigits_eq]; exact congrArg _ (by decide)

end Py
