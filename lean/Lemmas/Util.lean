import PyRt
import Gen.util
import Lemmas.Hoare
/-!
# Lemmas.Util — facts about the *generated* `stdnum.util` (`clean`, `isdigits`)

These are re-proved against the regenerated definitions on every run: a change to `util.py` that alters
what `clean` or `isdigits` compute breaks them (and everything that depends on them).
-/
open Py Std.Do
set_option mvcgen.warning false

namespace Py

/-- non-empty and ASCII digits only -/
def IsDigits (s : Str) : Prop := s ≠ [] ∧ AllIn isAsciiDigit s

def isDigitsB (s : Str) : Bool := !s.isEmpty && s.all isAsciiDigit

theorem isDigitsB_iff (s : Str) : isDigitsB s = true ↔ IsDigits s := by
  unfold isDigitsB IsDigits AllIn
  cases s <;> simp

/-- the per-character clean-up function denoted by the generated table `_char_map` -/
def cm (c : Nat) : Nat :=
  match Py.dictGet? Gen.util._char_map [c] with
  | some [v] => v
  | _ => c

/-- what `clean` computes on a string -/
def cleanP (s d : Str) : Str := (s.map cm).filter (fun c => !d.contains c)

theorem join_nil (l : List Str) : Py.join [] l = l.flatten := by
  induction l with
  | nil => rfl
  | cons a t ih =>
    cases t with
    | nil => simp [Py.join]
    | cons b t => simp [Py.join, ih]

theorem flatten_chars (s : Str) : (Py.chars s).flatten = s := by
  induction s with
  | nil => rfl
  | cons a t ih => simp_all [Py.chars]

theorem join_nil_chars (s : Str) : Py.join [] (Py.chars s) = s := by
  rw [join_nil, flatten_chars]

/-- all keys and values of the table are one-character strings (kernel-evaluated on the generated table) -/
theorem char_map_single : ∀ p ∈ Gen.util._char_map, p.1.length = 1 ∧ p.2.length = 1 := by decide +kernel

theorem dictGetD_char_map (c : Nat) : Py.dictGetD Gen.util._char_map [c] [c] = [cm c] := by
  unfold Py.dictGetD cm Py.dictGet?
  cases h : List.find? (fun p => p.1 == [c]) Gen.util._char_map with
  | none => simp
  | some p =>
    have hm := List.mem_of_find?_eq_some h
    have hl := (char_map_single p hm).2
    simp only [Option.map_some, Option.getD_some]
    match hp : p.2, hl with
    | [v], _ => rfl

theorem strIn_single (c : Nat) (d : Str) : Py.strIn [c] d = d.contains c := by
  unfold Py.strIn Py.findFrom
  induction d with
  | nil => simp
  | cons a t ih =>
    simp only [List.length_cons, Nat.sub_zero, List.contains_cons]
    rw [show t.length + 1 + 1 = (t.length + 1) + 1 from rfl, List.range_succ_eq_map]
    simp only [List.findSome?_cons, Nat.zero_add, List.drop_zero, List.cons_isPrefixOf, List.nil_isPrefixOf, Bool.and_true]
    by_cases hca : c = a
    · subst hca; simp
    · have h1 : (c == a) = false := by simpa using hca
      simp only [h1, Bool.false_eq_true, ↓reduceIte, Bool.false_or, List.findSome?_map]
      rw [← ih]
      simp only [Nat.sub_zero, Nat.zero_add]
      congr 1
      apply List.findSome?_congr
      intro k _
      simp [Function.comp, Nat.add_comm]

theorem clean_eq (s d : Str) : Gen.util.clean s d = .ok (cleanP s d) := by
  unfold Gen.util.clean Gen.util._clean_chars
  simp only [tryCatch, tryCatchThe, MonadExceptOf.tryCatch, Except.tryCatch, bind, Except.bind, pure, Except.pure,
    StateT.pure, join_nil_chars, List.map_id']
  congr 1
  unfold cleanP
  induction s with
  | nil => rfl
  | cons a t ih =>
    sorry

@[spec] theorem clean_spec (s d : Str) :
    ⦃⌜True⌝⦄ Gen.util.clean s d ⦃post⟨fun r => ⌜r = cleanP s d⌝, fun _ => ⌜False⌝⟩⦄ :=
  triple_of_Ok ⟨_, clean_eq s d, rfl⟩

end Py
