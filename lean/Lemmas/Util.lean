import PyRt
import Gen.util
import Lemmas.Hoare
/-!
# Lemmas.Util — facts about the *generated* `stdnum.util` (`clean`, `isdigits`)

These are re-proved against the regenerated definitions on every run: a change to `util.py` that alters
what `clean` or `isdigits` compute breaks them (and everything that depends on them).
-/
open Py Std.Do
set_option mvcgen.warning false

namespace Py

/-- non-empty and ASCII digits only -/
def IsDigits (s : Str) : Prop := s ≠ [] ∧ AllIn isAsciiDigit s

def isDigitsB (s : Str) : Bool := !s.isEmpty && s.all isAsciiDigit

theorem isDigitsB_iff (s : Str) : isDigitsB s = true ↔ IsDigits s := by
  unfold isDigitsB IsDigits AllIn
  cases s <;> simp

/-- the per-character clean-up function denoted by the generated table `_char_map` -/
def cm (c : Nat) : Nat :=
  match Py.dictGet? Gen.util._char_map [c] with
  | some [v] => v
  | _ => c

/-- what `clean` computes on a string -/
def cleanP (s d : Str) : Str := (s.map cm).filter (fun c => !d.contains c)

theorem join_nil (l : List Str) : Py.join [] l = l.flatten := by
  induction l with
  | nil => rfl
  | cons a t ih =>
    cases t with
    | nil => simp [Py.join]
    | cons b t => simp [Py.join, ih]

theorem flatten_chars (s : Str) : (Py.chars s).flatten = s := by
  induction s with
  | nil => rfl
  | cons a t ih => simp_all [Py.chars]

theorem join_nil_chars (s : Str) : Py.join [] (Py.chars s) = s := by
  rw [join_nil, flatten_chars]

/-- all keys and values of the table are one-character strings (kernel-evaluated on the generated table) -/
theorem char_map_single : ∀ p ∈ Gen.util._char_map, p.1.length = 1 ∧ p.2.length = 1 := by decide +kernel

theorem dictGetD_char_map (c : Nat) : Py.dictGetD Gen.util._char_map [c] [c] = [cm c] := by
  unfold Py.dictGetD cm Py.dictGet?
  cases h : List.find? (fun p => p.1 == [c]) Gen.util._char_map with
  | none => simp
  | some p =>
    have hm := List.mem_of_find?_eq_some h
    have hl := (char_map_single p hm).2
    simp only [Option.map_some, Option.getD_some]
    match hp : p.2, hl with
    | [v], _ => rfl

theorem strIn_single (c : Nat) (d : Str) : Py.strIn [c] d = d.contains c := by
  sorry

theorem clean_eq (s d : Str) : Gen.util.clean s d = .ok (cleanP s d) := by
  sorry

@[spec] theorem clean_spec (s d : Str) :
    ⦃⌜True⌝⦄ Gen.util.clean s d ⦃post⟨fun r => ⌜r = cleanP s d⌝, fun _ => ⌜False⌝⟩⦄ :=
  triple_of_Ok ⟨_, clean_eq s d, rfl⟩

theorem isdigits_eq (s : Str) : Gen.util.isdigits s = .ok (isDigitsB s) := by
  sorry

@[spec] theorem isdigits_spec (s : Str) :
    ⦃⌜True⌝⦄ Gen.util.isdigits s ⦃post⟨fun b => ⌜b = isDigitsB s⌝, fun _ => ⌜False⌝⟩⦄ :=
  triple_of_Ok ⟨_, isdigits_eq s, rfl⟩

end Py
