import PyRt
import Gen.ma_ice
open Py Lean
namespace Driver.D_ma_ice
def handle (fn : String) (args : List Json) : String :=
  match fn with
  | "compact" => match args with
    | [a0] => (do let x0 ← Wire.decStr a0; pure (Wire.respondWith Wire.encStr (Gen.ma_ice.compact x0)) : Option String).getD "badargs"
    | _ => "badargs"
  | "format" => match args with
    | [a0] => (do let x0 ← Wire.decStr a0; pure (Wire.respondWith Wire.encStr (Gen.ma_ice.format x0)) : Option String).getD "badargs"
    | _ => "badargs"
  | "is_valid" => match args with
    | [a0] => (do let x0 ← Wire.decStr a0; pure (Wire.respondWith Wire.encBool (Gen.ma_ice.is_valid x0)) : Option String).getD "badargs"
    | _ => "badargs"
  | "validate" => match args with
    | [a0] => (do let x0 ← Wire.decStr a0; pure (Wire.respondWith Wire.encStr (Gen.ma_ice.validate x0)) : Option String).getD "badargs"
    | _ => "badargs"
  | _ => "nofunc"
end Driver.D_ma_ice
