import PyRt
import Gen.gb_sedol
open Py Lean
namespace Driver.D_gb_sedol
def handle (fn : String) (args : List Json) : String :=
  match fn with
  | "calc_check_digit" => match args with
    | [a0] => (do let x0 ← Wire.decStr a0; pure (Wire.respondWith Wire.encStr (Gen.gb_sedol.calc_check_digit x0)) : Option String).getD "badargs"
    | _ => "badargs"
  | "compact" => match args with
    | [a0] => (do let x0 ← Wire.decStr a0; pure (Wire.respondWith Wire.encStr (Gen.gb_sedol.compact x0)) : Option String).getD "badargs"
    | _ => "badargs"
  | "is_valid" => match args with
    | [a0] => (do let x0 ← Wire.decStr a0; pure (Wire.respondWith Wire.encBool (Gen.gb_sedol.is_valid x0)) : Option String).getD "badargs"
    | _ => "badargs"
  | "to_isin" => match args with
    | [a0] => (do let x0 ← Wire.decStr a0; pure (Wire.respondWith Wire.encStr (Gen.gb_sedol.to_isin x0)) : Option String).getD "badargs"
    | _ => "badargs"
  | "validate" => match args with
    | [a0] => (do let x0 ← Wire.decStr a0; pure (Wire.respondWith Wire.encStr (Gen.gb_sedol.validate x0)) : Option String).getD "badargs"
    | _ => "badargs"
  | _ => "nofunc"
end Driver.D_gb_sedol
