import Driver.GS1
/-!
Stand-alone stdin → stdout loop for the GS1 handler
(`lake env lean --run Driver/GS1Main.lean`, or as root of a `lean_exe`).
One request line in, one response line out (see `PyRt.Wire`).
-/
def main : IO Unit := do
  let hin ← IO.getStdin
  let hout ← IO.getStdout
  repeat
    let line ← hin.getLine
    if line.isEmpty then break
    let resp :=
      match Py.Wire.parseLine line with
      | none => "badargs"
      | some (target, args) => (Driver.GS1.handle target args).getD "nofunc"
    hout.putStrLn resp
    hout.flush
