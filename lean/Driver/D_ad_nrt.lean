import PyRt
import Gen.ad_nrt
open Py Lean
namespace Driver.D_ad_nrt
def handle (fn : String) (args : List Json) : String :=
  match fn with
  | "compact" => match args with
    | [a0] => (do let x0 ← Wire.decStr a0; pure (Wire.respondWith Wire.encStr (Gen.ad_nrt.compact x0)) : Option String).getD "badargs"
    | _ => "badargs"
  | "format" => match args with
    | [a0] => (do let x0 ← Wire.decStr a0; pure (Wire.respondWith Wire.encStr (Gen.ad_nrt.format x0)) : Option String).getD "badargs"
    | _ => "badargs"
  | "is_valid" => match args with
    | [a0] => (do let x0 ← Wire.decStr a0; pure (Wire.respondWith Wire.encBool (Gen.ad_nrt.is_valid x0)) : Option String).getD "badargs"
    | _ => "badargs"
  | "validate" => match args with
    | [a0] => (do let x0 ← Wire.decStr a0; pure (Wire.respondWith Wire.encStr (Gen.ad_nrt.validate x0)) : Option String).getD "badargs"
    | _ => "badargs"
  | _ => "nofunc"
end Driver.D_ad_nrt
