import PyRt
import Gen.py_ruc
open Py Lean
namespace Driver.D_py_ruc
def handle (fn : String) (args : List Json) : String :=
  match fn with
  | "calc_check_digit" => match args with
    | [a0] => (do let x0 ← Wire.decStr a0; pure (Wire.respondWith Wire.encStr (Gen.py_ruc.calc_check_digit x0)) : Option String).getD "badargs"
    | _ => "badargs"
  | "compact" => match args with
    | [a0] => (do let x0 ← Wire.decStr a0; pure (Wire.respondWith Wire.encStr (Gen.py_ruc.compact x0)) : Option String).getD "badargs"
    | _ => "badargs"
  | "format" => match args with
    | [a0] => (do let x0 ← Wire.decStr a0; pure (Wire.respondWith Wire.encStr (Gen.py_ruc.format x0)) : Option String).getD "badargs"
    | _ => "badargs"
  | "is_valid" => match args with
    | [a0] => (do let x0 ← Wire.decStr a0; pure (Wire.respondWith Wire.encBool (Gen.py_ruc.is_valid x0)) : Option String).getD "badargs"
    | _ => "badargs"
  | "validate" => match args with
    | [a0] => (do let x0 ← Wire.decStr a0; pure (Wire.respondWith Wire.encStr (Gen.py_ruc.validate x0)) : Option String).getD "badargs"
    | _ => "badargs"
  | _ => "nofunc"
end Driver.D_py_ruc
