import PyRt
import Gen.id_nik
open Py Lean
namespace Driver.D_id_nik
def handle (fn : String) (args : List Json) : String :=
  match fn with
  | "_check_registration_place" => match args with
    | [a0] => (do let x0 ← Wire.decStr a0; pure (Wire.respondWith (Wire.encDict Wire.encStr Wire.encStr) (Gen.id_nik._check_registration_place x0)) : Option String).getD "badargs"
    | _ => "badargs"
  | "compact" => match args with
    | [a0] => (do let x0 ← Wire.decStr a0; pure (Wire.respondWith Wire.encStr (Gen.id_nik.compact x0)) : Option String).getD "badargs"
    | _ => "badargs"
  | "get_birth_date" => match args with
    | [a0, a1] => (do let x0 ← Wire.decStr a0; let x1 ← Wire.decInt a1; pure (Wire.respondWith Wire.encDate (Gen.id_nik.get_birth_date x0 x1)) : Option String).getD "badargs"
    | _ => "badargs"
  | "is_valid" => match args with
    | [a0] => (do let x0 ← Wire.decStr a0; pure (Wire.respondWith Wire.encBool (Gen.id_nik.is_valid x0)) : Option String).getD "badargs"
    | _ => "badargs"
  | "validate" => match args with
    | [a0] => (do let x0 ← Wire.decStr a0; pure (Wire.respondWith Wire.encStr (Gen.id_nik.validate x0)) : Option String).getD "badargs"
    | _ => "badargs"
  | _ => "nofunc"
end Driver.D_id_nik
