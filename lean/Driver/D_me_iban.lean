import PyRt
import Gen.me_iban
open Py Lean
namespace Driver.D_me_iban
def handle (fn : String) (args : List Json) : String :=
  match fn with
  | "_checksum" => match args with
    | [a0] => (do let x0 ← Wire.decStr a0; pure (Wire.respondWith Wire.encInt (Gen.me_iban._checksum x0)) : Option String).getD "badargs"
    | _ => "badargs"
  | _ => "nofunc"
end Driver.D_me_iban
