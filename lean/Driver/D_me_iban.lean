import PyRt
import Gen.me_iban
open Py Lean
namespace Driver.D_me_iban
def handle (fn : String) (args : List Json) : String :=
  match fn with
  | "_checksum" => match args with
    | [a0] => (do let x0 ← Wire.decStr a0; pure (Wire.respondWith Wire.encInt (Gen.me_iban._checksum x0)) : Option String).getD "badargs"
    | _ => "badargs"
  | "is_valid" => match args with
    | [a0] => (do let x0 ← Wire.decStr a0; pure (Wire.respondWith Wire.encBool (Gen.me_iban.is_valid x0)) : Option String).getD "badargs"
    | _ => "badargs"
  | "validate" => match args with
    | [a0] => (do let x0 ← Wire.decStr a0; pure (Wire.respondWith Wire.encStr (Gen.me_iban.validate x0)) : Option String).getD "badargs"
    | _ => "badargs"
  | _ => "nofunc"
end Driver.D_me_iban
