import PyRt
import Gen.pe_cui
open Py Lean
namespace Driver.D_pe_cui
def handle (fn : String) (args : List Json) : String :=
  match fn with
  | "calc_check_digits" => match args with
    | [a0] => (do let x0 ← Wire.decStr a0; pure (Wire.respondWith Wire.encStr (Gen.pe_cui.calc_check_digits x0)) : Option String).getD "badargs"
    | _ => "badargs"
  | "compact" => match args with
    | [a0] => (do let x0 ← Wire.decStr a0; pure (Wire.respondWith Wire.encStr (Gen.pe_cui.compact x0)) : Option String).getD "badargs"
    | _ => "badargs"
  | "is_valid" => match args with
    | [a0] => (do let x0 ← Wire.decStr a0; pure (Wire.respondWith Wire.encBool (Gen.pe_cui.is_valid x0)) : Option String).getD "badargs"
    | _ => "badargs"
  | "to_ruc" => match args with
    | [a0] => (do let x0 ← Wire.decStr a0; pure (Wire.respondWith Wire.encStr (Gen.pe_cui.to_ruc x0)) : Option String).getD "badargs"
    | _ => "badargs"
  | "validate" => match args with
    | [a0] => (do let x0 ← Wire.decStr a0; pure (Wire.respondWith Wire.encStr (Gen.pe_cui.validate x0)) : Option String).getD "badargs"
    | _ => "badargs"
  | _ => "nofunc"
end Driver.D_pe_cui
