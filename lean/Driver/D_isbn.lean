import PyRt
import Gen.isbn
open Py Lean
namespace Driver.D_isbn
def handle (fn : String) (args : List Json) : String :=
  match fn with
  | "_calc_isbn10_check_digit" => match args with
    | [a0] => (do let x0 ← Wire.decStr a0; pure (Wire.respondWith Wire.encStr (Gen.isbn._calc_isbn10_check_digit x0)) : Option String).getD "badargs"
    | _ => "badargs"
  | "compact" => match args with
    | [a0, a1] => (do let x0 ← Wire.decStr a0; let x1 ← Wire.decBool a1; pure (Wire.respondWith Wire.encStr (Gen.isbn.compact x0 x1)) : Option String).getD "badargs"
    | _ => "badargs"
  | "format" => match args with
    | [a0, a1, a2] => (do let x0 ← Wire.decStr a0; let x1 ← Wire.decStr a1; let x2 ← Wire.decBool a2; pure (Wire.respondWith Wire.encStr (Gen.isbn.format x0 x1 x2)) : Option String).getD "badargs"
    | _ => "badargs"
  | "is_valid" => match args with
    | [a0] => (do let x0 ← Wire.decStr a0; pure (Wire.respondWith Wire.encBool (Gen.isbn.is_valid x0)) : Option String).getD "badargs"
    | _ => "badargs"
  | "isbn_type" => match args with
    | [a0] => (do let x0 ← Wire.decStr a0; pure (Wire.respondWith (Wire.encOpt Wire.encStr) (Gen.isbn.isbn_type x0)) : Option String).getD "badargs"
    | _ => "badargs"
  | "to_isbn10" => match args with
    | [a0] => (do let x0 ← Wire.decStr a0; pure (Wire.respondWith Wire.encStr (Gen.isbn.to_isbn10 x0)) : Option String).getD "badargs"
    | _ => "badargs"
  | "to_isbn13" => match args with
    | [a0] => (do let x0 ← Wire.decStr a0; pure (Wire.respondWith Wire.encStr (Gen.isbn.to_isbn13 x0)) : Option String).getD "badargs"
    | _ => "badargs"
  | "validate" => match args with
    | [a0, a1] => (do let x0 ← Wire.decStr a0; let x1 ← Wire.decBool a1; pure (Wire.respondWith Wire.encStr (Gen.isbn.validate x0 x1)) : Option String).getD "badargs"
    | _ => "badargs"
  | _ => "nofunc"
end Driver.D_isbn
