import PyRt
import Gen.de_wkn
open Py Lean
namespace Driver.D_de_wkn
def handle (fn : String) (args : List Json) : String :=
  match fn with
  | "compact" => match args with
    | [a0] => (do let x0 ← Wire.decStr a0; pure (Wire.respondWith Wire.encStr (Gen.de_wkn.compact x0)) : Option String).getD "badargs"
    | _ => "badargs"
  | "is_valid" => match args with
    | [a0] => (do let x0 ← Wire.decStr a0; pure (Wire.respondWith Wire.encBool (Gen.de_wkn.is_valid x0)) : Option String).getD "badargs"
    | _ => "badargs"
  | "to_isin" => match args with
    | [a0] => (do let x0 ← Wire.decStr a0; pure (Wire.respondWith Wire.encStr (Gen.de_wkn.to_isin x0)) : Option String).getD "badargs"
    | _ => "badargs"
  | "validate" => match args with
    | [a0] => (do let x0 ← Wire.decStr a0; pure (Wire.respondWith Wire.encStr (Gen.de_wkn.validate x0)) : Option String).getD "badargs"
    | _ => "badargs"
  | _ => "nofunc"
end Driver.D_de_wkn
