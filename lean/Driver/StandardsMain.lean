import Driver.Standards
/-!
# Driver.StandardsMain — stand-alone stdin/stdout loop for `Driver.Standards.handle`

Run with `lake env lean --run Driver/StandardsMain.lean`; one response line per request line.
-/

def main : IO Unit := do
  let stdin ← IO.getStdin
  let stdout ← IO.getStdout
  repeat
    let line ← stdin.getLine
    if line.isEmpty then break
    let resp :=
      match Py.Wire.parseLine line with
      | none => "badargs"
      | some (target, args) =>
        match Driver.Standards.handle target args with
        | some r => r
        | none => "nofunc"
    stdout.putStrLn resp
  stdout.flush
