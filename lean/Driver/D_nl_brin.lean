import PyRt
import Gen.nl_brin
open Py Lean
namespace Driver.D_nl_brin
def handle (fn : String) (args : List Json) : String :=
  match fn with
  | "compact" => match args with
    | [a0] => (do let x0 ← Wire.decStr a0; pure (Wire.respondWith Wire.encStr (Gen.nl_brin.compact x0)) : Option String).getD "badargs"
    | _ => "badargs"
  | "is_valid" => match args with
    | [a0] => (do let x0 ← Wire.decStr a0; pure (Wire.respondWith Wire.encBool (Gen.nl_brin.is_valid x0)) : Option String).getD "badargs"
    | _ => "badargs"
  | "validate" => match args with
    | [a0] => (do let x0 ← Wire.decStr a0; pure (Wire.respondWith Wire.encStr (Gen.nl_brin.validate x0)) : Option String).getD "badargs"
    | _ => "badargs"
  | _ => "nofunc"
end Driver.D_nl_brin
