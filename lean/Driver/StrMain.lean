import Driver.Str
/-!
# Driver.StrMain — stdin → stdout loop over `Driver.Str.handle`

Run with `lake env lean --run Driver/StrMain.lean` (or link it as a `lean_exe`).
One request per line (`PyRt.Wire`), one response per line.
-/
open Py.Wire

def respondLine (line : String) : String :=
  match parseLine line with
  | none => "badargs"
  | some (target, args) =>
    match Driver.Str.handle target args with
    | some r => r
    | none => "nofunc"

def main : IO Unit := do
  let stdin ← IO.getStdin
  let stdout ← IO.getStdout
  repeat
    let line ← stdin.getLine
    if line.isEmpty then break
    stdout.putStrLn (respondLine line)
  stdout.flush
