import PyRt
import Gen.isin
open Py Lean
namespace Driver.D_isin
def handle (fn : String) (args : List Json) : String :=
  match fn with
  | "calc_check_digit" => match args with
    | [a0] => (do let x0 ← Wire.decStr a0; pure (Wire.respondWith Wire.encStr (Gen.isin.calc_check_digit x0)) : Option String).getD "badargs"
    | _ => "badargs"
  | "compact" => match args with
    | [a0] => (do let x0 ← Wire.decStr a0; pure (Wire.respondWith Wire.encStr (Gen.isin.compact x0)) : Option String).getD "badargs"
    | _ => "badargs"
  | "from_natid" => match args with
    | [a0, a1] => (do let x0 ← Wire.decStr a0; let x1 ← Wire.decStr a1; pure (Wire.respondWith Wire.encStr (Gen.isin.from_natid x0 x1)) : Option String).getD "badargs"
    | _ => "badargs"
  | "is_valid" => match args with
    | [a0] => (do let x0 ← Wire.decStr a0; pure (Wire.respondWith Wire.encBool (Gen.isin.is_valid x0)) : Option String).getD "badargs"
    | _ => "badargs"
  | "validate" => match args with
    | [a0] => (do let x0 ← Wire.decStr a0; pure (Wire.respondWith Wire.encStr (Gen.isin.validate x0)) : Option String).getD "badargs"
    | _ => "badargs"
  | _ => "nofunc"
end Driver.D_isin
