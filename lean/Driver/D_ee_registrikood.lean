import PyRt
import Gen.ee_registrikood
open Py Lean
namespace Driver.D_ee_registrikood
def handle (fn : String) (args : List Json) : String :=
  match fn with
  | "compact" => match args with
    | [a0] => (do let x0 ← Wire.decStr a0; pure (Wire.respondWith Wire.encStr (Gen.ee_registrikood.compact x0)) : Option String).getD "badargs"
    | _ => "badargs"
  | "is_valid" => match args with
    | [a0] => (do let x0 ← Wire.decStr a0; pure (Wire.respondWith Wire.encBool (Gen.ee_registrikood.is_valid x0)) : Option String).getD "badargs"
    | _ => "badargs"
  | "validate" => match args with
    | [a0] => (do let x0 ← Wire.decStr a0; pure (Wire.respondWith Wire.encStr (Gen.ee_registrikood.validate x0)) : Option String).getD "badargs"
    | _ => "badargs"
  | _ => "nofunc"
end Driver.D_ee_registrikood
