import PyRt
import Gen.in__aadhaar
open Py Lean
namespace Driver.D_in__aadhaar
def handle (fn : String) (args : List Json) : String :=
  match fn with
  | "compact" => match args with
    | [a0] => (do let x0 ← Wire.decStr a0; pure (Wire.respondWith Wire.encStr (Gen.in__aadhaar.compact x0)) : Option String).getD "badargs"
    | _ => "badargs"
  | "format" => match args with
    | [a0] => (do let x0 ← Wire.decStr a0; pure (Wire.respondWith Wire.encStr (Gen.in__aadhaar.format x0)) : Option String).getD "badargs"
    | _ => "badargs"
  | "is_valid" => match args with
    | [a0] => (do let x0 ← Wire.decStr a0; pure (Wire.respondWith Wire.encBool (Gen.in__aadhaar.is_valid x0)) : Option String).getD "badargs"
    | _ => "badargs"
  | "mask" => match args with
    | [a0] => (do let x0 ← Wire.decStr a0; pure (Wire.respondWith Wire.encStr (Gen.in__aadhaar.mask x0)) : Option String).getD "badargs"
    | _ => "badargs"
  | "validate" => match args with
    | [a0] => (do let x0 ← Wire.decStr a0; pure (Wire.respondWith Wire.encStr (Gen.in__aadhaar.validate x0)) : Option String).getD "badargs"
    | _ => "badargs"
  | _ => "nofunc"
end Driver.D_in__aadhaar
