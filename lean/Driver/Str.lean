import Lean.Data.Json
import PyRt.Basic
import PyRt.Wire
import PyRt.Str
import PyRt.Misc
/-!
# Driver.Str — differential-test entry points for `PyRt.Str` and `PyRt.Misc`

`handle target args` answers the wire protocol of `PyRt.Wire` (`none` = target not known here,
`"badargs"` = arguments do not decode).

Integers travel as JSON numbers; integers with 18 or more digits travel as `{"hex":"-1f…"}` in both
directions (same convention as `Driver.Unicode`; the helpers are local so that this file does not
depend on `PyRt.Int`).

Targets (Python expression ↔ Lean function)
* `str.slice [s,a?,b?]` `s[a:b]` ↔ `slice`; `list.slice [l,a?,b?]` ↔ `sliceL`;
  `str.slice_step [s,a?,b?,k]` `s[a:b:k]` ↔ `sliceStepL`; `str.reversed [s]` `s[::-1]` ↔ `sliceRevL`;
  `str.getitem [s,i]` ↔ `getItem`; `list.getitem [l,i]` ↔ `getItemL`; `str.chars [s]` `list(s)` ↔ `chars`
* `str.find [s,sub]`, `str.find_from [s,sub,start]` (`none` ↦ -1), `str.index`, `list.index [l,v]`,
  `str.count`, `str.in [sub,s]`, `str.startswith`, `str.endswith`, `str.startswith_any [s,[p…]]`,
  `str.endswith_any`
* `str.zfill [s,w]`, `str.rjust [s,w,fill]`, `str.ljust`, `str.join [sep,[s…]]`, `str.mul [s,n]`,
  `str.replace [s,old,new]`, `str.split [s,sep,maxsplit?]` ↔ `splitOnR`, `str.rsplit` ↔ `rsplitOnR`,
  `str.lt`, `str.le`
* `sum_int [l]`, `list.enumerate [l,start]`, `range [a,b]`, `range_step [a,b,k]`, `max_int [l]`,
  `min_int [l]`, `zip3 [l,m,n]`, `sorted_int [l]`, `sorted_str [[s…]]`
* `int.and int.or int.xor int.shl int.shr int.pow [a,b]`, `int.not [a]`, `int.powmod [a,b,m]`
* `dict.set [d,k,v]`, `dict.update [d,e]`, `dict.get [d,k]`, `dict.get_default [d,k,dflt]`,
  `dict.has [d,k]`, `dict.of_pairs [[(k,v)…]]`  (str keys, int values)
* `chr [n]`, `ord [s]`
-/
open Lean (Json)
namespace Driver.Str
open Py Py.Wire

/-! ### big integers on the wire -/

def hexDigit (d : Nat) : Char := if d < 10 then Char.ofNat (48 + d) else Char.ofNat (87 + d)

def hexGo : Nat → Nat → List Char → List Char
  | 0, _, acc => acc
  | fuel + 1, n, acc => if n < 16 then hexDigit n :: acc else hexGo fuel (n / 16) (hexDigit (n % 16) :: acc)

def hexOfNat (n : Nat) : String := String.ofList (hexGo (n + 1) n [])

def hexOfInt (i : Int) : String := (if i < 0 then "-" else "") ++ hexOfNat i.natAbs

def hexVal (c : Char) : Option Nat :=
  let n := c.toNat
  if 48 ≤ n ∧ n ≤ 57 then some (n - 48)
  else if 97 ≤ n ∧ n ≤ 102 then some (n - 87)
  else if 65 ≤ n ∧ n ≤ 70 then some (n - 55)
  else none

def natOfHex (cs : List Char) : Option Nat :=
  if cs.isEmpty then none
  else cs.foldl (fun acc c => match acc, hexVal c with
    | some a, some d => some (a * 16 + d)
    | _, _ => none) (some 0)

def intOfHex (h : String) : Option Int :=
  match h.toList with
  | '-' :: t => (natOfHex t).map (fun n => -(n : Int))
  | cs => (natOfHex cs).map (fun n => (n : Int))

def eInt : Enc Int := fun i =>
  if i.natAbs < 1000000000000000000 then encInt i
  else Json.mkObj [("hex", Json.str (hexOfInt i))]

def dInt : Dec Int := fun j =>
  match j with
  | .num _ => decInt j
  | _ =>
    match j.getObjVal? "hex" with
    | .ok (.str h) => intOfHex h
    | _ => none

def dNat : Dec Nat := natOfJson

/-! ### argument plumbing -/

def a1 {α} (da : Dec α) (args : List Json) (f : α → String) : String :=
  match args with
  | [a] => match da a with
    | some a => f a
    | none => "badargs"
  | _ => "badargs"

def a2 {α β} (da : Dec α) (db : Dec β) (args : List Json) (f : α → β → String) : String :=
  match args with
  | [a, b] => match da a, db b with
    | some a, some b => f a b
    | _, _ => "badargs"
  | _ => "badargs"

def a3 {α β γ} (da : Dec α) (db : Dec β) (dc : Dec γ) (args : List Json) (f : α → β → γ → String) : String :=
  match args with
  | [a, b, c] => match da a, db b, dc c with
    | some a, some b, some c => f a b c
    | _, _, _ => "badargs"
  | _ => "badargs"

def a4 {α β γ δ} (da : Dec α) (db : Dec β) (dc : Dec γ) (dd : Dec δ) (args : List Json)
    (f : α → β → γ → δ → String) : String :=
  match args with
  | [a, b, c, d] => match da a, db b, dc c, dd d with
    | some a, some b, some c, some d => f a b c d
    | _, _, _, _ => "badargs"
  | _ => "badargs"

def ok {α} (e : Enc α) (v : α) : String := respondWith e (.ok v)

def dIntL : Dec (List Int) := decList dInt
def eIntL : Enc (List Int) := encList eInt
def dStrL : Dec (List Str) := decList decStr
def eStrL : Enc (List Str) := encList encStr
def dOptInt : Dec (Option Int) := decOpt dInt
def dOptNat : Dec (Option Nat) := decOpt dNat
def dDict : Dec (List (Str × Int)) := decDict decStr dInt
def eDict : Enc (List (Str × Int)) := encDict encStr eInt

def handle (target : String) (args : List Json) : Option String :=
  match target with
  -- indices and slices
  | "str.slice" => some (a3 decStr dOptInt dOptInt args (fun s a b => ok encStr (slice s a b)))
  | "list.slice" => some (a3 dIntL dOptInt dOptInt args (fun l a b => ok eIntL (sliceL l a b)))
  | "str.slice_step" => some (a4 decStr dOptInt dOptInt dNat args
      (fun s a b k => ok encStr (sliceStepL s a b k)))
  | "str.reversed" => some (a1 decStr args (fun s => ok encStr (sliceRevL s)))
  | "str.getitem" => some (a2 decStr dInt args (fun s i => respondWith encStr (getItem s i)))
  | "list.getitem" => some (a2 dIntL dInt args (fun l i => respondWith eInt (getItemL l i)))
  | "str.chars" => some (a1 decStr args (fun s => ok eStrL (chars s)))
  -- searching
  | "str.find" => some (a2 decStr decStr args (fun s sub => ok eInt (find s sub)))
  | "str.find_from" => some (a3 decStr decStr dNat args (fun s sub start =>
      ok eInt (match findFrom s sub start with | some i => (i : Int) | none => -1)))
  | "str.index" => some (a2 decStr decStr args (fun s sub => respondWith eInt (index s sub)))
  | "list.index" => some (a2 dIntL dInt args (fun l v => respondWith eInt (indexL l v)))
  | "str.count" => some (a2 decStr decStr args (fun s sub => ok eInt (count s sub)))
  | "str.in" => some (a2 decStr decStr args (fun sub s => ok encBool (strIn sub s)))
  | "str.startswith" => some (a2 decStr decStr args (fun s p => ok encBool (startswith s p)))
  | "str.endswith" => some (a2 decStr decStr args (fun s p => ok encBool (endswith s p)))
  | "str.startswith_any" => some (a2 decStr dStrL args (fun s ps => ok encBool (startswithAny s ps)))
  | "str.endswith_any" => some (a2 decStr dStrL args (fun s ps => ok encBool (endswithAny s ps)))
  -- building
  | "str.zfill" => some (a2 decStr dInt args (fun s w => ok encStr (zfill s w)))
  | "str.rjust" => some (a3 decStr dInt decStr args (fun s w f => ok encStr (rjust s w f)))
  | "str.ljust" => some (a3 decStr dInt decStr args (fun s w f => ok encStr (ljust s w f)))
  | "str.join" => some (a2 decStr dStrL args (fun sep ps => ok encStr (join sep ps)))
  | "str.mul" => some (a2 decStr dInt args (fun s n => ok encStr (repeatStr s n)))
  | "str.replace" => some (a3 decStr decStr decStr args (fun s o n => ok encStr (replace s o n)))
  | "str.split" => some (a3 decStr decStr dOptNat args (fun s sep m => respondWith eStrL (splitOnR s sep m)))
  | "str.rsplit" => some (a3 decStr decStr dOptNat args (fun s sep m => respondWith eStrL (rsplitOnR s sep m)))
  | "str.lt" => some (a2 decStr decStr args (fun x y => ok encBool (strLt x y)))
  | "str.le" => some (a2 decStr decStr args (fun x y => ok encBool (strLe x y)))
  -- numeric / iteration helpers
  | "sum_int" => some (a1 dIntL args (fun l => ok eInt (sumInt l)))
  | "list.enumerate" => some (a2 dIntL dInt args (fun l start =>
      ok (encList (encT2 eInt eInt)) (enumerate l start)))
  | "range" => some (a2 dInt dInt args (fun a b => ok eIntL (range a b)))
  | "range_step" => some (a3 dInt dInt dInt args (fun a b k => ok eIntL (rangeStep a b k)))
  | "max_int" => some (a1 dIntL args (fun l => respondWith eInt (maxInt l)))
  | "min_int" => some (a1 dIntL args (fun l => respondWith eInt (minInt l)))
  | "zip3" => some (a3 dIntL dIntL dIntL args (fun x y z =>
      ok (encList (encT3 eInt eInt eInt)) (zip3 x y z)))
  | "sorted_int" => some (a1 dIntL args (fun l => ok eIntL (sortedInt l)))
  | "sorted_str" => some (a1 dStrL args (fun l => ok eStrL (sortedStr l)))
  -- integers
  | "int.and" => some (a2 dInt dInt args (fun a b => ok eInt (iand a b)))
  | "int.or" => some (a2 dInt dInt args (fun a b => ok eInt (ior a b)))
  | "int.xor" => some (a2 dInt dInt args (fun a b => ok eInt (ixor a b)))
  | "int.not" => some (a1 dInt args (fun a => ok eInt (inot a)))
  | "int.shl" => some (a2 dInt dInt args (fun a b => respondWith eInt (pyshl a b)))
  | "int.shr" => some (a2 dInt dInt args (fun a b => respondWith eInt (pyshr a b)))
  | "int.pow" => some (a2 dInt dInt args (fun a b => respondWith eInt (pypow a b)))
  | "int.powmod" => some (a3 dInt dInt dInt args (fun a b m => respondWith eInt (pypowmod a b m)))
  -- dictionaries
  | "dict.set" => some (a3 dDict decStr dInt args (fun d k v => ok eDict (dictSet d k v)))
  | "dict.update" => some (a2 dDict dDict args (fun d e => ok eDict (dictUpdate d e)))
  | "dict.get" => some (a2 dDict decStr args (fun d k => respondWith eInt (dictGet d k)))
  | "dict.get_default" => some (a3 dDict decStr dInt args (fun d k v => ok eInt (dictGetD d k v)))
  | "dict.has" => some (a2 dDict decStr args (fun d k => ok encBool (dictHas d k)))
  | "dict.of_pairs" => some (a1 (decList (decT2 decStr dInt)) args (fun l => ok eDict (dictOfPairs l)))
  -- chr / ord
  | "chr" => some (a1 dInt args (fun n => respondWith encStr (chr n)))
  | "ord" => some (a1 decStr args (fun s => respondWith eInt (ord s)))
  | _ => none

end Driver.Str
