import PyRt
import Gen.no_mva
open Py Lean
namespace Driver.D_no_mva
def handle (fn : String) (args : List Json) : String :=
  match fn with
  | "compact" => match args with
    | [a0] => (do let x0 ← Wire.decStr a0; pure (Wire.respondWith Wire.encStr (Gen.no_mva.compact x0)) : Option String).getD "badargs"
    | _ => "badargs"
  | "format" => match args with
    | [a0] => (do let x0 ← Wire.decStr a0; pure (Wire.respondWith Wire.encStr (Gen.no_mva.format x0)) : Option String).getD "badargs"
    | _ => "badargs"
  | "is_valid" => match args with
    | [a0] => (do let x0 ← Wire.decStr a0; pure (Wire.respondWith Wire.encBool (Gen.no_mva.is_valid x0)) : Option String).getD "badargs"
    | _ => "badargs"
  | "validate" => match args with
    | [a0] => (do let x0 ← Wire.decStr a0; pure (Wire.respondWith Wire.encStr (Gen.no_mva.validate x0)) : Option String).getD "badargs"
    | _ => "badargs"
  | _ => "nofunc"
end Driver.D_no_mva
