import PyRt.Wire
import Spec.Checksum
/-!
# Driver.Checksum — wire dispatch for the eight generic checksum modules

Targets `<mod>.<fn>` with `<mod>` ∈ luhn, verhoeff, damm, mod_11_2, mod_37_2, mod_11_10, mod_37_36,
mod_97_10 and `<fn>` ∈ checksum, validate, is_valid, calc_check_digit (`calc_check_digits` for
mod_97_10).  Arguments: the number string and, where the Python function has one, an optional alphabet
string (luhn, mod_37_2, mod_37_36) or an optional table (damm: list/tuple of lists/tuples of ints, or
null).  The environment parameters are the ASCII-only defaults and CPython's 4300-digit limit.
-/
open Lean (Json)
namespace Driver.Checksum
open Py Py.Wire Spec.Checksum

private def seqOfJson (j : Json) : Option (List Json) :=
  match j with
  | .arr a => some a.toList
  | j => match j.getObjVal? "t" with
    | .ok (.arr a) => some a.toList
    | _ => none

private def tableOfJson (j : Json) : Option (Option (List (List Nat))) :=
  match j with
  | .null => some none
  | j => do
    let rows ← seqOfJson j
    let t ← rows.mapM (fun r => do let cells ← seqOfJson r; cells.mapM natOfJson)
    pure (some t)

/-- number plus optional alphabet -/
private def withAlphabet {α} [ToWire α] (args : List Json) (dflt : Str) (f : Str → Str → R α) : String :=
  match args with
  | [n] => match (fromWire n : Option Str) with
    | some n => respond (f n dflt)
    | none => "badargs"
  | [n, a] => match (fromWire n : Option Str), (fromWire a : Option Str) with
    | some n, some a => respond (f n a)
    | _, _ => "badargs"
  | _ => "badargs"

private def oneArg {α} [ToWire α] (args : List Json) (f : Str → R α) : String :=
  match args with
  | [n] => match (fromWire n : Option Str) with
    | some n => respond (f n)
    | none => "badargs"
  | _ => "badargs"

private def withTable {α} [ToWire α] (args : List Json) (f : Str → Option (List (List Nat)) → R α) : String :=
  match args with
  | [n] => match (fromWire n : Option Str) with
    | some n => respond (f n none)
    | none => "badargs"
  | [n, t] => match (fromWire n : Option Str), tableOfJson t with
    | some n, some t => respond (f n t)
    | _, _ => "badargs"
  | _ => "badargs"

private def luhnDefault : Str := [48, 49, 50, 51, 52, 53, 54, 55, 56, 57]

def handle (target : String) (args : List Json) : Option String :=
  let dec := asciiDec
  let b36 := asciiB36
  let lim := defaultMaxDigits
  match target with
  | "luhn.checksum" => some (withAlphabet args luhnDefault Luhn.checksum)
  | "luhn.validate" => some (withAlphabet args luhnDefault Luhn.validate)
  | "luhn.is_valid" => some (withAlphabet args luhnDefault Luhn.is_valid)
  | "luhn.calc_check_digit" => some (withAlphabet args luhnDefault Luhn.calc_check_digit)
  | "verhoeff.checksum" => some (oneArg args (Verhoeff.checksum dec))
  | "verhoeff.validate" => some (oneArg args (Verhoeff.validate dec))
  | "verhoeff.is_valid" => some (oneArg args (Verhoeff.is_valid dec))
  | "verhoeff.calc_check_digit" => some (oneArg args (Verhoeff.calc_check_digit dec))
  | "damm.checksum" => some (withTable args (Damm.checksum dec))
  | "damm.validate" => some (withTable args (Damm.validate dec))
  | "damm.is_valid" => some (withTable args (Damm.is_valid dec))
  | "damm.calc_check_digit" => some (withTable args (Damm.calc_check_digit dec))
  | "mod_11_2.checksum" => some (oneArg args (Mod112.checksum dec))
  | "mod_11_2.validate" => some (oneArg args (Mod112.validate dec))
  | "mod_11_2.is_valid" => some (oneArg args (Mod112.is_valid dec))
  | "mod_11_2.calc_check_digit" => some (oneArg args (Mod112.calc_check_digit dec))
  | "mod_37_2.checksum" => some (withAlphabet args Mod372.defaultAlphabet Mod372.checksum)
  | "mod_37_2.validate" => some (withAlphabet args Mod372.defaultAlphabet Mod372.validate)
  | "mod_37_2.is_valid" => some (withAlphabet args Mod372.defaultAlphabet Mod372.is_valid)
  | "mod_37_2.calc_check_digit" => some (withAlphabet args Mod372.defaultAlphabet Mod372.calc_check_digit)
  | "mod_11_10.checksum" => some (oneArg args (Mod1110.checksum dec))
  | "mod_11_10.validate" => some (oneArg args (Mod1110.validate dec))
  | "mod_11_10.is_valid" => some (oneArg args (Mod1110.is_valid dec))
  | "mod_11_10.calc_check_digit" => some (oneArg args (Mod1110.calc_check_digit dec))
  | "mod_37_36.checksum" => some (withAlphabet args Mod3736.defaultAlphabet Mod3736.checksum)
  | "mod_37_36.validate" => some (withAlphabet args Mod3736.defaultAlphabet Mod3736.validate)
  | "mod_37_36.is_valid" => some (withAlphabet args Mod3736.defaultAlphabet Mod3736.is_valid)
  | "mod_37_36.calc_check_digit" => some (withAlphabet args Mod3736.defaultAlphabet Mod3736.calc_check_digit)
  | "mod_97_10.checksum" => some (oneArg args (Mod9710.checksum b36 lim))
  | "mod_97_10.validate" => some (oneArg args (Mod9710.validate b36 lim))
  | "mod_97_10.is_valid" => some (oneArg args (Mod9710.is_valid b36 lim))
  | "mod_97_10.calc_check_digits" => some (oneArg args (Mod9710.calc_check_digits b36 lim))
  | _ => none

end Driver.Checksum
