import PyRt
import Gen.ro_onrc
open Py Lean
namespace Driver.D_ro_onrc
def handle (fn : String) (args : List Json) : String :=
  match fn with
  | "compact" => match args with
    | [a0] => (do let x0 ← Wire.decStr a0; pure (Wire.respondWith Wire.encStr (Gen.ro_onrc.compact x0)) : Option String).getD "badargs"
    | _ => "badargs"
  | "is_valid" => match args with
    | [t, a0] => (do let today__ ← Wire.decDate t; let x0 ← Wire.decStr a0; pure (Wire.respondWith Wire.encBool (Gen.ro_onrc.is_valid today__ x0)) : Option String).getD "badargs"
    | _ => "badargs"
  | "validate" => match args with
    | [t, a0] => (do let today__ ← Wire.decDate t; let x0 ← Wire.decStr a0; pure (Wire.respondWith Wire.encStr (Gen.ro_onrc.validate today__ x0)) : Option String).getD "badargs"
    | _ => "badargs"
  | _ => "nofunc"
end Driver.D_ro_onrc
