import PyRt
import Gen.it_aic
open Py Lean
namespace Driver.D_it_aic
def handle (fn : String) (args : List Json) : String :=
  match fn with
  | "calc_check_digit" => match args with
    | [a0] => (do let x0 ← Wire.decStr a0; pure (Wire.respondWith Wire.encStr (Gen.it_aic.calc_check_digit x0)) : Option String).getD "badargs"
    | _ => "badargs"
  | "compact" => match args with
    | [a0] => (do let x0 ← Wire.decStr a0; pure (Wire.respondWith Wire.encStr (Gen.it_aic.compact x0)) : Option String).getD "badargs"
    | _ => "badargs"
  | "from_base32" => match args with
    | [a0] => (do let x0 ← Wire.decStr a0; pure (Wire.respondWith Wire.encStr (Gen.it_aic.from_base32 x0)) : Option String).getD "badargs"
    | _ => "badargs"
  | "is_valid" => match args with
    | [a0] => (do let x0 ← Wire.decStr a0; pure (Wire.respondWith Wire.encBool (Gen.it_aic.is_valid x0)) : Option String).getD "badargs"
    | _ => "badargs"
  | "to_base32" => match args with
    | [a0] => (do let x0 ← Wire.decStr a0; pure (Wire.respondWith Wire.encStr (Gen.it_aic.to_base32 x0)) : Option String).getD "badargs"
    | _ => "badargs"
  | "validate" => match args with
    | [a0] => (do let x0 ← Wire.decStr a0; pure (Wire.respondWith Wire.encStr (Gen.it_aic.validate x0)) : Option String).getD "badargs"
    | _ => "badargs"
  | "validate_base10" => match args with
    | [a0] => (do let x0 ← Wire.decStr a0; pure (Wire.respondWith Wire.encStr (Gen.it_aic.validate_base10 x0)) : Option String).getD "badargs"
    | _ => "badargs"
  | "validate_base32" => match args with
    | [a0] => (do let x0 ← Wire.decStr a0; pure (Wire.respondWith Wire.encStr (Gen.it_aic.validate_base32 x0)) : Option String).getD "badargs"
    | _ => "badargs"
  | _ => "nofunc"
end Driver.D_it_aic
