import PyRt
import Gen.damm
open Py Lean
namespace Driver.D_damm
def handle (fn : String) (args : List Json) : String :=
  match fn with
  | "calc_check_digit" => match args with
    | [a0, a1] => (do let x0 ← Wire.decStr a0; let x1 ← (Wire.decOpt (Wire.decList (Wire.decList Wire.decInt))) a1; pure (Wire.respondWith Wire.encStr (Gen.damm.calc_check_digit x0 x1)) : Option String).getD "badargs"
    | _ => "badargs"
  | "checksum" => match args with
    | [a0, a1] => (do let x0 ← Wire.decStr a0; let x1 ← (Wire.decOpt (Wire.decList (Wire.decList Wire.decInt))) a1; pure (Wire.respondWith Wire.encInt (Gen.damm.checksum x0 x1)) : Option String).getD "badargs"
    | _ => "badargs"
  | "is_valid" => match args with
    | [a0, a1] => (do let x0 ← Wire.decStr a0; let x1 ← (Wire.decOpt (Wire.decList (Wire.decList Wire.decInt))) a1; pure (Wire.respondWith Wire.encBool (Gen.damm.is_valid x0 x1)) : Option String).getD "badargs"
    | _ => "badargs"
  | "validate" => match args with
    | [a0, a1] => (do let x0 ← Wire.decStr a0; let x1 ← (Wire.decOpt (Wire.decList (Wire.decList Wire.decInt))) a1; pure (Wire.respondWith Wire.encStr (Gen.damm.validate x0 x1)) : Option String).getD "badargs"
    | _ => "badargs"
  | _ => "nofunc"
end Driver.D_damm
