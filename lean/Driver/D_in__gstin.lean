import PyRt
import Gen.in__gstin
open Py Lean
namespace Driver.D_in__gstin
def handle (fn : String) (args : List Json) : String :=
  match fn with
  | "compact" => match args with
    | [a0] => (do let x0 ← Wire.decStr a0; pure (Wire.respondWith Wire.encStr (Gen.in__gstin.compact x0)) : Option String).getD "badargs"
    | _ => "badargs"
  | "info" => match args with
    | [a0] => (do let x0 ← Wire.decStr a0; pure (Wire.respondWith (fun r__ => match r__ with | (f0__, f1__, f2__, f3__, f4__) => Json.mkObj [("d", Json.arr #[Json.arr #[Wire.encStr ([115, 116, 97, 116, 101] : Str), (Wire.encOpt Wire.encStr) f0__], Json.arr #[Wire.encStr ([112, 97, 110] : Str), Wire.encStr f1__], Json.arr #[Wire.encStr ([104, 111, 108, 100, 101, 114, 95, 116, 121, 112, 101] : Str), (Wire.encOpt Wire.encStr) f2__], Json.arr #[Wire.encStr ([105, 110, 105, 116, 105, 97, 108] : Str), Wire.encStr f3__], Json.arr #[Wire.encStr ([114, 101, 103, 105, 115, 116, 114, 97, 116, 105, 111, 110, 95, 99, 111, 117, 110, 116] : Str), Wire.encInt f4__]])]) (Gen.in__gstin.info x0)) : Option String).getD "badargs"
    | _ => "badargs"
  | "is_valid" => match args with
    | [a0] => (do let x0 ← Wire.decStr a0; pure (Wire.respondWith Wire.encBool (Gen.in__gstin.is_valid x0)) : Option String).getD "badargs"
    | _ => "badargs"
  | "to_pan" => match args with
    | [a0] => (do let x0 ← Wire.decStr a0; pure (Wire.respondWith Wire.encStr (Gen.in__gstin.to_pan x0)) : Option String).getD "badargs"
    | _ => "badargs"
  | "validate" => match args with
    | [a0] => (do let x0 ← Wire.decStr a0; pure (Wire.respondWith Wire.encStr (Gen.in__gstin.validate x0)) : Option String).getD "badargs"
    | _ => "badargs"
  | _ => "nofunc"
end Driver.D_in__gstin
