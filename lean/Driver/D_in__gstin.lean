import PyRt
import Gen.in__gstin
open Py Lean
namespace Driver.D_in__gstin
def handle (fn : String) (args : List Json) : String :=
  match fn with
  | "compact" => match args with
    | [a0] => (do let x0 ← Wire.decStr a0; pure (Wire.respondWith Wire.encStr (Gen.in__gstin.compact x0)) : Option String).getD "badargs"
    | _ => "badargs"
  | "is_valid" => match args with
    | [a0] => (do let x0 ← Wire.decStr a0; pure (Wire.respondWith Wire.encBool (Gen.in__gstin.is_valid x0)) : Option String).getD "badargs"
    | _ => "badargs"
  | "to_pan" => match args with
    | [a0] => (do let x0 ← Wire.decStr a0; pure (Wire.respondWith Wire.encStr (Gen.in__gstin.to_pan x0)) : Option String).getD "badargs"
    | _ => "badargs"
  | "validate" => match args with
    | [a0] => (do let x0 ← Wire.decStr a0; pure (Wire.respondWith Wire.encStr (Gen.in__gstin.validate x0)) : Option String).getD "badargs"
    | _ => "badargs"
  | _ => "nofunc"
end Driver.D_in__gstin
