import PyRt
import Gen.at_tin
open Py Lean
namespace Driver.D_at_tin
def handle (fn : String) (args : List Json) : String :=
  match fn with
  | "_min_fa" => match args with
    | [a0] => (do let x0 ← Wire.decStr a0; pure (Wire.respondWith Wire.encStr (Gen.at_tin._min_fa x0)) : Option String).getD "badargs"
    | _ => "badargs"
  | "calc_check_digit" => match args with
    | [a0] => (do let x0 ← Wire.decStr a0; pure (Wire.respondWith Wire.encStr (Gen.at_tin.calc_check_digit x0)) : Option String).getD "badargs"
    | _ => "badargs"
  | "compact" => match args with
    | [a0] => (do let x0 ← Wire.decStr a0; pure (Wire.respondWith Wire.encStr (Gen.at_tin.compact x0)) : Option String).getD "badargs"
    | _ => "badargs"
  | "format" => match args with
    | [a0] => (do let x0 ← Wire.decStr a0; pure (Wire.respondWith Wire.encStr (Gen.at_tin.format x0)) : Option String).getD "badargs"
    | _ => "badargs"
  | "info" => match args with
    | [a0] => (do let x0 ← Wire.decStr a0; pure (Wire.respondWith (Wire.encDict Wire.encStr Wire.encStr) (Gen.at_tin.info x0)) : Option String).getD "badargs"
    | _ => "badargs"
  | "is_valid" => match args with
    | [a0, a1] => (do let x0 ← Wire.decStr a0; let x1 ← (Wire.decOpt Wire.decStr) a1; pure (Wire.respondWith Wire.encBool (Gen.at_tin.is_valid x0 x1)) : Option String).getD "badargs"
    | _ => "badargs"
  | "validate" => match args with
    | [a0, a1] => (do let x0 ← Wire.decStr a0; let x1 ← (Wire.decOpt Wire.decStr) a1; pure (Wire.respondWith Wire.encStr (Gen.at_tin.validate x0 x1)) : Option String).getD "badargs"
    | _ => "badargs"
  | _ => "nofunc"
end Driver.D_at_tin
