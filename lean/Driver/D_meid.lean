import PyRt
import Gen.meid
open Py Lean
namespace Driver.D_meid
def handle (fn : String) (args : List Json) : String :=
  match fn with
  | "_cleanup" => match args with
    | [a0] => (do let x0 ← Wire.decStr a0; pure (Wire.respondWith Wire.encStr (Gen.meid._cleanup x0)) : Option String).getD "badargs"
    | _ => "badargs"
  | "_ishex" => match args with
    | [a0] => (do let x0 ← Wire.decStr a0; pure (Wire.respondWith Wire.encBool (Gen.meid._ishex x0)) : Option String).getD "badargs"
    | _ => "badargs"
  | "_parse" => match args with
    | [a0] => (do let x0 ← Wire.decStr a0; pure (Wire.respondWith (Wire.encT2 Wire.encStr Wire.encStr) (Gen.meid._parse x0)) : Option String).getD "badargs"
    | _ => "badargs"
  | "calc_check_digit" => match args with
    | [a0] => (do let x0 ← Wire.decStr a0; pure (Wire.respondWith Wire.encStr (Gen.meid.calc_check_digit x0)) : Option String).getD "badargs"
    | _ => "badargs"
  | "compact" => match args with
    | [a0, a1] => (do let x0 ← Wire.decStr a0; let x1 ← Wire.decBool a1; pure (Wire.respondWith Wire.encStr (Gen.meid.compact x0 x1)) : Option String).getD "badargs"
    | _ => "badargs"
  | "format" => match args with
    | [a0, a1, a2, a3] => (do let x0 ← Wire.decStr a0; let x1 ← Wire.decStr a1; let x2 ← (Wire.decOpt Wire.decStr) a2; let x3 ← Wire.decBool a3; pure (Wire.respondWith Wire.encStr (Gen.meid.format x0 x1 x2 x3)) : Option String).getD "badargs"
    | _ => "badargs"
  | "is_valid" => match args with
    | [a0] => (do let x0 ← Wire.decStr a0; pure (Wire.respondWith Wire.encBool (Gen.meid.is_valid x0)) : Option String).getD "badargs"
    | _ => "badargs"
  | "validate" => match args with
    | [a0, a1] => (do let x0 ← Wire.decStr a0; let x1 ← Wire.decBool a1; pure (Wire.respondWith Wire.encStr (Gen.meid.validate x0 x1)) : Option String).getD "badargs"
    | _ => "badargs"
  | _ => "nofunc"
end Driver.D_meid
