import PyRt
import Gen.lt_pvm
open Py Lean
namespace Driver.D_lt_pvm
def handle (fn : String) (args : List Json) : String :=
  match fn with
  | "calc_check_digit" => match args with
    | [a0] => (do let x0 ← Wire.decStr a0; pure (Wire.respondWith Wire.encStr (Gen.lt_pvm.calc_check_digit x0)) : Option String).getD "badargs"
    | _ => "badargs"
  | "compact" => match args with
    | [a0] => (do let x0 ← Wire.decStr a0; pure (Wire.respondWith Wire.encStr (Gen.lt_pvm.compact x0)) : Option String).getD "badargs"
    | _ => "badargs"
  | "is_valid" => match args with
    | [a0] => (do let x0 ← Wire.decStr a0; pure (Wire.respondWith Wire.encBool (Gen.lt_pvm.is_valid x0)) : Option String).getD "badargs"
    | _ => "badargs"
  | "validate" => match args with
    | [a0] => (do let x0 ← Wire.decStr a0; pure (Wire.respondWith Wire.encStr (Gen.lt_pvm.validate x0)) : Option String).getD "badargs"
    | _ => "badargs"
  | _ => "nofunc"
end Driver.D_lt_pvm
