import PyRt
import Gen.be_iban
open Py Lean
namespace Driver.D_be_iban
def handle (fn : String) (args : List Json) : String :=
  match fn with
  | "_calc_check_digits" => match args with
    | [a0] => (do let x0 ← Wire.decStr a0; pure (Wire.respondWith Wire.encStr (Gen.be_iban._calc_check_digits x0)) : Option String).getD "badargs"
    | _ => "badargs"
  | "info" => match args with
    | [a0] => (do let x0 ← Wire.decStr a0; pure (Wire.respondWith (Wire.encDict Wire.encStr Wire.encStr) (Gen.be_iban.info x0)) : Option String).getD "badargs"
    | _ => "badargs"
  | "is_valid" => match args with
    | [a0] => (do let x0 ← Wire.decStr a0; pure (Wire.respondWith Wire.encBool (Gen.be_iban.is_valid x0)) : Option String).getD "badargs"
    | _ => "badargs"
  | "to_bic" => match args with
    | [a0] => (do let x0 ← Wire.decStr a0; pure (Wire.respondWith (Wire.encOpt Wire.encStr) (Gen.be_iban.to_bic x0)) : Option String).getD "badargs"
    | _ => "badargs"
  | "validate" => match args with
    | [a0] => (do let x0 ← Wire.decStr a0; pure (Wire.respondWith Wire.encStr (Gen.be_iban.validate x0)) : Option String).getD "badargs"
    | _ => "badargs"
  | _ => "nofunc"
end Driver.D_be_iban
