import PyRt
import Gen.ar_dni
open Py Lean
namespace Driver.D_ar_dni
def handle (fn : String) (args : List Json) : String :=
  match fn with
  | "compact" => match args with
    | [a0] => (do let x0 ← Wire.decStr a0; pure (Wire.respondWith Wire.encStr (Gen.ar_dni.compact x0)) : Option String).getD "badargs"
    | _ => "badargs"
  | "format" => match args with
    | [a0] => (do let x0 ← Wire.decStr a0; pure (Wire.respondWith Wire.encStr (Gen.ar_dni.format x0)) : Option String).getD "badargs"
    | _ => "badargs"
  | "is_valid" => match args with
    | [a0] => (do let x0 ← Wire.decStr a0; pure (Wire.respondWith Wire.encBool (Gen.ar_dni.is_valid x0)) : Option String).getD "badargs"
    | _ => "badargs"
  | "validate" => match args with
    | [a0] => (do let x0 ← Wire.decStr a0; pure (Wire.respondWith Wire.encStr (Gen.ar_dni.validate x0)) : Option String).getD "badargs"
    | _ => "badargs"
  | _ => "nofunc"
end Driver.D_ar_dni
