import PyRt
import Gen.se_orgnr
open Py Lean
namespace Driver.D_se_orgnr
def handle (fn : String) (args : List Json) : String :=
  match fn with
  | "compact" => match args with
    | [a0] => (do let x0 ← Wire.decStr a0; pure (Wire.respondWith Wire.encStr (Gen.se_orgnr.compact x0)) : Option String).getD "badargs"
    | _ => "badargs"
  | "format" => match args with
    | [a0] => (do let x0 ← Wire.decStr a0; pure (Wire.respondWith Wire.encStr (Gen.se_orgnr.format x0)) : Option String).getD "badargs"
    | _ => "badargs"
  | "is_valid" => match args with
    | [a0] => (do let x0 ← Wire.decStr a0; pure (Wire.respondWith Wire.encBool (Gen.se_orgnr.is_valid x0)) : Option String).getD "badargs"
    | _ => "badargs"
  | "validate" => match args with
    | [a0] => (do let x0 ← Wire.decStr a0; pure (Wire.respondWith Wire.encStr (Gen.se_orgnr.validate x0)) : Option String).getD "badargs"
    | _ => "badargs"
  | _ => "nofunc"
end Driver.D_se_orgnr
