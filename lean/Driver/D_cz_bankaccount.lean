import PyRt
import Gen.cz_bankaccount
open Py Lean
namespace Driver.D_cz_bankaccount
def handle (fn : String) (args : List Json) : String :=
  match fn with
  | "_calc_checksum" => match args with
    | [a0] => (do let x0 ← Wire.decStr a0; pure (Wire.respondWith Wire.encInt (Gen.cz_bankaccount._calc_checksum x0)) : Option String).getD "badargs"
    | _ => "badargs"
  | "_info" => match args with
    | [a0] => (do let x0 ← Wire.decStr a0; pure (Wire.respondWith (Wire.encDict Wire.encStr Wire.encStr) (Gen.cz_bankaccount._info x0)) : Option String).getD "badargs"
    | _ => "badargs"
  | "_split" => match args with
    | [a0] => (do let x0 ← Wire.decStr a0; pure (Wire.respondWith (Wire.encT3 (Wire.encOpt Wire.encStr) Wire.encStr Wire.encStr) (Gen.cz_bankaccount._split x0)) : Option String).getD "badargs"
    | _ => "badargs"
  | "compact" => match args with
    | [a0] => (do let x0 ← Wire.decStr a0; pure (Wire.respondWith Wire.encStr (Gen.cz_bankaccount.compact x0)) : Option String).getD "badargs"
    | _ => "badargs"
  | "format" => match args with
    | [a0] => (do let x0 ← Wire.decStr a0; pure (Wire.respondWith Wire.encStr (Gen.cz_bankaccount.format x0)) : Option String).getD "badargs"
    | _ => "badargs"
  | "info" => match args with
    | [a0] => (do let x0 ← Wire.decStr a0; pure (Wire.respondWith (Wire.encDict Wire.encStr Wire.encStr) (Gen.cz_bankaccount.info x0)) : Option String).getD "badargs"
    | _ => "badargs"
  | "is_valid" => match args with
    | [a0] => (do let x0 ← Wire.decStr a0; pure (Wire.respondWith Wire.encBool (Gen.cz_bankaccount.is_valid x0)) : Option String).getD "badargs"
    | _ => "badargs"
  | "to_bic" => match args with
    | [a0] => (do let x0 ← Wire.decStr a0; pure (Wire.respondWith (Wire.encOpt Wire.encStr) (Gen.cz_bankaccount.to_bic x0)) : Option String).getD "badargs"
    | _ => "badargs"
  | "validate" => match args with
    | [a0] => (do let x0 ← Wire.decStr a0; pure (Wire.respondWith Wire.encStr (Gen.cz_bankaccount.validate x0)) : Option String).getD "badargs"
    | _ => "badargs"
  | _ => "nofunc"
end Driver.D_cz_bankaccount
