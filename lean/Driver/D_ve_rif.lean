import PyRt
import Gen.ve_rif
open Py Lean
namespace Driver.D_ve_rif
def handle (fn : String) (args : List Json) : String :=
  match fn with
  | "calc_check_digit" => match args with
    | [a0] => (do let x0 ← Wire.decStr a0; pure (Wire.respondWith Wire.encStr (Gen.ve_rif.calc_check_digit x0)) : Option String).getD "badargs"
    | _ => "badargs"
  | "compact" => match args with
    | [a0] => (do let x0 ← Wire.decStr a0; pure (Wire.respondWith Wire.encStr (Gen.ve_rif.compact x0)) : Option String).getD "badargs"
    | _ => "badargs"
  | "is_valid" => match args with
    | [a0] => (do let x0 ← Wire.decStr a0; pure (Wire.respondWith Wire.encBool (Gen.ve_rif.is_valid x0)) : Option String).getD "badargs"
    | _ => "badargs"
  | "validate" => match args with
    | [a0] => (do let x0 ← Wire.decStr a0; pure (Wire.respondWith Wire.encStr (Gen.ve_rif.validate x0)) : Option String).getD "badargs"
    | _ => "badargs"
  | _ => "nofunc"
end Driver.D_ve_rif
