import PyRt
import Gen.li_peid
open Py Lean
namespace Driver.D_li_peid
def handle (fn : String) (args : List Json) : String :=
  match fn with
  | "compact" => match args with
    | [a0] => (do let x0 ← Wire.decStr a0; pure (Wire.respondWith Wire.encStr (Gen.li_peid.compact x0)) : Option String).getD "badargs"
    | _ => "badargs"
  | "is_valid" => match args with
    | [a0] => (do let x0 ← Wire.decStr a0; pure (Wire.respondWith Wire.encBool (Gen.li_peid.is_valid x0)) : Option String).getD "badargs"
    | _ => "badargs"
  | "validate" => match args with
    | [a0] => (do let x0 ← Wire.decStr a0; pure (Wire.respondWith Wire.encStr (Gen.li_peid.validate x0)) : Option String).getD "badargs"
    | _ => "badargs"
  | _ => "nofunc"
end Driver.D_li_peid
