import PyRt
import Gen.vn_mst
open Py Lean
namespace Driver.D_vn_mst
def handle (fn : String) (args : List Json) : String :=
  match fn with
  | "calc_check_digit" => match args with
    | [a0] => (do let x0 ← Wire.decStr a0; pure (Wire.respondWith Wire.encStr (Gen.vn_mst.calc_check_digit x0)) : Option String).getD "badargs"
    | _ => "badargs"
  | "compact" => match args with
    | [a0] => (do let x0 ← Wire.decStr a0; pure (Wire.respondWith Wire.encStr (Gen.vn_mst.compact x0)) : Option String).getD "badargs"
    | _ => "badargs"
  | "format" => match args with
    | [a0] => (do let x0 ← Wire.decStr a0; pure (Wire.respondWith Wire.encStr (Gen.vn_mst.format x0)) : Option String).getD "badargs"
    | _ => "badargs"
  | "is_valid" => match args with
    | [a0] => (do let x0 ← Wire.decStr a0; pure (Wire.respondWith Wire.encBool (Gen.vn_mst.is_valid x0)) : Option String).getD "badargs"
    | _ => "badargs"
  | "validate" => match args with
    | [a0] => (do let x0 ← Wire.decStr a0; pure (Wire.respondWith Wire.encStr (Gen.vn_mst.validate x0)) : Option String).getD "badargs"
    | _ => "badargs"
  | _ => "nofunc"
end Driver.D_vn_mst
