import PyRt
import Gen.verhoeff
open Py Lean
namespace Driver.D_verhoeff
def handle (fn : String) (args : List Json) : String :=
  match fn with
  | "calc_check_digit" => match args with
    | [a0] => (do let x0 ← Wire.decStr a0; pure (Wire.respondWith Wire.encStr (Gen.verhoeff.calc_check_digit x0)) : Option String).getD "badargs"
    | _ => "badargs"
  | "checksum" => match args with
    | [a0] => (do let x0 ← Wire.decStr a0; pure (Wire.respondWith Wire.encInt (Gen.verhoeff.checksum x0)) : Option String).getD "badargs"
    | _ => "badargs"
  | "is_valid" => match args with
    | [a0] => (do let x0 ← Wire.decStr a0; pure (Wire.respondWith Wire.encBool (Gen.verhoeff.is_valid x0)) : Option String).getD "badargs"
    | _ => "badargs"
  | "validate" => match args with
    | [a0] => (do let x0 ← Wire.decStr a0; pure (Wire.respondWith Wire.encStr (Gen.verhoeff.validate x0)) : Option String).getD "badargs"
    | _ => "badargs"
  | _ => "nofunc"
end Driver.D_verhoeff
