import PyRt
import Gen.ca_sin
open Py Lean
namespace Driver.D_ca_sin
def handle (fn : String) (args : List Json) : String :=
  match fn with
  | "compact" => match args with
    | [a0] => (do let x0 ← Wire.decStr a0; pure (Wire.respondWith Wire.encStr (Gen.ca_sin.compact x0)) : Option String).getD "badargs"
    | _ => "badargs"
  | "format" => match args with
    | [a0] => (do let x0 ← Wire.decStr a0; pure (Wire.respondWith Wire.encStr (Gen.ca_sin.format x0)) : Option String).getD "badargs"
    | _ => "badargs"
  | "is_valid" => match args with
    | [a0] => (do let x0 ← Wire.decStr a0; pure (Wire.respondWith Wire.encBool (Gen.ca_sin.is_valid x0)) : Option String).getD "badargs"
    | _ => "badargs"
  | "validate" => match args with
    | [a0] => (do let x0 ← Wire.decStr a0; pure (Wire.respondWith Wire.encStr (Gen.ca_sin.validate x0)) : Option String).getD "badargs"
    | _ => "badargs"
  | _ => "nofunc"
end Driver.D_ca_sin
