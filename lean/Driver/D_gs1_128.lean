import PyRt
import Gen.gs1_128
open Py Lean
namespace Driver.D_gs1_128
def handle (fn : String) (args : List Json) : String :=
  match fn with
  | "compact" => match args with
    | [a0] => (do let x0 ← Wire.decStr a0; pure (Wire.respondWith Wire.encStr (Gen.gs1_128.compact x0)) : Option String).getD "badargs"
    | _ => "badargs"
  | _ => "nofunc"
end Driver.D_gs1_128
