import PyRt
import Gen.fi_associationid
open Py Lean
namespace Driver.D_fi_associationid
def handle (fn : String) (args : List Json) : String :=
  match fn with
  | "compact" => match args with
    | [a0] => (do let x0 ← Wire.decStr a0; pure (Wire.respondWith Wire.encStr (Gen.fi_associationid.compact x0)) : Option String).getD "badargs"
    | _ => "badargs"
  | "format" => match args with
    | [a0] => (do let x0 ← Wire.decStr a0; pure (Wire.respondWith Wire.encStr (Gen.fi_associationid.format x0)) : Option String).getD "badargs"
    | _ => "badargs"
  | "is_valid" => match args with
    | [a0] => (do let x0 ← Wire.decStr a0; pure (Wire.respondWith Wire.encBool (Gen.fi_associationid.is_valid x0)) : Option String).getD "badargs"
    | _ => "badargs"
  | "validate" => match args with
    | [a0] => (do let x0 ← Wire.decStr a0; pure (Wire.respondWith Wire.encStr (Gen.fi_associationid.validate x0)) : Option String).getD "badargs"
    | _ => "badargs"
  | _ => "nofunc"
end Driver.D_fi_associationid
