import PyRt
import Gen.us_rtn
open Py Lean
namespace Driver.D_us_rtn
def handle (fn : String) (args : List Json) : String :=
  match fn with
  | "calc_check_digit" => match args with
    | [a0] => (do let x0 ← Wire.decStr a0; pure (Wire.respondWith Wire.encStr (Gen.us_rtn.calc_check_digit x0)) : Option String).getD "badargs"
    | _ => "badargs"
  | "compact" => match args with
    | [a0] => (do let x0 ← Wire.decStr a0; pure (Wire.respondWith Wire.encStr (Gen.us_rtn.compact x0)) : Option String).getD "badargs"
    | _ => "badargs"
  | "is_valid" => match args with
    | [a0] => (do let x0 ← Wire.decStr a0; pure (Wire.respondWith Wire.encBool (Gen.us_rtn.is_valid x0)) : Option String).getD "badargs"
    | _ => "badargs"
  | "validate" => match args with
    | [a0] => (do let x0 ← Wire.decStr a0; pure (Wire.respondWith Wire.encStr (Gen.us_rtn.validate x0)) : Option String).getD "badargs"
    | _ => "badargs"
  | _ => "nofunc"
end Driver.D_us_rtn
