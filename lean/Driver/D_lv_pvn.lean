import PyRt
import Gen.lv_pvn
open Py Lean
namespace Driver.D_lv_pvn
def handle (fn : String) (args : List Json) : String :=
  match fn with
  | "calc_check_digit_pers" => match args with
    | [a0] => (do let x0 ← Wire.decStr a0; pure (Wire.respondWith Wire.encStr (Gen.lv_pvn.calc_check_digit_pers x0)) : Option String).getD "badargs"
    | _ => "badargs"
  | "checksum" => match args with
    | [a0] => (do let x0 ← Wire.decStr a0; pure (Wire.respondWith Wire.encInt (Gen.lv_pvn.checksum x0)) : Option String).getD "badargs"
    | _ => "badargs"
  | "compact" => match args with
    | [a0] => (do let x0 ← Wire.decStr a0; pure (Wire.respondWith Wire.encStr (Gen.lv_pvn.compact x0)) : Option String).getD "badargs"
    | _ => "badargs"
  | "get_birth_date" => match args with
    | [a0] => (do let x0 ← Wire.decStr a0; pure (Wire.respondWith Wire.encDate (Gen.lv_pvn.get_birth_date x0)) : Option String).getD "badargs"
    | _ => "badargs"
  | "is_valid" => match args with
    | [a0] => (do let x0 ← Wire.decStr a0; pure (Wire.respondWith Wire.encBool (Gen.lv_pvn.is_valid x0)) : Option String).getD "badargs"
    | _ => "badargs"
  | "validate" => match args with
    | [a0] => (do let x0 ← Wire.decStr a0; pure (Wire.respondWith Wire.encStr (Gen.lv_pvn.validate x0)) : Option String).getD "badargs"
    | _ => "badargs"
  | _ => "nofunc"
end Driver.D_lv_pvn
