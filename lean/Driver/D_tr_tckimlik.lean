import PyRt
import Gen.tr_tckimlik
open Py Lean
namespace Driver.D_tr_tckimlik
def handle (fn : String) (args : List Json) : String :=
  match fn with
  | "calc_check_digits" => match args with
    | [a0] => (do let x0 ← Wire.decStr a0; pure (Wire.respondWith Wire.encStr (Gen.tr_tckimlik.calc_check_digits x0)) : Option String).getD "badargs"
    | _ => "badargs"
  | "compact" => match args with
    | [a0] => (do let x0 ← Wire.decStr a0; pure (Wire.respondWith Wire.encStr (Gen.tr_tckimlik.compact x0)) : Option String).getD "badargs"
    | _ => "badargs"
  | "is_valid" => match args with
    | [a0] => (do let x0 ← Wire.decStr a0; pure (Wire.respondWith Wire.encBool (Gen.tr_tckimlik.is_valid x0)) : Option String).getD "badargs"
    | _ => "badargs"
  | "validate" => match args with
    | [a0] => (do let x0 ← Wire.decStr a0; pure (Wire.respondWith Wire.encStr (Gen.tr_tckimlik.validate x0)) : Option String).getD "badargs"
    | _ => "badargs"
  | _ => "nofunc"
end Driver.D_tr_tckimlik
