import PyRt
import Gen.kr_rrn
open Py Lean
namespace Driver.D_kr_rrn
def handle (fn : String) (args : List Json) : String :=
  match fn with
  | "calc_check_digit" => match args with
    | [a0] => (do let x0 ← Wire.decStr a0; pure (Wire.respondWith Wire.encStr (Gen.kr_rrn.calc_check_digit x0)) : Option String).getD "badargs"
    | _ => "badargs"
  | "compact" => match args with
    | [a0] => (do let x0 ← Wire.decStr a0; pure (Wire.respondWith Wire.encStr (Gen.kr_rrn.compact x0)) : Option String).getD "badargs"
    | _ => "badargs"
  | "format" => match args with
    | [a0] => (do let x0 ← Wire.decStr a0; pure (Wire.respondWith Wire.encStr (Gen.kr_rrn.format x0)) : Option String).getD "badargs"
    | _ => "badargs"
  | "get_birth_date" => match args with
    | [t, a0, a1] => (do let today__ ← Wire.decDate t; let x0 ← Wire.decStr a0; let x1 ← Wire.decBool a1; pure (Wire.respondWith Wire.encDate (Gen.kr_rrn.get_birth_date today__ x0 x1)) : Option String).getD "badargs"
    | _ => "badargs"
  | "is_valid" => match args with
    | [t, a0, a1] => (do let today__ ← Wire.decDate t; let x0 ← Wire.decStr a0; let x1 ← Wire.decBool a1; pure (Wire.respondWith Wire.encBool (Gen.kr_rrn.is_valid today__ x0 x1)) : Option String).getD "badargs"
    | _ => "badargs"
  | "validate" => match args with
    | [t, a0, a1] => (do let today__ ← Wire.decDate t; let x0 ← Wire.decStr a0; let x1 ← Wire.decBool a1; pure (Wire.respondWith Wire.encStr (Gen.kr_rrn.validate today__ x0 x1)) : Option String).getD "badargs"
    | _ => "badargs"
  | _ => "nofunc"
end Driver.D_kr_rrn
