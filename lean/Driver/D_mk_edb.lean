import PyRt
import Gen.mk_edb
open Py Lean
namespace Driver.D_mk_edb
def handle (fn : String) (args : List Json) : String :=
  match fn with
  | "calc_check_digit" => match args with
    | [a0] => (do let x0 ← Wire.decStr a0; pure (Wire.respondWith Wire.encStr (Gen.mk_edb.calc_check_digit x0)) : Option String).getD "badargs"
    | _ => "badargs"
  | "compact" => match args with
    | [a0] => (do let x0 ← Wire.decStr a0; pure (Wire.respondWith Wire.encStr (Gen.mk_edb.compact x0)) : Option String).getD "badargs"
    | _ => "badargs"
  | "format" => match args with
    | [a0] => (do let x0 ← Wire.decStr a0; pure (Wire.respondWith Wire.encStr (Gen.mk_edb.format x0)) : Option String).getD "badargs"
    | _ => "badargs"
  | "is_valid" => match args with
    | [a0] => (do let x0 ← Wire.decStr a0; pure (Wire.respondWith Wire.encBool (Gen.mk_edb.is_valid x0)) : Option String).getD "badargs"
    | _ => "badargs"
  | "validate" => match args with
    | [a0] => (do let x0 ← Wire.decStr a0; pure (Wire.respondWith Wire.encStr (Gen.mk_edb.validate x0)) : Option String).getD "badargs"
    | _ => "badargs"
  | _ => "nofunc"
end Driver.D_mk_edb
