import PyRt
import Gen.se_vat
open Py Lean
namespace Driver.D_se_vat
def handle (fn : String) (args : List Json) : String :=
  match fn with
  | "compact" => match args with
    | [a0] => (do let x0 ← Wire.decStr a0; pure (Wire.respondWith Wire.encStr (Gen.se_vat.compact x0)) : Option String).getD "badargs"
    | _ => "badargs"
  | "is_valid" => match args with
    | [a0] => (do let x0 ← Wire.decStr a0; pure (Wire.respondWith Wire.encBool (Gen.se_vat.is_valid x0)) : Option String).getD "badargs"
    | _ => "badargs"
  | "validate" => match args with
    | [a0] => (do let x0 ← Wire.decStr a0; pure (Wire.respondWith Wire.encStr (Gen.se_vat.validate x0)) : Option String).getD "badargs"
    | _ => "badargs"
  | _ => "nofunc"
end Driver.D_se_vat
