import PyRt
import Gen.nl_bsn
open Py Lean
namespace Driver.D_nl_bsn
def handle (fn : String) (args : List Json) : String :=
  match fn with
  | "checksum" => match args with
    | [a0] => (do let x0 ← Wire.decStr a0; pure (Wire.respondWith Wire.encInt (Gen.nl_bsn.checksum x0)) : Option String).getD "badargs"
    | _ => "badargs"
  | "compact" => match args with
    | [a0] => (do let x0 ← Wire.decStr a0; pure (Wire.respondWith Wire.encStr (Gen.nl_bsn.compact x0)) : Option String).getD "badargs"
    | _ => "badargs"
  | "format" => match args with
    | [a0] => (do let x0 ← Wire.decStr a0; pure (Wire.respondWith Wire.encStr (Gen.nl_bsn.format x0)) : Option String).getD "badargs"
    | _ => "badargs"
  | "is_valid" => match args with
    | [a0] => (do let x0 ← Wire.decStr a0; pure (Wire.respondWith Wire.encBool (Gen.nl_bsn.is_valid x0)) : Option String).getD "badargs"
    | _ => "badargs"
  | "validate" => match args with
    | [a0] => (do let x0 ← Wire.decStr a0; pure (Wire.respondWith Wire.encStr (Gen.nl_bsn.validate x0)) : Option String).getD "badargs"
    | _ => "badargs"
  | _ => "nofunc"
end Driver.D_nl_bsn
