import PyRt
import Gen.cl_rut
open Py Lean
namespace Driver.D_cl_rut
def handle (fn : String) (args : List Json) : String :=
  match fn with
  | "calc_check_digit" => match args with
    | [a0] => (do let x0 ← Wire.decStr a0; pure (Wire.respondWith Wire.encStr (Gen.cl_rut.calc_check_digit x0)) : Option String).getD "badargs"
    | _ => "badargs"
  | "compact" => match args with
    | [a0] => (do let x0 ← Wire.decStr a0; pure (Wire.respondWith Wire.encStr (Gen.cl_rut.compact x0)) : Option String).getD "badargs"
    | _ => "badargs"
  | "format" => match args with
    | [a0] => (do let x0 ← Wire.decStr a0; pure (Wire.respondWith Wire.encStr (Gen.cl_rut.format x0)) : Option String).getD "badargs"
    | _ => "badargs"
  | "is_valid" => match args with
    | [a0] => (do let x0 ← Wire.decStr a0; pure (Wire.respondWith Wire.encBool (Gen.cl_rut.is_valid x0)) : Option String).getD "badargs"
    | _ => "badargs"
  | "validate" => match args with
    | [a0] => (do let x0 ← Wire.decStr a0; pure (Wire.respondWith Wire.encStr (Gen.cl_rut.validate x0)) : Option String).getD "badargs"
    | _ => "badargs"
  | _ => "nofunc"
end Driver.D_cl_rut
