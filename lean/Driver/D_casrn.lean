import PyRt
import Gen.casrn
open Py Lean
namespace Driver.D_casrn
def handle (fn : String) (args : List Json) : String :=
  match fn with
  | "calc_check_digit" => match args with
    | [a0] => (do let x0 ← Wire.decStr a0; pure (Wire.respondWith Wire.encStr (Gen.casrn.calc_check_digit x0)) : Option String).getD "badargs"
    | _ => "badargs"
  | "compact" => match args with
    | [a0] => (do let x0 ← Wire.decStr a0; pure (Wire.respondWith Wire.encStr (Gen.casrn.compact x0)) : Option String).getD "badargs"
    | _ => "badargs"
  | "is_valid" => match args with
    | [a0] => (do let x0 ← Wire.decStr a0; pure (Wire.respondWith Wire.encBool (Gen.casrn.is_valid x0)) : Option String).getD "badargs"
    | _ => "badargs"
  | "validate" => match args with
    | [a0] => (do let x0 ← Wire.decStr a0; pure (Wire.respondWith Wire.encStr (Gen.casrn.validate x0)) : Option String).getD "badargs"
    | _ => "badargs"
  | _ => "nofunc"
end Driver.D_casrn
