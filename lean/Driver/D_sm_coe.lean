import PyRt
import Gen.sm_coe
open Py Lean
namespace Driver.D_sm_coe
def handle (fn : String) (args : List Json) : String :=
  match fn with
  | "compact" => match args with
    | [a0] => (do let x0 ← Wire.decStr a0; pure (Wire.respondWith Wire.encStr (Gen.sm_coe.compact x0)) : Option String).getD "badargs"
    | _ => "badargs"
  | "is_valid" => match args with
    | [a0] => (do let x0 ← Wire.decStr a0; pure (Wire.respondWith Wire.encBool (Gen.sm_coe.is_valid x0)) : Option String).getD "badargs"
    | _ => "badargs"
  | "validate" => match args with
    | [a0] => (do let x0 ← Wire.decStr a0; pure (Wire.respondWith Wire.encStr (Gen.sm_coe.validate x0)) : Option String).getD "badargs"
    | _ => "badargs"
  | _ => "nofunc"
end Driver.D_sm_coe
