import PyRt
import Gen.is__kennitala
open Py Lean
namespace Driver.D_is__kennitala
def handle (fn : String) (args : List Json) : String :=
  match fn with
  | "checksum" => match args with
    | [a0] => (do let x0 ← Wire.decStr a0; pure (Wire.respondWith Wire.encInt (Gen.is__kennitala.checksum x0)) : Option String).getD "badargs"
    | _ => "badargs"
  | "compact" => match args with
    | [a0] => (do let x0 ← Wire.decStr a0; pure (Wire.respondWith Wire.encStr (Gen.is__kennitala.compact x0)) : Option String).getD "badargs"
    | _ => "badargs"
  | "format" => match args with
    | [a0] => (do let x0 ← Wire.decStr a0; pure (Wire.respondWith Wire.encStr (Gen.is__kennitala.format x0)) : Option String).getD "badargs"
    | _ => "badargs"
  | "is_valid" => match args with
    | [a0] => (do let x0 ← Wire.decStr a0; pure (Wire.respondWith Wire.encBool (Gen.is__kennitala.is_valid x0)) : Option String).getD "badargs"
    | _ => "badargs"
  | "validate" => match args with
    | [a0] => (do let x0 ← Wire.decStr a0; pure (Wire.respondWith Wire.encStr (Gen.is__kennitala.validate x0)) : Option String).getD "badargs"
    | _ => "badargs"
  | _ => "nofunc"
end Driver.D_is__kennitala
