import PyRt
import Gen.fo_vn
open Py Lean
namespace Driver.D_fo_vn
def handle (fn : String) (args : List Json) : String :=
  match fn with
  | "compact" => match args with
    | [a0] => (do let x0 ← Wire.decStr a0; pure (Wire.respondWith Wire.encStr (Gen.fo_vn.compact x0)) : Option String).getD "badargs"
    | _ => "badargs"
  | "format" => match args with
    | [a0] => (do let x0 ← Wire.decStr a0; pure (Wire.respondWith Wire.encStr (Gen.fo_vn.format x0)) : Option String).getD "badargs"
    | _ => "badargs"
  | "is_valid" => match args with
    | [a0] => (do let x0 ← Wire.decStr a0; pure (Wire.respondWith Wire.encBool (Gen.fo_vn.is_valid x0)) : Option String).getD "badargs"
    | _ => "badargs"
  | "validate" => match args with
    | [a0] => (do let x0 ← Wire.decStr a0; pure (Wire.respondWith Wire.encStr (Gen.fo_vn.validate x0)) : Option String).getD "badargs"
    | _ => "badargs"
  | _ => "nofunc"
end Driver.D_fo_vn
