import PyRt
import Gen.fi_hetu
open Py Lean
namespace Driver.D_fi_hetu
def handle (fn : String) (args : List Json) : String :=
  match fn with
  | "_calc_checksum" => match args with
    | [a0] => (do let x0 ← Wire.decStr a0; pure (Wire.respondWith Wire.encStr (Gen.fi_hetu._calc_checksum x0)) : Option String).getD "badargs"
    | _ => "badargs"
  | "compact" => match args with
    | [a0] => (do let x0 ← Wire.decStr a0; pure (Wire.respondWith Wire.encStr (Gen.fi_hetu.compact x0)) : Option String).getD "badargs"
    | _ => "badargs"
  | "is_valid" => match args with
    | [a0, a1] => (do let x0 ← Wire.decStr a0; let x1 ← Wire.decBool a1; pure (Wire.respondWith Wire.encBool (Gen.fi_hetu.is_valid x0 x1)) : Option String).getD "badargs"
    | _ => "badargs"
  | "validate" => match args with
    | [a0, a1] => (do let x0 ← Wire.decStr a0; let x1 ← Wire.decBool a1; pure (Wire.respondWith Wire.encStr (Gen.fi_hetu.validate x0 x1)) : Option String).getD "badargs"
    | _ => "badargs"
  | _ => "nofunc"
end Driver.D_fi_hetu
