import PyRt
import Gen.ie_pps
open Py Lean
namespace Driver.D_ie_pps
def handle (fn : String) (args : List Json) : String :=
  match fn with
  | "compact" => match args with
    | [a0] => (do let x0 ← Wire.decStr a0; pure (Wire.respondWith Wire.encStr (Gen.ie_pps.compact x0)) : Option String).getD "badargs"
    | _ => "badargs"
  | "is_valid" => match args with
    | [a0] => (do let x0 ← Wire.decStr a0; pure (Wire.respondWith Wire.encBool (Gen.ie_pps.is_valid x0)) : Option String).getD "badargs"
    | _ => "badargs"
  | "validate" => match args with
    | [a0] => (do let x0 ← Wire.decStr a0; pure (Wire.respondWith Wire.encStr (Gen.ie_pps.validate x0)) : Option String).getD "badargs"
    | _ => "badargs"
  | _ => "nofunc"
end Driver.D_ie_pps
