import PyRt
import Gen.cn_uscc
open Py Lean
namespace Driver.D_cn_uscc
def handle (fn : String) (args : List Json) : String :=
  match fn with
  | "calc_check_digit" => match args with
    | [a0] => (do let x0 ← Wire.decStr a0; pure (Wire.respondWith Wire.encStr (Gen.cn_uscc.calc_check_digit x0)) : Option String).getD "badargs"
    | _ => "badargs"
  | "compact" => match args with
    | [a0] => (do let x0 ← Wire.decStr a0; pure (Wire.respondWith Wire.encStr (Gen.cn_uscc.compact x0)) : Option String).getD "badargs"
    | _ => "badargs"
  | "format" => match args with
    | [a0] => (do let x0 ← Wire.decStr a0; pure (Wire.respondWith Wire.encStr (Gen.cn_uscc.format x0)) : Option String).getD "badargs"
    | _ => "badargs"
  | "is_valid" => match args with
    | [a0] => (do let x0 ← Wire.decStr a0; pure (Wire.respondWith Wire.encBool (Gen.cn_uscc.is_valid x0)) : Option String).getD "badargs"
    | _ => "badargs"
  | "validate" => match args with
    | [a0] => (do let x0 ← Wire.decStr a0; pure (Wire.respondWith Wire.encStr (Gen.cn_uscc.validate x0)) : Option String).getD "badargs"
    | _ => "badargs"
  | _ => "nofunc"
end Driver.D_cn_uscc
