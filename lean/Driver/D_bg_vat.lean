import PyRt
import Gen.bg_vat
open Py Lean
namespace Driver.D_bg_vat
def handle (fn : String) (args : List Json) : String :=
  match fn with
  | "calc_check_digit_legal" => match args with
    | [a0] => (do let x0 ← Wire.decStr a0; pure (Wire.respondWith Wire.encStr (Gen.bg_vat.calc_check_digit_legal x0)) : Option String).getD "badargs"
    | _ => "badargs"
  | "calc_check_digit_other" => match args with
    | [a0] => (do let x0 ← Wire.decStr a0; pure (Wire.respondWith Wire.encStr (Gen.bg_vat.calc_check_digit_other x0)) : Option String).getD "badargs"
    | _ => "badargs"
  | "compact" => match args with
    | [a0] => (do let x0 ← Wire.decStr a0; pure (Wire.respondWith Wire.encStr (Gen.bg_vat.compact x0)) : Option String).getD "badargs"
    | _ => "badargs"
  | "is_valid" => match args with
    | [a0] => (do let x0 ← Wire.decStr a0; pure (Wire.respondWith Wire.encBool (Gen.bg_vat.is_valid x0)) : Option String).getD "badargs"
    | _ => "badargs"
  | "validate" => match args with
    | [a0] => (do let x0 ← Wire.decStr a0; pure (Wire.respondWith Wire.encStr (Gen.bg_vat.validate x0)) : Option String).getD "badargs"
    | _ => "badargs"
  | _ => "nofunc"
end Driver.D_bg_vat
