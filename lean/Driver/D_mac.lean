import PyRt
import Gen.mac
open Py Lean
namespace Driver.D_mac
def handle (fn : String) (args : List Json) : String :=
  match fn with
  | "compact" => match args with
    | [a0] => (do let x0 ← Wire.decStr a0; pure (Wire.respondWith Wire.encStr (Gen.mac.compact x0)) : Option String).getD "badargs"
    | _ => "badargs"
  | "is_broadcast" => match args with
    | [a0] => (do let x0 ← Wire.decStr a0; pure (Wire.respondWith Wire.encBool (Gen.mac.is_broadcast x0)) : Option String).getD "badargs"
    | _ => "badargs"
  | "is_locally_administered" => match args with
    | [a0] => (do let x0 ← Wire.decStr a0; pure (Wire.respondWith Wire.encBool (Gen.mac.is_locally_administered x0)) : Option String).getD "badargs"
    | _ => "badargs"
  | "is_multicast" => match args with
    | [a0] => (do let x0 ← Wire.decStr a0; pure (Wire.respondWith Wire.encBool (Gen.mac.is_multicast x0)) : Option String).getD "badargs"
    | _ => "badargs"
  | "is_unicast" => match args with
    | [a0] => (do let x0 ← Wire.decStr a0; pure (Wire.respondWith Wire.encBool (Gen.mac.is_unicast x0)) : Option String).getD "badargs"
    | _ => "badargs"
  | "is_universally_administered" => match args with
    | [a0] => (do let x0 ← Wire.decStr a0; pure (Wire.respondWith Wire.encBool (Gen.mac.is_universally_administered x0)) : Option String).getD "badargs"
    | _ => "badargs"
  | "to_eui48" => match args with
    | [a0] => (do let x0 ← Wire.decStr a0; pure (Wire.respondWith Wire.encStr (Gen.mac.to_eui48 x0)) : Option String).getD "badargs"
    | _ => "badargs"
  | _ => "nofunc"
end Driver.D_mac
