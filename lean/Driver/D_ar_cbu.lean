import PyRt
import Gen.ar_cbu
open Py Lean
namespace Driver.D_ar_cbu
def handle (fn : String) (args : List Json) : String :=
  match fn with
  | "calc_check_digit" => match args with
    | [a0] => (do let x0 ← Wire.decStr a0; pure (Wire.respondWith Wire.encStr (Gen.ar_cbu.calc_check_digit x0)) : Option String).getD "badargs"
    | _ => "badargs"
  | "compact" => match args with
    | [a0] => (do let x0 ← Wire.decStr a0; pure (Wire.respondWith Wire.encStr (Gen.ar_cbu.compact x0)) : Option String).getD "badargs"
    | _ => "badargs"
  | "format" => match args with
    | [a0] => (do let x0 ← Wire.decStr a0; pure (Wire.respondWith Wire.encStr (Gen.ar_cbu.format x0)) : Option String).getD "badargs"
    | _ => "badargs"
  | "is_valid" => match args with
    | [a0] => (do let x0 ← Wire.decStr a0; pure (Wire.respondWith Wire.encBool (Gen.ar_cbu.is_valid x0)) : Option String).getD "badargs"
    | _ => "badargs"
  | "validate" => match args with
    | [a0] => (do let x0 ← Wire.decStr a0; pure (Wire.respondWith Wire.encStr (Gen.ar_cbu.validate x0)) : Option String).getD "badargs"
    | _ => "badargs"
  | _ => "nofunc"
end Driver.D_ar_cbu
