import PyRt
import Gen.fr_tva
open Py Lean
namespace Driver.D_fr_tva
def handle (fn : String) (args : List Json) : String :=
  match fn with
  | "compact" => match args with
    | [a0] => (do let x0 ← Wire.decStr a0; pure (Wire.respondWith Wire.encStr (Gen.fr_tva.compact x0)) : Option String).getD "badargs"
    | _ => "badargs"
  | "is_valid" => match args with
    | [a0] => (do let x0 ← Wire.decStr a0; pure (Wire.respondWith Wire.encBool (Gen.fr_tva.is_valid x0)) : Option String).getD "badargs"
    | _ => "badargs"
  | "validate" => match args with
    | [a0] => (do let x0 ← Wire.decStr a0; pure (Wire.respondWith Wire.encStr (Gen.fr_tva.validate x0)) : Option String).getD "badargs"
    | _ => "badargs"
  | _ => "nofunc"
end Driver.D_fr_tva
