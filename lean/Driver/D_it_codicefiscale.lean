import PyRt
import Gen.it_codicefiscale
open Py Lean
namespace Driver.D_it_codicefiscale
def handle (fn : String) (args : List Json) : String :=
  match fn with
  | "calc_check_digit" => match args with
    | [a0] => (do let x0 ← Wire.decStr a0; pure (Wire.respondWith Wire.encStr (Gen.it_codicefiscale.calc_check_digit x0)) : Option String).getD "badargs"
    | _ => "badargs"
  | "compact" => match args with
    | [a0] => (do let x0 ← Wire.decStr a0; pure (Wire.respondWith Wire.encStr (Gen.it_codicefiscale.compact x0)) : Option String).getD "badargs"
    | _ => "badargs"
  | "get_birth_date" => match args with
    | [a0, a1] => (do let x0 ← Wire.decStr a0; let x1 ← Wire.decInt a1; pure (Wire.respondWith Wire.encDate (Gen.it_codicefiscale.get_birth_date x0 x1)) : Option String).getD "badargs"
    | _ => "badargs"
  | "get_gender" => match args with
    | [a0] => (do let x0 ← Wire.decStr a0; pure (Wire.respondWith Wire.encStr (Gen.it_codicefiscale.get_gender x0)) : Option String).getD "badargs"
    | _ => "badargs"
  | "is_valid" => match args with
    | [a0] => (do let x0 ← Wire.decStr a0; pure (Wire.respondWith Wire.encBool (Gen.it_codicefiscale.is_valid x0)) : Option String).getD "badargs"
    | _ => "badargs"
  | "validate" => match args with
    | [a0] => (do let x0 ← Wire.decStr a0; pure (Wire.respondWith Wire.encStr (Gen.it_codicefiscale.validate x0)) : Option String).getD "badargs"
    | _ => "badargs"
  | _ => "nofunc"
end Driver.D_it_codicefiscale
