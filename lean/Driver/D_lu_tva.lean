import PyRt
import Gen.lu_tva
open Py Lean
namespace Driver.D_lu_tva
def handle (fn : String) (args : List Json) : String :=
  match fn with
  | "calc_check_digits" => match args with
    | [a0] => (do let x0 ← Wire.decStr a0; pure (Wire.respondWith Wire.encStr (Gen.lu_tva.calc_check_digits x0)) : Option String).getD "badargs"
    | _ => "badargs"
  | "compact" => match args with
    | [a0] => (do let x0 ← Wire.decStr a0; pure (Wire.respondWith Wire.encStr (Gen.lu_tva.compact x0)) : Option String).getD "badargs"
    | _ => "badargs"
  | "is_valid" => match args with
    | [a0] => (do let x0 ← Wire.decStr a0; pure (Wire.respondWith Wire.encBool (Gen.lu_tva.is_valid x0)) : Option String).getD "badargs"
    | _ => "badargs"
  | "validate" => match args with
    | [a0] => (do let x0 ← Wire.decStr a0; pure (Wire.respondWith Wire.encStr (Gen.lu_tva.validate x0)) : Option String).getD "badargs"
    | _ => "badargs"
  | _ => "nofunc"
end Driver.D_lu_tva
