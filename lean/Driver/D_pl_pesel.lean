import PyRt
import Gen.pl_pesel
open Py Lean
namespace Driver.D_pl_pesel
def handle (fn : String) (args : List Json) : String :=
  match fn with
  | "calc_check_digit" => match args with
    | [a0] => (do let x0 ← Wire.decStr a0; pure (Wire.respondWith Wire.encStr (Gen.pl_pesel.calc_check_digit x0)) : Option String).getD "badargs"
    | _ => "badargs"
  | "compact" => match args with
    | [a0] => (do let x0 ← Wire.decStr a0; pure (Wire.respondWith Wire.encStr (Gen.pl_pesel.compact x0)) : Option String).getD "badargs"
    | _ => "badargs"
  | "get_birth_date" => match args with
    | [a0] => (do let x0 ← Wire.decStr a0; pure (Wire.respondWith Wire.encDate (Gen.pl_pesel.get_birth_date x0)) : Option String).getD "badargs"
    | _ => "badargs"
  | "get_gender" => match args with
    | [a0] => (do let x0 ← Wire.decStr a0; pure (Wire.respondWith Wire.encStr (Gen.pl_pesel.get_gender x0)) : Option String).getD "badargs"
    | _ => "badargs"
  | "is_valid" => match args with
    | [a0] => (do let x0 ← Wire.decStr a0; pure (Wire.respondWith Wire.encBool (Gen.pl_pesel.is_valid x0)) : Option String).getD "badargs"
    | _ => "badargs"
  | "validate" => match args with
    | [a0] => (do let x0 ← Wire.decStr a0; pure (Wire.respondWith Wire.encStr (Gen.pl_pesel.validate x0)) : Option String).getD "badargs"
    | _ => "badargs"
  | _ => "nofunc"
end Driver.D_pl_pesel
