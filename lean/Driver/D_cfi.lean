import PyRt
import Gen.cfi
open Py Lean
namespace Driver.D_cfi
def handle (fn : String) (args : List Json) : String :=
  match fn with
  | "compact" => match args with
    | [a0] => (do let x0 ← Wire.decStr a0; pure (Wire.respondWith Wire.encStr (Gen.cfi.compact x0)) : Option String).getD "badargs"
    | _ => "badargs"
  | "info" => match args with
    | [a0] => (do let x0 ← Wire.decStr a0; pure (Wire.respondWith (Wire.encDict Wire.encStr Wire.encStr) (Gen.cfi.info x0)) : Option String).getD "badargs"
    | _ => "badargs"
  | "is_valid" => match args with
    | [a0] => (do let x0 ← Wire.decStr a0; pure (Wire.respondWith Wire.encBool (Gen.cfi.is_valid x0)) : Option String).getD "badargs"
    | _ => "badargs"
  | "validate" => match args with
    | [a0] => (do let x0 ← Wire.decStr a0; pure (Wire.respondWith Wire.encStr (Gen.cfi.validate x0)) : Option String).getD "badargs"
    | _ => "badargs"
  | _ => "nofunc"
end Driver.D_cfi
