import PyRt
import Gen.it_iva
open Py Lean
namespace Driver.D_it_iva
def handle (fn : String) (args : List Json) : String :=
  match fn with
  | "compact" => match args with
    | [a0] => (do let x0 ← Wire.decStr a0; pure (Wire.respondWith Wire.encStr (Gen.it_iva.compact x0)) : Option String).getD "badargs"
    | _ => "badargs"
  | "is_valid" => match args with
    | [a0] => (do let x0 ← Wire.decStr a0; pure (Wire.respondWith Wire.encBool (Gen.it_iva.is_valid x0)) : Option String).getD "badargs"
    | _ => "badargs"
  | "validate" => match args with
    | [a0] => (do let x0 ← Wire.decStr a0; pure (Wire.respondWith Wire.encStr (Gen.it_iva.validate x0)) : Option String).getD "badargs"
    | _ => "badargs"
  | _ => "nofunc"
end Driver.D_it_iva
