import PyRt
import Gen.au_acn
open Py Lean
namespace Driver.D_au_acn
def handle (fn : String) (args : List Json) : String :=
  match fn with
  | "calc_check_digit" => match args with
    | [a0] => (do let x0 ← Wire.decStr a0; pure (Wire.respondWith Wire.encStr (Gen.au_acn.calc_check_digit x0)) : Option String).getD "badargs"
    | _ => "badargs"
  | "compact" => match args with
    | [a0] => (do let x0 ← Wire.decStr a0; pure (Wire.respondWith Wire.encStr (Gen.au_acn.compact x0)) : Option String).getD "badargs"
    | _ => "badargs"
  | "format" => match args with
    | [a0] => (do let x0 ← Wire.decStr a0; pure (Wire.respondWith Wire.encStr (Gen.au_acn.format x0)) : Option String).getD "badargs"
    | _ => "badargs"
  | "is_valid" => match args with
    | [a0] => (do let x0 ← Wire.decStr a0; pure (Wire.respondWith Wire.encBool (Gen.au_acn.is_valid x0)) : Option String).getD "badargs"
    | _ => "badargs"
  | "to_abn" => match args with
    | [a0] => (do let x0 ← Wire.decStr a0; pure (Wire.respondWith Wire.encStr (Gen.au_acn.to_abn x0)) : Option String).getD "badargs"
    | _ => "badargs"
  | "validate" => match args with
    | [a0] => (do let x0 ← Wire.decStr a0; pure (Wire.respondWith Wire.encStr (Gen.au_acn.validate x0)) : Option String).getD "badargs"
    | _ => "badargs"
  | _ => "nofunc"
end Driver.D_au_acn
