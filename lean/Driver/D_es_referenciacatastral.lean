import PyRt
import Gen.es_referenciacatastral
open Py Lean
namespace Driver.D_es_referenciacatastral
def handle (fn : String) (args : List Json) : String :=
  match fn with
  | "compact" => match args with
    | [a0] => (do let x0 ← Wire.decStr a0; pure (Wire.respondWith Wire.encStr (Gen.es_referenciacatastral.compact x0)) : Option String).getD "badargs"
    | _ => "badargs"
  | "format" => match args with
    | [a0] => (do let x0 ← Wire.decStr a0; pure (Wire.respondWith Wire.encStr (Gen.es_referenciacatastral.format x0)) : Option String).getD "badargs"
    | _ => "badargs"
  | _ => "nofunc"
end Driver.D_es_referenciacatastral
