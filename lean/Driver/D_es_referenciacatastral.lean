import PyRt
import Gen.es_referenciacatastral
open Py Lean
namespace Driver.D_es_referenciacatastral
def handle (fn : String) (args : List Json) : String :=
  match fn with
  | "_check_digit" => match args with
    | [a0] => (do let x0 ← Wire.decStr a0; pure (Wire.respondWith Wire.encStr (Gen.es_referenciacatastral._check_digit x0)) : Option String).getD "badargs"
    | _ => "badargs"
  | "calc_check_digits" => match args with
    | [a0] => (do let x0 ← Wire.decStr a0; pure (Wire.respondWith Wire.encStr (Gen.es_referenciacatastral.calc_check_digits x0)) : Option String).getD "badargs"
    | _ => "badargs"
  | "compact" => match args with
    | [a0] => (do let x0 ← Wire.decStr a0; pure (Wire.respondWith Wire.encStr (Gen.es_referenciacatastral.compact x0)) : Option String).getD "badargs"
    | _ => "badargs"
  | "format" => match args with
    | [a0] => (do let x0 ← Wire.decStr a0; pure (Wire.respondWith Wire.encStr (Gen.es_referenciacatastral.format x0)) : Option String).getD "badargs"
    | _ => "badargs"
  | "is_valid" => match args with
    | [a0] => (do let x0 ← Wire.decStr a0; pure (Wire.respondWith Wire.encBool (Gen.es_referenciacatastral.is_valid x0)) : Option String).getD "badargs"
    | _ => "badargs"
  | "validate" => match args with
    | [a0] => (do let x0 ← Wire.decStr a0; pure (Wire.respondWith Wire.encStr (Gen.es_referenciacatastral.validate x0)) : Option String).getD "badargs"
    | _ => "badargs"
  | _ => "nofunc"
end Driver.D_es_referenciacatastral
