import PyRt
import Gen.eu_nace
open Py Lean
namespace Driver.D_eu_nace
def handle (fn : String) (args : List Json) : String :=
  match fn with
  | "compact" => match args with
    | [a0] => (do let x0 ← Wire.decStr a0; pure (Wire.respondWith Wire.encStr (Gen.eu_nace.compact x0)) : Option String).getD "badargs"
    | _ => "badargs"
  | "format" => match args with
    | [a0] => (do let x0 ← Wire.decStr a0; pure (Wire.respondWith Wire.encStr (Gen.eu_nace.format x0)) : Option String).getD "badargs"
    | _ => "badargs"
  | _ => "nofunc"
end Driver.D_eu_nace
