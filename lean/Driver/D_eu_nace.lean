import PyRt
import Gen.eu_nace
open Py Lean
namespace Driver.D_eu_nace
def handle (fn : String) (args : List Json) : String :=
  match fn with
  | "compact" => match args with
    | [a0] => (do let x0 ← Wire.decStr a0; pure (Wire.respondWith Wire.encStr (Gen.eu_nace.compact x0)) : Option String).getD "badargs"
    | _ => "badargs"
  | "format" => match args with
    | [a0] => (do let x0 ← Wire.decStr a0; pure (Wire.respondWith Wire.encStr (Gen.eu_nace.format x0)) : Option String).getD "badargs"
    | _ => "badargs"
  | "get_label" => match args with
    | [a0] => (do let x0 ← Wire.decStr a0; pure (Wire.respondWith Wire.encStr (Gen.eu_nace.get_label x0)) : Option String).getD "badargs"
    | _ => "badargs"
  | "info" => match args with
    | [a0] => (do let x0 ← Wire.decStr a0; pure (Wire.respondWith (Wire.encDict Wire.encStr Wire.encStr) (Gen.eu_nace.info x0)) : Option String).getD "badargs"
    | _ => "badargs"
  | "is_valid" => match args with
    | [a0] => (do let x0 ← Wire.decStr a0; pure (Wire.respondWith Wire.encBool (Gen.eu_nace.is_valid x0)) : Option String).getD "badargs"
    | _ => "badargs"
  | "label" => match args with
    | [a0] => (do let x0 ← Wire.decStr a0; pure (Wire.respondWith Wire.encStr (Gen.eu_nace.label x0)) : Option String).getD "badargs"
    | _ => "badargs"
  | "validate" => match args with
    | [a0] => (do let x0 ← Wire.decStr a0; pure (Wire.respondWith Wire.encStr (Gen.eu_nace.validate x0)) : Option String).getD "badargs"
    | _ => "badargs"
  | _ => "nofunc"
end Driver.D_eu_nace
