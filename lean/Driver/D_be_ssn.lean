import PyRt
import Gen.be_ssn
open Py Lean
namespace Driver.D_be_ssn
def handle (fn : String) (args : List Json) : String :=
  match fn with
  | "compact" => match args with
    | [a0] => (do let x0 ← Wire.decStr a0; pure (Wire.respondWith Wire.encStr (Gen.be_ssn.compact x0)) : Option String).getD "badargs"
    | _ => "badargs"
  | "format" => match args with
    | [a0] => (do let x0 ← Wire.decStr a0; pure (Wire.respondWith Wire.encStr (Gen.be_ssn.format x0)) : Option String).getD "badargs"
    | _ => "badargs"
  | "get_birth_date" => match args with
    | [t, a0] => (do let today__ ← Wire.decDate t; let x0 ← Wire.decStr a0; pure (Wire.respondWith (Wire.encOpt Wire.encDate) (Gen.be_ssn.get_birth_date today__ x0)) : Option String).getD "badargs"
    | _ => "badargs"
  | "get_birth_month" => match args with
    | [t, a0] => (do let today__ ← Wire.decDate t; let x0 ← Wire.decStr a0; pure (Wire.respondWith (Wire.encOpt Wire.encInt) (Gen.be_ssn.get_birth_month today__ x0)) : Option String).getD "badargs"
    | _ => "badargs"
  | "get_birth_year" => match args with
    | [t, a0] => (do let today__ ← Wire.decDate t; let x0 ← Wire.decStr a0; pure (Wire.respondWith (Wire.encOpt Wire.encInt) (Gen.be_ssn.get_birth_year today__ x0)) : Option String).getD "badargs"
    | _ => "badargs"
  | "get_gender" => match args with
    | [t, a0] => (do let today__ ← Wire.decDate t; let x0 ← Wire.decStr a0; pure (Wire.respondWith (Wire.encOpt Wire.encStr) (Gen.be_ssn.get_gender today__ x0)) : Option String).getD "badargs"
    | _ => "badargs"
  | "guess_type" => match args with
    | [t, a0] => (do let today__ ← Wire.decDate t; let x0 ← Wire.decStr a0; pure (Wire.respondWith (Wire.encOpt Wire.encStr) (Gen.be_ssn.guess_type today__ x0)) : Option String).getD "badargs"
    | _ => "badargs"
  | "is_valid" => match args with
    | [t, a0] => (do let today__ ← Wire.decDate t; let x0 ← Wire.decStr a0; pure (Wire.respondWith Wire.encBool (Gen.be_ssn.is_valid today__ x0)) : Option String).getD "badargs"
    | _ => "badargs"
  | "validate" => match args with
    | [t, a0] => (do let today__ ← Wire.decDate t; let x0 ← Wire.decStr a0; pure (Wire.respondWith Wire.encStr (Gen.be_ssn.validate today__ x0)) : Option String).getD "badargs"
    | _ => "badargs"
  | _ => "nofunc"
end Driver.D_be_ssn
