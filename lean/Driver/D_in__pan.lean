import PyRt
import Gen.in__pan
open Py Lean
namespace Driver.D_in__pan
def handle (fn : String) (args : List Json) : String :=
  match fn with
  | "compact" => match args with
    | [a0] => (do let x0 ← Wire.decStr a0; pure (Wire.respondWith Wire.encStr (Gen.in__pan.compact x0)) : Option String).getD "badargs"
    | _ => "badargs"
  | "info" => match args with
    | [a0] => (do let x0 ← Wire.decStr a0; pure (Wire.respondWith (Wire.encDict Wire.encStr (Wire.encOpt Wire.encStr)) (Gen.in__pan.info x0)) : Option String).getD "badargs"
    | _ => "badargs"
  | "is_valid" => match args with
    | [a0] => (do let x0 ← Wire.decStr a0; pure (Wire.respondWith Wire.encBool (Gen.in__pan.is_valid x0)) : Option String).getD "badargs"
    | _ => "badargs"
  | "mask" => match args with
    | [a0] => (do let x0 ← Wire.decStr a0; pure (Wire.respondWith Wire.encStr (Gen.in__pan.mask x0)) : Option String).getD "badargs"
    | _ => "badargs"
  | "validate" => match args with
    | [a0] => (do let x0 ← Wire.decStr a0; pure (Wire.respondWith Wire.encStr (Gen.in__pan.validate x0)) : Option String).getD "badargs"
    | _ => "badargs"
  | _ => "nofunc"
end Driver.D_in__pan
