import PyRt
import Gen.de_idnr
open Py Lean
namespace Driver.D_de_idnr
def handle (fn : String) (args : List Json) : String :=
  match fn with
  | "compact" => match args with
    | [a0] => (do let x0 ← Wire.decStr a0; pure (Wire.respondWith Wire.encStr (Gen.de_idnr.compact x0)) : Option String).getD "badargs"
    | _ => "badargs"
  | "format" => match args with
    | [a0] => (do let x0 ← Wire.decStr a0; pure (Wire.respondWith Wire.encStr (Gen.de_idnr.format x0)) : Option String).getD "badargs"
    | _ => "badargs"
  | "is_valid" => match args with
    | [a0] => (do let x0 ← Wire.decStr a0; pure (Wire.respondWith Wire.encBool (Gen.de_idnr.is_valid x0)) : Option String).getD "badargs"
    | _ => "badargs"
  | "validate" => match args with
    | [a0] => (do let x0 ← Wire.decStr a0; pure (Wire.respondWith Wire.encStr (Gen.de_idnr.validate x0)) : Option String).getD "badargs"
    | _ => "badargs"
  | _ => "nofunc"
end Driver.D_de_idnr
