import PyRt
import Gen.es_cups
open Py Lean
namespace Driver.D_es_cups
def handle (fn : String) (args : List Json) : String :=
  match fn with
  | "calc_check_digits" => match args with
    | [a0] => (do let x0 ← Wire.decStr a0; pure (Wire.respondWith Wire.encStr (Gen.es_cups.calc_check_digits x0)) : Option String).getD "badargs"
    | _ => "badargs"
  | "compact" => match args with
    | [a0] => (do let x0 ← Wire.decStr a0; pure (Wire.respondWith Wire.encStr (Gen.es_cups.compact x0)) : Option String).getD "badargs"
    | _ => "badargs"
  | "format" => match args with
    | [a0] => (do let x0 ← Wire.decStr a0; pure (Wire.respondWith Wire.encStr (Gen.es_cups.format x0)) : Option String).getD "badargs"
    | _ => "badargs"
  | "is_valid" => match args with
    | [a0] => (do let x0 ← Wire.decStr a0; pure (Wire.respondWith Wire.encBool (Gen.es_cups.is_valid x0)) : Option String).getD "badargs"
    | _ => "badargs"
  | "validate" => match args with
    | [a0] => (do let x0 ← Wire.decStr a0; pure (Wire.respondWith Wire.encStr (Gen.es_cups.validate x0)) : Option String).getD "badargs"
    | _ => "badargs"
  | _ => "nofunc"
end Driver.D_es_cups
