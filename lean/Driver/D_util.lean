import PyRt
import Gen.util
open Py Lean
namespace Driver.D_util
def handle (fn : String) (args : List Json) : String :=
  match fn with
  | "_clean_chars" => match args with
    | [a0] => (do let x0 ← Wire.decStr a0; pure (Wire.respondWith Wire.encStr (Gen.util._clean_chars x0)) : Option String).getD "badargs"
    | _ => "badargs"
  | "clean" => match args with
    | [a0, a1] => (do let x0 ← Wire.decStr a0; let x1 ← Wire.decStr a1; pure (Wire.respondWith Wire.encStr (Gen.util.clean x0 x1)) : Option String).getD "badargs"
    | _ => "badargs"
  | "isdigits" => match args with
    | [a0] => (do let x0 ← Wire.decStr a0; pure (Wire.respondWith Wire.encBool (Gen.util.isdigits x0)) : Option String).getD "badargs"
    | _ => "badargs"
  | _ => "nofunc"
end Driver.D_util
