import PyRt
import Gen.iso7064_mod_11_2
open Py Lean
namespace Driver.D_iso7064_mod_11_2
def handle (fn : String) (args : List Json) : String :=
  match fn with
  | "calc_check_digit" => match args with
    | [a0] => (do let x0 ← Wire.decStr a0; pure (Wire.respondWith Wire.encStr (Gen.iso7064_mod_11_2.calc_check_digit x0)) : Option String).getD "badargs"
    | _ => "badargs"
  | "checksum" => match args with
    | [a0] => (do let x0 ← Wire.decStr a0; pure (Wire.respondWith Wire.encInt (Gen.iso7064_mod_11_2.checksum x0)) : Option String).getD "badargs"
    | _ => "badargs"
  | "is_valid" => match args with
    | [a0] => (do let x0 ← Wire.decStr a0; pure (Wire.respondWith Wire.encBool (Gen.iso7064_mod_11_2.is_valid x0)) : Option String).getD "badargs"
    | _ => "badargs"
  | "validate" => match args with
    | [a0] => (do let x0 ← Wire.decStr a0; pure (Wire.respondWith Wire.encStr (Gen.iso7064_mod_11_2.validate x0)) : Option String).getD "badargs"
    | _ => "badargs"
  | _ => "nofunc"
end Driver.D_iso7064_mod_11_2
