import PyRt
import Gen.us_ein
open Py Lean
namespace Driver.D_us_ein
def handle (fn : String) (args : List Json) : String :=
  match fn with
  | "compact" => match args with
    | [a0] => (do let x0 ← Wire.decStr a0; pure (Wire.respondWith Wire.encStr (Gen.us_ein.compact x0)) : Option String).getD "badargs"
    | _ => "badargs"
  | "format" => match args with
    | [a0] => (do let x0 ← Wire.decStr a0; pure (Wire.respondWith Wire.encStr (Gen.us_ein.format x0)) : Option String).getD "badargs"
    | _ => "badargs"
  | "get_campus" => match args with
    | [a0] => (do let x0 ← Wire.decStr a0; pure (Wire.respondWith Wire.encStr (Gen.us_ein.get_campus x0)) : Option String).getD "badargs"
    | _ => "badargs"
  | "is_valid" => match args with
    | [a0] => (do let x0 ← Wire.decStr a0; pure (Wire.respondWith Wire.encBool (Gen.us_ein.is_valid x0)) : Option String).getD "badargs"
    | _ => "badargs"
  | "validate" => match args with
    | [a0] => (do let x0 ← Wire.decStr a0; pure (Wire.respondWith Wire.encStr (Gen.us_ein.validate x0)) : Option String).getD "badargs"
    | _ => "badargs"
  | _ => "nofunc"
end Driver.D_us_ein
