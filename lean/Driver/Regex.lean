import Lean.Data.Json
import PyRt.Basic
import PyRt.Wire
import PyRt.Regex
import PyRt.RegexUniData
/-!
# Driver.Regex — differential-test entry points for `PyRt.Regex`

Targets (`Driver.Regex.handle target args`), the pattern always arrives as the JSON produced by
`tools/py2lean/regex_ser.py:regex_to_json` (the pattern is parsed by CPython, never on the Lean side):

* `re.match` / `re.search` / `re.fullmatch`  `[pattern, subject]`
  → `null` or `{"t":[start, end, [group…]]}` (group = `{"s":[…]}` or `null`)
* `re.finditer`  `[pattern, subject]` → list of such tuples
* `re.findall`   `[pattern, subject]` → list of lists of strings (one list per match, see `Py.Re.findall`)
* `re.sub`       `[pattern, template, subject, count]` → string, `err NonValidation` for a bad template
* `re.split`     `[pattern, subject, maxsplit]` → list of string/`null`

Uses the generated tables `UniTables.py312`.
-/
open Lean (Json)
open Py Py.Wire

namespace Driver.Regex
open Py.Re

def boolOf (j : Json) : Option Bool :=
  match j with
  | .bool b => some b
  | _ => none

def flagsOf (j : Json) : Option Flags := do
  let g := fun (k : String) => match j.getObjVal? k with
    | .ok v => boolOf v
    | _ => none
  pure { ignorecase := ← g "ignorecase", multiline := ← g "multiline",
         dotall := ← g "dotall", ascii := ← g "ascii" }

def catOf (s : String) : Option Cat :=
  match s with
  | "digit" => some .digit | "notDigit" => some .notDigit
  | "space" => some .space | "notSpace" => some .notSpace
  | "word" => some .word | "notWord" => some .notWord
  | _ => none

def anchorOf (s : String) : Option Anchor :=
  match s with
  | "bol" => some .bol | "eol" => some .eol | "bos" => some .bos | "eos" => some .eos
  | "wordB" => some .wordB | "notWordB" => some .notWordB
  | _ => none

def itemOf (j : Json) : Option ClassItem :=
  match j with
  | .arr #[.str "chr", c] => do pure (.chr (← natOfJson c))
  | .arr #[.str "range", a, b] => do pure (.range (← natOfJson a) (← natOfJson b))
  | .arr #[.str "cat", .str k] => do pure (.cat (← catOf k))
  | _ => none

/-- decoder for the tree produced by `regex_ser._json` (fuel = nesting depth bound) -/
def regexOf : Nat → Json → Option Regex
  | 0, _ => none
  | fuel + 1, j =>
    match j with
    | .arr #[.str "empty"] => some .empty
    | .arr #[.str "fail"] => some .fail
    | .arr #[.str "any"] => some .any
    | .arr #[.str "lit", c] => do pure (.lit (← natOfJson c))
    | .arr #[.str "notLit", c] => do pure (.notLit (← natOfJson c))
    | .arr #[.str "backref", c] => do pure (.backref (← natOfJson c))
    | .arr #[.str "anchor", .str k] => do pure (.anchor (← anchorOf k))
    | .arr #[.str "cls", neg, .arr items] => do
      pure (.cls (← boolOf neg) (← items.toList.mapM itemOf))
    | .arr #[.str "seq", a, b] => do pure (.seq (← regexOf fuel a) (← regexOf fuel b))
    | .arr #[.str "alt", a, b] => do pure (.alt (← regexOf fuel a) (← regexOf fuel b))
    | .arr #[.str "rep", g, mn, mx, r] => do
      let mx' ← (match mx with
        | .null => some none
        | v => (natOfJson v).map some)
      pure (.rep (← boolOf g) (← natOfJson mn) mx' (← regexOf fuel r))
    | .arr #[.str "group", i, r] => do pure (.group (← natOfJson i) (← regexOf fuel r))
    | .arr #[.str "withFlags", f, r] => do pure (.withFlags (← flagsOf f) (← regexOf fuel r))
    | .arr #[.str "look", neg, r] => do pure (.look (← boolOf neg) (← regexOf fuel r))
    | _ => none

def nameOf (j : Json) : Option (Str × Nat) :=
  match j with
  | .arr #[.arr cs, i] => do pure (← cs.toList.mapM natOfJson, ← natOfJson i)
  | _ => none

def patternOf (j : Json) : Option Pattern := do
  let re ← (match j.getObjVal? "re" with | .ok v => regexOf 100000 v | _ => none)
  let flags ← (match j.getObjVal? "flags" with | .ok v => flagsOf v | _ => none)
  let ngroups ← (match j.getObjVal? "ngroups" with | .ok v => natOfJson v | _ => none)
  let names ← (match j.getObjVal? "names" with
    | .ok (.arr a) => a.toList.mapM nameOf
    | _ => none)
  pure { re, flags, ngroups, names }

def optStrJson (o : Option Str) : Json :=
  match o with
  | some s => strToWire s
  | none => Json.null

def matchJson (m : Match) : Json :=
  Json.mkObj [("t", Json.arr #[toWire m.start, toWire m.stop, Json.arr (m.groups.map optStrJson).toArray])]

def optMatchJson (o : Option Match) : Json :=
  match o with
  | some m => matchJson m
  | none => Json.null

def handle (target : String) (args : List Json) : String :=
  let bad := "badargs"
  match target, args with
  | "re.match", [p, s] =>
    match patternOf p, strOfJson s with
    | some p, some s => "ok " ++ (optMatchJson (match_ p s)).compress
    | _, _ => bad
  | "re.search", [p, s] =>
    match patternOf p, strOfJson s with
    | some p, some s => "ok " ++ (optMatchJson (search p s)).compress
    | _, _ => bad
  | "re.fullmatch", [p, s] =>
    match patternOf p, strOfJson s with
    | some p, some s => "ok " ++ (optMatchJson (fullmatch p s)).compress
    | _, _ => bad
  | "re.finditer", [p, s] =>
    match patternOf p, strOfJson s with
    | some p, some s => "ok " ++ (Json.arr ((finditer p s).map matchJson).toArray).compress
    | _, _ => bad
  | "re.findall", [p, s] =>
    match patternOf p, strOfJson s with
    | some p, some s =>
      "ok " ++ (Json.arr ((findall p s).map (fun l => Json.arr (l.map strToWire).toArray)).toArray).compress
    | _, _ => bad
  | "re.sub", [p, repl, s, count] =>
    match patternOf p, strOfJson repl, strOfJson s, natOfJson count with
    | some p, some repl, some s, some count => respond (sub p repl s count)
    | _, _, _, _ => bad
  | "re.split", [p, s, maxsplit] =>
    match patternOf p, strOfJson s, natOfJson maxsplit with
    | some p, some s, some k => "ok " ++ (Json.arr ((split p s k).map optStrJson).toArray).compress
    | _, _, _ => bad
  | _, _ => "nofunc"

end Driver.Regex
