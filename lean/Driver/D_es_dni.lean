import PyRt
import Gen.es_dni
open Py Lean
namespace Driver.D_es_dni
def handle (fn : String) (args : List Json) : String :=
  match fn with
  | "calc_check_digit" => match args with
    | [a0] => (do let x0 ← Wire.decStr a0; pure (Wire.respondWith Wire.encStr (Gen.es_dni.calc_check_digit x0)) : Option String).getD "badargs"
    | _ => "badargs"
  | "compact" => match args with
    | [a0] => (do let x0 ← Wire.decStr a0; pure (Wire.respondWith Wire.encStr (Gen.es_dni.compact x0)) : Option String).getD "badargs"
    | _ => "badargs"
  | "is_valid" => match args with
    | [a0] => (do let x0 ← Wire.decStr a0; pure (Wire.respondWith Wire.encBool (Gen.es_dni.is_valid x0)) : Option String).getD "badargs"
    | _ => "badargs"
  | "validate" => match args with
    | [a0] => (do let x0 ← Wire.decStr a0; pure (Wire.respondWith Wire.encStr (Gen.es_dni.validate x0)) : Option String).getD "badargs"
    | _ => "badargs"
  | _ => "nofunc"
end Driver.D_es_dni
