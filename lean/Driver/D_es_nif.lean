import PyRt
import Gen.es_nif
open Py Lean
namespace Driver.D_es_nif
def handle (fn : String) (args : List Json) : String :=
  match fn with
  | "compact" => match args with
    | [a0] => (do let x0 ← Wire.decStr a0; pure (Wire.respondWith Wire.encStr (Gen.es_nif.compact x0)) : Option String).getD "badargs"
    | _ => "badargs"
  | "is_valid" => match args with
    | [a0] => (do let x0 ← Wire.decStr a0; pure (Wire.respondWith Wire.encBool (Gen.es_nif.is_valid x0)) : Option String).getD "badargs"
    | _ => "badargs"
  | "validate" => match args with
    | [a0] => (do let x0 ← Wire.decStr a0; pure (Wire.respondWith Wire.encStr (Gen.es_nif.validate x0)) : Option String).getD "badargs"
    | _ => "badargs"
  | _ => "nofunc"
end Driver.D_es_nif
