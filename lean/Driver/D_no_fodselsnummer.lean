import PyRt
import Gen.no_fodselsnummer
open Py Lean
namespace Driver.D_no_fodselsnummer
def handle (fn : String) (args : List Json) : String :=
  match fn with
  | "calc_check_digit1" => match args with
    | [a0] => (do let x0 ← Wire.decStr a0; pure (Wire.respondWith Wire.encStr (Gen.no_fodselsnummer.calc_check_digit1 x0)) : Option String).getD "badargs"
    | _ => "badargs"
  | "calc_check_digit2" => match args with
    | [a0] => (do let x0 ← Wire.decStr a0; pure (Wire.respondWith Wire.encStr (Gen.no_fodselsnummer.calc_check_digit2 x0)) : Option String).getD "badargs"
    | _ => "badargs"
  | "compact" => match args with
    | [a0] => (do let x0 ← Wire.decStr a0; pure (Wire.respondWith Wire.encStr (Gen.no_fodselsnummer.compact x0)) : Option String).getD "badargs"
    | _ => "badargs"
  | "format" => match args with
    | [a0] => (do let x0 ← Wire.decStr a0; pure (Wire.respondWith Wire.encStr (Gen.no_fodselsnummer.format x0)) : Option String).getD "badargs"
    | _ => "badargs"
  | "get_birth_date" => match args with
    | [a0] => (do let x0 ← Wire.decStr a0; pure (Wire.respondWith Wire.encDate (Gen.no_fodselsnummer.get_birth_date x0)) : Option String).getD "badargs"
    | _ => "badargs"
  | "get_gender" => match args with
    | [a0] => (do let x0 ← Wire.decStr a0; pure (Wire.respondWith Wire.encStr (Gen.no_fodselsnummer.get_gender x0)) : Option String).getD "badargs"
    | _ => "badargs"
  | "is_valid" => match args with
    | [t, a0] => (do let today__ ← Wire.decDate t; let x0 ← Wire.decStr a0; pure (Wire.respondWith Wire.encBool (Gen.no_fodselsnummer.is_valid today__ x0)) : Option String).getD "badargs"
    | _ => "badargs"
  | "validate" => match args with
    | [t, a0] => (do let today__ ← Wire.decDate t; let x0 ← Wire.decStr a0; pure (Wire.respondWith Wire.encStr (Gen.no_fodselsnummer.validate today__ x0)) : Option String).getD "badargs"
    | _ => "badargs"
  | _ => "nofunc"
end Driver.D_no_fodselsnummer
