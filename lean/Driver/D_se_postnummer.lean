import PyRt
import Gen.se_postnummer
open Py Lean
namespace Driver.D_se_postnummer
def handle (fn : String) (args : List Json) : String :=
  match fn with
  | "compact" => match args with
    | [a0] => (do let x0 ← Wire.decStr a0; pure (Wire.respondWith Wire.encStr (Gen.se_postnummer.compact x0)) : Option String).getD "badargs"
    | _ => "badargs"
  | "format" => match args with
    | [a0] => (do let x0 ← Wire.decStr a0; pure (Wire.respondWith Wire.encStr (Gen.se_postnummer.format x0)) : Option String).getD "badargs"
    | _ => "badargs"
  | "is_valid" => match args with
    | [a0] => (do let x0 ← Wire.decStr a0; pure (Wire.respondWith Wire.encBool (Gen.se_postnummer.is_valid x0)) : Option String).getD "badargs"
    | _ => "badargs"
  | "validate" => match args with
    | [a0] => (do let x0 ← Wire.decStr a0; pure (Wire.respondWith Wire.encStr (Gen.se_postnummer.validate x0)) : Option String).getD "badargs"
    | _ => "badargs"
  | _ => "nofunc"
end Driver.D_se_postnummer
