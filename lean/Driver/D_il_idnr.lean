import PyRt
import Gen.il_idnr
open Py Lean
namespace Driver.D_il_idnr
def handle (fn : String) (args : List Json) : String :=
  match fn with
  | "compact" => match args with
    | [a0] => (do let x0 ← Wire.decStr a0; pure (Wire.respondWith Wire.encStr (Gen.il_idnr.compact x0)) : Option String).getD "badargs"
    | _ => "badargs"
  | "format" => match args with
    | [a0] => (do let x0 ← Wire.decStr a0; pure (Wire.respondWith Wire.encStr (Gen.il_idnr.format x0)) : Option String).getD "badargs"
    | _ => "badargs"
  | "is_valid" => match args with
    | [a0] => (do let x0 ← Wire.decStr a0; pure (Wire.respondWith Wire.encBool (Gen.il_idnr.is_valid x0)) : Option String).getD "badargs"
    | _ => "badargs"
  | "validate" => match args with
    | [a0] => (do let x0 ← Wire.decStr a0; pure (Wire.respondWith Wire.encStr (Gen.il_idnr.validate x0)) : Option String).getD "badargs"
    | _ => "badargs"
  | _ => "nofunc"
end Driver.D_il_idnr
