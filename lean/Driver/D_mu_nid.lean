import PyRt
import Gen.mu_nid
open Py Lean
namespace Driver.D_mu_nid
def handle (fn : String) (args : List Json) : String :=
  match fn with
  | "_get_date" => match args with
    | [a0] => (do let x0 ← Wire.decStr a0; pure (Wire.respondWith Wire.encDate (Gen.mu_nid._get_date x0)) : Option String).getD "badargs"
    | _ => "badargs"
  | "calc_check_digit" => match args with
    | [a0] => (do let x0 ← Wire.decStr a0; pure (Wire.respondWith Wire.encStr (Gen.mu_nid.calc_check_digit x0)) : Option String).getD "badargs"
    | _ => "badargs"
  | "compact" => match args with
    | [a0] => (do let x0 ← Wire.decStr a0; pure (Wire.respondWith Wire.encStr (Gen.mu_nid.compact x0)) : Option String).getD "badargs"
    | _ => "badargs"
  | "is_valid" => match args with
    | [a0] => (do let x0 ← Wire.decStr a0; pure (Wire.respondWith Wire.encBool (Gen.mu_nid.is_valid x0)) : Option String).getD "badargs"
    | _ => "badargs"
  | "validate" => match args with
    | [a0] => (do let x0 ← Wire.decStr a0; pure (Wire.respondWith Wire.encStr (Gen.mu_nid.validate x0)) : Option String).getD "badargs"
    | _ => "badargs"
  | _ => "nofunc"
end Driver.D_mu_nid
