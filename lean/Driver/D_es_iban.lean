import PyRt
import Gen.es_iban
open Py Lean
namespace Driver.D_es_iban
def handle (fn : String) (args : List Json) : String :=
  match fn with
  | "is_valid" => match args with
    | [a0] => (do let x0 ← Wire.decStr a0; pure (Wire.respondWith Wire.encBool (Gen.es_iban.is_valid x0)) : Option String).getD "badargs"
    | _ => "badargs"
  | "to_ccc" => match args with
    | [a0] => (do let x0 ← Wire.decStr a0; pure (Wire.respondWith Wire.encStr (Gen.es_iban.to_ccc x0)) : Option String).getD "badargs"
    | _ => "badargs"
  | "validate" => match args with
    | [a0] => (do let x0 ← Wire.decStr a0; pure (Wire.respondWith Wire.encStr (Gen.es_iban.validate x0)) : Option String).getD "badargs"
    | _ => "badargs"
  | _ => "nofunc"
end Driver.D_es_iban
