import PyRt
import Gen.imo
open Py Lean
namespace Driver.D_imo
def handle (fn : String) (args : List Json) : String :=
  match fn with
  | "calc_check_digit" => match args with
    | [a0] => (do let x0 ← Wire.decStr a0; pure (Wire.respondWith Wire.encStr (Gen.imo.calc_check_digit x0)) : Option String).getD "badargs"
    | _ => "badargs"
  | "compact" => match args with
    | [a0] => (do let x0 ← Wire.decStr a0; pure (Wire.respondWith Wire.encStr (Gen.imo.compact x0)) : Option String).getD "badargs"
    | _ => "badargs"
  | "format" => match args with
    | [a0] => (do let x0 ← Wire.decStr a0; pure (Wire.respondWith Wire.encStr (Gen.imo.format x0)) : Option String).getD "badargs"
    | _ => "badargs"
  | "is_valid" => match args with
    | [a0] => (do let x0 ← Wire.decStr a0; pure (Wire.respondWith Wire.encBool (Gen.imo.is_valid x0)) : Option String).getD "badargs"
    | _ => "badargs"
  | "validate" => match args with
    | [a0] => (do let x0 ← Wire.decStr a0; pure (Wire.respondWith Wire.encStr (Gen.imo.validate x0)) : Option String).getD "badargs"
    | _ => "badargs"
  | _ => "nofunc"
end Driver.D_imo
