import PyRt
import Gen.at_businessid
open Py Lean
namespace Driver.D_at_businessid
def handle (fn : String) (args : List Json) : String :=
  match fn with
  | "compact" => match args with
    | [a0] => (do let x0 ← Wire.decStr a0; pure (Wire.respondWith Wire.encStr (Gen.at_businessid.compact x0)) : Option String).getD "badargs"
    | _ => "badargs"
  | "is_valid" => match args with
    | [a0] => (do let x0 ← Wire.decStr a0; pure (Wire.respondWith Wire.encBool (Gen.at_businessid.is_valid x0)) : Option String).getD "badargs"
    | _ => "badargs"
  | "validate" => match args with
    | [a0] => (do let x0 ← Wire.decStr a0; pure (Wire.respondWith Wire.encStr (Gen.at_businessid.validate x0)) : Option String).getD "badargs"
    | _ => "badargs"
  | _ => "nofunc"
end Driver.D_at_businessid
