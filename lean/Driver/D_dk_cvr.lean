import PyRt
import Gen.dk_cvr
open Py Lean
namespace Driver.D_dk_cvr
def handle (fn : String) (args : List Json) : String :=
  match fn with
  | "checksum" => match args with
    | [a0] => (do let x0 ← Wire.decStr a0; pure (Wire.respondWith Wire.encInt (Gen.dk_cvr.checksum x0)) : Option String).getD "badargs"
    | _ => "badargs"
  | "compact" => match args with
    | [a0] => (do let x0 ← Wire.decStr a0; pure (Wire.respondWith Wire.encStr (Gen.dk_cvr.compact x0)) : Option String).getD "badargs"
    | _ => "badargs"
  | "is_valid" => match args with
    | [a0] => (do let x0 ← Wire.decStr a0; pure (Wire.respondWith Wire.encBool (Gen.dk_cvr.is_valid x0)) : Option String).getD "badargs"
    | _ => "badargs"
  | "validate" => match args with
    | [a0] => (do let x0 ← Wire.decStr a0; pure (Wire.respondWith Wire.encStr (Gen.dk_cvr.validate x0)) : Option String).getD "badargs"
    | _ => "badargs"
  | _ => "nofunc"
end Driver.D_dk_cvr
