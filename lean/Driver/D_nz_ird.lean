import PyRt
import Gen.nz_ird
open Py Lean
namespace Driver.D_nz_ird
def handle (fn : String) (args : List Json) : String :=
  match fn with
  | "calc_check_digit" => match args with
    | [a0] => (do let x0 ← Wire.decStr a0; pure (Wire.respondWith Wire.encStr (Gen.nz_ird.calc_check_digit x0)) : Option String).getD "badargs"
    | _ => "badargs"
  | "compact" => match args with
    | [a0] => (do let x0 ← Wire.decStr a0; pure (Wire.respondWith Wire.encStr (Gen.nz_ird.compact x0)) : Option String).getD "badargs"
    | _ => "badargs"
  | "format" => match args with
    | [a0] => (do let x0 ← Wire.decStr a0; pure (Wire.respondWith Wire.encStr (Gen.nz_ird.format x0)) : Option String).getD "badargs"
    | _ => "badargs"
  | "is_valid" => match args with
    | [a0] => (do let x0 ← Wire.decStr a0; pure (Wire.respondWith Wire.encBool (Gen.nz_ird.is_valid x0)) : Option String).getD "badargs"
    | _ => "badargs"
  | "validate" => match args with
    | [a0] => (do let x0 ← Wire.decStr a0; pure (Wire.respondWith Wire.encStr (Gen.nz_ird.validate x0)) : Option String).getD "badargs"
    | _ => "badargs"
  | _ => "nofunc"
end Driver.D_nz_ird
