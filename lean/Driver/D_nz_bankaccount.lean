import PyRt
import Gen.nz_bankaccount
open Py Lean
namespace Driver.D_nz_bankaccount
def handle (fn : String) (args : List Json) : String :=
  match fn with
  | "_calc_checksum" => match args with
    | [a0] => (do let x0 ← Wire.decStr a0; pure (Wire.respondWith Wire.encInt (Gen.nz_bankaccount._calc_checksum x0)) : Option String).getD "badargs"
    | _ => "badargs"
  | "compact" => match args with
    | [a0] => (do let x0 ← Wire.decStr a0; pure (Wire.respondWith Wire.encStr (Gen.nz_bankaccount.compact x0)) : Option String).getD "badargs"
    | _ => "badargs"
  | "format" => match args with
    | [a0] => (do let x0 ← Wire.decStr a0; pure (Wire.respondWith Wire.encStr (Gen.nz_bankaccount.format x0)) : Option String).getD "badargs"
    | _ => "badargs"
  | "info" => match args with
    | [a0] => (do let x0 ← Wire.decStr a0; pure (Wire.respondWith (Wire.encDict Wire.encStr Wire.encStr) (Gen.nz_bankaccount.info x0)) : Option String).getD "badargs"
    | _ => "badargs"
  | "is_valid" => match args with
    | [a0] => (do let x0 ← Wire.decStr a0; pure (Wire.respondWith Wire.encBool (Gen.nz_bankaccount.is_valid x0)) : Option String).getD "badargs"
    | _ => "badargs"
  | "validate" => match args with
    | [a0] => (do let x0 ← Wire.decStr a0; pure (Wire.respondWith Wire.encStr (Gen.nz_bankaccount.validate x0)) : Option String).getD "badargs"
    | _ => "badargs"
  | _ => "nofunc"
end Driver.D_nz_bankaccount
