import PyRt
import Gen.in__vid
open Py Lean
namespace Driver.D_in__vid
def handle (fn : String) (args : List Json) : String :=
  match fn with
  | "compact" => match args with
    | [a0] => (do let x0 ← Wire.decStr a0; pure (Wire.respondWith Wire.encStr (Gen.in__vid.compact x0)) : Option String).getD "badargs"
    | _ => "badargs"
  | "format" => match args with
    | [a0] => (do let x0 ← Wire.decStr a0; pure (Wire.respondWith Wire.encStr (Gen.in__vid.format x0)) : Option String).getD "badargs"
    | _ => "badargs"
  | "is_valid" => match args with
    | [a0] => (do let x0 ← Wire.decStr a0; pure (Wire.respondWith Wire.encBool (Gen.in__vid.is_valid x0)) : Option String).getD "badargs"
    | _ => "badargs"
  | "mask" => match args with
    | [a0] => (do let x0 ← Wire.decStr a0; pure (Wire.respondWith Wire.encStr (Gen.in__vid.mask x0)) : Option String).getD "badargs"
    | _ => "badargs"
  | "validate" => match args with
    | [a0] => (do let x0 ← Wire.decStr a0; pure (Wire.respondWith Wire.encStr (Gen.in__vid.validate x0)) : Option String).getD "badargs"
    | _ => "badargs"
  | _ => "nofunc"
end Driver.D_in__vid
