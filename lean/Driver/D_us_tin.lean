import PyRt
import Gen.us_tin
open Py Lean
namespace Driver.D_us_tin
def handle (fn : String) (args : List Json) : String :=
  match fn with
  | "compact" => match args with
    | [a0] => (do let x0 ← Wire.decStr a0; pure (Wire.respondWith Wire.encStr (Gen.us_tin.compact x0)) : Option String).getD "badargs"
    | _ => "badargs"
  | "format" => match args with
    | [a0] => (do let x0 ← Wire.decStr a0; pure (Wire.respondWith Wire.encStr (Gen.us_tin.format x0)) : Option String).getD "badargs"
    | _ => "badargs"
  | "guess_type" => match args with
    | [a0] => (do let x0 ← Wire.decStr a0; pure (Wire.respondWith (Wire.encList Wire.encStr) (Gen.us_tin.guess_type x0)) : Option String).getD "badargs"
    | _ => "badargs"
  | "is_valid" => match args with
    | [a0] => (do let x0 ← Wire.decStr a0; pure (Wire.respondWith Wire.encBool (Gen.us_tin.is_valid x0)) : Option String).getD "badargs"
    | _ => "badargs"
  | "validate" => match args with
    | [a0] => (do let x0 ← Wire.decStr a0; pure (Wire.respondWith Wire.encStr (Gen.us_tin.validate x0)) : Option String).getD "badargs"
    | _ => "badargs"
  | _ => "nofunc"
end Driver.D_us_tin
