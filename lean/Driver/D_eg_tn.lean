import PyRt
import Gen.eg_tn
open Py Lean
namespace Driver.D_eg_tn
def handle (fn : String) (args : List Json) : String :=
  match fn with
  | "compact" => match args with
    | [a0] => (do let x0 ← Wire.decStr a0; pure (Wire.respondWith Wire.encStr (Gen.eg_tn.compact x0)) : Option String).getD "badargs"
    | _ => "badargs"
  | "format" => match args with
    | [a0] => (do let x0 ← Wire.decStr a0; pure (Wire.respondWith Wire.encStr (Gen.eg_tn.format x0)) : Option String).getD "badargs"
    | _ => "badargs"
  | "is_valid" => match args with
    | [a0] => (do let x0 ← Wire.decStr a0; pure (Wire.respondWith Wire.encBool (Gen.eg_tn.is_valid x0)) : Option String).getD "badargs"
    | _ => "badargs"
  | "validate" => match args with
    | [a0] => (do let x0 ← Wire.decStr a0; pure (Wire.respondWith Wire.encStr (Gen.eg_tn.validate x0)) : Option String).getD "badargs"
    | _ => "badargs"
  | _ => "nofunc"
end Driver.D_eg_tn
