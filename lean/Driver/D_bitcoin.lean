import PyRt
import Gen.bitcoin
open Py Lean
namespace Driver.D_bitcoin
def handle (fn : String) (args : List Json) : String :=
  match fn with
  | "_expand_hrp" => match args with
    | [a0] => (do let x0 ← Wire.decStr a0; pure (Wire.respondWith (Wire.encList Wire.encInt) (Gen.bitcoin._expand_hrp x0)) : Option String).getD "badargs"
    | _ => "badargs"
  | "bech32_checksum" => match args with
    | [a0] => (do let x0 ← (Wire.decList Wire.decInt) a0; pure (Wire.respondWith Wire.encInt (Gen.bitcoin.bech32_checksum x0)) : Option String).getD "badargs"
    | _ => "badargs"
  | "compact" => match args with
    | [a0] => (do let x0 ← Wire.decStr a0; pure (Wire.respondWith Wire.encStr (Gen.bitcoin.compact x0)) : Option String).getD "badargs"
    | _ => "badargs"
  | _ => "nofunc"
end Driver.D_bitcoin
