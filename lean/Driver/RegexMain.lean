import Driver.Regex
/-!
# Driver.RegexMain — stdin→stdout loop of the regex differential test

    lake env lean --run Driver/RegexMain.lean < requests > responses

One request per line (`<target>\t<json array>`), one response line each (see `Driver.Regex`).
-/
def main : IO Unit := do
  let stdin ← IO.getStdin
  let stdout ← IO.getStdout
  repeat
    let line ← stdin.getLine
    if line.isEmpty then break
    match Py.Wire.parseLine line with
    | some (target, args) => stdout.putStrLn (Driver.Regex.handle target args)
    | none => stdout.putStrLn "badargs"
    stdout.flush
