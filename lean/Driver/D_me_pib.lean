import PyRt
import Gen.me_pib
open Py Lean
namespace Driver.D_me_pib
def handle (fn : String) (args : List Json) : String :=
  match fn with
  | "calc_check_digit" => match args with
    | [a0] => (do let x0 ← Wire.decStr a0; pure (Wire.respondWith Wire.encStr (Gen.me_pib.calc_check_digit x0)) : Option String).getD "badargs"
    | _ => "badargs"
  | "compact" => match args with
    | [a0] => (do let x0 ← Wire.decStr a0; pure (Wire.respondWith Wire.encStr (Gen.me_pib.compact x0)) : Option String).getD "badargs"
    | _ => "badargs"
  | "format" => match args with
    | [a0] => (do let x0 ← Wire.decStr a0; pure (Wire.respondWith Wire.encStr (Gen.me_pib.format x0)) : Option String).getD "badargs"
    | _ => "badargs"
  | "is_valid" => match args with
    | [a0] => (do let x0 ← Wire.decStr a0; pure (Wire.respondWith Wire.encBool (Gen.me_pib.is_valid x0)) : Option String).getD "badargs"
    | _ => "badargs"
  | "validate" => match args with
    | [a0] => (do let x0 ← Wire.decStr a0; pure (Wire.respondWith Wire.encStr (Gen.me_pib.validate x0)) : Option String).getD "badargs"
    | _ => "badargs"
  | _ => "nofunc"
end Driver.D_me_pib
