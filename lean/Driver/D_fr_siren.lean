import PyRt
import Gen.fr_siren
open Py Lean
namespace Driver.D_fr_siren
def handle (fn : String) (args : List Json) : String :=
  match fn with
  | "compact" => match args with
    | [a0] => (do let x0 ← Wire.decStr a0; pure (Wire.respondWith Wire.encStr (Gen.fr_siren.compact x0)) : Option String).getD "badargs"
    | _ => "badargs"
  | "is_valid" => match args with
    | [a0] => (do let x0 ← Wire.decStr a0; pure (Wire.respondWith Wire.encBool (Gen.fr_siren.is_valid x0)) : Option String).getD "badargs"
    | _ => "badargs"
  | "to_tva" => match args with
    | [a0] => (do let x0 ← Wire.decStr a0; pure (Wire.respondWith Wire.encStr (Gen.fr_siren.to_tva x0)) : Option String).getD "badargs"
    | _ => "badargs"
  | "validate" => match args with
    | [a0] => (do let x0 ← Wire.decStr a0; pure (Wire.respondWith Wire.encStr (Gen.fr_siren.validate x0)) : Option String).getD "badargs"
    | _ => "badargs"
  | _ => "nofunc"
end Driver.D_fr_siren
