import PyRt
import Gen.fi_alv
open Py Lean
namespace Driver.D_fi_alv
def handle (fn : String) (args : List Json) : String :=
  match fn with
  | "checksum" => match args with
    | [a0] => (do let x0 ← Wire.decStr a0; pure (Wire.respondWith Wire.encInt (Gen.fi_alv.checksum x0)) : Option String).getD "badargs"
    | _ => "badargs"
  | "compact" => match args with
    | [a0] => (do let x0 ← Wire.decStr a0; pure (Wire.respondWith Wire.encStr (Gen.fi_alv.compact x0)) : Option String).getD "badargs"
    | _ => "badargs"
  | "is_valid" => match args with
    | [a0] => (do let x0 ← Wire.decStr a0; pure (Wire.respondWith Wire.encBool (Gen.fi_alv.is_valid x0)) : Option String).getD "badargs"
    | _ => "badargs"
  | "validate" => match args with
    | [a0] => (do let x0 ← Wire.decStr a0; pure (Wire.respondWith Wire.encStr (Gen.fi_alv.validate x0)) : Option String).getD "badargs"
    | _ => "badargs"
  | _ => "nofunc"
end Driver.D_fi_alv
