import PyRt
import Gen.gb_nhs
open Py Lean
namespace Driver.D_gb_nhs
def handle (fn : String) (args : List Json) : String :=
  match fn with
  | "checksum" => match args with
    | [a0] => (do let x0 ← Wire.decStr a0; pure (Wire.respondWith Wire.encInt (Gen.gb_nhs.checksum x0)) : Option String).getD "badargs"
    | _ => "badargs"
  | "compact" => match args with
    | [a0] => (do let x0 ← Wire.decStr a0; pure (Wire.respondWith Wire.encStr (Gen.gb_nhs.compact x0)) : Option String).getD "badargs"
    | _ => "badargs"
  | "format" => match args with
    | [a0, a1] => (do let x0 ← Wire.decStr a0; let x1 ← Wire.decStr a1; pure (Wire.respondWith Wire.encStr (Gen.gb_nhs.format x0 x1)) : Option String).getD "badargs"
    | _ => "badargs"
  | "is_valid" => match args with
    | [a0] => (do let x0 ← Wire.decStr a0; pure (Wire.respondWith Wire.encBool (Gen.gb_nhs.is_valid x0)) : Option String).getD "badargs"
    | _ => "badargs"
  | "validate" => match args with
    | [a0] => (do let x0 ← Wire.decStr a0; pure (Wire.respondWith Wire.encStr (Gen.gb_nhs.validate x0)) : Option String).getD "badargs"
    | _ => "badargs"
  | _ => "nofunc"
end Driver.D_gb_nhs
