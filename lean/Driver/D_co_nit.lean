import PyRt
import Gen.co_nit
open Py Lean
namespace Driver.D_co_nit
def handle (fn : String) (args : List Json) : String :=
  match fn with
  | "calc_check_digit" => match args with
    | [a0] => (do let x0 ← Wire.decStr a0; pure (Wire.respondWith Wire.encStr (Gen.co_nit.calc_check_digit x0)) : Option String).getD "badargs"
    | _ => "badargs"
  | "compact" => match args with
    | [a0] => (do let x0 ← Wire.decStr a0; pure (Wire.respondWith Wire.encStr (Gen.co_nit.compact x0)) : Option String).getD "badargs"
    | _ => "badargs"
  | "format" => match args with
    | [a0] => (do let x0 ← Wire.decStr a0; pure (Wire.respondWith Wire.encStr (Gen.co_nit.format x0)) : Option String).getD "badargs"
    | _ => "badargs"
  | "is_valid" => match args with
    | [a0] => (do let x0 ← Wire.decStr a0; pure (Wire.respondWith Wire.encBool (Gen.co_nit.is_valid x0)) : Option String).getD "badargs"
    | _ => "badargs"
  | "validate" => match args with
    | [a0] => (do let x0 ← Wire.decStr a0; pure (Wire.respondWith Wire.encStr (Gen.co_nit.validate x0)) : Option String).getD "badargs"
    | _ => "badargs"
  | _ => "nofunc"
end Driver.D_co_nit
