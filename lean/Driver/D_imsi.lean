import PyRt
import Gen.imsi
open Py Lean
namespace Driver.D_imsi
def handle (fn : String) (args : List Json) : String :=
  match fn with
  | "compact" => match args with
    | [a0] => (do let x0 ← Wire.decStr a0; pure (Wire.respondWith Wire.encStr (Gen.imsi.compact x0)) : Option String).getD "badargs"
    | _ => "badargs"
  | "info" => match args with
    | [a0] => (do let x0 ← Wire.decStr a0; pure (Wire.respondWith (Wire.encDict Wire.encStr Wire.encStr) (Gen.imsi.info x0)) : Option String).getD "badargs"
    | _ => "badargs"
  | "is_valid" => match args with
    | [a0] => (do let x0 ← Wire.decStr a0; pure (Wire.respondWith Wire.encBool (Gen.imsi.is_valid x0)) : Option String).getD "badargs"
    | _ => "badargs"
  | "split" => match args with
    | [a0] => (do let x0 ← Wire.decStr a0; pure (Wire.respondWith (Wire.encList Wire.encStr) (Gen.imsi.split x0)) : Option String).getD "badargs"
    | _ => "badargs"
  | "validate" => match args with
    | [a0] => (do let x0 ← Wire.decStr a0; pure (Wire.respondWith Wire.encStr (Gen.imsi.validate x0)) : Option String).getD "badargs"
    | _ => "badargs"
  | _ => "nofunc"
end Driver.D_imsi
