import PyRt
import Gen.tw_ubn
open Py Lean
namespace Driver.D_tw_ubn
def handle (fn : String) (args : List Json) : String :=
  match fn with
  | "calc_checksum" => match args with
    | [a0] => (do let x0 ← Wire.decStr a0; pure (Wire.respondWith Wire.encInt (Gen.tw_ubn.calc_checksum x0)) : Option String).getD "badargs"
    | _ => "badargs"
  | "compact" => match args with
    | [a0] => (do let x0 ← Wire.decStr a0; pure (Wire.respondWith Wire.encStr (Gen.tw_ubn.compact x0)) : Option String).getD "badargs"
    | _ => "badargs"
  | "format" => match args with
    | [a0] => (do let x0 ← Wire.decStr a0; pure (Wire.respondWith Wire.encStr (Gen.tw_ubn.format x0)) : Option String).getD "badargs"
    | _ => "badargs"
  | "is_valid" => match args with
    | [a0] => (do let x0 ← Wire.decStr a0; pure (Wire.respondWith Wire.encBool (Gen.tw_ubn.is_valid x0)) : Option String).getD "badargs"
    | _ => "badargs"
  | "validate" => match args with
    | [a0] => (do let x0 ← Wire.decStr a0; pure (Wire.respondWith Wire.encStr (Gen.tw_ubn.validate x0)) : Option String).getD "badargs"
    | _ => "badargs"
  | _ => "nofunc"
end Driver.D_tw_ubn
