import Lean.Data.Json
import PyRt.Basic
import PyRt.Wire
import Spec.Wsgi
/-!
# Driver.Wsgi — wire targets for the model of the online check application (C18)

Targets (arguments in the JSON encoding of `PyRt/Wire.lean`):
* `wsgi.escape`       `[s, quote]`                            → `html.escape(s, quote)`
* `wsgi.unescape`     `[s]`                                   → `Spec.Wsgi.unescape s`
* `wsgi.page`         `[template, value, results]`            → `template % dict(value=…, results=…)`
* `wsgi.format_entry` `[number, name, description, convs]`    → `format(data)`; `number` and the
  conversion values are arbitrary values (`str`, `int`, `None`, anything else), `description`
  is the already processed description (the model's `descr` is the identity here),
  `convs = [[name, value], …]` in dictionary order
* `wsgi.conversions`  `[number, [[prop, outcome], …]]`        → `dict(get_conversions(…))` as a list of pairs
* `wsgi.application`  `[template|null, params, ajax, modules, descrs]` → whole response, see `respJson`

An *outcome* is `{"raise": "ClassName"}`, `{"date": {"s": …}}` (already `strftime`ed) or a value.
Values: `{"s": …}` → `str`, number → `int`, `null` → `None`, `true`/`false` → `bool`,
`{"dec": {"s": text}}` → not JSON-serialisable object with `str()` text (Decimal, …),
`{"o": {"s": text}}` → any other object (dict, list, tuple, float) with its `str()` text.
Used only by the executable driver; nothing here is used in theorems.
-/
open Lean (Json)
namespace Driver.Wsgi
open Py Py.Wire Spec.Wsgi

def excOfName : String → Exc
  | "InvalidFormat" => .invalidFormat | "InvalidLength" => .invalidLength
  | "InvalidChecksum" => .invalidChecksum | "InvalidComponent" => .invalidComponent
  | "ValidationError" => .validationError | "ValueError" => .valueError
  | "TypeError" => .typeError | "IndexError" => .indexError | "KeyError" => .keyError
  | "AttributeError" => .attributeError | "ZeroDivisionError" => .zeroDivision
  | "OverflowError" => .overflow | "UnicodeError" => .unicodeError
  | "StopIteration" => .stopIteration | _ => .other

def nameOfExc : Exc → String
  | .invalidFormat => "InvalidFormat" | .invalidLength => "InvalidLength"
  | .invalidChecksum => "InvalidChecksum" | .invalidComponent => "InvalidComponent"
  | .validationError => "ValidationError" | .valueError => "ValueError"
  | .typeError => "TypeError" | .indexError => "IndexError" | .keyError => "KeyError"
  | .attributeError => "AttributeError" | .zeroDivision => "ZeroDivisionError"
  | .overflow => "OverflowError" | .unicodeError => "UnicodeError"
  | .stopIteration => "StopIteration" | .other => "Exception"

def textField (j : Json) (k : String) : Option Str :=
  match j.getObjVal? k with
  | .ok v => strOfJson v
  | .error _ => none

def convOfJson (j : Json) : Conv :=
  match strOfJson j with
  | some s => .str s
  | none =>
    match j with
    | .null => .none
    | .bool b => .bool b
    | .num _ => (match intOfJson j with | some n => .int n | none => .other [])
    | _ =>
      match textField j "dec" with
      | some t => .nojson t
      | none => .other ((textField j "o").getD [])

def convToJson : Conv → Json
  | .str s => strToWire s
  | .int n => toWire n
  | .none => Json.null
  | .bool b => Json.bool b
  | .other _ => Json.mkObj [("other", Json.bool true)]
  | .nojson _ => Json.mkObj [("nojson", Json.bool true)]

/-- outcome of a call: exception, date or value -/
def outcomeOfJson (j : Json) : R GetVal :=
  match j.getObjVal? "raise" with
  | .ok (.str cls) => .error (excOfName cls)
  | _ =>
    match j.getObjVal? "date" with
    | .ok d => (match strOfJson d with | some s => .ok (.date s) | none => .ok (.conv (.other [])))
    | .error _ => .ok (.conv (convOfJson j))

def convOutcome (j : Json) : R Conv :=
  match outcomeOfJson j with
  | .error e => .error e
  | .ok (.conv c) => .ok c
  | .ok (.date iso) => .ok (.other iso)

def boolOutcome (j : Json) : R Bool :=
  match j.getObjVal? "raise" with
  | .ok (.str cls) => .error (excOfName cls)
  | _ => match j with | .bool b => .ok b | _ => .ok false

def pairsOfJson (j : Json) : Option (List (Str × Json)) :=
  match j with
  | .arr a => a.toList.mapM (fun p => match p with
      | .arr #[k, v] => (strOfJson k).map (fun k => (k, v))
      | _ => none)
  | _ => none

def gettersOfJson (j : Json) : Option (List Getter) :=
  (pairsOfJson j).map (fun ps => ps.map (fun (k, v) => { prop := k, run := fun _ => outcomeOfJson v }))

def strField (j : Json) (k : String) : Option Str :=
  match j.getObjVal? k with | .ok v => strOfJson v | .error _ => none

def moduleOfJson (j : Json) : Option Module := do
  let modname ← strField j "modname"
  let name ← strField j "name"
  let description ← strField j "description"
  let valid ← (j.getObjVal? "valid").toOption
  let compact ← (j.getObjVal? "compact").toOption
  let format ← (j.getObjVal? "format").toOption
  let getters ← gettersOfJson (← (j.getObjVal? "getters").toOption)
  pure { modname, name, description,
         isValid := fun _ => boolOutcome valid,
         compact := fun n => if compact == Json.str "identity" then .ok (.str n) else convOutcome compact,
         format := fun n => if format == Json.str "identity" then .ok (.str n) else convOutcome format,
         getters }

def convPairsToJson (ps : List (Str × Conv)) : Json :=
  Json.arr (ps.toArray.map (fun (k, v) => Json.arr #[strToWire k, convToJson v]))

def infoToJson (i : Info) : Json :=
  Json.mkObj [("number", convToJson i.number), ("compact", convToJson i.compact),
    ("valid", Json.bool i.valid), ("module", strToWire i.module), ("name", strToWire i.name),
    ("description", strToWire i.description), ("conversions", convPairsToJson i.conversions)]

def respJson : Response → Json
  | .ok st (.html t) => Json.mkObj [("status", toWire st), ("html", strToWire t)]
  | .ok st (.json r) => Json.mkObj [("status", toWire st), ("json", Json.arr (r.toArray.map infoToJson))]
  | .serverError e => Json.mkObj [("error", Json.str (nameOfExc e))]

def paramsOfJson (j : Json) : Option (List (Str × List Str)) :=
  match j with
  | .arr a => a.toList.mapM (fun p => match p with
      | .arr #[k, v] => do
        let k ← strOfJson k
        let v ← (fromWire v : Option (List Str))
        pure (k, v)
      | _ => none)
  | _ => none

def descrOfTable (tbl : List (Str × Str)) (d : Str) : Str :=
  match lookup tbl d with
  | some v => v
  | none => d

def respondR (r : R Str) : String :=
  match r with
  | .ok v => "ok " ++ (strToWire v).compress
  | .error e => "err " ++ nameOfExc e

/-- answer for one request, `none` when the target is not one of this file's -/
def handle? (target : String) (args : List Json) : Option String :=
  match target with
  | "wsgi.escape" =>
    some <| match args with
    | [s, .bool q] => (match strOfJson s with
        | some s => "ok " ++ (strToWire (escape q s)).compress
        | none => "badargs")
    | _ => "badargs"
  | "wsgi.unescape" =>
    some <| match args with
    | [s] => (match strOfJson s with
        | some s => "ok " ++ (strToWire (unescape s)).compress
        | none => "badargs")
    | _ => "badargs"
  | "wsgi.page" =>
    some <| match args.mapM strOfJson with
    | some [t, v, r] => respondR (page t v r)
    | _ => "badargs"
  | "wsgi.format_entry" =>
    some <| match args with
    | [number, name, description, convs] =>
      (match strOfJson name, strOfJson description, pairsOfJson convs with
       | some name, some description, some convs =>
         let i : Info := { number := convOfJson number, compact := .none, valid := true, module := [],
                           name, description, conversions := convs.map (fun (k, v) => (k, convOfJson v)) }
         respondR (formatEntry id i)
       | _, _, _ => "badargs")
    | _ => "badargs"
  | "wsgi.conversions" =>
    some <| match args with
    | [number, gs] =>
      (match strOfJson number, gettersOfJson gs with
       | some number, some gs => "ok " ++ (convPairsToJson (conversions gs number)).compress
       | _, _ => "badargs")
    | _ => "badargs"
  | "wsgi.application" =>
    some <| match args with
    | [tpl, params, .bool ajax, .arr mods, descrs] =>
      (match paramsOfJson params, mods.toList.mapM moduleOfJson, pairsOfJson descrs with
       | some params, some mods, some descrs =>
         match descrs.mapM (fun (k, v) => (strOfJson v).map (fun v => (k, v))) with
         | some tbl =>
           let file : R Str := match strOfJson tpl with
             | some t => .ok t
             | none => .error .other
           let rq : Req := { params, ajax }
           -- two requests through one process: the second exercises the `_template` cache
           let rs := runSeq file (descrOfTable tbl) mods none [rq, rq]
           "ok " ++ (Json.arr (rs.toArray.map respJson)).compress
         | none => "badargs"
       | _, _, _ => "badargs")
    | _ => "badargs"
  | _ => none

def handle (target : String) (args : List Json) : String :=
  (handle? target args).getD "nofunc"

end Driver.Wsgi
