import PyRt
import Gen.iban
open Py Lean
namespace Driver.D_iban
def handle (fn : String) (args : List Json) : String :=
  match fn with
  | "_get_cc_module" => match args with
    | [a0] => (do let x0 ← Wire.decStr a0; pure (Wire.respondWith (Wire.encOpt Wire.encModule) (Gen.iban._get_cc_module x0)) : Option String).getD "badargs"
    | _ => "badargs"
  | "calc_check_digits" => match args with
    | [a0] => (do let x0 ← Wire.decStr a0; pure (Wire.respondWith Wire.encStr (Gen.iban.calc_check_digits x0)) : Option String).getD "badargs"
    | _ => "badargs"
  | "compact" => match args with
    | [a0] => (do let x0 ← Wire.decStr a0; pure (Wire.respondWith Wire.encStr (Gen.iban.compact x0)) : Option String).getD "badargs"
    | _ => "badargs"
  | "format" => match args with
    | [a0, a1] => (do let x0 ← Wire.decStr a0; let x1 ← Wire.decStr a1; pure (Wire.respondWith Wire.encStr (Gen.iban.format x0 x1)) : Option String).getD "badargs"
    | _ => "badargs"
  | "is_valid" => match args with
    | [a0, a1] => (do let x0 ← Wire.decStr a0; let x1 ← Wire.decBool a1; pure (Wire.respondWith Wire.encBool (Gen.iban.is_valid x0 x1)) : Option String).getD "badargs"
    | _ => "badargs"
  | "validate" => match args with
    | [a0, a1] => (do let x0 ← Wire.decStr a0; let x1 ← Wire.decBool a1; pure (Wire.respondWith Wire.encStr (Gen.iban.validate x0 x1)) : Option String).getD "badargs"
    | _ => "badargs"
  | "validate__check_country_False" => match args with
    | [a0] => (do let x0 ← Wire.decStr a0; pure (Wire.respondWith Wire.encStr (Gen.iban.validate__check_country_False x0)) : Option String).getD "badargs"
    | _ => "badargs"
  | "_get_cc_module__warm" => match args with
    | [a0, a1] => (do let x0 ← (Wire.decDict Wire.decStr (Wire.decOpt Wire.decModule)) a0; let x1 ← Wire.decStr a1; pure (Wire.respondWith (Wire.encT2 (Wire.encOpt Wire.encModule) (Wire.encDict Wire.encStr (Wire.encOpt Wire.encModule))) (Gen.iban._get_cc_module__warm x0 x1)) : Option String).getD "badargs"
    | _ => "badargs"
  | _ => "nofunc"
end Driver.D_iban
