import PyRt
import Gen.cz_rc
open Py Lean
namespace Driver.D_cz_rc
def handle (fn : String) (args : List Json) : String :=
  match fn with
  | "compact" => match args with
    | [a0] => (do let x0 ← Wire.decStr a0; pure (Wire.respondWith Wire.encStr (Gen.cz_rc.compact x0)) : Option String).getD "badargs"
    | _ => "badargs"
  | "format" => match args with
    | [a0] => (do let x0 ← Wire.decStr a0; pure (Wire.respondWith Wire.encStr (Gen.cz_rc.format x0)) : Option String).getD "badargs"
    | _ => "badargs"
  | "get_birth_date" => match args with
    | [a0] => (do let x0 ← Wire.decStr a0; pure (Wire.respondWith Wire.encDate (Gen.cz_rc.get_birth_date x0)) : Option String).getD "badargs"
    | _ => "badargs"
  | "is_valid" => match args with
    | [a0] => (do let x0 ← Wire.decStr a0; pure (Wire.respondWith Wire.encBool (Gen.cz_rc.is_valid x0)) : Option String).getD "badargs"
    | _ => "badargs"
  | "validate" => match args with
    | [a0] => (do let x0 ← Wire.decStr a0; pure (Wire.respondWith Wire.encStr (Gen.cz_rc.validate x0)) : Option String).getD "badargs"
    | _ => "badargs"
  | _ => "nofunc"
end Driver.D_cz_rc
