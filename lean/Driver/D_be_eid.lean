import PyRt
import Gen.be_eid
open Py Lean
namespace Driver.D_be_eid
def handle (fn : String) (args : List Json) : String :=
  match fn with
  | "_calc_check_digits" => match args with
    | [a0] => (do let x0 ← Wire.decStr a0; pure (Wire.respondWith Wire.encStr (Gen.be_eid._calc_check_digits x0)) : Option String).getD "badargs"
    | _ => "badargs"
  | "compact" => match args with
    | [a0] => (do let x0 ← Wire.decStr a0; pure (Wire.respondWith Wire.encStr (Gen.be_eid.compact x0)) : Option String).getD "badargs"
    | _ => "badargs"
  | "format" => match args with
    | [a0] => (do let x0 ← Wire.decStr a0; pure (Wire.respondWith Wire.encStr (Gen.be_eid.format x0)) : Option String).getD "badargs"
    | _ => "badargs"
  | "is_valid" => match args with
    | [a0] => (do let x0 ← Wire.decStr a0; pure (Wire.respondWith Wire.encBool (Gen.be_eid.is_valid x0)) : Option String).getD "badargs"
    | _ => "badargs"
  | "validate" => match args with
    | [a0] => (do let x0 ← Wire.decStr a0; pure (Wire.respondWith Wire.encStr (Gen.be_eid.validate x0)) : Option String).getD "badargs"
    | _ => "badargs"
  | _ => "nofunc"
end Driver.D_be_eid
