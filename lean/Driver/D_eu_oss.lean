import PyRt
import Gen.eu_oss
open Py Lean
namespace Driver.D_eu_oss
def handle (fn : String) (args : List Json) : String :=
  match fn with
  | "compact" => match args with
    | [a0] => (do let x0 ← Wire.decStr a0; pure (Wire.respondWith Wire.encStr (Gen.eu_oss.compact x0)) : Option String).getD "badargs"
    | _ => "badargs"
  | "is_valid" => match args with
    | [a0] => (do let x0 ← Wire.decStr a0; pure (Wire.respondWith Wire.encBool (Gen.eu_oss.is_valid x0)) : Option String).getD "badargs"
    | _ => "badargs"
  | "validate" => match args with
    | [a0] => (do let x0 ← Wire.decStr a0; pure (Wire.respondWith Wire.encStr (Gen.eu_oss.validate x0)) : Option String).getD "badargs"
    | _ => "badargs"
  | _ => "nofunc"
end Driver.D_eu_oss
