import PyRt
import Gen.eu_vat
open Py Lean
namespace Driver.D_eu_vat
def handle (fn : String) (args : List Json) : String :=
  match fn with
  | "_get_cc_module" => match args with
    | [a0] => (do let x0 ← Wire.decStr a0; pure (Wire.respondWith (Wire.encOpt Wire.encModule) (Gen.eu_vat._get_cc_module x0)) : Option String).getD "badargs"
    | _ => "badargs"
  | "compact" => match args with
    | [a0] => (do let x0 ← Wire.decStr a0; pure (Wire.respondWith Wire.encStr (Gen.eu_vat.compact x0)) : Option String).getD "badargs"
    | _ => "badargs"
  | "guess_country" => match args with
    | [a0] => (do let x0 ← Wire.decStr a0; pure (Wire.respondWith (Wire.encList Wire.encStr) (Gen.eu_vat.guess_country x0)) : Option String).getD "badargs"
    | _ => "badargs"
  | "is_valid" => match args with
    | [a0] => (do let x0 ← Wire.decStr a0; pure (Wire.respondWith Wire.encBool (Gen.eu_vat.is_valid x0)) : Option String).getD "badargs"
    | _ => "badargs"
  | "validate" => match args with
    | [a0] => (do let x0 ← Wire.decStr a0; pure (Wire.respondWith Wire.encStr (Gen.eu_vat.validate x0)) : Option String).getD "badargs"
    | _ => "badargs"
  | "_get_cc_module__warm" => match args with
    | [a0, a1] => (do let x0 ← (Wire.decDict Wire.decStr (Wire.decOpt Wire.decModule)) a0; let x1 ← Wire.decStr a1; pure (Wire.respondWith (Wire.encT2 (Wire.encOpt Wire.encModule) (Wire.encDict Wire.encStr (Wire.encOpt Wire.encModule))) (Gen.eu_vat._get_cc_module__warm x0 x1)) : Option String).getD "badargs"
    | _ => "badargs"
  | _ => "nofunc"
end Driver.D_eu_vat
