import PyRt
import Gen.th_tin
open Py Lean
namespace Driver.D_th_tin
def handle (fn : String) (args : List Json) : String :=
  match fn with
  | "compact" => match args with
    | [a0] => (do let x0 ← Wire.decStr a0; pure (Wire.respondWith Wire.encStr (Gen.th_tin.compact x0)) : Option String).getD "badargs"
    | _ => "badargs"
  | "format" => match args with
    | [a0] => (do let x0 ← Wire.decStr a0; pure (Wire.respondWith Wire.encStr (Gen.th_tin.format x0)) : Option String).getD "badargs"
    | _ => "badargs"
  | "is_valid" => match args with
    | [a0] => (do let x0 ← Wire.decStr a0; pure (Wire.respondWith Wire.encBool (Gen.th_tin.is_valid x0)) : Option String).getD "badargs"
    | _ => "badargs"
  | "tin_type" => match args with
    | [a0] => (do let x0 ← Wire.decStr a0; pure (Wire.respondWith (Wire.encOpt Wire.encStr) (Gen.th_tin.tin_type x0)) : Option String).getD "badargs"
    | _ => "badargs"
  | "validate" => match args with
    | [a0] => (do let x0 ← Wire.decStr a0; pure (Wire.respondWith Wire.encStr (Gen.th_tin.validate x0)) : Option String).getD "badargs"
    | _ => "badargs"
  | _ => "nofunc"
end Driver.D_th_tin
