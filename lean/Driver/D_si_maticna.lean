import PyRt
import Gen.si_maticna
open Py Lean
namespace Driver.D_si_maticna
def handle (fn : String) (args : List Json) : String :=
  match fn with
  | "calc_check_digit" => match args with
    | [a0] => (do let x0 ← Wire.decStr a0; pure (Wire.respondWith Wire.encStr (Gen.si_maticna.calc_check_digit x0)) : Option String).getD "badargs"
    | _ => "badargs"
  | "compact" => match args with
    | [a0] => (do let x0 ← Wire.decStr a0; pure (Wire.respondWith Wire.encStr (Gen.si_maticna.compact x0)) : Option String).getD "badargs"
    | _ => "badargs"
  | "is_valid" => match args with
    | [a0] => (do let x0 ← Wire.decStr a0; pure (Wire.respondWith Wire.encBool (Gen.si_maticna.is_valid x0)) : Option String).getD "badargs"
    | _ => "badargs"
  | "validate" => match args with
    | [a0] => (do let x0 ← Wire.decStr a0; pure (Wire.respondWith Wire.encStr (Gen.si_maticna.validate x0)) : Option String).getD "badargs"
    | _ => "badargs"
  | _ => "nofunc"
end Driver.D_si_maticna
