import PyRt
import Gen.ch_esr
open Py Lean
namespace Driver.D_ch_esr
def handle (fn : String) (args : List Json) : String :=
  match fn with
  | "calc_check_digit" => match args with
    | [a0] => (do let x0 ← Wire.decStr a0; pure (Wire.respondWith Wire.encStr (Gen.ch_esr.calc_check_digit x0)) : Option String).getD "badargs"
    | _ => "badargs"
  | "compact" => match args with
    | [a0] => (do let x0 ← Wire.decStr a0; pure (Wire.respondWith Wire.encStr (Gen.ch_esr.compact x0)) : Option String).getD "badargs"
    | _ => "badargs"
  | "format" => match args with
    | [a0] => (do let x0 ← Wire.decStr a0; pure (Wire.respondWith Wire.encStr (Gen.ch_esr.format x0)) : Option String).getD "badargs"
    | _ => "badargs"
  | "is_valid" => match args with
    | [a0] => (do let x0 ← Wire.decStr a0; pure (Wire.respondWith Wire.encBool (Gen.ch_esr.is_valid x0)) : Option String).getD "badargs"
    | _ => "badargs"
  | "validate" => match args with
    | [a0] => (do let x0 ← Wire.decStr a0; pure (Wire.respondWith Wire.encStr (Gen.ch_esr.validate x0)) : Option String).getD "badargs"
    | _ => "badargs"
  | _ => "nofunc"
end Driver.D_ch_esr
