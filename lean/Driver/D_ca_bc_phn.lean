import PyRt
import Gen.ca_bc_phn
open Py Lean
namespace Driver.D_ca_bc_phn
def handle (fn : String) (args : List Json) : String :=
  match fn with
  | "calc_check_digit" => match args with
    | [a0] => (do let x0 ← Wire.decStr a0; pure (Wire.respondWith Wire.encStr (Gen.ca_bc_phn.calc_check_digit x0)) : Option String).getD "badargs"
    | _ => "badargs"
  | "compact" => match args with
    | [a0] => (do let x0 ← Wire.decStr a0; pure (Wire.respondWith Wire.encStr (Gen.ca_bc_phn.compact x0)) : Option String).getD "badargs"
    | _ => "badargs"
  | "format" => match args with
    | [a0] => (do let x0 ← Wire.decStr a0; pure (Wire.respondWith Wire.encStr (Gen.ca_bc_phn.format x0)) : Option String).getD "badargs"
    | _ => "badargs"
  | "is_valid" => match args with
    | [a0] => (do let x0 ← Wire.decStr a0; pure (Wire.respondWith Wire.encBool (Gen.ca_bc_phn.is_valid x0)) : Option String).getD "badargs"
    | _ => "badargs"
  | "validate" => match args with
    | [a0] => (do let x0 ← Wire.decStr a0; pure (Wire.respondWith Wire.encStr (Gen.ca_bc_phn.validate x0)) : Option String).getD "badargs"
    | _ => "badargs"
  | _ => "nofunc"
end Driver.D_ca_bc_phn
