import PyRt
import Gen.be_vat
open Py Lean
namespace Driver.D_be_vat
def handle (fn : String) (args : List Json) : String :=
  match fn with
  | "checksum" => match args with
    | [a0] => (do let x0 ← Wire.decStr a0; pure (Wire.respondWith Wire.encInt (Gen.be_vat.checksum x0)) : Option String).getD "badargs"
    | _ => "badargs"
  | "compact" => match args with
    | [a0] => (do let x0 ← Wire.decStr a0; pure (Wire.respondWith Wire.encStr (Gen.be_vat.compact x0)) : Option String).getD "badargs"
    | _ => "badargs"
  | "is_valid" => match args with
    | [a0] => (do let x0 ← Wire.decStr a0; pure (Wire.respondWith Wire.encBool (Gen.be_vat.is_valid x0)) : Option String).getD "badargs"
    | _ => "badargs"
  | "validate" => match args with
    | [a0] => (do let x0 ← Wire.decStr a0; pure (Wire.respondWith Wire.encStr (Gen.be_vat.validate x0)) : Option String).getD "badargs"
    | _ => "badargs"
  | _ => "nofunc"
end Driver.D_be_vat
