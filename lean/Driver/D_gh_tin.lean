import PyRt
import Gen.gh_tin
open Py Lean
namespace Driver.D_gh_tin
def handle (fn : String) (args : List Json) : String :=
  match fn with
  | "calc_check_digit" => match args with
    | [a0] => (do let x0 ← Wire.decStr a0; pure (Wire.respondWith Wire.encStr (Gen.gh_tin.calc_check_digit x0)) : Option String).getD "badargs"
    | _ => "badargs"
  | "compact" => match args with
    | [a0] => (do let x0 ← Wire.decStr a0; pure (Wire.respondWith Wire.encStr (Gen.gh_tin.compact x0)) : Option String).getD "badargs"
    | _ => "badargs"
  | "is_valid" => match args with
    | [a0] => (do let x0 ← Wire.decStr a0; pure (Wire.respondWith Wire.encBool (Gen.gh_tin.is_valid x0)) : Option String).getD "badargs"
    | _ => "badargs"
  | "validate" => match args with
    | [a0] => (do let x0 ← Wire.decStr a0; pure (Wire.respondWith Wire.encStr (Gen.gh_tin.validate x0)) : Option String).getD "badargs"
    | _ => "badargs"
  | _ => "nofunc"
end Driver.D_gh_tin
