import PyRt
import Gen.us_atin
open Py Lean
namespace Driver.D_us_atin
def handle (fn : String) (args : List Json) : String :=
  match fn with
  | "compact" => match args with
    | [a0] => (do let x0 ← Wire.decStr a0; pure (Wire.respondWith Wire.encStr (Gen.us_atin.compact x0)) : Option String).getD "badargs"
    | _ => "badargs"
  | "format" => match args with
    | [a0] => (do let x0 ← Wire.decStr a0; pure (Wire.respondWith Wire.encStr (Gen.us_atin.format x0)) : Option String).getD "badargs"
    | _ => "badargs"
  | "is_valid" => match args with
    | [a0] => (do let x0 ← Wire.decStr a0; pure (Wire.respondWith Wire.encBool (Gen.us_atin.is_valid x0)) : Option String).getD "badargs"
    | _ => "badargs"
  | "validate" => match args with
    | [a0] => (do let x0 ← Wire.decStr a0; pure (Wire.respondWith Wire.encStr (Gen.us_atin.validate x0)) : Option String).getD "badargs"
    | _ => "badargs"
  | _ => "nofunc"
end Driver.D_us_atin
