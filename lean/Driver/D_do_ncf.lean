import PyRt
import Gen.do_ncf
open Py Lean
namespace Driver.D_do_ncf
def handle (fn : String) (args : List Json) : String :=
  match fn with
  | "compact" => match args with
    | [a0] => (do let x0 ← Wire.decStr a0; pure (Wire.respondWith Wire.encStr (Gen.do_ncf.compact x0)) : Option String).getD "badargs"
    | _ => "badargs"
  | "is_valid" => match args with
    | [a0] => (do let x0 ← Wire.decStr a0; pure (Wire.respondWith Wire.encBool (Gen.do_ncf.is_valid x0)) : Option String).getD "badargs"
    | _ => "badargs"
  | "validate" => match args with
    | [a0] => (do let x0 ← Wire.decStr a0; pure (Wire.respondWith Wire.encStr (Gen.do_ncf.validate x0)) : Option String).getD "badargs"
    | _ => "badargs"
  | _ => "nofunc"
end Driver.D_do_ncf
