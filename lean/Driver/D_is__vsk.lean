import PyRt
import Gen.is__vsk
open Py Lean
namespace Driver.D_is__vsk
def handle (fn : String) (args : List Json) : String :=
  match fn with
  | "compact" => match args with
    | [a0] => (do let x0 ← Wire.decStr a0; pure (Wire.respondWith Wire.encStr (Gen.is__vsk.compact x0)) : Option String).getD "badargs"
    | _ => "badargs"
  | "is_valid" => match args with
    | [a0] => (do let x0 ← Wire.decStr a0; pure (Wire.respondWith Wire.encBool (Gen.is__vsk.is_valid x0)) : Option String).getD "badargs"
    | _ => "badargs"
  | "validate" => match args with
    | [a0] => (do let x0 ← Wire.decStr a0; pure (Wire.respondWith Wire.encStr (Gen.is__vsk.validate x0)) : Option String).getD "badargs"
    | _ => "badargs"
  | _ => "nofunc"
end Driver.D_is__vsk
