import PyRt
import Gen.do_rnc
open Py Lean
namespace Driver.D_do_rnc
def handle (fn : String) (args : List Json) : String :=
  match fn with
  | "calc_check_digit" => match args with
    | [a0] => (do let x0 ← Wire.decStr a0; pure (Wire.respondWith Wire.encStr (Gen.do_rnc.calc_check_digit x0)) : Option String).getD "badargs"
    | _ => "badargs"
  | "compact" => match args with
    | [a0] => (do let x0 ← Wire.decStr a0; pure (Wire.respondWith Wire.encStr (Gen.do_rnc.compact x0)) : Option String).getD "badargs"
    | _ => "badargs"
  | "format" => match args with
    | [a0] => (do let x0 ← Wire.decStr a0; pure (Wire.respondWith Wire.encStr (Gen.do_rnc.format x0)) : Option String).getD "badargs"
    | _ => "badargs"
  | "is_valid" => match args with
    | [a0] => (do let x0 ← Wire.decStr a0; pure (Wire.respondWith Wire.encBool (Gen.do_rnc.is_valid x0)) : Option String).getD "badargs"
    | _ => "badargs"
  | "validate" => match args with
    | [a0] => (do let x0 ← Wire.decStr a0; pure (Wire.respondWith Wire.encStr (Gen.do_rnc.validate x0)) : Option String).getD "badargs"
    | _ => "badargs"
  | _ => "nofunc"
end Driver.D_do_rnc
