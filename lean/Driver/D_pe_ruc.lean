import PyRt
import Gen.pe_ruc
open Py Lean
namespace Driver.D_pe_ruc
def handle (fn : String) (args : List Json) : String :=
  match fn with
  | "calc_check_digit" => match args with
    | [a0] => (do let x0 ← Wire.decStr a0; pure (Wire.respondWith Wire.encStr (Gen.pe_ruc.calc_check_digit x0)) : Option String).getD "badargs"
    | _ => "badargs"
  | "compact" => match args with
    | [a0] => (do let x0 ← Wire.decStr a0; pure (Wire.respondWith Wire.encStr (Gen.pe_ruc.compact x0)) : Option String).getD "badargs"
    | _ => "badargs"
  | "is_valid" => match args with
    | [a0] => (do let x0 ← Wire.decStr a0; pure (Wire.respondWith Wire.encBool (Gen.pe_ruc.is_valid x0)) : Option String).getD "badargs"
    | _ => "badargs"
  | "to_dni" => match args with
    | [a0] => (do let x0 ← Wire.decStr a0; pure (Wire.respondWith Wire.encStr (Gen.pe_ruc.to_dni x0)) : Option String).getD "badargs"
    | _ => "badargs"
  | "validate" => match args with
    | [a0] => (do let x0 ← Wire.decStr a0; pure (Wire.respondWith Wire.encStr (Gen.pe_ruc.validate x0)) : Option String).getD "badargs"
    | _ => "badargs"
  | _ => "nofunc"
end Driver.D_pe_ruc
