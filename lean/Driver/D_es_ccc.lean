import PyRt
import Gen.es_ccc
open Py Lean
namespace Driver.D_es_ccc
def handle (fn : String) (args : List Json) : String :=
  match fn with
  | "_calc_check_digit" => match args with
    | [a0] => (do let x0 ← Wire.decStr a0; pure (Wire.respondWith Wire.encStr (Gen.es_ccc._calc_check_digit x0)) : Option String).getD "badargs"
    | _ => "badargs"
  | "calc_check_digits" => match args with
    | [a0] => (do let x0 ← Wire.decStr a0; pure (Wire.respondWith Wire.encStr (Gen.es_ccc.calc_check_digits x0)) : Option String).getD "badargs"
    | _ => "badargs"
  | "compact" => match args with
    | [a0] => (do let x0 ← Wire.decStr a0; pure (Wire.respondWith Wire.encStr (Gen.es_ccc.compact x0)) : Option String).getD "badargs"
    | _ => "badargs"
  | "format" => match args with
    | [a0] => (do let x0 ← Wire.decStr a0; pure (Wire.respondWith Wire.encStr (Gen.es_ccc.format x0)) : Option String).getD "badargs"
    | _ => "badargs"
  | "is_valid" => match args with
    | [a0] => (do let x0 ← Wire.decStr a0; pure (Wire.respondWith Wire.encBool (Gen.es_ccc.is_valid x0)) : Option String).getD "badargs"
    | _ => "badargs"
  | "to_iban" => match args with
    | [a0] => (do let x0 ← Wire.decStr a0; pure (Wire.respondWith Wire.encStr (Gen.es_ccc.to_iban x0)) : Option String).getD "badargs"
    | _ => "badargs"
  | "validate" => match args with
    | [a0] => (do let x0 ← Wire.decStr a0; pure (Wire.respondWith Wire.encStr (Gen.es_ccc.validate x0)) : Option String).getD "badargs"
    | _ => "badargs"
  | _ => "nofunc"
end Driver.D_es_ccc
