import PyRt
import Gen.ismn
open Py Lean
namespace Driver.D_ismn
def handle (fn : String) (args : List Json) : String :=
  match fn with
  | "compact" => match args with
    | [a0] => (do let x0 ← Wire.decStr a0; pure (Wire.respondWith Wire.encStr (Gen.ismn.compact x0)) : Option String).getD "badargs"
    | _ => "badargs"
  | "format" => match args with
    | [a0, a1] => (do let x0 ← Wire.decStr a0; let x1 ← Wire.decStr a1; pure (Wire.respondWith Wire.encStr (Gen.ismn.format x0 x1)) : Option String).getD "badargs"
    | _ => "badargs"
  | "is_valid" => match args with
    | [a0] => (do let x0 ← Wire.decStr a0; pure (Wire.respondWith Wire.encBool (Gen.ismn.is_valid x0)) : Option String).getD "badargs"
    | _ => "badargs"
  | "ismn_type" => match args with
    | [a0] => (do let x0 ← Wire.decStr a0; pure (Wire.respondWith (Wire.encOpt Wire.encStr) (Gen.ismn.ismn_type x0)) : Option String).getD "badargs"
    | _ => "badargs"
  | "to_ismn13" => match args with
    | [a0] => (do let x0 ← Wire.decStr a0; pure (Wire.respondWith Wire.encStr (Gen.ismn.to_ismn13 x0)) : Option String).getD "badargs"
    | _ => "badargs"
  | "validate" => match args with
    | [a0] => (do let x0 ← Wire.decStr a0; pure (Wire.respondWith Wire.encStr (Gen.ismn.validate x0)) : Option String).getD "badargs"
    | _ => "badargs"
  | _ => "nofunc"
end Driver.D_ismn
