import PyRt
import Gen.bg_egn
open Py Lean
namespace Driver.D_bg_egn
def handle (fn : String) (args : List Json) : String :=
  match fn with
  | "calc_check_digit" => match args with
    | [a0] => (do let x0 ← Wire.decStr a0; pure (Wire.respondWith Wire.encStr (Gen.bg_egn.calc_check_digit x0)) : Option String).getD "badargs"
    | _ => "badargs"
  | "compact" => match args with
    | [a0] => (do let x0 ← Wire.decStr a0; pure (Wire.respondWith Wire.encStr (Gen.bg_egn.compact x0)) : Option String).getD "badargs"
    | _ => "badargs"
  | "get_birth_date" => match args with
    | [a0] => (do let x0 ← Wire.decStr a0; pure (Wire.respondWith Wire.encDate (Gen.bg_egn.get_birth_date x0)) : Option String).getD "badargs"
    | _ => "badargs"
  | "is_valid" => match args with
    | [a0] => (do let x0 ← Wire.decStr a0; pure (Wire.respondWith Wire.encBool (Gen.bg_egn.is_valid x0)) : Option String).getD "badargs"
    | _ => "badargs"
  | "validate" => match args with
    | [a0] => (do let x0 ← Wire.decStr a0; pure (Wire.respondWith Wire.encStr (Gen.bg_egn.validate x0)) : Option String).getD "badargs"
    | _ => "badargs"
  | _ => "nofunc"
end Driver.D_bg_egn
