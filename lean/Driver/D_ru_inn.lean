import PyRt
import Gen.ru_inn
open Py Lean
namespace Driver.D_ru_inn
def handle (fn : String) (args : List Json) : String :=
  match fn with
  | "calc_company_check_digit" => match args with
    | [a0] => (do let x0 ← Wire.decStr a0; pure (Wire.respondWith Wire.encStr (Gen.ru_inn.calc_company_check_digit x0)) : Option String).getD "badargs"
    | _ => "badargs"
  | "calc_personal_check_digits" => match args with
    | [a0] => (do let x0 ← Wire.decStr a0; pure (Wire.respondWith Wire.encStr (Gen.ru_inn.calc_personal_check_digits x0)) : Option String).getD "badargs"
    | _ => "badargs"
  | "compact" => match args with
    | [a0] => (do let x0 ← Wire.decStr a0; pure (Wire.respondWith Wire.encStr (Gen.ru_inn.compact x0)) : Option String).getD "badargs"
    | _ => "badargs"
  | "is_valid" => match args with
    | [a0] => (do let x0 ← Wire.decStr a0; pure (Wire.respondWith Wire.encBool (Gen.ru_inn.is_valid x0)) : Option String).getD "badargs"
    | _ => "badargs"
  | "validate" => match args with
    | [a0] => (do let x0 ← Wire.decStr a0; pure (Wire.respondWith Wire.encStr (Gen.ru_inn.validate x0)) : Option String).getD "badargs"
    | _ => "badargs"
  | _ => "nofunc"
end Driver.D_ru_inn
