import PyRt
import Gen.imei
open Py Lean
namespace Driver.D_imei
def handle (fn : String) (args : List Json) : String :=
  match fn with
  | "compact" => match args with
    | [a0] => (do let x0 ← Wire.decStr a0; pure (Wire.respondWith Wire.encStr (Gen.imei.compact x0)) : Option String).getD "badargs"
    | _ => "badargs"
  | "format" => match args with
    | [a0, a1, a2] => (do let x0 ← Wire.decStr a0; let x1 ← Wire.decStr a1; let x2 ← Wire.decBool a2; pure (Wire.respondWith Wire.encStr (Gen.imei.format x0 x1 x2)) : Option String).getD "badargs"
    | _ => "badargs"
  | "imei_type" => match args with
    | [a0] => (do let x0 ← Wire.decStr a0; pure (Wire.respondWith (Wire.encOpt Wire.encStr) (Gen.imei.imei_type x0)) : Option String).getD "badargs"
    | _ => "badargs"
  | "is_valid" => match args with
    | [a0] => (do let x0 ← Wire.decStr a0; pure (Wire.respondWith Wire.encBool (Gen.imei.is_valid x0)) : Option String).getD "badargs"
    | _ => "badargs"
  | "split" => match args with
    | [a0] => (do let x0 ← Wire.decStr a0; pure (Wire.respondWith (Wire.encT3 Wire.encStr Wire.encStr Wire.encStr) (Gen.imei.split x0)) : Option String).getD "badargs"
    | _ => "badargs"
  | "validate" => match args with
    | [a0] => (do let x0 ← Wire.decStr a0; pure (Wire.respondWith Wire.encStr (Gen.imei.validate x0)) : Option String).getD "badargs"
    | _ => "badargs"
  | _ => "nofunc"
end Driver.D_imei
