import PyRt
import Gen.ua_rntrc
open Py Lean
namespace Driver.D_ua_rntrc
def handle (fn : String) (args : List Json) : String :=
  match fn with
  | "calc_check_digit" => match args with
    | [a0] => (do let x0 ← Wire.decStr a0; pure (Wire.respondWith Wire.encStr (Gen.ua_rntrc.calc_check_digit x0)) : Option String).getD "badargs"
    | _ => "badargs"
  | "compact" => match args with
    | [a0] => (do let x0 ← Wire.decStr a0; pure (Wire.respondWith Wire.encStr (Gen.ua_rntrc.compact x0)) : Option String).getD "badargs"
    | _ => "badargs"
  | "format" => match args with
    | [a0] => (do let x0 ← Wire.decStr a0; pure (Wire.respondWith Wire.encStr (Gen.ua_rntrc.format x0)) : Option String).getD "badargs"
    | _ => "badargs"
  | "is_valid" => match args with
    | [a0] => (do let x0 ← Wire.decStr a0; pure (Wire.respondWith Wire.encBool (Gen.ua_rntrc.is_valid x0)) : Option String).getD "badargs"
    | _ => "badargs"
  | "validate" => match args with
    | [a0] => (do let x0 ← Wire.decStr a0; pure (Wire.respondWith Wire.encStr (Gen.ua_rntrc.validate x0)) : Option String).getD "badargs"
    | _ => "badargs"
  | _ => "nofunc"
end Driver.D_ua_rntrc
