import PyRt
import Gen.eu_at_02
open Py Lean
namespace Driver.D_eu_at_02
def handle (fn : String) (args : List Json) : String :=
  match fn with
  | "_to_base10" => match args with
    | [a0] => (do let x0 ← Wire.decStr a0; pure (Wire.respondWith Wire.encStr (Gen.eu_at_02._to_base10 x0)) : Option String).getD "badargs"
    | _ => "badargs"
  | "calc_check_digits" => match args with
    | [a0] => (do let x0 ← Wire.decStr a0; pure (Wire.respondWith Wire.encStr (Gen.eu_at_02.calc_check_digits x0)) : Option String).getD "badargs"
    | _ => "badargs"
  | "compact" => match args with
    | [a0] => (do let x0 ← Wire.decStr a0; pure (Wire.respondWith Wire.encStr (Gen.eu_at_02.compact x0)) : Option String).getD "badargs"
    | _ => "badargs"
  | "is_valid" => match args with
    | [a0] => (do let x0 ← Wire.decStr a0; pure (Wire.respondWith Wire.encBool (Gen.eu_at_02.is_valid x0)) : Option String).getD "badargs"
    | _ => "badargs"
  | "validate" => match args with
    | [a0] => (do let x0 ← Wire.decStr a0; pure (Wire.respondWith Wire.encStr (Gen.eu_at_02.validate x0)) : Option String).getD "badargs"
    | _ => "badargs"
  | _ => "nofunc"
end Driver.D_eu_at_02
