import PyRt
import Gen.tn_mf
open Py Lean
namespace Driver.D_tn_mf
def handle (fn : String) (args : List Json) : String :=
  match fn with
  | "compact" => match args with
    | [a0] => (do let x0 ← Wire.decStr a0; pure (Wire.respondWith Wire.encStr (Gen.tn_mf.compact x0)) : Option String).getD "badargs"
    | _ => "badargs"
  | "format" => match args with
    | [a0] => (do let x0 ← Wire.decStr a0; pure (Wire.respondWith Wire.encStr (Gen.tn_mf.format x0)) : Option String).getD "badargs"
    | _ => "badargs"
  | "is_valid" => match args with
    | [a0] => (do let x0 ← Wire.decStr a0; pure (Wire.respondWith Wire.encBool (Gen.tn_mf.is_valid x0)) : Option String).getD "badargs"
    | _ => "badargs"
  | "validate" => match args with
    | [a0] => (do let x0 ← Wire.decStr a0; pure (Wire.respondWith Wire.encStr (Gen.tn_mf.validate x0)) : Option String).getD "badargs"
    | _ => "badargs"
  | _ => "nofunc"
end Driver.D_tn_mf
