import PyRt
import Gen.hr_oib
open Py Lean
namespace Driver.D_hr_oib
def handle (fn : String) (args : List Json) : String :=
  match fn with
  | "compact" => match args with
    | [a0] => (do let x0 ← Wire.decStr a0; pure (Wire.respondWith Wire.encStr (Gen.hr_oib.compact x0)) : Option String).getD "badargs"
    | _ => "badargs"
  | "is_valid" => match args with
    | [a0] => (do let x0 ← Wire.decStr a0; pure (Wire.respondWith Wire.encBool (Gen.hr_oib.is_valid x0)) : Option String).getD "badargs"
    | _ => "badargs"
  | "validate" => match args with
    | [a0] => (do let x0 ← Wire.decStr a0; pure (Wire.respondWith Wire.encStr (Gen.hr_oib.validate x0)) : Option String).getD "badargs"
    | _ => "badargs"
  | _ => "nofunc"
end Driver.D_hr_oib
