import PyRt
import Gen.iso11649
open Py Lean
namespace Driver.D_iso11649
def handle (fn : String) (args : List Json) : String :=
  match fn with
  | "compact" => match args with
    | [a0] => (do let x0 ← Wire.decStr a0; pure (Wire.respondWith Wire.encStr (Gen.iso11649.compact x0)) : Option String).getD "badargs"
    | _ => "badargs"
  | "format" => match args with
    | [a0] => (do let x0 ← Wire.decStr a0; pure (Wire.respondWith Wire.encStr (Gen.iso11649.format x0)) : Option String).getD "badargs"
    | _ => "badargs"
  | "is_valid" => match args with
    | [a0] => (do let x0 ← Wire.decStr a0; pure (Wire.respondWith Wire.encBool (Gen.iso11649.is_valid x0)) : Option String).getD "badargs"
    | _ => "badargs"
  | "validate" => match args with
    | [a0] => (do let x0 ← Wire.decStr a0; pure (Wire.respondWith Wire.encStr (Gen.iso11649.validate x0)) : Option String).getD "badargs"
    | _ => "badargs"
  | _ => "nofunc"
end Driver.D_iso11649
