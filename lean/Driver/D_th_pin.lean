import PyRt
import Gen.th_pin
open Py Lean
namespace Driver.D_th_pin
def handle (fn : String) (args : List Json) : String :=
  match fn with
  | "calc_check_digit" => match args with
    | [a0] => (do let x0 ← Wire.decStr a0; pure (Wire.respondWith Wire.encStr (Gen.th_pin.calc_check_digit x0)) : Option String).getD "badargs"
    | _ => "badargs"
  | "compact" => match args with
    | [a0] => (do let x0 ← Wire.decStr a0; pure (Wire.respondWith Wire.encStr (Gen.th_pin.compact x0)) : Option String).getD "badargs"
    | _ => "badargs"
  | "format" => match args with
    | [a0] => (do let x0 ← Wire.decStr a0; pure (Wire.respondWith Wire.encStr (Gen.th_pin.format x0)) : Option String).getD "badargs"
    | _ => "badargs"
  | "is_valid" => match args with
    | [a0] => (do let x0 ← Wire.decStr a0; pure (Wire.respondWith Wire.encBool (Gen.th_pin.is_valid x0)) : Option String).getD "badargs"
    | _ => "badargs"
  | "validate" => match args with
    | [a0] => (do let x0 ← Wire.decStr a0; pure (Wire.respondWith Wire.encStr (Gen.th_pin.validate x0)) : Option String).getD "badargs"
    | _ => "badargs"
  | _ => "nofunc"
end Driver.D_th_pin
