import PyRt
import Gen.dk_cpr
open Py Lean
namespace Driver.D_dk_cpr
def handle (fn : String) (args : List Json) : String :=
  match fn with
  | "checksum" => match args with
    | [a0] => (do let x0 ← Wire.decStr a0; pure (Wire.respondWith Wire.encInt (Gen.dk_cpr.checksum x0)) : Option String).getD "badargs"
    | _ => "badargs"
  | "compact" => match args with
    | [a0] => (do let x0 ← Wire.decStr a0; pure (Wire.respondWith Wire.encStr (Gen.dk_cpr.compact x0)) : Option String).getD "badargs"
    | _ => "badargs"
  | "format" => match args with
    | [a0] => (do let x0 ← Wire.decStr a0; pure (Wire.respondWith Wire.encStr (Gen.dk_cpr.format x0)) : Option String).getD "badargs"
    | _ => "badargs"
  | "get_birth_date" => match args with
    | [a0] => (do let x0 ← Wire.decStr a0; pure (Wire.respondWith Wire.encDate (Gen.dk_cpr.get_birth_date x0)) : Option String).getD "badargs"
    | _ => "badargs"
  | "is_valid" => match args with
    | [t, a0] => (do let today__ ← Wire.decDate t; let x0 ← Wire.decStr a0; pure (Wire.respondWith Wire.encBool (Gen.dk_cpr.is_valid today__ x0)) : Option String).getD "badargs"
    | _ => "badargs"
  | "validate" => match args with
    | [t, a0] => (do let today__ ← Wire.decDate t; let x0 ← Wire.decStr a0; pure (Wire.respondWith Wire.encStr (Gen.dk_cpr.validate today__ x0)) : Option String).getD "badargs"
    | _ => "badargs"
  | _ => "nofunc"
end Driver.D_dk_cpr
