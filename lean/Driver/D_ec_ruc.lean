import PyRt
import Gen.ec_ruc
open Py Lean
namespace Driver.D_ec_ruc
def handle (fn : String) (args : List Json) : String :=
  match fn with
  | "_checksum" => match args with
    | [a0, a1] => (do let x0 ← Wire.decStr a0; let x1 ← (Wire.decList Wire.decInt) a1; pure (Wire.respondWith Wire.encInt (Gen.ec_ruc._checksum x0 x1)) : Option String).getD "badargs"
    | _ => "badargs"
  | "_validate_juridical" => match args with
    | [a0] => (do let x0 ← Wire.decStr a0; pure (Wire.respondWith Wire.encStr (Gen.ec_ruc._validate_juridical x0)) : Option String).getD "badargs"
    | _ => "badargs"
  | "_validate_natural" => match args with
    | [a0] => (do let x0 ← Wire.decStr a0; pure (Wire.respondWith Wire.encStr (Gen.ec_ruc._validate_natural x0)) : Option String).getD "badargs"
    | _ => "badargs"
  | "_validate_public" => match args with
    | [a0] => (do let x0 ← Wire.decStr a0; pure (Wire.respondWith Wire.encStr (Gen.ec_ruc._validate_public x0)) : Option String).getD "badargs"
    | _ => "badargs"
  | "is_valid" => match args with
    | [a0] => (do let x0 ← Wire.decStr a0; pure (Wire.respondWith Wire.encBool (Gen.ec_ruc.is_valid x0)) : Option String).getD "badargs"
    | _ => "badargs"
  | "validate" => match args with
    | [a0] => (do let x0 ← Wire.decStr a0; pure (Wire.respondWith Wire.encStr (Gen.ec_ruc.validate x0)) : Option String).getD "badargs"
    | _ => "badargs"
  | _ => "nofunc"
end Driver.D_ec_ruc
