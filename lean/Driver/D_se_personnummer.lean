import PyRt
import Gen.se_personnummer
open Py Lean
namespace Driver.D_se_personnummer
def handle (fn : String) (args : List Json) : String :=
  match fn with
  | "compact" => match args with
    | [a0] => (do let x0 ← Wire.decStr a0; pure (Wire.respondWith Wire.encStr (Gen.se_personnummer.compact x0)) : Option String).getD "badargs"
    | _ => "badargs"
  | "format" => match args with
    | [a0] => (do let x0 ← Wire.decStr a0; pure (Wire.respondWith Wire.encStr (Gen.se_personnummer.format x0)) : Option String).getD "badargs"
    | _ => "badargs"
  | "get_birth_date" => match args with
    | [t, a0] => (do let today__ ← Wire.decDate t; let x0 ← Wire.decStr a0; pure (Wire.respondWith Wire.encDate (Gen.se_personnummer.get_birth_date today__ x0)) : Option String).getD "badargs"
    | _ => "badargs"
  | "get_gender" => match args with
    | [a0] => (do let x0 ← Wire.decStr a0; pure (Wire.respondWith Wire.encStr (Gen.se_personnummer.get_gender x0)) : Option String).getD "badargs"
    | _ => "badargs"
  | "is_valid" => match args with
    | [t, a0] => (do let today__ ← Wire.decDate t; let x0 ← Wire.decStr a0; pure (Wire.respondWith Wire.encBool (Gen.se_personnummer.is_valid today__ x0)) : Option String).getD "badargs"
    | _ => "badargs"
  | "validate" => match args with
    | [t, a0] => (do let today__ ← Wire.decDate t; let x0 ← Wire.decStr a0; pure (Wire.respondWith Wire.encStr (Gen.se_personnummer.validate today__ x0)) : Option String).getD "badargs"
    | _ => "badargs"
  | _ => "nofunc"
end Driver.D_se_personnummer
