import PyRt
import Gen.sk_dph
open Py Lean
namespace Driver.D_sk_dph
def handle (fn : String) (args : List Json) : String :=
  match fn with
  | "checksum" => match args with
    | [a0] => (do let x0 ← Wire.decStr a0; pure (Wire.respondWith Wire.encInt (Gen.sk_dph.checksum x0)) : Option String).getD "badargs"
    | _ => "badargs"
  | "compact" => match args with
    | [a0] => (do let x0 ← Wire.decStr a0; pure (Wire.respondWith Wire.encStr (Gen.sk_dph.compact x0)) : Option String).getD "badargs"
    | _ => "badargs"
  | "is_valid" => match args with
    | [a0] => (do let x0 ← Wire.decStr a0; pure (Wire.respondWith Wire.encBool (Gen.sk_dph.is_valid x0)) : Option String).getD "badargs"
    | _ => "badargs"
  | "validate" => match args with
    | [a0] => (do let x0 ← Wire.decStr a0; pure (Wire.respondWith Wire.encStr (Gen.sk_dph.validate x0)) : Option String).getD "badargs"
    | _ => "badargs"
  | _ => "nofunc"
end Driver.D_sk_dph
