import PyRt
import Gen.iso6346
open Py Lean
namespace Driver.D_iso6346
def handle (fn : String) (args : List Json) : String :=
  match fn with
  | "calc_check_digit" => match args with
    | [a0] => (do let x0 ← Wire.decStr a0; pure (Wire.respondWith Wire.encStr (Gen.iso6346.calc_check_digit x0)) : Option String).getD "badargs"
    | _ => "badargs"
  | "compact" => match args with
    | [a0] => (do let x0 ← Wire.decStr a0; pure (Wire.respondWith Wire.encStr (Gen.iso6346.compact x0)) : Option String).getD "badargs"
    | _ => "badargs"
  | "format" => match args with
    | [a0] => (do let x0 ← Wire.decStr a0; pure (Wire.respondWith Wire.encStr (Gen.iso6346.format x0)) : Option String).getD "badargs"
    | _ => "badargs"
  | "is_valid" => match args with
    | [a0] => (do let x0 ← Wire.decStr a0; pure (Wire.respondWith Wire.encBool (Gen.iso6346.is_valid x0)) : Option String).getD "badargs"
    | _ => "badargs"
  | "validate" => match args with
    | [a0] => (do let x0 ← Wire.decStr a0; pure (Wire.respondWith Wire.encStr (Gen.iso6346.validate x0)) : Option String).getD "badargs"
    | _ => "badargs"
  | _ => "nofunc"
end Driver.D_iso6346
