import PyRt
import Gen.iso6346
open Py Lean
namespace Driver.D_iso6346
def handle (fn : String) (args : List Json) : String :=
  match fn with
  | "compact" => match args with
    | [a0] => (do let x0 ← Wire.decStr a0; pure (Wire.respondWith Wire.encStr (Gen.iso6346.compact x0)) : Option String).getD "badargs"
    | _ => "badargs"
  | "format" => match args with
    | [a0] => (do let x0 ← Wire.decStr a0; pure (Wire.respondWith Wire.encStr (Gen.iso6346.format x0)) : Option String).getD "badargs"
    | _ => "badargs"
  | _ => "nofunc"
end Driver.D_iso6346
