import PyRt
import Gen.hu_anum
open Py Lean
namespace Driver.D_hu_anum
def handle (fn : String) (args : List Json) : String :=
  match fn with
  | "checksum" => match args with
    | [a0] => (do let x0 ← Wire.decStr a0; pure (Wire.respondWith Wire.encInt (Gen.hu_anum.checksum x0)) : Option String).getD "badargs"
    | _ => "badargs"
  | "compact" => match args with
    | [a0] => (do let x0 ← Wire.decStr a0; pure (Wire.respondWith Wire.encStr (Gen.hu_anum.compact x0)) : Option String).getD "badargs"
    | _ => "badargs"
  | "is_valid" => match args with
    | [a0] => (do let x0 ← Wire.decStr a0; pure (Wire.respondWith Wire.encBool (Gen.hu_anum.is_valid x0)) : Option String).getD "badargs"
    | _ => "badargs"
  | "validate" => match args with
    | [a0] => (do let x0 ← Wire.decStr a0; pure (Wire.respondWith Wire.encStr (Gen.hu_anum.validate x0)) : Option String).getD "badargs"
    | _ => "badargs"
  | _ => "nofunc"
end Driver.D_hu_anum
