import PyRt
import Gen.ro_cf
open Py Lean
namespace Driver.D_ro_cf
def handle (fn : String) (args : List Json) : String :=
  match fn with
  | "compact" => match args with
    | [a0] => (do let x0 ← Wire.decStr a0; pure (Wire.respondWith Wire.encStr (Gen.ro_cf.compact x0)) : Option String).getD "badargs"
    | _ => "badargs"
  | "is_valid" => match args with
    | [a0] => (do let x0 ← Wire.decStr a0; pure (Wire.respondWith Wire.encBool (Gen.ro_cf.is_valid x0)) : Option String).getD "badargs"
    | _ => "badargs"
  | "validate" => match args with
    | [a0] => (do let x0 ← Wire.decStr a0; pure (Wire.respondWith Wire.encStr (Gen.ro_cf.validate x0)) : Option String).getD "badargs"
    | _ => "badargs"
  | _ => "nofunc"
end Driver.D_ro_cf
