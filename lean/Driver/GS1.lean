import Lean.Data.Json
import PyRt.Wire
import Spec.GS1
import Spec.GS1Data
import Driver.NumDB
/-!
# Driver.GS1 — wire handler for the `Spec.GS1` model

Targets (arguments in the `PyRt.Wire` encoding; `oracle` may be omitted):

* `gs1.info`          `[number, separator, oracle]`               → the mapping `{"d":[[ai, value], …]}`
* `gs1.encode`        `[mapping, separator, parentheses, oracle]` → the element string
* `gs1.validate`      `[number, separator, oracle]`               → the element string
* `gs1.is_valid`      `[number, separator, oracle]`               → bool
* `gs1.max_length`    `[fmt, type]`                               → int
* `gs1.pad_value`     `[fmt, type, text]`                         → str
* `gs1.encode_value`  `[fmt, type, value]`                        → str
* `gs1.decode_value`  `[fmt, type, text]`                         → value
* `gs1.table_dump`    `[]`                                        → the generated registry, as `numdb.read_dump`
* `gs1.decimal`       `[text]`                                    → `Decimal(text)` as a value

Values: `{"s":[…]}` str, number int, `{"dec":{"s":[…]}}` Decimal (its `str()`), `{"date":[y,m,d]}`,
`{"dt":[y,m,d,H,M,S]}`, `{"t":[a,b]}` 2-tuple, `{"d":[[k,v],…]}` dict.

`oracle` = `{"d":[[text, "ok" | <error class>], …]}`: the verdicts of `stdnum.iban.validate` (not modelled) on
the strings the real run passed to it.  If the model's answer depends on a verdict that the oracle does
not contain the response is `oracle-miss`.  `unmodelled` = `str()` of a tuple would be needed.
Answers: `ok <json>` | `err <Class>` | `unmodelled` | `oracle-miss` | `badargs`; unknown target: `none`.
-/
open Lean (Json)
namespace Driver.GS1
open Py.Wire Spec.GS1

/-! ## values on the wire -/

def valToWire : GsVal → Json
  | .str s => strToWire s
  | .int i => encInt i
  | .dec d => Json.mkObj [("dec", strToWire d.toStr)]
  | .date d => Json.mkObj [("date", Json.arr #[encInt d.year, encInt d.month, encInt d.day])]
  | .datetime d h mi s =>
    Json.mkObj [("dt", Json.arr #[encInt d.year, encInt d.month, encInt d.day, encInt h, encInt mi, encInt s])]
  | .tuple a b => tup [valToWire a, valToWire b]

def validDate (y m d : Int) : Bool :=
  decide (1 ≤ y) && decide (y ≤ 9999) && decide (1 ≤ m) && decide (m ≤ 12) && decide (1 ≤ d)
    && decide (d ≤ Py.daysInMonth y m)

/-- decoder with a nesting bound (tuples inside tuples) -/
def valOfJsonAux : Nat → Json → Option GsVal
  | 0, _ => none
  | fuel + 1, j =>
  match j with
  | .num _ => (intOfJson j).map GsVal.int
  | _ =>
    match strOfJson j with
    | some s => some (.str s)
    | none =>
      match j.getObjVal? "dec" with
      | .ok dj =>
        match strOfJson dj with
        | some s => match Dec.ofStr s with
          | .ok d => if d.toStr = s then some (.dec d) else none
          | .error _ => none
        | none => none
      | .error _ =>
        match j.getObjVal? "date" with
        | .ok (.arr #[y, m, d]) => do
          let y ← intOfJson y; let m ← intOfJson m; let d ← intOfJson d
          if validDate y m d then pure (.date ⟨y, m, d⟩) else none
        | _ =>
          match j.getObjVal? "dt" with
          | .ok (.arr #[y, m, d, h, mi, s]) => do
            let y ← intOfJson y; let m ← intOfJson m; let d ← intOfJson d
            let h ← intOfJson h; let mi ← intOfJson mi; let s ← intOfJson s
            if validDate y m d && decide (0 ≤ h) && decide (h ≤ 23) && decide (0 ≤ mi) && decide (mi ≤ 59)
                && decide (0 ≤ s) && decide (s ≤ 59) then pure (.datetime ⟨y, m, d⟩ h mi s) else none
          | _ =>
            match untup j with
            | some [a, b] => do pure (.tuple (← valOfJsonAux fuel a) (← valOfJsonAux fuel b))
            | _ => none

def valOfJson (j : Json) : Option GsVal := valOfJsonAux 16 j

def dictToWire (d : Dict) : Json :=
  Json.mkObj [("d", Json.arr (d.toArray.map fun kv => Json.arr #[strToWire kv.1, valToWire kv.2]))]

def dictOfJson (j : Json) : Option Dict :=
  match j.getObjVal? "d" with
  | .ok (.arr a) => a.toList.mapM (fun p => match p with
      | .arr #[k, v] => do pure ((← strOfJson k), (← valOfJson v))
      | _ => none)
  | _ => none

/-! ## the IBAN oracle -/

def excOfName (n : String) : Option (Py.R Unit) :=
  match n with
  | "ok" => some (.ok ())
  | "InvalidFormat" => some (.error .invalidFormat)
  | "InvalidLength" => some (.error .invalidLength)
  | "InvalidChecksum" => some (.error .invalidChecksum)
  | "InvalidComponent" => some (.error .invalidComponent)
  | "ValidationError" => some (.error .validationError)
  | "NonValidation" => some (.error .other)
  | _ => none

abbrev Oracle := List (Py.Str × Py.R Unit)

def oracleOfJson (j : Json) : Option Oracle :=
  match j.getObjVal? "d" with
  | .ok (.arr a) => a.toList.mapM (fun p => match p with
      | .arr #[k, .str v] => do pure ((← strOfJson k), (← excOfName v))
      | _ => none)
  | _ => none

def oracleFn (o : Oracle) (dflt : Py.R Unit) (s : Py.Str) : Py.R Unit :=
  match o.find? (·.1 == s) with
  | some (_, r) => r
  | none => dflt

def envWith (o : Oracle) (dflt : Py.R Unit) : Env :=
  { db := Spec.GS1.Data.db, validate := stdValidators (oracleFn o dflt) }

/-- run `f` under two different defaults for verdicts missing from the oracle; the answers must coincide -/
def withOracle (o : Oracle) (f : Env → String) : String :=
  let a := f (envWith o (.ok ()))
  let b := f (envWith o (.error .invalidChecksum))
  if a == b then a else "oracle-miss"

def optOracle (args : List Json) : Option Oracle :=
  match args with
  | [] => some []
  | [j] => oracleOfJson j
  | _ => none

/-! ## responses -/

def respondJson (r : Py.R Json) : String :=
  match r with
  | .ok v => "ok " ++ v.compress
  | .error e => "err " ++ excName e

/-- `str()` of a tuple is reached while encoding `data` -/
def encodeUnmodelled (db : List Spec.NumDB.Entry) (data : Dict) : Bool :=
  data.any fun kv =>
    match aiLookup db kv.1 with
    | .ok (_, info) =>
      match Py.dictGet? info sFormat, Py.dictGet? info sType with
      | some fmt, some typ => strTupleReached fmt typ kv.2
      | _, _ => false
    | .error _ => false

def handle (target : String) (args : List Json) : Option String :=
  match target with
  | "gs1.info" =>
    some <| match args with
    | n :: s :: rest =>
      match strOfJson n, strOfJson s, optOracle rest with
      | some n, some s, some o => withOracle o fun env => respondJson ((info env s n).map dictToWire)
      | _, _, _ => "badargs"
    | _ => "badargs"
  | "gs1.encode" =>
    some <| match args with
    | d :: s :: p :: rest =>
      match dictOfJson d, strOfJson s, decBool p, optOracle rest with
      | some d, some s, some p, some o =>
        if encodeUnmodelled Spec.GS1.Data.db d then "unmodelled"
        else withOracle o fun env => respondJson ((encode env s p d).map strToWire)
      | _, _, _, _ => "badargs"
    | _ => "badargs"
  | "gs1.validate" =>
    some <| match args with
    | n :: s :: rest =>
      match strOfJson n, strOfJson s, optOracle rest with
      | some n, some s, some o => withOracle o fun env => respondJson ((validate env s n).map strToWire)
      | _, _, _ => "badargs"
    | _ => "badargs"
  | "gs1.is_valid" =>
    some <| match args with
    | n :: s :: rest =>
      match strOfJson n, strOfJson s, optOracle rest with
      | some n, some s, some o => withOracle o fun env => respondJson ((isValid env s n).map Json.bool)
      | _, _, _ => "badargs"
    | _ => "badargs"
  | "gs1.max_length" =>
    some <| match args with
    | [f, t] =>
      match strOfJson f, strOfJson t with
      | some f, some t => respondJson ((maxLength f t).map encInt)
      | _, _ => "badargs"
    | _ => "badargs"
  | "gs1.pad_value" =>
    some <| match args with
    | [f, t, v] =>
      match strOfJson f, strOfJson t, strOfJson v with
      | some f, some t, some v => respondJson ((padValue f t v).map strToWire)
      | _, _, _ => "badargs"
    | _ => "badargs"
  | "gs1.encode_value" =>
    some <| match args with
    | [f, t, v] =>
      match strOfJson f, strOfJson t, valOfJson v with
      | some f, some t, some v =>
        if strTupleReached f t v then "unmodelled" else respondJson ((encodeValue f t v).map strToWire)
      | _, _, _ => "badargs"
    | _ => "badargs"
  | "gs1.decode_value" =>
    some <| match args with
    | [f, t, v] =>
      match strOfJson f, strOfJson t, strOfJson v with
      | some f, some t, some v => respondJson ((decodeValue f t v).map valToWire)
      | _, _, _ => "badargs"
    | _ => "badargs"
  | "gs1.decimal" =>
    some <| match args with
    | [v] =>
      match strOfJson v with
      | some v => respondJson ((Dec.ofStr v).map fun d => valToWire (.dec d))
      | none => "badargs"
    | _ => "badargs"
  | "gs1.table_dump" => some (respondJson (.ok (Driver.NumDB.dumpToWire Spec.GS1.Data.db)))
  | _ => none

end Driver.GS1
