import PyRt
import Gen.ca_bn
open Py Lean
namespace Driver.D_ca_bn
def handle (fn : String) (args : List Json) : String :=
  match fn with
  | "compact" => match args with
    | [a0] => (do let x0 ← Wire.decStr a0; pure (Wire.respondWith Wire.encStr (Gen.ca_bn.compact x0)) : Option String).getD "badargs"
    | _ => "badargs"
  | "is_valid" => match args with
    | [a0] => (do let x0 ← Wire.decStr a0; pure (Wire.respondWith Wire.encBool (Gen.ca_bn.is_valid x0)) : Option String).getD "badargs"
    | _ => "badargs"
  | "validate" => match args with
    | [a0] => (do let x0 ← Wire.decStr a0; pure (Wire.respondWith Wire.encStr (Gen.ca_bn.validate x0)) : Option String).getD "badargs"
    | _ => "badargs"
  | _ => "nofunc"
end Driver.D_ca_bn
