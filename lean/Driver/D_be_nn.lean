import PyRt
import Gen.be_nn
open Py Lean
namespace Driver.D_be_nn
def handle (fn : String) (args : List Json) : String :=
  match fn with
  | "_checksum" => match args with
    | [t, a0] => (do let today__ ← Wire.decDate t; let x0 ← Wire.decStr a0; pure (Wire.respondWith Wire.encInt (Gen.be_nn._checksum today__ x0)) : Option String).getD "badargs"
    | _ => "badargs"
  | "_get_birth_date_parts" => match args with
    | [t, a0] => (do let today__ ← Wire.decDate t; let x0 ← Wire.decStr a0; pure (Wire.respondWith (Wire.encT3 (Wire.encOpt Wire.encInt) (Wire.encOpt Wire.encInt) (Wire.encOpt Wire.encInt)) (Gen.be_nn._get_birth_date_parts today__ x0)) : Option String).getD "badargs"
    | _ => "badargs"
  | "compact" => match args with
    | [a0] => (do let x0 ← Wire.decStr a0; pure (Wire.respondWith Wire.encStr (Gen.be_nn.compact x0)) : Option String).getD "badargs"
    | _ => "badargs"
  | "format" => match args with
    | [a0] => (do let x0 ← Wire.decStr a0; pure (Wire.respondWith Wire.encStr (Gen.be_nn.format x0)) : Option String).getD "badargs"
    | _ => "badargs"
  | "get_birth_date" => match args with
    | [t, a0] => (do let today__ ← Wire.decDate t; let x0 ← Wire.decStr a0; pure (Wire.respondWith (Wire.encOpt Wire.encDate) (Gen.be_nn.get_birth_date today__ x0)) : Option String).getD "badargs"
    | _ => "badargs"
  | "get_birth_month" => match args with
    | [t, a0] => (do let today__ ← Wire.decDate t; let x0 ← Wire.decStr a0; pure (Wire.respondWith (Wire.encOpt Wire.encInt) (Gen.be_nn.get_birth_month today__ x0)) : Option String).getD "badargs"
    | _ => "badargs"
  | "get_birth_year" => match args with
    | [t, a0] => (do let today__ ← Wire.decDate t; let x0 ← Wire.decStr a0; pure (Wire.respondWith (Wire.encOpt Wire.encInt) (Gen.be_nn.get_birth_year today__ x0)) : Option String).getD "badargs"
    | _ => "badargs"
  | "get_gender" => match args with
    | [a0] => (do let x0 ← Wire.decStr a0; pure (Wire.respondWith Wire.encStr (Gen.be_nn.get_gender x0)) : Option String).getD "badargs"
    | _ => "badargs"
  | "is_valid" => match args with
    | [t, a0] => (do let today__ ← Wire.decDate t; let x0 ← Wire.decStr a0; pure (Wire.respondWith Wire.encBool (Gen.be_nn.is_valid today__ x0)) : Option String).getD "badargs"
    | _ => "badargs"
  | "validate" => match args with
    | [t, a0] => (do let today__ ← Wire.decDate t; let x0 ← Wire.decStr a0; pure (Wire.respondWith Wire.encStr (Gen.be_nn.validate today__ x0)) : Option String).getD "badargs"
    | _ => "badargs"
  | _ => "nofunc"
end Driver.D_be_nn
