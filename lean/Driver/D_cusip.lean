import PyRt
import Gen.cusip
open Py Lean
namespace Driver.D_cusip
def handle (fn : String) (args : List Json) : String :=
  match fn with
  | "calc_check_digit" => match args with
    | [a0] => (do let x0 ← Wire.decStr a0; pure (Wire.respondWith Wire.encStr (Gen.cusip.calc_check_digit x0)) : Option String).getD "badargs"
    | _ => "badargs"
  | "compact" => match args with
    | [a0] => (do let x0 ← Wire.decStr a0; pure (Wire.respondWith Wire.encStr (Gen.cusip.compact x0)) : Option String).getD "badargs"
    | _ => "badargs"
  | "is_valid" => match args with
    | [a0] => (do let x0 ← Wire.decStr a0; pure (Wire.respondWith Wire.encBool (Gen.cusip.is_valid x0)) : Option String).getD "badargs"
    | _ => "badargs"
  | "to_isin" => match args with
    | [a0] => (do let x0 ← Wire.decStr a0; pure (Wire.respondWith Wire.encStr (Gen.cusip.to_isin x0)) : Option String).getD "badargs"
    | _ => "badargs"
  | "validate" => match args with
    | [a0] => (do let x0 ← Wire.decStr a0; pure (Wire.respondWith Wire.encStr (Gen.cusip.validate x0)) : Option String).getD "badargs"
    | _ => "badargs"
  | _ => "nofunc"
end Driver.D_cusip
