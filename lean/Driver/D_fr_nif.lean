import PyRt
import Gen.fr_nif
open Py Lean
namespace Driver.D_fr_nif
def handle (fn : String) (args : List Json) : String :=
  match fn with
  | "calc_check_digits" => match args with
    | [a0] => (do let x0 ← Wire.decStr a0; pure (Wire.respondWith Wire.encStr (Gen.fr_nif.calc_check_digits x0)) : Option String).getD "badargs"
    | _ => "badargs"
  | "compact" => match args with
    | [a0] => (do let x0 ← Wire.decStr a0; pure (Wire.respondWith Wire.encStr (Gen.fr_nif.compact x0)) : Option String).getD "badargs"
    | _ => "badargs"
  | "format" => match args with
    | [a0] => (do let x0 ← Wire.decStr a0; pure (Wire.respondWith Wire.encStr (Gen.fr_nif.format x0)) : Option String).getD "badargs"
    | _ => "badargs"
  | "is_valid" => match args with
    | [a0] => (do let x0 ← Wire.decStr a0; pure (Wire.respondWith Wire.encBool (Gen.fr_nif.is_valid x0)) : Option String).getD "badargs"
    | _ => "badargs"
  | "validate" => match args with
    | [a0] => (do let x0 ← Wire.decStr a0; pure (Wire.respondWith Wire.encStr (Gen.fr_nif.validate x0)) : Option String).getD "badargs"
    | _ => "badargs"
  | _ => "nofunc"
end Driver.D_fr_nif
