import PyRt
import Gen.sg_uen
open Py Lean
namespace Driver.D_sg_uen
def handle (fn : String) (args : List Json) : String :=
  match fn with
  | "_validate_business" => match args with
    | [a0] => (do let x0 ← Wire.decStr a0; pure (Wire.respondWith Wire.encStr (Gen.sg_uen._validate_business x0)) : Option String).getD "badargs"
    | _ => "badargs"
  | "_validate_local_company" => match args with
    | [t, a0] => (do let today__ ← Wire.decDate t; let x0 ← Wire.decStr a0; pure (Wire.respondWith Wire.encStr (Gen.sg_uen._validate_local_company today__ x0)) : Option String).getD "badargs"
    | _ => "badargs"
  | "_validate_other" => match args with
    | [t, a0] => (do let today__ ← Wire.decDate t; let x0 ← Wire.decStr a0; pure (Wire.respondWith Wire.encStr (Gen.sg_uen._validate_other today__ x0)) : Option String).getD "badargs"
    | _ => "badargs"
  | "calc_business_check_digit" => match args with
    | [a0] => (do let x0 ← Wire.decStr a0; pure (Wire.respondWith Wire.encStr (Gen.sg_uen.calc_business_check_digit x0)) : Option String).getD "badargs"
    | _ => "badargs"
  | "calc_local_company_check_digit" => match args with
    | [a0] => (do let x0 ← Wire.decStr a0; pure (Wire.respondWith Wire.encStr (Gen.sg_uen.calc_local_company_check_digit x0)) : Option String).getD "badargs"
    | _ => "badargs"
  | "calc_other_check_digit" => match args with
    | [a0] => (do let x0 ← Wire.decStr a0; pure (Wire.respondWith Wire.encStr (Gen.sg_uen.calc_other_check_digit x0)) : Option String).getD "badargs"
    | _ => "badargs"
  | "compact" => match args with
    | [a0] => (do let x0 ← Wire.decStr a0; pure (Wire.respondWith Wire.encStr (Gen.sg_uen.compact x0)) : Option String).getD "badargs"
    | _ => "badargs"
  | "format" => match args with
    | [a0] => (do let x0 ← Wire.decStr a0; pure (Wire.respondWith Wire.encStr (Gen.sg_uen.format x0)) : Option String).getD "badargs"
    | _ => "badargs"
  | "is_valid" => match args with
    | [t, a0] => (do let today__ ← Wire.decDate t; let x0 ← Wire.decStr a0; pure (Wire.respondWith Wire.encBool (Gen.sg_uen.is_valid today__ x0)) : Option String).getD "badargs"
    | _ => "badargs"
  | "validate" => match args with
    | [t, a0] => (do let today__ ← Wire.decDate t; let x0 ← Wire.decStr a0; pure (Wire.respondWith Wire.encStr (Gen.sg_uen.validate today__ x0)) : Option String).getD "badargs"
    | _ => "badargs"
  | _ => "nofunc"
end Driver.D_sg_uen
