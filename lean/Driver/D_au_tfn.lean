import PyRt
import Gen.au_tfn
open Py Lean
namespace Driver.D_au_tfn
def handle (fn : String) (args : List Json) : String :=
  match fn with
  | "checksum" => match args with
    | [a0] => (do let x0 ← Wire.decStr a0; pure (Wire.respondWith Wire.encInt (Gen.au_tfn.checksum x0)) : Option String).getD "badargs"
    | _ => "badargs"
  | "compact" => match args with
    | [a0] => (do let x0 ← Wire.decStr a0; pure (Wire.respondWith Wire.encStr (Gen.au_tfn.compact x0)) : Option String).getD "badargs"
    | _ => "badargs"
  | "format" => match args with
    | [a0] => (do let x0 ← Wire.decStr a0; pure (Wire.respondWith Wire.encStr (Gen.au_tfn.format x0)) : Option String).getD "badargs"
    | _ => "badargs"
  | "is_valid" => match args with
    | [a0] => (do let x0 ← Wire.decStr a0; pure (Wire.respondWith Wire.encBool (Gen.au_tfn.is_valid x0)) : Option String).getD "badargs"
    | _ => "badargs"
  | "validate" => match args with
    | [a0] => (do let x0 ← Wire.decStr a0; pure (Wire.respondWith Wire.encStr (Gen.au_tfn.validate x0)) : Option String).getD "badargs"
    | _ => "badargs"
  | _ => "nofunc"
end Driver.D_au_tfn
