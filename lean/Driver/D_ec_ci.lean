import PyRt
import Gen.ec_ci
open Py Lean
namespace Driver.D_ec_ci
def handle (fn : String) (args : List Json) : String :=
  match fn with
  | "_checksum" => match args with
    | [a0] => (do let x0 ← Wire.decStr a0; pure (Wire.respondWith Wire.encInt (Gen.ec_ci._checksum x0)) : Option String).getD "badargs"
    | _ => "badargs"
  | "compact" => match args with
    | [a0] => (do let x0 ← Wire.decStr a0; pure (Wire.respondWith Wire.encStr (Gen.ec_ci.compact x0)) : Option String).getD "badargs"
    | _ => "badargs"
  | "is_valid" => match args with
    | [a0] => (do let x0 ← Wire.decStr a0; pure (Wire.respondWith Wire.encBool (Gen.ec_ci.is_valid x0)) : Option String).getD "badargs"
    | _ => "badargs"
  | "validate" => match args with
    | [a0] => (do let x0 ← Wire.decStr a0; pure (Wire.respondWith Wire.encStr (Gen.ec_ci.validate x0)) : Option String).getD "badargs"
    | _ => "badargs"
  | _ => "nofunc"
end Driver.D_ec_ci
