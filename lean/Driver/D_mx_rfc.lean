import PyRt
import Gen.mx_rfc
open Py Lean
namespace Driver.D_mx_rfc
def handle (fn : String) (args : List Json) : String :=
  match fn with
  | "_get_date" => match args with
    | [a0] => (do let x0 ← Wire.decStr a0; pure (Wire.respondWith Wire.encDate (Gen.mx_rfc._get_date x0)) : Option String).getD "badargs"
    | _ => "badargs"
  | "calc_check_digit" => match args with
    | [a0] => (do let x0 ← Wire.decStr a0; pure (Wire.respondWith Wire.encStr (Gen.mx_rfc.calc_check_digit x0)) : Option String).getD "badargs"
    | _ => "badargs"
  | "compact" => match args with
    | [a0] => (do let x0 ← Wire.decStr a0; pure (Wire.respondWith Wire.encStr (Gen.mx_rfc.compact x0)) : Option String).getD "badargs"
    | _ => "badargs"
  | "format" => match args with
    | [a0, a1] => (do let x0 ← Wire.decStr a0; let x1 ← Wire.decStr a1; pure (Wire.respondWith Wire.encStr (Gen.mx_rfc.format x0 x1)) : Option String).getD "badargs"
    | _ => "badargs"
  | "is_valid" => match args with
    | [a0, a1] => (do let x0 ← Wire.decStr a0; let x1 ← Wire.decBool a1; pure (Wire.respondWith Wire.encBool (Gen.mx_rfc.is_valid x0 x1)) : Option String).getD "badargs"
    | _ => "badargs"
  | "validate" => match args with
    | [a0, a1] => (do let x0 ← Wire.decStr a0; let x1 ← Wire.decBool a1; pure (Wire.respondWith Wire.encStr (Gen.mx_rfc.validate x0 x1)) : Option String).getD "badargs"
    | _ => "badargs"
  | _ => "nofunc"
end Driver.D_mx_rfc
