import PyRt
import Gen.cn_ric
open Py Lean
namespace Driver.D_cn_ric
def handle (fn : String) (args : List Json) : String :=
  match fn with
  | "calc_check_digit" => match args with
    | [a0] => (do let x0 ← Wire.decStr a0; pure (Wire.respondWith Wire.encStr (Gen.cn_ric.calc_check_digit x0)) : Option String).getD "badargs"
    | _ => "badargs"
  | "compact" => match args with
    | [a0] => (do let x0 ← Wire.decStr a0; pure (Wire.respondWith Wire.encStr (Gen.cn_ric.compact x0)) : Option String).getD "badargs"
    | _ => "badargs"
  | "format" => match args with
    | [a0] => (do let x0 ← Wire.decStr a0; pure (Wire.respondWith Wire.encStr (Gen.cn_ric.format x0)) : Option String).getD "badargs"
    | _ => "badargs"
  | "get_birth_date" => match args with
    | [a0] => (do let x0 ← Wire.decStr a0; pure (Wire.respondWith Wire.encDate (Gen.cn_ric.get_birth_date x0)) : Option String).getD "badargs"
    | _ => "badargs"
  | "get_birth_place" => match args with
    | [a0] => (do let x0 ← Wire.decStr a0; pure (Wire.respondWith (Wire.encDict Wire.encStr Wire.encStr) (Gen.cn_ric.get_birth_place x0)) : Option String).getD "badargs"
    | _ => "badargs"
  | "is_valid" => match args with
    | [a0] => (do let x0 ← Wire.decStr a0; pure (Wire.respondWith Wire.encBool (Gen.cn_ric.is_valid x0)) : Option String).getD "badargs"
    | _ => "badargs"
  | "validate" => match args with
    | [a0] => (do let x0 ← Wire.decStr a0; pure (Wire.respondWith Wire.encStr (Gen.cn_ric.validate x0)) : Option String).getD "badargs"
    | _ => "badargs"
  | _ => "nofunc"
end Driver.D_cn_ric
