import PyRt
import Gen.cr_cr
open Py Lean
namespace Driver.D_cr_cr
def handle (fn : String) (args : List Json) : String :=
  match fn with
  | "compact" => match args with
    | [a0] => (do let x0 ← Wire.decStr a0; pure (Wire.respondWith Wire.encStr (Gen.cr_cr.compact x0)) : Option String).getD "badargs"
    | _ => "badargs"
  | "format" => match args with
    | [a0] => (do let x0 ← Wire.decStr a0; pure (Wire.respondWith Wire.encStr (Gen.cr_cr.format x0)) : Option String).getD "badargs"
    | _ => "badargs"
  | "is_valid" => match args with
    | [a0] => (do let x0 ← Wire.decStr a0; pure (Wire.respondWith Wire.encBool (Gen.cr_cr.is_valid x0)) : Option String).getD "badargs"
    | _ => "badargs"
  | "validate" => match args with
    | [a0] => (do let x0 ← Wire.decStr a0; pure (Wire.respondWith Wire.encStr (Gen.cr_cr.validate x0)) : Option String).getD "badargs"
    | _ => "badargs"
  | _ => "nofunc"
end Driver.D_cr_cr
