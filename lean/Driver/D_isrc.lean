import PyRt
import Gen.isrc
open Py Lean
namespace Driver.D_isrc
def handle (fn : String) (args : List Json) : String :=
  match fn with
  | "compact" => match args with
    | [a0] => (do let x0 ← Wire.decStr a0; pure (Wire.respondWith Wire.encStr (Gen.isrc.compact x0)) : Option String).getD "badargs"
    | _ => "badargs"
  | "format" => match args with
    | [a0, a1] => (do let x0 ← Wire.decStr a0; let x1 ← Wire.decStr a1; pure (Wire.respondWith Wire.encStr (Gen.isrc.format x0 x1)) : Option String).getD "badargs"
    | _ => "badargs"
  | "is_valid" => match args with
    | [a0] => (do let x0 ← Wire.decStr a0; pure (Wire.respondWith Wire.encBool (Gen.isrc.is_valid x0)) : Option String).getD "badargs"
    | _ => "badargs"
  | "validate" => match args with
    | [a0] => (do let x0 ← Wire.decStr a0; pure (Wire.respondWith Wire.encStr (Gen.isrc.validate x0)) : Option String).getD "badargs"
    | _ => "badargs"
  | _ => "nofunc"
end Driver.D_isrc
