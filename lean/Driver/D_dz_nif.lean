import PyRt
import Gen.dz_nif
open Py Lean
namespace Driver.D_dz_nif
def handle (fn : String) (args : List Json) : String :=
  match fn with
  | "compact" => match args with
    | [a0] => (do let x0 ← Wire.decStr a0; pure (Wire.respondWith Wire.encStr (Gen.dz_nif.compact x0)) : Option String).getD "badargs"
    | _ => "badargs"
  | "format" => match args with
    | [a0] => (do let x0 ← Wire.decStr a0; pure (Wire.respondWith Wire.encStr (Gen.dz_nif.format x0)) : Option String).getD "badargs"
    | _ => "badargs"
  | "is_valid" => match args with
    | [a0] => (do let x0 ← Wire.decStr a0; pure (Wire.respondWith Wire.encBool (Gen.dz_nif.is_valid x0)) : Option String).getD "badargs"
    | _ => "badargs"
  | "validate" => match args with
    | [a0] => (do let x0 ← Wire.decStr a0; pure (Wire.respondWith Wire.encStr (Gen.dz_nif.validate x0)) : Option String).getD "badargs"
    | _ => "badargs"
  | _ => "nofunc"
end Driver.D_dz_nif
