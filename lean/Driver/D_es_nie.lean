import PyRt
import Gen.es_nie
open Py Lean
namespace Driver.D_es_nie
def handle (fn : String) (args : List Json) : String :=
  match fn with
  | "calc_check_digit" => match args with
    | [a0] => (do let x0 ← Wire.decStr a0; pure (Wire.respondWith Wire.encStr (Gen.es_nie.calc_check_digit x0)) : Option String).getD "badargs"
    | _ => "badargs"
  | "is_valid" => match args with
    | [a0] => (do let x0 ← Wire.decStr a0; pure (Wire.respondWith Wire.encBool (Gen.es_nie.is_valid x0)) : Option String).getD "badargs"
    | _ => "badargs"
  | "validate" => match args with
    | [a0] => (do let x0 ← Wire.decStr a0; pure (Wire.respondWith Wire.encStr (Gen.es_nie.validate x0)) : Option String).getD "badargs"
    | _ => "badargs"
  | _ => "nofunc"
end Driver.D_es_nie
