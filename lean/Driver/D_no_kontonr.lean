import PyRt
import Gen.no_kontonr
open Py Lean
namespace Driver.D_no_kontonr
def handle (fn : String) (args : List Json) : String :=
  match fn with
  | "_calc_check_digit" => match args with
    | [a0] => (do let x0 ← Wire.decStr a0; pure (Wire.respondWith Wire.encStr (Gen.no_kontonr._calc_check_digit x0)) : Option String).getD "badargs"
    | _ => "badargs"
  | "compact" => match args with
    | [a0] => (do let x0 ← Wire.decStr a0; pure (Wire.respondWith Wire.encStr (Gen.no_kontonr.compact x0)) : Option String).getD "badargs"
    | _ => "badargs"
  | "format" => match args with
    | [a0] => (do let x0 ← Wire.decStr a0; pure (Wire.respondWith Wire.encStr (Gen.no_kontonr.format x0)) : Option String).getD "badargs"
    | _ => "badargs"
  | "is_valid" => match args with
    | [a0] => (do let x0 ← Wire.decStr a0; pure (Wire.respondWith Wire.encBool (Gen.no_kontonr.is_valid x0)) : Option String).getD "badargs"
    | _ => "badargs"
  | "to_iban" => match args with
    | [a0] => (do let x0 ← Wire.decStr a0; pure (Wire.respondWith Wire.encStr (Gen.no_kontonr.to_iban x0)) : Option String).getD "badargs"
    | _ => "badargs"
  | "validate" => match args with
    | [a0] => (do let x0 ← Wire.decStr a0; pure (Wire.respondWith Wire.encStr (Gen.no_kontonr.validate x0)) : Option String).getD "badargs"
    | _ => "badargs"
  | _ => "nofunc"
end Driver.D_no_kontonr
