import PyRt
import Gen.id_npwp
open Py Lean
namespace Driver.D_id_npwp
def handle (fn : String) (args : List Json) : String :=
  match fn with
  | "compact" => match args with
    | [a0] => (do let x0 ← Wire.decStr a0; pure (Wire.respondWith Wire.encStr (Gen.id_npwp.compact x0)) : Option String).getD "badargs"
    | _ => "badargs"
  | "format" => match args with
    | [a0] => (do let x0 ← Wire.decStr a0; pure (Wire.respondWith Wire.encStr (Gen.id_npwp.format x0)) : Option String).getD "badargs"
    | _ => "badargs"
  | "is_valid" => match args with
    | [a0] => (do let x0 ← Wire.decStr a0; pure (Wire.respondWith Wire.encBool (Gen.id_npwp.is_valid x0)) : Option String).getD "badargs"
    | _ => "badargs"
  | "validate" => match args with
    | [a0] => (do let x0 ← Wire.decStr a0; pure (Wire.respondWith Wire.encStr (Gen.id_npwp.validate x0)) : Option String).getD "badargs"
    | _ => "badargs"
  | _ => "nofunc"
end Driver.D_id_npwp
