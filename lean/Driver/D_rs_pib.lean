import PyRt
import Gen.rs_pib
open Py Lean
namespace Driver.D_rs_pib
def handle (fn : String) (args : List Json) : String :=
  match fn with
  | "compact" => match args with
    | [a0] => (do let x0 ← Wire.decStr a0; pure (Wire.respondWith Wire.encStr (Gen.rs_pib.compact x0)) : Option String).getD "badargs"
    | _ => "badargs"
  | "is_valid" => match args with
    | [a0] => (do let x0 ← Wire.decStr a0; pure (Wire.respondWith Wire.encBool (Gen.rs_pib.is_valid x0)) : Option String).getD "badargs"
    | _ => "badargs"
  | "validate" => match args with
    | [a0] => (do let x0 ← Wire.decStr a0; pure (Wire.respondWith Wire.encStr (Gen.rs_pib.validate x0)) : Option String).getD "badargs"
    | _ => "badargs"
  | _ => "nofunc"
end Driver.D_rs_pib
