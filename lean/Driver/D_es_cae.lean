import PyRt
import Gen.es_cae
open Py Lean
namespace Driver.D_es_cae
def handle (fn : String) (args : List Json) : String :=
  match fn with
  | "compact" => match args with
    | [a0] => (do let x0 ← Wire.decStr a0; pure (Wire.respondWith Wire.encStr (Gen.es_cae.compact x0)) : Option String).getD "badargs"
    | _ => "badargs"
  | "is_valid" => match args with
    | [a0] => (do let x0 ← Wire.decStr a0; pure (Wire.respondWith Wire.encBool (Gen.es_cae.is_valid x0)) : Option String).getD "badargs"
    | _ => "badargs"
  | "validate" => match args with
    | [a0] => (do let x0 ← Wire.decStr a0; pure (Wire.respondWith Wire.encStr (Gen.es_cae.validate x0)) : Option String).getD "badargs"
    | _ => "badargs"
  | _ => "nofunc"
end Driver.D_es_cae
