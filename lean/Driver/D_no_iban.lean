import PyRt
import Gen.no_iban
open Py Lean
namespace Driver.D_no_iban
def handle (fn : String) (args : List Json) : String :=
  match fn with
  | "is_valid" => match args with
    | [a0] => (do let x0 ← Wire.decStr a0; pure (Wire.respondWith Wire.encBool (Gen.no_iban.is_valid x0)) : Option String).getD "badargs"
    | _ => "badargs"
  | "to_kontonr" => match args with
    | [a0] => (do let x0 ← Wire.decStr a0; pure (Wire.respondWith Wire.encStr (Gen.no_iban.to_kontonr x0)) : Option String).getD "badargs"
    | _ => "badargs"
  | "validate" => match args with
    | [a0] => (do let x0 ← Wire.decStr a0; pure (Wire.respondWith Wire.encStr (Gen.no_iban.validate x0)) : Option String).getD "badargs"
    | _ => "badargs"
  | _ => "nofunc"
end Driver.D_no_iban
