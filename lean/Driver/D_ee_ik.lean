import PyRt
import Gen.ee_ik
open Py Lean
namespace Driver.D_ee_ik
def handle (fn : String) (args : List Json) : String :=
  match fn with
  | "calc_check_digit" => match args with
    | [a0] => (do let x0 ← Wire.decStr a0; pure (Wire.respondWith Wire.encStr (Gen.ee_ik.calc_check_digit x0)) : Option String).getD "badargs"
    | _ => "badargs"
  | "compact" => match args with
    | [a0] => (do let x0 ← Wire.decStr a0; pure (Wire.respondWith Wire.encStr (Gen.ee_ik.compact x0)) : Option String).getD "badargs"
    | _ => "badargs"
  | "get_birth_date" => match args with
    | [a0] => (do let x0 ← Wire.decStr a0; pure (Wire.respondWith Wire.encDate (Gen.ee_ik.get_birth_date x0)) : Option String).getD "badargs"
    | _ => "badargs"
  | "get_gender" => match args with
    | [a0] => (do let x0 ← Wire.decStr a0; pure (Wire.respondWith Wire.encStr (Gen.ee_ik.get_gender x0)) : Option String).getD "badargs"
    | _ => "badargs"
  | "is_valid" => match args with
    | [a0] => (do let x0 ← Wire.decStr a0; pure (Wire.respondWith Wire.encBool (Gen.ee_ik.is_valid x0)) : Option String).getD "badargs"
    | _ => "badargs"
  | "validate" => match args with
    | [a0] => (do let x0 ← Wire.decStr a0; pure (Wire.respondWith Wire.encStr (Gen.ee_ik.validate x0)) : Option String).getD "badargs"
    | _ => "badargs"
  | _ => "nofunc"
end Driver.D_ee_ik
