import PyRt.Wire
import Spec.Standards
/-!
# Driver.Standards — wire dispatch for the declarative standards of `Spec/Standards.lean` (property C07)

Targets `std.<format>` with one string argument; the response is `ok {"s":[…]}` (the canonical form) when the
standard accepts the canonicalised argument and `ok null` otherwise.  Formats: issn, ean, isbn, ismn, imo, casrn,
imei, isin, cusip, sedol, figi, lei, iso11649, isni, grid, bic, isrc, iban (`check_country=False`: the registry rules alone,
with the table `Spec.Standards.ibanRegistry` read off the embedded `iban.dat`).
-/
open Lean (Json)
namespace Driver.Standards
open Py Py.Wire Spec.Standards

private def one (args : List Json) (std : Str → Bool) (canon : Str → Str) : String :=
  match args with
  | [n] => match (fromWire n : Option Str) with
    | some n => respond (.ok (verdict std canon n) : R (Option Str))
    | none => "badargs"
  | _ => "badargs"

def handle (target : String) (args : List Json) : Option String :=
  match target with
  | "std.issn" => some (one args Std_issn canon_issn)
  | "std.ean" => some (one args Std_ean canon_ean)
  | "std.isbn" => some (one args Std_isbn canon_isbn)
  | "std.ismn" => some (one args Std_ismn canon_ismn)
  | "std.imo" => some (one args Std_imo canon_imo)
  | "std.casrn" => some (one args Std_casrn canon_casrn)
  | "std.imei" => some (one args Std_imei canon_imei)
  | "std.isin" => some (one args Std_isin canon_isin)
  | "std.cusip" => some (one args Std_cusip canon_cusip)
  | "std.sedol" => some (one args Std_sedol canon_sedol)
  | "std.figi" => some (one args Std_figi canon_figi)
  | "std.lei" => some (one args Std_lei canon_lei)
  | "std.iso11649" => some (one args Std_iso11649 canon_iso11649)
  | "std.isni" => some (one args Std_isni canon_isni)
  | "std.grid" => some (one args Std_grid canon_grid)
  | "std.bic" => some (one args Std_bic canon_bic)
  | "std.isrc" => some (one args Std_isrc canon_isrc)
  | "std.iban" => some (one args (Std_iban ibanRegistry) canon_iban)
  | _ => none

end Driver.Standards
