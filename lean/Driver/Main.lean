import PyRt
import Driver.Dispatch
import Driver.Unicode
import Driver.Wsgi
import Driver.Checksum
import Driver.Regex
import Driver.Str
import Driver.NumDB
import Driver.Standards
import Driver.GS1
/-!
Native model driver: one request per line on stdin (`<module>:<function>\t<json args>`),
one response per line on stdout.  Hand-written handlers for the spec-level models are tried first.
-/
open Lean

namespace Driver

/-- handlers of the hand-written models (spec level, PyRt built-ins) -/
def handWritten (target : String) (args : List Json) : Option String :=
  (Driver.Unicode.handle target args).orElse fun _ =>
  (Driver.Wsgi.handle? target args).orElse fun _ =>
  (Driver.Checksum.handle target args).orElse fun _ =>
  (if target.startsWith "re." then some (Driver.Regex.handle target args) else none).orElse fun _ =>
  (Driver.Str.handle target args).orElse fun _ =>
  (Driver.NumDB.handle target args).orElse fun _ =>
  (Driver.Standards.handle target args).orElse fun _ =>
  (Driver.GS1.handle target args)

def handleLine (line : String) : String :=
  match Py.Wire.parseLine line with
  | none => "badline"
  | some (target, args) =>
    match handWritten target args with
    | some r => r
    | none =>
    match target.splitOn ":" with
    | [modname, fn] => dispatchGen modname fn args
    | _ => "badtarget"

partial def loop (inp out : IO.FS.Stream) : IO Unit := do
  let line ← inp.getLine
  if line.isEmpty then return ()
  out.putStrLn (handleLine line)
  loop inp out

end Driver

def main : IO Unit := do
  let inp ← IO.getStdin
  let out ← IO.getStdout
  Driver.loop inp out
  out.flush
