import PyRt
import Gen.ch_uid
open Py Lean
namespace Driver.D_ch_uid
def handle (fn : String) (args : List Json) : String :=
  match fn with
  | "calc_check_digit" => match args with
    | [a0] => (do let x0 ← Wire.decStr a0; pure (Wire.respondWith Wire.encStr (Gen.ch_uid.calc_check_digit x0)) : Option String).getD "badargs"
    | _ => "badargs"
  | "compact" => match args with
    | [a0] => (do let x0 ← Wire.decStr a0; pure (Wire.respondWith Wire.encStr (Gen.ch_uid.compact x0)) : Option String).getD "badargs"
    | _ => "badargs"
  | "format" => match args with
    | [a0] => (do let x0 ← Wire.decStr a0; pure (Wire.respondWith Wire.encStr (Gen.ch_uid.format x0)) : Option String).getD "badargs"
    | _ => "badargs"
  | "is_valid" => match args with
    | [a0] => (do let x0 ← Wire.decStr a0; pure (Wire.respondWith Wire.encBool (Gen.ch_uid.is_valid x0)) : Option String).getD "badargs"
    | _ => "badargs"
  | "validate" => match args with
    | [a0] => (do let x0 ← Wire.decStr a0; pure (Wire.respondWith Wire.encStr (Gen.ch_uid.validate x0)) : Option String).getD "badargs"
    | _ => "badargs"
  | _ => "nofunc"
end Driver.D_ch_uid
