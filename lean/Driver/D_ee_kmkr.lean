import PyRt
import Gen.ee_kmkr
open Py Lean
namespace Driver.D_ee_kmkr
def handle (fn : String) (args : List Json) : String :=
  match fn with
  | "checksum" => match args with
    | [a0] => (do let x0 ← Wire.decStr a0; pure (Wire.respondWith Wire.encInt (Gen.ee_kmkr.checksum x0)) : Option String).getD "badargs"
    | _ => "badargs"
  | "compact" => match args with
    | [a0] => (do let x0 ← Wire.decStr a0; pure (Wire.respondWith Wire.encStr (Gen.ee_kmkr.compact x0)) : Option String).getD "badargs"
    | _ => "badargs"
  | "is_valid" => match args with
    | [a0] => (do let x0 ← Wire.decStr a0; pure (Wire.respondWith Wire.encBool (Gen.ee_kmkr.is_valid x0)) : Option String).getD "badargs"
    | _ => "badargs"
  | "validate" => match args with
    | [a0] => (do let x0 ← Wire.decStr a0; pure (Wire.respondWith Wire.encStr (Gen.ee_kmkr.validate x0)) : Option String).getD "badargs"
    | _ => "badargs"
  | _ => "nofunc"
end Driver.D_ee_kmkr
