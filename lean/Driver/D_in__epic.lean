import PyRt
import Gen.in__epic
open Py Lean
namespace Driver.D_in__epic
def handle (fn : String) (args : List Json) : String :=
  match fn with
  | "compact" => match args with
    | [a0] => (do let x0 ← Wire.decStr a0; pure (Wire.respondWith Wire.encStr (Gen.in__epic.compact x0)) : Option String).getD "badargs"
    | _ => "badargs"
  | "is_valid" => match args with
    | [a0] => (do let x0 ← Wire.decStr a0; pure (Wire.respondWith Wire.encBool (Gen.in__epic.is_valid x0)) : Option String).getD "badargs"
    | _ => "badargs"
  | "validate" => match args with
    | [a0] => (do let x0 ← Wire.decStr a0; pure (Wire.respondWith Wire.encStr (Gen.in__epic.validate x0)) : Option String).getD "badargs"
    | _ => "badargs"
  | _ => "nofunc"
end Driver.D_in__epic
