import PyRt
import Gen.my_nric
open Py Lean
namespace Driver.D_my_nric
def handle (fn : String) (args : List Json) : String :=
  match fn with
  | "compact" => match args with
    | [a0] => (do let x0 ← Wire.decStr a0; pure (Wire.respondWith Wire.encStr (Gen.my_nric.compact x0)) : Option String).getD "badargs"
    | _ => "badargs"
  | "format" => match args with
    | [a0] => (do let x0 ← Wire.decStr a0; pure (Wire.respondWith Wire.encStr (Gen.my_nric.format x0)) : Option String).getD "badargs"
    | _ => "badargs"
  | "get_birth_date" => match args with
    | [a0] => (do let x0 ← Wire.decStr a0; pure (Wire.respondWith Wire.encDate (Gen.my_nric.get_birth_date x0)) : Option String).getD "badargs"
    | _ => "badargs"
  | "get_birth_place" => match args with
    | [a0] => (do let x0 ← Wire.decStr a0; pure (Wire.respondWith (Wire.encDict Wire.encStr Wire.encStr) (Gen.my_nric.get_birth_place x0)) : Option String).getD "badargs"
    | _ => "badargs"
  | "is_valid" => match args with
    | [a0] => (do let x0 ← Wire.decStr a0; pure (Wire.respondWith Wire.encBool (Gen.my_nric.is_valid x0)) : Option String).getD "badargs"
    | _ => "badargs"
  | "validate" => match args with
    | [a0] => (do let x0 ← Wire.decStr a0; pure (Wire.respondWith Wire.encStr (Gen.my_nric.validate x0)) : Option String).getD "badargs"
    | _ => "badargs"
  | _ => "nofunc"
end Driver.D_my_nric
