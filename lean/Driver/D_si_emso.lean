import PyRt
import Gen.si_emso
open Py Lean
namespace Driver.D_si_emso
def handle (fn : String) (args : List Json) : String :=
  match fn with
  | "calc_check_digit" => match args with
    | [a0] => (do let x0 ← Wire.decStr a0; pure (Wire.respondWith Wire.encStr (Gen.si_emso.calc_check_digit x0)) : Option String).getD "badargs"
    | _ => "badargs"
  | "compact" => match args with
    | [a0] => (do let x0 ← Wire.decStr a0; pure (Wire.respondWith Wire.encStr (Gen.si_emso.compact x0)) : Option String).getD "badargs"
    | _ => "badargs"
  | "format" => match args with
    | [a0] => (do let x0 ← Wire.decStr a0; pure (Wire.respondWith Wire.encStr (Gen.si_emso.format x0)) : Option String).getD "badargs"
    | _ => "badargs"
  | "get_birth_date" => match args with
    | [a0] => (do let x0 ← Wire.decStr a0; pure (Wire.respondWith Wire.encDate (Gen.si_emso.get_birth_date x0)) : Option String).getD "badargs"
    | _ => "badargs"
  | "get_gender" => match args with
    | [a0] => (do let x0 ← Wire.decStr a0; pure (Wire.respondWith Wire.encStr (Gen.si_emso.get_gender x0)) : Option String).getD "badargs"
    | _ => "badargs"
  | "get_region" => match args with
    | [a0] => (do let x0 ← Wire.decStr a0; pure (Wire.respondWith Wire.encStr (Gen.si_emso.get_region x0)) : Option String).getD "badargs"
    | _ => "badargs"
  | "is_valid" => match args with
    | [a0] => (do let x0 ← Wire.decStr a0; pure (Wire.respondWith Wire.encBool (Gen.si_emso.is_valid x0)) : Option String).getD "badargs"
    | _ => "badargs"
  | "validate" => match args with
    | [a0] => (do let x0 ← Wire.decStr a0; pure (Wire.respondWith Wire.encStr (Gen.si_emso.validate x0)) : Option String).getD "badargs"
    | _ => "badargs"
  | _ => "nofunc"
end Driver.D_si_emso
