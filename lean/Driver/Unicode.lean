import Lean.Data.Json
import PyRt.Basic
import PyRt.Wire
import PyRt.Unicode
import PyRt.Strip
import PyRt.Int
/-!
# Driver.Unicode — differential-test entry points for `PyRt.Unicode`, `PyRt.Strip`, `PyRt.Int`

`handle target args` answers the wire protocol of `PyRt.Wire` (`none` = target not known here).

Integers travel as JSON numbers; numbers with more than 18 digits travel as `{"hex":"-1f…"}` in
both directions (CPython's `json` cannot print or read integers above its 4300-digit limit).

Targets
* `str.upper str.lower str.isdigit str.isdecimal str.isnumeric str.isalpha str.isalnum str.isspace
  str.isupper str.islower to_min` — `[s]`
* `str.strip str.lstrip str.rstrip` — `[s]`, `[s, null]` or `[s, chars]`
* `int` — `[s]` or `[s, base]`;  `str_of_int` — `[i]`
* `fmt` — `[format, i₁, …, iₙ]`, conversions `%d %i %x %X %s` with optional `0` flag and width, `%%`
* `int.mod int.floordiv int.divmod` — `[a, b]`; `int.bit_length` — `[a]`
* `uni.range` — `[name, lo, hi]`: the per-character function `name` on every `lo ≤ c < hi`, as a list
-/
open Lean (Json)
namespace Driver.Unicode
open Py Py.Wire

def hexOfInt (i : Int) : String :=
  (if i < 0 then "-" else "") ++ String.ofList ((natToStrBase 16 false i.natAbs).map Char.ofNat)

def intToWire (i : Int) : Json :=
  if i.natAbs < 1000000000000000000 then Json.num (Lean.JsonNumber.fromInt i)
  else Json.mkObj [("hex", Json.str (hexOfInt i))]

def intFromWire (j : Json) : Option Int :=
  match j with
  | .num _ => intOfJson j
  | _ =>
    match j.getObjVal? "hex" with
    | .ok (.str h) =>
      match intOfBase (h.toList.map Char.toNat) 16 with
      | .ok v => some v
      | .error _ => none
    | _ => none

def respondInt (r : R Int) : String :=
  match r with
  | .ok v => "ok " ++ (intToWire v).compress
  | .error e => "err " ++ excName e

def natList (l : List Nat) : Json := Json.arr (l.toArray.map (fun c => Json.num (Lean.JsonNumber.fromNat c)))
def optNat (o : Option Nat) : Json := match o with | some n => Json.num (Lean.JsonNumber.fromNat n) | none => Json.null

/-- per-character functions by name -/
def charFn (name : String) : Option (Nat → Json) :=
  match name with
  | "decimal" => some (fun c => optNat (Uni.decimal? c))
  | "digit" => some (fun c => optNat (Uni.digit? c))
  | "isdecimal" => some (fun c => Json.bool (Uni.isDecimal c))
  | "isdigit" => some (fun c => Json.bool (Uni.isDigit c))
  | "isnumeric" => some (fun c => Json.bool (Uni.isNumeric c))
  | "isalpha" => some (fun c => Json.bool (Uni.isAlpha c))
  | "isalnum" => some (fun c => Json.bool (Uni.isAlnum c))
  | "isspace" => some (fun c => Json.bool (Uni.isSpace c))
  | "islower" => some (fun c => Json.bool (Uni.isLower c))
  | "isupper" => some (fun c => Json.bool (Uni.isUpper c))
  | "istitle" => some (fun c => Json.bool (Uni.isTitle c))
  | "iscased" => some (fun c => Json.bool (Uni.isCased c))
  | "iscaseignorable" => some (fun c => Json.bool (Uni.isCaseIgnorable c))
  | "iszs" => some (fun c => Json.bool (Uni.isZs c))
  | "isintspace" => some (fun c => Json.bool (isIntSpace c))
  | "upper" => some (fun c => natList (Uni.upperC c))
  | "lower" => some (fun c => natList (Uni.lowerC c))
  | "upper1" => some (fun c => Json.num (Lean.JsonNumber.fromNat (Uni.upper1 c)))
  | "lower1" => some (fun c => Json.num (Lean.JsonNumber.fromNat (Uni.lower1 c)))
  | "nfdaz" => some (fun c => natList (Uni.nfdAZ c))
  | "s.int" => some (fun c => match intOf [c] with
      | .ok v => Json.num (Lean.JsonNumber.fromInt v)
      | .error _ => Json.null)
  | "s.tomin" => some (fun c => natList (toMin [c]))
  | "s.isupper" => some (fun c => Json.bool (isupper [c]))
  | "s.islower" => some (fun c => Json.bool (islower [c]))
  | "s.strip" => some (fun c => natList (strip [c]))
  | _ => none

/-! ### `%`-formatting (test-side parser of the format string) -/

structure Conv where
  zero : Bool
  width : Nat
  conv : Nat
deriving Inhabited

/-- parse flags/width/conversion after a `%` -/
def parseConv (s : List Nat) : Option (Conv × List Nat) :=
  let (zero, s) := match s with | 48 :: t => (true, t) | _ => (false, s)
  let ds := s.takeWhile isAsciiDigit
  let s := s.dropWhile isAsciiDigit
  let width := ds.foldl (fun a d => a * 10 + (d - 48)) 0
  match s with
  | c :: t => some ({ zero, width, conv := c }, t)
  | [] => none

def fmtGo : Nat → List Nat → List Int → Option (R Str)
  | 0, _, _ => none
  | _ + 1, [], [] => some (pure [])
  | _ + 1, [], _ :: _ => none
  | fuel + 1, 37 :: 37 :: t, args => (fmtGo fuel t args).map (fun r => r.map (37 :: ·))
  | fuel + 1, 37 :: t, args =>
    match parseConv t, args with
    | some (cv, rest), i :: args =>
      let piece : Option (R Str) :=
        if cv.conv == 100 || cv.conv == 105 then some (fmtDR cv.width cv.zero i)
        else if cv.conv == 88 then some (fmtX cv.width cv.zero true i)
        else if cv.conv == 120 then some (fmtX cv.width cv.zero false i)
        else if cv.conv == 115 then
          some ((fmtSInt i).map (fun s => List.replicate (cv.width - s.length) 32 ++ s))
        else none
      match piece, fmtGo fuel rest args with
      | some p, some r => some (do let a ← p; let b ← r; pure (a ++ b))
      | _, _ => none
    | _, _ => none
  | fuel + 1, c :: t, args => (fmtGo fuel t args).map (fun r => r.map (c :: ·))

def fmt (f : Str) (args : List Int) : Option (R Str) := fmtGo (f.length + 1) f args

def stripArgs (args : List Json) : Option (Str × Option Str) :=
  match args with
  | [s] => (strOfJson s).map (·, none)
  | [s, .null] => (strOfJson s).map (·, none)
  | [s, ch] => do let s ← strOfJson s; let ch ← strOfJson ch; pure (s, some ch)
  | _ => none

def str1 (args : List Json) (f : Str → String) : String :=
  match args with
  | [s] => match strOfJson s with | some s => f s | none => "badargs"
  | _ => "badargs"

def okStr (s : Str) : String := respond (α := Str) (pure s)
def okBool (b : Bool) : String := respond (α := Bool) (pure b)

def int2 (args : List Json) (f : Int → Int → String) : String :=
  match args with
  | [a, b] => match intFromWire a, intFromWire b with
    | some a, some b => f a b
    | _, _ => "badargs"
  | _ => "badargs"

def handle (target : String) (args : List Json) : Option String :=
  match target with
  | "str.upper" => some (str1 args (fun s => okStr (upper s)))
  | "str.lower" => some (str1 args (fun s => okStr (lower s)))
  | "to_min" => some (str1 args (fun s => okStr (toMin s)))
  | "str.isdigit" => some (str1 args (fun s => okBool (isdigit s)))
  | "str.isdecimal" => some (str1 args (fun s => okBool (isdecimal s)))
  | "str.isnumeric" => some (str1 args (fun s => okBool (isnumeric s)))
  | "str.isalpha" => some (str1 args (fun s => okBool (isalpha s)))
  | "str.isalnum" => some (str1 args (fun s => okBool (isalnum s)))
  | "str.isspace" => some (str1 args (fun s => okBool (isspace s)))
  | "str.isupper" => some (str1 args (fun s => okBool (isupper s)))
  | "str.islower" => some (str1 args (fun s => okBool (islower s)))
  | "str.strip" => some (match stripArgs args with
      | some (s, none) => okStr (strip s)
      | some (s, some ch) => okStr (stripChars s ch)
      | none => "badargs")
  | "str.lstrip" => some (match stripArgs args with
      | some (s, none) => okStr (lstrip s)
      | some (s, some ch) => okStr (lstripChars s ch)
      | none => "badargs")
  | "str.rstrip" => some (match stripArgs args with
      | some (s, none) => okStr (rstrip s)
      | some (s, some ch) => okStr (rstripChars s ch)
      | none => "badargs")
  | "int" => some (match args with
      | [s] => match strOfJson s with
        | some s => respondInt (intOf s)
        | none => "badargs"
      | [s, b] => match strOfJson s, natOfJson b with
        | some s, some b => respondInt (intOfBase s b)
        | _, _ => "badargs"
      | _ => "badargs")
  | "str_of_int" => some (match args with
      | [i] => match intFromWire i with
        | some i => respond (strOfIntR i)
        | none => "badargs"
      | _ => "badargs")
  | "fmt" => some (match args with
      | f :: rest => match strOfJson f, rest.mapM intFromWire with
        | some f, some is => match fmt f is with
          | some r => respond r
          | none => "badargs"
        | _, _ => "badargs"
      | _ => "badargs")
  | "int.mod" => some (int2 args (fun a b => respondInt (pymod a b)))
  | "int.floordiv" => some (int2 args (fun a b => respondInt (pyfloordiv a b)))
  | "int.divmod" => some (int2 args (fun a b =>
      match pydivmod a b with
      | .ok (q, r) => "ok " ++ (Json.mkObj [("t", Json.arr #[intToWire q, intToWire r])]).compress
      | .error e => "err " ++ excName e))
  | "int.bit_length" => some (match args with
      | [a] => match intFromWire a with
        | some a => respondInt (pure (intBitLength a))
        | none => "badargs"
      | _ => "badargs")
  | "uni.range" => some (match args with
      | [.str name, lo, hi] => match charFn name, natOfJson lo, natOfJson hi with
        | some f, some lo, some hi =>
          "ok " ++ (Json.arr ((List.range (hi - lo)).toArray.map (fun k => f (lo + k)))).compress
        | _, _, _ => "badargs"
      | _ => "badargs")
  | _ => none

end Driver.Unicode
