import PyRt
import Gen.luhn
open Py Lean
namespace Driver.D_luhn
def handle (fn : String) (args : List Json) : String :=
  match fn with
  | "calc_check_digit" => match args with
    | [a0, a1] => (do let x0 ← Wire.decStr a0; let x1 ← Wire.decStr a1; pure (Wire.respondWith Wire.encStr (Gen.luhn.calc_check_digit x0 x1)) : Option String).getD "badargs"
    | _ => "badargs"
  | "checksum" => match args with
    | [a0, a1] => (do let x0 ← Wire.decStr a0; let x1 ← Wire.decStr a1; pure (Wire.respondWith Wire.encInt (Gen.luhn.checksum x0 x1)) : Option String).getD "badargs"
    | _ => "badargs"
  | "is_valid" => match args with
    | [a0, a1] => (do let x0 ← Wire.decStr a0; let x1 ← Wire.decStr a1; pure (Wire.respondWith Wire.encBool (Gen.luhn.is_valid x0 x1)) : Option String).getD "badargs"
    | _ => "badargs"
  | "validate" => match args with
    | [a0, a1] => (do let x0 ← Wire.decStr a0; let x1 ← Wire.decStr a1; pure (Wire.respondWith Wire.encStr (Gen.luhn.validate x0 x1)) : Option String).getD "badargs"
    | _ => "badargs"
  | _ => "nofunc"
end Driver.D_luhn
