import PyRt
import Gen.isil
open Py Lean
namespace Driver.D_isil
def handle (fn : String) (args : List Json) : String :=
  match fn with
  | "_is_known_agency" => match args with
    | [a0] => (do let x0 ← Wire.decStr a0; pure (Wire.respondWith Wire.encBool (Gen.isil._is_known_agency x0)) : Option String).getD "badargs"
    | _ => "badargs"
  | "compact" => match args with
    | [a0] => (do let x0 ← Wire.decStr a0; pure (Wire.respondWith Wire.encStr (Gen.isil.compact x0)) : Option String).getD "badargs"
    | _ => "badargs"
  | "format" => match args with
    | [a0] => (do let x0 ← Wire.decStr a0; pure (Wire.respondWith Wire.encStr (Gen.isil.format x0)) : Option String).getD "badargs"
    | _ => "badargs"
  | "is_valid" => match args with
    | [a0] => (do let x0 ← Wire.decStr a0; pure (Wire.respondWith Wire.encBool (Gen.isil.is_valid x0)) : Option String).getD "badargs"
    | _ => "badargs"
  | "validate" => match args with
    | [a0] => (do let x0 ← Wire.decStr a0; pure (Wire.respondWith Wire.encStr (Gen.isil.validate x0)) : Option String).getD "badargs"
    | _ => "badargs"
  | _ => "nofunc"
end Driver.D_isil
